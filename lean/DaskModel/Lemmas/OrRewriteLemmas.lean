import DaskModel.Model.OrRewrite
/-! Helper lemmas for the soundness of `rewrite_filters` (C43, review round). -/
namespace Dask.OrRewrite

theorem truth_andFold (σ) (c : P) (cs : List P) : (andFold c cs).truth σ = (c.truth σ && cs.all (P.truth σ)) := by
  induction cs generalizing c with
  | nil => simp [andFold]
  | cons d ds ih => simp only [andFold, List.foldl_cons, List.all_cons] at ih ⊢; rw [ih]; simp [P.truth, Bool.and_assoc]

theorem truth_orFold (σ) (c : P) (cs : List P) : (orFold c cs).truth σ = (c.truth σ || cs.any (P.truth σ)) := by
  induction cs generalizing c with
  | nil => simp [orFold]
  | cons d ds ih => simp only [orFold, List.foldl_cons, List.any_cons] at ih ⊢; rw [ih]; simp [P.truth, Bool.or_assoc]

theorem truth_andComps (σ) (p : P) : p.truth σ = (andComps p).all (P.truth σ) := by
  induction p with
  | atom n => simp [andComps]
  | and a b iha ihb => simp [andComps, P.truth, iha, ihb, List.all_append]
  | or a b _ _ => simp [andComps]

theorem truth_orComps (σ) (p : P) : p.truth σ = (orComps p).any (P.truth σ) := by
  induction p with
  | atom n => simp [orComps]
  | or a b iha ihb => simp [orComps, P.truth, iha, ihb, List.any_append]
  | and a b _ _ => simp [orComps]

theorem andOf_truth (σ) (l : List P) (q : P) (h : andOf l = some q) : q.truth σ = l.all (P.truth σ) := by
  cases l with
  | nil => simp [andOf] at h
  | cons c cs => simp only [andOf, Option.some.injEq] at h; subst h; simp [truth_andFold]

theorem orOf_truth (σ) (l : List P) (q : P) (h : orOf l = some q) : q.truth σ = l.any (P.truth σ) := by
  cases l with
  | nil => simp [orOf] at h
  | cons c cs => simp only [orOf, Option.some.injEq] at h; subst h; simp [truth_orFold]

theorem all_eraseDups (f : P → Bool) (l : List P) : l.eraseDups.all f = l.all f := by
  rw [Bool.eq_iff_iff]
  simp only [List.all_eq_true, List.mem_eraseDups]

/-- splitting a clause into its shared conjuncts and the rest -/
theorem all_split (f : P → Bool) (R C : List P) (hsub : ∀ r ∈ R, r ∈ C) :
    C.all f = (R.all f && (C.filter (fun c => !R.contains c)).all f) := by
  rw [Bool.eq_iff_iff]
  simp only [List.all_eq_true, Bool.and_eq_true, List.mem_filter, Bool.not_eq_true', List.contains_eq_mem, decide_eq_false_iff_not, and_imp]
  constructor
  · intro h
    exact ⟨fun r hr => h r (hsub r hr), fun c hc _ => h c hc⟩
  · intro ⟨h1, h2⟩ c hc
    by_cases hcr : c ∈ R
    · exact h1 c hcr
    · exact h2 c hc hcr

theorem any_and_const (b : Bool) (g : List P → Bool) (cs : List (List P)) (_hne : cs ≠ []) :
    cs.any (fun c => b && g c) = (b && cs.any g) := by
  cases b with
  | true => simp
  | false => simp

theorem any_filterMap_andOf (σ) (kept : List (List P)) (hne : ∀ k ∈ kept, k ≠ []) :
    (kept.filterMap andOf).any (P.truth σ) = kept.any (fun k => k.all (P.truth σ)) := by
  induction kept with
  | nil => rfl
  | cons k ks ih =>
    have hk := hne k (by simp)
    cases hk' : andOf k with
    | none => cases k <;> simp_all [andOf]
    | some qk =>
      simp only [List.filterMap_cons, hk', List.any_cons, andOf_truth σ k qk hk']
      rw [ih (fun k' hk'' => hne k' (by simp [hk'']))]

theorem any_split (σ) (R : List P) (cs : List (List P)) (hall : ∀ comp ∈ cs, ∀ r ∈ R, r ∈ comp) (hne : cs ≠ []) :
    cs.any (fun c => c.all (P.truth σ)) =
      (R.all (P.truth σ) && (cs.map (fun comp => comp.filter (fun c => !R.contains c))).any (fun k => k.all (P.truth σ))) := by
  rw [List.any_map, ← any_and_const _ _ _ hne]
  simp only [Function.comp_def]
  clear hne
  induction cs with
  | nil => rfl
  | cons c cs ih =>
    simp only [List.any_cons]
    rw [ih (fun comp hc => hall comp (List.mem_cons_of_mem _ hc)), all_split _ R c (hall c (by simp))]

/-- whatever `finish` builds from shared conjuncts is equivalent to the OR of the clauses -/
theorem finish_sound (σ : Nat → Bool) (R : List P) (clauses : List (List P)) (q : P)
    (hall : ∀ comp ∈ clauses, ∀ r ∈ R, r ∈ comp) (hne : clauses ≠ [])
    (h : finish R clauses = some q) :
    q.truth σ = clauses.any (fun c => c.all (P.truth σ)) := by
  rw [any_split σ R clauses hall hne]
  unfold finish at h
  cases hout : andOf R with
  | none => simp [hout] at h
  | some outer =>
    simp only [hout] at h
    have houter := andOf_truth σ R outer hout
    generalize hkept : clauses.map (fun comp => comp.filter (fun c => !R.contains c)) = kept at h ⊢
    split at h
    · rename_i hany
      simp only [Option.some.injEq] at h; subst h
      have : kept.any (fun k => k.all (P.truth σ)) = true := by
        simp only [List.any_eq_true] at hany ⊢
        obtain ⟨k, hk, hemp⟩ := hany
        refine ⟨k, hk, ?_⟩
        simp only [List.isEmpty_iff] at hemp
        subst hemp; rfl
      rw [this, Bool.and_true, houter]
    · rename_i hany
      have hne' : ∀ k ∈ kept, k ≠ [] := by
        intro k hk hnil
        apply hany
        simp only [List.any_eq_true]
        exact ⟨k, hk, by simp [hnil]⟩
      have hfm := any_filterMap_andOf σ kept hne'
      cases hor : orOf (kept.filterMap andOf) with
      | none =>
        exfalso
        cases hkk : kept with
        | nil =>
          rw [hkk] at hkept
          exact hne (List.map_eq_nil_iff.mp hkept)
        | cons k ks =>
          have hk := hne' k (by rw [hkk]; simp)
          rw [hkk] at hor
          cases k with
          | nil => exact hk rfl
          | cons c cs => simp [andOf, orOf] at hor
      | some o =>
        simp only [hor, Option.some.injEq] at h; subst h
        simp only [P.truth, houter, orOf_truth σ _ o hor, hfm]

/-! ### size of a predicate: the termination measure of the OR-rewrite -/

def P.size : P → Nat
  | .atom _ => 1
  | .and a b => a.size + b.size
  | .or a b => a.size + b.size

def sizeL (l : List P) : Nat := (l.map P.size).sum

theorem size_pos (p : P) : 0 < p.size := by
  induction p with
  | atom n => simp [P.size]
  | and a b iha _ => simp only [P.size]; omega
  | or a b iha _ => simp only [P.size]; omega

theorem sizeL_append (a b : List P) : sizeL (a ++ b) = sizeL a + sizeL b := by simp [sizeL]
theorem sizeL_cons (a : P) (l : List P) : sizeL (a :: l) = a.size + sizeL l := by simp [sizeL]

theorem size_andComps (p : P) : p.size = sizeL (andComps p) := by
  induction p with
  | atom n => simp [andComps, sizeL, P.size]
  | and a b iha ihb => simp [andComps, P.size, sizeL_append, iha, ihb]
  | or a b _ _ => simp [andComps, sizeL]

theorem size_orComps (p : P) : p.size = sizeL (orComps p) := by
  induction p with
  | atom n => simp [orComps, sizeL, P.size]
  | or a b iha ihb => simp [orComps, P.size, sizeL_append, iha, ihb]
  | and a b _ _ => simp [orComps, sizeL]

theorem size_andFold (c : P) (cs : List P) : (andFold c cs).size = c.size + sizeL cs := by
  induction cs generalizing c with
  | nil => simp [andFold, sizeL]
  | cons d ds ih => simp only [andFold, List.foldl_cons] at ih ⊢; rw [ih, sizeL_cons]; simp [P.size]; omega

theorem size_orFold (c : P) (cs : List P) : (orFold c cs).size = c.size + sizeL cs := by
  induction cs generalizing c with
  | nil => simp [orFold, sizeL]
  | cons d ds ih => simp only [orFold, List.foldl_cons] at ih ⊢; rw [ih, sizeL_cons]; simp [P.size]; omega

theorem andOf_size (l : List P) (q : P) (h : andOf l = some q) : q.size = sizeL l := by
  cases l with
  | nil => simp [andOf] at h
  | cons c cs => simp only [andOf, Option.some.injEq] at h; subst h; rw [size_andFold, sizeL_cons]

theorem orOf_size (l : List P) (q : P) (h : orOf l = some q) : q.size = sizeL l := by
  cases l with
  | nil => simp [orOf] at h
  | cons c cs => simp only [orOf, Option.some.injEq] at h; subst h; rw [size_orFold, sizeL_cons]

theorem sizeL_filter_le (l : List P) (f : P → Bool) : sizeL (l.filter f) ≤ sizeL l := by
  induction l with
  | nil => simp [sizeL]
  | cons a t ih => by_cases h : f a = true <;> simp [List.filter_cons, h, sizeL_cons] <;> omega

theorem sizeL_filter_split (l : List P) (f : P → Bool) : sizeL l = sizeL (l.filter f) + sizeL (l.filter (fun x => !f x)) := by
  induction l with
  | nil => simp [sizeL]
  | cons a t ih => by_cases h : f a = true <;> simp [List.filter_cons, h, sizeL_cons, ih] <;> omega

theorem eraseDups_sizeL_nodup : ∀ (n : Nat) (l : List P), l.length ≤ n → sizeL l.eraseDups ≤ sizeL l ∧ l.eraseDups.Nodup := by
  intro n
  induction n with
  | zero => intro l h; have : l = [] := List.length_eq_zero_iff.mp (by omega); subst this; simp [sizeL]
  | succ n ih =>
    intro l h
    cases l with
    | nil => simp [sizeL]
    | cons a t =>
      rw [List.eraseDups_cons]
      have hlen : (t.filter (fun b => !b == a)).length ≤ n := by
        have := List.length_filter_le (fun b => !b == a) t
        simp only [List.length_cons] at h; omega
      obtain ⟨h1, h2⟩ := ih _ hlen
      constructor
      · rw [sizeL_cons, sizeL_cons]
        have := sizeL_filter_le t (fun b => !b == a)
        omega
      · rw [List.nodup_cons]
        refine ⟨?_, h2⟩
        rw [List.mem_eraseDups]
        simp

theorem sizeL_eraseDups_le (l : List P) : sizeL l.eraseDups ≤ sizeL l := (eraseDups_sizeL_nodup l.length l (Nat.le_refl _)).1
theorem nodup_eraseDups (l : List P) : l.eraseDups.Nodup := (eraseDups_sizeL_nodup l.length l (Nat.le_refl _)).2

/-- distinct shared conjuncts all occur in the clause: together they weigh no more than their occurrences there -/
theorem sizeL_le_filter_mem : ∀ (R D : List P), R.Nodup → (∀ r ∈ R, r ∈ D) → sizeL R ≤ sizeL (D.filter (fun c => R.contains c)) := by
  intro R
  induction R with
  | nil => intro D _ _; simp [sizeL]
  | cons r R' ih =>
    intro D hnd hsub
    rw [List.nodup_cons] at hnd
    have hsplit := sizeL_filter_split (D.filter (fun c => (r :: R').contains c)) (fun c => c == r)
    rw [List.filter_filter, List.filter_filter] at hsplit
    have h1 : r.size ≤ sizeL (D.filter (fun c => (c == r && (r :: R').contains c))) := by
      have hr : r ∈ D := hsub r (by simp)
      clear hsplit ih hsub
      induction D with
      | nil => cases hr
      | cons d D' ihD =>
        by_cases hd : d = r
        · subst hd; simp [List.filter_cons, sizeL_cons]
        · have : r ∈ D' := by simpa [Ne.symm hd] using hr
          have hb : (d == r) = false := by simpa using hd
          simp only [List.filter_cons, hb, Bool.false_and, Bool.false_eq_true, if_false]
          exact ihD this
    have h2 : D.filter (fun c => (!(c == r) && (r :: R').contains c)) = D.filter (fun c => (!(c == r) && R'.contains c)) := by
      apply List.filter_congr
      intro c _
      by_cases hc : c = r
      · simp [hc]
      · simp [hc]
    have h3 : sizeL R' ≤ sizeL (D.filter (fun c => (!(c == r) && R'.contains c))) := by
      have := ih D hnd.2 (fun x hx => hsub x (by simp [hx]))
      have heq : D.filter (fun c => R'.contains c) = D.filter (fun c => (!(c == r) && R'.contains c)) := by
        apply List.filter_congr
        intro c _
        by_cases hc : c = r
        · subst hc
          have : R'.contains c = false := by simpa using hnd.1
          simp [this]
          exact hnd.1
        · simp [hc]
      rw [heq] at this
      exact this
    rw [sizeL_cons, hsplit, h2]
    omega


def keptOf (R : List P) (comp : List P) : List P := comp.filter (fun c => !R.contains c)

theorem kept_bound (R comp : List P) (hR : R.Nodup) (hsub : ∀ r ∈ R, r ∈ comp) :
    sizeL (keptOf R comp) + sizeL R ≤ sizeL comp := by
  have h1 := sizeL_filter_split comp (fun c => R.contains c)
  have h2 := sizeL_le_filter_mem R comp hR hsub
  simp only [keptOf]
  omega

theorem kept_sum_bound (R : List P) (hR : R.Nodup) : ∀ (clauses : List (List P)), (∀ comp ∈ clauses, ∀ r ∈ R, r ∈ comp) →
    ((clauses.map (keptOf R)).map sizeL).sum + clauses.length * sizeL R ≤ (clauses.map sizeL).sum := by
  intro clauses
  induction clauses with
  | nil => intro _; simp
  | cons c cs ih =>
    intro hall
    have h1 := kept_bound R c hR (hall c (by simp))
    have h2 := ih (fun comp hc => hall comp (by simp [hc]))
    simp only [List.map_cons, List.sum_cons, List.length_cons, Nat.add_mul, Nat.one_mul]
    omega

theorem sizeL_filterMap_andOf : ∀ (kept : List (List P)), (∀ k ∈ kept, k ≠ []) →
    sizeL (kept.filterMap andOf) = (kept.map sizeL).sum := by
  intro kept
  induction kept with
  | nil => intro _; rfl
  | cons k ks ih =>
    intro hne
    have hk := hne k (by simp)
    cases hk' : andOf k with
    | none => cases k <;> simp_all [andOf]
    | some qk =>
      simp only [List.filterMap_cons, hk', sizeL_cons, List.map_cons, List.sum_cons, andOf_size k qk hk']
      rw [ih (fun k' hk'' => hne k' (by simp [hk'']))]

/-- whatever `finish` returns is smaller than the clauses it was built from, by at least the weight of the shared
    conjuncts (every one of them occurred in each of the `≥ 2` clauses and now occurs once) -/
theorem finish_size (R : List P) (clauses : List (List P)) (q : P) (hR : R.Nodup)
    (hall : ∀ comp ∈ clauses, ∀ r ∈ R, r ∈ comp) (hlen : 2 ≤ clauses.length) (h : finish R clauses = some q) :
    q.size + sizeL R ≤ (clauses.map sizeL).sum := by
  have hsum := kept_sum_bound R hR clauses hall
  have hn : 2 * sizeL R ≤ clauses.length * sizeL R := Nat.mul_le_mul_right _ hlen
  unfold finish at h
  cases hout : andOf R with
  | none => simp [hout] at h
  | some outer =>
    simp only [hout] at h
    have houter := andOf_size R outer hout
    have hk : clauses.map (fun comp => comp.filter (fun c => !R.contains c)) = clauses.map (keptOf R) := rfl
    rw [hk] at h
    split at h
    · simp only [Option.some.injEq] at h; subst h
      omega
    · rename_i hany
      have hne' : ∀ k ∈ clauses.map (keptOf R), k ≠ [] := by
        intro k hk hnil
        apply hany
        simp only [List.any_eq_true]
        exact ⟨k, hk, by simp [hnil]⟩
      have hfm := sizeL_filterMap_andOf _ hne'
      cases hor : orOf ((clauses.map (keptOf R)).filterMap andOf) with
      | none =>
        simp only [hor, Option.some.injEq] at h; subst h
        omega
      | some o =>
        simp only [hor, Option.some.injEq] at h; subst h
        have ho := orOf_size _ o hor
        simp only [P.size, houter, ho, hfm]
        omega

theorem shared_nodup (c0 : List P) (others : List (List P)) (h : c0.Nodup) : (shared c0 others).Nodup :=
  List.Nodup.sublist List.filter_sublist h

theorem sizeL_pos_of_andOf (R : List P) (q : P) (h : andOf R = some q) : 0 < sizeL R := by
  cases R with
  | nil => simp [andOf] at h
  | cons r rs => rw [sizeL_cons]; have := size_pos r; omega

end Dask.OrRewrite
