import DaskModel.Model.OrRewrite
/-! Helper lemmas for the soundness of `rewrite_filters` (C43, review round). -/
namespace Dask.OrRewrite

theorem truth_andFold (σ) (c : P) (cs : List P) : (andFold c cs).truth σ = (c.truth σ && cs.all (P.truth σ)) := by
  induction cs generalizing c with
  | nil => simp [andFold]
  | cons d ds ih => simp only [andFold, List.foldl_cons, List.all_cons] at ih ⊢; rw [ih]; simp [P.truth, Bool.and_assoc]

theorem truth_orFold (σ) (c : P) (cs : List P) : (orFold c cs).truth σ = (c.truth σ || cs.any (P.truth σ)) := by
  induction cs generalizing c with
  | nil => simp [orFold]
  | cons d ds ih => simp only [orFold, List.foldl_cons, List.any_cons] at ih ⊢; rw [ih]; simp [P.truth, Bool.or_assoc]

theorem truth_andComps (σ) (p : P) : p.truth σ = (andComps p).all (P.truth σ) := by
  induction p with
  | atom n => simp [andComps]
  | and a b iha ihb => simp [andComps, P.truth, iha, ihb, List.all_append]
  | or a b _ _ => simp [andComps]

theorem truth_orComps (σ) (p : P) : p.truth σ = (orComps p).any (P.truth σ) := by
  induction p with
  | atom n => simp [orComps]
  | or a b iha ihb => simp [orComps, P.truth, iha, ihb, List.any_append]
  | and a b _ _ => simp [orComps]

theorem andOf_truth (σ) (l : List P) (q : P) (h : andOf l = some q) : q.truth σ = l.all (P.truth σ) := by
  cases l with
  | nil => simp [andOf] at h
  | cons c cs => simp only [andOf, Option.some.injEq] at h; subst h; simp [truth_andFold]

theorem orOf_truth (σ) (l : List P) (q : P) (h : orOf l = some q) : q.truth σ = l.any (P.truth σ) := by
  cases l with
  | nil => simp [orOf] at h
  | cons c cs => simp only [orOf, Option.some.injEq] at h; subst h; simp [truth_orFold]

theorem all_eraseDups (f : P → Bool) (l : List P) : l.eraseDups.all f = l.all f := by
  rw [Bool.eq_iff_iff]
  simp only [List.all_eq_true, List.mem_eraseDups]

/-- splitting a clause into its shared conjuncts and the rest -/
theorem all_split (f : P → Bool) (R C : List P) (hsub : ∀ r ∈ R, r ∈ C) :
    C.all f = (R.all f && (C.filter (fun c => !R.contains c)).all f) := by
  rw [Bool.eq_iff_iff]
  simp only [List.all_eq_true, Bool.and_eq_true, List.mem_filter, Bool.not_eq_true', List.contains_eq_mem, decide_eq_false_iff_not, and_imp]
  constructor
  · intro h
    exact ⟨fun r hr => h r (hsub r hr), fun c hc _ => h c hc⟩
  · intro ⟨h1, h2⟩ c hc
    by_cases hcr : c ∈ R
    · exact h1 c hcr
    · exact h2 c hc hcr

theorem any_and_const (b : Bool) (g : List P → Bool) (cs : List (List P)) (_hne : cs ≠ []) :
    cs.any (fun c => b && g c) = (b && cs.any g) := by
  cases b with
  | true => simp
  | false => simp

theorem any_filterMap_andOf (σ) (kept : List (List P)) (hne : ∀ k ∈ kept, k ≠ []) :
    (kept.filterMap andOf).any (P.truth σ) = kept.any (fun k => k.all (P.truth σ)) := by
  induction kept with
  | nil => rfl
  | cons k ks ih =>
    have hk := hne k (by simp)
    cases hk' : andOf k with
    | none => cases k <;> simp_all [andOf]
    | some qk =>
      simp only [List.filterMap_cons, hk', List.any_cons, andOf_truth σ k qk hk']
      rw [ih (fun k' hk'' => hne k' (by simp [hk'']))]

theorem any_split (σ) (R : List P) (cs : List (List P)) (hall : ∀ comp ∈ cs, ∀ r ∈ R, r ∈ comp) (hne : cs ≠ []) :
    cs.any (fun c => c.all (P.truth σ)) =
      (R.all (P.truth σ) && (cs.map (fun comp => comp.filter (fun c => !R.contains c))).any (fun k => k.all (P.truth σ))) := by
  rw [List.any_map, ← any_and_const _ _ _ hne]
  simp only [Function.comp_def]
  clear hne
  induction cs with
  | nil => rfl
  | cons c cs ih =>
    simp only [List.any_cons]
    rw [ih (fun comp hc => hall comp (List.mem_cons_of_mem _ hc)), all_split _ R c (hall c (by simp))]

/-- whatever `finish` builds from shared conjuncts is equivalent to the OR of the clauses -/
theorem finish_sound (σ : Nat → Bool) (R : List P) (clauses : List (List P)) (q : P)
    (hall : ∀ comp ∈ clauses, ∀ r ∈ R, r ∈ comp) (hne : clauses ≠ [])
    (h : finish R clauses = some q) :
    q.truth σ = clauses.any (fun c => c.all (P.truth σ)) := by
  rw [any_split σ R clauses hall hne]
  unfold finish at h
  cases hout : andOf R with
  | none => simp [hout] at h
  | some outer =>
    simp only [hout] at h
    have houter := andOf_truth σ R outer hout
    generalize hkept : clauses.map (fun comp => comp.filter (fun c => !R.contains c)) = kept at h ⊢
    split at h
    · rename_i hany
      simp only [Option.some.injEq] at h; subst h
      have : kept.any (fun k => k.all (P.truth σ)) = true := by
        simp only [List.any_eq_true] at hany ⊢
        obtain ⟨k, hk, hemp⟩ := hany
        refine ⟨k, hk, ?_⟩
        simp only [List.isEmpty_iff] at hemp
        subst hemp; rfl
      rw [this, Bool.and_true, houter]
    · rename_i hany
      have hne' : ∀ k ∈ kept, k ≠ [] := by
        intro k hk hnil
        apply hany
        simp only [List.any_eq_true]
        exact ⟨k, hk, by simp [hnil]⟩
      have hfm := any_filterMap_andOf σ kept hne'
      cases hor : orOf (kept.filterMap andOf) with
      | none =>
        exfalso
        cases hkk : kept with
        | nil =>
          rw [hkk] at hkept
          exact hne (List.map_eq_nil_iff.mp hkept)
        | cons k ks =>
          have hk := hne' k (by rw [hkk]; simp)
          rw [hkk] at hor
          cases k with
          | nil => exact hk rfl
          | cons c cs => simp [andOf, orOf] at hor
      | some o =>
        simp only [hor, Option.some.injEq] at h; subst h
        simp only [P.truth, houter, orOf_truth σ _ o hor, hfm]

end Dask.OrRewrite
