import DaskModel.Lemmas.ArrOverlapNdLemmas
/-! C26 extension, value level: slices of separable gathers, trim ∘ overlap = id on n-d blocks, functions local
    within the per-axis depths. -/
namespace Dask.ArrOverlapNd
open Dask.ArrOverlap

/-- the slices fit into the lists (same rank) -/
def fits {σ : Type} : List (List σ) → List Nat → List Nat → Prop
  | [], [], [] => True
  | L :: Ls, s :: ss, l :: ls => s + l ≤ L.length ∧ fits Ls ss ls
  | _, _, _ => False

theorem lookups_slice {σ : Type} : ∀ (Ls : List (List σ)) (ss ls c : List Nat), fits Ls ss ls →
    lookups (sliceLists Ls ss ls) c = if within c ls then lookups Ls (addIdx ss c) else none := by
  intro Ls
  induction Ls with
  | nil =>
    intro ss ls c h
    cases ss <;> cases ls <;> simp only [fits] at h
    cases c <;> simp [sliceLists, lookups, within, addIdx]
  | cons L Ls ih =>
    intro ss ls c h
    cases ss with
    | nil => cases ls <;> simp only [fits] at h
    | cons s ss =>
      cases ls with
      | nil => simp only [fits] at h
      | cons l ls =>
        simp only [fits] at h
        cases c with
        | nil => simp [sliceLists, lookups, within]
        | cons c cs =>
          simp only [sliceLists, lookups, within, addIdx, ih ss ls cs h.2, List.getElem?_take, List.getElem?_drop]
          by_cases hc : c < l
          · by_cases hw : within cs ls = true
            · simp [hc, hw]
            · simp only [Bool.not_eq_true] at hw
              simp [hc, hw]
          · simp [hc]

theorem sliceLists_lengths {σ : Type} : ∀ (Ls : List (List σ)) (ss ls : List Nat), fits Ls ss ls →
    (sliceLists Ls ss ls).map List.length = ls := by
  intro Ls
  induction Ls with
  | nil => intro ss ls h; cases ss <;> cases ls <;> simp only [fits] at h; rfl
  | cons L Ls ih =>
    intro ss ls h
    cases ss with
    | nil => cases ls <;> simp only [fits] at h
    | cons s ss =>
      cases ls with
      | nil => simp only [fits] at h
      | cons l ls =>
        simp only [fits] at h
        simp only [sliceLists, List.map_cons, ih ss ls h.2, List.length_take, List.length_drop]
        congr 1
        omega

/-- NumPy basic slicing of a separable gather is the gather of the sliced source lists -/
theorem slice_sepGather {σ α : Type} (X : List σ → α) (Ls : List (List σ)) (ss ls : List Nat) (h : fits Ls ss ls) :
    (sepGather X Ls).slice ss ls = sepGather X (sliceLists Ls ss ls) := by
  unfold Nd.slice sepGather
  simp only [Nd.mk.injEq]
  refine ⟨(sliceLists_lengths Ls ss ls h).symm, ?_⟩
  funext c
  simp only [lookups_slice Ls ss ls c h]
  by_cases hw : within c ls = true <;> simp [hw]

/-- the per-axis `(front, length)` of the block's own cells inside the extended block -/
def coreSpec : List Axis → List Nat → Option (List (Nat × Nat))
  | [], [] => some []
  | a :: as, b :: bs =>
    match a.cs[b]?, coreSpec as bs with
    | some len, some r => some ((a.front b, len) :: r)
    | _, _ => none
  | _, _ => none

/-- the extended block is the slice `rectSpec` of the padded axes -/
theorem ndRect_slices : ∀ (axes : List Axis) (bs : List Nat) (Ls : List (List (Option Nat))), (∀ a ∈ axes, a.big) →
    ndRect axes bs = some Ls →
    ∃ sp, rectSpec axes bs = some sp ∧ fits (axes.map Axis.padded) (sp.map (·.1)) (sp.map (·.2)) ∧
      Ls = sliceLists (axes.map Axis.padded) (sp.map (·.1)) (sp.map (·.2)) := by
  intro axes
  induction axes with
  | nil =>
    intro bs Ls _ h
    cases bs with
    | nil => simp only [ndRect, Option.some.injEq] at h; subst h; exact ⟨[], rfl, trivial, rfl⟩
    | cons b bs => simp [ndRect] at h
  | cons a as ih =>
    intro bs Ls hbig h
    cases bs with
    | nil => simp [ndRect] at h
    | cons b bs =>
      simp only [ndRect, Axis.rect] at h
      cases hc : a.cs[b]? with
      | none => simp [hc] at h
      | some len =>
        cases hr : ndRect as bs with
        | none => simp [hc, hr] at h
        | some rs =>
          simp only [hc, hr, Option.some.injEq] at h
          obtain ⟨sp, h1, h2, h3⟩ := ih bs rs (fun x hx => hbig x (by simp [hx])) hr
          have hf := Axis.rect_facts a b len (hbig a (by simp)) hc
          refine ⟨(a.base b, a.front b + len + a.back b) :: sp, by simp [rectSpec, hc, h1], ?_, ?_⟩
          · simp only [List.map_cons, fits]
            exact ⟨by omega, h2⟩
          · subst h
            simp only [List.map_cons, sliceLists, ← h3]

/-- `_trim` cuts exactly the block's own cells out of the extended block -/
theorem trimSpec_core : ∀ (axes : List Axis) (bs : List Nat) (Ls Bs : List (List (Option Nat))), (∀ a ∈ axes, a.big) →
    ndRect axes bs = some Ls → ndBlock axes bs = some Bs →
    ∃ fl, trimSpec axes bs (Ls.map List.length) = some fl ∧ coreSpec axes bs = some fl ∧
      fits Ls (fl.map (·.1)) (fl.map (·.2)) ∧ sliceLists Ls (fl.map (·.1)) (fl.map (·.2)) = Bs := by
  intro axes
  induction axes with
  | nil =>
    intro bs Ls Bs _ h hB
    cases bs with
    | nil =>
      simp only [ndRect, Option.some.injEq] at h; subst h
      simp only [ndBlock, List.map_nil, lookups, Option.some.injEq] at hB; subst hB
      exact ⟨[], rfl, rfl, trivial, rfl⟩
    | cons b bs => simp [ndRect] at h
  | cons a as ih =>
    intro bs Ls Bs hbig h hB
    cases bs with
    | nil => simp [ndRect] at h
    | cons b bs =>
      simp only [ndRect, Axis.rect] at h
      cases hc : a.cs[b]? with
      | none => simp [hc] at h
      | some len =>
        cases hr : ndRect as bs with
        | none => simp [hc, hr] at h
        | some rs =>
          simp only [hc, hr, Option.some.injEq] at h
          simp only [ndBlock, List.map_cons, lookups, Axis.blocks_get, hc, Option.map_some] at hB
          cases hB' : lookups (as.map Axis.blocks) bs with
          | none => simp [hB'] at hB
          | some Bs' =>
            simp only [hB', Option.some.injEq] at hB
            obtain ⟨fl, h1, h2, h3, h4⟩ := ih bs rs Bs' (fun x hx => hbig x (by simp [hx])) hr hB'
            obtain ⟨f1, f2, _, _⟩ := Axis.rect_facts a b len (hbig a (by simp)) hc
            have hblt : b < a.cs.length := by
              rcases Nat.lt_or_ge b a.cs.length with h | h
              · exact h
              · rw [List.getElem?_eq_none h] at hc; cases hc
            subst h
            have hlen : ((a.padded.drop (a.base b)).take (a.front b + len + a.back b)).length
                = a.front b + len + a.back b := by
              rw [List.length_take, List.length_drop]; omega
            have hfront : trimFront a.kind.isNone a.dl b = a.front b := by
              unfold trimFront Axis.front
              cases a.kind <;> simp
            have hstop : trimStop (a.front b + len + a.back b) (trimBack a.kind.isNone a.dep.2 a.cs.length b)
                = a.front b + len := by
              unfold trimBack Axis.back Axis.dep
              cases a.kind with
              | none =>
                simp only [Option.isNone_none, and_true]
                by_cases hl : b + 1 = a.cs.length
                · have hb1 : b = a.cs.length - 1 := by omega
                  rw [if_pos (Or.inl hb1), if_pos hl]; rfl
                · have hb1 : ¬ b = a.cs.length - 1 := by omega
                  by_cases hd : a.dr = 0
                  · simp [hl, hd, trimStop]
                  · simp [hl, hb1, hd, trimStop]
              | some k =>
                simp only [Option.isNone_some, Bool.false_eq_true, and_false, false_or]
                by_cases hd : a.dl = 0 <;> simp [hd, trimStop]
            refine ⟨(a.front b, len) :: fl, ?_, by simp [coreSpec, hc, h2], ?_, ?_⟩
            · simp only [List.map_cons, trimSpec, h1, hlen, hfront, hstop]
              simp
            · simp only [List.map_cons, fits, hlen]
              exact ⟨by omega, h3⟩
            · subst hB
              simp only [List.map_cons, sliceLists, h4, List.cons.injEq, and_true]
              rw [List.drop_take, List.drop_drop, List.take_take, ← f2]
              congr 1
              omega


/-- one axis: the window of a cell inside a slice of the axis is its window in the whole axis, when the slice reaches
    `dl` cells back (or starts at the beginning of the axis) and `dr` cells ahead (or ends at the end of the axis) -/
theorem win_slice {σ : Type} (PP : List σ) (base ext e dl dr : Nat) (_h1 : base + ext ≤ PP.length) (he : e < ext)
    (hl : dl ≤ e ∨ base = 0) (hr : e + dr + 1 ≤ ext ∨ base + ext = PP.length) :
    e - (e - dl) = (base + e) - (base + e - dl) ∧
    (((PP.drop base).take ext).drop (e - dl)).take (e - (e - dl) + 1 + dr)
      = (PP.drop (base + e - dl)).take ((base + e) - (base + e - dl) + 1 + dr) := by
  have hc : e - (e - dl) = (base + e) - (base + e - dl) := by omega
  refine ⟨hc, ?_⟩
  rw [← hc, List.drop_take, List.drop_drop, List.take_take]
  have hb : base + (e - dl) = base + e - dl := by omega
  rw [hb]
  rcases hr with hr | hr
  · congr 1; omega
  · rw [Nat.min_def]
    split
    · rfl
    · rw [List.take_of_length_le (by rw [List.length_drop]; omega),
        List.take_of_length_le (by rw [List.length_drop]; omega)]

/-- **n-d: the windows of a block's own cell inside the extended block are its windows in the padded global array** -/
theorem winAxes_rect : ∀ (axes : List Axis) (bs c : List Nat) (Ls : List (List (Option Nat))),
    (∀ a ∈ axes, a.big) → ndRect axes bs = some Ls → coreIdx axes bs c = true →
    winAxes (deps axes) Ls (localIdx axes bs c) = winAxes (deps axes) (axes.map Axis.padded) (globalIdx axes bs c) := by
  intro axes
  induction axes with
  | nil =>
    intro bs c Ls _ h hc
    cases bs with
    | nil =>
      simp only [ndRect, Option.some.injEq] at h; subst h
      cases c with
      | nil => rfl
      | cons c cs => simp [coreIdx] at hc
    | cons b bs => simp [ndRect] at h
  | cons a as ih =>
    intro bs c Ls hbig h hcore
    cases bs with
    | nil => simp [ndRect] at h
    | cons b bs =>
      cases c with
      | nil => simp [coreIdx] at hcore
      | cons c cs =>
        simp only [ndRect, Axis.rect] at h
        cases hc : a.cs[b]? with
        | none => simp [hc] at h
        | some len =>
          cases hr : ndRect as bs with
          | none => simp [hc, hr] at h
          | some rs =>
            simp only [hc, hr, Option.some.injEq] at h
            simp only [coreIdx, hc, Bool.and_eq_true, decide_eq_true_eq] at hcore
            obtain ⟨f1, _, f3, f4⟩ := Axis.rect_facts a b len (hbig a (by simp)) hc
            have hw := win_slice a.padded (a.base b) (a.front b + len + a.back b) (a.front b + c) a.dep.1 a.dep.2
              (by omega) (by omega) (by omega) (by omega)
            have hlen : ((a.padded.drop (a.base b)).take (a.front b + len + a.back b)).length
                = a.front b + len + a.back b := by
              rw [List.length_take, List.length_drop]; omega
            subst h
            simp only [deps, List.map_cons, localIdx, globalIdx, winAxes, hlen]
            have ih' := ih bs cs rs (fun x hx => hbig x (by simp [hx])) hr hcore.2
            simp only [deps] at ih'
            rw [ih', if_pos (by omega), if_pos (by omega), Nat.add_assoc (a.base b), hw.2, hw.1]


theorem ndBlock_of_rect : ∀ (axes : List Axis) (bs : List Nat) (Ls : List (List (Option Nat))),
    ndRect axes bs = some Ls → ∃ Bs, ndBlock axes bs = some Bs := by
  intro axes
  induction axes with
  | nil =>
    intro bs Ls h
    cases bs with
    | nil => exact ⟨[], rfl⟩
    | cons b bs => simp [ndRect] at h
  | cons a as ih =>
    intro bs Ls h
    cases bs with
    | nil => simp [ndRect] at h
    | cons b bs =>
      simp only [ndRect, Axis.rect] at h
      cases hc : a.cs[b]? with
      | none => simp [hc] at h
      | some len =>
        cases hr : ndRect as bs with
        | none => simp [hc, hr] at h
        | some rs =>
          obtain ⟨Bs', hB'⟩ := ih bs rs hr
          unfold ndBlock at hB' ⊢
          exact ⟨(List.range' (a.lo b) len).map some :: Bs',
            by simp only [List.map_cons, lookups, Axis.blocks_get, hc, Option.map_some, hB']⟩

theorem coreSpec_idx : ∀ (axes : List Axis) (bs c : List Nat) (fl : List (Nat × Nat)), coreSpec axes bs = some fl →
    within c (fl.map (·.2)) = coreIdx axes bs c ∧
    (coreIdx axes bs c = true → addIdx (fl.map (·.1)) c = localIdx axes bs c) := by
  intro axes
  induction axes with
  | nil =>
    intro bs c fl h
    cases bs with
    | nil =>
      simp only [coreSpec, Option.some.injEq] at h; subst h
      cases c <;> simp [within, coreIdx, addIdx, localIdx]
    | cons b bs => simp [coreSpec] at h
  | cons a as ih =>
    intro bs c fl h
    cases bs with
    | nil => simp [coreSpec] at h
    | cons b bs =>
      simp only [coreSpec] at h
      cases hc : a.cs[b]? with
      | none => simp [hc] at h
      | some len =>
        cases hr : coreSpec as bs with
        | none => simp [hc, hr] at h
        | some r =>
          simp only [hc, hr, Option.some.injEq] at h
          subst h
          cases c with
          | nil => simp [within, coreIdx]
          | cons c cs =>
            obtain ⟨i1, i2⟩ := ih bs cs r hr
            simp only [List.map_cons, within, coreIdx, hc, i1, addIdx, localIdx, true_and]
            intro hcore
            simp only [Bool.and_eq_true] at hcore
            rw [i2 hcore.2]


end Dask.ArrOverlapNd
