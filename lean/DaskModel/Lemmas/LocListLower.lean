import DaskModel.Lemmas.LocList
import DaskModel.Lemmas.TruthfulPaths
/-! `LocList._lower` hands the used partitions to `Partitions` and routes the labels again by the divisions of that
    selection: the second routing sends every label to the position of its original partition.  Core Lean only. -/
namespace Dask.LocList
open Dask.Divs

/-- what `Partitions._divisions` returns for a non-empty selection -/
theorem partitionsDivs_spec {divs sel d' : List Nat} (h : partitionsDivs divs sel = some d') :
    0 < sel.length ∧ d'.length = sel.length + 1 ∧
    (∀ (j p : Nat), sel[j]? = some p → ∃ a, d'[j]? = some a ∧ divs[p]? = some a) ∧
    (∃ pl a, sel[sel.length - 1]? = some pl ∧ d'[sel.length]? = some a ∧ divs[pl + 1]? = some a) := by
  unfold partitionsDivs at h
  simp only [Option.bind_eq_bind, Option.bind_eq_some_iff, Option.pure_def, Option.some.injEq] at h
  obtain ⟨pl, hpl, ds, hds, dl, hdl, rfl⟩ := h
  obtain ⟨hlen, hget⟩ := mapM_getElem? _ sel ds hds
  have hpos : 0 < sel.length := by
    cases sel with
    | nil => simp at hpl
    | cons a b => simp
  refine ⟨hpos, by simp [hlen], ?_, pl, dl, ?_, ?_, hdl⟩
  · intro j p hj
    obtain ⟨a, ha, hpa⟩ := hget j p hj
    refine ⟨a, ?_, hpa⟩
    have hj' : j < ds.length := (List.getElem?_eq_some_iff.mp ha).1
    rw [List.getElem?_append_left hj']; exact ha
  · rw [← List.getLast?_eq_getElem?]; exact hpl
  · rw [List.getElem?_append_right (by omega)]; simp [hlen]

/-- the divisions of an increasing selection of a frame with sorted divisions are sorted -/
theorem partitionsDivs_sorted {divs sel d' : List Nat} (hs : divs.Pairwise (· ≤ ·)) (hsel : sel.Pairwise (· < ·))
    (h : partitionsDivs divs sel = some d') : d'.Pairwise (· ≤ ·) := by
  obtain ⟨hpos, hlen, hget, pl, al, hpl, hdl, hdivl⟩ := partitionsDivs_spec h
  have hle : ∀ (x y a b : Nat), x ≤ y → divs[x]? = some a → divs[y]? = some b → a ≤ b := by
    intro x y a b hxy hx hy
    rcases Nat.eq_or_lt_of_le hxy with rfl | hlt
    · rw [hx] at hy; cases hy; exact Nat.le_refl _
    · obtain ⟨hx', rfl⟩ := List.getElem?_eq_some_iff.mp hx
      obtain ⟨hy', rfl⟩ := List.getElem?_eq_some_iff.mp hy
      exact (List.pairwise_iff_getElem.mp hs) x y hx' hy' hlt
  apply pairwise_of_getElem?
  intro i j a b hij ha hb
  have hj : j < d'.length := (List.getElem?_eq_some_iff.mp hb).1
  have hi : i < sel.length := by omega
  obtain ⟨a', ha', hda⟩ := hget i sel[i] (List.getElem?_eq_getElem hi)
  rw [ha] at ha'; cases ha'
  by_cases hjk : j < sel.length
  · obtain ⟨b', hb', hdb⟩ := hget j sel[j] (List.getElem?_eq_getElem hjk)
    rw [hb] at hb'; cases hb'
    have := (List.pairwise_iff_getElem.mp hsel) i j hi hjk hij
    exact hle _ _ _ _ (Nat.le_of_lt this) hda hdb
  · have : j = sel.length := by omega
    subst this
    rw [hdl] at hb; cases hb
    have hpl' : pl = sel[sel.length - 1] := by
      rw [List.getElem?_eq_getElem (by omega)] at hpl; cases hpl; rfl
    have : sel[i] ≤ pl := by
      rcases Nat.eq_or_lt_of_le (Nat.le_sub_one_of_lt hi) with h1 | h1
      · subst hpl'; simp [h1]
      · have := (List.pairwise_iff_getElem.mp hsel) i (sel.length - 1) hi (by omega) h1
        omega
    exact hle _ _ _ _ (by omega) hda hdivl

/-- **the second routing**: a label routed to `sel[j]` by the frame's divisions is routed to `j` by the divisions of
    `Partitions(frame, sel)` -/
theorem partitionOf_lowered {divs sel d' : List Nat} (hs : divs.Pairwise (· ≤ ·)) (h2 : 2 ≤ divs.length)
    (hsel : sel.Pairwise (· < ·)) (hbound : ∀ p ∈ sel, p < divs.length - 1)
    (h : partitionsDivs divs sel = some d') (v j : Nat) (hj : sel[j]? = some (partitionOf divs v)) :
    partitionOf d' v = j := by
  have hs' := partitionsDivs_sorted hs hsel h
  obtain ⟨hpos, hlen, hget, pl, al, hpl, hdl, hdivl⟩ := partitionsDivs_spec h
  have hjk : j < sel.length := (List.getElem?_eq_some_iff.mp hj).1
  obtain ⟨a, ha, hda⟩ := hget j _ hj
  have hb := bisectRight_le_length divs v
  have hb' := bisectRight_le_length d' v
  have hp : partitionOf divs v = min (divs.length - 2) (bisectRight divs v - 1) := rfl
  have hgoal : partitionOf d' v = min (d'.length - 2) (bisectRight d' v - 1) := rfl
  by_cases hb0 : bisectRight divs v = 0
  · -- below the first division: partition 0, which is then the first selected one
    have hp0 : partitionOf divs v = 0 := by rw [hp, hb0]; omega
    have hj0 : j = 0 := by
      apply Nat.eq_zero_of_not_pos
      intro hjpos
      have := (List.pairwise_iff_getElem.mp hsel) 0 j (by omega) hjk hjpos
      have h3 : sel[j] = partitionOf divs v := by
        rw [List.getElem?_eq_getElem hjk] at hj; exact Option.some.inj hj
      omega
    subst hj0
    rw [hp0] at hda
    have : ¬ (0 < bisectRight divs v) := by omega
    rw [lt_bisectRight_iff hs v 0 a hda] at this
    have : ¬ (0 < bisectRight d' v) := by rw [lt_bisectRight_iff hs' v 0 a ha]; exact this
    omega
  · have hple : partitionOf divs v < bisectRight divs v := by rw [hp]; omega
    have hav : a ≤ v := (lt_bisectRight_iff hs v _ a hda).mp hple
    have hjb : j < bisectRight d' v := (lt_bisectRight_iff hs' v j a ha).mpr hav
    by_cases hnext : j + 1 < sel.length
    · obtain ⟨c, hc, hdc⟩ := hget (j + 1) sel[j + 1] (List.getElem?_eq_getElem hnext)
      have hlt := (List.pairwise_iff_getElem.mp hsel) j (j + 1) hjk hnext (Nat.lt_succ_self j)
      have h3 : sel[j] = partitionOf divs v := by
        rw [List.getElem?_eq_getElem hjk] at hj; exact Option.some.inj hj
      have hq := hbound sel[j + 1] (List.getElem_mem hnext)
      have hnb : ¬ (sel[j + 1] < bisectRight divs v) := by omega
      rw [lt_bisectRight_iff hs v _ c hdc] at hnb
      have : ¬ (j + 1 < bisectRight d' v) := by rw [lt_bisectRight_iff hs' v (j + 1) c hc]; exact hnb
      omega
    · omega

/-- **`LocList._lower` does not re-route**: the selection is the list of used partitions and item `j` of the lowered
    expression is `(j, labels of item j)` -/
theorem lowered_items {divs labels sel d' : List Nat} {items' : List (Nat × List Nat)}
    (hs : divs.Pairwise (· ≤ ·)) (h2 : 2 ≤ divs.length) (hne : labels ≠ [])
    (h : locListLowered divs labels = some (sel, d', items')) :
    sel = (routeItems divs labels).map (·.1) ∧ partitionsDivs divs sel = some d' ∧
    items'.length = (routeItems divs labels).length ∧
    ∀ (j : Nat) (e : Nat × List Nat), (routeItems divs labels)[j]? = some e → items'[j]? = some (j, e.2) := by
  unfold locListLowered at h
  simp only [Option.bind_eq_bind, Option.bind_eq_some_iff, Option.pure_def, Option.some.injEq, Prod.mk.injEq] at h
  obtain ⟨sel0, hsel0, d0, hd0, rfl, rfl, rfl⟩ := h
  have hitems := routeItems_ne_nil h2 hne
  have hselEq : sel0 = (routeItems divs labels).map (·.1) := by
    unfold locListLowerSel at hsel0
    have : ((routeItems divs labels).map (·.1)).isEmpty = false := by
      cases hri : routeItems divs labels with
      | nil => exact absurd hri hitems
      | cons a b => rfl
    simp only [this, Bool.false_eq_true, if_false] at hsel0
    split at hsel0
    · cases hsel0
    · exact (Option.some.inj hsel0).symm
  subst hselEq
  have hselS : ((routeItems divs labels).map (·.1)).Pairwise (· < ·) := by
    rw [List.pairwise_map]; exact routeItems_keys_sorted divs labels
  have hbound : ∀ p ∈ (routeItems divs labels).map (·.1), p < divs.length - 1 := by
    intro p hp
    rw [List.mem_map] at hp
    obtain ⟨e, he, rfl⟩ := hp
    exact (mem_routeItems.mp he).1
  obtain ⟨_, hlen, _, _⟩ := partitionsDivs_spec hd0
  have hk : d0.length - 1 = (routeItems divs labels).length := by simp [hlen]
  -- the label list of every candidate position
  have hfil : ∀ (j : Nat) (e : Nat × List Nat), (routeItems divs labels)[j]? = some e →
      labels.filter (fun v => partitionOf d0 v == j) = e.2 := by
    intro j e hj
    have hmem := List.mem_of_getElem? hj
    obtain ⟨_, he2, _⟩ := mem_routeItems.mp hmem
    rw [he2]
    apply List.filter_congr
    intro v hv
    rw [Bool.eq_iff_iff]
    simp only [beq_iff_eq]
    constructor
    · intro hpv
      obtain ⟨e', he', he1, _⟩ := routeItems_covers h2 hv
      obtain ⟨j', hj', hje'⟩ := List.mem_iff_getElem.mp he'
      have hsj : ((routeItems divs labels).map (·.1))[j']? = some (partitionOf divs v) := by
        rw [List.getElem?_map, List.getElem?_eq_getElem hj', hje', Option.map_some, he1]
      have := partitionOf_lowered hs h2 hselS hbound hd0 v j' hsj
      have hjj : j' = j := by omega
      subst hjj
      rw [List.getElem?_eq_getElem hj', hje'] at hj
      cases hj
      exact he1.symm
    · intro hpv
      have hsj : ((routeItems divs labels).map (·.1))[j]? = some (partitionOf divs v) := by
        rw [List.getElem?_map, hj, Option.map_some, hpv]
      exact partitionOf_lowered hs h2 hselS hbound hd0 v j hsj
  have hclosed : routeItems d0 labels =
      (List.range (routeItems divs labels).length).map fun j => (j, labels.filter fun v => partitionOf d0 v == j) := by
    rw [routeItems_eq_routeOn d0 labels]
    unfold routeOn
    rw [hk]
    rw [List.filter_eq_self]
    intro e he
    rw [List.mem_map] at he
    obtain ⟨j, hj, rfl⟩ := he
    rw [List.mem_range] at hj
    have := hfil j _ (List.getElem?_eq_getElem hj)
    simp only
    rw [this]
    obtain ⟨_, _, hnil⟩ := mem_routeItems.mp (List.getElem_mem hj)
    simpa using hnil
  refine ⟨rfl, hd0, ?_, ?_⟩
  · rw [hclosed]; simp
  · intro j e hj
    have hjl : j < (routeItems divs labels).length := (List.getElem?_eq_some_iff.mp hj).1
    rw [hclosed, List.getElem?_map, List.getElem?_range hjl, Option.map_some, hfil j e hj]

/-- the reported divisions only depend on the label lists -/
theorem locListDivs_congr {items items' : List (Nat × List Nat)} (h : items'.map (·.2) = items.map (·.2)) :
    locListDivs items' = locListDivs items := by
  have hlast : (items'.getLast?).map (·.2) = (items.getLast?).map (·.2) := by
    rw [← List.getLast?_map, ← List.getLast?_map, h]
  have hmins : (items'.map fun e => e.2.min?) = (items.map fun e => e.2.min?) := by
    have h1 : (items'.map fun e => e.2.min?) = (items'.map (·.2)).map List.min? := by rw [List.map_map]; rfl
    have h2 : (items.map fun e => e.2.min?) = (items.map (·.2)).map List.min? := by rw [List.map_map]; rfl
    rw [h1, h2, h]
  unfold locListDivs
  rw [hmins]
  cases h1 : items'.getLast? with
  | none =>
    cases h2 : items.getLast? with
    | none => rfl
    | some l => rw [h1, h2] at hlast; cases hlast
  | some l' =>
    cases h2 : items.getLast? with
    | none => rw [h1, h2] at hlast; cases hlast
    | some l =>
      rw [h1, h2] at hlast
      simp only [Option.map_some, Option.some.injEq] at hlast
      simp only [hlast]

end Dask.LocList
