import DaskModel.Model.NormIndex
/-! C20: `normalize_index` returns one non-None entry per axis, no Ellipsis, and keeps the np.newaxis entries. -/
namespace Dask.NormIndex
open Dask.Slice1D

theorem firstEllipsis_split : ∀ (index : List Entry) (loc : Nat), firstEllipsis index = some loc →
    index = index.take loc ++ Entry.ellipsis :: index.drop (loc + 1) := by
  intro index
  induction index with
  | nil => intro loc h; simp [firstEllipsis] at h
  | cons e rest ih =>
    intro loc h
    simp only [firstEllipsis] at h
    by_cases he : isEllipsis e = true
    · rw [if_pos he] at h
      injection h with h
      subst h
      cases e <;> simp_all [isEllipsis]
    · rw [if_neg he] at h
      cases hr : firstEllipsis rest with
      | none => rw [hr] at h; simp at h
      | some l =>
        rw [hr] at h
        simp only [Option.map_some, Option.some.injEq] at h
        subst h
        have := ih l hr
        simp only [List.take_succ_cons, List.drop_succ_cons, List.cons_append]
        rw [← this]

theorem replaceEllipsis_newaxes (n : Nat) (index : List Entry) :
    ((replaceEllipsis n index).filter isNewaxis).length = (index.filter isNewaxis).length := by
  unfold replaceEllipsis
  cases h : firstEllipsis index with
  | none => rfl
  | some loc =>
    simp only
    have hs := firstEllipsis_split index loc h
    have e1 : (List.replicate (n - (index.length - (index.filter isNewaxis).length - 1)) (Entry.sl colon)).filter isNewaxis = [] := by
      rw [List.filter_eq_nil_iff]
      intro a ha
      rw [List.mem_replicate] at ha
      rw [ha.2]; simp [isNewaxis]
    conv => rhs; rw [hs]
    simp only [List.filter_append, List.length_append, e1, List.length_nil, Nat.add_zero, List.filter_cons, isNewaxis]
    simp

theorem normEntry_kind (d : Nat) (e e' : Entry) (h : normEntry d e = some e') :
    isNewaxis e' = isNewaxis e ∧ isEllipsis e' = false := by
  cases e with
  | sl s =>
    simp only [normEntry] at h
    cases hn : normalizeSlice s d with
    | none => rw [hn] at h; simp at h
    | some ns => rw [hn] at h; simp at h; subst h; simp [isNewaxis, isEllipsis]
  | int i =>
    simp only [normEntry] at h
    by_cases hc : checkIntOOB d i = true
    · rw [if_pos hc] at h; cases h
    · rw [if_neg hc] at h; injection h with h; subst h; simp [isNewaxis, isEllipsis]
  | newaxis => simp only [normEntry] at h; injection h with h; subst h; simp [isNewaxis, isEllipsis]
  | ellipsis => simp [normEntry] at h
  | lst l =>
    simp only [normEntry] at h
    by_cases hc : l.any (checkIntOOB d) = true
    · rw [if_pos hc] at h; cases h
    · rw [if_neg hc] at h; injection h with h; subst h; simp [isNewaxis, isEllipsis]
  | mask m =>
    simp only [normEntry] at h
    by_cases hc : m.length ≠ d
    · rw [if_pos hc] at h; cases h
    · rw [if_neg hc] at h; injection h with h; subst h; simp [isNewaxis, isEllipsis]

theorem normEntries_kinds : ∀ (idx : List Entry) (shape : List Nat) (out : List Entry), normEntries shape idx = some out →
    out.map isNewaxis = idx.map isNewaxis ∧ (∀ e ∈ out, isEllipsis e = false) := by
  intro idx
  induction idx with
  | nil => intro shape out h; simp only [normEntries, Option.some.injEq] at h; subst h; simp
  | cons e rest ih =>
    intro shape out h
    by_cases hna : e = Entry.newaxis
    · subst hna
      simp only [normEntries] at h
      cases hr : normEntries shape rest with
      | none => rw [hr] at h; simp at h
      | some r =>
        rw [hr] at h
        simp only [Option.map_some, Option.some.injEq] at h
        subst h
        obtain ⟨h1, h2⟩ := ih shape r hr
        refine ⟨by simp [h1], ?_⟩
        intro e he
        rcases List.mem_cons.mp he with rfl | he'
        · rfl
        · exact h2 e he'
    · cases shape with
      | nil => cases e <;> simp_all [normEntries]
      | cons d shape =>
        have hstep : normEntries (d :: shape) (e :: rest) =
            (match normEntry d e, normEntries shape rest with
             | some e', some r => some (e' :: r)
             | _, _ => none) := by
          cases e <;> first | rfl | exact absurd rfl hna
        rw [hstep] at h
        cases he : normEntry d e with
        | none => rw [he] at h; simp at h
        | some e' =>
          cases hr : normEntries shape rest with
          | none => rw [he, hr] at h; simp at h
          | some r =>
            rw [he, hr] at h
            simp only [Option.some.injEq] at h
            subst h
            obtain ⟨h1, h2⟩ := ih shape r hr
            obtain ⟨k1, k2⟩ := normEntry_kind d e e' he
            refine ⟨by simp [h1, k1], ?_⟩
            intro x hx
            rcases List.mem_cons.mp hx with rfl | hx'
            · exact k2
            · exact h2 x hx'

theorem filter_length_of_map_eq (p : Entry → Bool) : ∀ (a b : List Entry), a.map p = b.map p →
    (a.filter p).length = (b.filter p).length ∧ (a.filter (fun e => !p e)).length = (b.filter (fun e => !p e)).length := by
  intro a
  induction a with
  | nil => intro b h; cases b <;> simp_all
  | cons x xs ih =>
    intro b h
    cases b with
    | nil => simp at h
    | cons y ys =>
      simp only [List.map_cons, List.cons.injEq] at h
      obtain ⟨h1, h2⟩ := ih ys h.2
      simp only [List.filter_cons, h.1]
      cases p y <;> simp [h1, h2]

/-! ### boolean masks -/

theorem nonzeroFrom_den {α : Type} : ∀ (m : List Bool) (x pre : List α), x.length = m.length →
    (nonzeroFrom pre.length m).filterMap (fun i => (pre ++ x)[i.toNat]?) =
      (x.zip m).filterMap (fun p => if p.2 then some p.1 else none) := by
  intro m
  induction m with
  | nil => intro x pre h; cases x <;> simp_all [nonzeroFrom]
  | cons b rest ih =>
    intro x pre h
    cases x with
    | nil => simp at h
    | cons a xs =>
      simp only [List.length_cons, Nat.add_right_cancel_iff] at h
      have hpre : pre ++ a :: xs = (pre ++ [a]) ++ xs := by simp
      have hlen : (pre ++ [a]).length = pre.length + 1 := by simp
      have hrec := ih xs (pre ++ [a]) h
      rw [hlen, ← hpre] at hrec
      cases b with
      | false => simp only [nonzeroFrom, List.zip_cons_cons, List.filterMap_cons]; simpa using hrec
      | true =>
        simp only [nonzeroFrom, List.zip_cons_cons, List.filterMap_cons, if_true]
        have : (pre ++ a :: xs)[((pre.length : Nat) : Int).toNat]? = some a := by simp
        rw [this]
        simp only [hrec]

/-- all positions `nonzero` lists are in bounds and increasing, so `check_index`/`posify_index` leave them alone -/
theorem nonzeroFrom_bounds : ∀ (m : List Bool) (k : Nat), ∀ i ∈ nonzeroFrom k m, (k : Int) ≤ i ∧ i < ((k + m.length : Nat) : Int) := by
  intro m
  induction m with
  | nil => intro k i h; simp [nonzeroFrom] at h
  | cons b rest ih =>
    intro k i h
    cases b with
    | false =>
      simp only [nonzeroFrom] at h
      have := ih (k + 1) i (by simpa using h)
      simp only [List.length_cons]; omega
    | true =>
      simp only [nonzeroFrom, if_true, List.mem_cons] at h
      rcases h with rfl | h
      · simp only [List.length_cons]; omega
      · have := ih (k + 1) i h
        simp only [List.length_cons]; omega

end Dask.NormIndex
