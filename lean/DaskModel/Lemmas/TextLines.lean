import DaskModel.Model.TextBlocks
import DaskModel.Lemmas.TextSeek
import DaskModel.Lemmas.TextSplit
/-! Helper lemmas for C50: border-free delimiters — occurrences cannot overlap, hence the greedy split
of a text is the concatenation of the splits of its blocks. -/
namespace Dask.TextBlocks

/-- no proper non-empty prefix of `d` is also a suffix of `d` (every single byte, `\r\n`, `||`-free …) -/
def BorderFree (d : List Nat) : Prop := hasBorder d = false

/-- two occurrences of `d` at distance `0 < m < |d|` would give `d` a border -/
theorem overlap_border {d t : List Nat} {m : Nat} (h1 : d <+: t) (h2 : d <+: t.drop m) (hm : m < d.length) :
    d.drop m = d.take (d.length - m) := by
  obtain ⟨r, rfl⟩ := h1
  rw [List.drop_append_of_le_length (by omega)] at h2
  have h3 : d.drop m <+: d.drop m ++ r := List.prefix_append _ _
  have h4 : d.drop m <+: d := List.prefix_of_prefix_length_le h3 h2 (by simp)
  have := List.prefix_iff_eq_take.mp h4
  simpa using this

theorem no_overlap {d t : List Nat} {m : Nat} (hbf : BorderFree d) (h1 : d <+: t) (h2 : d <+: t.drop m)
    (hm0 : 0 < m) (hm : m < d.length) : False := by
  have hb := overlap_border h1 h2 hm
  have : hasBorder d = true := by
    simp only [hasBorder, List.any_eq_true, List.mem_range, Bool.and_eq_true, decide_eq_true_eq, beq_iff_eq]
    exact ⟨d.length - m, by omega, by omega, by rw [← hb]; congr 1; omega⟩
  rw [hbf] at this; cases this

/-! ### the split of a concatenation -/

theorem linesAux_append {d : List Nat} (hd : d ≠ []) (hbf : BorderFree d) (acc u v : List Nat) (hu : d <:+ u) :
    linesAux d acc (u ++ v) = linesAux d acc u ++ lines d v := by
  induction hn : u.length using Nat.strongRecOn generalizing acc u with
  | _ n ih =>
    have hdl : 0 < d.length := List.length_pos_iff.mpr hd
    have hlen : d.length ≤ u.length := hu.length_le
    cases u with
    | nil => exact absurd (List.length_eq_zero_iff.mp (Nat.le_zero.mp hlen)) hd
    | cons c cs =>
      by_cases hp : d <+: (c :: cs) ++ v
      · have hpu : d <+: c :: cs := List.prefix_of_prefix_length_le hp (List.prefix_append _ _) hlen
        rw [linesAux_match hd acc _ hp, linesAux_match hd acc _ hpu, List.drop_append_of_le_length hlen]
        simp only [List.cons_append]
        congr 1
        by_cases hu' : (c :: cs).drop d.length = []
        · rw [hu', linesAux_nil]; simp [lines]
        · -- the rest still ends with the delimiter (else two occurrences overlap)
          obtain ⟨w, hw⟩ := hu
          have hwl : w.length + d.length = (c :: cs).length := by rw [← hw]; simp
          have hsuf : d <:+ (c :: cs).drop d.length := by
            by_cases hwd : d.length ≤ w.length
            · refine ⟨w.drop d.length, ?_⟩
              rw [← hw, List.drop_append_of_le_length hwd]
            · exfalso
              have hw0 : 0 < w.length := by
                rcases Nat.eq_zero_or_pos w.length with h0 | h0
                · have : w = [] := List.length_eq_zero_iff.mp h0
                  subst this
                  simp only [List.nil_append] at hw
                  rw [← hw] at hu'
                  simp at hu'
                · exact h0
              have h2 : d <+: (c :: cs).drop w.length := by
                rw [← hw, List.drop_left]
                exact List.prefix_refl _
              exact no_overlap hbf hpu h2 hw0 (by omega)
          exact ih ((c :: cs).drop d.length).length (by subst hn; simp only [List.length_drop]; omega) [] _ hsuf rfl
      · have hpu : ¬ d <+: c :: cs := fun h => hp (h.trans (List.prefix_append _ _))
        rw [List.cons_append] at hp ⊢
        rw [linesAux_nomatch acc c _ hp, linesAux_nomatch acc c cs hpu]
        have hcs : d <:+ cs := by
          rcases List.suffix_cons_iff.mp hu with h | h
          · exact absurd (h ▸ List.prefix_refl _) hpu
          · exact h
        exact ih cs.length (by subst hn; simp) (c :: acc) cs hcs rfl

theorem lines_append {d : List Nat} (hd : d ≠ []) (hbf : BorderFree d) (u v : List Nat)
    (hu : u = [] ∨ v = [] ∨ d <:+ u) : lines d (u ++ v) = lines d u ++ lines d v := by
  rcases hu with rfl | rfl | hu
  · simp [lines, linesAux_nil]
  · simp [lines, linesAux_nil]
  · exact linesAux_append hd hbf [] u v hu

/-! ### the blocks of `read_bytes` are cut at split points -/

theorem slice_suffix (d data : List Nat) (a q : Nat) (ha : a ≤ q) (hq : d <+: data.drop q) :
    d <:+ (data.drop a).take (q + d.length - a) := by
  refine ⟨(data.drop a).take (q - a), ?_⟩
  have h1 : q + d.length - a = (q - a) + d.length := by omega
  rw [h1, List.take_add, List.drop_drop, show a + (q - a) = q by omega]
  congr 1
  obtain ⟨r, hr⟩ := hq
  rw [← hr]; simp

/-- the shape of the block list of one file: every block is empty, or ends with the delimiter, or is
    followed by nothing but empty blocks -/
def GoodBlocks (d : List Nat) : List (List Nat) → Prop
  | [] => True
  | b :: rest => (b = [] ∨ rest.flatten = [] ∨ d <:+ b) ∧ GoodBlocks d rest

/-- any function of the text that distributes over a cut directly after a delimiter distributes over the
    blocks -/
theorem GoodBlocks.flatMap_eq {γ : Type} {d : List Nat} (L : List Nat → List γ) (hnil : L [] = [])
    (happ : ∀ u v, d <:+ u → L (u ++ v) = L u ++ L v) (bs : List (List Nat)) (h : GoodBlocks d bs) :
    bs.flatMap L = L bs.flatten := by
  induction bs with
  | nil => simp [hnil]
  | cons b rest ih =>
    obtain ⟨hb, hrest⟩ := h
    rw [List.flatMap_cons, List.flatten_cons, ih hrest]
    rcases hb with rfl | hr | hs
    · simp [hnil]
    · rw [hr, hnil]; simp
    · exact (happ b _ hs).symm

theorem blocksOf_good {d data : List Nat} (hd : d ≠ []) (hbf : BorderFree d) (offs : List Nat) (o : Nat)
    (hs : (o :: offs).Pairwise (· < ·)) (hlt : ∀ x ∈ o :: offs, x < data.length) :
    GoodBlocks d (blocksOf data d (o :: offs)) := by
  induction offs generalizing o with
  | nil => simp [blocksOf, lengthsOf, GoodBlocks]
  | cons o' rest ih =>
    have hoo' : o < o' := (List.pairwise_cons.mp hs).1 o' (by simp)
    have ho' : o' < data.length := hlt o' (by simp)
    have hs' : (o' :: rest).Pairwise (· < ·) := (List.pairwise_cons.mp hs).2
    have hlt' : ∀ x ∈ o' :: rest, x < data.length := fun x hx => hlt x (List.mem_cons_of_mem _ hx)
    have ih' := ih o' hs' hlt'
    have hmono : seekPos d data o ≤ seekPos d data o' := seekPos_mono (by omega) (by omega)
    rw [blocksOf_cons_cons]
    refine ⟨?_, ih'⟩
    rw [blocksOf_flatten hd rest o' hs' hlt', readBlockFromFile_some hd (by omega), show o + (o' - o) = o' by omega]
    generalize hsl : (data.drop (seekPos d data o)).take (seekPos d data o' - seekPos d data o) = slice
    by_cases hemp : slice = []
    · exact Or.inl hemp
    by_cases hend : data.drop (seekPos d data o') = []
    · exact Or.inr (Or.inl hend)
    refine Or.inr (Or.inr ?_)
    have hlt'' : seekPos d data o' < data.length := by
      rcases Nat.lt_or_ge (seekPos d data o') data.length with h | h
      · exact h
      · exact absurd (List.drop_eq_nil_of_le h) hend
    have hne : seekPos d data o < seekPos d data o' := by
      rcases Nat.lt_or_ge (seekPos d data o) (seekPos d data o') with h | h
      · exact h
      · have : seekPos d data o' - seekPos d data o = 0 := by omega
        rw [this] at hsl; simp at hsl; exact absurd hsl hemp
    rcases seekPos_spec (d := d) (data := data) (pos := o') (by omega) (by omega) with ⟨q', hq'o, hq'e, hq'p, _⟩ | ⟨he, _⟩
    · have hstart : seekPos d data o ≤ q' := by
        by_cases ho0 : o = 0
        · subst ho0; rw [seekPos_zero]; omega
        · rcases seekPos_spec (d := d) (data := data) (pos := o) (by omega) (by omega) with ⟨q, hqo, hqe, hqp, hqmin⟩ | ⟨he, _⟩
          · have hqq' : q ≤ q' := by
              rcases Nat.lt_or_ge q' q with h | h
              · exact absurd hq'p (hqmin q' (by omega) h)
              · exact h
            rcases Nat.eq_or_lt_of_le hqq' with h | h
            · subst h; omega
            · rcases Nat.lt_or_ge q' (q + d.length) with h2 | h2
              · exfalso
                have h3 : d <+: (data.drop q).drop (q' - q) := by
                  rw [List.drop_drop, show q + (q' - q) = q' by omega]; exact hq'p
                exact no_overlap hbf hqp h3 (by omega) (by omega)
              · omega
          · omega
      rw [← hsl, hq'e]
      exact slice_suffix d data _ q' hstart hq'p
    · omega

theorem blocksOf_lines {d data : List Nat} (hd : d ≠ []) (hbf : BorderFree d) (offs : List Nat) (o : Nat)
    (hs : (o :: offs).Pairwise (· < ·)) (hlt : ∀ x ∈ o :: offs, x < data.length) :
    (blocksOf data d (o :: offs)).flatMap (lines d) = lines d (data.drop (seekPos d data o)) := by
  rw [GoodBlocks.flatMap_eq (lines d) (by simp [lines, linesAux_nil])
    (fun u v hu => linesAux_append hd hbf [] u v hu) _ (blocksOf_good hd hbf offs o hs hlt),
    blocksOf_flatten hd offs o hs hlt]

/-! ### universal newlines (`linedelimiter=None`) -/

theorem translateNL_cons_ne (c : Nat) (rest : List Nat) (hc : c ≠ 13) : translateNL (c :: rest) = c :: translateNL rest :=
  translateNL.eq_4 c rest (fun _ h _ => hc h) hc

theorem translateNL_cr (rest : List Nat) (h : ∀ r, rest ≠ 10 :: r) : translateNL (13 :: rest) = 10 :: translateNL rest :=
  translateNL.eq_3 rest (fun r hr => h r hr)

/-- the translation `\r\n → \n`, `\r → \n` distributes over a cut after a `\n` -/
theorem translateNL_append (u v : List Nat) (hu : [10] <:+ u) :
    translateNL (u ++ v) = translateNL u ++ translateNL v ∧ [10] <:+ translateNL u := by
  induction hn : u.length using Nat.strongRecOn generalizing u with
  | _ n ih =>
    match u, hu with
    | [], hu => exact absurd (List.suffix_nil.mp hu) (by simp)
    | [c], hu =>
      have hc : c = 10 := by
        rcases List.suffix_cons_iff.mp hu with h | h
        · simpa using h.symm
        · exact absurd (List.suffix_nil.mp h) (by simp)
      subst hc
      rw [List.singleton_append, translateNL_cons_ne 10 _ (by decide), translateNL_cons_ne 10 _ (by decide),
        translateNL.eq_1]
      exact ⟨rfl, List.suffix_refl _⟩
    | c :: c' :: rest, hu =>
      have hsuf : [10] <:+ c' :: rest := by
        rcases List.suffix_cons_iff.mp hu with h | h
        · simp at h
        · exact h
      by_cases hc : c = 13
      · subst hc
        by_cases hc' : c' = 10
        · subst hc'
          cases rest with
          | nil =>
            rw [List.cons_append, List.cons_append, List.nil_append, translateNL.eq_2, translateNL.eq_2, translateNL.eq_1]
            exact ⟨rfl, List.suffix_refl _⟩
          | cons r rs =>
            have hsuf2 : [10] <:+ r :: rs := by
              rcases List.suffix_cons_iff.mp hsuf with h | h
              · simp at h
              · exact h
            obtain ⟨i1, i2⟩ := ih (r :: rs).length (by subst hn; simp) (r :: rs) hsuf2 rfl
            rw [List.cons_append, List.cons_append, translateNL.eq_2, translateNL.eq_2, i1]
            exact ⟨rfl, i2.trans (List.suffix_cons _ _)⟩
        · obtain ⟨i1, i2⟩ := ih (c' :: rest).length (by subst hn; simp) (c' :: rest) hsuf rfl
          rw [List.cons_append, translateNL_cr ((c' :: rest) ++ v) (by intro r hr; simp at hr; exact hc' hr.1),
            translateNL_cr (c' :: rest) (by intro r hr; simp at hr; exact hc' hr.1), i1]
          exact ⟨rfl, i2.trans (List.suffix_cons _ _)⟩
      · obtain ⟨i1, i2⟩ := ih (c' :: rest).length (by subst hn; simp) (c' :: rest) hsuf rfl
        rw [List.cons_append, translateNL_cons_ne c _ hc, translateNL_cons_ne c _ hc, i1]
        exact ⟨rfl, i2.trans (List.suffix_cons _ _)⟩

end Dask.TextBlocks
