import DaskModel.Model.TextBlocks
import DaskModel.Lemmas.TextSeek
/-! `fsspec.utils.seek_delimiter` reads `blocksize` bytes at a time and carries the last `len(delimiter)`
bytes over; this file proves that the loop finds exactly the first occurrence at or after the start
position (`seekChunked = seekSimple`) for every read size ≥ 1. -/
namespace Dask.TextBlocks

/-- the bytes `[a, b)` of the file -/
def slice (data : List Nat) (a b : Nat) : List Nat := (data.drop a).take (b - a)

theorem slice_length (data : List Nat) (a b : Nat) (hb : b ≤ data.length) : (slice data a b).length = b - a := by
  simp only [slice, List.length_take, List.length_drop]; omega

theorem slice_append (data : List Nat) (a b c : Nat) (hab : a ≤ b) (hbc : b ≤ c) :
    slice data a b ++ slice data b c = slice data a c := by
  simp only [slice]
  have h1 : data.drop b = (data.drop a).drop (b - a) := by rw [List.drop_drop]; congr 1; omega
  rw [h1, show c - a = (b - a) + (c - b) by omega, List.take_add]

theorem slice_drop (data : List Nat) (a b i : Nat) : (slice data a b).drop i = slice data (a + i) b := by
  simp only [slice, List.drop_take, List.drop_drop]
  congr 1; omega

/-- an occurrence inside a slice is an occurrence in the file that ends inside the slice -/
theorem prefix_slice_iff {d data : List Nat} (hd : d ≠ []) (a e i : Nat) (he : e ≤ data.length) :
    d <+: (slice data a e).drop i ↔ (a + i + d.length ≤ e ∧ d <+: data.drop (a + i)) := by
  rw [slice_drop]
  have hdl : 0 < d.length := List.length_pos_iff.mpr hd
  constructor
  · intro h
    have hlen := h.length_le
    rw [slice_length data _ _ he] at hlen
    have hle : a + i + d.length ≤ e := by
      rcases Nat.lt_or_ge e (a + i) with h1 | h1
      · have : e - (a + i) = 0 := by omega
        omega
      · omega
    refine ⟨hle, ?_⟩
    exact h.trans (by simp only [slice]; exact List.take_prefix _ _)
  · rintro ⟨hle, hp⟩
    simp only [slice]
    rw [List.prefix_take_iff]
    exact ⟨hp, by omega⟩

/-- loop invariant: `last` is the window `[a, pos)`, the window starts at or after the start position and
    either still contains everything read so far or has the length of the delimiter; no occurrence has
    been read completely yet -/
structure ChunkInv (d data : List Nat) (p0 pos : Nat) (last : List Nat) : Prop where
  posle : pos ≤ data.length ∨ (pos = p0 ∧ last = [])
  p0le : p0 ≤ pos
  lastlen : last.length ≤ pos - p0
  lasteq : last = slice data (pos - last.length) pos
  window : pos - last.length = p0 ∨ d.length ≤ last.length
  none : ∀ q, p0 ≤ q → q + d.length ≤ pos → ¬ d <+: data.drop q

theorem seekChunkedLoop_eq {d data : List Nat} (hd : d ≠ []) (bsz : Nat) (hb : 0 < bsz) (p0 : Nat) (hp0 : 0 < p0)
    (fuel pos : Nat) (last : List Nat) (hinv : ChunkInv d data p0 pos last) (hfuel : data.length < pos + fuel) :
    seekChunkedLoop bsz d data fuel pos last = seekSimple d data p0 := by
  have hdl : 0 < d.length := List.length_pos_iff.mpr hd
  -- what `seekSimple` returns when there is no occurrence at or after `p0`
  have hnone : (∀ q, p0 ≤ q → q + d.length ≤ data.length → ¬ d <+: data.drop q) →
      seekSimple d data p0 = (max p0 data.length, false) := by
    intro h
    simp only [seekSimple, show p0 ≠ 0 by omega, if_false]
    have : findIdx d (data.drop p0) = none := by
      rw [findIdx_eq_none_iff]
      intro j hj hp
      simp only [List.length_drop] at hj
      rw [List.drop_drop] at hp
      have hl := hp.length_le
      simp only [List.length_drop] at hl
      exact h (p0 + j) (by omega) (by omega) hp
    rw [this]
  induction fuel generalizing pos last with
  | zero =>
    -- only reachable when the start position is beyond the end of the file
    have hgt : data.length < pos := by omega
    rcases hinv.posle with h | ⟨h1, _⟩
    · omega
    · subst h1
      simp only [seekChunkedLoop]
      rw [hnone (by intro q hq hle; omega)]
      congr 1; omega
  | succ fuel ih =>
    simp only [seekChunkedLoop]
    by_cases hemp : ((data.drop pos).take bsz).isEmpty = true
    · -- nothing left to read
      simp only [hemp, if_true]
      have hge : data.length ≤ pos := by
        have : (data.drop pos).take bsz = [] := List.isEmpty_iff.mp hemp
        have hl := congrArg List.length this
        simp only [List.length_take, List.length_drop, List.length_nil] at hl
        omega
      rw [hnone (by
        intro q hq hle
        exact hinv.none q hq (by omega))]
      congr 1
      rcases hinv.posle with h | ⟨h1, _⟩
      · have := hinv.p0le; omega
      · omega
    · simp only [hemp, Bool.false_eq_true, if_false]
      have hposlt : pos < data.length := by
        rcases Nat.lt_or_ge pos data.length with h | h
        · exact h
        · exfalso; apply hemp; simp [List.drop_eq_nil_of_le h]
      generalize hcur : (data.drop pos).take bsz = current at *
      have hcurlen : current.length = min bsz (data.length - pos) := by
        rw [← hcur, List.length_take, List.length_drop]
      have hpos' : pos + current.length ≤ data.length := by
        have : min bsz (data.length - pos) ≤ data.length - pos := Nat.min_le_right _ _
        omega
      have hcureq : current = slice data pos (pos + current.length) := by
        have hle : current.length ≤ bsz := by rw [hcurlen]; exact Nat.min_le_left _ _
        have h1 : (data.drop pos).take current.length = current := by
          have h2 : current.take current.length = current := List.take_length
          conv at h2 => lhs; arg 2; rw [← hcur]
          rw [List.take_take, Nat.min_eq_left hle] at h2
          exact h2
        simp only [slice, Nat.add_sub_cancel_left]
        exact h1.symm
      obtain ⟨a, ha⟩ : ∃ a, a = pos - last.length := ⟨_, rfl⟩
      have hale : a ≤ pos := by omega
      have hp0a : p0 ≤ a := by have := hinv.lastlen; have := hinv.p0le; omega
      have hfull : last ++ current = slice data a (pos + current.length) := by
        have h1 : last = slice data a pos := by rw [ha]; exact hinv.lasteq
        rw [h1]
        conv => lhs; rw [hcureq]
        exact slice_append data a pos _ hale (by omega)
      have hfulllen : (last ++ current).length = pos + current.length - a := by
        rw [hfull, slice_length data _ _ hpos']
      -- an occurrence visible in the window is an occurrence of the file, and vice versa
      have hvis : ∀ i, d <+: (last ++ current).drop i ↔
          (a + i + d.length ≤ pos + current.length ∧ d <+: data.drop (a + i)) := by
        intro i; rw [hfull]; exact prefix_slice_iff hd a _ i hpos'
      -- occurrences that start at or after p0 and end inside what has been read lie inside the window
      have hinwin : ∀ q, p0 ≤ q → q + d.length ≤ pos + current.length → d <+: data.drop q → a ≤ q := by
        intro q hq hle hp
        rcases Nat.lt_or_ge q a with hlt | hge
        · exfalso
          rcases hinv.window with hw | hw
          · omega
          · have := hinv.lastlen
            exact hinv.none q hq (by omega) hp
        · exact hge
      cases hf : findIdx d (last ++ current) with
      | some i =>
        simp only
        obtain ⟨h1, h2, h3⟩ := (findIdx_eq_some_iff _ _ _).mp hf
        obtain ⟨hle, hocc⟩ := (hvis i).mp h1
        -- `a + i` is the first occurrence at or after `p0`
        have hfirst : findIdx d (data.drop p0) = some (a + i - p0) := by
          rw [findIdx_eq_some_iff]
          refine ⟨by rw [List.drop_drop, show p0 + (a + i - p0) = a + i by omega]; exact hocc,
            by simp only [List.length_drop]; omega, ?_⟩
          intro j hj hp
          rw [List.drop_drop] at hp
          have hq := hinwin (p0 + j) (by omega) (by omega) hp
          apply h3 (p0 + j - a) (by omega)
          rw [hvis]
          exact ⟨by omega, by rw [show a + (p0 + j - a) = p0 + j by omega]; exact hp⟩
        simp only [seekSimple, show p0 ≠ 0 by omega, if_false, hfirst]
        rw [hfulllen]
        congr 1
        omega
      | none =>
        simp only
        have hnowin : ∀ q, p0 ≤ q → q + d.length ≤ pos + current.length → ¬ d <+: data.drop q := by
          intro q hq hle hp
          have hqa := hinwin q hq hle hp
          rw [findIdx_eq_none_iff] at hf
          apply hf (q - a) (by rw [hfulllen]; omega)
          rw [hvis]
          exact ⟨by omega, by rw [show a + (q - a) = q by omega]; exact hp⟩
        by_cases hshort : current.length < bsz
        · -- end of file reached
          simp only [hshort, if_true]
          have hend : pos + current.length = data.length := by rw [hcurlen] at hshort ⊢; omega
          rw [hnone (by intro q hq hle; exact hnowin q hq (by omega))]
          congr 1
          have := hinv.p0le; omega
        · simp only [hshort, if_false]
          have hcl : current.length = bsz := by rw [hcurlen] at hshort ⊢; omega
          apply ih
          · -- the invariant for the next round
            obtain ⟨last', hl'⟩ : ∃ l', l' = (last ++ current).drop ((last ++ current).length - d.length) := ⟨_, rfl⟩
            rw [← hl']
            have hl'len : last'.length = min d.length ((last ++ current).length) := by
              rw [hl']; simp only [List.length_drop]; omega
            have hl'eq : last' = slice data (pos + current.length - last'.length) (pos + current.length) := by
              rw [hl'len, hfulllen]
              rw [hl', hfulllen, hfull, slice_drop]
              congr 1
              omega
            refine ⟨Or.inl hpos', by have := hinv.p0le; omega, by rw [hl'len, hfulllen]; omega, hl'eq, ?_, hnowin⟩
            rw [hl'len, hfulllen]
            rcases Nat.lt_or_ge (pos + current.length - a) d.length with hlt | hge
            · left
              have : a = p0 := by
                rcases hinv.window with hw | hw
                · rw [ha]; exact hw
                · have := hinv.lastlen; omega
              omega
            · right; omega
          · omega

/-- **the chunked reader is the one-shot search**: for every read size ≥ 1 -/
theorem seekChunked_eq_seekSimple (bsz : Nat) (hb : 0 < bsz) (d data : List Nat) (hd : d ≠ []) (pos : Nat) :
    seekChunked bsz d data pos = seekSimple d data pos := by
  simp only [seekChunked]
  split
  · next h => simp [seekSimple, h]
  · next h =>
    apply seekChunkedLoop_eq hd bsz hb pos (by omega)
    · have hdl : 0 < d.length := List.length_pos_iff.mpr hd
      exact ⟨Or.inr ⟨rfl, rfl⟩, Nat.le_refl _, by simp, by simp [slice], Or.inl (by simp), by intro q hq hle; omega⟩
    · omega

end Dask.TextBlocks
