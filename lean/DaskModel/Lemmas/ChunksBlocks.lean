import DaskModel.Model.Chunks
import DaskModel.Lemmas.ChunksPlanner
/-! `blockOf` / `blockStart` / `splitBy`: locating a global position in a chunked axis (shared by C24, C34). -/
namespace Dask.Chunks

theorem blockStart_zero (cs : List Nat) : blockStart cs 0 = 0 := by simp [blockStart, sum]
theorem blockStart_succ (c : Nat) (cs : List Nat) (b : Nat) : blockStart (c :: cs) (b + 1) = c + blockStart cs b := by
  simp [blockStart, sum_cons]

theorem blockOf_spec : ∀ {cs : List Nat} {p b o : Nat}, blockOf cs p = some (b, o) →
    ∃ c, cs[b]? = some c ∧ o < c ∧ blockStart cs b + o = p
  | [], _, _, _, h => by simp [blockOf] at h
  | c :: cs, p, b, o, h => by
    unfold blockOf at h
    split at h
    · rename_i hp
      injection h with h; injection h with hb ho
      subst hb; subst ho
      exact ⟨c, by simp, hp, by simp [blockStart_zero]⟩
    · rename_i hp
      cases hrec : blockOf cs (p - c) with
      | none => simp [hrec] at h
      | some bo =>
        obtain ⟨b', o'⟩ := bo
        simp only [hrec, Option.map_some] at h
        injection h with h; injection h with hb ho
        subst hb; subst ho
        obtain ⟨c', h1, h2, h3⟩ := blockOf_spec hrec
        exact ⟨c', by simpa using h1, h2, by rw [blockStart_succ]; omega⟩

theorem blockOf_some : ∀ {cs : List Nat} {p : Nat}, p < sum cs → ∃ b o, blockOf cs p = some (b, o)
  | [], p, h => by simp [sum] at h
  | c :: cs, p, h => by
    unfold blockOf
    split
    · exact ⟨0, p, rfl⟩
    · rename_i hp
      rw [sum_cons] at h
      obtain ⟨b, o, hbo⟩ := blockOf_some (cs := cs) (p := p - c) (by omega)
      exact ⟨b + 1, o, by simp [hbo]⟩

theorem splitBy_getD {α} : ∀ (cs : List Nat) (xs : List α) (b c : Nat), cs[b]? = some c →
    (splitBy cs xs).getD b [] = (xs.drop (blockStart cs b)).take c
  | [], _, _, _, h => by simp at h
  | c0 :: cs, xs, 0, c, h => by
    simp at h; subst h
    simp [splitBy, blockStart_zero]
  | c0 :: cs, xs, b + 1, c, h => by
    simp only [List.getElem?_cons_succ] at h
    simp only [splitBy, List.getD_cons_succ, blockStart_succ]
    rw [splitBy_getD cs (xs.drop c0) b c h, List.drop_drop]



theorem blockStart_le_sum (cs : List Nat) (b : Nat) : blockStart cs b ≤ sum cs := by
  unfold blockStart
  have := List.take_append_drop b cs
  have h2 : sum cs = sum (cs.take b) + sum (cs.drop b) := by
    conv => lhs; rw [← this]
    exact sum_append _ _
  omega

theorem blockStart_succ_of_get {cs : List Nat} {b c : Nat} (h : cs[b]? = some c) : blockStart cs (b + 1) = blockStart cs b + c := by
  unfold blockStart
  have hb : b < cs.length := by
    rcases Nat.lt_or_ge b cs.length with h1 | h1
    · exact h1
    · rw [List.getElem?_eq_none h1] at h; cases h
  rw [List.take_succ_eq_append_getElem hb, sum_append]
  have : cs[b] = c := by rw [List.getElem?_eq_getElem hb] at h; injection h
  rw [this]; rfl

theorem get_of_blockStart_lt {cs : List Nat} {b : Nat} (h : blockStart cs b < sum cs) : ∃ c, cs[b]? = some c := by
  rcases Nat.lt_or_ge b cs.length with h1 | h1
  · exact ⟨cs[b], List.getElem?_eq_getElem h1⟩
  · exfalso
    unfold blockStart at h
    rw [List.take_of_length_le h1] at h
    omega

end Dask.Chunks
