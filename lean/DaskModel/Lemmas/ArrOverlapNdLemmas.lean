import DaskModel.Model.ArrOverlapNd
import DaskModel.Lemmas.ArrOverlapBoundary
/-! C26 extension: closed form of the 1-d extended blocks (slices of the axis) and the N-d product. -/
namespace Dask.ArrOverlapNd
open Dask.ArrOverlap

theorem drop_ctx {α : Type} (dl : Nat) (earlier p r : List α) (h : dl ≤ p.length) :
    (earlier ++ p ++ r).drop (earlier.length + p.length - dl) = lastN dl p ++ r := by
  unfold lastN
  rw [List.append_assoc, List.drop_append, List.drop_append]
  have h1 : earlier.length + p.length - dl - earlier.length = p.length - dl := by omega
  have h2 : p.length - dl - p.length = 0 := by omega
  rw [List.drop_eq_nil_of_le (by omega), h1, h2]
  simp

theorem take_ctx {α : Type} (k : Nat) (l blk r : List α) :
    (l ++ blk ++ r).take (l.length + blk.length + k) = l ++ blk ++ r.take k := by
  rw [← List.length_append, List.take_length_add_append]

theorem right_eq {α : Type} (dr : Nat) (nxt : List α) : (if dr ≠ 0 then nxt.take dr else []) = nxt.take dr := by
  by_cases h : dr = 0 <;> simp [h]

theorem left_eq {α : Type} (dl : Nat) (p : List α) : (if dl ≠ 0 then lastN dl p else []) = lastN dl p := by
  by_cases h : dl = 0
  · subst h; simp [lastN]
  · simp [h]

theorem overlapAux_cons {α : Type} (dl dr : Nat) (prev : Option (List α)) (x : List α) (rest : List (List α))
    (h : ∀ y ∈ rest, dr ≤ y.length) :
    overlapBlocksAux dl dr prev (x :: rest)
      = (((prev.map (lastN dl)).getD []) ++ x ++ rest.flatten.take (if 0 + 1 = rest.length + 1 then 0 else dr))
          :: overlapBlocksAux dl dr (some x) rest := by
  cases rest with
  | nil => cases prev <;> simp only [overlapBlocksAux, left_eq] <;> simp
  | cons nxt more =>
    have hn := h nxt (by simp)
    cases prev <;> simp only [overlapBlocksAux, left_eq, right_eq] <;> simp [List.take_append_of_le_length hn]

theorem overlapAux_get {α : Type} (dl dr : Nat) : ∀ (blocks : List (List α)) (prev : Option (List α)) (before : List α)
    (b : Nat) (blk : List α),
    (∀ x ∈ blocks, dl ≤ x.length ∧ dr ≤ x.length) →
    (match prev with | none => before = [] | some p => dl ≤ p.length ∧ ∃ earlier, before = earlier ++ p) →
    blocks[b]? = some blk →
    (overlapBlocksAux dl dr prev blocks)[b]? = some
      (((before ++ blocks.flatten).drop
          (before.length + (blocks.take b).flatten.length - (if b = 0 ∧ prev.isNone then 0 else dl))).take
        ((if b = 0 ∧ prev.isNone then 0 else dl) + blk.length + (if b + 1 = blocks.length then 0 else dr))) := by
  intro blocks
  induction blocks with
  | nil => intro prev before b blk _ _ h; simp at h
  | cons x rest ih =>
    intro prev before b blk hbig hprev hb
    cases b with
    | zero =>
      simp only [List.getElem?_cons_zero, Option.some.injEq] at hb
      subst hb
      rw [overlapAux_cons dl dr prev x rest (fun y hy => (hbig y (by simp [hy])).2)]
      simp only [List.getElem?_cons_zero, List.take_zero, List.flatten_nil, List.length_nil,
        Nat.add_zero, true_and, List.flatten_cons, List.length_cons]
      congr 1
      cases prev with
      | none =>
        simp only at hprev
        subst hprev
        simp only [Option.isNone_none, if_true, List.nil_append, Nat.sub_zero, Nat.zero_add,
          Option.map_none, Option.getD_none]
        have := take_ctx (if 0 + 1 = rest.length + 1 then 0 else dr) [] x rest.flatten
        simpa using this.symm
      | some p =>
        simp only at hprev
        obtain ⟨hp, earlier, rfl⟩ := hprev
        simp only [Option.isNone_some, Bool.false_eq_true, if_false, List.length_append, Option.map_some,
          Option.getD_some]
        have h1 := drop_ctx dl earlier p (x ++ rest.flatten) hp
        rw [h1]
        have h2 := take_ctx (if 0 + 1 = rest.length + 1 then 0 else dr) (lastN dl p) x rest.flatten
        rw [lastN_length dl p hp] at h2
        rw [← List.append_assoc, h2]
    | succ b' =>
      simp only [List.getElem?_cons_succ] at hb
      rw [overlapAux_cons dl dr prev x rest (fun y hy => (hbig y (by simp [hy])).2)]
      simp only [List.getElem?_cons_succ]
      have hx := hbig x (by simp)
      rw [ih (some x) (before ++ x) b' blk (fun y hy => hbig y (by simp [hy])) ⟨hx.1, before, rfl⟩ hb]
      simp only [Option.isNone_some, Bool.false_eq_true, and_false, if_false, List.length_append, List.take_succ_cons,
        List.flatten_cons, List.append_assoc, List.length_cons, Nat.add_right_cancel_iff, Nat.succ_ne_zero, false_and]
      congr 3
      omega
/-- **closed form of one extended block of `overlap_internal`** (one axis): block `b` holds exactly the cells
    `[lo - d⁻, hi + d⁺)` of the axis, `d⁻ = 0` for the first block, `d⁺ = 0` for the last one -/
theorem overlapBlocks_get {α : Type} (dl dr : Nat) (blocks : List (List α)) (b : Nat) (blk : List α)
    (hbig : ∀ x ∈ blocks, dl ≤ x.length ∧ dr ≤ x.length) (hb : blocks[b]? = some blk) :
    (overlapBlocks dl dr blocks)[b]? = some
      ((blocks.flatten.drop ((blocks.take b).flatten.length - (if b = 0 then 0 else dl))).take
        ((if b = 0 then 0 else dl) + blk.length + (if b + 1 = blocks.length then 0 else dr))) := by
  have := overlapAux_get dl dr blocks none [] b blk hbig rfl hb
  simpa [overlapBlocks] using this

theorem overlapWithBoundary_get {α : Type} (d : Nat) (padL padR : List α) (blocks : List (List α)) (b : Nat)
    (blk : List α) (hl : padL.length = d) (hr : d ≤ padR.length) (hbig : ∀ x ∈ blocks, d ≤ x.length)
    (hb : blocks[b]? = some blk) :
    (overlapWithBoundary d padL padR blocks)[b]? = some
      (((padL ++ blocks.flatten ++ padR).drop (blocks.take b).flatten.length).take (d + blk.length + d)) := by
  have hblt : b < blocks.length := by
    rcases Nat.lt_or_ge b blocks.length with h | h
    · exact h
    · rw [List.getElem?_eq_none h] at hb; cases hb
  have hbig' : ∀ x ∈ padL :: (blocks ++ [padR]), d ≤ x.length ∧ d ≤ x.length := by
    intro x hx
    simp only [List.mem_cons, List.mem_append, List.mem_nil_iff, or_false] at hx
    rcases hx with h | h | h
    · subst h; omega
    · exact ⟨hbig x h, hbig x h⟩
    · subst h; exact ⟨hr, hr⟩
  have hb' : (padL :: (blocks ++ [padR]))[b + 1]? = some blk := by
    rw [List.getElem?_cons_succ, List.getElem?_append_left hblt]; exact hb
  have h := overlapBlocks_get d d (padL :: (blocks ++ [padR])) (b + 1) blk hbig' hb'
  unfold overlapWithBoundary
  have hlen : (overlapBlocks d d (padL :: (blocks ++ [padR]))).length = blocks.length + 2 := by
    unfold overlapBlocks; rw [overlapBlocksAux_length]; simp
  rw [List.dropLast_eq_take, List.getElem?_take, if_pos (by simp [hlen]; omega), List.getElem?_drop,
    Nat.add_comm 1 b, h]
  simp only [Nat.succ_ne_zero, if_false, List.take_succ_cons, List.flatten_cons, List.length_append, hl,
    List.length_cons, List.flatten_append, List.flatten_nil, List.append_nil, List.length_nil]
  rw [List.take_append_of_le_length (Nat.le_of_lt hblt)]
  have h1 : ¬ (b + 1 + 1 = blocks.length + (0 + 1) + 1) := by omega
  rw [if_neg h1]
  congr 3
  · omega
  · simp [List.append_assoc]

/-! ### the position blocks of an axis -/

theorem splitFrom_length : ∀ (cs : List Nat) (s : Nat), (splitFrom s cs).length = cs.length := by
  intro cs; induction cs with
  | nil => intro s; rfl
  | cons c cs ih => intro s; simp [splitFrom, ih]

theorem splitFrom_flatten : ∀ (cs : List Nat) (s : Nat), (splitFrom s cs).flatten = List.range' s cs.sum := by
  intro cs; induction cs with
  | nil => intro s; simp [splitFrom]
  | cons c cs ih => intro s; simp [splitFrom, ih, List.range'_append_1]

theorem splitFrom_take : ∀ (cs : List Nat) (s b : Nat), (splitFrom s cs).take b = splitFrom s (cs.take b) := by
  intro cs; induction cs with
  | nil => intro s b; simp [splitFrom]
  | cons c cs ih => intro s b; cases b <;> simp [splitFrom, ih]

theorem splitFrom_get : ∀ (cs : List Nat) (s b : Nat),
    (splitFrom s cs)[b]? = cs[b]?.map (List.range' (s + (cs.take b).sum)) := by
  intro cs; induction cs with
  | nil => intro s b; simp [splitFrom]
  | cons c cs ih =>
    intro s b
    cases b with
    | zero => simp [splitFrom]
    | succ b => simp [splitFrom, ih, Nat.add_assoc]

theorem Axis.blocks_length (a : Axis) : a.blocks.length = a.cs.length := by
  simp [Axis.blocks, splitPos, splitFrom_length]

theorem Axis.blocks_flatten (a : Axis) : a.blocks.flatten = (List.range a.n).map some := by
  simp [Axis.blocks, splitPos, ← List.map_flatten, splitFrom_flatten, Axis.n, List.range_eq_range']

theorem Axis.blocks_take_len (a : Axis) (b : Nat) : (a.blocks.take b).flatten.length = a.lo b := by
  simp [Axis.blocks, splitPos, ← List.map_take, ← List.map_flatten, splitFrom_take, splitFrom_flatten, Axis.lo]

theorem Axis.blocks_get (a : Axis) (b : Nat) :
    a.blocks[b]? = a.cs[b]?.map fun len => (List.range' (a.lo b) len).map some := by
  simp only [Axis.blocks, splitPos, List.getElem?_map, splitFrom_get, Axis.lo, Nat.zero_add]
  cases a.cs[b]? <;> rfl

theorem Axis.blocks_big (a : Axis) (d : Nat) (h : ∀ c ∈ a.cs, d ≤ c) : ∀ x ∈ a.blocks, d ≤ x.length := by
  intro x hx
  obtain ⟨b, hb⟩ := List.mem_iff_getElem?.mp hx
  rw [Axis.blocks_get] at hb
  cases hc : a.cs[b]? with
  | none => simp [hc] at hb
  | some len =>
    simp only [hc, Option.map_some, Option.some.injEq] at hb
    subst hb
    simp only [List.length_map, List.length_range']
    exact h len (List.mem_of_getElem? hc)

/-- every chunk is at least as long as the depth (what `ensure_minimum_chunksize` establishes) -/
def Axis.big (a : Axis) : Prop := ∀ c ∈ a.cs, a.dl ≤ c ∧ a.dr ≤ c

instance (a : Axis) : Decidable a.big := by unfold Axis.big; infer_instance

/-- **one axis: the extended block `b` is the interval `[lo - d⁻, hi + d⁺)` of the padded axis** (clipped at the array
    edges for boundary 'none', reaching into the pads otherwise); `none` on both sides when there is no block `b` -/
theorem Axis.ext_get (a : Axis) (b : Nat) (h : a.big) : a.ext[b]? = a.rect b := by
  unfold Axis.rect
  cases hc : a.cs[b]? with
  | none =>
    simp only
    have hlen : a.ext.length = a.cs.length := by
      unfold Axis.ext
      cases a.kind with
      | none => simp [overlapBlocks, overlapBlocksAux_length, Axis.blocks_length]
      | some k =>
        simp [overlapWithBoundary, overlapBlocks, overlapBlocksAux_length, Axis.blocks_length]
    rw [List.getElem?_eq_none_iff] at hc ⊢
    omega
  | some len =>
    have hb : a.blocks[b]? = some ((List.range' (a.lo b) len).map some) := by rw [Axis.blocks_get, hc]; rfl
    simp only
    unfold Axis.ext Axis.padded Axis.base Axis.front Axis.back
    cases hk : a.kind with
    | none =>
      simp only
      rw [overlapBlocks_get a.dl a.dr a.blocks b _ ?_ hb]
      · rw [Axis.blocks_take_len]; simp [Axis.blocks_flatten, Axis.blocks_length]
      · intro x hx
        exact ⟨Axis.blocks_big a a.dl (fun c hc => (h c hc).1) x hx, Axis.blocks_big a a.dr (fun c hc => (h c hc).2) x hx⟩
    | some k =>
      simp only
      rw [overlapWithBoundary_get a.dl _ _ a.blocks b _ ?_ ?_ (Axis.blocks_big a a.dl (fun c hc => (h c hc).1)) hb]
      · rw [Axis.blocks_take_len]; simp [Axis.blocks_flatten, padPositions]
      · cases k <;> simp [padLeft]
      · cases k <;> simp [padRight]

/-! ### the N-d product -/

theorem ndOverlapBlock_eq_rect : ∀ (axes : List Axis) (bs : List Nat), (∀ a ∈ axes, a.big) →
    ndOverlapBlock axes bs = ndRect axes bs := by
  intro axes
  induction axes with
  | nil => intro bs _; cases bs <;> rfl
  | cons a as ih =>
    intro bs h
    cases bs with
    | nil => rfl
    | cons b bs =>
      have h1 := Axis.ext_get a b (h a (by simp))
      have h2 := ih bs (fun x hx => h x (by simp [hx]))
      unfold ndOverlapBlock at h2 ⊢
      simp only [List.map_cons, lookups, ndRect, h1, h2]
      cases a.rect b <;> cases ndRect as bs <;> rfl

/-! ### sums of chunks -/

theorem take_succ_sum (cs : List Nat) : ∀ (b len : Nat), cs[b]? = some len → (cs.take (b + 1)).sum = (cs.take b).sum + len := by
  induction cs with
  | nil => intro b len h; simp at h
  | cons c cs ih =>
    intro b len h
    cases b with
    | zero => simp at h; simp [h]
    | succ b => simp only [List.getElem?_cons_succ] at h; simp [List.take_succ_cons, ih b len h]; omega

theorem take_sum_le (cs : List Nat) : ∀ (b : Nat), (cs.take b).sum ≤ cs.sum := by
  induction cs with
  | nil => intro b; simp
  | cons c cs ih => intro b; cases b with
    | zero => simp
    | succ b => simp [List.take_succ_cons]; exact ih b

theorem take_sum_all (cs : List Nat) (b : Nat) (h : cs.length ≤ b) : (cs.take b).sum = cs.sum := by
  rw [List.take_of_length_le h]

theorem padPositions_length (k : Kind) (d n : Nat) : (padPositions k d n).length = d + n + d := by
  cases k <;> simp [padPositions, padLeft, padRight] <;> omega

theorem padLeft_length (k : Kind) (d n : Nat) : (padLeft k d n).length = d := by
  cases k <;> simp [padLeft]

theorem range_slice (n lo len : Nat) (h : lo + len ≤ n) :
    (((List.range n).map some).drop lo).take len = (List.range' lo len).map (some : Nat → Option Nat) := by
  rw [← List.map_drop, ← List.map_take, List.range_eq_range', List.drop_range',
    List.take_range'_of_length_ge (by omega)]
  congr 2
  omega

/-- the arithmetic of one extended block inside the padded axis -/
theorem Axis.rect_facts (a : Axis) (b len : Nat) (h : a.big) (hc : a.cs[b]? = some len) :
    a.base b + a.front b + len + a.back b ≤ a.padded.length ∧
    (a.padded.drop (a.base b + a.front b)).take len = (List.range' (a.lo b) len).map some ∧
    (a.front b = a.dep.1 ∨ a.base b = 0) ∧
    (a.back b = a.dep.2 ∨ a.base b + a.front b + len + a.back b = a.padded.length) := by
  have hblt : b < a.cs.length := by
    rcases Nat.lt_or_ge b a.cs.length with h | h
    · exact h
    · rw [List.getElem?_eq_none h] at hc; cases hc
  have hlo1 : a.lo (b + 1) = a.lo b + len := take_succ_sum a.cs b len hc
  have hn1 : a.lo (b + 1) ≤ a.n := take_sum_le a.cs (b + 1)
  unfold Axis.padded Axis.base Axis.front Axis.back Axis.dep
  cases hk : a.kind with
  | none =>
    simp only [List.length_map, List.length_range]
    -- the front fits into the previous block, the back into the next one
    have hfront : (if b = 0 then 0 else a.dl) ≤ a.lo b := by
      cases b with
      | zero => simp
      | succ b' =>
        have hb' : b' < a.cs.length := by omega
        have hc' : a.cs[b']? = some a.cs[b'] := List.getElem?_eq_getElem hb'
        have := take_succ_sum a.cs b' _ hc'
        have hd := (h a.cs[b'] (List.getElem_mem hb')).1
        simp only [Nat.succ_ne_zero, if_false]
        unfold Axis.lo
        omega
    have hback : a.lo b + len + (if b + 1 = a.cs.length then 0 else a.dr) ≤ a.n ∧
        ((if b + 1 = a.cs.length then 0 else a.dr) = a.dr ∨ a.lo b + len = a.n) := by
      by_cases hl : b + 1 = a.cs.length
      · have : a.lo (b + 1) = a.n := take_sum_all a.cs (b + 1) (by omega)
        simp only [hl, if_true]; omega
      · have hb' : b + 1 < a.cs.length := by omega
        have hc' : a.cs[b + 1]? = some a.cs[b + 1] := List.getElem?_eq_getElem hb'
        have h2 := take_succ_sum a.cs (b + 1) _ hc'
        have h3 : a.lo (b + 1 + 1) ≤ a.n := take_sum_le a.cs (b + 1 + 1)
        have hd := (h a.cs[b + 1] (List.getElem_mem hb')).2
        simp only [hl, if_false]
        refine ⟨?_, Or.inl trivial⟩
        unfold Axis.lo at *
        omega
    refine ⟨by omega, ?_, ?_, ?_⟩
    · have : a.lo b - (if b = 0 then 0 else a.dl) + (if b = 0 then 0 else a.dl) = a.lo b := by omega
      rw [this]
      exact range_slice a.n (a.lo b) len (by omega)
    · by_cases hb0 : b = 0
      · right; subst hb0; simp [Axis.lo]
      · left; simp [hb0]
    · rcases hback.2 with h' | h'
      · left; exact h'
      · right; omega
  | some k =>
    simp only [padPositions_length]
    refine ⟨by omega, ?_, Or.inl trivial, Or.inl trivial⟩
    unfold padPositions
    rw [List.append_assoc, List.drop_append, List.drop_eq_nil_of_le (by rw [padLeft_length]; omega), List.nil_append,
      padLeft_length, List.drop_append, List.take_append]
    have hlen : ((List.map some (List.range a.n)).drop (a.lo b + a.dl - a.dl)).length = a.n - a.lo b := by simp
    have h0 : len - (a.n - a.lo b) = 0 := by omega
    rw [hlen, h0, List.take_zero, List.append_nil]
    have : a.lo b + a.dl - a.dl = a.lo b := by omega
    rw [this]
    exact range_slice a.n (a.lo b) len (by omega)


/-- the block's own cells start at `pad + lo` in the padded axis -/
theorem Axis.base_front (a : Axis) (b len : Nat) (h : a.big) (hc : a.cs[b]? = some len) :
    a.base b + a.front b = a.pad + a.lo b := by
  unfold Axis.base Axis.front Axis.pad
  cases hk : a.kind with
  | none =>
    simp only
    cases b with
    | zero => simp
    | succ b' =>
      have hblt : b' + 1 < a.cs.length := by
        rcases Nat.lt_or_ge (b' + 1) a.cs.length with h | h
        · exact h
        · rw [List.getElem?_eq_none h] at hc; cases hc
      have hb' : b' < a.cs.length := by omega
      have hc' : a.cs[b']? = some a.cs[b'] := List.getElem?_eq_getElem hb'
      have := take_succ_sum a.cs b' _ hc'
      have hd := (h a.cs[b'] (List.getElem_mem hb')).1
      simp only [Nat.succ_ne_zero, if_false]
      unfold Axis.lo
      omega
  | some k => simp only; omega

end Dask.ArrOverlapNd
