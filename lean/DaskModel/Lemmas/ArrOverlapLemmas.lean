import DaskModel.Model.ArrOverlap
/-! Lemmas for C26: trim∘overlap on blocks and chunks, block sizes, ensure_minimum_chunksize invariant. -/
namespace Dask.ArrOverlap


theorem lastN_length {α : Type} (d : Nat) (p : List α) (h : d ≤ p.length) : (lastN d p).length = d := by
  unfold lastN; rw [List.length_drop]; omega

/-- one overlapped block, trimmed: the block itself -/
theorem trim_one {α : Type} (left blk right : List α) (front : Nat) (back : Option Nat)
    (hf : left.length = front) (hb : match back with | none => right = [] | some dr => right.length = dr) :
    pySliceFrontBack front back (left ++ blk ++ right) = blk := by
  unfold pySliceFrontBack
  cases back with
  | none =>
    simp only at hb
    subst hb
    rw [List.append_nil, ← hf, List.drop_left]
  | some dr =>
    simp only at hb ⊢
    have : (left ++ blk ++ right).length - dr = (left ++ blk).length := by
      simp only [List.length_append]; omega
    rw [this, List.take_left, ← hf, List.drop_left]

theorem trim_overlap_aux {α : Type} (dl dr : Nat) : ∀ (blocks : List (List α)) (prev : Option (List α)) (j nb : Nat),
    (∀ b ∈ blocks, dl ≤ b.length ∧ dr ≤ b.length) →
    (match prev with | none => j = 0 | some p => j ≠ 0 ∧ dl ≤ p.length) →
    nb = j + blocks.length →
    trimBlocksFrom true dl dr nb j (overlapBlocksAux dl dr prev blocks) = blocks := by
  intro blocks
  induction blocks with
  | nil => intro prev j nb _ _ _; rfl
  | cons blk rest ih =>
    intro prev j nb hbig hprev hnb
    simp only [overlapBlocksAux, trimBlocksFrom]
    have hblk := hbig blk (by simp)
    congr 1
    · apply trim_one
      · -- front
        cases prev with
        | none => simp only at hprev; subst hprev; simp
        | some p =>
          simp only at hprev
          rw [if_neg (by simp [hprev.1])]
          by_cases hd : dl = 0
          · subst hd; simp
          · simp only [ne_eq, hd, not_false_eq_true, if_true]
            exact lastN_length dl p hprev.2
      · -- back
        cases rest with
        | nil =>
          have : j = nb - 1 := by simp only [List.length_cons, List.length_nil] at hnb; omega
          simp [this]
        | cons nxt more =>
          have hn := hbig nxt (by simp)
          have hj : ¬ (j = nb - 1) := by simp only [List.length_cons] at hnb; omega
          by_cases hd : dr = 0
          · subst hd; simp
          · simp [hj, hd, List.length_take]
            omega
    · apply ih (some blk) (j + 1) nb
      · intro b hb; exact hbig b (by simp [hb])
      · exact ⟨by omega, hblk.1⟩
      · simp only [List.length_cons] at hnb; omega

/-- **trim ∘ overlap = id** on the blocks of one axis, for asymmetric depths, whenever every block is at
    least as long as the depth (what `ensure_minimum_chunksize` establishes). -/
theorem trim_overlap_blocks {α : Type} (dl dr : Nat) (blocks : List (List α))
    (hbig : ∀ b ∈ blocks, dl ≤ b.length ∧ dr ≤ b.length) :
    trimBlocks true dl dr (overlapBlocks dl dr blocks) = blocks := by
  unfold trimBlocks overlapBlocks
  have hlen : ∀ (bs : List (List α)) (prev : Option (List α)), (overlapBlocksAux dl dr prev bs).length = bs.length := by
    intro bs
    induction bs with
    | nil => intro prev; rfl
    | cons b bs ih => intro prev; simp [overlapBlocksAux, ih]
  rw [hlen]
  exact trim_overlap_aux dl dr blocks none 0 blocks.length hbig rfl (by omega)



theorem trimChunks_mids (dl dr : Nat) : ∀ (rest : List Nat) (j nb : Nat), j ≠ 0 → nb = j + rest.length →
    trimChunksFrom true dl dr nb j ((overlapMids dl dr rest).map (fun (c : Nat) => (c : Int)))
      = rest.map (fun (c : Nat) => (c : Int)) := by
  intro rest
  induction rest with
  | nil => intro j nb _ _; rfl
  | cons m more ih =>
    intro j nb hj hnb
    cases more with
    | nil =>
      simp only [overlapMids, List.map_cons, List.map_nil, trimChunksFrom]
      have h1 : j = nb - 1 := by simp only [List.length_cons, List.length_nil] at hnb; omega
      have h2 : nb - 1 ≠ 0 := by omega
      simp [h1, h2]
    | cons m2 more2 =>
      simp only [overlapMids, List.map_cons, trimChunksFrom]
      have h1 : ¬ (j = nb - 1) := by simp only [List.length_cons] at hnb; omega
      have := ih (j + 1) nb (by omega) (by simp only [List.length_cons] at hnb ⊢; omega)
      simp only [List.map_cons] at this
      rw [this]
      simp [hj, h1]
      omega

/-- trimming the chunks declared by `overlap_internal` gives the original chunks back, whatever the chunks -/
theorem trimChunks_overlapChunks (dl dr : Nat) (cs : List Nat) :
    trimChunks true dl dr ((overlapChunks dl dr cs).map (fun (c : Nat) => (c : Int)))
      = cs.map (fun (c : Nat) => (c : Int)) := by
  unfold trimChunks
  cases cs with
  | nil => rfl
  | cons c rest =>
    cases rest with
    | nil => simp [overlapChunks, trimChunksFrom]
    | cons c2 rest2 =>
      have hlen : ∀ (r : List Nat), (overlapMids dl dr r).length = r.length := by
        intro r
        induction r with
        | nil => rfl
        | cons a r ih => cases r with
          | nil => rfl
          | cons b r2 => simp only [overlapMids, List.length_cons] at ih ⊢; omega
      simp only [overlapChunks, List.map_cons, List.length_cons, List.length_map, hlen, trimChunksFrom]
      have := trimChunks_mids dl dr (c2 :: rest2) 1 (rest2.length + 1 + 1) (by omega)
        (by simp only [List.length_cons]; omega)
      simp only [List.map_cons] at this
      rw [this]
      simp



/-- loop invariant of `ensure_minimum_chunksize`: nothing is lost and everything emitted is large enough -/
def EMInv (size : Nat) (s : EMState) (total : Nat) : Prop :=
  s.output.sum + s.new = total ∧ ∀ o ∈ s.output, size ≤ o

theorem ensureMinStep_inv (size : Nat) (s : EMState) (c total : Nat) (h : EMInv size s total) :
    EMInv size (ensureMinStep size s c) (total + c) := by
  obtain ⟨hsum, hge⟩ := h
  unfold ensureMinStep
  by_cases hc : c < size
  · have hc2 : ¬ c ≥ size := by omega
    by_cases hn : s.new > size + (size - c)
    · simp only [hc, hn, if_true, hc2, if_false, ge_iff_le, Nat.le_refl]
      constructor
      · simp only [List.sum_cons]; omega
      · intro o ho
        simp only [List.mem_cons] at ho
        rcases ho with rfl | rfl | ho
        · exact Nat.le_refl _
        · omega
        · exact hge o ho
    · simp only [hc, hn, if_true, if_false, hc2]
      by_cases h2 : s.new + c ≥ size
      · simp only [h2, if_true]
        constructor
        · simp only [List.sum_cons]; omega
        · intro o ho
          simp only [List.mem_cons] at ho
          rcases ho with rfl | ho
          · exact h2
          · exact hge o ho
      · simp only [h2, if_false]
        refine ⟨?_, hge⟩
        show s.output.sum + (s.new + c) = total + c
        omega
  · have hc2 : c ≥ size := by omega
    simp only [hc, if_false, hc2, if_true]
    by_cases h2 : s.new ≥ size
    · simp only [h2, if_true]
      constructor
      · simp only [List.sum_cons]; omega
      · intro o ho
        simp only [List.mem_cons] at ho
        rcases ho with rfl | ho
        · exact h2
        · exact hge o ho
    · simp only [h2, if_false]
      refine ⟨?_, hge⟩
      show s.output.sum + (s.new + c) = total + c
      omega

theorem ensureMin_foldl_inv (size : Nat) : ∀ (chunks : List Nat) (s : EMState) (total : Nat), EMInv size s total →
    EMInv size (chunks.foldl (ensureMinStep size) s) (total + chunks.sum) := by
  intro chunks
  induction chunks with
  | nil => intro s total h; simpa using h
  | cons c cs ih =>
    intro s total h
    simp only [List.foldl_cons, List.sum_cons]
    have := ih _ _ (ensureMinStep_inv size s c total h)
    rw [Nat.add_assoc] at this
    exact this

/-- `ensure_minimum_chunksize` keeps the axis length and makes every chunk at least `size` -/
theorem ensureMin_ok (size : Nat) (chunks r : List Nat) (h : ensureMin size chunks = some r) :
    r.sum = chunks.sum ∧ ∀ c ∈ r, size ≤ c := by
  unfold ensureMin at h
  by_cases hall : chunks.all (fun c => decide (size ≤ c)) = true
  · simp only [hall, if_true, Option.some.injEq] at h
    subst h
    refine ⟨rfl, ?_⟩
    intro c hc
    have := List.all_eq_true.mp hall c hc
    simpa using this
  · simp only [hall] at h
    have hinv := ensureMin_foldl_inv size chunks ⟨[], 0⟩ 0 ⟨rfl, by intro o ho; cases ho⟩
    simp only [Nat.zero_add] at hinv
    obtain ⟨hsum, hge⟩ := hinv
    generalize chunks.foldl (ensureMinStep size) ⟨[], 0⟩ = s at h hsum hge
    by_cases hn : s.new ≥ size
    · simp only [Bool.false_eq_true, if_false, hn, if_true, Option.some.injEq] at h
      subst h
      constructor
      · rw [List.sum_reverse, List.sum_cons]; omega
      · intro c hc
        simp only [List.mem_reverse, List.mem_cons] at hc
        rcases hc with rfl | hc
        · exact hn
        · exact hge c hc
    · simp only [Bool.false_eq_true, if_false, hn] at h
      cases ho : s.output with
      | nil => rw [ho] at h; cases h
      | cons last more =>
        rw [ho] at h hsum hge
        simp only [Option.some.injEq] at h
        subst h
        constructor
        · rw [List.sum_reverse, List.sum_cons]; simp only [List.sum_cons] at hsum; omega
        · intro c hc
          simp only [List.mem_reverse, List.mem_cons] at hc
          rcases hc with rfl | hc
          · have := hge last (by simp); omega
          · exact hge c (by simp [hc])

/-- …and raises only when the axis is shorter than `size` -/
theorem ensureMin_none (size : Nat) (chunks : List Nat) (h : ensureMin size chunks = none) : chunks.sum < size := by
  unfold ensureMin at h
  by_cases hall : chunks.all (fun c => decide (size ≤ c)) = true
  · simp [hall] at h
  · simp only [hall] at h
    have hinv := ensureMin_foldl_inv size chunks ⟨[], 0⟩ 0 ⟨rfl, by intro o ho; cases ho⟩
    simp only [Nat.zero_add] at hinv
    obtain ⟨hsum, _⟩ := hinv
    generalize chunks.foldl (ensureMinStep size) ⟨[], 0⟩ = s at h hsum
    by_cases hn : s.new ≥ size
    · simp [hn] at h
    · simp only [Bool.false_eq_true, if_false, hn] at h
      cases ho : s.output with
      | nil => rw [ho] at hsum; simp at hsum; omega
      | cons last more => rw [ho] at h; cases h



theorem lastN_length' {α : Type} (d : Nat) (p : List α) (h : d ≤ p.length) : (lastN d p).length = d := by
  unfold lastN; rw [List.length_drop]; omega

/-- the overlapped blocks have the sizes `_overlap_internal_chunks` declares (blocks at least as long as the depth) -/
theorem overlapBlocks_lengths_aux {α : Type} (dl dr : Nat) : ∀ (blocks : List (List α)) (p : List α),
    (∀ b ∈ blocks, dl ≤ b.length ∧ dr ≤ b.length) → dl ≤ p.length →
    (overlapBlocksAux dl dr (some p) blocks).map List.length = overlapMids dl dr (blocks.map List.length) := by
  intro blocks
  induction blocks with
  | nil => intro p _ _; rfl
  | cons blk rest ih =>
    intro p hbig hp
    have hblk := hbig blk (by simp)
    have hleft : (if dl ≠ 0 then lastN dl p else []).length = dl := by
      by_cases hd : dl = 0
      · subst hd; simp
      · simp only [ne_eq, hd, not_false_eq_true, if_true]; exact lastN_length' dl p hp
    cases rest with
    | nil =>
      simp only [overlapBlocksAux, List.map_cons, List.map_nil, overlapMids, List.length_append, hleft, List.length_nil]
      congr 1; omega
    | cons nxt more =>
      have hn := hbig nxt (by simp)
      have hright : (if dr ≠ 0 then nxt.take dr else []).length = dr := by
        by_cases hd : dr = 0
        · subst hd; simp
        · simp only [ne_eq, hd, not_false_eq_true, if_true, List.length_take]; omega
      have := ih blk (fun b hb => hbig b (by simp [hb])) hblk.1
      simp only [overlapBlocksAux, List.map_cons, overlapMids, List.length_append, hleft, hright] at this ⊢
      rw [this]
      congr 1; omega

theorem overlapBlocks_lengths {α : Type} (dl dr : Nat) (blocks : List (List α))
    (hbig : ∀ b ∈ blocks, dl ≤ b.length ∧ dr ≤ b.length) :
    (overlapBlocks dl dr blocks).map List.length = overlapChunks dl dr (blocks.map List.length) := by
  unfold overlapBlocks
  cases blocks with
  | nil => rfl
  | cons blk rest =>
    cases rest with
    | nil => simp [overlapBlocksAux, overlapChunks]
    | cons nxt more =>
      have hn := hbig nxt (by simp)
      have hblk := hbig blk (by simp)
      have hright : (if dr ≠ 0 then nxt.take dr else []).length = dr := by
        by_cases hd : dr = 0
        · subst hd; simp
        · simp only [ne_eq, hd, not_false_eq_true, if_true, List.length_take]; omega
      have := overlapBlocks_lengths_aux dl dr (nxt :: more) blk (fun b hb => hbig b (by simp [hb])) hblk.1
      simp only [overlapBlocksAux, List.map_cons, overlapChunks, List.length_append, List.nil_append, hright] at this ⊢
      rw [this]

end Dask.ArrOverlap
