import DaskModel.Lemmas.RepartDivs
/-! C44/C41: the SECOND walk of `RepartitionDivisions._layer` (grouping the pieces into the new partitions) proved
    correct on its own terms: `walk2_spec`. Core Lean only. -/
namespace Dask.Repart

/-! ### the second walk: grouping the pieces -/

/-- what the second walk needs to know about the temporary divisions `cs` (chronological), the number of pieces `K`
    and the new divisions `b` -/
structure CsOK (b cs : List Nat) (K : Nat) (bL : Nat) : Prop where
  sorted : cs.Pairwise (· ≤ ·)
  lenlo : K + 1 ≤ cs.length
  atK : cs[K]? = some bL
  last : cs.getLast? = some bL
  blast : b.getLast? = some bL
  bsorted : b.Pairwise (· ≤ ·)
  bmem : ∀ y ∈ b, y ∈ cs
  /-- with a repeated last new division the last piece is the single-label piece `[bL, bL]` -/
  single : ∀ bL2, b[b.length - 2]? = some bL2 → bL2 = bL → ∀ v, cs[K - 1]? = some v → 1 ≤ K → v = bL

theorem sorted_get_le' {xs : List Nat} (hs : xs.Pairwise (· ≤ ·)) {i j a b : Nat} (hij : i ≤ j)
    (ha : xs[i]? = some a) (hb : xs[j]? = some b) : a ≤ b := by
  rcases Nat.eq_or_lt_of_le hij with h | h
  · subst h; rw [ha] at hb; cases hb; exact Nat.le_refl _
  · obtain ⟨hi, rfl⟩ := List.getElem?_eq_some_iff.mp ha
    obtain ⟨hj, rfl⟩ := List.getElem?_eq_some_iff.mp hb
    exact (List.pairwise_iff_getElem.mp hs) i j hi hj h

/-- the inner `while c[i] < b[j]` loop -/
theorem collectLt_spec (cs : List Nat) (hs : cs.Pairwise (· ≤ ·)) (bj K : Nat) (vK : Nat)
    (hK : cs[K]? = some vK) (hge : bj ≤ vK) :
    ∀ (fuel i : Nat) (tmp : List Nat), i ≤ K → K + 1 - i ≤ fuel →
      ∃ i1, collectLt cs bj fuel i tmp = some (i1, (List.range' i (i1 - i)).reverse ++ tmp) ∧ i ≤ i1 ∧ i1 ≤ K ∧
        (∀ t v, i ≤ t → t < i1 → cs[t]? = some v → v < bj) ∧ (∀ v, cs[i1]? = some v → bj ≤ v)
  | 0, i, tmp, hi, hf => by omega
  | fuel + 1, i, tmp, hi, hf => by
    have hKlt : K < cs.length := (List.getElem?_eq_some_iff.mp hK).1
    have hci : cs[i]? = some cs[i] := List.getElem?_eq_getElem (by omega)
    by_cases hlt : cs[i] < bj
    · have hiK : i < K := by
        apply Nat.lt_of_le_of_ne hi
        intro he; subst he
        rw [hci] at hK
        have : cs[i] = vK := Option.some.inj hK
        omega
      obtain ⟨i1, h1, h2, h3, h4, h5⟩ := collectLt_spec cs hs bj K vK hK hge fuel (i + 1) (i :: tmp) (by omega) (by omega)
      refine ⟨i1, ?_, by omega, h3, ?_, h5⟩
      · simp only [collectLt, hci, Option.bind_eq_bind, Option.bind_some, hlt, if_true]
        rw [h1]
        have : i1 - i = (i1 - (i + 1)) + 1 := by omega
        rw [this, List.range'_succ]
        simp
      · intro t v ht1 ht2 hv
        rcases Nat.eq_or_lt_of_le ht1 with rfl | hlt'
        · rw [hci] at hv; cases hv; exact hlt
        · exact h4 t v (by omega) ht2 hv
    · refine ⟨i, ?_, Nat.le_refl _, hi, ?_, ?_⟩
      · simp [collectLt, hci, hlt]
      · intro t v h1 h2; omega
      · intro v hv; rw [hci] at hv; cases hv; omega

/-- the inner `while last_elem and c[i] == b[-1] and (…) and i < k` loop -/
theorem collectLast_spec (cs : List Nat) (lastElem : Bool) (bLast : Nat) (cond : Bool) (K : Nat)
    (hlen : K + 1 ≤ cs.length) :
    ∀ (fuel i : Nat) (tmp : List Nat), i ≤ K → K + 1 - i ≤ fuel →
      ∃ i2, collectLast cs lastElem bLast cond K fuel i tmp = some (i2, (List.range' i (i2 - i)).reverse ++ tmp) ∧
        i ≤ i2 ∧ i2 ≤ K ∧ (∀ t v, i ≤ t → t < i2 → cs[t]? = some v → v = bLast ∧ cond = true ∧ lastElem = true) ∧
        ((lastElem = true ∧ cond = true) → ∀ v, cs[i2]? = some v → i2 < K → v ≠ bLast)
  | 0, i, tmp, hi, hf => by omega
  | fuel + 1, i, tmp, hi, hf => by
    have hci : cs[i]? = some cs[i] := List.getElem?_eq_getElem (by omega)
    by_cases hle : lastElem = true
    · by_cases hgo : (cs[i] == bLast && cond && decide (i < K)) = true
      · simp only [Bool.and_eq_true, beq_iff_eq, decide_eq_true_eq] at hgo
        obtain ⟨⟨hv, hc⟩, hiK⟩ := hgo
        obtain ⟨i2, h1, h2, h3, h4, h5⟩ := collectLast_spec cs lastElem bLast cond K hlen fuel (i + 1) (i :: tmp) (by omega) (by omega)
        refine ⟨i2, ?_, by omega, h3, ?_, h5⟩
        · simp only [collectLast, hle, Bool.not_true, Bool.false_eq_true, if_false, hci, Option.bind_eq_bind,
            Option.bind_some, hv, beq_self_eq_true, hc, Bool.and_self, hiK, decide_true, if_true]
          rw [hle, hc] at h1
          rw [h1]
          have : i2 - i = (i2 - (i + 1)) + 1 := by omega
          rw [this, List.range'_succ]
          simp
        · intro t v ht1 ht2 hv'
          rcases Nat.eq_or_lt_of_le ht1 with rfl | hlt'
          · rw [hci] at hv'; cases hv'; exact ⟨hv, hc, hle⟩
          · exact h4 t v (by omega) ht2 hv'
      · refine ⟨i, ?_, Nat.le_refl _, hi, ?_, ?_⟩
        · simp only [collectLast, hle, Bool.not_true, Bool.false_eq_true, if_false, hci, Option.bind_eq_bind,
            Option.bind_some]
          simp only [hgo, Bool.false_eq_true, if_false]
          simp
        · intro t v h1 h2; omega
        · intro ⟨_, hc⟩ v hv hiK
          rw [hci] at hv; cases hv
          intro he
          apply hgo
          simp [he, hc, hiK]
    · have hle' : lastElem = false := by simpa using hle
      refine ⟨i, ?_, Nat.le_refl _, hi, ?_, ?_⟩
      · simp [collectLast, hle']
      · intro t v h1 h2; omega
      · intro ⟨h, _⟩; rw [hle'] at h; cases h

theorem CsOK.le_bL {b cs : List Nat} {K bL : Nat} (h : CsOK b cs K bL) {t v : Nat} (hv : cs[t]? = some v) : v ≤ bL :=
  le_last_of_mono cs bL h.sorted h.last v (List.mem_of_getElem? hv)

theorem CsOK.b_le_bL {b cs : List Nat} {K bL : Nat} (h : CsOK b cs K bL) {y : Nat} (hy : y ∈ b) : y ≤ bL :=
  le_last_of_mono b bL h.bsorted h.blast y hy

theorem range'_append_range' (i i1 i2 : Nat) (h1 : i ≤ i1) (h2 : i1 ≤ i2) :
    List.range' i (i1 - i) ++ List.range' i1 (i2 - i1) = List.range' i (i2 - i) := by
  obtain ⟨x, rfl⟩ : ∃ x, i1 = i + x := ⟨i1 - i, by omega⟩
  obtain ⟨y, rfl⟩ : ∃ y, i2 = i + x + y := ⟨i2 - (i + x), by omega⟩
  have e1 : i + x - i = x := by omega
  have e2 : i + x + y - (i + x) = y := by omega
  have e3 : i + x + y - i = x + y := by omega
  rw [e1, e2, e3]
  exact List.range'_append_1

theorem isSingleLastDiv_of {cs : List Nat} {x : Nat} (hlen : 2 ≤ cs.length)
    (h1 : cs[cs.length - 1]? = some x) (h2 : cs[cs.length - 2]? = some x) : isSingleLastDiv cs = true := by
  unfold isSingleLastDiv
  have hr1 : cs.reverse[0]? = some x := by
    rw [List.getElem?_reverse (by omega)]; rw [← h1]; congr 1
  have hr2 : cs.reverse[1]? = some x := by
    rw [List.getElem?_reverse (by omega)]; rw [← h2]; congr 1
  cases hrev : cs.reverse with
  | nil => rw [hrev] at hr1; simp at hr1
  | cons l rest =>
    cases rest with
    | nil => rw [hrev] at hr2; simp at hr2
    | cons l' rest' =>
      rw [hrev] at hr1 hr2
      simp only [List.getElem?_cons_zero, List.getElem?_cons_succ, Option.some.injEq] at hr1 hr2
      subst hr1; subst hr2
      simp

theorem strict_dropLast_lt {b : List Nat} (bstrict : b.dropLast.Pairwise (· < ·)) {j1 j2 x y : Nat}
    (h12 : j1 < j2) (h2 : j2 + 1 < b.length) (hx : b[j1]? = some x) (hy : b[j2]? = some y) : x < y := by
  have hx' : b.dropLast[j1]? = some x := by rw [List.getElem?_dropLast, if_pos (by omega)]; exact hx
  have hy' : b.dropLast[j2]? = some y := by rw [List.getElem?_dropLast, if_pos (by omega)]; exact hy
  obtain ⟨h1, rfl⟩ := List.getElem?_eq_some_iff.mp hx'
  obtain ⟨h2', rfl⟩ := List.getElem?_eq_some_iff.mp hy'
  exact (List.pairwise_iff_getElem.mp bstrict) j1 j2 h1 h2' h12

/-- **the second walk**: every piece index is used exactly once, in order, and piece `t` lands in a group whose new
    division interval contains `[cs[t], cs[t+1]]`; the last (closed) piece lands in the last group -/
theorem walk2_spec (b cs : List Nat) (K bL bL2 : Nat) (h : CsOK b cs K bL) (hK : 1 ≤ K)
    (hb2 : 2 ≤ b.length) (bstrict : b.dropLast.Pairwise (· < ·)) (hbL2 : b[b.length - 2]? = some bL2) :
    ∀ (bs : List Nat) (j i : Nat), bs = b.drop j → 1 ≤ j → i ≤ K →
      (∀ t v y, t < i → cs[t]? = some v → b[j - 1]? = some y → v < y) →
      (∀ t v y, i ≤ t → cs[t]? = some v → b[j - 1]? = some y → y ≤ v) →
      (bs = [] → i = K) →
      ∃ out, walk2 b cs (isSingleLastDiv cs) bL (bL != bL2) K bs j i = some out ∧
        out.flatten = List.range' i (K - i) ∧
        ∀ g ks, out[g]? = some ks → ∀ t ∈ ks, ∃ lo hi ct ct1, b[j - 1 + g]? = some lo ∧ b[j + g]? = some hi ∧
          cs[t]? = some ct ∧ cs[t + 1]? = some ct1 ∧ lo ≤ ct ∧ ct1 ≤ hi ∧ (t + 1 = K → j + g + 1 = b.length)
  | [], j, i, _, _, _, _, _, hdone => by
    have := hdone rfl
    subst this
    exact ⟨[], by simp [walk2], by simp, by intro g ks hg; simp at hg⟩
  | bj :: rest, j, i, hbs, hj1, hiK, H1, H2, _ => by
    have hjlt : j < b.length := by
      apply Nat.lt_of_not_le
      intro hge
      rw [List.drop_eq_nil_of_le hge] at hbs
      cases hbs
    have hbj : b[j]? = some bj := by
      have := congrArg (fun l => l[0]?) hbs
      simp only [List.getElem?_cons_zero, List.getElem?_drop, Nat.add_zero] at this
      exact this.symm
    have hrest : rest = b.drop (j + 1) := by
      have := congrArg List.tail hbs
      simp only [List.tail_cons, List.tail_drop] at this
      exact this
    have hbjm : bj ∈ b := List.mem_of_getElem? hbj
    have hbjle : bj ≤ bL := h.b_le_bL hbjm
    have hprev : b[j - 1]? = some b[j - 1] := List.getElem?_eq_getElem (by omega)
    have hprevle : b[j - 1] ≤ bj := sorted_get_le' h.bsorted (by omega) hprev hbj
    have hKlt : K < cs.length := by have := h.lenlo; omega
    -- first inner loop
    obtain ⟨i1, hcl, hi1a, hi1b, hlt1, hge1⟩ :=
      collectLt_spec cs h.sorted bj K bL h.atK hbjle (cs.length + 1) i [] hiK (by omega)
    -- second inner loop
    obtain ⟨i2, hcl2, hi2a, hi2b, hall2, hstop2⟩ :=
      collectLast_spec cs (isSingleLastDiv cs) bL ((bL != bL2) || (j == b.length - 1)) K h.lenlo (cs.length + 1) i1
        ((List.range' i (i1 - i)).reverse ++ []) hi1b (by omega)
    simp only [List.append_nil] at hcl hcl2
    have hci1 : cs[i1]? = some cs[i1] := List.getElem?_eq_getElem (by omega)
    have hci1ge : bj ≤ cs[i1] := hge1 _ hci1
    -- every piece below `i1` is below `bj`
    have hbelow : ∀ t v, t < i1 → cs[t]? = some v → v < bj := by
      intro t v ht hv
      rcases Nat.lt_or_ge t i with hti | hti
      · have := H1 t v _ hti hv hprev; omega
      · exact hlt1 t v hti ht hv
    -- position of `bj` among the temporary divisions
    obtain ⟨pos, hposlt, hpos⟩ := List.getElem_of_mem (h.bmem bj hbjm)
    have hpos' : cs[pos]? = some bj := by rw [List.getElem?_eq_getElem hposlt, hpos]
    have hposge : i1 ≤ pos := by
      apply Nat.le_of_not_lt
      intro hlt
      have := hbelow pos bj hlt hpos'
      omega
    have hci1le : cs[i1] ≤ bj := sorted_get_le' h.sorted hposge hci1 hpos'
    have hci1eq : cs[i1] = bj := by omega
    have htmp : ((List.range' i1 (i2 - i1)).reverse ++ (List.range' i (i1 - i)).reverse).reverse =
        List.range' i (i2 - i) := by
      simp only [List.reverse_append, List.reverse_reverse]
      exact range'_append_range' i i1 i2 hi1a hi2a
    -- the second loop only ever collects pieces when `bj` is the last new division value
    have hsec : i1 < i2 → bj = bL := by
      intro hlt
      obtain ⟨hv, _, _⟩ := hall2 i1 _ (Nat.le_refl _) hlt hci1
      omega
    -- facts about the collected indices
    have hgroup : ∀ t, i ≤ t → t < i2 → ∃ ct ct1, cs[t]? = some ct ∧ cs[t + 1]? = some ct1 ∧ b[j - 1] ≤ ct ∧ ct1 ≤ bj ∧
        (t + 1 = K → j + 1 = b.length) := by
      intro t hti ht2
      have htlt : t + 1 < cs.length := by omega
      have hct := List.getElem?_eq_getElem (l := cs) (i := t) (by omega)
      have hct1 := List.getElem?_eq_getElem htlt
      refine ⟨_, _, hct, hct1, H2 t _ _ hti hct hprev, ?_, ?_⟩
      · rcases Nat.lt_or_ge t i1 with ht1 | ht1
        · have hlt := hbelow t _ ht1 hct
          have : t + 1 ≤ pos := by
            apply Nat.succ_le_of_lt
            apply Nat.lt_of_not_le
            intro hle
            have := sorted_get_le' h.sorted hle hpos' hct
            omega
          exact sorted_get_le' h.sorted this hct1 hpos'
        · have := hsec (by omega)
          have := h.le_bL hct1
          omega
      · intro htK
        apply Classical.byContradiction
        intro hne
        have hjm : j + 1 < b.length := by omega
        -- the last piece ends at `bL`
        have hcK : cs[t + 1] = bL := by
          have := h.atK; rw [← htK] at this; rw [hct1] at this; exact Option.some.inj this
        rcases Nat.lt_or_ge t i1 with ht1 | ht1
        · have hlt := hbelow t _ ht1 hct
          have hle1 : cs[t + 1] ≤ bj := by
            have : t + 1 ≤ pos := by
              apply Nat.succ_le_of_lt
              apply Nat.lt_of_not_le
              intro hle
              have := sorted_get_le' h.sorted hle hpos' hct
              omega
            exact sorted_get_le' h.sorted this hct1 hpos'
          have hbjbL : bj = bL := by omega
          -- `b[j] = bL` with `j` not the last index: the last two new divisions coincide
          have hlastidx : b[b.length - 1]? = some bL := by rw [← List.getLast?_eq_getElem?]; exact h.blast
          have hj2 : j = b.length - 2 := by
            apply Classical.byContradiction
            intro hne2
            have hjj : j < b.length - 2 := by omega
            have h1 := strict_dropLast_lt bstrict hjj (by omega) hbj hbL2
            have h2 := h.b_le_bL (List.mem_of_getElem? hbL2)
            omega
          have hbL2eq : bL2 = bL := by
            rw [← hj2, hbj] at hbL2; have := Option.some.inj hbL2; omega
          have htK1 : t = K - 1 := by omega
          have := h.single bL2 hbL2 hbL2eq cs[t] (by rw [← htK1]; exact hct) hK
          omega
        · obtain ⟨_, hcond, _⟩ := hall2 t _ ht1 ht2 hct
          -- the second loop only runs for the last group or when the last two new divisions differ
          have hbjbL : bj = bL := hsec (by omega)
          simp only [Bool.or_eq_true, bne_iff_ne, ne_eq, beq_iff_eq] at hcond
          rcases hcond with hd | hd
          · -- all new divisions distinct, yet `b[j] = bL` before the end
            have hlastidx : b[b.length - 1]? = some bL := by rw [← List.getLast?_eq_getElem?]; exact h.blast
            rcases Nat.lt_or_ge j (b.length - 2) with hjj | hjj
            · have h1 := strict_dropLast_lt bstrict hjj (by omega) hbj hbL2
              have h2 := h.b_le_bL (List.mem_of_getElem? hbL2)
              omega
            · have : j = b.length - 2 := by omega
              rw [← this, hbj] at hbL2
              have := Option.some.inj hbL2
              exact hd (by omega)
          · omega
    cases rest with
    | nil =>
      -- last group: everything that is left is collected
      have hjlast : j + 1 = b.length := by
        have := congrArg List.length hrest
        simp only [List.length_nil, List.length_drop] at this
        omega
      have hbjbL : bj = bL := by
        have hlastidx : b[b.length - 1]? = some bL := by rw [← List.getLast?_eq_getElem?]; exact h.blast
        have : b.length - 1 = j := by omega
        rw [this, hbj] at hlastidx; exact Option.some.inj hlastidx
      have hi2K : i2 = K := by
        apply Classical.byContradiction
        intro hne
        have hi2lt : i2 < K := by omega
        have hci2 := List.getElem?_eq_getElem (l := cs) (i := i2) (by omega)
        have hge2 : bL ≤ cs[i2] := by
          have := sorted_get_le' h.sorted hi2a hci1 hci2; omega
        have hle2 := h.le_bL hci2
        -- the last two temporary divisions are both `bL`
        have hlen2 : 2 ≤ cs.length := by omega
        have hl1 : cs[cs.length - 1]? = some bL := by rw [← List.getLast?_eq_getElem?]; exact h.last
        have hl2 : cs[cs.length - 2]? = some bL := by
          have hidx := List.getElem?_eq_getElem (l := cs) (i := cs.length - 2) (by omega)
          have h1 := sorted_get_le' h.sorted (show i2 ≤ cs.length - 2 by omega) hci2 hidx
          have h2 := h.le_bL hidx
          rw [hidx]; congr 1; omega
        have hsl := isSingleLastDiv_of hlen2 hl1 hl2
        have hcond : ((bL != bL2) || (j == b.length - 1)) = true := by
          have : j = b.length - 1 := by omega
          simp [this]
        exact hstop2 ⟨hsl, hcond⟩ _ hci2 hi2lt (by omega)
      refine ⟨[((List.range' i1 (i2 - i1)).reverse ++ (List.range' i (i1 - i)).reverse).reverse], ?_, ?_, ?_⟩
      · simp only [walk2, hcl, hcl2, Option.bind_eq_bind, Option.bind_some, Option.pure_def]
      · simp only [List.flatten_cons, List.flatten_nil, List.append_nil]
        rw [htmp, hi2K]
      · intro g ks hg t ht
        cases g with
        | zero =>
          simp only [List.getElem?_cons_zero, Option.some.injEq] at hg
          subst hg
          rw [htmp] at ht
          obtain ⟨h1, h2⟩ := List.mem_range'_1.mp ht
          obtain ⟨ct, ct1, e1, e2, e3, e4, e5⟩ := hgroup t h1 (by omega)
          exact ⟨_, _, ct, ct1, by simpa using hprev, by simpa using hbj, e1, e2, e3, e4, fun hk => by have := e5 hk; omega⟩
        | succ g => simp at hg
    | cons b' rest' =>
      have hjm : j + 1 < b.length := by
        have := congrArg List.length hrest
        simp only [List.length_cons, List.length_drop] at this
        omega
      -- the second loop collects nothing before the last group
      have hi21 : i2 = i1 := by
        apply Classical.byContradiction
        intro hne
        have hlt : i1 < i2 := by omega
        obtain ⟨hv, hcond, _⟩ := hall2 i1 _ (Nat.le_refl _) hlt hci1
        simp only [Bool.or_eq_true, bne_iff_ne, ne_eq, beq_iff_eq] at hcond
        rcases hcond with hd | hd
        · rcases Nat.lt_or_ge j (b.length - 2) with hjj | hjj
          · have h1 := strict_dropLast_lt bstrict hjj (by omega) hbj hbL2
            have h2 := h.b_le_bL (List.mem_of_getElem? hbL2)
            omega
          · have : j = b.length - 2 := by omega
            rw [← this, hbj] at hbL2
            have := Option.some.inj hbL2
            exact hd (by omega)
        · omega
      obtain ⟨out', hrec, hflat', hgr'⟩ := walk2_spec b cs K bL bL2 h hK hb2 bstrict hbL2 (b' :: rest') (j + 1) i2
        hrest (by omega) hi2b
        (by
          intro t v y ht hv hy
          simp only [Nat.add_sub_cancel] at hy
          rw [hbj] at hy; cases hy
          exact hbelow t v (by omega) hv)
        (by
          intro t v y ht hv hy
          simp only [Nat.add_sub_cancel] at hy
          rw [hbj] at hy; cases hy
          have := sorted_get_le' h.sorted (show i1 ≤ t by omega) hci1 hv
          omega)
        (by intro he; cases he)
      refine ⟨((List.range' i1 (i2 - i1)).reverse ++ (List.range' i (i1 - i)).reverse).reverse :: out', ?_, ?_, ?_⟩
      · rw [walk2]
        simp only [hcl, hcl2, Option.bind_eq_bind, Option.bind_some, hrec, Option.pure_def]
      · simp only [List.flatten_cons]
        rw [htmp, hflat']
        have := range'_append_range' i i2 K (by omega) hi2b
        exact this
      · intro g ks hg t ht
        cases g with
        | zero =>
          simp only [List.getElem?_cons_zero, Option.some.injEq] at hg
          subst hg
          rw [htmp] at ht
          obtain ⟨h1, h2⟩ := List.mem_range'_1.mp ht
          obtain ⟨ct, ct1, e1, e2, e3, e4, e5⟩ := hgroup t h1 (by omega)
          exact ⟨_, _, ct, ct1, by simpa using hprev, by simpa using hbj, e1, e2, e3, e4, fun hk => by have := e5 hk; omega⟩
        | succ g =>
          simp only [List.getElem?_cons_succ] at hg
          obtain ⟨lo, hi, ct, ct1, e1, e2, e3, e4, e5, e6, e7⟩ := hgr' g ks hg t ht
          refine ⟨lo, hi, ct, ct1, ?_, ?_, e3, e4, e5, e6, fun hk => by have := e7 hk; omega⟩
          · rw [← e1]; congr 1; omega
          · rw [← e2]; congr 1; omega

end Dask.Repart
