import DaskModel.Lemmas.ExecGraph
/-! `fuse_linear_task_spec`: linear chains and what `GraphNode.fuse` makes of them. -/
namespace Dask.TaskTerm

theorem mem_dependentSet {g : NGraph} {c x : Obj} :
    x ∈ dependentSet g c ↔ ∃ n, (x, n) ∈ g ∧ c ∈ n.deps := by
  unfold dependentSet
  simp only [List.mem_map, List.mem_filter, List.contains_eq_mem, decide_eq_true_eq]
  constructor
  · rintro ⟨⟨x', n⟩, ⟨hm, hc⟩, rfl⟩; exact ⟨n, hm, hc⟩
  · rintro ⟨n, hm, hc⟩; exact ⟨(x, n), ⟨hm, hc⟩, rfl⟩

theorem mem_depSet {g : NGraph} {k d : Obj} : d ∈ depSet g k ↔ ∃ n, g.lookup k = some n ∧ d ∈ n.deps := by
  unfold depSet
  cases h : g.lookup k with
  | none => simp
  | some n => simp [mem_dedupKeys]

theorem keys_restrictTo (g : NGraph) : ∀ ch : List Obj, (∀ c ∈ ch, (g.lookup c).isSome) →
    (restrictTo g ch).map Prod.fst = ch
  | [], _ => rfl
  | c :: ch, h => by
    have ih := keys_restrictTo g ch (fun x hx => h x (List.mem_cons_of_mem _ hx))
    unfold restrictTo at ih ⊢
    cases hl : g.lookup c with
    | none => have := h c (by simp); rw [hl] at this; cases this
    | some n => simp [hl, ih]

theorem mem_restrictTo {g : NGraph} {ch : List Obj} {c : Obj} {n : Node} (h : (c, n) ∈ restrictTo g ch) :
    c ∈ ch ∧ g.lookup c = some n := by
  unfold restrictTo at h
  simp only [List.mem_filterMap] at h
  obtain ⟨x, hx, hm⟩ := h
  cases hl : g.lookup x with
  | none => rw [hl] at hm; cases hm
  | some m =>
    rw [hl] at hm
    simp only [Option.map_some, Option.some.injEq, Prod.mk.injEq] at hm
    obtain ⟨rfl, rfl⟩ := hm
    exact ⟨hx, hl⟩

theorem restrictTo_mem {g : NGraph} {ch : List Obj} {c : Obj} {n : Node} (hc : c ∈ ch) (hl : g.lookup c = some n) :
    (c, n) ∈ restrictTo g ch := by
  unfold restrictTo
  simp only [List.mem_filterMap]
  exact ⟨c, hc, by simp [hl]⟩

/-- a linear chain, bottom first: every element but the last has exactly one dependent — its successor — and is not
    requested; every element is a key of the graph -/
def ChainOK (g : NGraph) (req : List Obj) : List Obj → Prop
  | [] => True
  | [t] => (g.lookup t).isSome
  | c :: nxt :: rest =>
    (g.lookup c).isSome ∧ req.contains c = false ∧ dependentSet g c = [nxt] ∧ ChainOK g req (nxt :: rest)

theorem ChainOK.keys {g : NGraph} {req : List Obj} : ∀ {ch : List Obj}, ChainOK g req ch → ∀ c ∈ ch, (g.lookup c).isSome
  | [], _, c, hc => by simp at hc
  | [t], h, c, hc => by simp at hc; subst hc; exact h
  | c0 :: nxt :: rest, h, c, hc => by
    rcases List.mem_cons.mp hc with rfl | hc'
    · exact h.1
    · exact ChainOK.keys h.2.2.2 c hc'

/-- extending a chain at the bottom -/
theorem ChainOK.cons {g : NGraph} {req : List Obj} {b : Obj} {ch : List Obj} (hne : ch ≠ [])
    (hb : (g.lookup b).isSome) (hr : req.contains b = false) (hd : dependentSet g b = [ch.head hne])
    (h : ChainOK g req ch) : ChainOK g req (b :: ch) := by
  cases ch with
  | nil => exact absurd rfl hne
  | cons c rest => exact ⟨hb, hr, hd, h⟩

/-- extending a chain at the top -/
theorem ChainOK.snoc {g : NGraph} {req : List Obj} : ∀ {ch : List Obj} (hne : ch ≠ []) {t : Obj},
    ChainOK g req ch → req.contains (ch.getLast hne) = false → dependentSet g (ch.getLast hne) = [t] →
    (g.lookup t).isSome → ChainOK g req (ch ++ [t])
  | [], hne, _, _, _, _, _ => absurd rfl hne
  | [c], _, t, h, hr, hd, ht => ⟨h, hr, hd, ht⟩
  | c :: nxt :: rest, _, t, h, hr, hd, ht => by
    refine ⟨h.1, h.2.1, h.2.2.1, ?_⟩
    exact ChainOK.snoc (ch := nxt :: rest) (by simp) h.2.2.2 (by simpa using hr) (by simpa using hd) ht

end Dask.TaskTerm

namespace Dask.TaskTerm

/-- the graph is a DAG: a rank that strictly decreases along dependencies -/
def DagRank (g : NGraph) (rank : Obj → Nat) : Prop := ∀ k n, (k, n) ∈ g → ∀ d ∈ n.deps, rank d < rank k

theorem ChainOK.rank_lt {g : NGraph} {req : List Obj} {rank : Obj → Nat} (hdag : DagRank g rank) :
    ∀ {ch : List Obj} (hne : ch ≠ []), ChainOK g req ch → ∀ c ∈ ch, rank c ≤ rank (ch.getLast hne)
  | [], hne, _, _, _ => absurd rfl hne
  | [t], _, _, c, hc => by simp at hc; subst hc; simp
  | c0 :: nxt :: rest, _, h, c, hc => by
    have ih := ChainOK.rank_lt hdag (ch := nxt :: rest) (by simp) h.2.2.2
    have hlast : (c0 :: nxt :: rest).getLast (by simp) = (nxt :: rest).getLast (by simp) := by simp
    rw [hlast]
    rcases List.mem_cons.mp hc with rfl | hc'
    · -- c0 is a dependency of nxt
      have hm : nxt ∈ dependentSet g c := by rw [h.2.2.1]; simp
      obtain ⟨n, hmn, hcn⟩ := mem_dependentSet.mp hm
      have h1 := hdag nxt n hmn c hcn
      have h2 := ih nxt (by simp)
      omega
    · exact ih c hc'

/-- in a chain every element but the last is a dependency of another element of the chain -/
theorem ChainOK.init_is_dep {g : NGraph} {req : List Obj} (hnodup : (g.map Prod.fst).Nodup) :
    ∀ {ch : List Obj} (hne : ch ≠ []), ChainOK g req ch → ∀ c ∈ ch, c ≠ ch.getLast hne →
      ∃ x n, x ∈ ch ∧ g.lookup x = some n ∧ c ∈ n.deps
  | [], hne, _, _, _, _ => absurd rfl hne
  | [t], _, _, c, hc, hcl => by simp at hc; subst hc; simp at hcl
  | c0 :: nxt :: rest, _, h, c, hc, hcl => by
    have hlast : (c0 :: nxt :: rest).getLast (by simp) = (nxt :: rest).getLast (by simp) := by simp
    rcases List.mem_cons.mp hc with rfl | hc'
    · have hm : nxt ∈ dependentSet g c := by rw [h.2.2.1]; simp
      obtain ⟨n, hmn, hcn⟩ := mem_dependentSet.mp hm
      exact ⟨nxt, n, by simp, lookup_of_mem_nodup hnodup hmn, hcn⟩
    · rw [hlast] at hcl
      obtain ⟨x, n, hx, hl, hd⟩ := ChainOK.init_is_dep hnodup (ch := nxt :: rest) (by simp) h.2.2.2 c hc' hcl
      exact ⟨x, n, List.mem_cons_of_mem _ hx, hl, hd⟩

theorem filter_eq_last (p : Obj → Bool) : ∀ (ch : List Obj) (hne : ch ≠ []), ch.Nodup →
    (∀ c ∈ ch, c ≠ ch.getLast hne → p c = false) → p (ch.getLast hne) = true → ch.filter p = [ch.getLast hne]
  | [], hne, _, _, _ => absurd rfl hne
  | [t], _, _, _, ht => by simp at ht; simp [ht]
  | c0 :: nxt :: rest, _, hn, h, ht => by
    have hlast : (c0 :: nxt :: rest).getLast (by simp) = (nxt :: rest).getLast (by simp) := by simp
    simp only [List.nodup_cons] at hn
    have hc0 : p c0 = false := by
      apply h c0 (by simp)
      rw [hlast]
      intro e
      exact hn.1 (e ▸ List.getLast_mem _)
    rw [List.filter_cons, hc0]
    simp only [Bool.false_eq_true, if_false]
    rw [hlast]
    apply filter_eq_last p (nxt :: rest) (by simp) (List.nodup_cons.mpr hn.2)
    · intro c hc hcl
      exact h c (List.mem_cons_of_mem _ hc) (by rw [hlast]; exact hcl)
    · rw [← hlast]; exact ht

/-- **`GraphNode.fuse` on a linear chain**: the output is the chain's top key, the inner graph is the chain -/
theorem taskFuse_chain {g : NGraph} {req : List Obj} {rank : Obj → Nat} (hnodup : (g.map Prod.fst).Nodup)
    (hdag : DagRank g rank) {ch : List Obj} (hne : ch ≠ []) (hlen : 2 ≤ ch.length) (hch : ChainOK g req ch)
    (hnd : ch.Nodup) :
    taskFuse (restrictTo g ch) =
      some (.fused (restrictTo g ch) (ch.getLast hne) (externalDeps (restrictTo g ch))) := by
  have hkeys := keys_restrictTo g ch hch.keys
  have hlen' : 2 ≤ (restrictTo g ch).length := by
    have := congrArg List.length hkeys
    simp only [List.length_map] at this
    omega
  have hleafs : fuseLeafs (restrictTo g ch) = [ch.getLast hne] := by
    unfold fuseLeafs
    simp only [hkeys]
    rw [filter_eq_last _ ch hne hnd]
    · simp [dedupKeys]
    · intro c hc hcl
      obtain ⟨x, n, hx, hl, hd⟩ := hch.init_is_dep hnodup hne c hc hcl
      have : c ∈ (restrictTo g ch).flatMap fun kn => kn.2.deps :=
        List.mem_flatMap.mpr ⟨(x, n), restrictTo_mem hx hl, hd⟩
      simpa using this
    · simp only [Bool.not_eq_true', List.contains_eq_mem, decide_eq_false_iff_not, List.mem_flatMap, not_exists, not_and]
      rintro ⟨x, n⟩ hm hd
      obtain ⟨hx, hl⟩ := mem_restrictTo hm
      have h1 := hdag x n (mem_of_lookup g x n hl) _ hd
      have h2 := hch.rank_lt hdag hne x hx
      omega
  unfold taskFuse
  match hr : restrictTo g ch, hlen' with
  | [], h => simp at h
  | [_], h => simp at h
  | a :: b :: rest, _ =>
    rw [hr] at hleafs
    simp only [hleafs]

end Dask.TaskTerm
