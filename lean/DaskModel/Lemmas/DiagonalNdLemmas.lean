import DaskModel.Model.DiagonalNd
import DaskModel.Lemmas.DiagonalLemmas
import DaskModel.Lemmas.CreationLemmas
/-! n-d `diagonal`: the index bookkeeping around the 2-d walk (C34). -/
namespace Dask.Creation
open Dask.Chunks

theorem insertIJ_eq_insertIdx {α} (free : List α) (a1 a2 : Nat) (x y : α) (h12 : a1 < a2) (h2 : a2 ≤ free.length + 1) :
    insertIJ free a1 a2 x y = (free.insertIdx a1 x).insertIdx a2 y := by
  unfold insertIJ
  apply List.ext_getElem?
  intro d
  simp only [List.getElem?_insertIdx, List.length_insertIdx, List.getElem?_append, List.length_take, List.getElem?_cons,
    List.getElem?_take, List.getElem?_drop, List.length_drop]
  have hl : min a1 free.length = a1 := by omega
  have hl2 : min (a2 - 1 - a1) (free.length - a1) = a2 - 1 - a1 := by omega
  rw [hl, hl2]
  have ha1 : a1 ≤ free.length := by omega
  simp only [ha1, if_true]
  by_cases c1 : d < a1
  · have : d < a2 := by omega
    simp [c1, this]
  · by_cases c2 : d = a1
    · subst c2; simp [h12, ha1]
    · by_cases c3 : d < a2
      · have e1 : d - a1 - 1 < a2 - 1 - a1 := by omega
        have e2 : a1 + (d - a1 - 1) = d - 1 := by omega
        have e3 : d - a1 ≠ 0 := by omega
        simp [c1, c2, c3, e1, e2, e3]
      · by_cases c4 : d = a2
        · subst c4
          have e1 : ¬ (d - a1 - 1 < d - 1 - a1) := by omega
          have e2 : d - a1 - 1 - (d - 1 - a1) = 0 := by omega
          have e3 : d - a1 ≠ 0 := by omega
          have e4 : d ≤ free.length + 1 := h2
          simp [c1, e1, e2, e3, e4]
        · have e1 : ¬ (d - a1 - 1 < a2 - 1 - a1) := by omega
          have e3 : d - a1 ≠ 0 := by omega
          have e5 : d - a1 - 1 - (a2 - 1 - a1) ≠ 0 := by omega
          have e6 : a2 - 1 + (d - a1 - 1 - (a2 - 1 - a1) - 1) = d - 1 - 1 := by omega
          have e7 : ¬ (d - 1 < a1) := by omega
          have e8 : d - 1 ≠ a1 := by omega
          simp [c1, c3, c4, e1, e3, e5, e6, e7, e8]

theorem insertIJ_length {α} (free : List α) (a1 a2 : Nat) (x y : α) (h12 : a1 < a2) (h2 : a2 ≤ free.length + 1) :
    (insertIJ free a1 a2 x y).length = free.length + 2 := by
  rw [insertIJ_eq_insertIdx free a1 a2 x y h12 h2, List.length_insertIdx, List.length_insertIdx]
  have : a1 ≤ free.length := by omega
  simp only [this, if_true]
  rw [if_pos (by omega)]

/-- element `d` of the input block index: `I` on `axis1`, `J` on `axis2`, the free indices in order elsewhere -/
theorem insertIJ_get {α} (free : List α) (a1 a2 : Nat) (x y : α) (h12 : a1 < a2) (h2 : a2 ≤ free.length + 1) (d : Nat) :
    (insertIJ free a1 a2 x y)[d]? =
      if d = a1 then some x else if d = a2 then some y
      else free[d - (if a1 < d then 1 else 0) - (if a2 < d then 1 else 0)]? := by
  rw [insertIJ_eq_insertIdx free a1 a2 x y h12 h2]
  simp only [List.getElem?_insertIdx, List.length_insertIdx]
  have ha1 : a1 ≤ free.length := by omega
  simp only [ha1, if_true]
  by_cases c1 : d < a1
  · have : d < a2 := by omega
    have n1 : d ≠ a1 := by omega
    have n2 : d ≠ a2 := by omega
    have n3 : ¬ a1 < d := by omega
    have n4 : ¬ a2 < d := by omega
    simp [c1, this, n1, n2, n3, n4]
  · by_cases c2 : d = a1
    · subst c2; simp [h12, ha1]
    · by_cases c3 : d < a2
      · have n2 : d ≠ a2 := by omega
        have n3 : a1 < d := by omega
        have n4 : ¬ a2 < d := by omega
        simp [c1, c2, c3, n2, n3, n4]
      · by_cases c4 : d = a2
        · subst c4
          have : d ≤ free.length + 1 := h2
          simp [c2, this]
        · have n3 : a1 < d := by omega
          have n4 : a2 < d := by omega
          have e7 : ¬ (d - 1 < a1) := by omega
          have e8 : d - 1 ≠ a1 := by omega
          simp [c2, c3, c4, n3, n4, e7, e8]

/-- popping the two diagonal axes from the input block index gives back the free block index: every task reads the
    block that has the *same* free-axis block indices as the output block it writes -/
theorem popAxes_insertIJ {α} (free : List α) (a1 a2 : Nat) (x y : α) (h12 : a1 < a2) (h2 : a2 ≤ free.length + 1) :
    popAxes (insertIJ free a1 a2 x y) a1 a2 = free := by
  unfold popAxes
  rw [insertIJ_eq_insertIdx free a1 a2 x y h12 h2, List.eraseIdx_insertIdx_self, List.eraseIdx_insertIdx_self]

theorem mem_blockProduct : ∀ (ns f : List Nat),
    f ∈ blockProduct ns ↔ (f.length = ns.length ∧ ∀ (i n : Nat), ns[i]? = some n → ∃ b : Nat, f[i]? = some b ∧ b < n)
  | [], f => by
    simp only [blockProduct, List.mem_singleton, List.length_nil]
    constructor
    · intro h; subst h; simp
    · intro h; exact List.eq_nil_of_length_eq_zero h.1
  | n :: ns, f => by
    simp only [blockProduct, List.mem_flatMap, List.mem_range, List.mem_map]
    constructor
    · rintro ⟨i, hi, rest, hrest, rfl⟩
      obtain ⟨hl, hb⟩ := (mem_blockProduct ns rest).1 hrest
      refine ⟨by simp [hl], ?_⟩
      intro j m hj
      cases j with
      | zero => simp at hj; subst hj; exact ⟨i, rfl, hi⟩
      | succ j => simp at hj; simpa using hb j m hj
    · rintro ⟨hl, hb⟩
      cases f with
      | nil => simp at hl
      | cons b rest =>
        obtain ⟨b2, hb2, hlt⟩ := hb 0 n rfl
        simp at hb2; subst hb2
        refine ⟨b, hlt, rest, (mem_blockProduct ns rest).2 ⟨by simpa using hl, ?_⟩, rfl⟩
        intro j m hj
        simpa using hb (j + 1) m (by simpa using hj)

theorem diag2dFast_den (cs : List Nat) (p : Nat) (hp : p < sum cs) : diag2dFastRead cs p = some (p, p) := by
  obtain ⟨b, o, h⟩ := blockOf_some hp
  obtain ⟨c, _, _, hs⟩ := blockOf_spec h
  simp only [diag2dFastRead, h, bind, Option.bind, pure, hs]

/-! ### positions -/

/-- every free coordinate lies inside its axis -/
def InRange : List (List Nat) → List Nat → Prop
  | [], [] => True
  | cs :: css, p :: ps => p < sum cs ∧ InRange css ps
  | _, _ => False

theorem locateAll_of_inRange : ∀ (css : List (List Nat)) (q : List Nat), InRange css q →
    ∃ locs, locateAll css q = some locs ∧ locs.length = css.length ∧ q.length = css.length ∧
      ∀ (d : Nat) (cs : List Nat), css[d]? = some cs →
        ∃ b o p, locs[d]? = some (b, o) ∧ q[d]? = some p ∧ blockStart cs b + o = p
  | [], [], _ => ⟨[], rfl, rfl, rfl, by intro d cs h; simp at h⟩
  | [], _ :: _, h => by simp [InRange] at h
  | _ :: _, [], h => by simp [InRange] at h
  | cs :: css, p :: ps, h => by
    obtain ⟨hp, hrest⟩ := h
    obtain ⟨b, o, hb⟩ := blockOf_some hp
    obtain ⟨c, _, _, hs⟩ := blockOf_spec hb
    obtain ⟨locs, h1, h2, h3, h4⟩ := locateAll_of_inRange css ps hrest
    refine ⟨(b, o) :: locs, by simp [locateAll, hb, h1], by simp [h2], by simp [h3], ?_⟩
    intro d cs' hd
    cases d with
    | zero => simp at hd; subst hd; exact ⟨b, o, p, rfl, rfl, hs⟩
    | succ d => simpa using h4 d cs' (by simpa using hd)

theorem globalPos_get : ∀ (css : List (List Nat)) (bs os : List Nat) (d : Nat),
    (globalPos css bs os)[d]? =
      (css[d]?).bind (fun cs => (bs[d]?).bind (fun b => (os[d]?).map (fun o => blockStart cs b + o)))
  | [], _, _, d => by simp [globalPos]
  | _ :: _, [], _, d => by simp [globalPos]
  | _ :: _, _ :: _, [], d => by
    simp only [globalPos, List.getElem?_nil, Option.map_none]
    cases d <;> simp
  | cs :: css, b :: bs, o :: os, d => by
    cases d with
    | zero => simp [globalPos]
    | succ d => simpa [globalPos] using globalPos_get css bs os d

theorem popAxes_get {α} (xs : List α) (a1 a2 d : Nat) (h12 : a1 < a2) (hd1 : d ≠ a1) (hd2 : d ≠ a2) :
    (popAxes xs a1 a2)[d - (if a1 < d then 1 else 0) - (if a2 < d then 1 else 0)]? = xs[d]? := by
  unfold popAxes
  simp only [List.getElem?_eraseIdx]
  by_cases c1 : d < a1
  · have n3 : ¬ a1 < d := by omega
    have n4 : ¬ a2 < d := by omega
    have : d < a2 := by omega
    simp [c1, n3, n4, this]
  · by_cases c3 : d < a2
    · have n3 : a1 < d := by omega
      have n4 : ¬ a2 < d := by omega
      have e1 : ¬ (d - 1 < a1) := by omega
      have e2 : d - 1 + 1 = d := by omega
      simp [n3, n4, e1, e2, c3]
    · have n3 : a1 < d := by omega
      have n4 : a2 < d := by omega
      have e1 : ¬ (d - 1 - 1 < a1) := by omega
      have e2 : ¬ (d - 1 - 1 + 1 < a2) := by omega
      have e3 : d - 1 - 1 + 1 + 1 = d := by omega
      simp [n3, n4, e1, e2, e3]

theorem popAxes_length {α} (xs : List α) (a1 a2 : Nat) (h12 : a1 < a2) (h2 : a2 < xs.length) :
    (popAxes xs a1 a2).length = xs.length - 2 := by
  unfold popAxes
  rw [List.length_eraseIdx, List.length_eraseIdx]
  simp only [h2, if_true]
  rw [if_pos (by omega)]
  omega

theorem sum_map_length {α} : ∀ (bs : List (List α)), sum (bs.map List.length) = bs.flatten.length
  | [] => rfl
  | b :: bs => by simp [sum_cons, sum_map_length bs]

/-- element `t` of a concatenation lives in the part `blockOf` names -/
theorem flatten_get_of_blockOf {α} : ∀ (bs : List (List α)) (t i tl : Nat),
    blockOf (bs.map List.length) t = some (i, tl) → ∃ b, bs[i]? = some b ∧ b[tl]? = bs.flatten[t]? ∧ tl < b.length
  | [], t, i, tl, h => by simp [blockOf] at h
  | b :: bs, t, i, tl, h => by
    simp only [List.map_cons, blockOf] at h
    by_cases c : t < b.length
    · simp only [c, if_true] at h
      injection h with h; injection h with h1 h2; subst h1; subst h2
      exact ⟨b, rfl, by simp [List.getElem?_append_left c], c⟩
    · simp only [c, if_false] at h
      cases hb : blockOf (bs.map List.length) (t - b.length) with
      | none => simp [hb] at h
      | some v =>
        obtain ⟨i', tl'⟩ := v
        simp [hb] at h
        obtain ⟨h1, h2⟩ := h
        subst h1; subst h2
        obtain ⟨b', hb1, hb2, hb3⟩ := flatten_get_of_blockOf bs (t - b.length) i' tl' hb
        refine ⟨b', by simpa using hb1, ?_, hb3⟩
        rw [hb2, List.flatten_cons, List.getElem?_append_right (by omega)]

theorem segPoints_length (rch cch : List Nat) (s : DSeg) : (segPoints rch cch s).length = s.len.toNat := by
  simp [segPoints]

theorem diagPoints_get (r c : Int) (L t : Nat) (h : t < L) : (diagPoints r c L)[t]? = some (r + t, c + t) := by
  simp [diagPoints, h]

theorem segPoints_get (rch cch : List Nat) (s : DSeg) (tl : Nat) (h : tl < s.len.toNat) :
    (segPoints rch cch s)[tl]? = some ((blockStart rch s.I : Int) + max 0 (-s.k) + tl, (blockStart cch s.J : Int) + max 0 s.k + tl) := by
  simp [segPoints, h]

end Dask.Creation
