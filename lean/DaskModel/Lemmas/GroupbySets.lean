import DaskModel.Lemmas.Groupby
/-! Helper lemmas for C38: nunique as a union of sets (tree of combines + counting aggregate); idxmin/idxmax as the
    (value, label) arg-min monoid, and `first` as "the first partial that has the group". -/
namespace Dask.Groupby

theorem groupCells_append (xs ys : List (Nat × Option Int)) (k : Nat) :
    groupCells (xs ++ ys) k = groupCells xs k ++ groupCells ys k := by
  simp [groupCells, List.filter_append]

theorem mem_groupCells_flatten (parts : List (List (Nat × Option Int))) (k : Nat) (v : Option Int) :
    v ∈ groupCells parts.flatten k ↔ ∃ p ∈ parts, v ∈ groupCells p k := by
  induction parts with
  | nil => simp [groupCells]
  | cons p ps ih => simp [List.flatten_cons, groupCells_append, ih]

/-- what every level of the tree keeps invariant: the union of the partial sets of every group -/
def Covers (ps : List (Nat → List (Option Int))) (rows : List (Nat × Option Int)) : Prop :=
  ∀ k v, (∃ p ∈ ps, v ∈ p k) ↔ v ∈ groupCells rows k

theorem mem_nuCombine (ps : List (Nat → List (Option Int))) (k : Nat) (v : Option Int) :
    v ∈ nuCombine ps k ↔ ∃ p ∈ ps, v ∈ p k := by
  simp only [nuCombine, mem_dedup, List.mem_flatten, List.mem_map]
  constructor
  · rintro ⟨l, ⟨p, hp, rfl⟩, hv⟩; exact ⟨p, hp, hv⟩
  · rintro ⟨p, hp, hv⟩; exact ⟨p k, ⟨p, hp, rfl⟩, hv⟩

theorem covers_chunks (parts : List (List (Nat × Option Int))) : Covers (parts.map nuChunk) parts.flatten := by
  intro k v
  rw [mem_groupCells_flatten]
  simp only [List.mem_map]
  constructor
  · rintro ⟨p, ⟨rows, hr, rfl⟩, hv⟩; exact ⟨rows, hr, (mem_dedup v _).1 hv⟩
  · rintro ⟨rows, hr, hv⟩; exact ⟨nuChunk rows, ⟨rows, hr, rfl⟩, (mem_dedup v _).2 hv⟩

theorem covers_level (k : Nat) (hk : 0 < k) (ps : List (Nat → List (Option Int))) (rows : List (Nat × Option Int))
    (h : Covers ps rows) : Covers ((partitionAll k ps.length ps).map nuCombine) rows := by
  intro key v
  rw [← h key v]
  have hfl := partitionAll_flatten k hk ps.length ps (Nat.le_refl _)
  simp only [List.mem_map]
  constructor
  · rintro ⟨p, ⟨batch, hb, rfl⟩, hv⟩
    obtain ⟨q, hq, hqv⟩ := (mem_nuCombine batch key v).1 hv
    refine ⟨q, ?_, hqv⟩
    rw [← hfl]; exact List.mem_flatten.2 ⟨batch, hb, hq⟩
  · rintro ⟨q, hq, hqv⟩
    rw [← hfl] at hq
    obtain ⟨batch, hb, hqb⟩ := List.mem_flatten.1 hq
    exact ⟨nuCombine batch, ⟨batch, hb, rfl⟩, (mem_nuCombine batch key v).2 ⟨q, hqb, hqv⟩⟩

theorem nuAggregate_of_covers (ps : List (Nat → List (Option Int))) (rows : List (Nat × Option Int))
    (h : Covers ps rows) (k : Nat) : nuAggregate ps k = nuniqueSpec rows k := by
  unfold nuAggregate nuniqueSpec
  apply List.Perm.length_eq
  apply (List.perm_ext_iff_of_nodup ((nodup_dedup _).filter _) ((nodup_dedup _).filter _)).2
  intro v
  have h1 := mem_nuCombine ps k v
  simp only [nuCombine] at h1
  rw [List.mem_filter, List.mem_filter, h1, mem_dedup, h k v]

theorem nunique_tree (se : Nat) (hse : 0 < se) (rows : List (Nat × Option Int)) :
    ∀ (fuel : Nat) (ps : List (Nat → List (Option Int))), Covers ps rows →
      treeReduce2 nuCombine nuAggregate se fuel ps = nuniqueSpec rows
  | 0, ps, h => by funext k; exact nuAggregate_of_covers ps rows h k
  | fuel + 1, ps, h => by
    unfold treeReduce2
    split
    · funext k; exact nuAggregate_of_covers ps rows h k
    · exact nunique_tree se hse rows fuel _ (covers_level se hse ps rows h)

theorem nunique_eq_global (se : Nat) (hse : 0 < se) (fuel : Nat) (parts : List (List (Nat × Option Int))) :
    nunique se fuel parts = nuniqueSpec parts.flatten :=
  nunique_tree se hse parts.flatten fuel _ (covers_chunks parts)

example : nunique 2 5 [[(0, some 1), (1, some 2), (0, none)], [(0, some 1)], [(0, some 3), (1, none)]] 0 = 2 := by decide

/-! ### idxmin / idxmax -/

theorem opArgmin_assoc (a b c : Int × Int) : opArgmin (opArgmin a b) c = opArgmin a (opArgmin b c) := by
  unfold opArgmin
  split <;> split <;> (try split) <;> (try split) <;> first | rfl | (exfalso; omega)

theorem opArgmax_assoc (a b c : Int × Int) : opArgmax (opArgmax a b) c = opArgmax a (opArgmax b c) := by
  unfold opArgmax
  split <;> split <;> (try split) <;> (try split) <;> first | rfl | (exfalso; omega)

theorem opFirstP_assoc (a b c : Int × Int) : opFirstP (opFirstP a b) c = opFirstP a (opFirstP b c) := rfl

/-- `combine` with `first` = the first partial that has the group -/
theorem combine_first (ps : List (Nat → Option (Int × Int))) (k : Nat) :
    combine opFirstP ps k = (ps.map fun p => p k).findSome? id := by
  induction ps with
  | nil => rfl
  | cons p ps ih =>
    rw [combine_cons opFirstP opFirstP_assoc]
    simp only [merge, List.map_cons, List.findSome?_cons, id]
    cases h : p k with
    | none => simp [omerge, ih]
    | some a => cases h2 : combine opFirstP ps k <;> simp [omerge, opFirstP]

theorem foldl_argmin_spec (xs : List (Option (Int × Int))) :
    ∀ (acc : Option (Int × Int)) (s : Int × Int), xs.foldl (omerge opArgmin) acc = some s →
      (acc = some s ∨ some s ∈ xs) ∧ ∀ t, (acc = some t ∨ some t ∈ xs) → s.1 ≤ t.1 := by
  induction xs with
  | nil =>
    intro acc s h
    simp only [List.foldl_nil] at h
    subst h
    refine ⟨Or.inl rfl, ?_⟩
    intro t ht
    rcases ht with ht | ht
    · cases ht; exact Int.le_refl _
    · simp at ht
  | cons x xs ih =>
    intro acc s h
    simp only [List.foldl_cons] at h
    obtain ⟨hm, hle⟩ := ih _ s h
    have key : ∀ t, omerge opArgmin acc x = some t → (acc = some t ∨ x = some t) ∧
        (∀ u, (acc = some u ∨ x = some u) → t.1 ≤ u.1) := by
      intro t ht
      cases acc with
      | none =>
        simp only [omerge] at ht
        refine ⟨Or.inr ht, ?_⟩
        intro u hu
        rcases hu with hu | hu
        · cases hu
        · rw [ht] at hu; cases hu; exact Int.le_refl _
      | some a =>
        cases x with
        | none =>
          simp only [omerge] at ht
          refine ⟨Or.inl ht, ?_⟩
          intro u hu
          rcases hu with hu | hu
          · rw [ht] at hu; cases hu; exact Int.le_refl _
          · cases hu
        | some b =>
          simp only [omerge, opArgmin, Option.some.injEq] at ht
          split at ht
          · subst ht
            refine ⟨Or.inr rfl, ?_⟩
            intro u hu
            rcases hu with hu | hu <;> cases hu <;> omega
          · subst ht
            refine ⟨Or.inl rfl, ?_⟩
            intro u hu
            rcases hu with hu | hu <;> cases hu <;> omega
    constructor
    · rcases hm with hm | hm
      · rcases (key s hm).1 with h1 | h1
        · exact Or.inl h1
        · exact Or.inr (by rw [h1]; exact List.mem_cons_self)
      · exact Or.inr (List.mem_cons_of_mem _ hm)
    · intro t ht
      have hacc : ∀ t, (acc = some t ∨ x = some t) → s.1 ≤ t.1 := by
        intro u hu
        cases hq : omerge opArgmin acc x with
        | none =>
          cases acc <;> cases x <;> simp [omerge] at hq hu
        | some q =>
          have h1 := (key q hq).2 u hu
          have h2 := hle q (Or.inl hq)
          omega
      rcases ht with ht | ht
      · exact hacc t (Or.inl ht)
      · rcases List.mem_cons.1 ht with ht | ht
        · exact hacc t (Or.inr ht.symm)
        · exact hle t (Or.inr ht)

/-- the (value, label) state of a group is a row of the group holding its minimum -/
theorem chunk_argmin_spec (rows : List (Nat × (Option Int × Int))) (k : Nat) (m l : Int)
    (h : chunk opArgmin idxInj rows k = some (m, l)) :
    (k, (some m, l)) ∈ rows ∧ ∀ v l', (k, (some v, l')) ∈ rows → m ≤ v := by
  unfold chunk fold1 at h
  obtain ⟨hm, hle⟩ := foldl_argmin_spec _ none (m, l) h
  constructor
  · rcases hm with hm | hm
    · cases hm
    · simp only [List.mem_map, List.mem_filter] at hm
      obtain ⟨⟨k', c, l''⟩, ⟨hmem, hk⟩, hinj⟩ := hm
      simp only [beq_iff_eq] at hk
      subst hk
      cases c with
      | none => simp [idxInj] at hinj
      | some v =>
        simp only [idxInj, Option.map_some, Option.some.injEq, Prod.mk.injEq] at hinj
        obtain ⟨rfl, rfl⟩ := hinj
        exact hmem
  · intro v l' hv
    have := hle (v, l') (Or.inr (by
      simp only [List.mem_map, List.mem_filter]
      exact ⟨(k, (some v, l')), ⟨hv, by simp⟩, by simp [idxInj]⟩))
    exact this

end Dask.Groupby
