import DaskModel.Model.Join
/-! Helper lemmas for C39/C40: hash classes partition a list (permutation); left-driven joins commute with hash partitioning. -/
namespace Dask.Join

/-- filter-by-class pieces of a list, for classes `0 … n-1`, are a permutation of the elements whose class is `< n` -/
theorem filter_or_perm {α : Type} (p q : α → Bool) (hdisj : ∀ x, ¬ (p x = true ∧ q x = true)) :
    ∀ xs : List α, (xs.filter p ++ xs.filter q).Perm (xs.filter fun x => p x || q x)
  | [] => List.Perm.refl _
  | x :: xs => by
    have ih := filter_or_perm p q hdisj xs
    by_cases hp : p x = true
    · have hq : q x = false := by
        cases h : q x
        · rfl
        · exact absurd ⟨hp, h⟩ (hdisj x)
      simp only [List.filter_cons, hp, hq, if_true, Bool.true_or, Bool.false_eq_true, if_false, List.cons_append]
      exact List.Perm.cons x ih
    · have hp' : p x = false := by simpa using hp
      by_cases hq : q x = true
      · simp only [List.filter_cons, hp', hq, Bool.false_eq_true, if_false, if_true, Bool.false_or]
        exact (List.perm_middle).trans (List.Perm.cons x ih)
      · have hq' : q x = false := by simpa using hq
        simp only [List.filter_cons, hp', hq', Bool.false_eq_true, if_false, Bool.false_or]
        exact ih

theorem classes_perm_lt {α : Type} (f : α → Nat) (xs : List α) :
    ∀ n, ((List.range n).flatMap fun p => xs.filter fun x => f x == p).Perm (xs.filter fun x => decide (f x < n))
  | 0 => by simp
  | n + 1 => by
    rw [List.range_succ, List.flatMap_append]
    simp only [List.flatMap_cons, List.flatMap_nil, List.append_nil]
    have ih := classes_perm_lt f xs n
    refine (List.Perm.append_right _ ih).trans ?_
    refine (filter_or_perm _ _ ?_ xs).trans ?_
    · intro x ⟨h1, h2⟩
      simp at h1 h2
      omega
    · apply List.Perm.of_eq
      apply List.filter_congr
      intro x _
      by_cases h : f x < n
      · have : f x < n + 1 := by omega
        simp [h, this]
      · by_cases h2 : f x = n
        · simp [h2]
        · have : ¬ f x < n + 1 := by omega
          simp [h, h2, this]

/-- **the pieces of a hash partitioning are a permutation of the frame** (no row lost, none duplicated) -/
theorem classes_perm {α : Type} (f : α → Nat) (n : Nat) (xs : List α) (hf : ∀ x ∈ xs, f x < n) :
    ((List.range n).flatMap fun p => xs.filter fun x => f x == p).Perm xs := by
  refine (classes_perm_lt f xs n).trans ?_
  apply List.Perm.of_eq
  rw [List.filter_eq_self]
  intro x hx
  simpa using hf x hx



/-- inside its own hash class a row sees the same matches in the partition as in the whole frame -/
theorem matching_part (h : Nat → Nat) (n p : Nat) (l : Row) (R : List Row) (hl : h l.1 % n = p) :
    matching l (part h n p R) = matching l R := by
  unfold matching part
  rw [List.filter_filter]
  apply List.filter_congr
  intro r _
  by_cases hr : r.1 = l.1
  · simp [hr, hl]
  · simp [hr]

/-- **a left-driven join commutes with hash partitioning**: joining the `p`-th pieces gives exactly the
    output rows of the global join whose key falls in class `p`, in the same order -/
theorem joinWith_part (g : Row → List Row → List Out) (hg : ∀ l ms o, o ∈ g l ms → o.1 = l.1)
    (h : Nat → Nat) (n p : Nat) (R : List Row) :
    ∀ L : List Row, joinWith g (part h n p L) (part h n p R) =
      (joinWith g L R).filter fun o => h o.1 % n == p
  | [] => rfl
  | l :: L => by
    have ih := joinWith_part g hg h n p R L
    unfold joinWith at ih ⊢
    by_cases hl : h l.1 % n = p
    · have hpart : part h n p (l :: L) = l :: part h n p L := by simp [part, hl]
      rw [hpart, List.flatMap_cons, List.flatMap_cons, List.filter_append, ih, matching_part h n p l R hl]
      congr 1
      symm
      rw [List.filter_eq_self]
      intro o ho
      simp [hg l _ o ho, hl]
    · have hpart : part h n p (l :: L) = part h n p L := by simp [part, hl]
      rw [hpart, List.flatMap_cons, List.filter_append, ih]
      have : (g l (matching l R)).filter (fun o => h o.1 % n == p) = [] := by
        rw [List.filter_eq_nil_iff]
        intro o ho
        simp [hg l _ o ho, hl]
      rw [this, List.nil_append]

theorem any_part (h : Nat → Nat) (n p : Nat) (r : Row) (L : List Row) (hr : h r.1 % n = p) :
    (part h n p L).any (fun l => l.1 == r.1) = L.any (fun l => l.1 == r.1) := by
  unfold part
  induction L with
  | nil => rfl
  | cons l L ih =>
    by_cases hl : l.1 = r.1
    · have hc : h l.1 % n = p := by rw [hl]; exact hr
      have hb : (l.1 == r.1) = true := by simp [hl]
      simp only [List.filter_cons, hc, beq_self_eq_true, if_true, List.any_cons, hb, Bool.true_or]
    · by_cases hc : h l.1 % n = p
      · simp only [List.filter_cons, hc, beq_self_eq_true, if_true, List.any_cons, ih]
      · simp only [List.filter_cons, hc, beq_iff_eq, if_false, List.any_cons, ih]
        simp [hl]

theorem rightOnly_part (h : Nat → Nat) (n p : Nat) (L : List Row) :
    ∀ R : List Row, rightOnly (part h n p L) (part h n p R) =
      (rightOnly L R).filter fun o => h o.1 % n == p
  | [] => rfl
  | r :: R => by
    have ih := rightOnly_part h n p L R
    unfold rightOnly at ih ⊢
    by_cases hr : h r.1 % n = p
    · have hpart : part h n p (r :: R) = r :: part h n p R := by simp [part, hr]
      rw [hpart]
      simp only [List.filter_cons, any_part h n p r L hr]
      by_cases ha : L.any (fun l => l.1 == r.1) = true
      · simp only [ha, Bool.not_true, Bool.false_eq_true, if_false]
        exact ih
      · have ha' : L.any (fun l => l.1 == r.1) = false := by
          cases hh : L.any (fun l => l.1 == r.1)
          · rfl
          · exact absurd hh ha
        simp only [ha', Bool.not_false, if_true, List.map_cons, List.filter_cons, hr, beq_self_eq_true]
        rw [ih]
    · have hpart : part h n p (r :: R) = part h n p R := by simp [part, hr]
      rw [hpart, ih]
      simp only [List.filter_cons]
      by_cases ha : L.any (fun l => l.1 == r.1) = true
      · simp [ha]
      · have ha' : L.any (fun l => l.1 == r.1) = false := by
          cases hh : L.any (fun l => l.1 == r.1)
          · rfl
          · exact absurd hh ha
        simp only [ha', Bool.not_false, if_true, List.map_cons, List.filter_cons]
        simp [hr]

theorem gInner_key (l : Row) (ms : List Row) (o : Out) (ho : o ∈ gInner l ms) : o.1 = l.1 := by
  unfold gInner at ho
  obtain ⟨r, _, rfl⟩ := List.mem_map.mp ho
  rfl

theorem gLeft_key (l : Row) (ms : List Row) (o : Out) (ho : o ∈ gLeft l ms) : o.1 = l.1 := by
  unfold gLeft at ho
  split at ho
  · simp at ho; subst ho; rfl
  · exact gInner_key l ms o ho

theorem gSemi_key (l : Row) (ms : List Row) (o : Out) (ho : o ∈ gSemi l ms) : o.1 = l.1 := by
  unfold gSemi at ho
  split at ho
  · simp at ho
  · simp at ho; subst ho; rfl

/-- hash join of a left-driven join = global join, as a multiset of output rows -/
theorem hashJoin_joinWith_perm (g : Row → List Row → List Out) (hg : ∀ l ms o, o ∈ g l ms → o.1 = l.1)
    (h : Nat → Nat) (n : Nat) (hn : 0 < n) (L R : List Row) :
    (hashJoin (joinWith g) h n L R).Perm (joinWith g L R) := by
  unfold hashJoin
  have : (fun p => joinWith g (part h n p L) (part h n p R)) =
      fun p => (joinWith g L R).filter fun o => (fun o : Out => h o.1 % n) o == p := by
    funext p; exact joinWith_part g hg h n p R L
  rw [this]
  exact classes_perm (fun o : Out => h o.1 % n) n _ (fun _ _ => Nat.mod_lt _ hn)

/-- rows whose key falls in class `p` of an arbitrary classification of the keys (hash bucket, division
    interval, …) -/
def partBy (c : Nat → Nat) (p : Nat) (xs : List Row) : List Row := xs.filter fun x => c x.1 == p

/-- partition-wise join of two frames co-partitioned by `c` into `n` classes -/
def classJoin (join : List Row → List Row → List Out) (c : Nat → Nat) (n : Nat) (L R : List Row) : List Out :=
  (List.range n).flatMap fun p => join (partBy c p L) (partBy c p R)

theorem part_eq_partBy (h : Nat → Nat) (n p : Nat) (xs : List Row) : part h n p xs = partBy (fun k => h k % n) p xs := rfl

theorem matching_partBy (c : Nat → Nat) (p : Nat) (l : Row) (R : List Row) (hl : c l.1 = p) :
    matching l (partBy c p R) = matching l R := by
  unfold matching partBy
  rw [List.filter_filter]
  apply List.filter_congr
  intro r _
  by_cases hr : r.1 = l.1
  · simp [hr, hl]
  · simp [hr]

theorem joinWith_partBy (g : Row → List Row → List Out) (hg : ∀ l ms o, o ∈ g l ms → o.1 = l.1)
    (c : Nat → Nat) (p : Nat) (R : List Row) :
    ∀ L : List Row, joinWith g (partBy c p L) (partBy c p R) = (joinWith g L R).filter fun o => c o.1 == p
  | [] => rfl
  | l :: L => by
    have ih := joinWith_partBy g hg c p R L
    unfold joinWith at ih ⊢
    by_cases hl : c l.1 = p
    · have hpart : partBy c p (l :: L) = l :: partBy c p L := by simp [partBy, hl]
      rw [hpart, List.flatMap_cons, List.flatMap_cons, List.filter_append, ih, matching_partBy c p l R hl]
      congr 1
      symm
      rw [List.filter_eq_self]
      intro o ho
      simp [hg l _ o ho, hl]
    · have hpart : partBy c p (l :: L) = partBy c p L := by simp [partBy, hl]
      rw [hpart, List.flatMap_cons, List.filter_append, ih]
      have : (g l (matching l R)).filter (fun o => c o.1 == p) = [] := by
        rw [List.filter_eq_nil_iff]
        intro o ho
        simp [hg l _ o ho, hl]
      rw [this, List.nil_append]

/-- **partition-wise join = global join given co-location** (any classification of the keys into `n` classes:
    hash buckets for the hash join, division intervals for the index join on aligned divisions) -/
theorem classJoin_joinWith_perm (g : Row → List Row → List Out) (hg : ∀ l ms o, o ∈ g l ms → o.1 = l.1)
    (c : Nat → Nat) (n : Nat) (hc : ∀ k, c k < n) (L R : List Row) :
    (classJoin (joinWith g) c n L R).Perm (joinWith g L R) := by
  unfold classJoin
  have : (fun p => joinWith g (partBy c p L) (partBy c p R)) =
      fun p => (joinWith g L R).filter fun o => (fun o : Out => c o.1) o == p := by
    funext p; exact joinWith_partBy g hg c p R L
  rw [this]
  exact classes_perm (fun o : Out => c o.1) n _ (fun o _ => hc o.1)

end Dask.Join
