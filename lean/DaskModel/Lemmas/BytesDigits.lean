import DaskModel.Lemmas.Bytes
/-! C18: decimal rendering and parsing are inverse (`str(int)` / `f"{x:.2f}"` against `float(...)`'s digit reader). -/
namespace Dask.Bytes

theorem digit_isDigit : ∀ d : Fin 10, isDigit (Char.ofNat (48 + d.val)) = true := by decide
theorem digit_val : ∀ d : Fin 10, (Char.ofNat (48 + d.val)).toNat - 48 = d.val := by decide
theorem digit_not_alpha : ∀ d : Fin 10, isAlpha (Char.ofNat (48 + d.val)) = false := by decide
theorem digit_not_space : ∀ d : Fin 10, Char.ofNat (48 + d.val) ≠ ' ' := by decide
theorem digit_not_sign : ∀ d : Fin 10, Char.ofNat (48 + d.val) ≠ '-' ∧ Char.ofNat (48 + d.val) ≠ '+' := by decide

def dchar (n : Nat) : Char := Char.ofNat (48 + n % 10)

theorem dchar_isDigit (n : Nat) : isDigit (dchar n) = true := digit_isDigit ⟨n % 10, Nat.mod_lt _ (by omega)⟩
theorem dchar_val (n : Nat) : (dchar n).toNat - 48 = n % 10 := digit_val ⟨n % 10, Nat.mod_lt _ (by omega)⟩
theorem dchar_not_alpha (n : Nat) : isAlpha (dchar n) = false := digit_not_alpha ⟨n % 10, Nat.mod_lt _ (by omega)⟩
theorem dchar_not_space (n : Nat) : dchar n ≠ ' ' := digit_not_space ⟨n % 10, Nat.mod_lt _ (by omega)⟩
theorem dchar_not_sign (n : Nat) : dchar n ≠ '-' ∧ dchar n ≠ '+' := digit_not_sign ⟨n % 10, Nat.mod_lt _ (by omega)⟩

/-- the digit reader is a left fold: reading `a ++ b` = reading `a`, shifted, plus reading `b` -/
theorem digitsVal_foldl (cs : List Char) (acc : Nat) :
    cs.foldl (fun acc c => acc * 10 + (c.toNat - 48)) acc = acc * 10 ^ cs.length + digitsVal cs := by
  induction cs generalizing acc with
  | nil => simp [digitsVal]
  | cons c r ih =>
    simp only [List.foldl_cons, List.length_cons, digitsVal]
    rw [ih, ih (0 * 10 + (c.toNat - 48))]
    simp only [Nat.zero_mul, Nat.zero_add, Nat.pow_succ]
    rw [Nat.add_mul, Nat.mul_assoc, Nat.add_assoc, Nat.mul_comm 10]

theorem digitsVal_append (a b : List Char) : digitsVal (a ++ b) = digitsVal a * 10 ^ b.length + digitsVal b := by
  unfold digitsVal
  rw [List.foldl_append, digitsVal_foldl]
  rfl

/-- invariant of the `str(int)` loop: the accumulator holds the digits already produced -/
theorem natDigitsAux_spec (fuel n : Nat) (acc : List Char) (hf : n < fuel) (hacc : acc.all isDigit = true) :
    (natDigitsAux fuel n acc).all isDigit = true ∧
    digitsVal (natDigitsAux fuel n acc) = n * 10 ^ acc.length + digitsVal acc ∧
    natDigitsAux fuel n acc ≠ [] := by
  induction fuel generalizing n acc with
  | zero => omega
  | succ f ih =>
    simp only [natDigitsAux]
    have hd : isDigit (Char.ofNat (48 + n % 10)) = true := dchar_isDigit n
    have hv : (Char.ofNat (48 + n % 10)).toNat - 48 = n % 10 := dchar_val n
    have hacc' : (Char.ofNat (48 + n % 10) :: acc).all isDigit = true := by simp [hd, hacc]
    have hval' : digitsVal (Char.ofNat (48 + n % 10) :: acc) = n % 10 * 10 ^ acc.length + digitsVal acc := by
      have := digitsVal_append [Char.ofNat (48 + n % 10)] acc
      simp only [List.singleton_append] at this
      rw [this]
      simp [digitsVal, hv]
    split
    · rename_i h10
      refine ⟨hacc', ?_, by simp⟩
      rw [hval', Nat.mod_eq_of_lt h10]
    · rename_i h10
      obtain ⟨h1, h2, h3⟩ := ih (n / 10) (Char.ofNat (48 + n % 10) :: acc) (by omega) hacc'
      refine ⟨h1, ?_, h3⟩
      rw [h2, hval']
      simp only [List.length_cons, Nat.pow_succ]
      have := Nat.div_add_mod n 10
      calc n / 10 * (10 ^ acc.length * 10) + (n % 10 * 10 ^ acc.length + digitsVal acc)
          = (10 * (n / 10) + n % 10) * 10 ^ acc.length + digitsVal acc := by
            rw [Nat.add_mul, Nat.mul_comm (10 ^ acc.length) 10, ← Nat.mul_assoc, Nat.mul_comm (n / 10) 10, Nat.add_assoc]
        _ = n * 10 ^ acc.length + digitsVal acc := by rw [this]

theorem natDigits_spec (n : Nat) :
    (natDigits n).all isDigit = true ∧ digitsVal (natDigits n) = n ∧ natDigits n ≠ [] := by
  have := natDigitsAux_spec (n + 1) n [] (by omega) (by simp)
  simpa [natDigits, digitsVal] using this

theorem padDigits_spec (d n : Nat) :
    (padDigits d n).all isDigit = true ∧ digitsVal (padDigits d n) = n % 10 ^ d := by
  induction d generalizing n with
  | zero => simp [padDigits, digitsVal, Nat.mod_one]
  | succ d ih =>
    obtain ⟨h1, h2⟩ := ih (n / 10)
    simp only [padDigits]
    have hdg : isDigit (Char.ofNat (48 + n % 10)) = true := dchar_isDigit n
    have hdv : (Char.ofNat (48 + n % 10)).toNat - 48 = n % 10 := dchar_val n
    refine ⟨by simp [h1, hdg], ?_⟩
    rw [digitsVal_append, h2]
    have hv : digitsVal [Char.ofNat (48 + n % 10)] = n % 10 := by simp [digitsVal, hdv]
    rw [hv]
    simp only [List.length_singleton, Nat.pow_one, Nat.pow_succ]
    -- (n/10 % 10^d) * 10 + n % 10 = n % (10^d * 10)
    have h := Nat.mod_mul_right_div_self n 10 (10 ^ d)
    have hm := Nat.div_add_mod (n % (10 * 10 ^ d)) 10
    have hmm : n % (10 * 10 ^ d) % 10 = n % 10 := Nat.mod_mul_right_mod n 10 (10 ^ d)
    rw [Nat.mul_comm (10 ^ d) 10]
    omega

theorem takeWhile_all {α : Type} (p : α → Bool) (a : List α) (b : List α) (ha : a.all p = true)
    (hb : ∀ x, b.head? = some x → p x = false) : (a ++ b).takeWhile p = a ∧ (a ++ b).dropWhile p = b := by
  induction a with
  | nil =>
    cases b with
    | nil => simp
    | cons x xs => have := hb x rfl; simp [List.takeWhile, List.dropWhile, this]
  | cons y ys ih =>
    simp only [List.all_cons, Bool.and_eq_true] at ha
    simp [List.takeWhile, List.dropWhile, ha.1, ih ha.2]

/-- `float("<q>.<rr>")` reads back the two-decimal rendering: numerator `q·100 + r`, denominator `100` -/
theorem parseLit_fixed2 (q r : Nat) (hr : r < 100) :
    parseLit (natDigits q ++ '.' :: padDigits 2 r) = some ⟨false, q * 100 + r, 100⟩ := by
  obtain ⟨hqd, hqv, hqne⟩ := natDigits_spec q
  obtain ⟨hpd, hpv⟩ := padDigits_spec 2 r
  -- first character is a digit: no sign
  obtain ⟨c0, rest0, hc0⟩ : ∃ c0 rest0, natDigits q = c0 :: rest0 := by
    cases h : natDigits q with
    | nil => exact absurd h hqne
    | cons a b => exact ⟨a, b, rfl⟩
  have hc0d : isDigit c0 = true := by
    rw [hc0] at hqd; simp only [List.all_cons, Bool.and_eq_true] at hqd; exact hqd.1
  have hns : c0 ≠ '-' ∧ c0 ≠ '+' := by
    constructor <;> intro e <;> subst e <;> simp [isDigit] at hc0d
  have hsplit := takeWhile_all isDigit (natDigits q) ('.' :: padDigits 2 r) hqd (by intro x hx; simp at hx; subst hx; decide)
  have hsplit2 := takeWhile_all isDigit (padDigits 2 r) [] hpd (by intro x hx; simp at hx)
  simp only [List.append_nil] at hsplit2
  have hsign : stripSign (c0 :: (rest0 ++ '.' :: padDigits 2 r)) = (false, c0 :: (rest0 ++ '.' :: padDigits 2 r)) := by
    unfold stripSign
    split
    · rename_i h; simp only [List.cons.injEq] at h; exact absurd h.1 hns.1
    · rename_i h; simp only [List.cons.injEq] at h; exact absurd h.1 hns.2
    · rfl
  have hfrac : splitFrac ('.' :: padDigits 2 r) = (padDigits 2 r, []) := by
    simp [splitFrac, hsplit2.1, hsplit2.2]
  have hlen : (padDigits 2 r).length = 2 := padDigits_length 2 r
  have hval : digitsVal (c0 :: rest0 ++ padDigits 2 r) = q * 100 + r := by
    rw [← hc0, digitsVal_append, hqv, hpv, hlen, Nat.mod_eq_of_lt (by omega)]
  rw [hc0] at hsplit
  simp only [List.cons_append] at hsplit hval
  unfold parseLit
  rw [hc0]
  simp only [List.cons_append, hsign, hsplit.1, hsplit.2, hfrac, hval, hlen]
  simp

end Dask.Bytes
