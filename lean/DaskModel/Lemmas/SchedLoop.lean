import DaskModel.Lemmas.SchedRun
/-! Processing of a completed batch, one iteration of the main loop, and the loop itself, for every
choice of the adversary. -/
namespace Dask.Sched
variable {α : Type}

theorem flatten_eraseIdx_perm {β : Type} : ∀ (l : List (List β)) (i : Nat) (b : List β),
    l[i]? = some b → l.flatten.Perm ((l.eraseIdx i).flatten ++ b) := by
  intro l
  induction l with
  | nil => intro i b h; simp at h
  | cons a l ih =>
    intro i b h
    cases i with
    | zero =>
      simp only [List.getElem?_cons_zero, Option.some.injEq] at h
      subst h
      simp only [List.flatten_cons, List.eraseIdx_cons_zero]
      exact List.perm_append_comm
    | succ i =>
      simp only [List.getElem?_cons_succ] at h
      simp only [List.flatten_cons, List.eraseIdx_cons_succ, List.append_assoc]
      exact (ih i b h).append_left a

theorem mem_eraseIdx_sub {β : Type} : ∀ (l : List β) (i : Nat) (x : β), x ∈ l.eraseIdx i → x ∈ l := by
  intro l
  induction l with
  | nil => intro i x h; simp at h
  | cons a l ih =>
    intro i x h
    cases i with
    | zero => simp only [List.eraseIdx_cons_zero] at h; exact List.mem_cons_of_mem _ h
    | succ i =>
      simp only [List.eraseIdx_cons_succ] at h
      rcases List.mem_cons.mp h with rfl | h
      · simp
      · exact List.mem_cons_of_mem _ (ih i x h)

/-- processing the results of one completed batch -/
theorem processBatch_spec {cfg : Cfg} (P : Params α) {den : Key → α} :
    ∀ (rest : List (Key × α)) (s : Sys α), BatchInv cfg den rest s →
    ∃ s' o, processBatch cfg P rest s = .ok (s', o) ∧ s'.pending = s.pending ∧
      (o = none → SysInv cfg den s' ∧ (∀ k, k ∈ s'.st.finished ↔ k ∈ s.st.finished ∨ k ∈ rest.map (·.1)) ∧
        s'.st.finished.length = s.st.finished.length + rest.length) ∧
      (∀ k, o = some k → P.fails k = true ∧ k ∈ rest.map (·.1) ∧
        ∃ rest', BatchInv cfg den rest' s' ∧ k ∈ rest'.map (·.1)) ∧
      (∀ k, k ∈ s.st.finished → k ∈ s'.st.finished) ∧ s'.st.dependencies = s.st.dependencies ∧
      (∀ k, k ∈ s'.st.finished → k ∈ s.st.finished ∨ P.fails k = false) ∧ LogExt s.log s'.log := by
  intro rest
  induction rest with
  | nil =>
    intro s h
    exact ⟨s, none, rfl, rfl, fun _ => ⟨h, by simp, by simp⟩, (by intro k hk; cases hk), fun k hk => hk, rfl, fun k hk => Or.inl hk, LogExt.refl _⟩
  | cons p rest ih =>
    obtain ⟨key, res⟩ := p
    intro s h
    unfold processBatch
    by_cases hf : P.fails key = true
    · simp only [hf, if_true]
      refine ⟨s, some key, rfl, rfl, (by intro ho; cases ho), ?_, fun k hk => hk, rfl, fun k hk => Or.inl hk, LogExt.refl _⟩
      intro k hk
      cases hk
      exact ⟨hf, by simp, (key, res) :: rest, h, by simp⟩
    · simp only [hf]
      have hkrun : key ∈ s.st.running := (h.running key).mp (Or.inr (by simp))
      have hres : res = den key := h.restVal (key, res) (by simp)
      have hknf : key ∉ s.st.finished := h.inv.runningFinished key hkrun
      obtain ⟨st', hfin, hinv', hfin', hrun', hdeps', _, hcache, _⟩ := h.inv.complete hkrun res
      rw [hfin]
      simp only []
      have hnd := h.nodup
      simp only [List.map_cons] at hnd
      rw [List.nodup_append] at hnd
      obtain ⟨hnd1, hnd2, hnd3⟩ := hnd
      have hnd2' := List.nodup_cons.mp hnd2
      have hkpend : key ∉ pendKeys s := fun hk => hnd3 key hk key (by simp) rfl
      have hB : BatchInv cfg den rest { s with st := st', log := s.log ++ [(Ev.posttask key, st')] } := by
        refine ⟨hinv', ?_, ?_, ?_, h.pendVal, ?_, h.pendNonempty, ?_, ?_, ?_, ?_, ?_, ?_, ?_, ?_⟩
        · intro d v hv
          rcases hcache d v hv with ⟨rfl, rfl⟩ | hold
          · exact hres
          · exact h.sound d v hold
        · show (pendKeys s ++ rest.map (·.1)).Nodup
          rw [List.nodup_append]
          exact ⟨hnd1, hnd2'.2, fun a ha b hb => hnd3 a ha b (List.mem_cons_of_mem _ hb)⟩
        · intro k
          show (k ∈ pendKeys s ∨ k ∈ rest.map (·.1)) ↔ k ∈ st'.running
          rw [hrun', mem_srem, ← h.running k]
          simp only [List.map_cons, List.mem_cons]
          constructor
          · rintro (h1 | h1)
            · exact ⟨Or.inl h1, fun e => hkpend (e ▸ h1)⟩
            · exact ⟨Or.inr (Or.inr h1), fun e => hnd2'.1 (e ▸ h1)⟩
          · rintro ⟨h1 | h1 | h1, h2⟩
            · exact Or.inl h1
            · exact absurd h1 h2
            · exact Or.inr h1
        · intro q hq; exact h.restVal q (List.mem_cons_of_mem _ hq)
        · show (preKeys (s.log ++ [(Ev.posttask key, st')])).Nodup
          rw [preKeys_append]
          simpa [preKeys] using h.preNodup
        · intro k
          show k ∈ preKeys (s.log ++ [(Ev.posttask key, st')]) ↔ k ∈ st'.running ∨ k ∈ st'.finished
          rw [preKeys_append, hrun', hfin', mem_srem, mem_sadd]
          have : preKeys [(Ev.posttask key, st')] = [] := rfl
          rw [this, List.append_nil, h.preIff k]
          constructor
          · rintro (h1 | h1)
            · by_cases hkk : k = key
              · exact Or.inr (Or.inl hkk)
              · exact Or.inl ⟨h1, hkk⟩
            · exact Or.inr (Or.inr h1)
          · rintro (⟨h1, _⟩ | h1 | h1)
            · exact Or.inl h1
            · exact Or.inl (h1 ▸ hkrun)
            · exact Or.inr h1
        · show (postKeys (s.log ++ [(Ev.posttask key, st')])).Nodup
          rw [postKeys_append]
          have : postKeys [(Ev.posttask key, st')] = [key] := rfl
          rw [this, List.nodup_append]
          refine ⟨h.postNodup, by simp, ?_⟩
          intro a ha b hb hab
          simp only [List.mem_singleton] at hb
          subst hb
          subst hab
          exact hknf ((h.postIff a).mp ha)
        · intro k
          show k ∈ postKeys (s.log ++ [(Ev.posttask key, st')]) ↔ k ∈ st'.finished
          rw [postKeys_append, hfin', mem_sadd]
          have : postKeys [(Ev.posttask key, st')] = [key] := rfl
          rw [this, List.mem_append, List.mem_singleton, h.postIff k]
          exact Or.comm
        · intro e he k hk
          have he' : e ∈ s.log ++ [(Ev.posttask key, st')] := he
          rcases List.mem_append.mp he' with he1 | he1
          · exact h.preSnap e he1 k hk
          · simp only [List.mem_singleton] at he1
            rw [he1] at hk
            cases hk
        · intro e he b hk
          have he' : e ∈ s.log ++ [(Ev.posttask key, st')] := he
          rcases List.mem_append.mp he' with he1 | he1
          · exact h.noFinish e he1 b hk
          · simp only [List.mem_singleton] at he1
            rw [he1] at hk
            cases hk
        · show Ordered (s.log ++ [(Ev.posttask key, st')])
          apply h.ordered.append
          intro l1 l2 hl k hk
          cases l1 with
          | nil => cases hk
          | cons e l1' =>
            have hl' : [(Ev.posttask key, st')] = e :: (l1' ++ l2) := by simpa using hl
            have he : e = (Ev.posttask key, st') := by
              have := List.cons.inj hl'; exact this.1.symm
            have hnil : l1' = [] := by
              have := (List.cons.inj hl').2
              exact (List.append_eq_nil_iff.mp this.symm).1
            subst he; subst hnil
            have hk' : k = key := by simpa [postKeys] using hk
            subst hk'
            rw [preKeys_append]
            exact List.mem_append_left _ ((h.preIff k).mpr (Or.inl hkrun))
        · intro e he
          have he' : e ∈ s.log ++ [(Ev.posttask key, st')] := he
          rcases List.mem_append.mp he' with he1 | he1
          · exact h.snapSound e he1
          · simp only [List.mem_singleton] at he1
            subst he1
            intro d v hv
            rcases hcache d v hv with ⟨rfl, rfl⟩ | hold
            · exact hres
            · exact h.sound d v hold
      obtain ⟨s', o, hpb, hpend, hnone, hsome, hmono, hdd, hfok, hlog⟩ := ih _ hB
      have hfok' : ∀ k, k ∈ s'.st.finished → k ∈ s.st.finished ∨ P.fails k = false := by
        intro k hk
        rcases hfok k hk with h1 | h1
        · have h1' : k ∈ st'.finished := h1
          rw [hfin'] at h1'
          rcases mem_sadd.mp h1' with rfl | h2
          · right; simpa using hf
          · exact Or.inl h2
        · exact Or.inr h1
      have hlog' : LogExt s.log s'.log :=
        LogExt.trans ⟨[(Ev.posttask key, st')], rfl, by intro e he; simp only [List.mem_singleton] at he; rw [he]; rfl⟩ hlog
      refine ⟨s', o, hpb, hpend, ?_, ?_, ?_, hdd.trans hdeps', hfok', hlog'⟩
      · intro ho
        obtain ⟨a, b, c⟩ := hnone ho
        refine ⟨a, ?_, ?_⟩
        · intro k
          rw [b k]
          show (k ∈ st'.finished ∨ _) ↔ _
          rw [hfin', mem_sadd]
          simp only [List.map_cons, List.mem_cons]
          constructor
          · rintro ((h1 | h1) | h1)
            · exact Or.inr (Or.inl h1)
            · exact Or.inl h1
            · exact Or.inr (Or.inr h1)
          · rintro (h1 | h1 | h1)
            · exact Or.inl (Or.inr h1)
            · exact Or.inl (Or.inl h1)
            · exact Or.inr h1
        · rw [c]
          show st'.finished.length + _ = _
          rw [hfin', length_sadd_of_not_mem hknf]
          simp only [List.length_cons]
          omega
      · intro k hk
        obtain ⟨a, b, c⟩ := hsome k hk
        exact ⟨a, by simp only [List.map_cons]; exact List.mem_cons_of_mem _ b, c⟩
      · intro k hk
        apply hmono
        show k ∈ st'.finished
        rw [hfin']
        exact mem_sadd.mpr (Or.inr hk)

theorem loopCond_false_iff (s : State α) :
    loopCond s = false ↔ (∀ k, s.waiting.get? k = none) ∧ s.ready = [] ∧ s.running = [] := by
  unfold loopCond
  simp only [Bool.or_eq_false_iff, Bool.not_eq_false', List.isEmpty_iff]
  have hw : s.waiting = [] ↔ ∀ k, s.waiting.get? k = none := by rw [← Map.isEmpty_iff, List.isEmpty_iff]
  rw [hw]
  exact and_assoc

/-- one iteration of the main loop, whatever outstanding batch completes -/
theorem iter_spec {cfg : Cfg} (P : Params α) {den : Key → α} (hden : IsDen cfg.g P den)
    (hnw : 1 ≤ cfg.nw) (hcs : cfg.cs = -1 ∨ 1 ≤ cfg.cs)
    (rank : Key → Nat) (hrank : ∀ k deps d, cfg.g.get? k = some (.task deps) → d ∈ deps → rank d < rank k)
    {s : Sys α} (h : SysInv cfg den s) (hloop : loopCond s.st = true) (choice : Nat) :
    (iter cfg P choice s = .error .badChoice ∧ 0 < choice) ∨
    ∃ s' o, iter cfg P choice s = .ok (s', o) ∧
      (o = none → SysInv cfg den s' ∧ s.st.finished.length < s'.st.finished.length) ∧
      (∀ k, o = some k → P.fails k = true ∧ ∃ rest', BatchInv cfg den rest' s' ∧ k ∈ rest'.map (·.1)) ∧
      (∀ k, k ∈ s.st.finished → k ∈ s'.st.finished) ∧ s'.st.dependencies = s.st.dependencies ∧
      (∀ k, k ∈ s'.st.finished → k ∈ s.st.finished ∨ P.fails k = false) ∧ LogExt s.log s'.log := by
  obtain ⟨s1, hfire, hinv1, hfin1, hwait1, _, _, hdep1, _, ⟨bs, hbs⟩, hprog, hlog1⟩ := fire_spec P hden hnw hcs h
  have hpne : s1.pending ≠ [] := by
    by_cases hp : s.pending = []
    · have hrun0 : s.st.running = [] := by
        apply List.eq_nil_iff_forall_not_mem.mpr
        intro k hk
        have := (h.running k).mpr hk
        simp [pendKeys, hp] at this
      apply hprog hrun0
      by_cases hr : s.st.ready = []
      · have hw : ∃ k w, s.st.waiting.get? k = some w := by
          apply Classical.byContradiction
          intro hno
          have : loopCond s.st = false := by
            rw [loopCond_false_iff]
            refine ⟨?_, hr, hrun0⟩
            intro k
            cases hk : s.st.waiting.get? k with
            | none => rfl
            | some w => exact absurd ⟨k, w, hk⟩ hno
          rw [this] at hloop
          cases hloop
        exact h.inv.ready_of_waiting rank hrank hrun0 hw
      · exact hr
    · rw [hbs]
      intro he
      exact hp (List.append_eq_nil_iff.mp he).1
  unfold iter
  rw [hfire]
  simp only [hpne, if_false]
  cases hb : s1.pending[choice]? with
  | none =>
    left
    refine ⟨rfl, ?_⟩
    cases choice with
    | succ n => omega
    | zero =>
      exfalso
      cases hp : s1.pending with
      | nil => exact hpne hp
      | cons b bs => rw [hp] at hb; simp at hb
  | some batch =>
    right
    simp only []
    have hperm := flatten_eraseIdx_perm s1.pending choice batch hb
    have hpermK : (pendKeys s1).Perm (pendKeys { s1 with pending := s1.pending.eraseIdx choice } ++ batch.map (·.1)) := by
      simp only [pendKeys]
      rw [← List.map_append]
      exact hperm.map _
    have hbmem : batch ∈ s1.pending := List.mem_of_getElem? hb
    have hB : BatchInv cfg den batch { s1 with pending := s1.pending.eraseIdx choice } := by
      refine ⟨hinv1.inv, hinv1.sound, ?_, ?_, ?_, ?_, ?_, hinv1.preNodup, hinv1.preIff, hinv1.postNodup, hinv1.postIff, hinv1.preSnap, hinv1.noFinish, hinv1.ordered, hinv1.snapSound⟩
      · have := hinv1.nodup
        simp only [List.map_nil, List.append_nil] at this
        exact hpermK.nodup_iff.mp this
      · intro k
        rw [← hinv1.running k, ← List.mem_append, ← hpermK.mem_iff]
        simp
      · intro p hp
        exact hinv1.pendVal p (hperm.mem_iff.mpr (List.mem_append_left _ hp))
      · intro p hp
        exact hinv1.pendVal p (hperm.mem_iff.mpr (List.mem_append_right _ hp))
      · intro b hb'
        exact hinv1.pendNonempty b (mem_eraseIdx_sub _ _ _ hb')
    obtain ⟨s', o, hpb, _, hnone, hsome, hmono, hdd, hfok, hlog2⟩ := processBatch_spec P batch _ hB
    refine ⟨s', o, hpb, ?_, ?_, ?_, hdd.trans hdep1, fun k hk => by
      rcases hfok k hk with h1 | h1
      · exact Or.inl (by rw [← hfin1]; exact h1)
      · exact Or.inr h1, LogExt.trans hlog1 hlog2⟩
    · intro ho
      obtain ⟨a, _, c⟩ := hnone ho
      refine ⟨a, ?_⟩
      rw [c]
      show _ < s1.st.finished.length + _
      rw [hfin1]
      have : batch.length ≠ 0 := by
        intro he
        exact hinv1.pendNonempty batch hbmem (List.length_eq_zero_iff.mp he)
      omega
    · intro k hk
      obtain ⟨a, _, c⟩ := hsome k hk
      exact ⟨a, c⟩
    · intro k hk
      apply hmono
      show k ∈ s1.st.finished
      rw [hfin1]
      exact hk

/-- the whole `while` loop, for every sequence of adversary choices -/
theorem mainLoop_spec {cfg : Cfg} (P : Params α) {den : Key → α} (hden : IsDen cfg.g P den)
    (hnw : 1 ≤ cfg.nw) (hcs : cfg.cs = -1 ∨ 1 ≤ cfg.cs)
    (rank : Key → Nat) (hrank : ∀ k deps d, cfg.g.get? k = some (.task deps) → d ∈ deps → rank d < rank k) :
    ∀ (choices : List Nat) (s : Sys α), SysInv cfg den s →
    (mainLoop cfg P choices s = .error .badChoice ∧ ∃ c ∈ choices, 0 < c) ∨
    ∃ s' o, mainLoop cfg P choices s = .ok (s', o) ∧
      (o = .done → SysInv cfg den s' ∧ loopCond s'.st = false) ∧
      (o = .starved → SysInv cfg den s' ∧ loopCond s'.st = true ∧
        s.st.finished.length + choices.length ≤ s'.st.finished.length) ∧
      (∀ k, o = .failed k → P.fails k = true ∧ ∃ rest', BatchInv cfg den rest' s' ∧ k ∈ rest'.map (·.1)) ∧
      (∀ k, k ∈ s.st.finished → k ∈ s'.st.finished) ∧ s'.st.dependencies = s.st.dependencies ∧
      (∀ k, k ∈ s'.st.finished → k ∈ s.st.finished ∨ P.fails k = false) ∧ LogExt s.log s'.log := by
  intro choices
  induction choices with
  | nil =>
    intro s h
    right
    unfold mainLoop
    by_cases hl : loopCond s.st = true
    · simp only [hl, if_true]
      exact ⟨s, .starved, rfl, (by intro ho; cases ho), fun _ => ⟨h, hl, by simp⟩, (by intro k hk; cases hk), fun k hk => hk, rfl, fun k hk => Or.inl hk, LogExt.refl _⟩
    · simp only [hl]
      have hl' : loopCond s.st = false := by simpa using hl
      exact ⟨s, .done, rfl, fun _ => ⟨h, hl'⟩, (by intro ho; cases ho), (by intro k hk; cases hk), fun k hk => hk, rfl, fun k hk => Or.inl hk, LogExt.refl _⟩
  | cons c cs ih =>
    intro s h
    unfold mainLoop
    by_cases hl : loopCond s.st = true
    · simp only [hl, if_true]
      rcases iter_spec P hden hnw hcs rank hrank h hl c with ⟨hbad, hpos⟩ | ⟨s1, o1, hit, hnone, hsome, hmono1, hdd1, hfok1, hlg1⟩
      · left; rw [hbad]; exact ⟨rfl, c, by simp, hpos⟩
      · rw [hit]
        cases o1 with
        | some k =>
          right
          simp only []
          exact ⟨s1, .failed k, rfl, (by intro ho; cases ho), (by intro ho; cases ho),
            (by intro k' hk'; cases hk'; exact hsome k rfl), hmono1, hdd1, hfok1, hlg1⟩
        | none =>
          simp only []
          obtain ⟨hinv1, hlt⟩ := hnone rfl
          rcases ih s1 hinv1 with ⟨hbad, c', hc', hpos'⟩ | ⟨s', o, hml, hdone, hstarved, hfailed, hmono, hdd, hfok, hlg⟩
          · left; exact ⟨hbad, c', List.mem_cons_of_mem _ hc', hpos'⟩
          · right
            refine ⟨s', o, hml, hdone, ?_, hfailed, fun k hk => hmono k (hmono1 k hk), hdd.trans hdd1, fun k hk => by
              rcases hfok k hk with h1 | h1
              · exact hfok1 k h1
              · exact Or.inr h1, LogExt.trans hlg1 hlg⟩
            intro ho
            obtain ⟨a, b, c⟩ := hstarved ho
            refine ⟨a, b, ?_⟩
            simp only [List.length_cons]
            omega
    · right
      simp only [hl]
      have hl' : loopCond s.st = false := by simpa using hl
      exact ⟨s, .done, rfl, fun _ => ⟨h, hl'⟩, (by intro ho; cases ho), (by intro k hk; cases hk), fun k hk => hk, rfl, fun k hk => Or.inl hk, LogExt.refl _⟩

end Dask.Sched
