import DaskModel.Lemmas.ConfigAlias
import DaskModel.Lemmas.ConfigStoreA
/-! Histories over named dict objects: separation (`Sep`), the frame argument (`commit_sound`), and one lemma per
operation: identities forgotten = the value-level operation, separation preserved, only the target changes. -/
namespace Dask.ConfigAlias
open Dask.Config

/-- forget identities: a named dict object ↦ its value -/
def eraseV (w : HCfg) : Dict := eraseL (entriesOf w)
def eraseS (s : HStore) : VStore := { vars := s.vars.map eraseV, defaults := s.defaults }

/-- **separation**: every variable is a dict object, all identities are below `nx`, and no dict object is reachable
from two different variables -/
structure Sep (s : HStore) : Prop where
  isNode : ∀ (j : Nat) (w : HCfg), s.vars[j]? = some w → ∃ i es, w = HCfg.node i es
  bound : ∀ (j : Nat) (w : HCfg), s.vars[j]? = some w → ∀ i ∈ w.ids, i < s.nx
  disj : ∀ (j k : Nat) (w u : HCfg), j ≠ k → s.vars[j]? = some w → s.vars[k]? = some u → ∀ i ∈ w.ids, i ∉ u.ids

theorem ids_node_entries (o : HCfg) (h : ∃ i es, o = HCfg.node i es) : o.ids = idOf o :: idsL (entriesOf o) := by
  obtain ⟨i, es, rfl⟩ := h
  simp [HCfg.ids, idOf, entriesOf]

/-- the heart of the frame argument: writing a result whose dict objects are objects of the target or new ones -/
theorem commit_sound (s : HStore) (hs : Sep s) (dst : Nat) (o : HCfg) (ho : s.vars[dst]? = some o)
    (r1 : HDict) (nx' : Nat) (hnx : s.nx ≤ nx')
    (hids : ∀ i ∈ idsL r1, i ∈ idsL (entriesOf o) ∨ (s.nx ≤ i ∧ i < nx')) :
    (commit s dst (.node (idOf o) r1) nx').vars = s.vars.set dst (.node (idOf o) r1) ∧
    Sep (commit s dst (.node (idOf o) r1) nx') := by
  have hoids := ids_node_entries o (hs.isNode dst o ho)
  -- dict objects of the result: of the target, or new
  have hr : ∀ i ∈ (HCfg.node (idOf o) r1).ids, i ∈ o.ids ∨ (s.nx ≤ i ∧ i < nx') := by
    intro i hi
    simp only [HCfg.ids, List.mem_cons] at hi
    rcases hi with rfl | hi
    · left; rw [hoids]; simp
    · rcases hids i hi with h | h
      · left; rw [hoids]; simp [h]
      · exact Or.inr h
  have hvars : (commit s dst (.node (idOf o) r1) nx').vars = s.vars.set dst (.node (idOf o) r1) := by
    simp only [commit]
    apply List.ext_getElem?
    intro j
    by_cases hj : dst = j
    · subst hj; simp [List.getElem?_set]
    · rw [List.getElem?_set_ne hj, List.getElem?_set_ne hj, List.getElem?_map]
      cases hw : s.vars[j]? with
      | none => rfl
      | some w =>
        simp only [Option.map_some, Option.some.injEq]
        apply sync_of_disjoint
        intro i hi hir
        rcases hr i hir with h | h
        · exact hs.disj j dst w o (fun e => hj e.symm) hw ho i hi h
        · have := hs.bound j w hw i hi
          omega
  refine ⟨hvars, ?_⟩
  have hget : ∀ j w, (commit s dst (.node (idOf o) r1) nx').vars[j]? = some w →
      (j = dst ∧ w = .node (idOf o) r1) ∨ (j ≠ dst ∧ s.vars[j]? = some w) := by
    intro j w hw
    rw [hvars] at hw
    by_cases hj : dst = j
    · subst hj
      simp only [List.getElem?_set, if_true] at hw
      split at hw
      · left; exact ⟨rfl, (Option.some.inj hw).symm⟩
      · cases hw
    · rw [List.getElem?_set_ne hj] at hw
      exact Or.inr ⟨fun e => hj e.symm, hw⟩
  have hnx' : (commit s dst (.node (idOf o) r1) nx').nx = nx' := rfl
  refine ⟨?_, ?_, ?_⟩
  · intro j w hw
    rcases hget j w hw with ⟨_, rfl⟩ | ⟨_, h⟩
    · exact ⟨_, _, rfl⟩
    · exact hs.isNode j w h
  · intro j w hw i hi
    rw [hnx']
    rcases hget j w hw with ⟨_, rfl⟩ | ⟨_, h⟩
    · rcases hr i hi with h | h
      · have := hs.bound dst o ho i h; omega
      · omega
    · have := hs.bound j w h i hi; omega
  · intro j k w u hjk hw hu i hi hiu
    rcases hget j w hw with ⟨rfl, rfl⟩ | ⟨hj, hw'⟩
    · rcases hget k u hu with ⟨rfl, _⟩ | ⟨hk, hu'⟩
      · exact hjk rfl
      · rcases hr i hi with h | h
        · exact hs.disj j k o u hjk ho hu' i h hiu
        · have := hs.bound k u hu' i hiu; omega
    · rcases hget k u hu with ⟨rfl, rfl⟩ | ⟨hk, hu'⟩
      · rcases hr i hiu with h | h
        · exact hs.disj j k w o hjk hw' ho i hi h
        · have := hs.bound j w hw' i hi; omega
      · exact hs.disj j k w u hjk hw' hu' i hi hiu


theorem eraseV_node (i : Nat) (es : HDict) : eraseV (.node i es) = eraseL es := rfl

theorem erase_of_isNode (w : HCfg) (h : ∃ i es, w = HCfg.node i es) : w.erase = Cfg.node (eraseV w) := by
  obtain ⟨i, es, rfl⟩ := h
  simp [HCfg.erase, eraseV, entriesOf]

theorem eraseS_vars_get (s : HStore) (j : Nat) : (eraseS s).vars[j]? = (s.vars[j]?).map eraseV := by
  simp [eraseS]

theorem eraseS_commit (s : HStore) (hs : Sep s) (dst : Nat) (o : HCfg) (ho : s.vars[dst]? = some o)
    (r1 : HDict) (nx' : Nat) (hnx : s.nx ≤ nx')
    (hids : ∀ i ∈ idsL r1, i ∈ idsL (entriesOf o) ∨ (s.nx ≤ i ∧ i < nx')) :
    eraseS (commit s dst (.node (idOf o) r1) nx') = { vars := (eraseS s).vars.set dst (eraseL r1), defaults := s.defaults } := by
  have h := (commit_sound s hs dst o ho r1 nx' hnx hids).1
  simp only [eraseS, h, List.map_set, eraseV_node]
  rfl

/-- the variable an operation writes (`merge` creates a new one) -/
def HOp.target (nvars : Nat) : HOp → Nat
  | .merge _ => nvars
  | .update _ dst _ _ => dst
  | .setLeaf dst _ _ => dst
  | .updateDefaults _ cfg => cfg
  | .refresh cfg => cfg

theorem frame_of_set (l : List HCfg) (dst : Nat) (r : HCfg) (j : Nat) (hj : j ≠ dst) : (l.set dst r)[j]? = l[j]? :=
  List.getElem?_set_ne (fun e => hj e.symm)

theorem hstep_update_sound (s : HStore) (hs : Sep s) (p : Priority) (dst src : Nat) (dflt : Option Nat) :
    (hstep hupdate s (.update p dst src dflt)).map eraseS = vstep (eraseS s) (.update p dst src dflt) ∧
    ∀ s', hstep hupdate s (.update p dst src dflt) = some s' →
      Sep s' ∧ ∀ j, j ≠ dst → s'.vars[j]? = s.vars[j]? := by
  simp only [hstep, vstep, eraseS_vars_get]
  cases ho : s.vars[dst]? with
  | none => simp
  | some o =>
    cases hn : s.vars[src]? with
    | none => simp
    | some n =>
      have hdd : vdfltOf (eraseS s).vars dflt = dfltOf s.vars dflt := by
        cases dflt with
        | none => rfl
        | some j =>
          simp only [vdfltOf, dfltOf, eraseS_vars_get]
          cases hj : s.vars[j]? with
          | none => rfl
          | some c => simp [erase_of_isNode c (hs.isNode j c hj)]
      simp only [Option.map_some, Option.bind_eq_bind, Option.bind_some, hdd]
      cases hd : dfltOf s.vars dflt with
      | none => simp
      | some dd =>
        simp only [Option.bind_some]
        have he := hupdate_erase p (entriesOf n) (entriesOf o) dd s.nx
        simp only [update, eraseV]
        rw [← he]
        cases hu : hupdate p (entriesOf n) (entriesOf o) dd s.nx with
        | none => simp
        | some r =>
          obtain ⟨r1, nx'⟩ := r
          obtain ⟨a1, a2⟩ := hupdate_ids p _ _ dd s.nx r1 nx' hu
          simp only [Option.map_some, Option.bind_some, pure]
          refine ⟨?_, ?_⟩
          · rw [eraseS_commit s hs dst o ho r1 nx' a1 a2]
            simp [eraseS]
          · intro s' hs'
            simp only [Option.some.injEq] at hs'
            subst hs'
            obtain ⟨c1, c2⟩ := commit_sound s hs dst o ho r1 nx' a1 a2
            exact ⟨c2, fun j hj => by rw [c1]; exact frame_of_set _ _ _ _ hj⟩


theorem hstep_setLeaf_sound (s : HStore) (hs : Sep s) (dst : Nat) (keys : List String) (c : Int) :
    (hstep hupdate s (.setLeaf dst keys c)).map eraseS = vstep (eraseS s) (.setLeaf dst keys c) ∧
    ∀ s', hstep hupdate s (.setLeaf dst keys c) = some s' → Sep s' ∧ ∀ j, j ≠ dst → s'.vars[j]? = s.vars[j]? := by
  simp only [hstep, vstep, eraseS_vars_get]
  cases ho : s.vars[dst]? with
  | none => simp
  | some o =>
    simp only [Option.map_some, Option.bind_eq_bind, Option.bind_some]
    have he := hassign_erase keys c (entriesOf o) s.nx
    simp only [eraseV]
    cases hu : hassign keys c (entriesOf o) s.nx with
    | none =>
      rw [hu] at he
      simp only [Option.map_none] at he
      cases hv : assign keys (Cfg.leaf c) (eraseL (entriesOf o)) [] false with
      | none => simp
      | some r => rw [hv] at he; simp at he
    | some r =>
      obtain ⟨r1, nx'⟩ := r
      rw [hu] at he
      obtain ⟨a1, a2⟩ := hassign_ids keys c _ s.nx r1 nx' hu
      cases hv : assign keys (Cfg.leaf c) (eraseL (entriesOf o)) [] false with
      | none => rw [hv] at he; simp at he
      | some rv =>
        rw [hv] at he
        simp only [Option.map_some, Option.some.injEq] at he
        simp only [Option.map_some, Option.bind_some, pure]
        refine ⟨?_, ?_⟩
        · rw [eraseS_commit s hs dst o ho r1 nx' a1 a2, he]
          simp [eraseS]
        · intro s' hs'
          simp only [Option.some.injEq] at hs'
          subst hs'
          obtain ⟨c1, c2⟩ := commit_sound s hs dst o ho r1 nx' a1 a2
          exact ⟨c2, fun j hj => by rw [c1]; exact frame_of_set _ _ _ _ hj⟩

theorem getVals_erase (vars : List HCfg) : ∀ (is : List Nat),
    getVals (vars.map eraseV) is = (getVars vars is).map (List.map eraseV)
  | [] => by simp [getVals, getVars]
  | i :: is => by
    have ih := getVals_erase vars is
    simp only [getVals, getVars, List.getElem?_map] at ih ⊢
    simp only [List.mapM_cons, Option.bind_eq_bind]
    cases vars[i]? with
    | none => simp
    | some w =>
      simp only [Option.map_some, Option.bind_some]
      rw [ih]
      cases List.mapM (fun i => vars[i]?) is <;> simp


theorem map_sync_of_fresh (s : HStore) (hs : Sep s) (res : HCfg) (hres : ∀ i ∈ res.ids, s.nx ≤ i) :
    s.vars.map (HCfg.sync res) = s.vars := by
  apply List.ext_getElem?
  intro j
  rw [List.getElem?_map]
  cases hw : s.vars[j]? with
  | none => rfl
  | some w =>
    simp only [Option.map_some, Option.some.injEq]
    apply sync_of_disjoint
    intro i hi hir
    have := hs.bound j w hw i hi
    have := hres i hir
    omega

theorem getElem?_append_one (l : List HCfg) (a w : HCfg) (j : Nat) (h : (l ++ [a])[j]? = some w) :
    (j < l.length ∧ l[j]? = some w) ∨ (j = l.length ∧ w = a) := by
  by_cases hj : j < l.length
  · rw [List.getElem?_append_left hj] at h
    exact Or.inl ⟨hj, h⟩
  · rw [List.getElem?_append_right (by omega)] at h
    have : j - l.length = 0 := by
      cases hk : j - l.length with
      | zero => rfl
      | succ k => rw [hk] at h; simp at h
    rw [this] at h
    simp only [List.getElem?_cons_zero, Option.some.injEq] at h
    exact Or.inr ⟨by omega, h.symm⟩

theorem hstep_merge_sound (s : HStore) (hs : Sep s) (srcs : List Nat) :
    (hstep hupdate s (.merge srcs)).map eraseS = vstep (eraseS s) (.merge srcs) ∧
    ∀ s', hstep hupdate s (.merge srcs) = some s' →
      Sep s' ∧ ∀ j, j < s.vars.length → s'.vars[j]? = s.vars[j]? := by
  simp only [hstep, vstep]
  have hg := getVals_erase s.vars srcs
  simp only [eraseS] at hg ⊢
  rw [hg]
  cases hds : getVars s.vars srcs with
  | none => simp
  | some ds =>
    simp only [Option.map_some, Option.bind_eq_bind, Option.bind_some, hmergeWith]
    have he := foldUpd_erase .new (ds.map entriesOf) [] (s.nx + 1)
    have hmap : (ds.map entriesOf).map eraseL = ds.map eraseV := by simp [eraseV]
    rw [hmap, eraseL_nil] at he
    rw [merge_eq_vfoldUpd, ← he]
    cases hf : foldUpd hupdate .new (ds.map entriesOf) [] (s.nx + 1) with
    | none => simp
    | some r =>
      obtain ⟨r1, nx'⟩ := r
      obtain ⟨a1, a2⟩ := foldUpd_ids .new _ [] (s.nx + 1) r1 nx' hf
      have hres : ∀ i ∈ (HCfg.node s.nx r1).ids, s.nx ≤ i ∧ i < nx' := by
        intro i hi
        simp only [HCfg.ids, List.mem_cons] at hi
        rcases hi with rfl | hi
        · omega
        · rcases a2 i hi with h | h
          · simp [idsL] at h
          · omega
      have hsync := map_sync_of_fresh s hs (.node s.nx r1) (fun i hi => (hres i hi).1)
      simp only [Option.map_some, Option.bind_some, pure, hsync]
      refine ⟨by simp [eraseS, eraseV_node], ?_⟩
      intro s' hs'
      simp only [Option.some.injEq] at hs'
      subst hs'
      refine ⟨⟨?_, ?_, ?_⟩, ?_⟩
      · intro j w hw
        rcases getElem?_append_one _ _ _ _ hw with ⟨_, h⟩ | ⟨_, rfl⟩
        · exact hs.isNode j w h
        · exact ⟨_, _, rfl⟩
      · intro j w hw i hi
        show i < nx'
        rcases getElem?_append_one _ _ _ _ hw with ⟨_, h⟩ | ⟨_, rfl⟩
        · have := hs.bound j w h i hi; omega
        · exact (hres i hi).2
      · intro j k w u hjk hw hu i hi hiu
        rcases getElem?_append_one _ _ _ _ hw with ⟨hj, h⟩ | ⟨hj, rfl⟩
        · rcases getElem?_append_one _ _ _ _ hu with ⟨hk, h'⟩ | ⟨hk, rfl⟩
          · exact hs.disj j k w u hjk h h' i hi hiu
          · have := hs.bound j w h i hi
            have := (hres i hiu).1
            omega
        · rcases getElem?_append_one _ _ _ _ hu with ⟨hk, h'⟩ | ⟨hk, rfl⟩
          · have := hs.bound k u h' i hiu
            have := (hres i hi).1
            omega
          · omega
      · intro j hj
        exact List.getElem?_append_left hj


theorem hstep_updateDefaults_sound (s : HStore) (hs : Sep s) (new cfg : Nat) :
    (hstep hupdate s (.updateDefaults new cfg)).map eraseS = vstep (eraseS s) (.updateDefaults new cfg) ∧
    ∀ s', hstep hupdate s (.updateDefaults new cfg) = some s' →
      Sep s' ∧ ∀ j, j ≠ cfg → s'.vars[j]? = s.vars[j]? := by
  simp only [hstep, vstep, eraseS_vars_get]
  cases ho : s.vars[cfg]? with
  | none => simp
  | some o =>
    cases hn : s.vars[new]? with
    | none => simp
    | some n =>
      have hg := getVals_erase s.vars s.defaults
      simp only [Option.map_some, Option.bind_eq_bind, Option.bind_some]
      have hgd : getVals (eraseS s).vars (eraseS s).defaults = (getVars s.vars s.defaults).map (List.map eraseV) := hg
      rw [hgd]
      cases hds : getVars s.vars s.defaults with
      | none => simp
      | some ds =>
        simp only [Option.map_some, Option.bind_some]
        have hm : (ds.map fun d => eraseL (entriesOf d)) = ds.map eraseV := rfl
        rw [hm]
        cases hc : merge (ds.map eraseV) with
        | none => simp
        | some cur =>
          simp only [Option.bind_some]
          have he := hupdate_erase .newDefaults (entriesOf n) (entriesOf o) (some (.node cur)) s.nx
          simp only [update, eraseV]
          rw [← he]
          cases hu : hupdate .newDefaults (entriesOf n) (entriesOf o) (some (.node cur)) s.nx with
          | none => simp
          | some r =>
            obtain ⟨r1, nx'⟩ := r
            obtain ⟨a1, a2⟩ := hupdate_ids .newDefaults _ _ _ s.nx r1 nx' hu
            obtain ⟨c1, c2⟩ := commit_sound s hs cfg o ho r1 nx' a1 a2
            simp only [Option.map_some, Option.bind_some, pure]
            refine ⟨?_, ?_⟩
            · have h := eraseS_commit s hs cfg o ho r1 nx' a1 a2
              simp only [eraseS] at h ⊢
              simp only [VStore.mk.injEq] at h
              simp [h.1]
            · intro s' hs'
              simp only [Option.some.injEq] at hs'
              subst hs'
              exact ⟨⟨c2.isNode, c2.bound, c2.disj⟩, fun j hj => by
                show (commit s cfg _ nx').vars[j]? = _
                rw [c1]; exact frame_of_set _ _ _ _ hj⟩

theorem hstep_refresh_sound (s : HStore) (hs : Sep s) (cfg : Nat) :
    (hstep hupdate s (.refresh cfg)).map eraseS = vstep (eraseS s) (.refresh cfg) ∧
    ∀ s', hstep hupdate s (.refresh cfg) = some s' → Sep s' ∧ ∀ j, j ≠ cfg → s'.vars[j]? = s.vars[j]? := by
  simp only [hstep, vstep, eraseS_vars_get]
  cases ho : s.vars[cfg]? with
  | none => simp
  | some o =>
    have hg := getVals_erase s.vars s.defaults
    simp only [Option.map_some, Option.bind_eq_bind, Option.bind_some]
    have hgd : getVals (eraseS s).vars (eraseS s).defaults = (getVars s.vars s.defaults).map (List.map eraseV) := hg
    rw [hgd]
    cases hds : getVars s.vars s.defaults with
    | none => simp
    | some ds =>
      simp only [Option.map_some, Option.bind_some]
      have he := foldUpd_erase .old (ds.map entriesOf) [] s.nx
      have hmap : (ds.map entriesOf).map eraseL = ds.map eraseV := by simp [eraseV]
      rw [hmap, eraseL_nil] at he
      rw [← he]
      cases hf : foldUpd hupdate .old (ds.map entriesOf) [] s.nx with
      | none => simp
      | some r =>
        obtain ⟨r1, nx'⟩ := r
        obtain ⟨a1, a2⟩ := foldUpd_ids .old _ [] s.nx r1 nx' hf
        have a2' : ∀ i ∈ idsL r1, i ∈ idsL (entriesOf o) ∨ (s.nx ≤ i ∧ i < nx') := by
          intro i hi
          rcases a2 i hi with h | h
          · simp [idsL] at h
          · exact Or.inr h
        obtain ⟨c1, c2⟩ := commit_sound s hs cfg o ho r1 nx' a1 a2'
        simp only [Option.map_some, Option.bind_some, pure]
        refine ⟨?_, ?_⟩
        · rw [eraseS_commit s hs cfg o ho r1 nx' a1 a2']
          simp [eraseS]
        · intro s' hs'
          simp only [Option.some.injEq] at hs'
          subst hs'
          exact ⟨c2, fun j hj => by rw [c1]; exact frame_of_set _ _ _ _ hj⟩

end Dask.ConfigAlias
