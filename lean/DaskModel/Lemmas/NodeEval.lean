import DaskModel.Model.TaskTerm
/-! Basic facts about `evalNode`: only the reported dependencies matter, each of them is needed, and evaluation is
    monotone in the environment. (Moved here from Props/C08.lean in the review round so that C09 can use them.) -/
namespace Dask.TaskTerm

mutual
/-- the reported dependencies suffice: evaluation looks at no other key -/
theorem evalNode_congr (env env' : Obj → Option Obj) : ∀ n : Node, (∀ k ∈ n.deps, env k = env' k) →
    evalNode env n = evalNode env' n
  | .alias t, h => by simpa [evalNode] using h t (by simp [Node.deps])
  | .data _, _ => by simp [evalNode]
  | .ref k, h => by simpa [evalNode] using h k (by simp [Node.deps])
  | .raw _, _ => by simp [evalNode]
  | .task f args kw, h => by
    have h1 := evalNodes_congr env env' args (fun k hk => h k (by simp [Node.deps, hk]))
    have h2 := evalKw_congr env env' kw (fun k hk => h k (by simp [Node.deps, hk]))
    simp only [evalNode, h1, h2]
theorem evalNodes_congr (env env' : Obj → Option Obj) : ∀ ns : List Node, (∀ k ∈ depsList ns, env k = env' k) →
    evalNodes env ns = evalNodes env' ns
  | [], _ => by simp [evalNodes]
  | n :: ns, h => by
    have h1 := evalNode_congr env env' n (fun k hk => h k (by simp [depsList, hk]))
    have h2 := evalNodes_congr env env' ns (fun k hk => h k (by simp [depsList, hk]))
    simp only [evalNodes, h1, h2]
theorem evalKw_congr (env env' : Obj → Option Obj) : ∀ ns : List (Obj × Node), (∀ k ∈ depsKw ns, env k = env' k) →
    evalKw env ns = evalKw env' ns
  | [], _ => by simp [evalKw]
  | (a, n) :: ns, h => by
    have h1 := evalNode_congr env env' n (fun k hk => h k (by simp [depsKw, hk]))
    have h2 := evalKw_congr env env' ns (fun k hk => h k (by simp [depsKw, hk]))
    simp only [evalKw, h1, h2]
end

mutual
/-- every reported dependency is needed: if it is missing the node cannot be evaluated (`_verify_values`) -/
theorem evalNode_missing (env : Obj → Option Obj) (k : Obj) (hk : env k = none) : ∀ n : Node, k ∈ n.deps →
    evalNode env n = none
  | .alias t, h => by simp [Node.deps] at h; subst h; simpa [evalNode] using hk
  | .data _, h => by simp [Node.deps] at h
  | .ref r, h => by simp [Node.deps] at h; subst h; simpa [evalNode] using hk
  | .raw _, h => by simp [Node.deps] at h
  | .task f args kw, h => by
    simp only [Node.deps, List.mem_append] at h
    rcases h with h | h
    · simp [evalNode, evalNodes_missing env k hk args h]
    · simp only [evalNode, evalKw_missing env k hk kw h]
      cases evalNodes env args <;> rfl
theorem evalNodes_missing (env : Obj → Option Obj) (k : Obj) (hk : env k = none) : ∀ ns : List Node,
    k ∈ depsList ns → evalNodes env ns = none
  | [], h => by simp [depsList] at h
  | n :: ns, h => by
    simp only [depsList, List.mem_append] at h
    rcases h with h | h
    · simp [evalNodes, evalNode_missing env k hk n h]
    · simp only [evalNodes, evalNodes_missing env k hk ns h]
      cases evalNode env n <;> rfl
theorem evalKw_missing (env : Obj → Option Obj) (k : Obj) (hk : env k = none) : ∀ ns : List (Obj × Node),
    k ∈ depsKw ns → evalKw env ns = none
  | [], h => by simp [depsKw] at h
  | (a, n) :: ns, h => by
    simp only [depsKw, List.mem_append] at h
    rcases h with h | h
    · simp [evalKw, evalNode_missing env k hk n h]
    · simp only [evalKw, evalKw_missing env k hk ns h]
      cases evalNode env n <;> rfl
end

/-- a successful evaluation read a value for every dependency -/
theorem evalNode_some_deps {env : Obj → Option Obj} {n : Node} {v : Obj} (h : evalNode env n = some v) :
    ∀ d ∈ n.deps, ∃ w, env d = some w := by
  intro d hd
  cases hd' : env d with
  | some w => exact ⟨w, rfl⟩
  | none => rw [evalNode_missing env d hd' n hd] at h; cases h

/-- `env ≤ env'`: wherever `env` has a value `env'` has the same -/
def EnvLe (env env' : Obj → Option Obj) : Prop := ∀ k v, env k = some v → env' k = some v

theorem EnvLe.refl (env : Obj → Option Obj) : EnvLe env env := fun _ _ h => h
theorem EnvLe.trans {a b c : Obj → Option Obj} (h1 : EnvLe a b) (h2 : EnvLe b c) : EnvLe a c :=
  fun k v h => h2 k v (h1 k v h)

/-- evaluation is monotone in the environment -/
theorem evalNode_mono {env env' : Obj → Option Obj} (hle : EnvLe env env') {n : Node} {v : Obj}
    (h : evalNode env n = some v) : evalNode env' n = some v := by
  rw [← h]
  symm
  apply evalNode_congr
  intro d hd
  obtain ⟨w, hw⟩ := evalNode_some_deps h d hd
  rw [hw, hle d w hw]

end Dask.TaskTerm
