import DaskModel.Lemmas.ReshapeBlocksLemmas
/-! `blocksFlat` over a concatenation of axis groups, and the block-level theorem for `groupsOK` plans (C24). -/
namespace Dask.Reshape
open Dask.Chunks Dask.Structural

/-- what happens to one block of the leading axes `A` (its `p.1` elements, each a run of `size B * m` entries, data `p.2`)
    when the trailing axes `B` are chunked too -/
def inner {α} (m : Nat) (B : List (List Nat)) (p : Nat × List α) : List (List α) :=
  zipConcat (nBlocks B) ((rowsOf (size B * m) p.1 p.2).map (blocksFlat m B))

theorem blocksFlat_append_nil {α} (m : Nat) (B : List (List Nat)) (flat : List α) (h : flat.length = size B * m) :
    blocksFlat m B flat = inner m B (1, flat) := by
  unfold inner
  simp only [rowsOf, List.map_cons, List.map_nil]
  rw [List.take_of_length_le (by omega), zipConcat_singleton _ _ (length_blocksFlat m B flat)]

theorem reshape_merge_aux {α} (m : Nat) : ∀ (cs : List Nat) (rows : List (List α)), (∀ r ∈ rows, r.length = m) →
    reshapeMergeBlocks cs rows = splitBy (cs.map (· * m)) rows.flatten
  | [], rows, _ => by simp [reshapeMergeBlocks, splitBy]
  | c :: cs, rows, h => by
    obtain ⟨i1, i2⟩ := flatten_take_rows m rows c h
    have ih := reshape_merge_aux m cs (rows.drop c) (fun r hr => h r (List.mem_of_mem_drop hr))
    simp only [reshapeMergeBlocks, splitBy, List.map_cons] at ih ⊢
    rw [i1, ih, i2]

theorem flatMap_singleton {β γ} (f : β → γ) : ∀ (l : List β), l.flatMap (fun x => [f x]) = l.map f
  | [] => rfl
  | x :: l => by simp [List.flatMap_cons, flatMap_singleton f l]

theorem blocksFlat_append {α} (m : Nat) (B : List (List Nat)) : ∀ (A : List (List Nat)) (flat : List α),
    contig A = true → flat.length = size A * (size B * m) →
    blocksFlat m (A ++ B) flat =
      ((lowerAll A).zip (splitBy ((lowerAll A).map (· * (size B * m))) flat)).flatMap (inner m B)
  | [], flat, _, h => by
    rw [size_nil, Nat.one_mul] at h
    simp only [List.nil_append, lowerAll, List.map_cons, List.map_nil, splitBy, List.zip_cons_cons, List.zip_nil_right,
      List.flatMap_cons, List.flatMap_nil, List.append_nil, Nat.one_mul]
    rw [List.take_of_length_le (by omega)]
    exact blocksFlat_append_nil m B flat h
  | c :: g, flat, hc, h => by
    have hrl : size (g ++ B) * m = size g * (size B * m) := by rw [size_append, Nat.mul_assoc]
    have hfl : flat.length = sum c * (size g * (size B * m)) := by rw [h, size_cons, Nat.mul_assoc]
    simp only [List.cons_append, blocksFlat]
    rw [hrl]
    generalize hM : size B * m = M at *
    have hrows_len := length_rowsOf (size g * M) (sum c) flat
    have hrows_flat := rowsOf_flatten (size g * M) (sum c) flat hfl
    have hrows_row := rowsOf_row_length (size g * M) (sum c) flat hfl
    generalize rowsOf (size g * M) (sum c) flat = rows at *
    rcases contig_cons hc with ⟨h1, hg⟩ | hs
    · -- all-ones axis: every row is its own chunk
      have hc1 := allOnes_eq h1
      generalize hn : c.length = n at hc1
      subst hc1
      rw [sum_replicate_one] at hrows_len
      have e1 : splitBy (List.replicate n 1) rows = rows.map (fun r => [r]) := by
        have := splitBy_ones rows; rwa [hrows_len] at this
      rw [e1, List.flatMap_map]
      have e2 : ∀ row ∈ rows, zipConcat (nBlocks (g ++ B)) (List.map (blocksFlat m (g ++ B)) [row]) =
          ((lowerAll g).zip (splitBy ((lowerAll g).map (· * M)) row)).flatMap (inner m B) := by
        intro row hrow
        simp only [List.map_cons, List.map_nil]
        rw [zipConcat_singleton _ _ (length_blocksFlat m (g ++ B) row)]
        have := blocksFlat_append m B g row hg (by rw [hM]; exact hrows_row row hrow)
        rw [hM] at this; exact this
      rw [flatMap_congr' e2, lowerAll_ones, List.map_flatten, List.map_replicate]
      have e3 : splitBy ((List.replicate n ((lowerAll g).map (· * M))).flatten) flat
          = rows.flatMap (splitBy ((lowerAll g).map (· * M))) := by
        have := reshape_merge_ones_aux ((lowerAll g).map (· * M)) rows
          (fun r hr => by rw [sum_map_mul, sum_lowerAll]; exact hrows_row r hr)
        unfold reshapeMergeOnesBlocks at this
        rw [this, hrows_len, hrows_flat]
      rw [e3]
      have e4 := zip_flatten_replicate (lowerAll g) (splitBy ((lowerAll g).map (· * M))) rows
        (fun row _ => by rw [length_splitBy, List.length_map])
      rw [hrows_len] at e4
      rw [e4, List.flatMap_assoc]
    · -- the arbitrary axis followed by single-chunk axes
      have hLg := lowerAll_singles g hs
      have hKg : nBlocks (g ++ B) = nBlocks B := by rw [nBlocks_append, nBlocks_singles g hs, Nat.one_mul]
      rw [hKg]
      have hlow : lowerAll (c :: g) = c.map (· * size g) := by
        simp only [lowerAll, hLg, List.map_cons, List.map_nil]
        exact flatMap_singleton _ c
      rw [hlow, List.map_map]
      have e1 : splitBy (List.map ((fun x => x * M) ∘ fun x => x * size g) c) flat = (splitBy c rows).map List.flatten := by
        have := reshape_merge_aux (size g * M) c rows hrows_row
        unfold reshapeMergeBlocks at this
        rw [this, hrows_flat]
        congr 1
        apply List.map_congr_left
        intro x _
        simp [Function.comp, Nat.mul_assoc]
      rw [e1, List.zip_map, List.flatMap_map]
      conv => lhs; rw [← map_snd_zip_splitBy c rows, List.flatMap_map]
      apply flatMap_congr'
      intro p hp
      obtain ⟨x, rc⟩ := p
      obtain ⟨hx, hmem⟩ := mem_zip_splitBy c rows x rc hrows_len hp
      simp only [Prod.map]
      -- rows of this chunk
      have hrc : ∀ r ∈ rc, r.length = size g * M := fun r hr => hrows_row r (hmem r hr)
      have e2 : ∀ row ∈ rc, blocksFlat m (g ++ B) row = inner m B (size g, row) := by
        intro row hrow
        have := blocksFlat_append m B g row (contig_singles g hs) (by rw [hM]; exact hrc row hrow)
        rw [hM, hLg] at this
        simp only [List.map_cons, List.map_nil, splitBy, List.zip_cons_cons, List.zip_nil_right, List.flatMap_cons,
          List.flatMap_nil, List.append_nil] at this
        rw [this, List.take_of_length_le (by rw [hrc row hrow]; exact Nat.le_refl _)]
      rw [List.map_congr_left e2]
      unfold inner
      rw [hM, zipConcat_nest (nBlocks B) (fun row => (rowsOf M (size g) row).map (blocksFlat m B)) rc]
      subst hx
      rw [rowsOf_flatten_rows M (size g) rc hrc, List.map_flatMap]

theorem mem_zip_splitBy_mul {α} (M : Nat) : ∀ (L : List Nat) (flat : List α) (x : Nat) (blk : List α),
    flat.length = sum L * M → (x, blk) ∈ L.zip (splitBy (L.map (· * M)) flat) → blk.length = x * M
  | [], _, _, _, _, h => by simp at h
  | l :: L, flat, x, blk, hl, h => by
    rw [sum_cons, Nat.add_mul] at hl
    simp only [List.map_cons, splitBy, List.zip_cons_cons, List.mem_cons, Prod.mk.injEq] at h
    rcases h with ⟨rfl, rfl⟩ | h
    · simp; omega
    · exact mem_zip_splitBy_mul M L (flat.drop (l * M)) x blk (by simp; omega) h

theorem groupsOK_nil {ri ro : List (List Nat)} (h : groupsOK ri ro [] = true) : ri = [] ∧ ro = [] := by
  cases ri <;> cases ro <;> simp_all [groupsOK]

theorem groupsOK_cons {ri ro : List (List Nat)} {a b : Nat} {gs : List (Nat × Nat)}
    (h : groupsOK ri ro ((a, b) :: gs) = true) :
    a ≤ ri.length ∧ b ≤ ro.length ∧ contig (ri.take a) = true ∧ contig (ro.take b) = true ∧
    lowerAll (ri.take a) = lowerAll (ro.take b) ∧ groupsOK (ri.drop a) (ro.drop b) gs = true := by
  unfold groupsOK at h
  simp only [Bool.and_eq_true, decide_eq_true_eq, beq_iff_eq] at h
  obtain ⟨⟨⟨⟨⟨h1, h2⟩, h3⟩, h4⟩, h5⟩, h6⟩ := h
  exact ⟨h1, h2, h3, h4, h5, h6⟩

theorem groupsOK_size : ∀ (gs : List (Nat × Nat)) (ri ro : List (List Nat)), groupsOK ri ro gs = true →
    size ri = size ro ∧ nBlocks ri = nBlocks ro
  | [], ri, ro, h => by obtain ⟨rfl, rfl⟩ := groupsOK_nil h; exact ⟨rfl, rfl⟩
  | (a, b) :: gs, ri, ro, h => by
    obtain ⟨_, _, _, _, hL, hrest⟩ := groupsOK_cons h
    obtain ⟨i1, i2⟩ := groupsOK_size gs _ _ hrest
    have e1 : size ri = size (ri.take a) * size (ri.drop a) := by rw [← size_append, List.take_append_drop]
    have e2 : size ro = size (ro.take b) * size (ro.drop b) := by rw [← size_append, List.take_append_drop]
    have e3 : nBlocks ri = nBlocks (ri.take a) * nBlocks (ri.drop a) := by rw [← nBlocks_append, List.take_append_drop]
    have e4 : nBlocks ro = nBlocks (ro.take b) * nBlocks (ro.drop b) := by rw [← nBlocks_append, List.take_append_drop]
    rw [e1, e2, e3, e4, i1, i2, ← sum_lowerAll (ri.take a), ← sum_lowerAll (ro.take b),
      ← length_lowerAll (ri.take a), ← length_lowerAll (ro.take b), hL]
    exact ⟨rfl, rfl⟩

/-- **the block-level theorem**: when the two chunk lists decompose into groups that are contiguous on both sides with
    equal block sizes, the `k`-th block of the input (C-order data) *is* the `k`-th block of the reshaped array -/
theorem blocksFlat_groupsOK {α} (m : Nat) : ∀ (gs : List (Nat × Nat)) (ri ro : List (List Nat)) (flat : List α),
    groupsOK ri ro gs = true → flat.length = size ri * m → blocksFlat m ri flat = blocksFlat m ro flat
  | [], ri, ro, flat, h, _ => by obtain ⟨rfl, rfl⟩ := groupsOK_nil h; rfl
  | (a, b) :: gs, ri, ro, flat, h, hl => by
    obtain ⟨_, _, hci, hco, hL, hrest⟩ := groupsOK_cons h
    obtain ⟨hsz, hnb⟩ := groupsOK_size gs _ _ hrest
    have e1 : size ri = size (ri.take a) * size (ri.drop a) := by rw [← size_append, List.take_append_drop]
    have hsz' : size (ro.take b) = size (ri.take a) := by rw [← sum_lowerAll, ← sum_lowerAll, hL]
    have hi := blocksFlat_append m (ri.drop a) (ri.take a) flat hci (by rw [hl, e1, Nat.mul_assoc])
    have ho := blocksFlat_append m (ro.drop b) (ro.take b) flat hco (by rw [hl, e1, hsz', hsz, Nat.mul_assoc])
    rw [List.take_append_drop] at hi ho
    rw [hi, ho, ← hL, ← hsz]
    apply flatMap_congr'
    intro p hp
    obtain ⟨x, blk⟩ := p
    have hblk := mem_zip_splitBy_mul (size (ri.drop a) * m) (lowerAll (ri.take a)) flat x blk
      (by rw [sum_lowerAll, hl, e1, Nat.mul_assoc]) hp
    unfold inner
    rw [← hnb, ← hsz]
    congr 1
    apply List.map_congr_left
    intro row hrow
    exact blocksFlat_groupsOK m gs _ _ row hrest (rowsOf_row_length _ x blk hblk row hrow)

end Dask.Reshape
