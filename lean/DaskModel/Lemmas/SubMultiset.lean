/-! Sub-multiset relation on lists, in core Lean only: `xs ⊆ₘ ys` iff `xs` plus some rest is a
permutation of `ys` (this is Mathlib's `List.Subperm`, stated through its characterisation). -/
namespace Dask

/-- `xs` is a sub-multiset of `ys`: every element occurs in `ys` at least as often as in `xs` -/
def SubMultiset (xs ys : List α) : Prop := ∃ zs, (xs ++ zs).Perm ys

infix:50 " ⊆ₘ " => SubMultiset

namespace SubMultiset

theorem refl (xs : List α) : xs ⊆ₘ xs := ⟨[], by simp⟩

theorem of_perm {xs ys : List α} (h : xs.Perm ys) : xs ⊆ₘ ys := ⟨[], by simpa using h⟩

theorem nil (ys : List α) : ([] : List α) ⊆ₘ ys := ⟨ys, by simp⟩

theorem trans {xs ys ws : List α} (h1 : xs ⊆ₘ ys) (h2 : ys ⊆ₘ ws) : xs ⊆ₘ ws := by
  obtain ⟨z1, p1⟩ := h1
  obtain ⟨z2, p2⟩ := h2
  refine ⟨z1 ++ z2, ?_⟩
  rw [← List.append_assoc]
  exact (p1.append_right z2).trans p2

theorem length_le {xs ys : List α} (h : xs ⊆ₘ ys) : xs.length ≤ ys.length := by
  obtain ⟨zs, p⟩ := h
  have := p.length_eq
  simp only [List.length_append] at this
  omega

/-- the multiset reading: no element occurs more often in `xs` than in `ys` -/
theorem count_le [BEq α] [LawfulBEq α] {xs ys : List α} (h : xs ⊆ₘ ys) (a : α) : xs.count a ≤ ys.count a := by
  obtain ⟨zs, p⟩ := h
  have := p.count_eq a
  simp only [List.count_append] at this
  omega

theorem mem {xs ys : List α} (h : xs ⊆ₘ ys) {a : α} (ha : a ∈ xs) : a ∈ ys := by
  obtain ⟨zs, p⟩ := h
  exact p.subset (List.mem_append_left _ ha)

theorem take (n : Nat) (xs : List α) : xs.take n ⊆ₘ xs := ⟨xs.drop n, by rw [List.take_append_drop]⟩

theorem append {xs₁ ys₁ xs₂ ys₂ : List α} (h1 : xs₁ ⊆ₘ ys₁) (h2 : xs₂ ⊆ₘ ys₂) : xs₁ ++ xs₂ ⊆ₘ ys₁ ++ ys₂ := by
  obtain ⟨z1, p1⟩ := h1
  obtain ⟨z2, p2⟩ := h2
  refine ⟨z1 ++ z2, ?_⟩
  have : ((xs₁ ++ xs₂) ++ (z1 ++ z2)).Perm ((xs₁ ++ z1) ++ (xs₂ ++ z2)) := by
    rw [List.append_assoc, List.append_assoc]
    apply List.Perm.append_left
    rw [← List.append_assoc, ← List.append_assoc]
    exact List.Perm.append_right _ List.perm_append_comm
  exact this.trans (p1.append p2)

theorem append_right_of {xs ys : List α} (h : xs ⊆ₘ ys) (ws : List α) : xs ⊆ₘ ys ++ ws := by
  simpa using append h (nil ws)

theorem cons_of {xs ys : List α} (h : xs ⊆ₘ ys) (a : α) : xs ⊆ₘ a :: ys := by
  simpa using append (nil [a]) h

/-- overwriting one slot with `e` gives a sub-multiset of `e :: res` -/
theorem set_cons (res : List α) (s : Nat) (e : α) : res.set s e ⊆ₘ e :: res := by
  by_cases hs : s < res.length
  · refine ⟨[res[s]], ?_⟩
    rw [List.set_eq_take_append_cons_drop, if_pos hs]
    have h1 : (res.take s ++ e :: res.drop (s + 1) ++ [res[s]]).Perm (e :: (res.take s ++ res.drop (s + 1) ++ [res[s]])) := by
      rw [List.append_assoc, List.append_assoc]
      simpa using (List.perm_middle (a := e) (l₁ := res.take s) (l₂ := res.drop (s + 1) ++ [res[s]]))
    refine h1.trans (List.Perm.cons e ?_)
    have h2 : (res.take s ++ res.drop (s + 1) ++ [res[s]]).Perm (res.take s ++ res[s] :: res.drop (s + 1)) := by
      rw [List.append_assoc]
      exact List.Perm.append_left _ (List.perm_append_comm.trans (by simp))
    refine h2.trans ?_
    rw [← List.drop_eq_getElem_cons hs, List.take_append_drop]
  · rw [List.set_eq_of_length_le (by omega)]
    exact cons_of (refl res) e

end SubMultiset
end Dask
