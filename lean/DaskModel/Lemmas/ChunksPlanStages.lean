import DaskModel.Lemmas.ChunksPlanLemmas
import DaskModel.Lemmas.ChunksRechunk
/-! C23: `find_split_rechunk`, `find_merge_rechunk` and the `plan_rechunk` loop only ever produce valid
chunkings of the array's shape (`AllStage`), for every candidate order. -/
namespace Dask.Chunks

/-- `divide_to_width`: the chunks still add up, none exceeds `max_width`, positive chunks stay positive -/
theorem divideToWidth_spec {cs : List Nat} {w : Nat} {r : List Nat} (h : divideToWidth cs w = some r) :
    sum r = sum cs ∧ (∀ x ∈ r, x ≤ w) ∧ ((∀ c ∈ cs, 0 < c) → ∀ x ∈ r, 0 < x) := by
  unfold divideToWidth at h
  split at h
  · cases h
  · rename_i hw
    have hw : 0 < w := by omega
    injection h with h; subst h
    induction cs with
    | nil => simp [sum]
    | cons c cs ih =>
      simp only [List.flatMap_cons, sum_append, sum_cons]
      obtain ⟨i1, i2, i3⟩ := ih
      refine ⟨?_, ?_, ?_⟩
      · rw [i1]
        rcases Nat.eq_zero_or_pos c with hc | hc
        · subst hc; simp [ceilDiv, sum]
          have : (w - 1) / w = 0 := Nat.div_eq_of_lt (by omega)
          simp [this, divideOne]
        · rw [divideOne_sum _ _ (ceilDiv_pos c w hc hw)]
      · intro x hx
        rcases List.mem_append.1 hx with hx | hx
        · exact divideOne_le _ c w (ceilDiv_mul_ge c w hw) x hx
        · exact i2 x hx
      · intro hpos x hx
        rcases List.mem_append.1 hx with hx | hx
        · exact divideOne_pos _ c (ceilDiv_le_self c w hw) x hx
        · exact i3 (fun c hc => hpos c (List.mem_cons_of_mem _ hc)) x hx

theorem StageOK.pos {n : Nat} {cs : List Nat} (h : StageOK n cs) : 0 < n := by
  obtain ⟨h1, h2, h3⟩ := h
  rw [← h3]; exact sum_pos_of_mem h2 h1

theorem stage_of_sum {n : Nat} {r : List Nat} (hs : sum r = n) (hp : ∀ x ∈ r, 0 < x) (hn : 0 < n) : StageOK n r := by
  refine ⟨?_, hp, hs⟩
  intro h; subst h; simp [sum] at hs; omega

/-- one valid chunking per dimension of `shape` -/
def AllStage : List Nat → List (List Nat) → Prop
  | [], [] => True
  | n :: ns, c :: cs => StageOK n c ∧ AllStage ns cs
  | _, _ => False

theorem AllStage.length : ∀ {shape : List Nat} {chunks : List (List Nat)}, AllStage shape chunks → chunks.length = shape.length
  | [], [], _ => rfl
  | _ :: _, [], h => by simp [AllStage] at h
  | [], _ :: _, h => by simp [AllStage] at h
  | _ :: ns, _ :: cs, h => by simp [AllStage.length h.2]

theorem AllStage.append : ∀ {s1 s2 : List Nat} {c1 c2 : List (List Nat)}, AllStage s1 c1 → AllStage s2 c2 →
    AllStage (s1 ++ s2) (c1 ++ c2)
  | [], _, [], _, _, h2 => by simpa using h2
  | _ :: _, _, [], _, h1, _ => by simp [AllStage] at h1
  | [], _, _ :: _, _, h1, _ => by simp [AllStage] at h1
  | _ :: _, _, _ :: _, _, h1, h2 => ⟨h1.1, AllStage.append h1.2 h2⟩

theorem AllStage.set : ∀ {shape : List Nat} {chunks : List (List Nat)} {d : Nat} {c : List Nat}, AllStage shape chunks →
    (∀ n, shape[d]? = some n → StageOK n c) → AllStage shape (chunks.set d c)
  | [], [], _, _, _, _ => by simp [AllStage]
  | _ :: _, [], _, _, h, _ => by simp [AllStage] at h
  | [], _ :: _, _, _, h, _ => by simp [AllStage] at h
  | n :: ns, x :: xs, 0, c, h, hc => by
    simp only [List.set_cons_zero]
    exact ⟨hc n (by simp), h.2⟩
  | n :: ns, x :: xs, d + 1, c, h, hc => by
    simp only [List.set_cons_succ]
    exact ⟨h.1, AllStage.set h.2 (fun m hm => hc m (by simpa using hm))⟩

theorem AllStage.getD : ∀ {shape : List Nat} {chunks : List (List Nat)} {d n : Nat}, AllStage shape chunks →
    shape[d]? = some n → StageOK n (chunks.getD d [])
  | [], [], _, _, _, hn => by simp at hn
  | _ :: _, [], _, _, h, _ => by simp [AllStage] at h
  | [], _ :: _, _, _, h, _ => by simp [AllStage] at h
  | m :: ns, x :: xs, 0, n, h, hn => by
    simp at hn; subst hn; simpa using h.1
  | m :: ns, x :: xs, d + 1, n, h, hn => by
    have := AllStage.getD (d := d) h.2 (by simpa using hn)
    simpa using this

/-! ### `find_split_rechunk` -/

theorem splitDim_valid {n : Nat} {oldc newc c : List Nat} {gs limit : Nat} (ho : StageOK n oldc) (hn : StageOK n newc)
    (h : splitDim oldc newc gs limit = .ok c) : StageOK n c := by
  unfold splitDim at h
  split at h
  · simp at h; subst h; exact ho
  · split at h
    · simp at h
    · simp only at h
      cases hm : mergeToNumberFull newc (oldc.length * limit / gs) with
      | error e => simp [hm] at h
      | ok c' =>
        simp only [hm] at h
        split at h
        · simp at h
        · split at h
          · simp at h; subst h
            obtain ⟨a1, a2, _, _⟩ := mergeToNumberFull_spec hm
            exact stage_of_sum (by rw [a1]; exact hn.2.2) (a2 hn.2.1) hn.pos
          · simp at h; subst h; exact ho

theorem findSplitGo_valid (limit : Nat) (new : List (List Nat)) :
    ∀ (os dn ns : List (List Nat)) (s1 s2 : List Nat) (r : List (List Nat)),
      AllStage s1 dn → AllStage s2 os → AllStage s2 ns → findSplitGo limit new dn os ns = .ok r → AllStage (s1 ++ s2) r
  | [], dn, ns, s1, s2, r, h1, h2, _, h => by
    cases s2 with
    | nil => simp [findSplitGo] at h; subst h; simpa using h1
    | cons _ _ => simp [AllStage] at h2
  | o :: os, dn, [], s1, s2, r, h1, h2, _, h => by
    simp [findSplitGo] at h; subst h; exact AllStage.append h1 h2
  | o :: os, dn, n :: ns, s1, s2, r, h1, h2, h3, h => by
    cases s2 with
    | nil => simp [AllStage] at h2
    | cons m ms =>
      rw [findSplitGo] at h
      split at h
      · simp at h; subst h; exact AllStage.append h1 h2
      · cases hs : splitDim o n (estimateGraphSize (dn ++ o :: os) new) limit with
        | error e => simp [hs] at h
        | ok c =>
          simp only [hs] at h
          have hc := splitDim_valid h2.1 h3.1 hs
          have h1' : AllStage (s1 ++ [m]) (dn ++ [c]) := AllStage.append h1 ⟨hc, trivial⟩
          have := findSplitGo_valid limit new os (dn ++ [c]) ns (s1 ++ [m]) ms r h1' h2.2 h3.2 h
          simpa using this

theorem findSplit_valid {shape : List Nat} {old new r : List (List Nat)} {limit : Nat} (ho : AllStage shape old)
    (hn : AllStage shape new) (h : findSplit old new limit = .ok r) : AllStage shape r := by
  have := findSplitGo_valid limit new old [] new [] shape r trivial ho hn h
  simpa using this

/-! ### `find_merge_rechunk` -/

theorem mergeDimPartial_valid {shape : List Nat} {Lnum den dim : Nat} {oldc newc : List Nat} {st st' : MState}
    (hn : ∀ n, shape[dim]? = some n → StageOK n newc) (hs : AllStage shape st.chunks)
    (h : mergeDimPartial Lnum den oldc newc st dim = .ok st') : AllStage shape st'.chunks := by
  unfold mergeDimPartial at h
  split at h
  · simp at h
  · cases hd : divideToWidth newc (chunkLimit Lnum den (maxL oldc) st.lbs) with
    | none => simp [hd] at h
    | some c =>
      simp only [hd] at h
      split at h
      · split at h
        · simp at h
        · simp at h; subst h
          simp only
          refine AllStage.set hs ?_
          intro n hn'
          have hN := hn n hn'
          obtain ⟨a1, _, a3⟩ := divideToWidth_spec hd
          exact stage_of_sum (by rw [a1]; exact hN.2.2) (a3 hN.2.1) hN.pos
      · simp at h; subst h; exact hs

theorem mergeDim_valid {shape : List Nat} {Lnum den dim : Nat} {old new : List (List Nat)} {st st' : MState}
    (hn : AllStage shape new) (hs : AllStage shape st.chunks)
    (h : mergeDim Lnum den old new st dim = .ok st') : AllStage shape st'.chunks := by
  unfold mergeDim at h
  simp only at h
  have hN : ∀ n, shape[dim]? = some n → StageOK n (new.getD dim []) := fun n hn' => AllStage.getD hn hn'
  split at h
  · simp at h; subst h
    exact AllStage.set hs hN
  · exact mergeDimPartial_valid hN hs h

theorem mergeDims_valid {shape : List Nat} {Lnum den : Nat} {old new : List (List Nat)} (hn : AllStage shape new) :
    ∀ (order : List Nat) (st st' : MState), AllStage shape st.chunks →
      mergeDims Lnum den old new st order = .ok st' → AllStage shape st'.chunks
  | [], st, st', hs, h => by simp [mergeDims] at h; subst h; exact hs
  | d :: ds, st, st', hs, h => by
    rw [mergeDims] at h
    cases hd : mergeDim Lnum den old new st d with
    | error e => simp [hd] at h
    | ok st1 =>
      simp only [hd] at h
      exact mergeDims_valid hn ds st1 st' (mergeDim_valid hn hs hd) h

theorem findMerge_valid {shape : List Nat} {Lnum den : Nat} {old new c : List (List Nat)} {order : List Nat} {hit : Bool}
    (ho : AllStage shape old) (hn : AllStage shape new)
    (h : findMerge Lnum den old new order = .ok (c, hit)) : AllStage shape c := by
  unfold findMerge at h
  split at h
  · simp at h
  · cases hm : mergeDims Lnum den old new { chunks := old, lbs := largestBlockSize old, hit := false } order with
    | error e => simp [hm] at h
    | ok st =>
      simp only [hm] at h
      split at h
      · simp at h
      · simp at h
        obtain ⟨rfl, _⟩ := h
        exact mergeDims_valid hn order _ st ho hm

/-! ### `plan_rechunk` -/

theorem planPass_valid {shape : List Nat} {thr Lnum den gs : Nat} {new cur c : List (List Nat)} {first hit : Bool}
    {ord : List Nat} (hc : AllStage shape cur) (hn : AllStage shape new)
    (h : planPass thr Lnum den new cur first gs ord = .ok (c, hit)) : AllStage shape c := by
  unfold planPass at h
  cases first with
  | true => simp at h; exact findMerge_valid hc hn h
  | false =>
    simp at h
    cases hs : findSplit cur new (gs * thr) with
    | error e => simp [hs] at h
    | ok c0 =>
      simp only [hs] at h
      exact findMerge_valid (findSplit_valid hc hn hs) hn h

/-- every stage of the plan is a valid chunking of the shape, and the plan ends with the target -/
def PlanOK (shape : List Nat) (new : List (List Nat)) (r : List (List (List Nat))) : Prop :=
  (∀ s ∈ r, AllStage shape s) ∧ r.getLast? = some new

theorem planOK_snoc {shape : List Nat} {new : List (List Nat)} {steps : List (List (List Nat))}
    (hs : ∀ s ∈ steps, AllStage shape s) (hn : AllStage shape new) : PlanOK shape new (steps ++ [new]) := by
  refine ⟨?_, by simp⟩
  intro s hs'
  rcases List.mem_append.1 hs' with h | h
  · exact hs s h
  · simp at h; subst h; exact hn

theorem planLoop_valid {shape : List Nat} {thr Lnum den gst : Nat} {new : List (List Nat)} (hn : AllStage shape new) :
    ∀ (orders : List (List Nat)) (cur : List (List Nat)) (first : Bool) (steps r : List (List (List Nat))),
      AllStage shape cur → (∀ s ∈ steps, AllStage shape s) →
      planLoop thr Lnum den gst new cur first orders steps = .ok r → PlanOK shape new r
  | [], cur, first, steps, r, _, hs, h => by
    rw [planLoop] at h
    split at h
    · simp at h; subst h; exact planOK_snoc hs hn
    · simp at h
  | ord :: ords, cur, first, steps, r, hc, hs, h => by
    rw [planLoop] at h
    split at h
    · simp at h; subst h; exact planOK_snoc hs hn
    · cases hp : planPass thr Lnum den new cur first (estimateGraphSize cur new) ord with
      | error e => simp [hp] at h
      | ok p =>
        obtain ⟨chunks, hit⟩ := p
        simp only [hp] at h
        have hv := planPass_valid hc hn hp
        have hs' : ∀ s ∈ (if chunks != cur then steps ++ [chunks] else steps), AllStage shape s := by
          intro s hs1
          split at hs1
          · rcases List.mem_append.1 hs1 with h1 | h1
            · exact hs s h1
            · simp at h1; subst h1; exact hv
          · exact hs s hs1
        split at h
        · simp at h; subst h; exact planOK_snoc hs hn
        · split at h
          · cases h; exact planOK_snoc hs' hn
          · exact planLoop_valid hn ords chunks false _ r hv hs' h

theorem planRechunk_valid {shape : List Nat} {old new : List (List Nat)} {itemsize thr limitBytes : Nat}
    {orders : List (List Nat)} {r : List (List (List Nat))} (ho : AllStage shape old) (hn : AllStage shape new)
    (h : planRechunk old new itemsize thr limitBytes orders = .ok r) : PlanOK shape new r := by
  unfold planRechunk at h
  split at h
  · simp at h; subst h
    exact ⟨by intro s hs; simp at hs; subst hs; exact hn, by simp⟩
  · exact planLoop_valid hn orders old true [] r ho (by simp) h

end Dask.Chunks
