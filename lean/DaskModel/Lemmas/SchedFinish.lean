import DaskModel.Lemmas.SchedBasic
/-! What `finish_task` / `release_data` do to each component of the state (post-state as a function
of the pre-state), under exactly the preconditions that keep Python from raising. -/
namespace Dask.Sched
variable {α : Type}

/-- the waiting entry of `j` after `key` finished -/
def waitingAfter (key : Key) (w : Option (List Key)) : Option (List Key) :=
  match w with
  | some w => if srem key w = [] then none else some (srem key w)
  | none => none

/-- `j` becomes ready when `key` finishes -/
def becomesReady (s : State α) (key j : Key) : Bool :=
  match s.waiting.get? j with
  | some w => decide (srem key w = [])
  | none => false

theorem finishDependents_spec (key : Key) (L : List Key) (s : State α)
    (hN : L.Nodup)
    (hpre : ∀ dep ∈ L, ∃ w, s.waiting.get? dep = some w ∧ key ∈ w) :
    ∃ s', finishDependents key L s = .ok s' ∧
      (∀ j, s'.waiting.get? j = if j ∈ L then waitingAfter key (s.waiting.get? j) else s.waiting.get? j) ∧
      s'.ready = (L.filter (becomesReady s key)).reverse ++ s.ready ∧
      s'.dependencies = s.dependencies ∧ s'.dependents = s.dependents ∧ s'.waitingData = s.waitingData ∧
      s'.cache = s.cache ∧ s'.running = s.running ∧ s'.finished = s.finished ∧ s'.released = s.released := by
  induction L generalizing s with
  | nil => exact ⟨s, rfl, by simp, by simp, rfl, rfl, rfl, rfl, rfl, rfl, rfl⟩
  | cons dep rest ih =>
    have hn := List.nodup_cons.mp hN
    obtain ⟨w, hw, hkw⟩ := hpre dep (by simp)
    unfold finishDependents
    simp only [hw, hkw, if_true]
    by_cases he : srem key w = []
    · simp only [he, if_true]
      let s1 : State α := { s with waiting := s.waiting.del dep, ready := dep :: s.ready }
      have hpre1 : ∀ d ∈ rest, ∃ w, s1.waiting.get? d = some w ∧ key ∈ w := by
        intro d hd
        obtain ⟨w', hw', hk'⟩ := hpre d (List.mem_cons_of_mem _ hd)
        have hne : dep ≠ d := fun e => hn.1 (e ▸ hd)
        exact ⟨w', by simp [s1, Map.get?_del, hne, hw'], hk'⟩
      obtain ⟨s', hs', hwait, hready, h1, h2, h3, h4, h5, h6, h7⟩ := ih s1 hn.2 hpre1
      refine ⟨s', hs', ?_, ?_, h1, h2, h3, h4, h5, h6, h7⟩
      · intro j
        rw [hwait j]
        by_cases hj : j ∈ rest
        · have hne : dep ≠ j := fun e => hn.1 (e ▸ hj)
          simp [hj, s1, Map.get?_del, hne]
        · by_cases hjd : j = dep
          · subst hjd
            simp [hj, s1, Map.get?_del, hw, waitingAfter, he]
          · have hne : dep ≠ j := fun e => hjd e.symm
            simp [hj, hjd, s1, Map.get?_del, hne]
      · rw [hready]
        have hbr : becomesReady s key dep = true := by simp [becomesReady, hw, he]
        have hfil : rest.filter (becomesReady s1 key) = rest.filter (becomesReady s key) := by
          apply List.filter_congr
          intro d hd
          have hne : dep ≠ d := fun e => hn.1 (e ▸ hd)
          simp [becomesReady, s1, Map.get?_del, hne]
        simp [hbr, hfil, s1]
    · simp only [he, if_false]
      let s1 : State α := { s with waiting := s.waiting.set dep (srem key w) }
      have hpre1 : ∀ d ∈ rest, ∃ w, s1.waiting.get? d = some w ∧ key ∈ w := by
        intro d hd
        obtain ⟨w', hw', hk'⟩ := hpre d (List.mem_cons_of_mem _ hd)
        have hne : dep ≠ d := fun e => hn.1 (e ▸ hd)
        exact ⟨w', by simp [s1, Map.get?_set, hne, hw'], hk'⟩
      obtain ⟨s', hs', hwait, hready, h1, h2, h3, h4, h5, h6, h7⟩ := ih s1 hn.2 hpre1
      refine ⟨s', hs', ?_, ?_, h1, h2, h3, h4, h5, h6, h7⟩
      · intro j
        rw [hwait j]
        by_cases hj : j ∈ rest
        · have hne : dep ≠ j := fun e => hn.1 (e ▸ hj)
          simp [hj, s1, Map.get?_set, hne]
        · by_cases hjd : j = dep
          · subst hjd
            simp [hj, s1, Map.get?_set, hw, waitingAfter, he]
          · have hne : dep ≠ j := fun e => hjd e.symm
            simp [hj, hjd, s1, Map.get?_set, hne]
      · rw [hready]
        have hbr : becomesReady s key dep = false := by simp [becomesReady, hw, he]
        have hfil : rest.filter (becomesReady s1 key) = rest.filter (becomesReady s key) := by
          apply List.filter_congr
          intro d hd
          have hne : dep ≠ d := fun e => hn.1 (e ▸ hd)
          simp [becomesReady, s1, Map.get?_set, hne]
        simp [hbr, hfil, s1]

/-- `release_data` succeeds when the waiting-data entry is empty (or absent) and the value is cached -/
theorem releaseData_spec (key : Key) (s : State α)
    (hwd : s.waitingData.get? key = some [] ∨ s.waitingData.get? key = none)
    (hc : s.cache.has key = true) :
    releaseData key s =
      .ok { s with waitingData := s.waitingData.del key, released := sadd key s.released, cache := s.cache.del key } ∨
    (s.waitingData.get? key = none ∧
      releaseData key s = .ok { s with released := sadd key s.released, cache := s.cache.del key }) := by
  unfold releaseData
  rcases hwd with h | h
  · left
    simp [h, hc]
  · right
    simp [h, hc]

/-- `dep` is released when `key` finishes -/
def releasedBy (results : List Key) (s : State α) (key dep : Key) : Bool :=
  match s.waitingData.get? dep with
  | some wd => decide (srem key wd = []) && decide (dep ∉ results)
  | none => false

def waitingDataAfter (results : List Key) (key dep : Key) (w : Option (List Key)) : Option (List Key) :=
  match w with
  | some wd => if srem key wd = [] ∧ dep ∉ results then none else some (srem key wd)
  | none => none

theorem finishDeps_spec (results : List Key) (key : Key) (L : List Key) (s : State α)
    (hN : L.Nodup)
    (hpre : ∀ dep ∈ L, ∃ wd, s.waitingData.get? dep = some wd ∧ key ∈ wd)
    (hcache : ∀ dep ∈ L, releasedBy results s key dep = true → s.cache.has dep = true) :
    ∃ s', finishDeps results key L s = .ok s' ∧
      (∀ j, s'.waitingData.get? j =
        if j ∈ L then waitingDataAfter results key j (s.waitingData.get? j) else s.waitingData.get? j) ∧
      (∀ j, j ∈ s'.released ↔ j ∈ s.released ∨ (j ∈ L ∧ releasedBy results s key j = true)) ∧
      (s.released.Nodup → s'.released.Nodup) ∧
      (∀ j, s'.cache.get? j = if j ∈ L ∧ releasedBy results s key j = true then none else s.cache.get? j) ∧
      s'.dependencies = s.dependencies ∧ s'.dependents = s.dependents ∧ s'.waiting = s.waiting ∧
      s'.ready = s.ready ∧ s'.running = s.running ∧ s'.finished = s.finished := by
  induction L generalizing s with
  | nil => exact ⟨s, rfl, by simp, by simp, id, by simp, rfl, rfl, rfl, rfl, rfl, rfl⟩
  | cons dep rest ih =>
    have hn := List.nodup_cons.mp hN
    obtain ⟨wd, hwd, hkwd⟩ := hpre dep (by simp)
    unfold finishDeps
    simp only [hwd, hkwd, if_true]
    by_cases he : srem key wd = [] ∧ dep ∉ results
    · -- released
      rw [if_pos he]
      have hrb : releasedBy results s key dep = true := by simp [releasedBy, hwd, he.1, he.2]
      have hc := hcache dep (by simp) hrb
      have hrel : releaseData dep { s with waitingData := s.waitingData.set dep (srem key wd) } =
          .ok { s with waitingData := (s.waitingData.set dep (srem key wd)).del dep, released := sadd dep s.released, cache := s.cache.del dep } := by
        unfold releaseData
        simp [Map.get?_set, he.1]
        exact hc
      rw [hrel]
      simp only []
      let s1 : State α :=
        { s with waitingData := (s.waitingData.set dep (srem key wd)).del dep, released := sadd dep s.released, cache := s.cache.del dep }
      have hwd1 : ∀ d, dep ≠ d → s1.waitingData.get? d = s.waitingData.get? d := by
        intro d hne
        simp [s1, Map.get?_del, Map.get?_set, hne]
      have hpre1 : ∀ d ∈ rest, ∃ wd, s1.waitingData.get? d = some wd ∧ key ∈ wd := by
        intro d hd
        obtain ⟨w', hw', hk'⟩ := hpre d (List.mem_cons_of_mem _ hd)
        have hne : dep ≠ d := fun e => hn.1 (e ▸ hd)
        exact ⟨w', by rw [hwd1 d hne]; exact hw', hk'⟩
      have hrb1 : ∀ d, dep ≠ d → releasedBy results s1 key d = releasedBy results s key d := by
        intro d hne
        simp [releasedBy, hwd1 d hne]
      have hcache1 : ∀ d ∈ rest, releasedBy results s1 key d = true → s1.cache.has d = true := by
        intro d hd hr
        have hne : dep ≠ d := fun e => hn.1 (e ▸ hd)
        rw [hrb1 d hne] at hr
        have := hcache d (List.mem_cons_of_mem _ hd) hr
        simpa [s1, Map.has, Map.get?_del, hne] using this
      obtain ⟨s', hs', hW, hR, hRN, hC, h1, h2, h3, h4, h5, h6⟩ := ih s1 hn.2 hpre1 hcache1
      refine ⟨s', hs', ?_, ?_, ?_, ?_, h1, h2, h3, h4, h5, h6⟩
      · intro j
        rw [hW j]
        by_cases hj : j ∈ rest
        · have hne : dep ≠ j := fun e => hn.1 (e ▸ hj)
          simp [hj, hwd1 j hne]
        · by_cases hjd : j = dep
          · subst hjd
            simp [hj, s1, Map.get?_del, hwd, waitingDataAfter, he.1, he.2]
          · have hne : dep ≠ j := fun e => hjd e.symm
            simp [hj, hjd, hwd1 j hne]
      · intro j
        rw [hR j]
        simp only [s1, mem_sadd, List.mem_cons]
        constructor
        · rintro ((h | h) | ⟨h, hr⟩)
          · exact Or.inr ⟨Or.inl h, h ▸ hrb⟩
          · exact Or.inl h
          · have hne : dep ≠ j := fun e => hn.1 (e ▸ h)
            exact Or.inr ⟨Or.inr h, by rw [← hrb1 j hne]; exact hr⟩
        · rintro (h | ⟨h | h, hr⟩)
          · exact Or.inl (Or.inr h)
          · exact Or.inl (Or.inl h)
          · have hne : dep ≠ j := fun e => hn.1 (e ▸ h)
            exact Or.inr ⟨h, by rw [hrb1 j hne]; exact hr⟩
      · intro hnd
        exact hRN (nodup_sadd hnd)
      · intro j
        rw [hC j]
        by_cases hjd : j = dep
        · subst hjd
          simp [hn.1, hrb, s1, Map.get?_del]
        · have hne : dep ≠ j := fun e => hjd e.symm
          simp [hjd, hrb1 j hne, s1, Map.get?_del, hne]
    · -- kept
      rw [if_neg he]
      simp only []
      have hrb : releasedBy results s key dep = false := by
        simp only [releasedBy, hwd]
        by_cases h1 : srem key wd = []
        · have : ¬ dep ∉ results := fun h2 => he ⟨h1, h2⟩
          simp [h1, this]
        · simp [h1]
      let s1 : State α := { s with waitingData := s.waitingData.set dep (srem key wd) }
      have hwd1 : ∀ d, dep ≠ d → s1.waitingData.get? d = s.waitingData.get? d := by
        intro d hne
        simp [s1, Map.get?_set, hne]
      have hpre1 : ∀ d ∈ rest, ∃ wd, s1.waitingData.get? d = some wd ∧ key ∈ wd := by
        intro d hd
        obtain ⟨w', hw', hk'⟩ := hpre d (List.mem_cons_of_mem _ hd)
        have hne : dep ≠ d := fun e => hn.1 (e ▸ hd)
        exact ⟨w', by rw [hwd1 d hne]; exact hw', hk'⟩
      have hrb1 : ∀ d, dep ≠ d → releasedBy results s1 key d = releasedBy results s key d := by
        intro d hne
        simp [releasedBy, hwd1 d hne]
      have hcache1 : ∀ d ∈ rest, releasedBy results s1 key d = true → s1.cache.has d = true := by
        intro d hd hr
        have hne : dep ≠ d := fun e => hn.1 (e ▸ hd)
        rw [hrb1 d hne] at hr
        exact hcache d (List.mem_cons_of_mem _ hd) hr
      obtain ⟨s', hs', hW, hR, hRN, hC, h1, h2, h3, h4, h5, h6⟩ := ih s1 hn.2 hpre1 hcache1
      refine ⟨s', hs', ?_, ?_, hRN, ?_, h1, h2, h3, h4, h5, h6⟩
      · intro j
        rw [hW j]
        by_cases hj : j ∈ rest
        · have hne : dep ≠ j := fun e => hn.1 (e ▸ hj)
          simp [hj, hwd1 j hne]
        · by_cases hjd : j = dep
          · subst hjd
            simp [hj, s1, Map.get?_set, hwd, waitingDataAfter, he]
          · have hne : dep ≠ j := fun e => hjd e.symm
            simp [hj, hjd, hwd1 j hne]
      · intro j
        rw [hR j]
        simp only [List.mem_cons]
        constructor
        · rintro (h | ⟨h, hr⟩)
          · exact Or.inl h
          · have hne : dep ≠ j := fun e => hn.1 (e ▸ h)
            exact Or.inr ⟨Or.inr h, by rw [← hrb1 j hne]; exact hr⟩
        · rintro (h | ⟨h | h, hr⟩)
          · exact Or.inl h
          · rw [h, hrb] at hr; exact absurd hr (by simp)
          · have hne : dep ≠ j := fun e => hn.1 (e ▸ h)
            exact Or.inr ⟨h, by rw [hrb1 j hne]; exact hr⟩
      · intro j
        rw [hC j]
        by_cases hjd : j = dep
        · subst hjd
          simp [hn.1, hrb, s1]
        · have hne : dep ≠ j := fun e => hjd e.symm
          simp [hjd, hrb1 j hne, s1]

end Dask.Sched
