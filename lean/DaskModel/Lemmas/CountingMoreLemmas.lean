import DaskModel.Lemmas.CountingLemmas
/-! More helper lemmas for C27: `uniqueSpec` spelled out (first index, multiplicity), `_bincount_agg` as a tree reduction. -/
namespace Dask.Counting
open Dask.Chunks

/-! ### NumPy's `return_index` / `return_counts` on the rows of a whole array -/

theorem cntOf_rowsOf (v : Nat) : ∀ (xs : List Nat) (off : Nat), cntOf (rowsOf off xs) v = xs.count v
  | [], _ => rfl
  | x :: t, off => by
    have ih := cntOf_rowsOf v t (off + 1)
    unfold cntOf at ih ⊢
    simp only [rowsOf, List.filter_cons]
    by_cases h : x = v
    · subst h; simp [sum_cons, ih]; omega
    · have h' : (x == v) = false := by simpa using h
      simp [h', ih, h]

theorem selIdx_rowsOf_ge (v : Nat) : ∀ (xs : List Nat) (off : Nat), ∀ i ∈ selIdx (rowsOf off xs) v, off ≤ i
  | [], _ => by simp [selIdx, rowsOf]
  | x :: t, off => by
    intro i hi
    have ih := selIdx_rowsOf_ge v t (off + 1)
    unfold selIdx at hi ih
    simp only [rowsOf, List.filter_cons] at hi
    split at hi
    · simp only [List.map_cons, List.mem_cons] at hi
      rcases hi with hi | hi
      · omega
      · have := ih i hi; omega
    · have := ih i hi; omega

theorem le_minList_of_all {m : Nat} : ∀ {l : List Nat}, l ≠ [] → (∀ i ∈ l, m ≤ i) → m ≤ minList l
  | [], h, _ => absurd rfl h
  | x :: t, _, h => by
    have e : minList (x :: t) = t.foldl min x := rfl
    rw [e, foldl_min_eq]
    split
    · exact h x (by simp)
    · rename_i hne
      have := le_minList_of_all hne (fun i hi => h i (by simp [hi]))
      have := h x (by simp)
      omega

theorem idxOf_rowsOf (v : Nat) : ∀ (xs : List Nat) (off : Nat), v ∈ xs → idxOf (rowsOf off xs) v = off + xs.idxOf v
  | [], _, h => by simp at h
  | x :: t, off, h => by
    have hsel : idxOf (rowsOf off (x :: t)) v = minList (selIdx (rowsOf off (x :: t)) v) := rfl
    rw [hsel]
    by_cases hx : x = v
    · subst hx
      have e : selIdx (rowsOf off (x :: t)) x = off :: selIdx (rowsOf (off + 1) t) x := by
        simp [selIdx, rowsOf]
      rw [e, List.idxOf_cons_self, Nat.add_zero]
      have e' : minList (off :: selIdx (rowsOf (off + 1) t) x) = (selIdx (rowsOf (off + 1) t) x).foldl min off := rfl
      rw [e', foldl_min_eq]
      split
      · rfl
      · rename_i hne
        have := le_minList_of_all hne (selIdx_rowsOf_ge x t (off + 1))
        omega
    · have hb : (x == v) = false := by simpa using hx
      have e : selIdx (rowsOf off (x :: t)) v = selIdx (rowsOf (off + 1) t) v := by
        simp [selIdx, rowsOf, hb]
      have hv : v ∈ t := by
        rcases List.mem_cons.1 h with h | h
        · exact absurd h.symm hx
        · exact h
      have ih := idxOf_rowsOf v t (off + 1) hv
      have hsel2 : idxOf (rowsOf (off + 1) t) v = minList (selIdx (rowsOf (off + 1) t) v) := rfl
      rw [e, ← hsel2, ih, List.idxOf_cons, hb]
      simp only [cond_false]; omega

/-- NumPy's answer spelled out: the sorted distinct values, each with its first position and its multiplicity -/
theorem uniqueSpec_eq (xs : List Nat) :
    uniqueSpec xs = (uniq xs).map (fun v => ⟨v, xs.idxOf v, xs.count v⟩) := by
  unfold uniqueSpec uniqueInternal
  have hv : (rowsOf 0 xs).map (·.value) = xs := by
    have : ∀ (l : List Nat) (off : Nat), (rowsOf off l).map (·.value) = l := by
      intro l
      induction l with
      | nil => intro _; rfl
      | cons a l ih => intro off; simp [rowsOf, ih]
    exact this xs 0
  rw [hv]
  apply List.map_congr_left
  intro v hv
  have hm : v ∈ xs := (mem_uniq v xs).1 hv
  rw [cntOf_rowsOf, idxOf_rowsOf v xs 0 hm, Nat.zero_add]

/-! ### `_bincount_agg` is a tree reduction -/

theorem getD_range_map (f : Nat → Nat) (n i : Nat) : ((List.range n).map f).getD i 0 = if i < n then f i else 0 := by
  rw [List.getD_eq_getElem?_getD, List.getElem?_map]
  by_cases h : i < n
  · rw [List.getElem?_range h, if_pos h]; rfl
  · rw [List.getElem?_eq_none (by simpa using h), if_neg h]; rfl

theorem getD_zero_of_length_le {l : List Nat} {i : Nat} (h : l.length ≤ i) : l.getD i 0 = 0 := by
  rw [List.getD_eq_getElem?_getD, List.getElem?_eq_none h]; rfl

theorem sum_zero_of_all_zero : ∀ (l : List Nat), (∀ x ∈ l, x = 0) → sum l = 0
  | [], _ => rfl
  | x :: t, h => by
    rw [sum_cons, h x (by simp), sum_zero_of_all_zero t (fun z hz => h z (by simp [hz]))]

theorem bincountAgg_length (bs : List (List Nat)) : (bincountAgg bs).length = maxList (bs.map List.length) := by
  simp [bincountAgg]

theorem bincountAgg_getD (bs : List (List Nat)) (i : Nat) : (bincountAgg bs).getD i 0 = sum (bs.map (fun b => b.getD i 0)) := by
  unfold bincountAgg
  rw [getD_range_map]
  split
  · rfl
  · rename_i h
    symm
    apply sum_zero_of_all_zero
    intro x hx
    obtain ⟨b, hb, rfl⟩ := List.mem_map.1 hx
    apply getD_zero_of_length_le
    have := le_maxList (List.mem_map_of_mem (f := List.length) hb)
    omega

theorem maxList_flatten : ∀ (ls : List (List Nat)), maxList (ls.map maxList) = maxList ls.flatten
  | [] => rfl
  | l :: ls => by
    rw [List.map_cons, maxList_cons, List.flatten_cons, maxList_append, maxList_flatten ls]

theorem sum_flatten : ∀ (ls : List (List Nat)), sum (ls.map sum) = sum ls.flatten
  | [] => rfl
  | l :: ls => by rw [List.map_cons, sum_cons, List.flatten_cons, sum_append, sum_flatten ls]

theorem list_ext_getD {a b : List Nat} (hl : a.length = b.length) (h : ∀ i, a.getD i 0 = b.getD i 0) : a = b := by
  apply List.ext_getElem hl
  intro i h1 h2
  have := h i
  rw [List.getD_eq_getElem?_getD, List.getD_eq_getElem?_getD, List.getElem?_eq_getElem h1, List.getElem?_eq_getElem h2] at this
  simpa using this

/-- aggregating groups of partial counts and then the group results is aggregating everything at once -/
theorem bincountAgg_tree (gs : List (List (List Nat))) : bincountAgg (gs.map bincountAgg) = bincountAgg gs.flatten := by
  apply list_ext_getD
  · rw [bincountAgg_length, bincountAgg_length, List.map_map]
    have : (List.length ∘ bincountAgg) = fun g => maxList (g.map List.length) := by
      funext g; simp [bincountAgg_length]
    rw [this, List.map_flatten, ← maxList_flatten, List.map_map]
    rfl
  · intro i
    rw [bincountAgg_getD, bincountAgg_getD, List.map_map]
    have : ((fun b : List Nat => b.getD i 0) ∘ bincountAgg) = fun g => sum (g.map (fun b => b.getD i 0)) := by
      funext g; exact bincountAgg_getD g i
    rw [this, List.map_flatten, ← sum_flatten, List.map_map]
    rfl

end Dask.Counting
