import DaskModel.Model.Align
import DaskModel.Lemmas.Join
import DaskModel.Lemmas.Truthful
/-! Lemmas for C39 (index joins on aligned divisions, interleaved concat): the interval class of a key, co-located
    partitions as classes of the flattened frame, right-only rows per class, stacking aligned frames. -/
set_option linter.unusedSimpArgs false
namespace Dask.Align
open Dask.Join Dask.Divs

/-! ### the interval a key belongs to -/

theorem filter_take_drop {α : Type} (p : α → Bool) (I : List α) (t : Nat) (h1 : ∀ x ∈ I.take t, p x = true)
    (h2 : ∀ x ∈ I.drop t, p x = false) (ht : t ≤ I.length) : (I.filter p).length = t := by
  conv => lhs; rw [← List.take_append_drop t I, List.filter_append]
  rw [List.filter_eq_self.mpr h1, List.filter_eq_nil_iff.mpr (by intro x hx; simp [h2 x hx])]
  simp [ht]

theorem interior_get (d : List Nat) (t : Nat) (ht : t + 2 < d.length + 0) : ((d.drop 1).dropLast)[t]? = d[t + 1]? := by
  rw [List.getElem?_dropLast]
  have : t < (d.drop 1).length - 1 := by simp; omega
  simp only [this, if_true, List.getElem?_drop, Nat.add_comm]

/-- a row of partition `p` of a frame that is truthful for `d` has class `p` -/
theorem classOf_truthful {α : Type} (key : α → Nat) (d : List Nat) (parts : List (List α)) (h : Truthful key d parts)
    (p : Nat) (P : List α) (hP : parts[p]? = some P) (r : α) (hr : r ∈ P) : classOf d (key r) = p := by
  obtain ⟨hlen, hs, hrows⟩ := h
  have hp : p < parts.length := (List.getElem?_eq_some_iff.mp hP).1
  have hd0 : p < d.length := by omega
  have hd1 : p + 1 < d.length := by omega
  obtain ⟨hlo, hhi⟩ := hrows p P d[p] d[p + 1] hP (List.getElem?_eq_getElem hd0) (List.getElem?_eq_getElem hd1) r hr
  unfold classOf
  have hIlen : ((d.drop 1).dropLast).length = d.length - 2 := by simp; omega
  apply filter_take_drop _ _ p
  · intro x hx
    obtain ⟨t, ht, rfl⟩ := List.getElem_of_mem hx
    have ht' : t < p := by simp only [List.length_take] at ht; omega
    rw [List.getElem_take]
    have hx' : ((d.drop 1).dropLast)[t]? = d[t + 1]? := interior_get d t (by omega)
    have ht2 : t + 1 < d.length := by omega
    have hval : ((d.drop 1).dropLast)[t]'(by rw [hIlen]; omega) = d[t + 1] := by
      have := hx'
      rw [List.getElem?_eq_getElem (by rw [hIlen]; omega), List.getElem?_eq_getElem ht2] at this
      exact Option.some.inj this
    rw [hval]
    have hle : d[t + 1] ≤ d[p] := by
      rcases Nat.lt_or_eq_of_le (show t + 1 ≤ p by omega) with hlt | heq
      · exact (List.pairwise_iff_getElem.mp hs) (t + 1) p ht2 hd0 hlt
      · simp [heq]
    simp only [decide_eq_true_eq]
    omega
  · intro x hx
    obtain ⟨t, ht, rfl⟩ := List.getElem_of_mem hx
    simp only [List.length_drop, hIlen] at ht
    rw [List.getElem_drop]
    have hpt : p + t + 2 < d.length := by omega
    have hx' : ((d.drop 1).dropLast)[p + t]? = d[p + t + 1]? := interior_get d (p + t) (by omega)
    have hval : ((d.drop 1).dropLast)[p + t]'(by rw [hIlen]; omega) = d[p + t + 1] := by
      have := hx'
      rw [List.getElem?_eq_getElem (by rw [hIlen]; omega), List.getElem?_eq_getElem (by omega)] at this
      exact Option.some.inj this
    rw [hval]
    -- p is not the last partition here, so the key is below d[p+1] ≤ d[p+t+1]
    have hlt : key r < d[p + 1] := by
      rcases hhi with h | ⟨h, _⟩
      · exact h
      · omega
    have hle : d[p + 1] ≤ d[p + t + 1] := by
      rcases Nat.lt_or_eq_of_le (show p + 1 ≤ p + t + 1 by omega) with hlt' | heq
      · exact (List.pairwise_iff_getElem.mp hs) (p + 1) (p + t + 1) hd1 (by omega) hlt'
      · simp [← heq]
    simp only [decide_eq_false_iff_not]
    omega
  · rw [hIlen]; omega

/-! ### co-located partitions are the classes of the flattened frame -/

theorem partBy_of_class (c : Nat → Nat) (p : Nat) (P : List Row) (h : ∀ r ∈ P, c r.1 = p) : partBy c p P = P := by
  unfold partBy
  exact List.filter_eq_self.mpr (by intro r hr; simp [h r hr])

theorem partBy_of_other (c : Nat → Nat) (p q : Nat) (hq : q ≠ p) (P : List Row) (h : ∀ r ∈ P, c r.1 = q) : partBy c p P = [] := by
  unfold partBy
  exact List.filter_eq_nil_iff.mpr (by intro r hr; simp [h r hr, hq])

theorem partBy_append (c : Nat → Nat) (p : Nat) (A B : List Row) : partBy c p (A ++ B) = partBy c p A ++ partBy c p B := by
  unfold partBy; rw [List.filter_append]

/-- if every row of partition `i + t` has class `i + t`, the class-`p` rows of the flattened frame are partition `p` -/
theorem partBy_flatten_from (c : Nat → Nat) (p : Nat) : ∀ (Ps : List (List Row)) (i : Nat),
    (∀ t P r, Ps[t]? = some P → r ∈ P → c r.1 = i + t) →
    partBy c p Ps.flatten = (if i ≤ p then ((Ps.drop (p - i)).take 1).flatten else [])
  | [], i, _ => by simp [partBy]
  | P :: Ps, i, h => by
    rw [List.flatten_cons, partBy_append]
    have hP : ∀ r ∈ P, c r.1 = i := by
      intro r hr; have := h 0 P r rfl hr; simpa using this
    have ih := partBy_flatten_from c p Ps (i + 1) (by
      intro t P' r hP' hr
      have := h (t + 1) P' r (by simpa using hP') hr
      omega)
    rw [ih]
    by_cases hip : i = p
    · subst hip
      rw [partBy_of_class c i P hP]
      have : ¬ i + 1 ≤ i := by omega
      simp [this]
    · rw [partBy_of_other c p i hip P hP, List.nil_append]
      by_cases hle : i + 1 ≤ p
      · have h1 : i ≤ p := by omega
        simp only [hle, h1, if_true]
        rw [show p - i = (p - (i + 1)) + 1 by omega, List.drop_succ_cons]
      · have h1 : ¬ i ≤ p := by omega
        simp [hle, h1]

theorem take_one_drop {α : Type} (Ps : List α) (p : Nat) (hp : p < Ps.length) : (Ps.drop p).take 1 = [Ps[p]] := by
  rw [List.drop_eq_getElem_cons hp]; rfl

theorem partBy_flatten (c : Nat → Nat) (Ps : List (List Row)) (h : ∀ t P r, Ps[t]? = some P → r ∈ P → c r.1 = t)
    (p : Nat) (hp : p < Ps.length) : Ps[p]? = some (partBy c p Ps.flatten) := by
  rw [partBy_flatten_from c p Ps 0 (by simpa using h)]
  simp only [Nat.zero_le, if_true, Nat.sub_zero, take_one_drop Ps p hp, List.flatten_cons, List.flatten_nil, List.append_nil]
  exact List.getElem?_eq_getElem hp

/-! ### outer / right joins on co-located partitions -/

theorem part_eq_partBy_lt (c : Nat → Nat) (n p : Nat) (hc : ∀ k, c k < n) (xs : List Row) : part c n p xs = partBy c p xs := by
  unfold part partBy
  apply List.filter_congr
  intro x _
  rw [Nat.mod_eq_of_lt (hc x.1)]

theorem rightOnly_partBy (c : Nat → Nat) (n p : Nat) (hc : ∀ k, c k < n) (L R : List Row) :
    rightOnly (partBy c p L) (partBy c p R) = (rightOnly L R).filter fun o => c o.1 == p := by
  rw [← part_eq_partBy_lt c n p hc L, ← part_eq_partBy_lt c n p hc R, rightOnly_part c n p L R]
  apply List.filter_congr
  intro o _
  rw [Nat.mod_eq_of_lt (hc o.1)]

theorem classes_rightOnly_perm (c : Nat → Nat) (n : Nat) (hc : ∀ k, c k < n) (L R : List Row) :
    ((List.range n).flatMap fun p => rightOnly (partBy c p L) (partBy c p R)).Perm (rightOnly L R) := by
  have : (fun p => rightOnly (partBy c p L) (partBy c p R)) =
      fun p => (rightOnly L R).filter fun o => (fun o : Out => c o.1) o == p := by
    funext p; exact rightOnly_partBy c n p hc L R
  rw [this]
  exact classes_perm (fun o : Out => c o.1) n _ (fun o _ => hc o.1)

/-! ### concat(interleave_partitions=True) on aligned frames -/

theorem zipWith_append_flatten_perm {α : Type} : ∀ (A B : List (List α)), A.length = B.length →
    (List.zipWith (· ++ ·) A B).flatten.Perm (A.flatten ++ B.flatten)
  | [], [], _ => List.Perm.refl _
  | [], _ :: _, h => by simp at h
  | _ :: _, [], h => by simp at h
  | a :: A, b :: B, h => by
    simp only [List.zipWith_cons_cons, List.flatten_cons]
    have ih := zipWith_append_flatten_perm A B (by simpa using h)
    -- (a ++ b) ++ Z ~ a ++ A' ++ (b ++ B')
    refine (List.Perm.append_left _ ih).trans ?_
    rw [List.append_assoc, List.append_assoc]
    refine List.Perm.append_left _ ?_
    rw [← List.append_assoc, ← List.append_assoc]
    exact List.Perm.append_right _ List.perm_append_comm

theorem truthful_zipWith_append {α : Type} (key : α → Nat) (d : List Nat) (A B : List (List α))
    (hA : Truthful key d A) (hB : Truthful key d B) : Truthful key d (List.zipWith (· ++ ·) A B) := by
  obtain ⟨hAl, hs, hAr⟩ := hA
  obtain ⟨hBl, _, hBr⟩ := hB
  refine ⟨by simp; omega, hs, ?_⟩
  intro i p lo hi hp hlo hhi r hr
  rw [List.getElem?_zipWith] at hp
  cases hAi : A[i]? with
  | none => simp [hAi] at hp
  | some a =>
    cases hBi : B[i]? with
    | none => simp [hAi, hBi] at hp
    | some b =>
      simp only [hAi, hBi, Option.map_some, Option.bind_some, Option.some.injEq] at hp
      subst hp
      have hlen : (List.zipWith (fun x1 x2 => x1 ++ x2) A B).length = A.length := by simp; omega
      rcases List.mem_append.mp hr with h | h
      · have := hAr i a lo hi hAi hlo hhi r h
        rw [hlen]; exact this
      · have := hBr i b lo hi hBi hlo hhi r h
        rw [hlen, show A.length = B.length by omega]; exact this

theorem truthful_replicate_nil {α : Type} (key : α → Nat) (d : List Nat) (n : Nat) (hn : n + 1 = d.length)
    (hs : d.Pairwise (· ≤ ·)) : Truthful key d (List.replicate n ([] : List α)) := by
  refine ⟨by simpa using hn, hs, ?_⟩
  intro i p lo hi hp _ _ r hr
  rw [List.getElem?_replicate] at hp
  split at hp
  · cases hp; simp at hr
  · simp at hp

end Dask.Align
