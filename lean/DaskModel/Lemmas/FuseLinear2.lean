import DaskModel.Lemmas.FuseLinear1
/-! `fuse_linear_task_spec`: the invariant of the main loop and how each kind of update preserves it. -/
namespace Dask.TaskTerm

theorem setKey_append {α : Type} : ∀ (g : List (Obj × α)) (k : Obj) (v : α), g.lookup k = none →
    setKey g k v = g ++ [(k, v)]
  | [], k, v, _ => rfl
  | (k', v') :: rest, k, v, h => by
    simp only [List.lookup] at h
    split at h
    · cases h
    · rename_i hne
      have hne' : (k' == k) = false := by
        rw [Bool.eq_false_iff]; intro hc
        have := eq_of_beq hc; subst this; simp at hne
      simp [setKey, hne', setKey_append rest k v h]

theorem innerKeysOf_append (a b : FGraph) : innerKeysOf (a ++ b) = innerKeysOf a ++ innerKeysOf b := by
  unfold innerKeysOf; simp [List.flatMap_append]

/-- the invariant of `for key in dsk:`; `pending` = the members of the chain that is being collected (seen, not yet in
    `result`) -/
structure FLInv (g : NGraph) (req : List Obj) (st : FuseSt) (pending : List Obj) : Prop where
  resNodup : (st.result.map Prod.fst).Nodup
  pendSeen : ∀ k ∈ pending, k ∈ st.seen
  resKeys : ∀ k, (st.result.lookup k).isSome → (k ∈ st.seen ∧ k ∉ pending) ∨ g.lookup k = none
  plainOK : ∀ k n, st.result.lookup k = some (.plain n) → PlainEntryOK g st.result k n
  fusedOK : ∀ k inner top ext, st.result.lookup k = some (.fused inner top ext) →
    FusedEntryOK g req st.result k inner top ext
  cover : ∀ k n, g.lookup k = some n → k ∈ st.seen → k ∉ pending →
    st.result.lookup k = some (.plain n) ∨ k ∈ innerKeysOf st.result
  innerSeen : ∀ k ∈ innerKeysOf st.result, k ∈ st.seen ∧ k ∉ pending
  disjoint : (innerKeysOf st.result).Nodup
  reqKept : ∀ k ∈ req, k ∈ st.seen → k ∉ pending → (g.lookup k).isSome → (st.result.lookup k).isSome

/-- a key that is pending or not yet seen is not a key of `result` (if it is a key of the graph) -/
theorem FLInv.not_in_result {g : NGraph} {req : List Obj} {st : FuseSt} {P : List Obj} (hi : FLInv g req st P)
    {x : Obj} (hx : x ∈ P ∨ x ∉ st.seen) (hg : (g.lookup x).isSome) : st.result.lookup x = none := by
  cases hl : st.result.lookup x with
  | none => rfl
  | some fn =>
    exfalso
    rcases hi.resKeys x (by simp [hl]) with ⟨h1, h2⟩ | h
    · rcases hx with hx | hx
      · exact h2 hx
      · exact hx h1
    · rw [h] at hg; cases hg

/-- a new key is seen and joins the pending chain -/
theorem FLInv.see_pending {g : NGraph} {req : List Obj} {st : FuseSt} {P : List Obj} (hi : FLInv g req st P)
    {x : Obj} (hx : x ∉ st.seen) : FLInv g req { st with seen := x :: st.seen } (x :: P) := by
  refine ⟨hi.resNodup, ?_, ?_, hi.plainOK, hi.fusedOK, ?_, ?_, hi.disjoint, ?_⟩
  · intro k hk
    rcases List.mem_cons.mp hk with rfl | hk
    · simp
    · exact List.mem_cons_of_mem _ (hi.pendSeen k hk)
  · intro k hk
    rcases hi.resKeys k hk with ⟨h1, h2⟩ | h
    · left
      refine ⟨List.mem_cons_of_mem _ h1, ?_⟩
      intro hc
      rcases List.mem_cons.mp hc with rfl | hc
      · exact hx h1
      · exact h2 hc
    · exact Or.inr h
  · intro k n hg hs hp
    have hkx : k ≠ x := fun e => hp (e ▸ List.mem_cons_self)
    have hs' : k ∈ st.seen := by
      rcases List.mem_cons.mp hs with rfl | h
      · exact absurd rfl hkx
      · exact h
    exact hi.cover k n hg hs' (fun hc => hp (List.mem_cons_of_mem _ hc))
  · intro k hk
    obtain ⟨h1, h2⟩ := hi.innerSeen k hk
    refine ⟨List.mem_cons_of_mem _ h1, ?_⟩
    intro hc
    rcases List.mem_cons.mp hc with rfl | hc
    · exact hx h1
    · exact h2 hc
  · intro k hk hs hp hg
    have hkx : k ≠ x := fun e => hp (e ▸ List.mem_cons_self)
    have hs' : k ∈ st.seen := by
      rcases List.mem_cons.mp hs with rfl | h
      · exact absurd rfl hkx
      · exact h
    exact hi.reqKept k hk hs' (fun hc => hp (List.mem_cons_of_mem _ hc)) hg

/-- a key that is not a key of the graph is seen (a dependency on a key outside the graph) -/
theorem FLInv.see_external {g : NGraph} {req : List Obj} {st : FuseSt} {P : List Obj} (hi : FLInv g req st P)
    {x : Obj} (hx : x ∉ st.seen) (hg : g.lookup x = none) : FLInv g req { st with seen := x :: st.seen } P := by
  refine ⟨hi.resNodup, fun k hk => List.mem_cons_of_mem _ (hi.pendSeen k hk), ?_, hi.plainOK, hi.fusedOK, ?_, ?_,
    hi.disjoint, ?_⟩
  · intro k hk
    rcases hi.resKeys k hk with ⟨h1, h2⟩ | h
    · exact Or.inl ⟨List.mem_cons_of_mem _ h1, h2⟩
    · exact Or.inr h
  · intro k n hgk hs hp
    rcases List.mem_cons.mp hs with rfl | h
    · rw [hg] at hgk; cases hgk
    · exact hi.cover k n hgk h hp
  · intro k hk
    obtain ⟨h1, h2⟩ := hi.innerSeen k hk
    exact ⟨List.mem_cons_of_mem _ h1, h2⟩
  · intro k hk hs hp hgk
    rcases List.mem_cons.mp hs with rfl | h
    · rw [hg] at hgk; cases hgk
    · exact hi.reqKept k hk h hp hgk

/-- lookups after appending an entry under a key that was not in `result` -/
theorem lookup_setKey_new {res : FGraph} {x : Obj} {fn : FNode} (k : Obj) :
    (setKey res x fn).lookup k = if k == x then some fn else res.lookup k := lookup_setKey x fn res k

/-- `PlainEntryOK` / `FusedEntryOK` survive appending an entry whose key is neither in `result` nor mentioned by them -/
theorem PlainEntryOK.mono {g : NGraph} {res res' : FGraph} {k : Obj} {n : Node} (h : PlainEntryOK g res k n)
    (hst : ∀ y fn, res.lookup y = some fn → res'.lookup y = some fn) : PlainEntryOK g res' k n := by
  rcases h with h | ⟨nk, inner, ext, h1, h2, h3⟩
  · exact Or.inl h
  · exact Or.inr ⟨nk, inner, ext, h1, h2, hst nk _ h3⟩

theorem FusedEntryOK.mono {g : NGraph} {req : List Obj} {res res' : FGraph} {k : Obj} {inner : NGraph} {top : Obj}
    {ext : List Obj} (h : FusedEntryOK g req res k inner top ext)
    (hst : ∀ y fn, res.lookup y = some fn → res'.lookup y = some fn)
    (hnone : ∀ c ∈ inner.map Prod.fst, c ≠ top → res'.lookup c = none) : FusedEntryOK g req res' k inner top ext := by
  refine ⟨h.innerSub, h.innerNodup, h.topIn, ?_, h.extOK, ?_⟩
  · rcases h.keyOK with h1 | ⟨h1, h2, h3⟩
    · exact Or.inl h1
    · exact Or.inr ⟨h1, h2, hst top _ h3⟩
  · intro c hc hct
    obtain ⟨p1, _, p3⟩ := h.priv c hc hct
    exact ⟨p1, hnone c hc hct, p3⟩

/-- a pending or unseen key of the graph gets its own, unchanged entry -/
theorem FLInv.add_plain {g : NGraph} {req : List Obj} {st : FuseSt} {P : List Obj} (hi : FLInv g req st P)
    {x : Obj} {n : Node} (hxs : x ∈ st.seen) (hxP : x ∈ P) (hg : g.lookup x = some n) :
    FLInv g req { st with result := setKey st.result x (.plain n) } (P.filter fun y => !(y == x)) := by
  have hnr : st.result.lookup x = none := hi.not_in_result (Or.inl hxP) (by simp [hg])
  have happ : setKey st.result x (.plain n) = st.result ++ [(x, .plain n)] := setKey_append _ _ _ hnr
  have hst : ∀ y fn, st.result.lookup y = some fn → (setKey st.result x (FNode.plain n)).lookup y = some fn := by
    intro y fn hy
    rw [lookup_setKey]
    have : (y == x) = false := by
      rw [Bool.eq_false_iff]; intro hc
      have := eq_of_beq hc; subst this
      rw [hnr] at hy; cases hy
    simp [this, hy]
  have hinner : innerKeysOf (setKey st.result x (FNode.plain n)) = innerKeysOf st.result := by
    rw [happ, innerKeysOf_append]; simp [innerKeysOf, FNode.innerKeys]
  have hPf : ∀ k, k ∈ P.filter (fun y => !(y == x)) ↔ k ∈ P ∧ k ≠ x := by
    intro k; simp [List.mem_filter]
  refine ⟨?_, ?_, ?_, ?_, ?_, ?_, ?_, ?_, ?_⟩
  · show ((setKey st.result x (FNode.plain n)).map Prod.fst).Nodup
    rw [keys_setKey]
    have : x ∉ st.result.map Prod.fst := fun hc => by
      have := lookup_isSome_of_mem st.result x hc
      rw [hnr] at this; cases this
    rw [if_neg this]
    exact List.nodup_append.mpr ⟨hi.resNodup, by simp, fun a ha b hb => by
      simp only [List.mem_singleton] at hb; subst hb; intro e; subst e; exact this ha⟩
  · intro k hk; exact hi.pendSeen k ((hPf k).mp hk).1
  · intro k hk
    show (k ∈ st.seen ∧ k ∉ P.filter _) ∨ _
    rw [lookup_setKey] at hk
    by_cases hkx : (k == x) = true
    · have : k = x := eq_of_beq hkx
      subst this
      exact Or.inl ⟨hxs, fun hc => ((hPf k).mp hc).2 rfl⟩
    · have hkx' : (k == x) = false := by simpa using hkx
      simp only [hkx', Bool.false_eq_true, if_false] at hk
      rcases hi.resKeys k hk with ⟨h1, h2⟩ | h
      · exact Or.inl ⟨h1, fun hc => h2 ((hPf k).mp hc).1⟩
      · exact Or.inr h
  · intro k m hk
    show PlainEntryOK g (setKey st.result x (FNode.plain n)) k m
    rw [lookup_setKey] at hk
    by_cases hkx : (k == x) = true
    · have : k = x := eq_of_beq hkx
      subst this
      simp only [beq_self_eq_true, if_true, Option.some.injEq, FNode.plain.injEq] at hk
      subst hk
      exact Or.inl hg
    · have hkx' : (k == x) = false := by simpa using hkx
      simp only [hkx', Bool.false_eq_true, if_false] at hk
      exact (hi.plainOK k m hk).mono hst
  · intro k inner top ext hk
    show FusedEntryOK g req (setKey st.result x (FNode.plain n)) k inner top ext
    rw [lookup_setKey] at hk
    by_cases hkx : (k == x) = true
    · simp [hkx] at hk
    · have hkx' : (k == x) = false := by simpa using hkx
      simp only [hkx', Bool.false_eq_true, if_false] at hk
      have hf := hi.fusedOK k inner top ext hk
      refine hf.mono hst ?_
      intro c hc hct
      rw [lookup_setKey]
      have hcin : c ∈ innerKeysOf st.result := by
        unfold innerKeysOf
        exact List.mem_flatMap.mpr ⟨(k, .fused inner top ext), mem_of_lookup _ _ _ hk, hc⟩
      have hcx : (c == x) = false := by
        rw [Bool.eq_false_iff]; intro he
        have := eq_of_beq he; subst this
        exact (hi.innerSeen c hcin).2 hxP
      simp only [hcx, Bool.false_eq_true, if_false]
      exact (hf.priv c hc hct).2.1
  · intro k m hgk hs hp
    show (setKey st.result x (FNode.plain n)).lookup k = some (.plain m) ∨ k ∈ innerKeysOf (setKey st.result x (FNode.plain n))
    rw [hinner]
    by_cases hkx : k = x
    · subst hkx
      rw [hg] at hgk; cases hgk
      left; rw [lookup_setKey]; simp
    · have hkP : k ∉ P := fun hc => hp ((hPf k).mpr ⟨hc, hkx⟩)
      rcases hi.cover k m hgk hs hkP with h | h
      · exact Or.inl (hst k _ h)
      · exact Or.inr h
  · intro k hk
    show k ∈ st.seen ∧ k ∉ P.filter _
    rw [hinner] at hk
    obtain ⟨h1, h2⟩ := hi.innerSeen k hk
    exact ⟨h1, fun hc => h2 ((hPf k).mp hc).1⟩
  · show (innerKeysOf (setKey st.result x (FNode.plain n))).Nodup
    rw [hinner]; exact hi.disjoint
  · intro k hk hs hp hgk
    show ((setKey st.result x (FNode.plain n)).lookup k).isSome
    by_cases hkx : k = x
    · subst hkx; rw [lookup_setKey]; simp
    · have hkP : k ∉ P := fun hc => hp ((hPf k).mpr ⟨hc, hkx⟩)
      have := hi.reqKept k hk hs hkP hgk
      cases hl : st.result.lookup k with
      | none => rw [hl] at this; cases this
      | some fn => rw [hst k fn hl]; rfl

end Dask.TaskTerm
