import DaskModel.Model.SDL
/-! Helper lemmas for C45: `bisectLeft` on sorted lists, `dedupSorted`, first-occurrence positions,
    and the loop invariant of `sorted_division_locations`. Core Lean only. -/
namespace Dask.SDL

/-- the input of `sorted_division_locations` is sorted (non-decreasing) -/
def Sorted (xs : List Nat) : Prop := xs.Pairwise (· ≤ ·)

/-- position `l` holds the first occurrence of its value: everything before it is strictly smaller -/
def FirstOcc (seq : List Nat) (l : Nat) : Prop :=
  ∃ v, seq[l]? = some v ∧ ∀ j, j < l → ∃ w, seq[j]? = some w ∧ w < v

/-- `bisectLeft` finds a boundary: everything before it is `< x`. -/
theorem bisectLeft_lt (xs : List Nat) (x : Nat) (j : Nat) (h : j < bisectLeft xs x) :
    ∃ v, xs[j]? = some v ∧ v < x := by
  unfold bisectLeft at h
  induction xs generalizing j with
  | nil => simp at h
  | cons a as ih =>
    simp only [List.takeWhile_cons] at h
    split at h
    · rename_i ha
      cases j with
      | zero => exact ⟨a, by simp, by simpa using ha⟩
      | succ j =>
        simp only [List.length_cons, Nat.add_lt_add_iff_right] at h
        obtain ⟨v, hv, hlt⟩ := ih j h
        exact ⟨v, by simpa using hv, hlt⟩
    · simp at h

/-- …and the element at the boundary (if any) is `≥ x`: no value equal to `x` lies before it. -/
theorem bisectLeft_ge (xs : List Nat) (x : Nat) (v : Nat) (h : xs[bisectLeft xs x]? = some v) : x ≤ v := by
  unfold bisectLeft at h
  induction xs with
  | nil => simp at h
  | cons a as ih =>
    simp only [List.takeWhile_cons] at h
    split at h
    · simp only [List.length_cons, List.getElem?_cons_succ] at h
      exact ih h
    · rename_i ha
      simp at h
      subst h
      simpa using ha

theorem bisectLeft_le_length (xs : List Nat) (x : Nat) : bisectLeft xs x ≤ xs.length := by
  unfold bisectLeft
  exact (List.takeWhile_sublist _).length_le

theorem sorted_get_le {xs : List Nat} (hs : Sorted xs) {i j a b : Nat} (hij : i ≤ j)
    (ha : xs[i]? = some a) (hb : xs[j]? = some b) : a ≤ b := by
  rcases Nat.eq_or_lt_of_le hij with h | h
  · subst h; rw [ha] at hb; cases hb; exact Nat.le_refl _
  · obtain ⟨hi, rfl⟩ := List.getElem?_eq_some_iff.mp ha
    obtain ⟨hj, rfl⟩ := List.getElem?_eq_some_iff.mp hb
    exact (List.pairwise_iff_getElem.mp hs) i j hi hj h

/-- on a sorted list, `bisect_left` of a member lands on the first occurrence of that member -/
theorem bisectLeft_mem {xs : List Nat} {x : Nat} (hs : Sorted xs) (hx : x ∈ xs) :
    xs[bisectLeft xs x]? = some x ∧ FirstOcc xs (bisectLeft xs x) := by
  obtain ⟨m, hm, hmx⟩ := List.getElem_of_mem hx
  have hbm : bisectLeft xs x ≤ m := by
    apply Nat.le_of_not_lt
    intro hlt
    obtain ⟨v, hv, hvx⟩ := bisectLeft_lt xs x m hlt
    rw [List.getElem?_eq_getElem hm, hmx] at hv
    cases hv; exact Nat.lt_irrefl _ hvx
  have hb : bisectLeft xs x < xs.length := Nat.lt_of_le_of_lt hbm hm
  have hv : xs[bisectLeft xs x]? = some xs[bisectLeft xs x] := List.getElem?_eq_getElem hb
  have h1 : x ≤ xs[bisectLeft xs x] := bisectLeft_ge xs x _ hv
  have h2 : xs[bisectLeft xs x] ≤ x :=
    sorted_get_le hs hbm hv (by rw [List.getElem?_eq_getElem hm, hmx])
  have he : xs[bisectLeft xs x] = x := Nat.le_antisymm h2 h1
  rw [he] at hv
  exact ⟨hv, x, hv, fun j hj => bisectLeft_lt xs x j hj⟩

theorem pyGet?_mem {xs : List Nat} {i : Int} {v : Nat} (h : pyGet? xs i = some v) : v ∈ xs := by
  unfold pyGet? at h
  split at h
  · exact List.mem_of_getElem? h
  · split at h
    · exact List.mem_of_getElem? h
    · cases h

theorem pyGet?_ofNat (xs : List Nat) (n : Nat) : pyGet? xs (n : Int) = xs[n]? := by
  unfold pyGet?
  simp

/-! ### `dedupSorted` -/

theorem dedupSorted_sublist (xs : List Nat) : (dedupSorted xs).Sublist xs := by
  fun_induction dedupSorted xs with
  | case1 => exact List.Sublist.refl _
  | case2 => exact List.Sublist.refl _
  | case3 y rest ih => exact List.Sublist.cons _ ih
  | case4 x y rest h ih => exact List.Sublist.cons_cons _ ih

theorem mem_dedupSorted {xs : List Nat} {a : Nat} (h : a ∈ xs) : a ∈ dedupSorted xs := by
  fun_induction dedupSorted xs with
  | case1 => exact h
  | case2 => exact h
  | case3 y rest ih =>
    apply ih
    rcases List.mem_cons.mp h with h | h
    · subst h; exact List.mem_cons_self
    · exact h
  | case4 x y rest hxy ih =>
    rcases List.mem_cons.mp h with h | h
    · subst h; exact List.mem_cons_self
    · exact List.mem_cons_of_mem _ (ih h)

theorem sorted_dedupSorted {xs : List Nat} (hs : Sorted xs) : Sorted (dedupSorted xs) :=
  List.Pairwise.sublist (dedupSorted_sublist xs) hs

/-- no duplicates were dropped ⇒ a sorted list is strictly increasing -/
theorem strict_of_no_dup {xs : List Nat} (hs : Sorted xs) (h : ¬ (dedupSorted xs).length < xs.length) :
    xs.Pairwise (· < ·) := by
  fun_induction dedupSorted xs with
  | case1 => exact List.Pairwise.nil
  | case2 x => exact List.pairwise_singleton _ _
  | case3 y rest ih =>
    exfalso
    apply h
    have := (dedupSorted_sublist (y :: rest)).length_le
    simp only [List.length_cons] at this ⊢
    omega
  | case4 x y rest hxy ih =>
    have hs' : Sorted (y :: rest) := (List.pairwise_cons.mp hs).2
    have hstrict := ih hs' (by simp only [List.length_cons] at h ⊢; omega)
    have hxy' : x < y := by
      have : x ≤ y := (List.pairwise_cons.mp hs).1 y List.mem_cons_self
      omega
    refine List.pairwise_cons.mpr ⟨?_, hstrict⟩
    intro a ha
    rcases List.mem_cons.mp ha with ha | ha
    · subst ha; exact hxy'
    · have : y < a := (List.pairwise_cons.mp hstrict).1 a ha
      omega

theorem firstOcc_of_strict {xs : List Nat} (h : xs.Pairwise (· < ·)) {l : Nat} (hl : l < xs.length) :
    FirstOcc xs l := by
  refine ⟨xs[l], List.getElem?_eq_getElem hl, fun j hj => ?_⟩
  have hjl : j < xs.length := Nat.lt_trans hj hl
  exact ⟨xs[j], List.getElem?_eq_getElem hjl, (List.pairwise_iff_getElem.mp h) j l hjl hl hj⟩

/-! ### well-formed parameters -/

/-- what the loop needs to know about `mkParams seq m` -/
structure PWf (seq : List Nat) (p : Params) : Prop where
  seq_eq : p.seq = seq
  offs_first : p.dup = true → ∀ x ∈ p.offsets, FirstOcc seq x
  offs_bisect : p.dup = true → ∀ d ∈ seq, ∀ pos, pyGet? p.offsets (bisectLeft p.uniq d : Nat) = some pos →
    seq[pos]? = some d
  nodup_first : p.dup = false → ∀ l, l < seq.length → FirstOcc seq l

theorem mkParams_wf {seq : List Nat} (hs : Sorted seq) (m : Mode) : PWf seq (mkParams seq m) := by
  have key : ∀ (p : Params), p.seq = seq → p.uniq = dedupSorted seq →
      p.dup = decide ((dedupSorted seq).length < seq.length) →
      p.offsets = (if p.dup then (dedupSorted seq).map (bisectLeft seq) else []) → PWf seq p := by
    intro p h1 h2 h3 h4
    refine ⟨h1, ?_, ?_, ?_⟩
    · intro hd x hx
      rw [h4, hd] at hx
      simp only [if_true, List.mem_map] at hx
      obtain ⟨u, hu, rfl⟩ := hx
      exact (bisectLeft_mem hs ((dedupSorted_sublist seq).subset hu)).2
    · intro hd d hdm pos hpos
      rw [pyGet?_ofNat, h4, hd, h2] at hpos
      simp only [if_true, List.getElem?_map] at hpos
      have := (bisectLeft_mem (sorted_dedupSorted hs) (mem_dedupSorted hdm)).1
      rw [this] at hpos
      simp only [Option.map_some, Option.some.injEq] at hpos
      subst hpos
      exact (bisectLeft_mem hs hdm).1
    · intro hd l hl
      rw [h3] at hd
      exact firstOcc_of_strict (strict_of_no_dup hs (by simpa using hd)) hl
  cases m <;> exact key _ rfl rfl rfl rfl

/-! ### the loop invariant -/

/-- pointwise relation of two lists of equal length (core Lean has no `Forall₂`) -/
inductive All2 {α β : Type} (R : α → β → Prop) : List α → List β → Prop
  | nil : All2 R [] []
  | cons {a b as bs} : R a b → All2 R as bs → All2 R (a :: as) (b :: bs)

theorem All2.length_eq {α β : Type} {R : α → β → Prop} {as : List α} {bs : List β} (h : All2 R as bs) :
    as.length = bs.length := by
  induction h with
  | nil => rfl
  | cons _ _ ih => simp [ih]

theorem All2.append {α β : Type} {R : α → β → Prop} {as as' : List α} {bs bs' : List β}
    (h : All2 R as bs) (h' : All2 R as' bs') : All2 R (as ++ as') (bs ++ bs') := by
  induction h with
  | nil => exact h'
  | cons hr _ ih => exact All2.cons hr ih

theorem All2.reverse {α β : Type} {R : α → β → Prop} {as : List α} {bs : List β} (h : All2 R as bs) :
    All2 R as.reverse bs.reverse := by
  induction h with
  | nil => exact All2.nil
  | cons hr _ ih =>
    simp only [List.reverse_cons]
    exact ih.append (All2.cons hr All2.nil)

theorem All2.imp {α β : Type} {R S : α → β → Prop} {as : List α} {bs : List β}
    (hrs : ∀ a b, R a b → S a b) (h : All2 R as bs) : All2 S as bs := by
  induction h with
  | nil => exact All2.nil
  | cons hr _ ih => exact All2.cons (hrs _ _ hr) ih

structure Inv (seq : List Nat) (p : Params) (s : St) : Prop where
  /-- each recorded division is the value at its recorded location -/
  val : All2 (fun d l => seq[l]? = some d) s.divisions s.locations
  /-- locations strictly decrease (most recent first) … -/
  dec : s.locations.Pairwise (· > ·)
  /-- … down to 0 -/
  last0 : s.locations.getLast? = some 0
  /-- every interior location is a first-occurrence position -/
  first : ∀ l ∈ s.locations, l ≠ 0 → FirstOcc seq l
  /-- the cached `ind` is consistent with `i` -/
  ind : p.dup = true → ∀ k, s.ind = some k →
    (k < (p.offsets.length : Int) → pyGet? p.offsets k = some s.i) ∧
    ((p.offsets.length : Int) ≤ k → s.i = seq.length)

theorem candidateDup_spec {seq : List Nat} {p : Params} {s : St} (hp : PWf seq p) (hd : p.dup = true)
    {div0 : Nat} {ind0 : Int} (h0 : ∀ pos, pyGet? p.offsets ind0 = some pos → seq[pos]? = some div0)
    {i div pos : Nat} {ind : Option Int} (h : candidateDup p s div0 ind0 = some (i, div, ind, pos)) :
    seq[pos]? = some div ∧ FirstOcc seq pos := by
  unfold candidateDup at h
  simp only at h
  split at h
  · -- enforce branch: `pos = i1 = offsets[ind1]`, `div = seq[i1]`
    simp only [Option.bind_eq_bind, Option.bind_eq_some_iff, Option.pure_def, Option.some.injEq,
      Prod.mk.injEq] at h
    obtain ⟨i1, hi1, d1, hd1, rfl, rfl, _, rfl⟩ := h
    rw [hp.seq_eq] at hd1
    exact ⟨hd1, hp.offs_first hd _ (pyGet?_mem hi1)⟩
  · simp only [Option.bind_eq_bind, Option.bind_eq_some_iff, Option.pure_def, Option.some.injEq,
      Prod.mk.injEq] at h
    obtain ⟨pos', hpos, _, rfl, _, rfl⟩ := h
    exact ⟨h0 _ hpos, hp.offs_first hd _ (pyGet?_mem hpos)⟩

theorem candidate_spec {seq : List Nat} {p : Params} {s : St} (hp : PWf seq p)
    (hinv : Inv seq p s) {div0 : Nat} (h0 : seq[s.i]? = some div0)
    {i div pos : Nat} {ind : Option Int} (h : candidate p s div0 = some (i, div, ind, pos)) :
    seq[pos]? = some div ∧ FirstOcc seq pos := by
  have hsi : s.i < seq.length := (List.getElem?_eq_some_iff.mp h0).1
  unfold candidate at h
  by_cases hd : p.dup = true
  · simp only [hd, if_true] at h
    refine candidateDup_spec hp hd ?_ h
    intro pos hpos
    cases hk : s.ind with
    | some k =>
      rw [hk] at hpos
      simp only at hpos
      obtain ⟨h1, h2⟩ := hinv.ind hd k hk
      have hklt : k < (p.offsets.length : Int) := by
        apply Int.lt_of_not_ge
        intro hge
        have := h2 hge
        omega
      rw [h1 hklt] at hpos
      cases hpos
      exact h0
    | none =>
      rw [hk] at hpos
      simp only at hpos
      exact hp.offs_bisect hd div0 (List.mem_of_getElem? h0) _ hpos
  · have hd' : p.dup = false := by simpa using hd
    simp only [hd', Bool.false_eq_true, if_false, Option.some.injEq, Prod.mk.injEq] at h
    obtain ⟨_, rfl, _, rfl⟩ := h
    exact ⟨h0, hp.nodup_first hd' _ hsi⟩

theorem advance_inv {seq : List Nat} {p : Params} {s s' : St} (hs : Sorted seq) (hp : PWf seq p)
    (hinv : Inv seq p s) {lastDiv lastLoc i div pos : Nat} {ind : Option Int}
    (hld : s.divisions.head? = some lastDiv) (hll : s.locations.head? = some lastLoc)
    (hpos : seq[pos]? = some div) (hfo : FirstOcc seq pos)
    (h : advance p s lastDiv lastLoc i div ind pos = some s') : Inv seq p s' := by
  unfold advance at h
  split at h
  · -- skip: divisions / locations unchanged
    split at h
    · rename_i hd
      simp only [Option.bind_eq_bind, Option.bind_eq_some_iff, Option.pure_def, Option.some.injEq] at h
      obtain ⟨k, _, i', hi', rfl⟩ := h
      refine ⟨hinv.val, hinv.dec, hinv.last0, hinv.first, ?_⟩
      intro _ k' hk'
      simp only [Option.some.injEq] at hk'
      subst hk'
      simp only
      unfold nextI at hi'
      split at hi'
      · rename_i hlt
        exact ⟨fun _ => hi', fun hge => by omega⟩
      · rename_i hnlt
        simp only [Option.some.injEq] at hi'
        subst hi'
        exact ⟨fun hlt => absurd hlt hnlt, fun _ => by rw [hp.seq_eq]⟩
    · rename_i hd
      simp only [Option.pure_def, Option.some.injEq] at h
      subst h
      exact ⟨hinv.val, hinv.dec, hinv.last0, hinv.first, fun hd' => absurd hd' hd⟩
  · -- append `(div, pos)`
    rename_i hgt
    simp only [Option.pure_def, Option.some.injEq] at h
    subst h
    -- the previous location holds `lastDiv`
    have hlast : seq[lastLoc]? = some lastDiv := by
      have hv := hinv.val
      cases hdv : s.divisions with
      | nil => rw [hdv] at hld; cases hld
      | cons d ds =>
        cases hlc : s.locations with
        | nil => rw [hlc] at hll; cases hll
        | cons l ls =>
          rw [hdv, hlc] at hv
          rw [hdv] at hld; rw [hlc] at hll
          simp only [List.head?_cons, Option.some.injEq] at hld hll
          subst hld; subst hll
          cases hv with
          | cons h _ => exact h
    have hlt : lastLoc < pos := by
      apply Nat.lt_of_not_le
      intro hle
      have := sorted_get_le hs hle hpos hlast
      omega
    refine ⟨All2.cons hpos hinv.val, ?_, ?_, ?_, ?_⟩
    · refine List.pairwise_cons.mpr ⟨?_, hinv.dec⟩
      intro a ha
      cases hlc : s.locations with
      | nil => rw [hlc] at ha; cases ha
      | cons l ls =>
        rw [hlc] at ha hll
        simp only [List.head?_cons, Option.some.injEq] at hll
        subst hll
        rcases List.mem_cons.mp ha with ha | ha
        · subst ha; exact hlt
        · have hdec := hinv.dec
          rw [hlc] at hdec
          have : l > a := (List.pairwise_cons.mp hdec).1 a ha
          omega
    · cases hlc : s.locations with
      | nil => rw [hlc] at hll; cases hll
      | cons l ls =>
        have := hinv.last0
        rw [hlc] at this
        simpa [List.getLast?_cons_cons] using this
    · intro l hl hl0
      rcases List.mem_cons.mp hl with hl | hl
      · subst hl; exact hfo
      · exact hinv.first l hl hl0
    · intro _ k hk
      cases hk

theorem step_inv {seq : List Nat} {p : Params} {s s' : St} (hs : Sorted seq) (hp : PWf seq p)
    (hinv : Inv seq p s) (h : step p s = some s') : Inv seq p s' := by
  unfold step at h
  simp only [Option.bind_eq_bind, Option.bind_eq_some_iff] at h
  obtain ⟨div0, h0, lastDiv, hld, lastLoc, hll, ⟨i, div, ind, pos⟩, hc, ha⟩ := h
  rw [hp.seq_eq] at h0
  obtain ⟨hpos, hfo⟩ := candidate_spec hp hinv h0 hc
  exact advance_inv hs hp hinv hld hll hpos hfo ha

theorem loop_inv {seq : List Nat} {p : Params} (hs : Sorted seq) (hp : PWf seq p) (fuel : Nat) {s s' : St}
    (hinv : Inv seq p s) (h : loop p fuel s = some s') : Inv seq p s' := by
  induction fuel generalizing s with
  | zero => simp [loop] at h
  | succ n ih =>
    simp only [loop] at h
    split at h
    · simp only [Option.bind_eq_some_iff] at h
      obtain ⟨s1, h1, h2⟩ := h
      exact ih (step_inv hs hp hinv h1) h2
    · cases h; exact hinv

/-- whenever `sdl` answers, the answer is assembled from a state satisfying the invariant -/
theorem sdl_final {seq : List Nat} {m : Mode} {divs locs : List Nat} (hs : Sorted seq)
    (h : sdl seq m = some (divs, locs)) :
    ∃ s last, Inv seq (mkParams seq m) s ∧ seq.getLast? = some last ∧
      divs = (last :: s.divisions).reverse ∧ locs = (seq.length :: s.locations).reverse := by
  unfold sdl at h
  simp only [Option.bind_eq_bind, Option.bind_eq_some_iff, Option.pure_def, Option.some.injEq,
    Prod.mk.injEq] at h
  obtain ⟨first, hfirst, last, hlast, _, _, s, hloop, rfl, rfl⟩ := h
  unfold initSt at hloop
  refine ⟨s, last, ?_, hlast, rfl, rfl⟩
  refine loop_inv hs (mkParams_wf hs m) _ ?_ hloop
  have h0 : seq[0]? = some first := by
    cases seq with
    | nil => cases hfirst
    | cons a as => simpa using hfirst
  refine ⟨All2.cons h0 All2.nil, List.pairwise_singleton _ _, rfl, ?_, ?_⟩
  · intro l hl hl0
    simp only [List.mem_singleton] at hl
    exact absurd hl hl0
  · intro _ k hk
    cases hk

end Dask.SDL
