import DaskModel.Model.BlockView
/-
Lemmas for `Props/C20x.lean` (`blocks_den`): looking every key of `product(range(len(c)) …)` up in the outer-indexed
key grid enumerates `itertools.product` of the per-axis selections; the new chunks are the selected old chunks.
-/
namespace Dask.BlockView
open Dask.Store Dask.NormIndex

theorem flatMap_range_getElem? {α β : Type} (s : List α) (F : Option α → List β) :
    (List.range s.length).flatMap (fun i => F s[i]?) = s.flatMap (fun x => F (some x)) := by
  induction s generalizing F with
  | nil => simp
  | cons x xs ih =>
    rw [List.length_cons, List.range_succ_eq_map, List.flatMap_cons, List.flatMap_map, List.flatMap_cons]
    have := ih F
    simp only [List.getElem?_cons_zero, List.getElem?_cons_succ]
    rw [this]

/-- every key of the product of ranges finds the corresponding combination of selected blocks, in product order -/
theorem pick_product (sels : List (List Int)) :
    (product (sels.map fun s => List.range s.length)).map (pick sels) = (product sels).map some := by
  induction sels with
  | nil => simp [product, pick]
  | cons s ss ih =>
    simp only [List.map_cons, product, List.map_flatMap, List.map_map]
    have hin : ∀ i : Nat,
        (List.map (pick (s :: ss) ∘ fun t => i :: t) (product (ss.map fun s => List.range s.length)))
          = (product ss).map (fun r => consOpt s[i]? (some r)) := by
      intro i
      have : (pick (s :: ss) ∘ fun t => i :: t) = (consOpt s[i]?) ∘ (pick ss) := by
        funext t; simp [pick]
      rw [this, ← List.map_map, ih, List.map_map]
      rfl
    simp only [hin]
    rw [flatMap_range_getElem? s (fun o => (product ss).map (fun r => consOpt o (some r)))]
    congr 1

theorem selChunk_spec (c : List Nat) :
    ∀ (s : List Int) (r : List Nat), selChunk c s = some r →
      r = s.map (fun v => c.getD v.toNat 0) ∧ ∀ v ∈ s, 0 ≤ v ∧ v < (c.length : Int) := by
  intro s
  induction s with
  | nil => intro r h; simp [selChunk] at h; simp [← h]
  | cons v vs ih =>
    intro r h
    simp only [selChunk] at h
    by_cases hv : 0 ≤ v
    · simp only [hv, if_true] at h
      cases h1 : c[v.toNat]? with
      | none => simp [h1] at h
      | some a =>
        cases h2 : selChunk c vs with
        | none => simp [h1, h2] at h
        | some r' =>
          simp only [h1, h2, Option.some.injEq] at h
          obtain ⟨hr, hb⟩ := ih r' h2
          have hlt : v.toNat < c.length := (List.getElem?_eq_some_iff.mp h1).1
          constructor
          · rw [← h, List.map_cons, ← hr]
            congr 1
            simp [List.getD, h1]
          · intro w hw
            rcases List.mem_cons.mp hw with rfl | hw
            · exact ⟨hv, by omega⟩
            · exact hb w hw
    · simp [hv] at h

/-- the new chunk tuples have the lengths of the selections, and are the selected entries of the old chunk tuples -/
theorem selChunks_spec :
    ∀ (chunks : List (List Nat)) (sels : List (List Int)) (r : List (List Nat)), selChunks chunks sels = some r →
      r = List.zipWith (fun c s => s.map (fun v => c.getD v.toNat 0)) chunks sels ∧
      chunks.length = sels.length ∧
      (∀ cs ∈ chunks.zip sels, ∀ v ∈ cs.2, 0 ≤ v ∧ v < (cs.1.length : Int)) := by
  intro chunks
  induction chunks with
  | nil =>
    intro sels r h
    cases sels with
    | nil => simp [selChunks] at h; simp [← h]
    | cons _ _ => simp [selChunks] at h
  | cons c cs ih =>
    intro sels r h
    cases sels with
    | nil => simp [selChunks] at h
    | cons s ss =>
      simp only [selChunks] at h
      cases h1 : selChunk c s with
      | none => simp [h1] at h
      | some a =>
        cases h2 : selChunks cs ss with
        | none => simp [h1, h2] at h
        | some r' =>
          simp only [h1, h2, Option.some.injEq] at h
          obtain ⟨hr, hl, hb⟩ := ih ss r' h2
          obtain ⟨ha, hab⟩ := selChunk_spec c s a h1
          refine ⟨by rw [← h, List.zipWith_cons_cons, ← hr, ← ha], by simp [hl], ?_⟩
          intro p hp
          rw [List.zip_cons_cons, List.mem_cons] at hp
          rcases hp with rfl | hp
          · exact hab
          · exact hb p hp

theorem zipWith_ranges (chunks : List (List Nat)) :
    ∀ (sels : List (List Int)), chunks.length = sels.length →
      (List.zipWith (fun c s => s.map (fun v => c.getD v.toNat 0)) chunks sels).map (fun c => List.range c.length)
        = sels.map (fun s => List.range s.length) := by
  induction chunks with
  | nil => intro sels h; cases sels with
    | nil => rfl
    | cons _ _ => simp at h
  | cons c cs ih =>
    intro sels h
    cases sels with
    | nil => simp at h
    | cons s ss =>
      simp only [List.zipWith_cons_cons, List.map_cons, List.length_map]
      rw [ih ss (by simpa using h)]

end Dask.BlockView
