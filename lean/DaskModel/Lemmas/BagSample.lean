import DaskModel.Model.BagSample
import DaskModel.Lemmas.SubMultiset
import DaskModel.Lemmas.BagReduce
/-! Helper lemmas for C49: support of the reservoir, of the heap selection, closure of the sample
invariant under `_sample_reduce`. Everything holds for every oracle. -/
namespace Dask.BagSample
open Dask Dask.BagReduce

/-! ### `_sample_map_partitions` -/

theorem resLoop_support (k : Nat) (geom slot : Nat → Nat) (i nxt j : Nat) (res rest : List α) :
    resLoop k geom slot i nxt j res rest ⊆ₘ res ++ rest ∧
    (resLoop k geom slot i nxt j res rest).length = res.length := by
  induction rest generalizing i nxt j res with
  | nil => simp [resLoop, SubMultiset.refl]
  | cons e rest ih =>
    simp only [resLoop]
    split
    · obtain ⟨h1, h2⟩ := ih (i + 1) (nxt + geom (j + 1)) (j + 1) (res.set (slot j % k) e)
      refine ⟨h1.trans ?_, by simpa using h2⟩
      have := SubMultiset.append (SubMultiset.set_cons res (slot j % k) e) (SubMultiset.refl rest)
      refine this.trans (SubMultiset.of_perm ?_)
      simpa using (List.perm_middle (a := e) (l₁ := res) (l₂ := rest)).symm
    · obtain ⟨h1, h2⟩ := ih (i + 1) nxt j res
      refine ⟨h1.trans ?_, h2⟩
      refine SubMultiset.append (SubMultiset.refl res) (SubMultiset.cons_of (SubMultiset.refl rest) e)

/-- the reservoir is a sub-multiset of the partition of size `min k len`, the count is the length —
    for every outcome of the random draws -/
theorem sampleMapPartitions_support (k : Nat) (geom slot : Nat → Nat) (pop : List α) :
    (sampleMapPartitions k geom slot pop).1 ⊆ₘ pop ∧
    (sampleMapPartitions k geom slot pop).1.length = min k pop.length ∧
    (sampleMapPartitions k geom slot pop).2 = pop.length := by
  simp only [sampleMapPartitions]
  split
  · next hk => subst hk; simp [SubMultiset.nil]
  · obtain ⟨h1, h2⟩ := resLoop_support k geom slot k (k - 1 + geom 0) 0 (pop.take k) (pop.drop k)
    refine ⟨?_, by simpa using h2, rfl⟩
    simpa [List.take_append_drop] using h1

/-! ### `_weighted_sampling_without_replacement` -/

theorem insertDesc_perm (x : Nat × Nat) (ys : List (Nat × Nat)) : (insertDesc x ys).Perm (x :: ys) := by
  induction ys with
  | nil => simp [insertDesc]
  | cons y ys ih =>
    simp only [insertDesc]
    split
    · exact List.Perm.refl _
    · exact (List.Perm.cons y ih).trans (List.Perm.swap x y ys)

theorem sortDesc_perm (xs : List (Nat × Nat)) : (sortDesc xs).Perm xs := by
  induction xs with
  | nil => simp [sortDesc]
  | cons x xs ih =>
    simp only [sortDesc, List.foldr_cons] at ih ⊢
    exact (insertDesc_perm x _).trans (List.Perm.cons x ih)

theorem filterMap_getElem?_range (s : List α) : (List.range s.length).filterMap (fun i => s[i]?) = s := by
  induction s with
  | nil => rfl
  | cons a s ih =>
    rw [List.length_cons, List.range_succ_eq_map, List.filterMap_cons]
    simp only [List.getElem?_cons_zero, List.filterMap_map]
    simpa [Function.comp_def] using ih

theorem filterMap_length_of_isSome (f : β → Option α) (l : List β) (h : ∀ x ∈ l, (f x).isSome) :
    (l.filterMap f).length = l.length := by
  induction l with
  | nil => rfl
  | cons x l ih =>
    have hx := h x (by simp)
    obtain ⟨v, hv⟩ := Option.isSome_iff_exists.mp hx
    rw [List.filterMap_cons, hv]
    simp [ih (fun y hy => h y (List.mem_cons_of_mem _ hy))]

/-- the heap selection picks `min k len` DISTINCT positions: a sub-multiset of the population -/
theorem weightedWithout_support (key : Nat → Nat) (s : List α) (k : Nat) :
    weightedWithout key s k ⊆ₘ s ∧ (weightedWithout key s k).length = min k s.length := by
  simp only [weightedWithout]
  generalize helt : (List.range s.length).map (fun i => (key i, i)) = elt
  have hperm := sortDesc_perm elt
  have hall : (elt.filterMap fun x => s[x.2]?) = s := by
    rw [← helt, List.filterMap_map]
    simpa [Function.comp_def] using filterMap_getElem?_range s
  constructor
  · refine ⟨(sortDesc elt).drop k |>.filterMap fun x => s[x.2]?, ?_⟩
    rw [← List.filterMap_append, List.take_append_drop]
    have := hperm.filterMap (fun x => s[x.2]?)
    rwa [hall] at this
  · rw [filterMap_length_of_isSome]
    · rw [List.length_take, hperm.length_eq, ← helt]; simp
    · intro x hx
      have hx' : x ∈ elt := hperm.subset (List.mem_of_mem_take hx)
      rw [← helt] at hx'
      obtain ⟨i, hi, rfl⟩ := List.mem_map.mp hx'
      have : i < s.length := List.mem_range.mp hi
      simp [this]

/-! ### `_sample_reduce` preserves the sample invariant -/

/-- invariant of every task of `sample(b, k)`: the partial sample is a sub-multiset of the elements
    below the task, of size `min k n`, and `n` counts those elements -/
def SampleInv (k : Nat) (pop : List α) (sn : List α × Nat) : Prop :=
  sn.1 ⊆ₘ pop ∧ sn.2 = pop.length ∧ sn.1.length = min k sn.2

theorem All2_flatten_sub {k : Nat} {qs : List (List α)} {rs : List (List α × Nat)} (h : All2 (SampleInv k) qs rs) :
    (rs.map (·.1)).flatten ⊆ₘ qs.flatten ∧ (rs.map (·.2)).sum = qs.flatten.length ∧
    (rs.map (·.1)).flatten.length = (rs.map (fun sn => min k sn.2)).sum := by
  induction h with
  | nil => simp [SubMultiset.refl]
  | cons hab _ ih =>
    obtain ⟨h1, h2, h3⟩ := hab
    obtain ⟨i1, i2, i3⟩ := ih
    refine ⟨by simpa using SubMultiset.append h1 i1, by simp [h2, i2], by simp [h3, i3]⟩

theorem sum_min_ge (k : Nat) (ns : List Nat) : min k ns.sum ≤ (ns.map (min k)).sum := by
  induction ns with
  | nil => simp
  | cons n ns ih => simp only [List.sum_cons, List.map_cons]; omega

theorem sum_min_eq_of_lt (k : Nat) (ns : List Nat) (h : ns.sum < k) : (ns.map (min k)).sum = ns.sum := by
  induction ns with
  | nil => rfl
  | cons n ns ih =>
    simp only [List.sum_cons, List.map_cons] at h ⊢
    rw [ih (by omega)]; omega

theorem sampleReduce_inv (k : Nat) (key : Nat → Nat) {qs : List (List α)} {rs : List (List α × Nat)}
    (h : All2 (SampleInv k) qs rs) : SampleInv k qs.flatten (sampleReduce k key rs) := by
  obtain ⟨h1, h2, h3⟩ := All2_flatten_sub h
  have h3' : (rs.map (·.1)).flatten.length = ((rs.map (·.2)).map (min k)).sum := by
    rw [h3, List.map_map]; rfl
  simp only [sampleReduce]
  split
  · next hc =>
    refine ⟨h1, h2, ?_⟩
    show (rs.map (·.1)).flatten.length = min k (rs.map (·.2)).sum
    rcases hc with hc | hc
    · rw [h3', sum_min_eq_of_lt k _ hc]; omega
    · subst hc
      rw [h3']
      have : ∀ (ns : List Nat), (ns.map (min 0)).sum = 0 := by
        intro ns; induction ns with
        | nil => rfl
        | cons n ns ih => simp [ih]
      rw [this]; simp
  · next hc =>
    obtain ⟨w1, w2⟩ := weightedWithout_support key (rs.map (·.1)).flatten k
    refine ⟨w1.trans h1, h2, ?_⟩
    show (weightedWithout key (rs.map (·.1)).flatten k).length = min k (rs.map (·.2)).sum
    rw [w2, h3']
    have := sum_min_ge k (rs.map (·.2))
    omega

end Dask.BagSample

namespace Dask.BagSample
open Dask Dask.BagReduce

/-! ### `choices` -/

theorem updReservoirs_spec (geom : Nat → Nat) (m : Nat) (e : α) (rs : List α) (ns : List Nat) (c : Nat) :
    (updReservoirs geom m e rs ns c).1.length = rs.length ∧
    ∀ x ∈ (updReservoirs geom m e rs ns c).1, x = e ∨ x ∈ rs := by
  induction rs generalizing ns c with
  | nil => simp [updReservoirs]
  | cons r rs ih =>
    cases ns with
    | nil => simp [updReservoirs]; intro a ha; exact Or.inr (Or.inr ha)
    | cons n ns =>
      simp only [updReservoirs]
      split
      · obtain ⟨h1, h2⟩ := ih ns (c + 1)
        refine ⟨by simp [h1], ?_⟩
        intro x hx
        rcases List.mem_cons.mp hx with rfl | hx
        · exact Or.inl rfl
        · rcases h2 x hx with h | h
          · exact Or.inl h
          · exact Or.inr (List.mem_cons_of_mem _ h)
      · obtain ⟨h1, h2⟩ := ih ns c
        refine ⟨by simp [h1], ?_⟩
        intro x hx
        rcases List.mem_cons.mp hx with rfl | hx
        · exact Or.inr (by simp)
        · rcases h2 x hx with h | h
          · exact Or.inl h
          · exact Or.inr (List.mem_cons_of_mem _ h)

theorem replLoop_spec (geom : Nat → Nat) (i : Nat) (res : List α) (nxt : List Nat) (c : Nat) (rest : List α) :
    (replLoop geom i res nxt c rest).length = res.length ∧
    ∀ x ∈ replLoop geom i res nxt c rest, x ∈ res ∨ x ∈ rest := by
  induction rest generalizing i res nxt c with
  | nil => simp [replLoop]
  | cons e rest ih =>
    simp only [replLoop]
    split
    · obtain ⟨u1, u2⟩ := updReservoirs_spec geom (listMin nxt) e res nxt c
      obtain ⟨h1, h2⟩ := ih (i + 1) (updReservoirs geom (listMin nxt) e res nxt c).1
        (updReservoirs geom (listMin nxt) e res nxt c).2.1 (updReservoirs geom (listMin nxt) e res nxt c).2.2
      refine ⟨by rw [h1, u1], ?_⟩
      intro x hx
      rcases h2 x hx with h | h
      · rcases u2 x h with h' | h'
        · exact Or.inr (by simp [h'])
        · exact Or.inl h'
      · exact Or.inr (List.mem_cons_of_mem _ h)
    · obtain ⟨h1, h2⟩ := ih (i + 1) res nxt c
      refine ⟨h1, ?_⟩
      intro x hx
      rcases h2 x hx with h | h
      · exact Or.inl h
      · exact Or.inr (List.mem_cons_of_mem _ h)

/-- `k` reservoirs of size 1: `k` elements of the partition, for every oracle -/
theorem choicesMapPartitions_spec (k : Nat) (geom : Nat → Nat) (pop : List α) (sn : List α × Nat)
    (h : choicesMapPartitions k geom pop = some sn) :
    sn.1.length = k ∧ (∀ x ∈ sn.1, x ∈ pop) ∧ sn.2 = pop.length := by
  simp only [choicesMapPartitions] at h
  split at h
  · next hk => cases h; subst hk; simp
  · cases pop with
    | nil => cases h
    | cons e rest =>
      simp only [Option.some.injEq] at h
      subst h
      obtain ⟨h1, h2⟩ := replLoop_spec geom 1 (List.replicate k e) ((List.range k).map geom) k rest
      refine ⟨by simpa using h1, ?_, rfl⟩
      intro x hx
      rcases h2 x hx with h | h
      · have := List.eq_of_mem_replicate h
        simp [this]
      · exact List.mem_cons_of_mem _ h

/-- a non-empty partition never raises -/
theorem choicesMapPartitions_isSome (k : Nat) (geom : Nat → Nat) (pop : List α) (h : pop ≠ [] ∨ k = 0) :
    (choicesMapPartitions k geom pop).isSome := by
  simp only [choicesMapPartitions]
  split
  · rfl
  · next hk =>
    cases pop with
    | nil => rcases h with h | h <;> simp_all
    | cons e rest => rfl

/-- invariant of every task of `choices(b, k)` that returns: `k` elements of the elements below it -/
def ChoiceInv (k : Nat) (pop : List α) (o : Option (List α × Nat)) : Prop :=
  ∀ sn, o = some sn → sn.1.length = k ∧ (∀ x ∈ sn.1, x ∈ pop) ∧ sn.2 = pop.length

theorem All2_choice_flatten {k : Nat} {qs : List (List α)} {rs : List (Option (List α × Nat))}
    (h : All2 (ChoiceInv k) qs rs) {ins : List (List α × Nat)} (hm : rs.mapM id = some ins) :
    (∀ x ∈ (ins.map (·.1)).flatten, x ∈ qs.flatten) ∧ (ins.map (·.2)).sum = qs.flatten.length ∧
    (∀ s ∈ ins.map (·.1), s.length = k) := by
  induction h generalizing ins with
  | nil =>
    simp at hm; subst hm; simp
  | @cons q o qs rs hqo _ ih =>
    cases o with
    | none => simp at hm
    | some sn =>
      simp only [List.mapM_cons, id_eq, Option.bind_eq_bind, Option.bind_some] at hm
      cases hrest : rs.mapM id with
      | none => simp [hrest] at hm
      | some ins' =>
        simp [hrest] at hm
        subst hm
        obtain ⟨i1, i2, i3⟩ := ih hrest
        obtain ⟨a1, a2, a3⟩ := hqo sn rfl
        refine ⟨?_, by simp [a3, i2], ?_⟩
        · intro x hx
          simp only [List.map_cons, List.flatten_cons, List.mem_append] at hx ⊢
          rcases hx with hx | hx
          · exact Or.inl (a2 x hx)
          · exact Or.inr (i1 x hx)
        · intro s hs
          simp only [List.map_cons, List.mem_cons] at hs
          rcases hs with rfl | hs
          · exact a1
          · exact i3 s hs

theorem flatten_length_zero (ss : List (List α)) (h : ∀ s ∈ ss, s.length = 0) : ss.flatten.length = 0 := by
  induction ss with
  | nil => rfl
  | cons s ss ih =>
    simp [h s (by simp), ih (fun t ht => h t (List.mem_cons_of_mem _ ht))]

theorem choicesReduce_spec (k : Nat) (pick : Nat → Nat) (ins : List (List α × Nat)) (sn : List α × Nat)
    (hk : ∀ s ∈ ins.map (·.1), s.length = k)
    (h : choicesReduce k pick ins = some sn) :
    sn.1.length = k ∧ (∀ x ∈ sn.1, x ∈ (ins.map (·.1)).flatten) ∧ sn.2 = (ins.map (·.2)).sum := by
  simp only [choicesReduce] at h
  split at h
  · next hk0 =>
    cases h; subst hk0
    exact ⟨flatten_length_zero _ hk, fun x hx => hx, rfl⟩
  · split at h
    · cases h
    · next hne =>
      cases h
      generalize hs : (ins.map (·.1)).flatten = s at *
      have hpos : 0 < s.length := by
        cases s with
        | nil => simp at hne
        | cons _ _ => simp
      refine ⟨?_, ?_, rfl⟩
      · rw [filterMap_length_of_isSome]
        · simp
        · intro j _
          have : pick j % s.length < s.length := Nat.mod_lt _ hpos
          simp [this]
      · intro x hx
        obtain ⟨j, _, hj⟩ := List.mem_filterMap.mp hx
        exact List.mem_of_getElem? hj

end Dask.BagSample
