import DaskModel.Lemmas.SchedFinish
/-! The scheduler invariant `Inv` and its preservation by the two state transitions of the main
loop: `pop` (one iteration of the `for _ in range(ntasks)` loop of `fire_tasks`: ready → running)
and `complete` (`cache[key] = res; finish_task(...)`: running → finished).  Along the way: neither
transition can raise one of the internal errors (`KeyError`, `AssertionError`, `IndexError`). -/
namespace Dask.Sched
variable {α : Type}

def isData (g : Graph) (k : Key) : Prop := g.get? k = some .data
def isTask (g : Graph) (k : Key) : Prop := ∃ deps, g.get? k = some (.task deps)

theorem not_data_of_task {g : Graph} {k : Key} (h : isTask g k) : ¬ isData g k := by
  obtain ⟨deps, hd⟩ := h
  intro h'
  unfold isData at h'
  rw [hd] at h'
  cases h'

def State.depsOf (s : State α) (k : Key) : List Key := (s.dependencies.get? k).getD []
def State.dtsOf (s : State α) (k : Key) : List Key := (s.dependents.get? k).getD []
def State.seen (s : State α) (k : Key) : Prop := ∃ ds, s.dependencies.get? k = some ds

/-- the value of `k` is available in principle: a data node, or a finished task -/
def done (g : Graph) (s : State α) (k : Key) : Prop := isData g k ∨ k ∈ s.finished

/-- the part of the invariant that only concerns `dependencies` / `dependents` (never modified after
`start_state_from_dask`) -/
structure Static (g : Graph) (s : State α) : Prop where
  depsGraph : ∀ k ds, s.dependencies.get? k = some ds → ds = nodeDeps g k
  depsNodup : ∀ k ds, s.dependencies.get? k = some ds → ds.Nodup
  depsSeen : ∀ k ds, s.dependencies.get? k = some ds → ∀ d ∈ ds, s.seen d
  seenGraph : ∀ k, s.seen k → isData g k ∨ isTask g k
  dtsNodup : ∀ k l, s.dependents.get? k = some l → l.Nodup
  dtsDom : ∀ k, s.seen k → ∃ l, s.dependents.get? k = some l
  dtsIff : ∀ d j, j ∈ s.dtsOf d ↔ d ∈ s.depsOf j

theorem Static.congr {g : Graph} {s s' : State α} (h : Static g s)
    (h1 : s'.dependencies = s.dependencies) (h2 : s'.dependents = s.dependents) : Static g s' := by
  obtain ⟨a, b, c, d, e, f, i⟩ := h
  refine ⟨?_, ?_, ?_, ?_, ?_, ?_, ?_⟩
  · intro k ds hk; rw [h1] at hk; exact a k ds hk
  · intro k ds hk; rw [h1] at hk; exact b k ds hk
  · intro k ds hk x hx; rw [h1] at hk; obtain ⟨y, hy⟩ := c k ds hk x hx; exact ⟨y, by rw [h1]; exact hy⟩
  · intro k hk; obtain ⟨y, hy⟩ := hk; rw [h1] at hy; exact d k ⟨y, hy⟩
  · intro k l hk; rw [h2] at hk; exact e k l hk
  · intro k hk; obtain ⟨y, hy⟩ := hk; rw [h1] at hy; obtain ⟨l, hl⟩ := f k ⟨y, hy⟩; exact ⟨l, by rw [h2]; exact hl⟩
  · intro x j
    have := i x j
    unfold State.dtsOf State.depsOf at this ⊢
    rw [h1, h2]; exact this

structure Inv (g : Graph) (results : List Key) (s : State α) : Prop extends Static g s where
  readyNodup : s.ready.Nodup
  runningNodup : s.running.Nodup
  finishedNodup : s.finished.Nodup
  releasedNodup : s.released.Nodup
  readyTask : ∀ k ∈ s.ready, s.seen k ∧ isTask g k
  runningTask : ∀ k ∈ s.running, s.seen k ∧ isTask g k
  finishedTask : ∀ k ∈ s.finished, s.seen k ∧ isTask g k
  waitingTask : ∀ k w, s.waiting.get? k = some w → s.seen k ∧ isTask g k
  readyRunning : ∀ k ∈ s.ready, k ∉ s.running
  readyFinished : ∀ k ∈ s.ready, k ∉ s.finished
  runningFinished : ∀ k ∈ s.running, k ∉ s.finished
  waitingDisj : ∀ k w, s.waiting.get? k = some w → k ∉ s.ready ∧ k ∉ s.running ∧ k ∉ s.finished
  cover : ∀ k, s.seen k → isTask g k →
    (∃ w, s.waiting.get? k = some w) ∨ k ∈ s.ready ∨ k ∈ s.running ∨ k ∈ s.finished
  waitingExact : ∀ k w, s.waiting.get? k = some w → w ≠ [] ∧ ∀ d, d ∈ w ↔ (d ∈ s.depsOf k ∧ ¬ done g s d)
  activeDone : ∀ k, (k ∈ s.ready ∨ k ∈ s.running ∨ k ∈ s.finished) → ∀ d ∈ s.depsOf k, done g s d
  wdExact : ∀ d l, s.waitingData.get? d = some l → ∀ j, j ∈ l ↔ (j ∈ s.dtsOf d ∧ j ∉ s.finished)
  relIff : ∀ d, s.seen d → (s.waitingData.get? d = none ↔ d ∈ s.released)
  relOnly : ∀ d ∈ s.released, s.seen d ∧ d ∉ results ∧ done g s d ∧ ∀ j ∈ s.dtsOf d, j ∈ s.finished
  cacheIff : ∀ d, s.seen d → ((∃ v, s.cache.get? d = some v) ↔ (done g s d ∧ d ∉ s.released))
  wdLive : ∀ d l, s.waitingData.get? d = some l → d ∉ results → l ≠ []
  cacheSeen : ∀ d v, s.cache.get? d = some v → s.seen d

/-- every cached value is the value the graph denotes -/
def CacheSound (den : Key → α) (s : State α) : Prop := ∀ d v, s.cache.get? d = some v → v = den d

theorem depsOf_of_get {s : State α} {k : Key} {ds : List Key} (h : s.dependencies.get? k = some ds) :
    s.depsOf k = ds := by simp [State.depsOf, h]

theorem dtsOf_of_get {s : State α} {k : Key} {l : List Key} (h : s.dependents.get? k = some l) :
    s.dtsOf k = l := by simp [State.dtsOf, h]

theorem seen_of_mem_depsOf {s : State α} {k d : Key} (h : d ∈ s.depsOf k) : s.seen k := by
  unfold State.depsOf at h
  cases hk : s.dependencies.get? k with
  | none => simp [hk] at h
  | some ds => exact ⟨ds, hk⟩

/-- a key with a dependency is a task -/
theorem Static.task_of_dep {g : Graph} {s : State α} (h : Static g s) {k d : Key} (hd : d ∈ s.depsOf k) :
    s.seen k ∧ isTask g k := by
  have hs := seen_of_mem_depsOf hd
  refine ⟨hs, ?_⟩
  rcases h.seenGraph k hs with hdata | ht
  · obtain ⟨ds, hds⟩ := hs
    have := h.depsGraph k ds hds
    rw [depsOf_of_get hds, this] at hd
    unfold isData at hdata
    simp [nodeDeps, hdata] at hd
  · exact ht

/-- a dependency that is still needed by an unfinished dependent has not been released -/
theorem Inv.not_released_of_dep {g : Graph} {results : List Key} {s : State α} (h : Inv g results s)
    {k d : Key} (hd : d ∈ s.depsOf k) (hk : k ∉ s.finished) : d ∉ s.released := by
  intro hr
  have := (h.relOnly d hr).2.2.2 k ((h.dtsIff d k).mpr hd)
  exact hk this

/-- the dependencies of a ready / running task are cached -/
theorem Inv.dep_cached {g : Graph} {results : List Key} {s : State α} (h : Inv g results s)
    {k d : Key} (hk : k ∈ s.ready ∨ k ∈ s.running) (hd : d ∈ s.depsOf k) : ∃ v, s.cache.get? d = some v := by
  have hkf : k ∉ s.finished := by
    rcases hk with hk | hk
    · exact h.readyFinished k hk
    · exact h.runningFinished k hk
  have hdone := h.activeDone k (by rcases hk with hk | hk; exact Or.inl hk; exact Or.inr (Or.inl hk)) d hd
  have hseen : s.seen d := by
    obtain ⟨ds, hds⟩ := seen_of_mem_depsOf hd
    exact h.depsSeen k ds hds d (by rw [depsOf_of_get hds] at hd; exact hd)
  exact (h.cacheIff d hseen).mpr ⟨hdone, h.not_released_of_dep hd hkf⟩

/-! ## pop: ready → running -/

/-- the state after `key = ready.pop(); running.add(key)` -/
def popState (s : State α) (key : Key) (ready : List Key) : State α :=
  { s with ready := ready, running := sadd key s.running }

theorem Inv.pop {g : Graph} {results : List Key} {s : State α} (h : Inv g results s)
    {key : Key} {ready : List Key} (hr : s.ready = key :: ready) : Inv g results (popState s key ready) := by
  have hkr : key ∈ s.ready := by rw [hr]; simp
  have hnd : (key :: ready).Nodup := hr ▸ h.readyNodup
  have hnd' := List.nodup_cons.mp hnd
  have hsub : ∀ k, k ∈ ready → k ∈ s.ready := fun k hk => by rw [hr]; exact List.mem_cons_of_mem _ hk
  have hdone : ∀ d, done g (popState s key ready) d ↔ done g s d := fun d => Iff.rfl
  refine ⟨h.toStatic.congr rfl rfl, ?_, ?_, ?_, ?_, ?_, ?_, ?_, ?_, ?_, ?_, ?_, ?_, ?_, ?_, ?_, ?_, ?_, ?_, ?_, ?_, ?_⟩
  · exact hnd'.2
  · exact nodup_sadd h.runningNodup
  · exact h.finishedNodup
  · exact h.releasedNodup
  · intro k hk; exact h.readyTask k (hsub k hk)
  · intro k hk
    rcases mem_sadd.mp hk with rfl | hk
    · exact h.readyTask _ hkr
    · exact h.runningTask k hk
  · exact h.finishedTask
  · exact h.waitingTask
  · intro k hk hk2
    rcases mem_sadd.mp hk2 with rfl | hk2
    · exact hnd'.1 hk
    · exact h.readyRunning k (hsub k hk) hk2
  · intro k hk; exact h.readyFinished k (hsub k hk)
  · intro k hk
    rcases mem_sadd.mp hk with rfl | hk
    · exact h.readyFinished _ hkr
    · exact h.runningFinished k hk
  · intro k w hw
    obtain ⟨a, b, c⟩ := h.waitingDisj k w hw
    refine ⟨fun hk => a (hsub k hk), ?_, c⟩
    intro hk
    rcases mem_sadd.mp hk with rfl | hk
    · exact a hkr
    · exact b hk
  · intro k hs ht
    rcases h.cover k hs ht with hw | hk | hk | hk
    · exact Or.inl hw
    · rw [hr] at hk
      rcases List.mem_cons.mp hk with rfl | hk
      · exact Or.inr (Or.inr (Or.inl (mem_sadd.mpr (Or.inl rfl))))
      · exact Or.inr (Or.inl hk)
    · exact Or.inr (Or.inr (Or.inl (mem_sadd.mpr (Or.inr hk))))
    · exact Or.inr (Or.inr (Or.inr hk))
  · exact h.waitingExact
  · intro k hk
    apply h.activeDone k
    rcases hk with hk | hk | hk
    · exact Or.inl (hsub k hk)
    · rcases mem_sadd.mp hk with rfl | hk
      · exact Or.inl hkr
      · exact Or.inr (Or.inl hk)
    · exact Or.inr (Or.inr hk)
  · exact h.wdExact
  · exact h.relIff
  · exact h.relOnly
  · exact h.cacheIff
  · exact h.wdLive
  · exact h.cacheSeen

end Dask.Sched
