import DaskModel.Model.HistogramDD
import DaskModel.Lemmas.CountingLemmas
/-! Helper lemmas for C27: sums of per-chunk count vectors (`histogramdd`, `histogram2d`). -/
namespace Dask.Counting
open Dask.Chunks

theorem zipWith_map_same {α β γ δ} (h : β → γ → δ) (f : α → β) (g : α → γ) : ∀ (l : List α),
    List.zipWith h (l.map f) (l.map g) = l.map (fun x => h (f x) (g x))
  | [] => rfl
  | a :: l => by simp [zipWith_map_same h f g l]

/-- the sum over the chunks of per-chunk counts (one count per cell `c`, predicate `p c`) is the count over everything -/
theorem sumVecs_counts {κ α} (p : κ → α → Bool) (cs : List κ) : ∀ (bs : List (List α)),
    sumVecs (cs.map (fun _ => 0)) (bs.map (fun b => cs.map (fun c => b.countP (p c))))
      = cs.map (fun c => (bs.flatten).countP (p c))
  | [] => by simp [sumVecs]
  | b :: bs => by
    have ih := sumVecs_counts p cs bs
    unfold sumVecs at ih ⊢
    simp only [List.map_cons, List.foldr_cons, ih, addVec, zipWith_map_same, List.flatten_cons, List.countP_append]

theorem zipRows_append (x1 x2 y1 y2 : List Nat) (h : x1.length = y1.length) :
    zipRows (x1 ++ x2) (y1 ++ y2) = zipRows x1 y1 ++ zipRows x2 y2 := by
  unfold zipRows
  exact List.zipWith_append h

/-- coordinate blocks of equal lengths: pairing block by block is pairing the whole arrays -/
theorem zipWith_zipRows_flatten : ∀ (xb yb : List (List Nat)), xb.map List.length = yb.map List.length →
    (List.zipWith zipRows xb yb).flatten = zipRows xb.flatten yb.flatten
  | [], [], _ => rfl
  | [], _ :: _, h => by simp at h
  | _ :: _, [], h => by simp at h
  | x :: xb, y :: yb, h => by
    simp only [List.map_cons, List.cons.injEq] at h
    simp only [List.zipWith_cons_cons, List.flatten_cons]
    rw [zipWith_zipRows_flatten xb yb h.2, zipRows_append _ _ _ _ h.1]

/-! ### weighted histogram -/

theorem wsumP_append (p : Nat → Bool) (x1 x2 : List Nat) (w1 w2 : List Int) (h : x1.length = w1.length) :
    wsumP p (x1 ++ x2) (w1 ++ w2) = wsumP p x1 w1 + wsumP p x2 w2 := by
  unfold wsumP
  rw [List.zip_append h, List.filterMap_append, isum_append']

theorem wsumP_nil (p : Nat → Bool) : wsumP p [] [] = 0 := rfl

/-- the sum over the chunks of per-chunk weight totals (one per cell `c`) is the weight total over everything -/
theorem sumVecsI_wsums {κ} (p : κ → Nat → Bool) (cs : List κ) : ∀ (bs : List (List Nat × List Int)),
    (∀ b ∈ bs, b.1.length = b.2.length) →
    (bs.map (fun b => cs.map (fun c => wsumP (p c) b.1 b.2))).foldr addVecI (cs.map (fun _ => 0))
      = cs.map (fun c => wsumP (p c) (bs.flatMap (·.1)) (bs.flatMap (·.2)))
  | [], _ => by simp [wsumP_nil]
  | b :: bs, h => by
    have ih := sumVecsI_wsums p cs bs (fun z hz => h z (by simp [hz]))
    simp only [List.map_cons, List.foldr_cons, ih, addVecI, zipWith_map_same, List.flatMap_cons]
    apply List.map_congr_left
    intro c _
    rw [wsumP_append _ _ _ _ _ (h b (by simp))]

end Dask.Counting
