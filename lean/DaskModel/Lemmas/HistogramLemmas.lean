import DaskModel.Model.HistogramDD
import DaskModel.Lemmas.CountingLemmas
/-! Helper lemmas for C27: sums of per-chunk count vectors (`histogramdd`, `histogram2d`). -/
namespace Dask.Counting
open Dask.Chunks

theorem zipWith_map_same {α β γ δ} (h : β → γ → δ) (f : α → β) (g : α → γ) : ∀ (l : List α),
    List.zipWith h (l.map f) (l.map g) = l.map (fun x => h (f x) (g x))
  | [] => rfl
  | a :: l => by simp [zipWith_map_same h f g l]

/-- the sum over the chunks of per-chunk counts (one count per cell `c`, predicate `p c`) is the count over everything -/
theorem sumVecs_counts {κ α} (p : κ → α → Bool) (cs : List κ) : ∀ (bs : List (List α)),
    sumVecs (cs.map (fun _ => 0)) (bs.map (fun b => cs.map (fun c => b.countP (p c))))
      = cs.map (fun c => (bs.flatten).countP (p c))
  | [] => by simp [sumVecs]
  | b :: bs => by
    have ih := sumVecs_counts p cs bs
    unfold sumVecs at ih ⊢
    simp only [List.map_cons, List.foldr_cons, ih, addVec, zipWith_map_same, List.flatten_cons, List.countP_append]

theorem zipRows_append (x1 x2 y1 y2 : List Nat) (h : x1.length = y1.length) :
    zipRows (x1 ++ x2) (y1 ++ y2) = zipRows x1 y1 ++ zipRows x2 y2 := by
  unfold zipRows
  exact List.zipWith_append h

/-- coordinate blocks of equal lengths: pairing block by block is pairing the whole arrays -/
theorem zipWith_zipRows_flatten : ∀ (xb yb : List (List Nat)), xb.map List.length = yb.map List.length →
    (List.zipWith zipRows xb yb).flatten = zipRows xb.flatten yb.flatten
  | [], [], _ => rfl
  | [], _ :: _, h => by simp at h
  | _ :: _, [], h => by simp at h
  | x :: xb, y :: yb, h => by
    simp only [List.map_cons, List.cons.injEq] at h
    simp only [List.zipWith_cons_cons, List.flatten_cons]
    rw [zipWith_zipRows_flatten xb yb h.2, zipRows_append _ _ _ _ h.1]

end Dask.Counting
