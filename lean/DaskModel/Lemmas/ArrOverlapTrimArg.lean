import DaskModel.Model.ArrOverlap
/-! C26: the argument that governs the trim of `map_overlap` is the FIRST argument of highest rank. -/
namespace Dask.ArrOverlap

/-- invariant of the running maximum: `b = (ib, rb)` is an argument among those seen (`ib < i`), of the highest rank seen,
    and no earlier argument has that rank -/
theorem trimArgFrom_spec : ∀ (rest : List Nat) (pre : List Nat) (b : Nat × Nat),
    pre[b.1]? = some b.2 → (∀ (j r : Nat), pre[j]? = some r → r ≤ b.2) → (∀ (j r : Nat), j < b.1 → pre[j]? = some r → r < b.2) →
    ∃ i r, trimArgFrom pre.length (some b) rest = some (i, r) ∧ (pre ++ rest)[i]? = some r ∧
      (∀ (j r' : Nat), (pre ++ rest)[j]? = some r' → r' ≤ r) ∧ (∀ (j r' : Nat), j < i → (pre ++ rest)[j]? = some r' → r' < r) := by
  intro rest
  induction rest with
  | nil =>
    intro pre b h1 h2 h3
    exact ⟨b.1, b.2, by simp [trimArgFrom], by simpa using h1, by simpa using h2, by simpa using h3⟩
  | cons x xs ih =>
    intro pre b h1 h2 h3
    have hb : b.1 < pre.length := by
      by_cases hlt : b.1 < pre.length
      · exact hlt
      · rw [List.getElem?_eq_none (by omega)] at h1; cases h1
    have hlen : (pre ++ [x]).length = pre.length + 1 := by simp
    have happ : pre ++ x :: xs = (pre ++ [x]) ++ xs := by simp
    simp only [trimArgFrom]
    by_cases hk : keyLt b (pre.length, x) = true
    · -- the new argument has a strictly higher rank (an equal rank never wins: its index is larger)
      have hgt : b.2 < x := by
        simp only [keyLt, Bool.or_eq_true, Bool.and_eq_true, decide_eq_true_eq] at hk
        rcases hk with h | ⟨_, h⟩
        · exact h
        · omega
      rw [if_pos hk, ← hlen, happ]
      apply ih (pre ++ [x]) (pre.length, x)
      · simp
      · intro j r hj
        by_cases hjl : j < pre.length
        · rw [List.getElem?_append_left hjl] at hj
          have := h2 j r hj
          simp only; omega
        · rw [List.getElem?_append_right (by omega)] at hj
          have hj0 : j - pre.length = 0 := by
            by_cases h0 : j - pre.length = 0
            · exact h0
            · rw [List.getElem?_eq_none (by simp; omega)] at hj; cases hj
          rw [hj0] at hj; simp at hj; simp only; omega
      · intro j r hjlt hj
        simp only at hjlt
        rw [List.getElem?_append_left hjlt] at hj
        have := h2 j r hj
        simp only; omega
    · have hle : x ≤ b.2 := by
        simp only [keyLt, Bool.or_eq_true, Bool.and_eq_true, decide_eq_true_eq, not_or, not_and] at hk
        omega
      rw [if_neg hk, ← hlen, happ]
      apply ih (pre ++ [x]) b
      · rw [List.getElem?_append_left hb]; exact h1
      · intro j r hj
        by_cases hjl : j < pre.length
        · rw [List.getElem?_append_left hjl] at hj; exact h2 j r hj
        · rw [List.getElem?_append_right (by omega)] at hj
          have hj0 : j - pre.length = 0 := by
            by_cases h0 : j - pre.length = 0
            · exact h0
            · rw [List.getElem?_eq_none (by simp; omega)] at hj; cases hj
          rw [hj0] at hj; simp at hj; omega
      · intro j r hjlt hj
        rw [List.getElem?_append_left (by omega)] at hj
        exact h3 j r hjlt hj

theorem trimArg_spec (ranks : List Nat) (hne : ranks ≠ []) :
    ∃ i r, trimArg ranks = some i ∧ ranks[i]? = some r ∧ (∀ (j r' : Nat), ranks[j]? = some r' → r' ≤ r) ∧
      (∀ (j r' : Nat), j < i → ranks[j]? = some r' → r' < r) := by
  cases ranks with
  | nil => exact absurd rfl hne
  | cons x xs =>
    have := trimArgFrom_spec xs [x] (0, x) (by simp) (by
      intro j r hj
      cases j with
      | zero => simp at hj; simp only; omega
      | succ j => simp at hj) (by intro j r hj; omega)
    obtain ⟨i, r, h1, h2, h3, h4⟩ := this
    refine ⟨i, r, ?_, by simpa using h2, by simpa using h3, by simpa using h4⟩
    simp only [trimArg, trimArgFrom]
    simp only [List.length_singleton] at h1
    rw [h1]; rfl

end Dask.ArrOverlap
