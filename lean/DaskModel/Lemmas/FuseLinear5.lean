import DaskModel.Lemmas.FuseLinear4
/-! `fuse_linear_task_spec`: the loop body keeps the invariant; the theorem. -/
namespace Dask.TaskTerm

theorem keys_nodup_setKey_new {res : FGraph} {x : Obj} {fn : FNode} (hn : (res.map Prod.fst).Nodup)
    (hx : res.lookup x = none) : ((setKey res x fn).map Prod.fst).Nodup := by
  rw [keys_setKey]
  have : x ∉ res.map Prod.fst := fun hc => by
    have := lookup_isSome_of_mem res x hc
    rw [hx] at this; cases this
  rw [if_neg this]
  exact List.nodup_append.mpr ⟨hn, by simp, fun a ha b hb => by
    simp only [List.mem_singleton] at hb; subst hb; intro e; subst e; exact this ha⟩

theorem innerKeysOf_setKey_new {res : FGraph} {x : Obj} {fn : FNode} (hx : res.lookup x = none) :
    innerKeysOf (setKey res x fn) = innerKeysOf res ++ fn.innerKeys := by
  rw [setKey_append _ _ _ hx, innerKeysOf_append]
  simp [innerKeysOf]

/-- the loop body of `fuse_linear_task_spec` keeps the invariant, marks `key` as seen and forgets nothing -/
theorem fuseLinearStep_inv (g : NGraph) (req : List Obj) (rename : List Obj → Option Obj) {rank : Obj → Nat}
    (hnodup : (g.map Prod.fst).Nodup) (hdag : DagRank g rank) (st : FuseSt) (key : Obj)
    (hi : FLInv g req st []) :
    FLInv g req (fuseLinearStep g req rename st key) [] ∧
    key ∈ (fuseLinearStep g req rename st key).seen ∧
    ∀ x ∈ st.seen, x ∈ (fuseLinearStep g req rename st key).seen := by
  unfold fuseLinearStep
  by_cases hs : st.seen.contains key = true
  · rw [if_pos hs]; exact ⟨hi, by simpa using hs, fun _ h => h⟩
  · rw [if_neg hs]
    have hns : key ∉ st.seen := by simpa using hs
    cases hl : g.lookup key with
    | none =>
      simp only
      exact ⟨hi.see_external hns hl, by simp, fun x hx => List.mem_cons_of_mem _ hx⟩
    | some n =>
      simp only
      split
      · exact ⟨hi.standalone hns hl, by simp, fun x hx => List.mem_cons_of_mem _ hx⟩
      · -- a chain through `key`
        have hi0 : FLInv g req { st with seen := key :: st.seen } ([] ++ [key]) := by
          simpa using hi.see_pending hns
        have hc0 : ChainOK g req ([] ++ [key]) := by simp [ChainOK, hl]
        obtain ⟨hd1, hd2, hd3, hd4⟩ := walkDown_spec g req key hnodup g.length (depSet g key) []
          { st with seen := key :: st.seen } key hi0 hc0 (by simp) (by simp) rfl
        cases hwd : walkDown g req g.length (depSet g key) [] { st with seen := key :: st.seen } with
        | mk below st1 =>
          rw [hwd] at hd1 hd2 hd3 hd4
          simp only at hd1 hd2 hd3 hd4 ⊢
          have hb : below ++ [key] = below ++ key :: [] := rfl
          obtain ⟨hu1, hu2, hu3, hu4, hu5⟩ := walkUp_spec g req below key g.length (dependentSet g key) key [] st1
            hd1 hd2 hd3 (by simp) rfl
          cases hwu : walkUp g req g.length (dependentSet g key) key [] st1 with
          | mk above r2 =>
            cases r2 with
            | mk top st2 =>
              rw [hwu] at hu1 hu2 hu3 hu4 hu5
              simp only at hu1 hu2 hu3 hu4 hu5 ⊢
              have hseen : ∀ x ∈ st.seen, x ∈ st2.seen := fun x hx => hu5 x (hd4 x (List.mem_cons_of_mem _ hx))
              have hkey : key ∈ st2.seen := hu5 key (hd4 key (by simp))
              have hne : below ++ key :: above ≠ [] := by simp
              have hlast : (below ++ key :: above).getLast hne = top := by
                have := List.getLast?_eq_some_getLast hne
                rw [this] at hu4; exact Option.some.inj hu4
              split
              · -- the chain is `[key]` alone
                rename_i c hc1
                have hbe : below = [] ∧ above = [] := by
                  cases below with
                  | nil => simp at hc1; exact ⟨rfl, hc1.2⟩
                  | cons b bs => simp at hc1
                obtain ⟨rfl, rfl⟩ := hbe
                simp only [List.nil_append, List.getLast_singleton] at hlast
                subst hlast
                have := hu1.add_plain (x := key) (n := n) hkey (by simp) hl
                refine ⟨this.congr (fun k => by simp), hkey, hseen⟩
              · rename_i hlen1
                have hlen : 2 ≤ (below ++ key :: above).length := by
                  cases below with
                  | nil =>
                    cases above with
                    | nil => exact absurd rfl (hlen1 key)
                    | cons a as => simp
                  | cons b bs => simp; omega
                have htf := taskFuse_chain hnodup hdag hne hlen hu2 hu3
                rw [hlast] at htf
                simp only [htf]
                -- the name under which the fused task is stored
                generalize hren : chooseName g st2.result top (rename (below ++ key :: above)) = renamed
                have hr : renamed = top ∨ (g.lookup renamed = none ∧ (∀ x m, (x, m) ∈ g → renamed ∉ m.deps) ∧
                    st2.result.lookup renamed = none) := by
                  cases hrn : rename (below ++ key :: above) with
                  | none => rw [hrn] at hren; exact Or.inl hren.symm
                  | some r =>
                    rw [hrn] at hren
                    simp only [chooseName] at hren
                    split at hren
                    · exact Or.inl hren.symm
                    · rename_i hcnd
                      subst hren
                      by_cases hrt : r = top
                      · exact Or.inl hrt
                      · right
                        have hrt' : (r != top) = true := by simpa using hrt
                        simp only [hrt', Bool.true_and, Bool.or_eq_true, not_or, Bool.not_eq_true] at hcnd
                        refine ⟨lookup_none_of_not_mem g r (by simpa using hcnd.1.1), ?_,
                          lookup_none_of_not_mem _ r (by simpa using hcnd.2)⟩
                        intro x m hxm hd
                        have := (List.any_eq_false.mp hcnd.1.2) (x, m) hxm
                        simp only [List.contains_eq_mem, decide_eq_true_eq] at this
                        exact this hd
                have htopnr : st2.result.lookup top = none :=
                  hu1.not_in_result (Or.inl (hlast ▸ List.getLast_mem hne)) (hu2.keys top (hlast ▸ List.getLast_mem hne))
                have hrnr : st2.result.lookup renamed = none := by
                  rcases hr with h | h
                  · rw [h]; exact htopnr
                  · exact h.2.2
                by_cases hrt : renamed = top
                · -- stored under the top key
                  have hbne : (renamed != top) = false := by simp [hrt]
                  simp only [hbne, Bool.false_eq_true, if_false]
                  refine ⟨?_, hkey, hseen⟩
                  refine hu1.add_fused hne hu2 hu3 renamed (by rw [hlast]; exact hr) _
                    (keys_nodup_setKey_new hu1.resNodup hrnr) ?_ ?_ ?_ ?_ ?_
                  · intro y f hy
                    rw [lookup_setKey]
                    have : (y == renamed) = false := by
                      rw [Bool.eq_false_iff]; intro hc
                      have := eq_of_beq hc; subst this; rw [hrnr] at hy; cases hy
                    simp [this, hy]
                  · rw [lookup_setKey, hlast]; simp
                  · intro h; rw [hlast] at h; exact absurd hrt h
                  · intro k hk
                    rw [lookup_setKey] at hk
                    by_cases hkr : (k == renamed) = true
                    · exact Or.inr (Or.inr (eq_of_beq hkr))
                    · have hkr' : (k == renamed) = false := by simpa using hkr
                      simp only [hkr', Bool.false_eq_true, if_false] at hk
                      exact Or.inl hk
                  · rw [innerKeysOf_setKey_new hrnr]
                    simp [FNode.innerKeys, keys_restrictTo g _ hu2.keys]
                · -- stored under a new name, an alias is left at the top key
                  have hbne : (renamed != top) = true := by simpa using hrt
                  simp only [hbne, if_true]
                  have htop2 : (setKey st2.result renamed
                      (FNode.fused (restrictTo g (below ++ key :: above)) top
                        (externalDeps (restrictTo g (below ++ key :: above))))).lookup top = none := by
                    rw [lookup_setKey]
                    have : (top == renamed) = false := by
                      rw [Bool.eq_false_iff]; intro hc; exact hrt (eq_of_beq hc).symm
                    simp [this, htopnr]
                  refine ⟨?_, hkey, hseen⟩
                  refine hu1.add_fused hne hu2 hu3 renamed (by rw [hlast]; exact hr) _
                    (keys_nodup_setKey_new (keys_nodup_setKey_new hu1.resNodup hrnr) htop2) ?_ ?_ ?_ ?_ ?_
                  · intro y f hy
                    rw [lookup_setKey, lookup_setKey]
                    have h1 : (y == top) = false := by
                      rw [Bool.eq_false_iff]; intro hc
                      have := eq_of_beq hc; subst this; rw [htopnr] at hy; cases hy
                    have h2 : (y == renamed) = false := by
                      rw [Bool.eq_false_iff]; intro hc
                      have := eq_of_beq hc; subst this; rw [hrnr] at hy; cases hy
                    simp [h1, h2, hy]
                  · rw [lookup_setKey, lookup_setKey, hlast]
                    have : (renamed == top) = false := by simpa using hrt
                    simp [this]
                  · intro _; rw [lookup_setKey, hlast]; simp
                  · intro k hk
                    rw [lookup_setKey, lookup_setKey] at hk
                    by_cases hkt : (k == top) = true
                    · exact Or.inr (Or.inl (by rw [hlast]; exact eq_of_beq hkt))
                    · have hkt' : (k == top) = false := by simpa using hkt
                      by_cases hkr : (k == renamed) = true
                      · exact Or.inr (Or.inr (eq_of_beq hkr))
                      · have hkr' : (k == renamed) = false := by simpa using hkr
                        simp only [hkt', hkr', Bool.false_eq_true, if_false] at hk
                        exact Or.inl hk
                  · rw [innerKeysOf_setKey_new htop2, innerKeysOf_setKey_new hrnr]
                    simp [FNode.innerKeys, keys_restrictTo g _ hu2.keys]

end Dask.TaskTerm

namespace Dask.TaskTerm

theorem fuseLinear_fold_inv (g : NGraph) (req : List Obj) (rename : List Obj → Option Obj) {rank : Obj → Nat}
    (hnodup : (g.map Prod.fst).Nodup) (hdag : DagRank g rank) : ∀ (ks : List Obj) (st : FuseSt),
    FLInv g req st [] →
    FLInv g req (ks.foldl (fuseLinearStep g req rename) st) [] ∧
    (∀ x ∈ st.seen, x ∈ (ks.foldl (fuseLinearStep g req rename) st).seen) ∧
    (∀ k ∈ ks, k ∈ (ks.foldl (fuseLinearStep g req rename) st).seen)
  | [], st, hi => ⟨hi, fun _ h => h, fun _ h => by simp at h⟩
  | k :: ks, st, hi => by
    obtain ⟨h1, h2, h3⟩ := fuseLinearStep_inv g req rename hnodup hdag st k hi
    obtain ⟨i1, i2, i3⟩ := fuseLinear_fold_inv g req rename hnodup hdag ks _ h1
    simp only [List.foldl_cons]
    refine ⟨i1, fun x hx => i2 x (h3 x hx), ?_⟩
    intro x hx
    rcases List.mem_cons.mp hx with rfl | hx
    · exact i2 x h2
    · exact i3 x hx

theorem mem_lookup_iff_nodup {α : Type} {l : List (Obj × α)} (hn : (l.map Prod.fst).Nodup) {k : Obj} {v : α} :
    (k, v) ∈ l ↔ l.lookup k = some v :=
  ⟨fun h => lookup_of_mem_nodup hn h, fun h => mem_of_lookup l k v h⟩

/-- **`fuse_linear_task_spec` produces a graph the checker's conditions hold for** — for every DAG with duplicate-free
    keys, every set of requested keys and every renamer. -/
theorem fuseLinearSpec_ok (g : NGraph) (req : List Obj) (rename : List Obj → Option Obj) {rank : Obj → Nat}
    (hnodup : (g.map Prod.fst).Nodup) (hdag : DagRank g rank) : FuseOK g req (fuseLinearSpec g req rename) := by
  have hi0 : FLInv g req { seen := [], result := [] } [] :=
    ⟨by simp, by simp, by simp, by simp, by simp, by simp, by simp [innerKeysOf], by simp [innerKeysOf], by simp⟩
  obtain ⟨hi, _, hall⟩ := fuseLinear_fold_inv g req rename hnodup hdag (g.map Prod.fst) _ hi0
  unfold fuseLinearSpec
  generalize (g.map Prod.fst).foldl (fuseLinearStep g req rename) { seen := [], result := [] } = st at hi hall
  refine ⟨hi.resNodup, ?_, ?_, ?_, hi.disjoint, ?_⟩
  · intro k n hm; exact hi.plainOK k n ((mem_lookup_iff_nodup hi.resNodup).mp hm)
  · intro k inner top ext hm; exact hi.fusedOK k inner top ext ((mem_lookup_iff_nodup hi.resNodup).mp hm)
  · intro k n hm
    have hl := (mem_lookup_iff_nodup hnodup).mp hm
    exact hi.cover k n hl (hall k (mem_keys_of_lookup g k n hl)) (by simp)
  · intro k hk hg
    cases hl : g.lookup k with
    | none => rw [hl] at hg; cases hg
    | some n => exact hi.reqKept k hk (hall k (mem_keys_of_lookup g k n hl)) (by simp) (by simp [hl])

/-- **`fuse_linear_task_spec` preserves the requested values**: on every DAG with duplicate-free keys, for every set
    of requested keys and every renamer, all requested keys of the graph are keys of the result, and every key that is
    in both graphs computes the same value — whatever the cache holds for keys outside the graph. -/
theorem fuseLinearSpec_preserves_eval (g : NGraph) (req : List Obj) (rename : List Obj → Option Obj) {rank : Obj → Nat}
    (hnodup : (g.map Prod.fst).Nodup) (hdag : DagRank g rank) (cache : Obj → Option Obj) :
    (∀ k ∈ req, (g.lookup k).isSome → ((fuseLinearSpec g req rename).lookup k).isSome) ∧
    ∀ k, (g.lookup k).isSome → ((fuseLinearSpec g req rename).lookup k).isSome →
      ∀ v, ComputesF (fuseLinearSpec g req rename) cache k v ↔ Computes g cache k v := by
  have H := fuseLinearSpec_ok g req rename hnodup hdag
  refine ⟨H.reqKept, fun k hg ho v => ⟨?_, ?_⟩⟩
  · rintro ⟨f, hf⟩; exact fuse_backward H cache f k v (Or.inr ⟨hg, ho⟩) hf
  · rintro ⟨f, hf⟩; exact (fuse_forward H cache f).1 k v (Or.inr ⟨hg, ho⟩) hf

end Dask.TaskTerm
