import DaskModel.Model.AlignDivs
import DaskModel.Lemmas.Truthful
/-! Lemmas for the C39 extension (common divisions of aligned frames): `mergeSorted` / `uniq` / the fold over the
    frames keep membership and order; positions of members of a sorted list; the `force=True` guards of
    `RepartitionDivisions` accept the common divisions. -/
set_option linter.unusedSimpArgs false
set_option linter.unusedVariables false
namespace Dask.AlignDivs
open Dask.Align Dask.Divs

/-! ### `merge_sorted` -/

theorem mem_mergeSorted (x : Nat) : ∀ a b : List Nat, x ∈ mergeSorted a b ↔ x ∈ a ∨ x ∈ b := by
  intro a b
  fun_induction mergeSorted a b with
  | case1 ys => simp
  | case2 xs h => simp
  | case3 x xs y ys h ih =>
    simp only [List.mem_cons, ih]
    constructor
    · rintro (h | h | h | h) <;> simp [h]
    · rintro ((h | h) | (h | h)) <;> simp [h]
  | case4 x xs y ys h ih =>
    simp only [List.mem_cons, ih]
    constructor
    · rintro (h | (h | h) | h) <;> simp [h]
    · rintro ((h | h) | (h | h)) <;> simp [h]

theorem sorted_mergeSorted : ∀ a b : List Nat, a.Pairwise (· ≤ ·) → b.Pairwise (· ≤ ·) →
    (mergeSorted a b).Pairwise (· ≤ ·) := by
  intro a b
  fun_induction mergeSorted a b with
  | case1 ys => intro _ h; exact h
  | case2 xs h => intro h _; exact h
  | case3 x xs y ys h ih =>
    intro ha hb
    have ha' := List.pairwise_cons.mp ha
    have hb' := List.pairwise_cons.mp hb
    refine List.pairwise_cons.mpr ⟨?_, ih ha'.2 hb⟩
    intro z hz
    rcases (mem_mergeSorted z _ _).mp hz with hz | hz
    · exact ha'.1 z hz
    · rcases List.mem_cons.mp hz with rfl | hz
      · exact h
      · exact Nat.le_trans h (hb'.1 z hz)
  | case4 x xs y ys h ih =>
    intro ha hb
    have ha' := List.pairwise_cons.mp ha
    have hb' := List.pairwise_cons.mp hb
    have hyx : y ≤ x := by omega
    refine List.pairwise_cons.mpr ⟨?_, ih ha hb'.2⟩
    intro z hz
    rcases (mem_mergeSorted z _ _).mp hz with hz | hz
    · rcases List.mem_cons.mp hz with rfl | hz
      · exact hyx
      · exact Nat.le_trans hyx (ha'.1 z hz)
    · exact hb'.1 z hz

theorem mem_foldl_merge (x : Nat) : ∀ (ds : List (List Nat)) (acc : List Nat),
    x ∈ ds.foldl mergeSorted acc ↔ x ∈ acc ∨ ∃ d ∈ ds, x ∈ d
  | [], acc => by simp
  | d :: ds, acc => by
    rw [List.foldl_cons, mem_foldl_merge x ds, mem_mergeSorted]
    constructor
    · rintro ((h | h) | ⟨e, he, hx⟩)
      · exact Or.inl h
      · exact Or.inr ⟨d, List.mem_cons_self, h⟩
      · exact Or.inr ⟨e, List.mem_cons_of_mem _ he, hx⟩
    · rintro (h | ⟨e, he, hx⟩)
      · exact Or.inl (Or.inl h)
      · rcases List.mem_cons.mp he with rfl | he
        · exact Or.inl (Or.inr hx)
        · exact Or.inr ⟨e, he, hx⟩

theorem sorted_foldl_merge : ∀ (ds : List (List Nat)) (acc : List Nat), (∀ d ∈ ds, d.Pairwise (· ≤ ·)) →
    acc.Pairwise (· ≤ ·) → (ds.foldl mergeSorted acc).Pairwise (· ≤ ·)
  | [], acc, _, h => h
  | d :: ds, acc, hs, h => by
    rw [List.foldl_cons]
    exact sorted_foldl_merge ds _ (fun e he => hs e (List.mem_cons_of_mem _ he))
      (sorted_mergeSorted _ _ h (hs d List.mem_cons_self))

/-! ### `unique` on a sorted sequence -/

theorem mem_uniq (x : Nat) : ∀ l : List Nat, x ∈ uniq l ↔ x ∈ l := by
  intro l
  fun_induction uniq l with
  | case1 => simp
  | case2 y => simp
  | case3 b rest ih =>
    rw [ih]
    simp
  | case4 a b rest h ih =>
    simp only [List.mem_cons] at ih ⊢
    rw [ih]

theorem uniq_strict : ∀ l : List Nat, l.Pairwise (· ≤ ·) → (uniq l).Pairwise (· < ·) := by
  intro l
  fun_induction uniq l with
  | case1 => intro _; exact List.Pairwise.nil
  | case2 y => intro _; simp
  | case3 b rest ih => intro hl; exact ih (List.pairwise_cons.mp hl).2
  | case4 a b rest h ih =>
    intro hl
    have hl' := List.pairwise_cons.mp hl
    refine List.pairwise_cons.mpr ⟨?_, ih hl'.2⟩
    intro z hz
    have hz' := (mem_uniq z _).mp hz
    have h1 : a ≤ b := hl'.1 b List.mem_cons_self
    have h2 : b ≤ z := by
      rcases List.mem_cons.mp hz' with rfl | hz''
      · exact Nat.le_refl _
      · exact (List.pairwise_cons.mp hl'.2).1 z hz''
    omega

/-! ### the common divisions -/

/-- strictly increasing with at least two entries, or one value twice -/
def StrictOrPoint (c : List Nat) : Prop := (c.Pairwise (· < ·) ∧ 2 ≤ c.length) ∨ ∃ v, c = [v, v]

theorem commonDivs_spec (ds : List (List Nat)) (hs : ∀ d ∈ ds, d.Pairwise (· ≤ ·)) (hne : ∃ d ∈ ds, d ≠ []) :
    (∀ x, x ∈ commonDivs ds ↔ ∃ d ∈ ds, x ∈ d) ∧ StrictOrPoint (commonDivs ds) := by
  have hmem : ∀ x, x ∈ uniq (ds.foldl mergeSorted []) ↔ ∃ d ∈ ds, x ∈ d := by
    intro x
    rw [mem_uniq, mem_foldl_merge]
    simp
  have hstrict : (uniq (ds.foldl mergeSorted [])).Pairwise (· < ·) :=
    uniq_strict _ (sorted_foldl_merge ds [] hs List.Pairwise.nil)
  have hnonempty : uniq (ds.foldl mergeSorted []) ≠ [] := by
    obtain ⟨d, hd, hdne⟩ := hne
    obtain ⟨x, hx⟩ := List.exists_mem_of_ne_nil d hdne
    intro h
    have := (hmem x).mpr ⟨d, hd, hx⟩
    rw [h] at this
    simp at this
  unfold commonDivs unionDivsAll
  generalize uniq (ds.foldl mergeSorted []) = u at hmem hstrict hnonempty
  match u, hmem, hstrict, hnonempty with
  | [], _, _, h => exact absurd rfl h
  | [v], hmem, _, _ =>
    refine ⟨?_, Or.inr ⟨v, rfl⟩⟩
    intro x
    rw [← hmem x]
    simp
  | v :: w :: rest, hmem, hstrict, _ =>
    exact ⟨hmem, Or.inl ⟨hstrict, by simp⟩⟩

theorem StrictOrPoint.valid {c : List Nat} (h : StrictOrPoint c) : ValidDivs c := by
  rcases h with ⟨hs, hl⟩ | ⟨v, rfl⟩
  · refine ⟨hl, ?_, hs.imp (fun h => Nat.le_of_lt h)⟩
    exact hs.sublist (List.dropLast_sublist c)
  · exact ⟨by simp, by simp, by simp⟩

theorem StrictOrPoint.sorted {c : List Nat} (h : StrictOrPoint c) : c.Pairwise (· ≤ ·) := h.valid.2.2

/-- two members of a sorted list, the smaller one first: positions in that order -/
theorem positions_of_mem (c : List Nat) (hs : c.Pairwise (· ≤ ·)) (lo hi : Nat) (hlo : lo ∈ c) (hhi : hi ∈ c)
    (hle : lo ≤ hi) : ∃ j k : Nat, j ≤ k ∧ c[j]? = some lo ∧ c[k]? = some hi := by
  obtain ⟨j, hj, hjv⟩ := List.getElem_of_mem hlo
  obtain ⟨k, hk, hkv⟩ := List.getElem_of_mem hhi
  by_cases heq : lo = hi
  · subst heq
    exact ⟨j, j, Nat.le_refl _, by rw [List.getElem?_eq_getElem hj, hjv], by rw [List.getElem?_eq_getElem hj, hjv]⟩
  · refine ⟨j, k, ?_, by rw [List.getElem?_eq_getElem hj, hjv], by rw [List.getElem?_eq_getElem hk, hkv]⟩
    by_cases hjk : j ≤ k
    · exact hjk
    · have := (List.pairwise_iff_getElem.mp hs) k j hk hj (by omega)
      omega

/-- everything between two positions of a sorted list lies between the two values -/
theorem between_positions (c : List Nat) (hs : c.Pairwise (· ≤ ·)) (j k t : Nat) (lo hi v : Nat)
    (hj : c[j]? = some lo) (hk : c[k]? = some hi) (ht : c[t]? = some v) (hjt : j ≤ t) (htk : t ≤ k) :
    lo ≤ v ∧ v ≤ hi := by
  obtain ⟨hj', rfl⟩ := List.getElem?_eq_some_iff.mp hj
  obtain ⟨hk', rfl⟩ := List.getElem?_eq_some_iff.mp hk
  obtain ⟨ht', rfl⟩ := List.getElem?_eq_some_iff.mp ht
  have hp := List.pairwise_iff_getElem.mp hs
  constructor
  · rcases Nat.lt_or_eq_of_le hjt with h | h
    · exact hp j t hj' ht' h
    · subst h; exact Nat.le_refl _
  · rcases Nat.lt_or_eq_of_le htk with h | h
    · exact hp t k ht' hk' h
    · subst h; exact Nat.le_refl _

/-! ### first / last of a sorted list, the `force=True` guards -/

theorem head_le_of_sorted (c : List Nat) (hs : c.Pairwise (· ≤ ·)) (c0 x : Nat) (h0 : c.head? = some c0) (hx : x ∈ c) :
    c0 ≤ x := by
  match c, h0, hs, hx with
  | y :: ys, h0, hs, hx =>
    simp only [List.head?_cons, Option.some.injEq] at h0
    subst h0
    rcases List.mem_cons.mp hx with rfl | hx
    · exact Nat.le_refl _
    · exact (List.pairwise_cons.mp hs).1 x hx

theorem le_getLast_of_sorted (c : List Nat) (hs : c.Pairwise (· ≤ ·)) (cL x : Nat) (hL : c.getLast? = some cL)
    (hx : x ∈ c) : x ≤ cL := by
  have hr : c.reverse.Pairwise (· ≥ ·) := List.pairwise_reverse.mpr hs
  rw [← List.head?_reverse] at hL
  match hc : c.reverse, hL, hr with
  | y :: ys, h0, hr =>
    simp only [List.head?_cons, Option.some.injEq] at h0
    subst h0
    have hx' : x ∈ y :: ys := by rw [← hc]; exact List.mem_reverse.mpr hx
    rcases List.mem_cons.mp hx' with rfl | hx'
    · exact Nat.le_refl _
    · exact (List.pairwise_cons.mp hr).1 x hx'

theorem dlGuards_force (a c : List Nat) (ha : 2 ≤ a.length) (hc : 2 ≤ c.length) (a0 aL c0 cL : Nat)
    (ha0 : a.head? = some a0) (haL : a.getLast? = some aL) (hc0 : c.head? = some c0) (hcL : c.getLast? = some cL)
    (h0 : c0 ≤ a0) (hL : aL ≤ cL) : ∃ g, Repart.dlGuards a c true = some g := by
  have h2 : c.length - 2 < c.length := by omega
  unfold Repart.dlGuards
  have e1 : ¬ a.length < 2 := by omega
  have e2 : ¬ c.length < 2 := by omega
  simp only [e1, e2, if_false, ha0, haL, hc0, hcL, List.getElem?_eq_getElem h2, Option.bind_eq_bind, Option.bind_some,
    if_true]
  have : ¬ (a0 < c0 ∨ aL > cL) := by omega
  simp [this]

theorem exists_head_getLast (a : List Nat) (ha : 2 ≤ a.length) :
    ∃ a0 aL, a.head? = some a0 ∧ a.getLast? = some aL ∧ a0 ∈ a ∧ aL ∈ a := by
  have hne : a ≠ [] := by intro h; subst h; simp at ha
  exact ⟨a.head hne, a.getLast hne, List.head?_eq_some_head hne, List.getLast?_eq_some_getLast hne,
    List.head_mem hne, List.getLast_mem hne⟩

/-- every frame's divisions pass the guards of `Repartition(new_divisions=c, force=True)` as soon as `c` is sorted,
    has at least two entries and contains the frame's first and last division -/
theorem guards_of_cover (a c : List Nat) (ha : 2 ≤ a.length) (hc : 2 ≤ c.length) (hs : c.Pairwise (· ≤ ·))
    (hcov : ∀ x ∈ a, x ∈ c) : ∃ g, Repart.dlGuards a c true = some g := by
  obtain ⟨a0, aL, ha0, haL, hm0, hmL⟩ := exists_head_getLast a ha
  obtain ⟨c0, cL, hc0, hcL, _, _⟩ := exists_head_getLast c hc
  exact dlGuards_force a c ha hc a0 aL c0 cL ha0 haL hc0 hcL
    (head_le_of_sorted c hs c0 a0 hc0 (hcov a0 hm0)) (le_getLast_of_sorted c hs cL aL hcL (hcov aL hmL))

/-! ### min / max over all divisions -/

theorem foldl_min_le (xs : List Nat) : ∀ (m : Nat), xs.foldl min m ≤ m ∧ ∀ x ∈ xs, xs.foldl min m ≤ x := by
  induction xs with
  | nil => intro m; simp
  | cons y ys ih =>
    intro m
    rw [List.foldl_cons]
    obtain ⟨h1, h2⟩ := ih (min m y)
    refine ⟨by omega, ?_⟩
    intro x hx
    rcases List.mem_cons.mp hx with rfl | hx
    · omega
    · exact h2 x hx

theorem le_foldl_max (xs : List Nat) : ∀ (m : Nat), m ≤ xs.foldl max m ∧ ∀ x ∈ xs, x ≤ xs.foldl max m := by
  induction xs with
  | nil => intro m; simp
  | cons y ys ih =>
    intro m
    rw [List.foldl_cons]
    obtain ⟨h1, h2⟩ := ih (max m y)
    refine ⟨by omega, ?_⟩
    intro x hx
    rcases List.mem_cons.mp hx with rfl | hx
    · omega
    · exact h2 x hx

theorem minOf_le (xs : List Nat) (m : Nat) (h : minOf xs = some m) : ∀ x ∈ xs, m ≤ x := by
  match xs, h with
  | y :: ys, h =>
    simp only [minOf, Option.some.injEq] at h
    subst h
    intro x hx
    rcases List.mem_cons.mp hx with rfl | hx
    · exact (foldl_min_le ys _).1
    · exact (foldl_min_le ys _).2 x hx

theorem le_maxOf (xs : List Nat) (m : Nat) (h : maxOf xs = some m) : ∀ x ∈ xs, x ≤ m := by
  match xs, h with
  | y :: ys, h =>
    simp only [maxOf, Option.some.injEq] at h
    subst h
    intro x hx
    rcases List.mem_cons.mp hx with rfl | hx
    · exact (le_foldl_max ys _).1
    · exact (le_foldl_max ys _).2 x hx

theorem mapM_total {α β : Type} (f : α → Option β) : ∀ xs : List α, (∀ x ∈ xs, ∃ y, f x = some y) →
    ∃ ys, xs.mapM f = some ys
  | [], _ => ⟨[], by simp⟩
  | x :: xs, h => by
    obtain ⟨y, hy⟩ := h x List.mem_cons_self
    obtain ⟨ys, hys⟩ := mapM_total f xs fun z hz => h z (List.mem_cons_of_mem _ hz)
    exact ⟨y :: ys, by simp [List.mapM_cons, hy, hys]⟩

/-! ### helpers for the entry points / the plan (used by Props/C39xAlignDivs) -/

theorem allEqual_spec (d0 : List Nat) (rest : List (List Nat)) (h : allEqual (d0 :: rest) = true) :
    ∀ d ∈ d0 :: rest, d = d0 := by
  intro d hd
  rcases List.mem_cons.mp hd with rfl | hd
  · rfl
  · simp only [allEqual, List.all_eq_true] at h
    exact eq_of_beq (h d hd)

theorem spanDivs_spec (ds : List (List Nat)) (hne : ds ≠ []) (hv : ∀ d ∈ ds, ValidDivs d) :
    ∃ lo hi, spanDivs ds = some [lo, hi] ∧ lo ≤ hi ∧ ∀ d ∈ ds, ∀ x ∈ d, lo ≤ x ∧ x ≤ hi := by
  obtain ⟨d, hd⟩ := List.exists_mem_of_ne_nil ds hne
  have hdl := (hv d hd).1
  obtain ⟨x, hx⟩ := List.exists_mem_of_ne_nil d (by intro h; rw [h] at hdl; simp at hdl)
  have hxf : x ∈ ds.flatten := List.mem_flatten.mpr ⟨d, hd, hx⟩
  cases hmin : minOf ds.flatten with
  | none =>
    unfold minOf at hmin
    split at hmin
    · rename_i h; rw [h] at hxf; simp at hxf
    · simp at hmin
  | some lo =>
    cases hmax : maxOf ds.flatten with
    | none =>
      unfold maxOf at hmax
      split at hmax
      · rename_i h; rw [h] at hxf; simp at hxf
      · simp at hmax
    | some hi =>
      refine ⟨lo, hi, by simp [spanDivs, hmin, hmax], ?_, ?_⟩
      · exact Nat.le_trans (minOf_le _ _ hmin x hxf) (le_maxOf _ _ hmax x hxf)
      · intro e he y hy
        have : y ∈ ds.flatten := List.mem_flatten.mpr ⟨e, he, hy⟩
        exact ⟨minOf_le _ _ hmin y this, le_maxOf _ _ hmax y this⟩

theorem maxLen_le (ds : List (List Nat)) : ∀ (m : Nat), m ≤ ds.foldl (fun m d => max m d.length) m ∧
    ∀ d ∈ ds, d.length ≤ ds.foldl (fun m d => max m d.length) m := by
  induction ds with
  | nil => intro m; simp
  | cons e es ih =>
    intro m
    rw [List.foldl_cons]
    obtain ⟨h1, h2⟩ := ih (max m e.length)
    refine ⟨by omega, ?_⟩
    intro d hd
    rcases List.mem_cons.mp hd with rfl | hd
    · omega
    · exact h2 d hd

theorem maybeAlignLower_eq (ds : List (List Nat)) (d : List Nat) (hd : maybeAlignDivisions ds = some d) :
    maybeAlignLower ds = some (if (ds.length == 1 || allEqual ds) = true then Plan.asIs
      else if (d.length == 2 && maxLen ds == 2) = true then Plan.setDivisions d else Plan.repartition d) := by
  unfold maybeAlignLower
  simp only [hd, Option.bind_eq_bind, Option.bind_some]
  split
  · rfl
  · split <;> rfl

/-- a single-partition frame stays truthful when its two divisions are widened -/
theorem truthful_widen_single {α : Type} (key : α → Nat) (a : List Nat) (parts : List (List α))
    (ht : Truthful key a parts) (hl : a.length = 2) (lo hi : Nat) (h : ∀ x ∈ a, lo ≤ x ∧ x ≤ hi) :
    Truthful key [lo, hi] parts := by
  obtain ⟨hlen, hs, hrows⟩ := ht
  have h0 : 0 < a.length := by omega
  have h1 : 1 < a.length := by omega
  have b0 := h a[0] (List.getElem_mem h0)
  have b1 := h a[1] (List.getElem_mem h1)
  refine ⟨by simp; omega, by simp; omega, ?_⟩
  intro i p l u hp hl' hu r hr
  have hi' : i < parts.length := (List.getElem?_eq_some_iff.mp hp).1
  have hi0 : i = 0 := by omega
  subst hi0
  simp only [List.getElem?_cons_zero, List.getElem?_cons_succ, Option.some.injEq, Nat.zero_add] at hl' hu
  subst hl' hu
  obtain ⟨r1, r2⟩ := hrows 0 p a[0] a[1] hp (List.getElem?_eq_getElem h0) (List.getElem?_eq_getElem h1) r hr
  refine ⟨by omega, Or.inr ⟨by omega, ?_⟩⟩
  rcases r2 with r2 | ⟨_, r2⟩ <;> omega

theorem foldl_maxLen_le_two : ∀ (L : List (List Nat)) (m : Nat), m ≤ 2 → (∀ e ∈ L, e.length = 2) →
    L.foldl (fun m d => max m d.length) m ≤ 2 := by
  intro L
  induction L with
  | nil => intro m hm _; simpa using hm
  | cons x xs ih =>
    intro m hm hx
    rw [List.foldl_cons]
    apply ih
    · have := hx x List.mem_cons_self
      omega
    · exact fun e he => hx e (List.mem_cons_of_mem _ he)

end Dask.AlignDivs
