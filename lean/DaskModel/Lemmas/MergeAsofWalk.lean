import DaskModel.Lemmas.MergeAsof
/-! Lemmas for C39 (merge_asof): the walk of `pair_partitions` keeps an invariant (finished partitions certified, the open
    chain of pieces of the current left partition, `jj` in range) from which totality and the certificate follow. -/
set_option linter.unusedSimpArgs false
namespace Dask.MergeAsof

/-! ### `pair_partitions` always builds a certified plan -/

/-- an open chain of pieces: each closed above, consecutive, non-decreasing; `nxt` = the bound the next piece starts at -/
def chainTo (li : Nat) : Nat → List Piece → Nat → Prop
  | lo, [], nxt => nxt = lo
  | lo, p :: J, nxt => (normLower li p).lower = some lo ∧ ∃ b, p.upper = some b ∧ lo ≤ b ∧ chainTo li b J nxt

theorem chainTo_snoc (li : Nat) : ∀ (J : List Piece) (lo nxt : Nat) (q : Piece) (b : Nat), chainTo li lo J nxt →
    (normLower li q).lower = some nxt → q.upper = some b → nxt ≤ b → chainTo li lo (J ++ [q]) b
  | [], lo, nxt, q, b, h, hq, hu, hle => by
    simp only [chainTo] at h
    subst h
    exact ⟨hq, b, hu, hle, rfl⟩
  | p :: J, lo, nxt, q, b, h, hq, hu, hle => by
    obtain ⟨h1, b', h2, h3, h4⟩ := h
    exact ⟨h1, b', h2, h3, chainTo_snoc li J b' nxt q b h4 hq hu hle⟩

theorem chainTo_close (li : Nat) : ∀ (J : List Piece) (lo nxt : Nat) (q : Piece), chainTo li lo J nxt →
    (normLower li q).lower = some nxt → q.upper = none → tiles (some lo) ((J ++ [q]).map (normLower li)) = true
  | [], lo, nxt, q, h, hq, hu => by
    simp only [chainTo] at h
    subst h
    have hu' : (normLower li q).upper = none := by simp [normLower, hu]
    simp only [List.nil_append, List.map_cons, List.map_nil, tiles, hq, hu', beq_self_eq_true, Bool.and_self]
  | p :: J, lo, nxt, q, h, hq, hu => by
    obtain ⟨h1, b', h2, h3, h4⟩ := h
    have ih := chainTo_close li J b' nxt q h4 hq hu
    cases hJ : J ++ [q] with
    | nil => simp at hJ
    | cons x xs =>
      rw [hJ] at ih
      simp only [List.cons_append, hJ, List.map_cons, tiles, h1, beq_self_eq_true, Bool.true_and]
      have : (normLower li p).upper = some b' := by simp [normLower, h2]
      rw [this]
      simp only [decide_eq_true_eq.mpr h3, Bool.true_and]
      exact ih

theorem planOKFrom_snoc (L R : List Nat) (n m : Nat) : ∀ (res : List (List Piece)) (i : Nat) (J : List Piece),
    planOKFrom L R n m i res = true →
    ((match L[i + res.length]? with | some li => tilesFrom li J | none => false) && J.all (pieceOK L R n m (i + res.length))) = true →
    planOKFrom L R n m i (res ++ [J]) = true
  | [], i, J, _, h => by
    simp only [List.length_nil, Nat.add_zero] at h
    simp only [List.nil_append, planOKFrom, Bool.and_true]
    exact h
  | X :: res, i, J, h0, h => by
    simp only [planOKFrom, Bool.and_eq_true] at h0
    simp only [List.cons_append, planOKFrom, Bool.and_eq_true]
    refine ⟨h0.1, planOKFrom_snoc L R n m res (i + 1) J h0.2 ?_⟩
    simpa [Nat.add_assoc, Nat.add_comm 1] using h

/-- the value a list holds at a position (a name `simp` leaves alone) -/
def gv (l : List Nat) (t : Nat) : Nat := l.getD t 0

theorem getD_get? (l : List Nat) (t : Nat) (h : t < l.length) : l[t]? = some (gv l t) := by
  simp [gv, List.getD, List.getElem?_eq_getElem h]

theorem sorted_getD_le (l : List Nat) (hs : l.Pairwise (· ≤ ·)) (a b : Nat) (hab : a ≤ b) (hb : b < l.length) :
    gv l a ≤ gv l b :=
  sorted_get_le l hs a b hab _ _ (getD_get? l a (by omega)) (getD_get? l b hb)

/-- the piece the walk emits at `(i, jj)`, in terms of the values it reads -/
def pieceAt (li li1 rp rj : Nat) (n m i jj : Nat) : Piece :=
  ⟨partOf jj m, if jj = 0 then none else if rp > li then some rp else none,
   if jj < m then (if rj < li1 ∨ (rj = li1 ∧ i = n - 1) then some rj else none) else none⟩

theorem pieceOf_eval (L R : List Nat) (n m i jj : Nat) (hL : L.length = n + 1) (hR : R.length = m + 1) (hi : i < n)
    (hjj : jj ≤ m) :
    pieceOf L R n m i jj = some (pieceAt (gv L i) (gv L (i + 1)) (gv R (jj - 1)) (gv R jj) n m i jj) := by
  have eLi : L[i]? = some (gv L i) := getD_get? L i (by omega)
  have eLi1 : L[i + 1]? = some (gv L (i + 1)) := getD_get? L (i + 1) (by omega)
  have eRj : R[jj]? = some (gv R jj) := getD_get? R jj (by omega)
  have eRp : R[jj - 1]? = some (gv R (jj - 1)) := getD_get? R (jj - 1) (by omega)
  unfold pieceOf lowerOf upperOf pieceAt
  simp only [eLi, eLi1, eRj, eRp]
  by_cases h0 : jj = 0
  · by_cases hm : jj < m
    · simp only [h0, if_true]; simp only [← h0, hm, if_true]
    · simp only [h0, if_true]; simp only [← h0, hm, if_false]
  · by_cases hm : jj < m
    · simp only [h0, hm, if_true, if_false]
    · simp only [h0, hm, if_false]

theorem piece_norm (li li1 rp rj n m i jj : Nat) :
    (normLower li (pieceAt li li1 rp rj n m i jj)).lower = some (max li (if jj = 0 then 0 else rp)) := by
  unfold normLower pieceAt
  by_cases h0 : jj = 0
  · simp [h0]
  · by_cases h : rp > li
    · simp [h0, h]; omega
    · simp [h0, h]; omega

/-- the upper-bound clause of `pieceOK` for the piece of `(i, jj)` when `R[part + 1]` is the value `r1 ≥ rj` -/
theorem upper_clause (li1 rj r1 n i : Nat) (h1 : rj ≤ r1) :
    (match (if rj < li1 ∨ (rj = li1 ∧ i = n - 1) then some rj else none : Option Nat) with
     | some b => decide (b ≤ r1)
     | none => if i + 1 = n then decide (li1 < r1) else decide (li1 ≤ r1)) = true := by
  by_cases hc : rj < li1 ∨ (rj = li1 ∧ i = n - 1)
  · simp only [hc, if_true, decide_eq_true_eq]; exact h1
  · simp only [hc, if_false]
    by_cases hn : i + 1 = n
    · simp only [hn, if_true, decide_eq_true_eq]; omega
    · simp only [hn, if_false, decide_eq_true_eq]; omega

theorem piece_ok (L R : List Nat) (n m i jj : Nat) (hL : L.length = n + 1) (hR : R.length = m + 1) (hm : 1 ≤ m)
    (sR : R.Pairwise (· ≤ ·)) (hi : i < n) (hjj : jj ≤ m) :
    pieceOK L R n m i (pieceAt (gv L i) (gv L (i + 1)) (gv R (jj - 1)) (gv R jj) n m i jj) = true := by
  have eLi : L[i]? = some (gv L i) := getD_get? L i (by omega)
  have eLi1 : L[i + 1]? = some (gv L (i + 1)) := getD_get? L (i + 1) (by omega)
  unfold pieceOK pieceAt partOf
  by_cases h0 : jj = 0
  · have hp : min (m - 1) (jj - 1) = 0 := by omega
    simp only [hp, Nat.zero_add, beq_self_eq_true, Bool.true_or, Bool.and_true, Bool.and_eq_true, decide_eq_true_eq,
      Bool.or_eq_true, beq_iff_eq]
    refine ⟨by omega, ?_⟩
    by_cases hm1 : 1 = m
    · exact Or.inl hm1
    · right
      have e1 : R[1]? = some (gv R 1) := getD_get? R 1 (by omega)
      have hle : gv R jj ≤ gv R 1 := sorted_getD_le R sR jj 1 (by omega) (by omega)
      have hm2 : jj < m := by omega
      simp only [hm2, if_true, e1, eLi1]
      exact upper_clause _ _ _ _ _ hle
  · have hp : min (m - 1) (jj - 1) = jj - 1 := by omega
    have eRp : R[jj - 1]? = some (gv R (jj - 1)) := getD_get? R (jj - 1) (by omega)
    have eRj : R[jj - 1 + 1]? = some (gv R jj) := by
      rw [show jj - 1 + 1 = jj by omega]; exact getD_get? R jj (by omega)
    simp only [hp, h0, if_false, Bool.and_eq_true, decide_eq_true_eq, Bool.or_eq_true, beq_iff_eq, eRp, eRj, eLi, eLi1]
    refine ⟨⟨by omega, ?_⟩, ?_⟩
    · right
      by_cases h : gv R (jj - 1) > gv L i
      · simp only [h, if_true, decide_eq_true_eq]; omega
      · simp only [h, if_false, decide_eq_true_eq]; omega
    · by_cases hjm : jj < m
      · right
        simp only [hjm, if_true]
        exact upper_clause _ _ _ _ _ (Nat.le_refl _)
      · left; omega

/-- the state of the walk is sound: finished partitions certified, the open chain of the current one, `jj` in range -/
structure WalkInv (L R : List Nat) (n m i jj : Nat) (J : List Piece) (res : List (List Piece)) : Prop where
  hi : i ≤ n
  hres : res.length = i
  hok : planOKFrom L R n m 0 res = true
  hjj : i < n → jj ≤ m
  hchain : i < n → chainTo (gv L i) (gv L i) J (max (gv L i) (if jj = 0 then 0 else gv R (jj - 1)))
  hpieces : i < n → ∀ p ∈ J, pieceOK L R n m i p = true
  hnext : i < n → jj < m → gv L i ≤ gv R jj
  hprev : i < n → 1 ≤ jj → gv R (jj - 1) ≤ gv L (i + 1)

theorem nextI_eval (R : List Nat) (m : Nat) (hR : R.length = m + 1) (li1 jj i n : Nat) (hjj : jj ≤ m) :
    nextI R li1 jj m i n = some (if jj = m then i + 1 else if i + 1 < n then (if gv R jj ≥ li1 then i + 1 else i) else i) := by
  unfold nextI
  rw [getD_get? R jj (by omega)]
  by_cases h1 : jj = m <;> by_cases h2 : i + 1 < n <;> simp [h1, h2]

theorem nextJ_eval (R : List Nat) (m : Nat) (hR : R.length = m + 1) (li1 jj i n : Nat) (hjj : jj ≤ m) :
    nextJ R li1 jj m i n = some (if i + 1 = n then jj + 1 else if jj < m then (if li1 ≥ gv R jj then jj + 1 else jj) else jj) := by
  unfold nextJ
  rw [getD_get? R jj (by omega)]
  by_cases h1 : i + 1 = n <;> by_cases h2 : jj < m <;> simp [h1, h2]

/-- finishing left partition `i` with the piece of `(i, jj)` whose upper bound is open -/
theorem close_partition (L R : List Nat) (n m i jj : Nat) (J : List Piece) (res : List (List Piece))
    (hL : L.length = n + 1) (hR : R.length = m + 1) (hm : 1 ≤ m) (sR : R.Pairwise (· ≤ ·))
    (inv : WalkInv L R n m i jj J res) (hin : i < n)
    (hup : (pieceAt (gv L i) (gv L (i + 1)) (gv R (jj - 1)) (gv R jj) n m i jj).upper = none) :
    planOKFrom L R n m 0 (res ++ [J ++ [pieceAt (gv L i) (gv L (i + 1)) (gv R (jj - 1)) (gv R jj) n m i jj]]) = true := by
  apply planOKFrom_snoc L R n m res 0 _ inv.hok
  rw [Nat.zero_add, inv.hres, getD_get? L i (by omega)]
  simp only [Bool.and_eq_true, List.all_eq_true]
  refine ⟨chainTo_close _ J _ _ _ (inv.hchain hin) (piece_norm _ _ _ _ _ _ _ _) hup, ?_⟩
  intro p hp
  rcases List.mem_append.mp hp with h | h
  · exact inv.hpieces hin p h
  · simp only [List.mem_singleton] at h
    subst h
    exact piece_ok L R n m i jj hL hR hm sR hin (inv.hjj hin)

theorem pairLoop_ok (L R : List Nat) (n m : Nat) (hL : L.length = n + 1) (hR : R.length = m + 1) (hm : 1 ≤ m)
    (sL : L.Pairwise (· ≤ ·)) (sR : R.Pairwise (· ≤ ·)) :
    ∀ (fuel i jj : Nat) (J : List Piece) (res : List (List Piece)), WalkInv L R n m i jj J res →
      (n - i) + (m + 1 - jj) + 1 ≤ fuel →
      ∃ plan, pairLoop L R n m fuel i jj J res = some plan ∧ plan.length = n ∧ planOKFrom L R n m 0 plan = true
  | 0, _, _, _, _, _, hf => by omega
  | fuel + 1, i, jj, J, res, inv, hf => by
    by_cases hin : i < n
    · have hjj := inv.hjj hin
      have eLi1 : L[i + 1]? = some (gv L (i + 1)) := getD_get? L (i + 1) (by omega)
      have eLn : L[n]? = some (gv L n) := getD_get? L n (by omega)
      have hpiece := pieceOf_eval L R n m i jj hL hR hin hjj
      have hI := nextI_eval R m hR (gv L (i + 1)) jj i n hjj
      have hJn := nextJ_eval R m hR (gv L (i + 1)) jj i n hjj
      generalize hp : pieceAt (gv L i) (gv L (i + 1)) (gv R (jj - 1)) (gv R jj) n m i jj = p at hpiece
      have hpu : p.upper = if jj < m then (if gv R jj < gv L (i + 1) ∨ (gv R jj = gv L (i + 1) ∧ i = n - 1) then some (gv R jj) else none) else none := by
        rw [← hp]; rfl
      generalize hi1 : (if jj = m then i + 1 else if i + 1 < n then (if gv R jj ≥ gv L (i + 1) then i + 1 else i) else i) = i1 at hI
      generalize hj1 : (if i + 1 = n then jj + 1 else if jj < m then (if gv L (i + 1) ≥ gv R jj then jj + 1 else jj) else jj) = jj1 at hJn
      have hIc : (i1 = i + 1 ∧ (jj = m ∨ (jj < m ∧ i + 1 < n ∧ gv R jj ≥ gv L (i + 1)))) ∨
          (i1 = i ∧ jj < m ∧ ¬ (i + 1 < n ∧ gv R jj ≥ gv L (i + 1))) := by
        by_cases h1 : jj = m
        · have hv : i1 = i + 1 := by rw [← hi1]; simp [h1]
          exact Or.inl ⟨hv, Or.inl h1⟩
        · by_cases h2 : i + 1 < n
          · by_cases h3 : gv R jj ≥ gv L (i + 1)
            · have hv : i1 = i + 1 := by rw [← hi1]; simp [h1, h2, h3]
              exact Or.inl ⟨hv, Or.inr ⟨by omega, h2, h3⟩⟩
            · have hv : i1 = i := by rw [← hi1]; simp [h1, h2, h3]
              exact Or.inr ⟨hv, by omega, fun h => h3 h.2⟩
          · have hv : i1 = i := by rw [← hi1]; simp [h1, h2]
            exact Or.inr ⟨hv, by omega, fun h => h2 h.1⟩
      have hJc : (i + 1 = n ∧ jj1 = jj + 1) ∨ (i + 1 ≠ n ∧ jj < m ∧ gv L (i + 1) ≥ gv R jj ∧ jj1 = jj + 1) ∨
          (i + 1 ≠ n ∧ ¬ (jj < m ∧ gv L (i + 1) ≥ gv R jj) ∧ jj1 = jj) := by
        by_cases h1 : i + 1 = n
        · have hv : jj1 = jj + 1 := by rw [← hj1]; simp [h1]
          exact Or.inl ⟨h1, hv⟩
        · by_cases h2 : jj < m
          · by_cases h3 : gv L (i + 1) ≥ gv R jj
            · have hv : jj1 = jj + 1 := by rw [← hj1]; simp [h1, h2, h3]
              exact Or.inr (Or.inl ⟨h1, h2, h3, hv⟩)
            · have hv : jj1 = jj := by rw [← hj1]; simp [h1, h2, h3]
              exact Or.inr (Or.inr ⟨h1, fun h => h3 h.2, hv⟩)
          · have hv : jj1 = jj := by rw [← hj1]; simp [h1, h2]
            exact Or.inr (Or.inr ⟨h1, fun h => h2 h.1, hv⟩)
      clear hi1 hj1
      have hprevi := inv.hprev hin
      have hnexti := inv.hnext hin
      unfold pairLoop
      simp only [hin, if_true, hpiece, eLi1, hI, hJn]
      rcases hIc with ⟨hi1, hcase⟩ | ⟨hi1, hjm, hnadv⟩
      · -- the partition is finished
        subst hi1
        have hup : p.upper = none := by
          rw [hpu]
          rcases hcase with h | ⟨h1, h2, h3⟩
          · simp [h]
          · have : ¬ (gv R jj < gv L (i + 1) ∨ (gv R jj = gv L (i + 1) ∧ i = n - 1)) := by omega
            simp [h1, this]
        have hclose := close_partition L R n m i jj J res hL hR hm sR inv hin (by rw [hp]; exact hup)
        rw [hp] at hclose
        have hgt : i + 1 > i := by omega
        simp only [hgt, if_true]
        apply pairLoop_ok L R n m hL hR hm sL sR fuel (i + 1) jj1 [] (res ++ [J ++ [p]])
        · refine ⟨by omega, by simp [inv.hres], hclose, ?_, ?_, by intro _ q hq; simp at hq, ?_, ?_⟩
          · intro h
            rcases hJc with ⟨h1, _⟩ | ⟨_, h2, _, h4⟩ | ⟨_, _, h4⟩ <;> omega
          · intro h
            show (max (gv L (i + 1)) (if jj1 = 0 then 0 else gv R (jj1 - 1))) = gv L (i + 1)
            by_cases hz : jj1 = 0
            · simp [hz]
            · simp only [hz, if_false]
              apply Nat.max_eq_left
              rcases hJc with ⟨h1, _⟩ | ⟨_, _, h3, h4⟩ | ⟨_, _, h4⟩
              · omega
              · rw [h4, Nat.add_sub_cancel]; exact h3
              · rw [h4]; exact hprevi (by omega)
          · intro h hlt
            rcases hJc with ⟨h1, _⟩ | ⟨_, h2, h3, h4⟩ | ⟨_, h3, h4⟩
            · omega
            · rw [h4]
              have := sorted_getD_le R sR jj (jj + 1) (by omega) (by omega)
              rcases hcase with hc | ⟨_, _, hc⟩ <;> omega
            · rw [h4]
              rcases hcase with hc | ⟨_, _, hc⟩
              · omega
              · exact hc
          · intro h hone
            have hLs := sorted_getD_le L sL (i + 1) (i + 1 + 1) (by omega) (by omega)
            rcases hJc with ⟨h1, _⟩ | ⟨_, _, h3, h4⟩ | ⟨_, _, h4⟩
            · omega
            · rw [h4, Nat.add_sub_cancel]; omega
            · rw [h4]; have := hprevi (by omega); omega
        · rcases hJc with ⟨_, h4⟩ | ⟨_, _, _, h4⟩ | ⟨_, _, h4⟩ <;> omega
      · -- the partition goes on (or the walk breaks off at the last left division)
        have hi1' : i = i1 := hi1.symm
        subst hi1'
        have hj1 : jj1 = jj + 1 := by
          rcases hJc with ⟨_, h4⟩ | ⟨_, _, _, h4⟩ | ⟨h1, h3, _⟩
          · exact h4
          · exact h4
          · exfalso; omega
        subst hj1
        have eRj : R[jj]? = some (gv R jj) := getD_get? R jj (by omega)
        have hngt : ¬ i > i := by omega
        simp only [hngt, if_false, breakNow, Nat.add_sub_cancel, eRj, eLn]
        -- does the walk break off here?
        by_cases hbr : i = n - 1 ∧ gv R jj > gv L n
        · obtain ⟨hlast, hgt⟩ := hbr
          have hn1 : i + 1 = n := by omega
          simp only [hlast, if_true, hgt, decide_true]
          have hup : p.upper = none := by
            rw [hpu]
            have hLn : gv L (i + 1) = gv L n := by rw [hn1]
            have : ¬ (gv R jj < gv L (i + 1) ∨ (gv R jj = gv L (i + 1) ∧ i = n - 1)) := by rw [hLn]; omega
            simp [hjm, this]
          have hclose := close_partition L R n m i jj J res hL hR hm sR inv hin (by rw [hp]; exact hup)
          rw [hp] at hclose
          refine ⟨_, rfl, ?_, hclose⟩
          simp [inv.hres]; omega
        · -- no: the piece is closed above by `R[jj]`, the walk moves on to the next right partition
          have hle : i = n - 1 → gv R jj ≤ gv L n := by intro h; omega
          have hup : p.upper = some (gv R jj) := by
            rw [hpu]
            have : gv R jj < gv L (i + 1) ∨ (gv R jj = gv L (i + 1) ∧ i = n - 1) := by
              by_cases h1 : i + 1 < n
              · left; omega
              · have hl : i = n - 1 := by omega
                have hLn : gv L (i + 1) = gv L n := by rw [show i + 1 = n by omega]
                have := hle hl
                rw [hLn]; omega
            simp [hjm, this]
          have hcont : (if i = n - 1 then some (decide (gv R jj > gv L n)) else some false) = some false := by
            by_cases hl : i = n - 1
            · have : ¬ gv R jj > gv L n := by intro h; exact hbr ⟨hl, h⟩
              simp [hl, this]
            · simp [hl]
          rw [hcont]
          simp only []
          have hRle : gv R (jj - 1) ≤ gv R jj := sorted_getD_le R sR (jj - 1) jj (by omega) (by omega)
          have hRnext : jj + 1 < m → gv R jj ≤ gv R (jj + 1) := fun h => sorted_getD_le R sR jj (jj + 1) (by omega) (by omega)
          have hli : gv L i ≤ gv R jj := hnexti hjm
          apply pairLoop_ok L R n m hL hR hm sL sR fuel i (jj + 1) (J ++ [p]) res
          · refine ⟨inv.hi, inv.hres, inv.hok, fun _ => by omega, ?_, ?_, ?_, ?_⟩
            · intro _
              have hch := chainTo_snoc _ J _ _ p (gv R jj) (inv.hchain hin) (by rw [← hp]; exact piece_norm _ _ _ _ _ _ _ _) hup
                (by
                  by_cases hz : jj = 0
                  · simp only [hz, if_true, Nat.max_zero]; rw [← hz]; exact hli
                  · simp only [hz, if_false]; omega)
              have : (max (gv L i) (if jj + 1 = 0 then 0 else gv R (jj + 1 - 1))) = gv R jj := by
                simp only [Nat.add_one_ne_zero, if_false, Nat.add_sub_cancel]; omega
              rw [this]; exact hch
            · intro _ q hq
              rcases List.mem_append.mp hq with h | h
              · exact inv.hpieces hin q h
              · simp only [List.mem_singleton] at h
                subst h
                rw [← hp]
                exact piece_ok L R n m i jj hL hR hm sR hin hjj
            · intro _ h
              have := hRnext h; omega
            · intro _ _
              rw [Nat.add_sub_cancel]
              by_cases h1 : i + 1 < n
              · omega
              · have hl : i = n - 1 := by omega
                have hLn : gv L (i + 1) = gv L n := by rw [show i + 1 = n by omega]
                rw [hLn]; exact hle hl
          · omega
    · have hi : i = n := by have := inv.hi; omega
      refine ⟨res, ?_, by rw [inv.hres, hi], inv.hok⟩
      unfold pairLoop
      simp [hin]

theorem initLoop_spec (R : List Nat) (l0 m : Nat) (hR : R.length = m + 1) :
    ∀ (fuel jj : Nat), jj ≤ m → (1 ≤ jj → gv R (jj - 1) ≤ l0) → m + 1 - jj + 1 ≤ fuel →
      ∃ jj', initLoop R l0 m fuel jj = some jj' ∧ jj' ≤ m ∧ (1 ≤ jj' → gv R (jj' - 1) ≤ l0) ∧ (jj' < m → l0 < gv R jj')
  | 0, _, _, _, hf => by omega
  | fuel + 1, jj, hjj, hprev, hf => by
    unfold initLoop
    by_cases hlt : jj < m
    · rw [getD_get? R jj (by omega)]
      simp only [hlt, if_true]
      by_cases hle : gv R jj ≤ l0
      · simp only [hle, if_true]
        exact initLoop_spec R l0 m hR fuel (jj + 1) (by omega) (by intro _; rw [Nat.add_sub_cancel]; exact hle) (by omega)
      · simp only [hle, if_false]
        exact ⟨jj, rfl, hjj, hprev, fun _ => by omega⟩
    · simp only [hlt, if_false]
      exact ⟨jj, rfl, hjj, hprev, fun h => absurd h hlt⟩

end Dask.MergeAsof
