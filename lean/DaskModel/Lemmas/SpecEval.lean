import DaskModel.Model.SpecOpt
import DaskModel.Lemmas.NodeEval
/-! Least-fixpoint reading of the fuel-indexed evaluators: `Computes g cache k v` = "some evaluation depth yields `v`".
    Monotonicity in fuel and cache, and the transfer lemma used by every pass-preserves-values proof. -/
namespace Dask.TaskTerm

/-- key `k` of the task-spec graph `g` evaluates to `v` (keys outside the graph are read from `cache`) -/
def Computes (g : NGraph) (cache : Obj → Option Obj) (k v : Obj) : Prop := ∃ fuel, evalKeyN g cache fuel k = some v

/-- the same for a graph with fused tasks -/
def ComputesF (g : FGraph) (cache : Obj → Option Obj) (k v : Obj) : Prop := ∃ fuel, evalKeyF g cache fuel k = some v

theorem evalKeyN_mono_cache (g : NGraph) {c c' : Obj → Option Obj} (hle : EnvLe c c') :
    ∀ fuel, EnvLe (evalKeyN g c fuel) (evalKeyN g c' fuel)
  | 0 => fun _ _ h => by simp [evalKeyN] at h
  | fuel + 1 => fun k v h => by
    simp only [evalKeyN] at h ⊢
    cases hl : g.lookup k with
    | none => rw [hl] at h; exact hle k v h
    | some n => rw [hl] at h; exact evalNode_mono (evalKeyN_mono_cache g hle fuel) h

theorem evalKeyN_succ (g : NGraph) (c : Obj → Option Obj) : ∀ fuel, EnvLe (evalKeyN g c fuel) (evalKeyN g c (fuel + 1))
  | 0 => fun _ _ h => by simp [evalKeyN] at h
  | fuel + 1 => fun k v h => by
    simp only [evalKeyN] at h ⊢
    cases hl : g.lookup k with
    | none => rw [hl] at h; exact h
    | some n => rw [hl] at h; exact evalNode_mono (evalKeyN_succ g c fuel) h

theorem evalKeyN_mono_fuel (g : NGraph) (c : Obj → Option Obj) {f f' : Nat} (hff : f ≤ f') :
    EnvLe (evalKeyN g c f) (evalKeyN g c f') := by
  induction hff with
  | refl => exact EnvLe.refl _
  | step _ ih => exact ih.trans (evalKeyN_succ g c _)

/-- mono in cache and fuel together -/
theorem evalKeyN_mono (g : NGraph) {c c' : Obj → Option Obj} (hle : EnvLe c c') {f f' : Nat} (hff : f ≤ f') :
    EnvLe (evalKeyN g c f) (evalKeyN g c' f') :=
  (evalKeyN_mono_cache g hle f).trans (evalKeyN_mono_fuel g c' hff)

theorem extCache_mono (ext : List Obj) {e e' : Obj → Option Obj} (hle : EnvLe e e') : EnvLe (extCache ext e) (extCache ext e') := by
  intro k v h
  unfold extCache at h ⊢
  split
  · rename_i hc; rw [if_pos hc] at h; exact hle k v h
  · rename_i hc; rw [if_neg hc] at h; cases h

theorem evalFNode_mono {e e' : Obj → Option Obj} (hle : EnvLe e e') {f f' : Nat} (hff : f ≤ f') (n : FNode) (v : Obj)
    (h : evalFNode e f n = some v) : evalFNode e' f' n = some v := by
  cases n with
  | plain n => exact evalNode_mono hle h
  | fused inner out ext => exact evalKeyN_mono inner (extCache_mono ext hle) hff out v h

theorem evalKeyF_succ (g : FGraph) (c : Obj → Option Obj) : ∀ fuel, EnvLe (evalKeyF g c fuel) (evalKeyF g c (fuel + 1))
  | 0 => fun _ _ h => by simp [evalKeyF] at h
  | fuel + 1 => fun k v h => by
    simp only [evalKeyF] at h ⊢
    cases hl : g.lookup k with
    | none => rw [hl] at h; exact h
    | some n => rw [hl] at h; exact evalFNode_mono (evalKeyF_succ g c fuel) (Nat.le_succ _) n v h

theorem evalKeyF_mono_fuel (g : FGraph) (c : Obj → Option Obj) {f f' : Nat} (hff : f ≤ f') :
    EnvLe (evalKeyF g c f) (evalKeyF g c f') := by
  induction hff with
  | refl => exact EnvLe.refl _
  | step _ ih => exact ih.trans (evalKeyF_succ g c _)

/-- values are unique -/
theorem Computes.unique {g : NGraph} {c : Obj → Option Obj} {k v w : Obj} (h1 : Computes g c k v) (h2 : Computes g c k w) :
    v = w := by
  obtain ⟨f1, h1⟩ := h1
  obtain ⟨f2, h2⟩ := h2
  have a := evalKeyN_mono_fuel g c (Nat.le_max_left f1 f2) k v h1
  have b := evalKeyN_mono_fuel g c (Nat.le_max_right f1 f2) k w h2
  rw [a] at b; cases b; rfl

theorem ComputesF.unique {g : FGraph} {c : Obj → Option Obj} {k v w : Obj} (h1 : ComputesF g c k v) (h2 : ComputesF g c k w) :
    v = w := by
  obtain ⟨f1, h1⟩ := h1
  obtain ⟨f2, h2⟩ := h2
  have a := evalKeyF_mono_fuel g c (Nat.le_max_left f1 f2) k v h1
  have b := evalKeyF_mono_fuel g c (Nat.le_max_right f1 f2) k w h2
  rw [a] at b; cases b; rfl

/-- a monotone family of environments -/
def MonoFam (E : Nat → Obj → Option Obj) : Prop := ∀ f, EnvLe (E f) (E (f + 1))

theorem MonoFam.le {E : Nat → Obj → Option Obj} (hE : MonoFam E) {f f' : Nat} (hff : f ≤ f') : EnvLe (E f) (E f') := by
  induction hff with
  | refl => exact EnvLe.refl _
  | step _ ih => exact ih.trans (hE _)

/-- finitely many values reached at some depth each are all reached at one common depth -/
theorem uniform_depth {E : Nat → Obj → Option Obj} (hE : MonoFam E) (env : Obj → Option Obj) :
    ∀ ds : List Obj, (∀ d ∈ ds, ∀ w, env d = some w → ∃ f, E f d = some w) →
      ∃ F, ∀ d ∈ ds, ∀ w, env d = some w → E F d = some w
  | [], _ => ⟨0, fun _ h => by simp at h⟩
  | d :: ds, h => by
    obtain ⟨F, hF⟩ := uniform_depth hE env ds (fun x hx => h x (List.mem_cons_of_mem _ hx))
    cases hd : env d with
    | none =>
      refine ⟨F, fun x hx w hw => ?_⟩
      rcases List.mem_cons.mp hx with rfl | hx
      · rw [hd] at hw; cases hw
      · exact hF x hx w hw
    | some w0 =>
      obtain ⟨f0, hf0⟩ := h d (by simp) w0 hd
      refine ⟨max F f0, fun x hx w hw => ?_⟩
      rcases List.mem_cons.mp hx with rfl | hx
      · rw [hd] at hw; cases hw
        exact hE.le (Nat.le_max_right F f0) _ _ hf0
      · exact hE.le (Nat.le_max_left F f0) _ _ (hF x hx w hw)

/-- **Transfer lemma.** If a node evaluates to `v` in `env`, and every value `env` gives to one of the node's
    dependencies is eventually given by the monotone family `E`, then the node eventually evaluates to `v` in `E`. -/
theorem transfer {E : Nat → Obj → Option Obj} (hE : MonoFam E) {env : Obj → Option Obj} {n : Node} {v : Obj}
    (h : evalNode env n = some v) (hd : ∀ d ∈ n.deps, ∀ w, env d = some w → ∃ f, E f d = some w) :
    ∃ F, ∀ F', F ≤ F' → evalNode (E F') n = some v := by
  obtain ⟨F, hF⟩ := uniform_depth hE env n.deps hd
  refine ⟨F, fun F' hFF' => ?_⟩
  rw [← h]
  symm
  apply evalNode_congr
  intro d hdm
  obtain ⟨w, hw⟩ := evalNode_some_deps h d hdm
  rw [hw, hE.le hFF' _ _ (hF d hdm w hw)]

theorem monoFam_evalKeyN (g : NGraph) (c : Obj → Option Obj) : MonoFam (evalKeyN g c) := evalKeyN_succ g c
theorem monoFam_evalKeyF (g : FGraph) (c : Obj → Option Obj) : MonoFam (evalKeyF g c) := evalKeyF_succ g c

end Dask.TaskTerm
