import DaskModel.Lemmas.SpecCull
/-! `resolve_aliases`: collapsing an alias with its target keeps every value; the loop maintains that the (stale)
    `dependents` mapping still gives the right *number* of dependents of every key that is still in the graph. -/
namespace Dask.TaskTerm

/-! ### dict operations -/

theorem lookup_dropKey {α : Type} (a : Obj) : ∀ (g : List (Obj × α)) (k : Obj),
    (dropKey g a).lookup k = if k == a then none else g.lookup k
  | [], k => by simp [dropKey]
  | (k', v') :: rest, k => by
    have ih := lookup_dropKey a rest k
    unfold dropKey at ih ⊢
    simp only [List.filter_cons]
    by_cases hka : (k' == a) = true
    · have e : k' = a := eq_of_beq hka
      simp only [hka, Bool.not_true, Bool.false_eq_true, if_false, ih, List.lookup]
      by_cases hk : (k == a) = true
      · simp [hk]
      · have hk' : (k == a) = false := by simpa using hk
        simp [hk', e]
    · have hka' : (k' == a) = false := by simpa using hka
      simp only [hka', Bool.not_false, if_true, List.lookup]
      by_cases hk : (k == k') = true
      · have e : k = k' := eq_of_beq hk
        subst e
        simp [hka']
      · have hk' : (k == k') = false := by simpa using hk
        simp only [hk', ih]

theorem lookup_setKey {α : Type} (k : Obj) (v : α) : ∀ (g : List (Obj × α)) (x : Obj),
    (setKey g k v).lookup x = if x == k then some v else g.lookup x
  | [], x => by
    simp only [setKey, List.lookup]
    by_cases h : (x == k) = true
    · simp [h]
    · have h' : (x == k) = false := by simpa using h
      simp [h']
  | (k', v') :: rest, x => by
    have ih := lookup_setKey k v rest x
    simp only [setKey]
    by_cases hkk : (k' == k) = true
    · have e : k' = k := eq_of_beq hkk
      subst e
      simp only [hkk, if_true, List.lookup]
      by_cases h : (x == k') = true
      · simp [h]
      · have h' : (x == k') = false := by simpa using h
        simp [h']
    · have hkk' : (k' == k) = false := by simpa using hkk
      simp only [hkk', Bool.false_eq_true, if_false, List.lookup]
      by_cases h : (x == k') = true
      · have e : x = k' := eq_of_beq h
        subst e
        simp [hkk']
      · have h' : (x == k') = false := by simpa using h
        simp only [h', ih]

theorem mem_of_lookup {α : Type} : ∀ (g : List (Obj × α)) (k : Obj) (v : α), g.lookup k = some v → (k, v) ∈ g
  | [], _, _, h => by simp at h
  | (k', v') :: rest, k, v, h => by
    simp only [List.lookup] at h
    split at h
    · rename_i heq
      have : k = k' := eq_of_beq heq
      cases h; subst this; simp
    · exact List.mem_cons_of_mem _ (mem_of_lookup rest k v h)

theorem lookup_none_of_not_mem {α : Type} : ∀ (g : List (Obj × α)) (k : Obj), k ∉ g.map Prod.fst → g.lookup k = none
  | [], _, _ => rfl
  | (k', v') :: rest, k, h => by
    simp only [List.map_cons, List.mem_cons, not_or] at h
    have hk : (k == k') = false := by simpa using h.1
    simp only [List.lookup, hk]
    exact lookup_none_of_not_mem rest k h.2

theorem keys_dropKey {α : Type} (a : Obj) (g : List (Obj × α)) :
    (dropKey g a).map Prod.fst = (g.map Prod.fst).filter fun k => !(k == a) := by
  induction g with
  | nil => simp [dropKey]
  | cons kv rest ih =>
    unfold dropKey at ih ⊢
    simp only [List.filter_cons, List.map_cons]
    by_cases h : (kv.1 == a) = true
    · simp [h, ih]
    · have h' : (kv.1 == a) = false := by simpa using h
      simp [h', ih]

theorem keys_setKey {α : Type} (k : Obj) (v : α) : ∀ (g : List (Obj × α)),
    (setKey g k v).map Prod.fst = if k ∈ g.map Prod.fst then g.map Prod.fst else g.map Prod.fst ++ [k]
  | [] => by simp [setKey]
  | (k', v') :: rest => by
    have ih := keys_setKey k v rest
    simp only [setKey]
    by_cases hkk : (k' == k) = true
    · have e : k' = k := eq_of_beq hkk
      subst e
      simp
    · have hkk' : (k' == k) = false := by simpa using hkk
      have hne : k ≠ k' := fun e => by subst e; simp at hkk'
      simp only [hkk', Bool.false_eq_true, if_false, List.map_cons, ih, List.mem_cons, hne, false_or]
      split <;> simp

theorem nodup_filter {l : List Obj} (p : Obj → Bool) (h : l.Nodup) : (l.filter p).Nodup :=
  List.Pairwise.sublist List.filter_sublist h

/-! ### counting the entries that refer to a key -/

def ind (b : Bool) : Nat := if b then 1 else 0

theorem countRefs_cons (kn : Obj × Node) (g : NGraph) (x : Obj) :
    countRefs (kn :: g) x = ind (kn.2.deps.contains x) + countRefs g x := by
  unfold countRefs ind
  simp only [List.filter_cons]
  split <;> simp [Nat.add_comm]

theorem countRefs_dropKey (a : Obj) (na : Node) (x : Obj) : ∀ (g : NGraph), (g.map Prod.fst).Nodup →
    g.lookup a = some na → countRefs (dropKey g a) x + ind (na.deps.contains x) = countRefs g x
  | [], _, h => by simp at h
  | (k', n') :: rest, hn, h => by
    simp only [List.map_cons, List.nodup_cons] at hn
    by_cases hka : (a == k') = true
    · have e : a = k' := eq_of_beq hka
      subst e
      simp only [List.lookup, beq_self_eq_true, Option.some.injEq] at h
      subst h
      have hd : dropKey ((a, n') :: rest) a = rest := by
        unfold dropKey
        simp only [List.filter_cons, beq_self_eq_true, Bool.not_true, Bool.false_eq_true, if_false]
        apply List.filter_eq_self.mpr
        intro kv hkv
        have : kv.1 ≠ a := fun e => hn.1 (e ▸ List.mem_map.mpr ⟨kv, hkv, rfl⟩)
        simpa using this
      rw [hd, countRefs_cons]
      simp only []
      omega
    · have hka' : (a == k') = false := by simpa using hka
      simp only [List.lookup, hka'] at h
      have ih := countRefs_dropKey a na x rest hn.2 h
      have hk'a : (k' == a) = false := by
        rw [Bool.eq_false_iff]; intro hc; have := eq_of_beq hc; subst this; simp at hka'
      have hd : dropKey ((k', n') :: rest) a = (k', n') :: dropKey rest a := by
        unfold dropKey; simp [hk'a]
      rw [hd, countRefs_cons, countRefs_cons]
      omega

theorem countRefs_setKey_new (k : Obj) (n : Node) (x : Obj) : ∀ (g : NGraph), g.lookup k = none →
    countRefs (setKey g k n) x = countRefs g x + ind (n.deps.contains x)
  | [], _ => by
    simp only [setKey]
    rw [countRefs_cons]
    simp [countRefs, Nat.add_comm]
  | (k', n') :: rest, h => by
    by_cases hkk : (k == k') = true
    · simp [List.lookup, hkk] at h
    · have hkk' : (k == k') = false := by simpa using hkk
      simp only [List.lookup, hkk'] at h
      have hk'k : (k' == k) = false := by
        rw [Bool.eq_false_iff]; intro hc; have := eq_of_beq hc; subst this; simp at hkk'
      simp only [setKey, hk'k, Bool.false_eq_true, if_false, countRefs_cons, countRefs_setKey_new k n x rest h]
      omega

theorem countRefs_setKey_old (k : Obj) (n no : Node) (x : Obj) : ∀ (g : NGraph),
    g.lookup k = some no →
    countRefs (setKey g k n) x + ind (no.deps.contains x) = countRefs g x + ind (n.deps.contains x)
  | [], h => by simp at h
  | (k', n') :: rest, h => by
    by_cases hkk : (k == k') = true
    · have e : k = k' := eq_of_beq hkk
      subst e
      simp only [List.lookup, beq_self_eq_true, Option.some.injEq] at h
      subst h
      simp only [setKey, beq_self_eq_true, if_true, countRefs_cons]
      omega
    · have hkk' : (k == k') = false := by simpa using hkk
      simp only [List.lookup, hkk'] at h
      have hk'k : (k' == k) = false := by
        rw [Bool.eq_false_iff]; intro hc; have := eq_of_beq hc; subst this; simp at hkk'
      have ih := countRefs_setKey_old k n no x rest h
      simp only [setKey, hk'k, Bool.false_eq_true, if_false, countRefs_cons]
      omega

/-- if exactly one entry refers to `t` and the entry of `k` does, no other entry does -/
theorem only_referrer (g : NGraph) (t k : Obj) (nk : Node) (hc : countRefs g t = 1)
    (hk : g.lookup k = some nk) (hkt : nk.deps.contains t = true) :
    ∀ x n, g.lookup x = some n → n.deps.contains t = true → x = k := by
  intro x n hx hxt
  unfold countRefs at hc
  have m1 : (k, nk) ∈ g.filter (fun kn => kn.2.deps.contains t) :=
    List.mem_filter.mpr ⟨mem_of_lookup g k nk hk, hkt⟩
  have m2 : (x, n) ∈ g.filter (fun kn => kn.2.deps.contains t) :=
    List.mem_filter.mpr ⟨mem_of_lookup g x n hx, hxt⟩
  cases hF : g.filter (fun kn => kn.2.deps.contains t) with
  | nil => rw [hF] at hc; simp at hc
  | cons e rest =>
    cases rest with
    | cons e2 rest2 => rw [hF] at hc; simp at hc
    | nil =>
      rw [hF] at m1 m2
      simp only [List.mem_singleton] at m1 m2
      have := m2.trans m1.symm
      exact (Prod.mk.inj this).1

/-! ### graphs with the same lookups evaluate alike -/

theorem evalKeyN_congr_lookup (g h : NGraph) (cache : Obj → Option Obj) (hl : ∀ k, h.lookup k = g.lookup k) :
    ∀ fuel k, evalKeyN h cache fuel k = evalKeyN g cache fuel k
  | 0, _ => rfl
  | fuel + 1, k => by
    simp only [evalKeyN, hl k]
    cases g.lookup k with
    | none => rfl
    | some n => exact evalNode_congr _ _ n (fun d _ => evalKeyN_congr_lookup g h cache hl fuel d)

/-! ### one collapse -/

/-- **Collapsing an alias with its target keeps the value of every other key**: `g[k] = Alias(k → t)`, `g[t] = tnew`,
    nothing but `k` refers to `t`; afterwards `t` is gone and `k` holds `tnew`. -/
theorem collapse_computes (g : NGraph) (k t : Obj) (tnew : Node) (hkt : k ≠ t)
    (hk : g.lookup k = some (.alias t)) (ht : g.lookup t = some tnew)
    (honly : ∀ x n, x ≠ k → g.lookup x = some n → t ∉ n.deps) (cache : Obj → Option Obj)
    (x v : Obj) (hx : x ≠ t) :
    Computes (setKey (dropKey g t) k tnew) cache x v ↔ Computes g cache x v := by
  have hlk : ∀ y, (setKey (dropKey g t) k tnew).lookup y =
      if y == k then some tnew else if y == t then none else g.lookup y := fun y => by
    rw [lookup_setKey, lookup_dropKey]
  have htd : ∀ d ∈ tnew.deps, d ≠ t := fun d hd e => honly t tnew (Ne.symm hkt) ht (e ▸ hd)
  have hGk : ∀ f, evalKeyN g cache (f + 2) k = evalNode (evalKeyN g cache f) tnew := fun f => by
    simp [evalKeyN, hk, ht, evalNode]
  have hOk : ∀ f, evalKeyN (setKey (dropKey g t) k tnew) cache (f + 1) k =
      evalNode (evalKeyN (setKey (dropKey g t) k tnew) cache f) tnew := fun f => by
    rw [evalKeyN, hlk]; simp
  constructor
  · rintro ⟨f, hf⟩
    suffices H : ∀ f x v, x ≠ t → evalKeyN (setKey (dropKey g t) k tnew) cache f x = some v → Computes g cache x v from
      H f x v hx hf
    intro f
    induction f with
    | zero => intro x v _ h; simp [evalKeyN] at h
    | succ f ih =>
      intro x v hx h
      by_cases hxk : x = k
      · subst hxk
        rw [hOk] at h
        obtain ⟨F, hF⟩ := transfer (monoFam_evalKeyN g cache) h (fun d hd w hw => ih d w (htd d hd) hw)
        exact ⟨F + 2, by rw [hGk]; exact hF F (Nat.le_refl _)⟩
      · have hxk' : (x == k) = false := by simpa using hxk
        have hxt' : (x == t) = false := by simpa using hx
        rw [evalKeyN, hlk] at h
        simp only [hxk', hxt', Bool.false_eq_true, if_false] at h
        cases hl : g.lookup x with
        | none => rw [hl] at h; exact ⟨1, by simpa [evalKeyN, hl] using h⟩
        | some n =>
          rw [hl] at h
          obtain ⟨F, hF⟩ := transfer (monoFam_evalKeyN g cache) h
            (fun d hd w hw => ih d w (fun e => honly x n hxk hl (e ▸ hd)) hw)
          exact ⟨F + 1, by simpa [evalKeyN, hl] using hF F (Nat.le_refl _)⟩
  · rintro ⟨f, hf⟩
    suffices H : ∀ f x v, x ≠ t → evalKeyN g cache f x = some v →
        Computes (setKey (dropKey g t) k tnew) cache x v from H f x v hx hf
    intro f
    induction f with
    | zero => intro x v _ h; simp [evalKeyN] at h
    | succ f ih =>
      intro x v hx h
      by_cases hxk : x = k
      · subst hxk
        cases f with
        | zero => simp [evalKeyN, hk, evalNode] at h
        | succ f0 =>
          rw [hGk] at h
          obtain ⟨F, hF⟩ := transfer (monoFam_evalKeyN (setKey (dropKey g t) x tnew) cache) h
            (fun d hd w hw => ih d w (htd d hd) (evalKeyN_succ g cache f0 d w hw))
          exact ⟨F + 1, by rw [hOk]; exact hF F (Nat.le_refl _)⟩
      · have hxk' : (x == k) = false := by simpa using hxk
        have hxt' : (x == t) = false := by simpa using hx
        rw [evalKeyN] at h
        cases hl : g.lookup x with
        | none =>
          rw [hl] at h
          exact ⟨1, by rw [evalKeyN, hlk]; simpa [hxk', hxt', hl] using h⟩
        | some n =>
          rw [hl] at h
          obtain ⟨F, hF⟩ := transfer (monoFam_evalKeyN (setKey (dropKey g t) k tnew) cache) h
            (fun d hd w hw => ih d w (fun e => honly x n hxk hl (e ▸ hd)) hw)
          exact ⟨F + 1, by rw [evalKeyN, hlk]; simpa [hxk', hxt', hl] using hF F (Nat.le_refl _)⟩

end Dask.TaskTerm

namespace Dask.TaskTerm

/-! ### the loop -/

/-- what the loop maintains about the current graph `g` (started from `g0`, requested keys `req`, the caller's
    `len(dependents[·])` = `nd`) -/
structure ResInv (g0 : NGraph) (req : List Obj) (nd : Obj → Nat) (cache : Obj → Option Obj) (g : NGraph) : Prop where
  nodup : (g.map Prod.fst).Nodup
  cnt : ∀ x, (g.lookup x).isSome → countRefs g x = nd x
  sub : ∀ x, (g.lookup x).isSome → (g0.lookup x).isSome
  sem : ∀ x, (g.lookup x).isSome → ∀ v, Computes g cache x v ↔ Computes g0 cache x v
  reqIn : ∀ x ∈ req, (g0.lookup x).isSome → (g.lookup x).isSome

theorem ind_contains_singleton (t x : Obj) : ind ((Node.alias t).deps.contains x) = if x == t then 1 else 0 := by
  simp only [Node.deps, ind, List.contains_cons, List.contains_nil, Bool.or_false]

/-- the collapse performed by one `resolveStep` keeps the invariant -/
theorem collapse_inv (g0 : NGraph) (req : List Obj) (nd : Obj → Nat) (cache : Obj → Option Obj) (g : NGraph)
    (hi : ResInv g0 req nd cache g) (k t : Obj) (tnew : Node)
    (hk : g.lookup k = some (.alias t)) (ht : g.lookup t = some tnew) (hreq : req.contains t = false)
    (hnd : nd t = 1) : ResInv g0 req nd cache (setKey (dropKey g t) k tnew) := by
  have hlk : ∀ y, (setKey (dropKey g t) k tnew).lookup y =
      if y == k then some tnew else if y == t then none else g.lookup y := fun y => by
    rw [lookup_setKey, lookup_dropKey]
  have hcount : countRefs g t = 1 := by rw [hi.cnt t (by simp [ht]), hnd]
  have honly := only_referrer g t k (.alias t) hcount hk (by simp [Node.deps])
  by_cases hkt : k = t
  · -- an alias of itself: the entry is moved to the end, nothing else changes
    subst hkt
    have hte : tnew = .alias k := by rw [hk] at ht; exact (Option.some.inj ht).symm
    subst hte
    have hsame : ∀ y, (setKey (dropKey g k) k (.alias k)).lookup y = g.lookup y := fun y => by
      rw [hlk]
      by_cases hy : (y == k) = true
      · have : y = k := eq_of_beq hy
        subst this; simp [hk]
      · have hy' : (y == k) = false := by simpa using hy
        simp [hy']
    have hdk : (dropKey g k).lookup k = none := by rw [lookup_dropKey]; simp
    refine ⟨?_, ?_, ?_, ?_, ?_⟩
    · rw [keys_setKey, keys_dropKey]
      have hnm : k ∉ (g.map Prod.fst).filter fun x => !(x == k) := by simp
      rw [if_neg hnm]
      apply List.nodup_append.mpr
      refine ⟨nodup_filter _ hi.nodup, by simp, ?_⟩
      intro a ha b hb
      simp only [List.mem_singleton] at hb
      subst hb
      intro e; subst e; exact hnm ha
    · intro x hx
      rw [hsame] at hx
      rw [countRefs_setKey_new k (.alias k) x _ hdk, ← hi.cnt x hx]
      exact countRefs_dropKey k (.alias k) x g hi.nodup hk
    · intro x hx; rw [hsame] at hx; exact hi.sub x hx
    · intro x hx v
      rw [hsame] at hx
      rw [← hi.sem x hx v]
      unfold Computes
      constructor <;> rintro ⟨f, hf⟩ <;> refine ⟨f, ?_⟩
      · rw [← evalKeyN_congr_lookup g _ cache hsame]; exact hf
      · rw [evalKeyN_congr_lookup g _ cache hsame]; exact hf
    · intro x hx hx0; rw [hsame]; exact hi.reqIn x hx hx0
  · have hkt' : (k == t) = false := by simpa using hkt
    have honly' : ∀ x n, x ≠ k → g.lookup x = some n → t ∉ n.deps := fun x n hxk hx hm =>
      hxk (honly x n hx (by simpa using hm))
    have hdk : (dropKey g t).lookup k = some (.alias t) := by rw [lookup_dropKey]; simp [hkt', hk]
    refine ⟨?_, ?_, ?_, ?_, ?_⟩
    · rw [keys_setKey, keys_dropKey]
      have hm : k ∈ (g.map Prod.fst).filter fun x => !(x == t) := by
        simp only [List.mem_filter, hkt', Bool.not_false, and_true]
        exact mem_keys_of_lookup g k _ hk
      rw [if_pos hm]
      exact nodup_filter _ hi.nodup
    · intro x hx
      rw [hlk] at hx
      have hxt : (x == t) = false := by
        by_cases hxk : (x == k) = true
        · have : x = k := eq_of_beq hxk
          subst this; exact hkt'
        · have hxk' : (x == k) = false := by simpa using hxk
          rw [Bool.eq_false_iff]; intro hc
          simp [hxk', hc] at hx
      have hxg : (g.lookup x).isSome := by
        by_cases hxk : (x == k) = true
        · have : x = k := eq_of_beq hxk
          subst this; simp [hk]
        · have hxk' : (x == k) = false := by simpa using hxk
          simpa [hxk', hxt] using hx
      have h1 := countRefs_dropKey t tnew x g hi.nodup ht
      have h2 := countRefs_setKey_old k tnew (.alias t) x (dropKey g t) hdk
      rw [ind_contains_singleton, hxt] at h2
      simp only [Bool.false_eq_true, if_false, Nat.add_zero] at h2
      rw [← hi.cnt x hxg]
      omega
    · intro x hx
      rw [hlk] at hx
      by_cases hxk : (x == k) = true
      · have : x = k := eq_of_beq hxk
        subst this; exact hi.sub x (by simp [hk])
      · have hxk' : (x == k) = false := by simpa using hxk
        by_cases hxt : (x == t) = true
        · simp [hxk', hxt] at hx
        · have hxt' : (x == t) = false := by simpa using hxt
          exact hi.sub x (by simpa [hxk', hxt'] using hx)
    · intro x hx v
      rw [hlk] at hx
      have hxt : x ≠ t := by
        intro e; subst e
        have hxk' : (x == k) = false := by
          rw [Bool.eq_false_iff]; intro hc; exact hkt (eq_of_beq hc).symm
        simp [hxk'] at hx
      have hxg : (g.lookup x).isSome := by
        by_cases hxk : (x == k) = true
        · have : x = k := eq_of_beq hxk
          subst this; simp [hk]
        · have hxk' : (x == k) = false := by simpa using hxk
          have hxt' : (x == t) = false := by simpa using hxt
          simpa [hxk', hxt'] using hx
      rw [collapse_computes g k t tnew hkt hk ht honly' cache x v hxt]
      exact hi.sem x hxg v
    · intro x hx hx0
      have hxg := hi.reqIn x hx hx0
      rw [hlk]
      by_cases hxk : (x == k) = true
      · simp [hxk]
      · have hxk' : (x == k) = false := by simpa using hxk
        have hxt' : (x == t) = false := by
          rw [Bool.eq_false_iff]; intro hc
          have : x = t := eq_of_beq hc
          subst this
          have : req.contains x = true := by simpa using hx
          rw [hreq] at this; cases this
        simpa [hxk', hxt'] using hxg

theorem resolveStep_inv (g0 : NGraph) (req : List Obj) (nd : Obj → Nat) (cache : Obj → Option Obj) (g : NGraph)
    (hi : ResInv g0 req nd cache g) (k : Obj) (work seen : List Obj) :
    ResInv g0 req nd cache (resolveStep req nd g k work seen).1 := by
  unfold resolveStep
  split
  · exact hi
  · split
    · exact hi
    · rename_i t hlk
      split
      · rename_i target
        split
        · rename_i hcond
          split
          · rename_i tnew htn
            simp only [Bool.and_eq_true, Bool.not_eq_true', beq_iff_eq] at hcond
            have hinv := collapse_inv g0 req nd cache g hi k target tnew hlk htn hcond.1.1 hcond.2
            split <;> exact hinv
          · exact hi
        · exact hi
      · exact hi

theorem resolveLoop_inv (g0 : NGraph) (req : List Obj) (nd : Obj → Nat) (cache : Obj → Option Obj) :
    ∀ (fuel : Nat) (g : NGraph) (work seen : List Obj) (out : NGraph), ResInv g0 req nd cache g →
      resolveLoop req nd fuel g work seen = some out → ResInv g0 req nd cache out
  | fuel, g, [], seen, out, hi, h => by
    cases fuel <;> (simp only [resolveLoop, Option.some.injEq] at h; subst h; exact hi)
  | 0, _, _ :: _, _, _, _, h => by simp [resolveLoop] at h
  | fuel + 1, g, k :: work, seen, out, hi, h => by
    simp only [resolveLoop] at h
    exact resolveLoop_inv g0 req nd cache fuel _ _ _ out (resolveStep_inv g0 req nd cache g hi k work seen) h

end Dask.TaskTerm
