import DaskModel.Lemmas.LegacyInline3
/-! C09 extension round, part 4: `inline` / `inline_functions` preserve the values — given a replace order with the
properties of a `toposort` result. -/
namespace Dask.TaskTerm

theorem keys_iff_lookup (h : LGraph) (k : Obj) : k ∈ h.map Prod.fst ↔ (h.lookup k).isSome :=
  ⟨mem_keys_lookup_isSome h k, lookup_isSome_mem_keys h k⟩

/-- **`inline` on a DAG** (loops on a `toposort`-like order): same key set, no entry refers to an inlined key any more,
    still a DAG, and every key computes what it computed before. -/
theorem inlineWith_computes {iter : List Obj → List Obj} (hiter : IterOK iter) (g : LGraph)
    (hnd : (g.map Prod.fst).Nodup) (hKt : ∀ k ∈ g.map Prod.fst, k.keyTyped = true) (rank : Obj → Nat)
    (hdag : DagL g rank) (S order : List Obj) (hto : TopoOK g S order) :
    ∃ h, inlineWith iter order g S = some h ∧
      (∀ k, k ∈ h.map Prod.fst ↔ k ∈ g.map Prod.fst) ∧
      (∀ k v, h.lookup k = some v → ∀ x ∈ legacyRefs (h.map Prod.fst) v, x ∉ S) ∧
      DagL h rank ∧
      ∀ cache k v, ComputesL h cache k v ↔ ComputesL g cache k v := by
  obtain ⟨h, hh, hdom, hgood⟩ := inlineWith_spec hiter g hnd hKt rank hdag S order hto
  have hKK : ∀ k, k ∈ h.map Prod.fst ↔ k ∈ g.map Prod.fst := fun k => by
    rw [keys_iff_lookup, keys_iff_lookup]; exact hdom k
  have hrefs : ∀ v, legacyRefs (h.map Prod.fst) v = legacyRefs (g.map Prod.fst) v := fun v =>
    legacyRefs_restrict _ _ (fun k hk => (hKK k).mp hk) v (fun d hd => (hKK d).mpr (legacyRefs_mem _ v d hd))
  have hKt' : ∀ k ∈ h.map Prod.fst, k.keyTyped = true := fun k hk => hKt k ((hKK k).mp hk)
  have hdag' : DagL h rank := by
    intro k v hl d hd
    obtain ⟨t, _, hg⟩ := hgood k v hl
    rw [hrefs] at hd
    exact hg.rk d hd
  refine ⟨h, hh, hKK, ?_, hdag', ?_⟩
  · intro k v hl x hx
    obtain ⟨t, _, hg⟩ := hgood k v hl
    rw [hrefs] at hx
    exact hg.cl x hx
  · intro cache k v
    apply computesL_transfer g h hKt hKt' rank hdag hdag' cache
    intro ρ hsol x
    cases hl : h.lookup x with
    | none =>
      have : g.lookup x = none := by
        cases hg : g.lookup x with
        | none => rfl
        | some t =>
          have := (hdom x).mpr (by simp [hg])
          simp [hl] at this
      have hs := hsol x
      rw [this] at hs
      exact hs
    | some w =>
      obtain ⟨t, ht, hg⟩ := hgood x w hl
      have hs := hsol x
      rw [ht] at hs
      simp only at hs ⊢
      rw [hs, ← hg.ev cache ρ hsol]
      symm
      exact evalObj_restrict _ _ ρ ρ (fun k hk => (hKK k).mp hk) hKt (fun _ _ => rfl) w
        (fun d hd => (hKK d).mpr (legacyRefs_mem _ w d hd))

theorem delKeys_eq : ∀ (ks : List Obj) (h : LGraph), ks.Nodup → (∀ k ∈ ks, (h.lookup k).isSome) →
    delKeys h ks = some (h.filter fun kv => !ks.contains kv.1)
  | [], h, _, _ => by
    simp only [delKeys, Option.some.injEq]
    symm
    apply List.filter_eq_self.mpr
    intro a _
    simp
  | k :: ks, h, hn, hall => by
    simp only [List.nodup_cons] at hn
    have hk := hall k (by simp)
    have hall' : ∀ k' ∈ ks, ((h.filter fun kv => !(kv.1 == k)).lookup k').isSome := by
      intro k' hk'
      have := lookup_filterKeys h [k] k'
      have hne : k' ≠ k := fun e => hn.1 (e ▸ hk')
      have hc : ([k] : List Obj).contains k' = false := by simp [hne]
      rw [hc] at this
      simp only [Bool.false_eq_true, if_false] at this
      have hf : (h.filter fun kv => !(kv.1 == k)) = (h.filter fun kv => !([k] : List Obj).contains kv.1) := by
        apply List.filter_congr
        intro kv _
        simp only [List.contains_cons, List.contains_nil, Bool.or_false]
      rw [hf, this]
      exact hall k' (List.mem_cons_of_mem _ hk')
    simp only [delKeys, hk, if_true]
    rw [delKeys_eq ks _ hn.2 hall', List.filter_filter]
    congr 1
    apply List.filter_congr
    intro kv _
    simp only [List.contains_cons, Bool.not_or, Bool.and_comm]

/-- **`inline_functions` on a DAG**, given that the `toposort` call of `inline` returns an order with the properties C07
    proves: the function returns, every `output` key of the graph is kept, nothing new appears, and every kept key
    computes what it computed before. -/
theorem inlineFunctions_computes {iter : List Obj → List Obj} (hiter : IterOK iter) (fast : Obj → Bool) (anyFast : Bool)
    (g : LGraph) (hnd : (g.map Prod.fst).Nodup) (hKt : ∀ k ∈ g.map Prod.fst, k.keyTyped = true) (rank : Obj → Nat)
    (hdag : DagL g rank) (output : List Obj) (c : Bool)
    (hord : ∀ keys, ∃ order, replaceOrder iter g (inlineSet g keys c) = some order ∧
      TopoOK g (inlineSet g keys c) order) :
    ∃ h, inlineFunctions iter fast anyFast g output c = some h ∧
      (∀ k ∈ output, k ∈ g.map Prod.fst → k ∈ h.map Prod.fst) ∧
      (∀ k ∈ h.map Prod.fst, k ∈ g.map Prod.fst) ∧
      ∀ cache k v, k ∈ h.map Prod.fst → (ComputesL h cache k v ↔ ComputesL g cache k v) := by
  unfold inlineFunctions
  by_cases ha : anyFast = true
  · simp only [ha, Bool.not_true, Bool.false_eq_true, if_false]
    by_cases he : (inlinableKeys fast g output).isEmpty = true
    · simp only [he, if_true]
      exact ⟨g, rfl, fun _ _ h => h, fun _ h => h, fun _ _ _ _ => Iff.rfl⟩
    · simp only [he, Bool.false_eq_true, if_false]
      obtain ⟨order, hro, hto⟩ := hord (inlinableKeys fast g output)
      obtain ⟨h, hh, hKK, hcl, hdag', hcomp⟩ := inlineWith_computes hiter g hnd hKt rank hdag _ order hto
      have hKt' : ∀ k ∈ h.map Prod.fst, k.keyTyped = true := fun k hk => hKt k ((hKK k).mp hk)
      have hkeysK : ∀ k ∈ inlinableKeys fast g output, k ∈ g.map Prod.fst := by
        intro k hk
        unfold inlinableKeys at hk
        obtain ⟨kv, hkv, rfl⟩ := List.mem_map.mp hk
        exact List.mem_map.mpr ⟨kv, (List.mem_filter.mp hkv).1, rfl⟩
      have hkeysOut : ∀ k ∈ inlinableKeys fast g output, k ∉ output := by
        intro k hk
        unfold inlinableKeys at hk
        obtain ⟨kv, hkv, rfl⟩ := List.mem_map.mp hk
        have := (List.mem_filter.mp hkv).2
        simp only [inlinable, Bool.and_eq_true, Bool.not_eq_true', List.contains_eq_mem, decide_eq_false_iff_not] at this
        exact this.1.1.2
      have hkeysS : ∀ k ∈ inlinableKeys fast g output, k ∈ inlineSet g (inlinableKeys fast g output) c := by
        intro k hk
        unfold inlineSet
        split
        · exact List.mem_append_left _ hk
        · exact hk
      have hkeysNd : (inlinableKeys fast g output).Nodup := by
        unfold inlinableKeys
        exact List.Nodup.sublist (List.Sublist.map _ List.filter_sublist) hnd
      have hdel := delKeys_eq (inlinableKeys fast g output) h hkeysNd (fun k hk =>
        (keys_iff_lookup h k).mp ((hKK k).mpr (hkeysK k hk)))
      refine ⟨h.filter fun kv => !(inlinableKeys fast g output).contains kv.1, by simp only [inline, hro, hh, hdel], ?_, ?_, ?_⟩
      · intro k hko hkK
        rw [keys_filterKeys, List.mem_filter]
        refine ⟨(hKK k).mpr hkK, ?_⟩
        have : k ∉ inlinableKeys fast g output := fun hc => hkeysOut k hc hko
        simpa using this
      · intro k hk
        rw [keys_filterKeys, List.mem_filter] at hk
        exact (hKK k).mp hk.1
      · intro cache k v hk
        rw [keys_filterKeys, List.mem_filter] at hk
        have hkD : k ∉ inlinableKeys fast g output := by simpa using hk.2
        rw [drop_keys_computes h hKt' rank hdag' (inlinableKeys fast g output)
          (fun k' t hl _ d hd hdD => hcl k' t hl d hd (hkeysS d hdD)) cache k v hkD]
        exact hcomp cache k v
  · have ha' : anyFast = false := by simpa using ha
    simp only [ha', Bool.not_false, if_true]
    exact ⟨g, rfl, fun _ _ h => h, fun _ h => h, fun _ _ _ _ => Iff.rfl⟩

end Dask.TaskTerm
