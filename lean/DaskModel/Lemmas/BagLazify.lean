import DaskModel.Model.BagLazify
/-! Helper lemmas for the bag `lazify` model (C48): looking keys up in a lazified fused task, and the fixpoint of the
alias-closure worklist (counting argument: every round that adds something removes an alias target from the missing
ones, and there are at most as many alias targets as inner keys). -/
namespace Dask.BagLazify

/-- the head of a task, seen through the identity wrappers of a copied graph, is `list` / `reify`: the value of the
    key is a list, not a bare one-shot iterator -/
def headReify : Node → Bool
  | .call .reify _ => true
  | .call .ident [a] => headReify a
  | _ => false


/-- …is an iterator-returning function (`map_chunk`, `filter`, …): the value is a one-shot iterator -/
def headLazy : Node → Bool
  | .call .lazy _ => true
  | .call .ident [a] => headLazy a
  | _ => false

theorem lazify_reify_top (cfg : Cfg) (args : List Node) : headReify (lazify cfg true (.call .reify args)) = true := by
  match args with
  | [] => simp [lazify, headReify]
  | [.ref _] => simp [lazify, headReify]
  | [.data] => simp [lazify, headReify]
  | [.alias _] => simp [lazify, headReify]
  | [.lst _] => simp [lazify, headReify]
  | [.call _ _] => simp [lazify, headReify]
  | [.sub _ _ _] => simp [lazify, headReify]
  | _ :: _ :: _ => simp [lazify, headReify]

/-! ### `lookup` through `lazifyRest` / `lazifyOut` -/

theorem lookup_nil (k : Nat) : lookup ([] : List (Nat × Node)) k = none := rfl

theorem lookup_cons (k' : Nat) (v : Node) (rest : List (Nat × Node)) (k : Nat) :
    lookup ((k', v) :: rest) k = if k' = k then some v else lookup rest k := by
  simp only [lookup, List.find?_cons]
  by_cases h : k' = k
  · simp [h]
  · have : (k' == k) = false := by simpa using h
    simp [h, this]

theorem lookup_append (xs ys : List (Nat × Node)) (k : Nat) :
    lookup (xs ++ ys) k = (lookup xs k).orElse fun _ => lookup ys k := by
  induction xs with
  | nil => simp [lookup_nil]
  | cons x xs ih =>
    obtain ⟨k', v⟩ := x
    rw [List.cons_append, lookup_cons, lookup_cons]
    by_cases h : k' = k
    · simp [h]
    · simp [h, ih]

theorem lookup_lazifyRest (cfg : Cfg) (keep : List Nat) (out : Nat) (inner : List (Nat × Node)) (k : Nat) (hk : k ≠ out) :
    lookup (lazifyRest cfg keep out inner) k = (lookup inner k).map (lazify cfg (keep.contains k)) := by
  induction inner with
  | nil => simp [lazifyRest, lookup_nil]
  | cons x rest ih =>
    obtain ⟨k', v⟩ := x
    simp only [lazifyRest]
    by_cases ho : k' = out
    · have hne : ¬ out = k := fun h => hk h.symm
      simp [ho, lookup_cons, ih, hne]
    · simp only [ho, if_false, lookup_cons]
      by_cases h : k' = k
      · simp [h]
      · simp [h, ih]

theorem lookup_lazifyOut (cfg : Cfg) (out : Nat) (inner : List (Nat × Node)) :
    lookup (lazifyOut cfg out inner) out = (lookup inner out).map (lazify cfg true) := by
  induction inner with
  | nil => simp [lazifyOut, lookup_nil]
  | cons x rest ih =>
    obtain ⟨k', v⟩ := x
    simp only [lazifyOut]
    by_cases ho : k' = out
    · simp [ho, lookup_cons]
    · simp [ho, lookup_cons, ih]

theorem lookup_lazifyRest_out (cfg : Cfg) (keep : List Nat) (out : Nat) (inner : List (Nat × Node)) :
    lookup (lazifyRest cfg keep out inner) out = none := by
  induction inner with
  | nil => simp [lazifyRest, lookup_nil]
  | cons x rest ih =>
    obtain ⟨k', v⟩ := x
    simp only [lazifyRest]
    by_cases ho : k' = out
    · simp [ho, ih]
    · simp [ho, lookup_cons, ih]

/-- the inner graph of a lazified fused task -/
def innerOf : Node → List (Nat × Node)
  | .sub inner _ _ => inner
  | _ => []

theorem lazify_sub_eq (cfg : Cfg) (start : Bool) (inner : List (Nat × Node)) (out : Nat) (deps : List Nat) :
    lazify cfg start (.sub inner out deps) =
      .sub (lazifyRest cfg (keepSet cfg inner out) out inner ++ lazifyOut cfg out inner) out deps := by
  simp [lazify]

/-- what `lazify_task` does to every key of a fused task -/
theorem lookup_lazify_sub (cfg : Cfg) (start : Bool) (inner : List (Nat × Node)) (out : Nat) (deps : List Nat) (k : Nat) :
    lookup (innerOf (lazify cfg start (.sub inner out deps))) k =
      (lookup inner k).map (lazify cfg (k == out || (keepSet cfg inner out).contains k)) := by
  rw [lazify_sub_eq]
  simp only [innerOf, lookup_append]
  by_cases hk : k = out
  · subst hk
    simp [lookup_lazifyRest_out, lookup_lazifyOut]
  · rw [lookup_lazifyRest cfg _ out inner k hk]
    have : (k == out) = false := by simpa using hk
    cases h : lookup inner k with
    | none =>
      simp only [Option.map_none, Option.orElse]
      -- the output part only holds the key `out`
      have : lookup (lazifyOut cfg out inner) k = none := by
        clear h
        induction inner with
        | nil => simp [lazifyOut, lookup_nil]
        | cons x rest ih =>
          obtain ⟨k', v⟩ := x
          simp only [lazifyOut]
          by_cases ho : k' = out
          · have hne : ¬ out = k := fun h => hk h.symm
            simp [ho, lookup_cons, hne, lookup_nil]
          · simp [ho, ih]
      simp [this]
    | some n => simp [this]

/-! ### the `keep` set is closed under alias targets -/

/-- the key the inner key `k` is an alias of (`none`: `k` is not an alias / not an inner key) -/
def targetOf (through : Bool) (inner : List (Nat × Node)) (k : Nat) : Option Nat :=
  (lookup inner k).bind (aliasTarget through)

def Closed (through : Bool) (inner : List (Nat × Node)) (keep : List Nat) : Prop :=
  ∀ k ∈ keep, ∀ t, targetOf through inner k = some t → t ∈ keep

/-- all alias targets that occur in the subgraph (with repetitions) -/
def allTargets (through : Bool) (inner : List (Nat × Node)) : List Nat :=
  inner.filterMap fun kv => aliasTarget through kv.2

def missing (through : Bool) (inner : List (Nat × Node)) (keep : List Nat) : Nat :=
  ((allTargets through inner).filter fun t => !keep.contains t).length

theorem lookup_mem {inner : List (Nat × Node)} {k : Nat} {n : Node} (h : lookup inner k = some n) :
    ∃ kv ∈ inner, kv.2 = n := by
  simp only [lookup, Option.map_eq_some_iff] at h
  obtain ⟨kv, hf, rfl⟩ := h
  exact ⟨kv, List.mem_of_find?_eq_some hf, rfl⟩

theorem targetOf_mem_allTargets {through : Bool} {inner : List (Nat × Node)} {k t : Nat}
    (h : targetOf through inner k = some t) : t ∈ allTargets through inner := by
  simp only [targetOf, Option.bind_eq_some_iff] at h
  obtain ⟨n, hn, ht⟩ := h
  obtain ⟨kv, hkv, rfl⟩ := lookup_mem hn
  exact List.mem_filterMap.mpr ⟨kv, hkv, ht⟩

theorem closed_of_missing_zero {through : Bool} {inner : List (Nat × Node)} {keep : List Nat}
    (h : missing through inner keep = 0) : Closed through inner keep := by
  intro k _ t ht
  have hm := targetOf_mem_allTargets ht
  have : (allTargets through inner).filter (fun t => !keep.contains t) = [] := List.length_eq_zero_iff.mp h
  rw [List.filter_eq_nil_iff] at this
  have := this t hm
  simpa using this

theorem filter_length_le_of_imp (p q : Nat → Bool) (h : ∀ t, p t = true → q t = true) (l : List Nat) :
    (l.filter p).length ≤ (l.filter q).length := by
  induction l with
  | nil => simp
  | cons z zs ih =>
    simp only [List.filter_cons]
    by_cases hz : p z = true
    · simp only [hz, h z hz, if_true, List.length_cons]; omega
    · by_cases hq : q z = true
      · simp only [hz, hq, if_true, List.length_cons]; simp; omega
      · simp only [hz, hq]; simpa using ih

theorem missing_lt {through : Bool} {inner : List (Nat × Node)} {keep extra : List Nat} {x : Nat}
    (hx : x ∈ extra) (hT : x ∈ allTargets through inner) (hk : x ∉ keep) :
    missing through inner (keep ++ extra) < missing through inner keep := by
  simp only [missing]
  have hsub : ∀ t, (!(keep ++ extra).contains t) = true → (!keep.contains t) = true := by
    intro t ht
    simp only [Bool.not_eq_true', List.contains_eq_mem, List.mem_append, decide_eq_false_iff_not, not_or] at ht ⊢
    exact ht.1
  generalize allTargets through inner = T at hT
  induction T with
  | nil => simp at hT
  | cons y ys ih =>
    simp only [List.filter_cons]
    by_cases hy : y = x
    · subst hy
      have h1 : (!(keep ++ extra).contains y) = false := by simp [hx]
      have h2 : (!keep.contains y) = true := by simpa using hk
      simp only [h1, h2, Bool.false_eq_true, if_false, if_true, List.length_cons]
      have := filter_length_le_of_imp _ _ hsub ys
      omega
    · have hxin : x ∈ ys := by
        rcases List.mem_cons.mp hT with h | h
        · exact absurd h.symm hy
        · exact h
      have := ih hxin
      by_cases hz : (!(keep ++ extra).contains y) = true
      · simp only [hz, hsub y hz, if_true, List.length_cons]; omega
      · by_cases hq : (!keep.contains y) = true
        · simp only [hz, hq, if_true, List.length_cons]
          exact Nat.lt_succ_of_lt this
        · simp only [hz, hq]; exact this

/-- the worklist of the repaired code reaches its fixpoint: with fuel for every alias in the subgraph the result
    contains the start set and is closed under alias targets -/
theorem closeAliases_closed (through : Bool) (inner : List (Nat × Node)) (fuel : Nat) (keep : List Nat)
    (hf : missing through inner keep ≤ fuel) :
    Closed through inner (closeAliases through inner fuel keep) ∧ ∀ k ∈ keep, k ∈ closeAliases through inner fuel keep := by
  induction fuel generalizing keep with
  | zero => exact ⟨by simpa [closeAliases] using closed_of_missing_zero (by omega), by simp [closeAliases]⟩
  | succ fuel ih =>
    simp only [closeAliases]
    split
    · next hemp =>
      refine ⟨?_, fun k hk => hk⟩
      intro k hk t ht
      -- `t` is a target of a kept key; the list of NEW targets is empty, so `t` is already kept
      have hnew : ((keep.filterMap fun k => (lookup inner k).bind (aliasTarget through)).filter fun t => !keep.contains t) = [] := by
        simpa using hemp
      rw [List.filter_eq_nil_iff] at hnew
      have hmem : t ∈ keep.filterMap fun k => (lookup inner k).bind (aliasTarget through) :=
        List.mem_filterMap.mpr ⟨k, hk, ht⟩
      have := hnew t hmem
      simpa using this
    · next hne =>
      -- some new target x: the number of missing targets drops
      generalize hnewdef : ((keep.filterMap fun k => (lookup inner k).bind (aliasTarget through)).filter
        fun t => !keep.contains t) = new at hne
      obtain ⟨x, hx⟩ : ∃ x, x ∈ new := by
        cases new with
        | nil => simp at hne
        | cons x _ => exact ⟨x, by simp⟩
      have hx' := hx
      rw [← hnewdef, List.mem_filter] at hx'
      obtain ⟨hxm, hxk⟩ := hx'
      obtain ⟨k0, _, hk0⟩ := List.mem_filterMap.mp hxm
      have hT : x ∈ allTargets through inner := targetOf_mem_allTargets (k := k0) hk0
      have hlt := missing_lt (through := through) (inner := inner) (keep := keep) (extra := new.eraseDups)
        (List.mem_eraseDups.mpr hx) hT (by simpa using hxk)
      obtain ⟨c1, c2⟩ := ih (keep ++ new.eraseDups) (by omega)
      exact ⟨c1, fun k hk => c2 k (List.mem_append_left _ hk)⟩

theorem allTargets_length_le (through : Bool) (inner : List (Nat × Node)) :
    (allTargets through inner).length ≤ inner.length := List.length_filterMap_le _ _

theorem missing_le (through : Bool) (inner : List (Nat × Node)) (keep : List Nat) :
    missing through inner keep ≤ inner.length :=
  Nat.le_trans (List.length_filter_le _ _) (allTargets_length_le through inner)

end Dask.BagLazify
