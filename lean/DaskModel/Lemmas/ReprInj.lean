import DaskModel.Lemmas.ReprLex
import DaskModel.Lemmas.NormalForm
/-!
Python `repr` of nested tuples / lists of ints, bools, None, str and bytes — the shape of the normal forms of plain
data — can be read back unambiguously (`repr_unique`), hence `pyRepr` is injective on them (`pyRepr_injective`).
-/
namespace Dask.NF

mutual
/-- nested tuples / lists of ints, bools, None, str, bytes (every byte < 256) -/
def plainV : Val → Bool
  | .int _ => true
  | .bool _ => true
  | .none => true
  | .str _ => true
  | .bytes b => b.all (fun x => decide (x < 256))
  | .tuple xs => plainL xs
  | .list xs => plainL xs
  | _ => false
def plainL : List Val → Bool
  | [] => true
  | x :: xs => plainV x && plainL xs
end

mutual
/-- `repr` as a character list -/
def reprC : Val → List Char
  | .int i => intChars i
  | .bool b => if b then ['T', 'r', 'u', 'e'] else ['F', 'a', 'l', 's', 'e']
  | .none => ['N', 'o', 'n', 'e']
  | .str s => reprStrChars s.toList
  | .bytes b => reprBytesChars b
  | .tuple xs => '(' :: tupC xs
  | .list xs => '[' :: (seqC xs ++ [']'])
  | _ => []
/-- elements separated by `", "` -/
def seqC : List Val → List Char
  | [] => []
  | [x] => reprC x
  | x :: y :: r => reprC x ++ ',' :: ' ' :: seqC (y :: r)
/-- what follows the opening parenthesis of a tuple: `)`, `x,)`, `x, y, …)` -/
def tupC : List Val → List Char
  | [] => [')']
  | [x] => reprC x ++ [',', ')']
  | x :: y :: r => reprC x ++ ',' :: ' ' :: (seqC (y :: r) ++ [')'])
end

/-- class of the first character of a `repr` -/
def tagOfChar (c : Char) : Nat :=
  if c.isDigit || c == '-' then 0
  else if c == 'T' || c == 'F' then 1
  else if c == 'N' then 2
  else if c == '\'' || c == '"' then 3
  else if c == 'b' then 4
  else if c == '(' then 5
  else if c == '[' then 6
  else 7

def headTag : Val → Nat
  | .int _ => 0 | .bool _ => 1 | .none => 2 | .str _ => 3 | .bytes _ => 4 | .tuple _ => 5 | .list _ => 6 | _ => 7

theorem reprC_head : ∀ a : Val, plainV a = true → ∃ c t, reprC a = c :: t ∧ tagOfChar c = headTag a
  | .int i, _ => by
    simp only [reprC, intChars, headTag]
    have hne : ∀ n, ∃ c t, Nat.toDigits 10 n = c :: t ∧ c.isDigit = true := by
      intro n
      cases hd : Nat.toDigits 10 n with
      | nil => exact absurd hd Nat.toDigits_ne_nil
      | cons c t =>
        exact ⟨c, t, rfl, Nat.isDigit_of_mem_toDigits (b := 10) (n := n) (by decide) (by decide) (by rw [hd]; simp)⟩
    split
    · obtain ⟨c, t, h1, h2⟩ := hne i.toNat
      exact ⟨c, t, h1, by simp [tagOfChar, h2]⟩
    · exact ⟨'-', _, rfl, by decide⟩
  | .bool b, _ => by cases b <;> exact ⟨_, _, rfl, by decide⟩
  | .none, _ => ⟨_, _, rfl, by decide⟩
  | .str s, _ => by
    simp only [reprC, reprStrChars, headTag]
    refine ⟨_, _, rfl, ?_⟩
    rcases pickQuote_isQuote s.toList with h | h <;> rw [h] <;> decide
  | .bytes b, _ => ⟨_, _, rfl, by simp only [headTag]; decide⟩
  | .tuple xs, _ => ⟨_, _, rfl, by simp only [headTag]; decide⟩
  | .list xs, _ => ⟨_, _, rfl, by simp only [headTag]; decide⟩
  | .float _, h => by simp [plainV] at h
  | .atom _, h => by simp [plainV] at h
  | .hash _ _, h => by simp [plainV] at h
  | .dict _, h => by simp [plainV] at h
  | .set _, h => by simp [plainV] at h
  | .arr0 _ _, h => by simp [plainV] at h
  | .ndarray _ _ _ _ _, h => by simp [plainV] at h
  | .objarr _ _, h => by simp [plainV] at h
  | .digest _, h => by simp [plainV] at h
  | .sortedTokens _, h => by simp [plainV] at h
  | .pickled _ _, h => by simp [plainV] at h

/-- what may follow a value inside a tuple / list, or nothing at the end of the text -/
def Stop (r : List Char) : Prop := ∀ c t, r = c :: t → c = ',' ∨ c = ')' ∨ c = ']'

theorem Stop.not_digit {r : List Char} (h : Stop r) : ∀ c t, r = c :: t → c.isDigit = false := by
  intro c t hr
  rcases h c t hr with rfl | rfl | rfl <;> decide

theorem stop_nil : Stop [] := by intro c t h; cases h
theorem stop_comma (t : List Char) : Stop (',' :: t) := by intro c t' h; cases h; exact Or.inl rfl
theorem stop_paren (t : List Char) : Stop (')' :: t) := by intro c t' h; cases h; exact Or.inr (Or.inl rfl)
theorem stop_bracket (t : List Char) : Stop (']' :: t) := by intro c t' h; cases h; exact Or.inr (Or.inr rfl)

/-- a value never starts with a closing or separating character -/
theorem reprC_head_ne (a : Val) (ha : plainV a = true) (r : List Char) (c : Char) (t : List Char)
    (hc : c = ',' ∨ c = ')' ∨ c = ']') : reprC a ++ r ≠ c :: t := by
  obtain ⟨d, t', hd, htag⟩ := reprC_head a ha
  rw [hd]
  intro h
  simp only [List.cons_append, List.cons.injEq] at h
  have : tagOfChar c = headTag a := by rw [← h.1]; exact htag
  have h7 : tagOfChar c = 7 := by rcases hc with rfl | rfl | rfl <;> decide
  rw [h7] at this
  cases a <;> simp [headTag] at this <;> simp [plainV] at ha

theorem bytes_lt (b : List Nat) (h : plainV (.bytes b) = true) : ∀ x ∈ b, x < 256 := by
  simp only [plainV, List.all_eq_true, decide_eq_true_eq] at h
  exact h

mutual
/-- **Unique readability**: a `repr` followed by a separator, a closing bracket or nothing determines the value
    and what follows. -/
theorem repr_unique : ∀ (a b : Val) (r1 r2 : List Char), plainV a = true → plainV b = true → Stop r1 → Stop r2 →
    reprC a ++ r1 = reprC b ++ r2 → a = b ∧ r1 = r2
  | .int i, b, r1, r2, ha, hb, s1, s2, h => by
    have htag := tag_eq (.int i) b r1 r2 ha hb h
    cases b <;> simp [headTag] at htag
    rename_i j
    simp only [reprC] at h
    obtain ⟨e1, e2⟩ := intChars_inj i j r1 r2 s1.not_digit s2.not_digit h
    exact ⟨by rw [e1], e2⟩
  | .bool x, b, r1, r2, ha, hb, s1, s2, h => by
    have htag := tag_eq (.bool x) b r1 r2 ha hb h
    cases b <;> simp [headTag] at htag
    rename_i y
    simp only [reprC] at h
    cases x <;> cases y <;> simp at h <;> simp [h]
  | .none, b, r1, r2, ha, hb, s1, s2, h => by
    have htag := tag_eq .none b r1 r2 ha hb h
    cases b <;> simp [headTag] at htag
    simp only [reprC, List.cons_append, List.cons.injEq, true_and, List.nil_append] at h
    exact ⟨rfl, h⟩
  | .str s, b, r1, r2, ha, hb, s1, s2, h => by
    have htag := tag_eq (.str s) b r1 r2 ha hb h
    cases b <;> simp [headTag] at htag
    rename_i s'
    simp only [reprC] at h
    obtain ⟨e1, e2⟩ := reprStr_inj _ _ r1 r2 h
    exact ⟨by rw [String.toList_inj.mp e1], e2⟩
  | .bytes x, b, r1, r2, ha, hb, s1, s2, h => by
    have htag := tag_eq (.bytes x) b r1 r2 ha hb h
    cases b <;> simp [headTag] at htag
    rename_i y
    simp only [reprC] at h
    obtain ⟨e1, e2⟩ := reprBytes_inj x y r1 r2 (bytes_lt x ha) (bytes_lt y hb) h
    exact ⟨by rw [e1], e2⟩
  | .tuple xs, b, r1, r2, ha, hb, s1, s2, h => by
    have htag := tag_eq (.tuple xs) b r1 r2 ha hb h
    cases b <;> simp [headTag] at htag
    rename_i ys
    simp only [reprC, List.cons_append, List.cons.injEq, true_and] at h
    simp only [plainV] at ha hb
    obtain ⟨e1, e2⟩ := tup_unique xs ys r1 r2 ha hb h
    exact ⟨by rw [e1], e2⟩
  | .list xs, b, r1, r2, ha, hb, s1, s2, h => by
    have htag := tag_eq (.list xs) b r1 r2 ha hb h
    cases b <;> simp [headTag] at htag
    rename_i ys
    simp only [reprC, List.cons_append, List.cons.injEq, true_and, List.append_assoc] at h
    simp only [plainV] at ha hb
    obtain ⟨e1, e2⟩ := seq_unique ']' (Or.inr rfl) xs ys r1 r2 ha hb h
    exact ⟨by rw [e1], e2⟩
  | .float _, _, _, _, ha, _, _, _, _ => by simp [plainV] at ha
  | .atom _, _, _, _, ha, _, _, _, _ => by simp [plainV] at ha
  | .hash _ _, _, _, _, ha, _, _, _, _ => by simp [plainV] at ha
  | .dict _, _, _, _, ha, _, _, _, _ => by simp [plainV] at ha
  | .set _, _, _, _, ha, _, _, _, _ => by simp [plainV] at ha
  | .arr0 _ _, _, _, _, ha, _, _, _, _ => by simp [plainV] at ha
  | .ndarray _ _ _ _ _, _, _, _, ha, _, _, _, _ => by simp [plainV] at ha
  | .objarr _ _, _, _, _, ha, _, _, _, _ => by simp [plainV] at ha
  | .digest _, _, _, _, ha, _, _, _, _ => by simp [plainV] at ha
  | .sortedTokens _, _, _, _, ha, _, _, _, _ => by simp [plainV] at ha
  | .pickled _ _, _, _, _, ha, _, _, _, _ => by simp [plainV] at ha
/-- elements up to the closing character `cl` -/
theorem seq_unique (cl : Char) (hcl : cl = ')' ∨ cl = ']') : ∀ (xs ys : List Val) (r1 r2 : List Char),
    plainL xs = true → plainL ys = true →
    seqC xs ++ cl :: r1 = seqC ys ++ cl :: r2 → xs = ys ∧ r1 = r2
  | [], [], r1, r2, _, _, h => by simpa [seqC] using h
  | [], y :: ys, r1, r2, _, hb, h => by
    exfalso
    simp only [plainL, Bool.and_eq_true] at hb
    have hstop : cl = ',' ∨ cl = ')' ∨ cl = ']' := Or.inr hcl
    cases ys with
    | nil => exact reprC_head_ne y hb.1 _ cl r1 hstop (by simpa [seqC] using h.symm)
    | cons y' ys' =>
      exact reprC_head_ne y hb.1 _ cl r1 hstop (by simpa [seqC, List.append_assoc] using h.symm)
  | x :: xs, [], r1, r2, ha, _, h => by
    exfalso
    simp only [plainL, Bool.and_eq_true] at ha
    have hstop : cl = ',' ∨ cl = ')' ∨ cl = ']' := Or.inr hcl
    cases xs with
    | nil => exact reprC_head_ne x ha.1 _ cl r2 hstop (by simpa [seqC] using h)
    | cons x' xs' => exact reprC_head_ne x ha.1 _ cl r2 hstop (by simpa [seqC, List.append_assoc] using h)
  | [x], [y], r1, r2, ha, hb, h => by
    simp only [plainL, Bool.and_eq_true, and_true] at ha hb
    simp only [seqC] at h
    have hs : ∀ r, Stop (cl :: r) := fun r => by rcases hcl with rfl | rfl; exact stop_paren r; exact stop_bracket r
    obtain ⟨e1, e2⟩ := repr_unique x y _ _ ha hb (hs r1) (hs r2) h
    exact ⟨by rw [e1], (List.cons.inj e2).2⟩
  | [x], y :: y' :: ys, r1, r2, ha, hb, h => by
    exfalso
    simp only [plainL, Bool.and_eq_true, and_true] at ha hb
    simp only [seqC, List.append_assoc, List.cons_append] at h
    have hs : Stop (cl :: r1) := by rcases hcl with rfl | rfl; exact stop_paren r1; exact stop_bracket r1
    obtain ⟨_, e2⟩ := repr_unique x y _ _ ha hb.1 hs (stop_comma _) h
    have := (List.cons.inj e2).1
    rcases hcl with rfl | rfl <;> exact absurd this (by decide)
  | x :: x' :: xs, [y], r1, r2, ha, hb, h => by
    exfalso
    simp only [plainL, Bool.and_eq_true, and_true] at ha hb
    simp only [seqC, List.append_assoc, List.cons_append] at h
    have hs : Stop (cl :: r2) := by rcases hcl with rfl | rfl; exact stop_paren r2; exact stop_bracket r2
    obtain ⟨_, e2⟩ := repr_unique x y _ _ ha.1 hb (stop_comma _) hs h
    have := (List.cons.inj e2).1
    rcases hcl with rfl | rfl <;> exact absurd this.symm (by decide)
  | x :: x' :: xs, y :: y' :: ys, r1, r2, ha, hb, h => by
    simp only [plainL, Bool.and_eq_true] at ha hb
    simp only [seqC, List.append_assoc, List.cons_append] at h
    obtain ⟨e1, e2⟩ := repr_unique x y _ _ ha.1 hb.1 (stop_comma _) (stop_comma _) h
    simp only [List.cons.injEq, true_and] at e2
    obtain ⟨e3, e4⟩ := seq_unique cl hcl (x' :: xs) (y' :: ys) r1 r2
      (by simp only [plainL, Bool.and_eq_true]; exact ha.2) (by simp only [plainL, Bool.and_eq_true]; exact hb.2) e2
    exact ⟨by rw [e1, e3], e4⟩
/-- the inside of a tuple -/
theorem tup_unique : ∀ (xs ys : List Val) (r1 r2 : List Char), plainL xs = true → plainL ys = true →
    tupC xs ++ r1 = tupC ys ++ r2 → xs = ys ∧ r1 = r2
  | [], [], r1, r2, _, _, h => by simpa [tupC] using h
  | [], y :: ys, r1, r2, _, hb, h => by
    exfalso
    simp only [plainL, Bool.and_eq_true] at hb
    cases ys with
    | nil => exact reprC_head_ne y hb.1 _ ')' r1 (Or.inr (Or.inl rfl)) (by simpa [tupC] using h.symm)
    | cons y' ys' =>
      exact reprC_head_ne y hb.1 _ ')' r1 (Or.inr (Or.inl rfl)) (by simpa [tupC, List.append_assoc] using h.symm)
  | x :: xs, [], r1, r2, ha, _, h => by
    exfalso
    simp only [plainL, Bool.and_eq_true] at ha
    cases xs with
    | nil => exact reprC_head_ne x ha.1 _ ')' r2 (Or.inr (Or.inl rfl)) (by simpa [tupC] using h)
    | cons x' xs' =>
      exact reprC_head_ne x ha.1 _ ')' r2 (Or.inr (Or.inl rfl)) (by simpa [tupC, List.append_assoc] using h)
  | [x], [y], r1, r2, ha, hb, h => by
    simp only [plainL, Bool.and_eq_true, and_true] at ha hb
    simp only [tupC, List.append_assoc, List.cons_append, List.nil_append] at h
    obtain ⟨e1, e2⟩ := repr_unique x y _ _ ha hb (stop_comma _) (stop_comma _) h
    simp only [List.cons.injEq, true_and] at e2
    exact ⟨by rw [e1], e2⟩
  | [x], y :: y' :: ys, r1, r2, ha, hb, h => by
    exfalso
    simp only [plainL, Bool.and_eq_true, and_true] at ha hb
    simp only [tupC, List.append_assoc, List.cons_append, List.nil_append] at h
    obtain ⟨_, e2⟩ := repr_unique x y _ _ ha hb.1 (stop_comma _) (stop_comma _) h
    simp only [List.cons.injEq, true_and] at e2
    exact absurd e2.1 (by decide)
  | x :: x' :: xs, [y], r1, r2, ha, hb, h => by
    exfalso
    simp only [plainL, Bool.and_eq_true, and_true] at ha hb
    simp only [tupC, List.append_assoc, List.cons_append, List.nil_append] at h
    obtain ⟨_, e2⟩ := repr_unique x y _ _ ha.1 hb (stop_comma _) (stop_comma _) h
    simp only [List.cons.injEq, true_and] at e2
    exact absurd e2.1 (by decide)
  | x :: x' :: xs, y :: y' :: ys, r1, r2, ha, hb, h => by
    simp only [plainL, Bool.and_eq_true] at ha hb
    simp only [tupC, List.append_assoc, List.cons_append, List.nil_append] at h
    obtain ⟨e1, e2⟩ := repr_unique x y _ _ ha.1 hb.1 (stop_comma _) (stop_comma _) h
    simp only [List.cons.injEq, true_and] at e2
    obtain ⟨e3, e4⟩ := seq_unique ')' (Or.inl rfl) (x' :: xs) (y' :: ys) r1 r2
      (by simp only [plainL, Bool.and_eq_true]; exact ha.2) (by simp only [plainL, Bool.and_eq_true]; exact hb.2) e2
    exact ⟨by rw [e1, e3], e4⟩
/-- equal texts start with the same class of character -/
theorem tag_eq (a b : Val) (r1 r2 : List Char) (ha : plainV a = true) (hb : plainV b = true)
    (h : reprC a ++ r1 = reprC b ++ r2) : headTag a = headTag b := by
  obtain ⟨c, t, hc, htc⟩ := reprC_head a ha
  obtain ⟨d, t', hd, htd⟩ := reprC_head b hb
  rw [hc, hd] at h
  simp only [List.cons_append, List.cons.injEq] at h
  rw [← htc, ← htd, h.1]
end

end Dask.NF

namespace Dask.NF

/-! ## `pyRepr` is this character list -/

theorem seqC_eq_intercalate : ∀ xs : List Val, seqC xs = [',', ' '].intercalate (xs.map reprC)
  | [] => rfl
  | [x] => by simp [seqC, List.intercalate, List.intersperse]
  | x :: y :: r => by
    have ih := seqC_eq_intercalate (y :: r)
    simp only [seqC, ih, List.intercalate, List.map_cons, List.intersperse, List.flatten_cons, List.cons_append,
      List.nil_append, List.append_assoc]

theorem tupC_long (x y : Val) (r : List Val) : tupC (x :: y :: r) = seqC (x :: y :: r) ++ [')'] := by
  simp [tupC, seqC, List.append_assoc]

mutual
theorem pyRepr_toList : ∀ v : Val, plainV v = true → (pyRepr v).toList = reprC v
  | .int i, _ => by simp only [pyRepr, reprC]; exact toString_int_toList i
  | .bool b, _ => by cases b <;> simp [pyRepr, reprC]
  | .none, _ => by simp [pyRepr, reprC]
  | .str s, _ => by simp [pyRepr, reprC, pyReprStr]
  | .bytes b, _ => by simp [pyRepr, reprC, pyReprBytes]
  | .tuple xs, h => by
    simp only [plainV] at h
    have hl := pyReprL_toList xs h
    cases xs with
    | nil => simp [pyRepr, pyReprL, reprC, tupC, commaSep]
    | cons x xs' =>
      cases xs' with
      | nil =>
        simp only [pyReprL, List.map_cons, List.map_nil, List.cons.injEq, and_true] at hl
        simp [pyRepr, pyReprL, reprC, tupC, String.toList_append, hl]
      | cons y r =>
        simp only [pyRepr, pyReprL, reprC]
        rw [tupC_long, seqC_eq_intercalate]
        simp only [String.toList_append, commaSep, String.toList_intercalate]
        have : List.map String.toList (pyRepr x :: pyRepr y :: pyReprL r) = (x :: y :: r).map reprC := by
          simpa [pyReprL] using hl
        rw [this]
        simp
  | .list xs, h => by
    simp only [plainV] at h
    have hl := pyReprL_toList xs h
    simp only [pyRepr, reprC, String.toList_append, commaSep, String.toList_intercalate, hl, seqC_eq_intercalate]
    simp
  | .float _, h => by simp [plainV] at h
  | .atom _, h => by simp [plainV] at h
  | .hash _ _, h => by simp [plainV] at h
  | .dict _, h => by simp [plainV] at h
  | .set _, h => by simp [plainV] at h
  | .arr0 _ _, h => by simp [plainV] at h
  | .ndarray _ _ _ _ _, h => by simp [plainV] at h
  | .objarr _ _, h => by simp [plainV] at h
  | .digest _, h => by simp [plainV] at h
  | .sortedTokens _, h => by simp [plainV] at h
  | .pickled _ _, h => by simp [plainV] at h
theorem pyReprL_toList : ∀ xs : List Val, plainL xs = true → (pyReprL xs).map String.toList = xs.map reprC
  | [], _ => rfl
  | x :: xs, h => by
    simp only [plainL, Bool.and_eq_true] at h
    simp only [pyReprL, List.map_cons, pyRepr_toList x h.1, pyReprL_toList xs h.2]
end

/-- **`repr` is injective on nested tuples / lists of ints, bools, None, str and bytes.** -/
theorem pyRepr_injective (a b : Val) (ha : plainV a = true) (hb : plainV b = true) (h : pyRepr a = pyRepr b) : a = b := by
  have h' : reprC a ++ [] = reprC b ++ [] := by
    rw [List.append_nil, List.append_nil, ← pyRepr_toList a ha, ← pyRepr_toList b hb, h]
  exact (repr_unique a b [] [] ha hb stop_nil stop_nil h').1

end Dask.NF

namespace Dask.NF

/-! ## normal forms of plain data are such nested tuples -/

mutual
/-- plain data: numbers-free fragment (ints, bools, None, str, bytes) in nested lists, tuples, dicts and sets
    (floats and arrays carry opaque reprs / digests and are left to the trusted base) -/
def dataV : Val → Bool
  | .int _ => true
  | .bool _ => true
  | .none => true
  | .str _ => true
  | .bytes b => b.all (fun x => decide (x < 256))
  | .list xs => dataL xs
  | .tuple xs => dataL xs
  | .set xs => dataL xs
  | .dict kvs => dataP kvs
  | _ => false
def dataL : List Val → Bool
  | [] => true
  | x :: xs => dataV x && dataL xs
def dataP : List (Val × Val) → Bool
  | [] => true
  | (k, v) :: r => dataV k && dataV v && dataP r
end

theorem plainL_iff (xs : List Val) : plainL xs = true ↔ ∀ x ∈ xs, plainV x = true := by
  induction xs with
  | nil => simp [plainL]
  | cons x xs ih => simp [plainL, ih]

mutual
theorem norm_plain : ∀ v : Val, dataV v = true → plainV (norm v) = true
  | .int _, _ => rfl
  | .bool _, _ => rfl
  | .none, _ => rfl
  | .str _, _ => rfl
  | .bytes b, h => by simpa [norm, plainV, dataV] using h
  | .list xs, h => by
    simp only [dataV] at h
    simp only [norm, plainV, plainL, Bool.and_true, Bool.true_and]
    exact normL_plain xs h
  | .tuple xs, h => by
    simp only [dataV] at h
    simp only [norm, plainV, plainL, Bool.and_true, Bool.true_and]
    exact normL_plain xs h
  | .set xs, h => by
    simp only [dataV] at h
    simp only [norm, plainV, plainL, Bool.and_true, Bool.true_and]
    rw [plainL_iff]
    intro x hx
    have hx' : x ∈ (normS xs).map Prod.snd := ((ssort_perm (normS xs)).map Prod.snd).subset hx
    exact normS_plain xs h x hx'
  | .dict kvs, h => by
    simp only [dataV] at h
    simp only [norm, plainV, plainL, Bool.and_true, Bool.true_and]
    rw [plainL_iff]
    intro x hx
    have hx' : x ∈ (normP kvs).map Prod.snd := ((ssort_perm (normP kvs)).map Prod.snd).subset hx
    exact normP_plain kvs h x hx'
  | .float _, h => by simp [dataV] at h
  | .atom _, h => by simp [dataV] at h
  | .hash _ _, h => by simp [dataV] at h
  | .arr0 _ _, h => by simp [dataV] at h
  | .ndarray _ _ _ _ _, h => by simp [dataV] at h
  | .objarr _ _, h => by simp [dataV] at h
  | .digest _, h => by simp [dataV] at h
  | .sortedTokens _, h => by simp [dataV] at h
  | .pickled _ _, h => by simp [dataV] at h
theorem normL_plain : ∀ xs : List Val, dataL xs = true → plainL (normL xs) = true
  | [], _ => rfl
  | x :: xs, h => by
    simp only [dataL, Bool.and_eq_true] at h
    simp only [normL, plainL, Bool.and_eq_true]
    exact ⟨norm_plain x h.1, normL_plain xs h.2⟩
theorem normS_plain : ∀ xs : List Val, dataL xs = true → ∀ x ∈ (normS xs).map Prod.snd, plainV x = true
  | [], _, x, hx => by simp [normS] at hx
  | a :: as, h, x, hx => by
    simp only [dataL, Bool.and_eq_true] at h
    simp only [normS, List.map_cons, List.mem_cons] at hx
    rcases hx with rfl | hx
    · exact norm_plain a h.1
    · exact normS_plain as h.2 x hx
theorem normP_plain : ∀ kvs : List (Val × Val), dataP kvs = true → ∀ x ∈ (normP kvs).map Prod.snd, plainV x = true
  | [], _, x, hx => by simp [normP] at hx
  | (k, v) :: r, h, x, hx => by
    simp only [dataP, Bool.and_eq_true] at h
    simp only [normP, List.map_cons, List.mem_cons] at hx
    rcases hx with rfl | hx
    · simp [plainV, plainL, norm_plain k h.1.1, norm_plain v h.1.2]
    · exact normP_plain r h.2 x hx
end

end Dask.NF
