import DaskModel.Model.Rename
import DaskModel.Lemmas.SpecResolve
/-! C16, `_bind_one` (review round), part 1: Python sets as lists (`popAt`, `unionL`), sums over filtered lists (the fuel
    measure), association-list facts. -/
namespace Dask.TaskTerm

/-! ### sets as lists -/

theorem popAt_none {sel : List Obj → Nat} {w : List Obj} : popAt sel w = none ↔ w = [] := by
  cases w with
  | nil => simp [popAt]
  | cons x xs =>
    simp only [popAt]
    split <;> simp

theorem popAt_some {sel : List Obj → Nat} {w : List Obj} {x : Obj} {rest : List Obj} (h : popAt sel w = some (x, rest)) :
    x ∈ w ∧ (∀ y, y ∈ rest → y ∈ w) ∧ (∀ y, y ∈ w → y = x ∨ y ∈ rest) ∧ rest.length + 1 = w.length := by
  cases w with
  | nil => simp [popAt] at h
  | cons a as =>
    simp only [popAt] at h
    split at h
    · rename_i y hy
      cases h
      have hlt : sel (a :: as) % (a :: as).length < (a :: as).length := Nat.mod_lt _ (by simp)
      refine ⟨List.mem_of_getElem? hy, fun y hy' => List.mem_of_mem_eraseIdx hy', ?_, ?_⟩
      · intro z hz
        by_cases hzx : z = x
        · exact Or.inl hzx
        · right
          obtain ⟨i, hi, rfl⟩ := List.getElem_of_mem hz
          rw [List.mem_eraseIdx_iff_getElem]
          refine ⟨i, hi, ?_, rfl⟩
          intro hie
          apply hzx
          subst hie
          rw [List.getElem?_eq_getElem hi] at hy
          exact Option.some.inj hy
      · rw [List.length_eraseIdx]
        simp only [hlt, if_true]
        have : 0 < (a :: as).length := by simp
        omega
    · cases h
      refine ⟨by simp, fun y hy => by simp [hy], fun y hy => by simpa using hy, by simp⟩

theorem mem_unionL {w xs : List Obj} {x : Obj} : x ∈ unionL w xs ↔ x ∈ w ∨ x ∈ xs := by
  simp only [unionL, List.mem_append, List.mem_filter, Bool.not_eq_true', List.contains_eq_mem, decide_eq_false_iff_not]
  constructor
  · rintro (h | ⟨h, _⟩)
    · exact Or.inl h
    · exact Or.inr h
  · rintro (h | h)
    · exact Or.inl h
    · by_cases hw : x ∈ w
      · exact Or.inl hw
      · exact Or.inr ⟨h, hw⟩

theorem length_unionL_le (w xs : List Obj) : (unionL w xs).length ≤ w.length + xs.length := by
  simp only [unionL, List.length_append]
  have := List.length_filter_le (fun x => !w.contains x) xs
  omega

theorem length_filter_partition {α : Type} (p : α → Bool) : ∀ l : List α,
    (l.filter fun x => !p x).length + (l.filter p).length = l.length
  | [] => rfl
  | x :: xs => by
    have ih := length_filter_partition p xs
    by_cases h : p x = true
    · simp [h]; omega
    · have h' : p x = false := by simpa using h
      simp [h']; omega

theorem sum_filter_drop {α : Type} (f : α → Nat) (p p' : α → Bool) (e0 : α) : ∀ (L : List α), e0 ∈ L →
    (∀ e, p' e = true → p e = true) → p e0 = true → p' e0 = false →
    ((L.filter p').map f).sum + f e0 ≤ ((L.filter p).map f).sum
  | [], h, _, _, _ => by simp at h
  | x :: xs, h, hpp, h0, h0' => by
    have mono : ∀ (L : List α), ((L.filter p').map f).sum ≤ ((L.filter p).map f).sum := by
      intro L
      induction L with
      | nil => simp
      | cons y ys ih =>
        by_cases hy' : p' y = true
        · simp [hy', hpp y hy']; omega
        · have hy'' : p' y = false := by simpa using hy'
          by_cases hy : p y = true
          · simp [hy'', hy]; omega
          · have : p y = false := by simpa using hy
            simp [hy'', this]; exact ih
    rcases List.mem_cons.mp h with rfl | hm
    · have := mono xs
      simp [h0, h0']; omega
    · have ih := sum_filter_drop f p p' e0 xs hm hpp h0 h0'
      by_cases hx' : p' x = true
      · simp [hx', hpp x hx']; omega
      · have hx'' : p' x = false := by simpa using hx'
        by_cases hx : p x = true
        · simp [hx'', hx]; omega
        · have : p x = false := by simpa using hx
          simp [hx'', this]; exact ih

theorem isSome_lookup_iff {α : Type} (g : List (Obj × α)) (k : Obj) : (g.lookup k).isSome ↔ k ∈ g.map Prod.fst := by
  constructor
  · intro h
    cases hl : g.lookup k with
    | none => simp [hl] at h
    | some v => exact mem_keys_of_lookup g k v hl
  · exact lookup_isSome_of_mem g k

theorem lookup_map_const {α β : Type} (c : β) : ∀ (g : List (Obj × α)) (k : Obj),
    (g.map fun e => (e.1, c)).lookup k = (g.lookup k).map fun _ => c
  | [], _ => rfl
  | (k', v) :: rest, k => by
    simp only [List.map_cons, List.lookup]
    cases (k == k') <;> simp [lookup_map_const c rest k]


theorem lookup_eq_of_mem_nodup {α : Type} : ∀ {g : List (Obj × α)} {e : Obj × α}, (g.map Prod.fst).Nodup → e ∈ g →
    g.lookup e.1 = some e.2
  | [], _, _, h => by simp at h
  | (k', v') :: rest, e, hn, h => by
    simp only [List.map_cons, List.nodup_cons] at hn
    rcases List.mem_cons.mp h with rfl | hm
    · simp [List.lookup]
    · have hne : (e.1 == k') = false := by
        rw [Bool.eq_false_iff]; intro hc
        have : e.1 = k' := eq_of_beq hc
        exact hn.1 (this ▸ List.mem_map.mpr ⟨e, hm, rfl⟩)
      simp only [List.lookup, hne]
      exact lookup_eq_of_mem_nodup hn.2 hm

end Dask.TaskTerm
