import DaskModel.Model.Repack
/-!
Lemmas for C13/C14: `_HLGExprSequence.__dask_keys__` puts the keys of every operand back to the position the
operand had before `_tune_down` grouped the operands by optimizer.
-/
namespace Dask.Repack
variable {κ : Type}

/-- flat entries with their true position: `(position, grouped?, keys)` -/
abbrev Ghost (κ : Type) := Nat × Bool × κ

def ghostOf (g : Nat × List (Nat × κ)) : List (Ghost κ) :=
  match g.2 with
  | [(i, k)] => [(i, false, k)]
  | ms => ms.map (fun m => (m.1, true, m.2))

/-- what `__dask_keys__` knows of an entry: the position only if it was grouped -/
def strip (e : Ghost κ) : Option Nat × κ := (if e.2.1 then some e.1 else none, e.2.2)

theorem flat_ghost : ∀ G : List (Nat × List (Nat × κ)), flatKeys (G.map toOp) = (G.flatMap ghostOf).map strip
  | [] => rfl
  | (o, ms) :: G => by
    have ih := flat_ghost G
    cases ms with
    | nil => simp [toOp, flatKeys, ghostOf, ih]
    | cons m ms' =>
      obtain ⟨i, k⟩ := m
      cases ms' with
      | nil => simp [toOp, flatKeys, ghostOf, strip, ih]
      | cons m' ms'' =>
        simp only [List.map_cons, toOp, flatKeys, List.flatMap_cons, ghostOf, List.map_append, ih]
        congr 1
        simp [strip, List.zip_map']

theorem ghost_idxkey (g : Nat × List (Nat × κ)) : (ghostOf g).map (fun e => (e.1, e.2.2)) = g.2 := by
  obtain ⟨o, ms⟩ := g
  cases ms with
  | nil => simp [ghostOf]
  | cons m ms' =>
    cases ms' with
    | nil => simp [ghostOf]
    | cons m' ms'' =>
      simp only [ghostOf, List.map_map]
      exact (List.map_congr_left (fun x _ => rfl)).trans (List.map_id _)

/-- grouped entries go to their position, the others take the free slots in order: if the free slots start with
    the true positions of the ungrouped entries, every entry lands on its true position -/
theorem assign_ghost : ∀ (fg : List (Ghost κ)) (r : List Nat),
    assign (fg.map strip) (((fg.filter (fun e => !e.2.1)).map (·.1)) ++ r) = fg.map (fun e => (e.1, e.2.2))
  | [], r => by simp [assign]
  | (i, b, k) :: fg, r => by
    cases b with
    | true => simp [strip, assign, assign_ghost fg r]
    | false => simp [strip, assign, assign_ghost fg r]

theorem taken_ghost : ∀ fg : List (Ghost κ),
    (fg.map strip).filterMap Prod.fst = (fg.filter (fun e => e.2.1)).map (·.1)
  | [] => rfl
  | (i, b, k) :: fg => by
    cases b <;> simp [strip, taken_ghost fg]

/-! ## facts about `groupby` -/

theorem groupbyN_members_perm : ∀ (n : Nat) (E : List (Nat × Nat × κ)), E.length ≤ n →
    ((groupbyN n E).flatMap (·.2)).Perm (E.map (fun e => (e.1, e.2.2)))
  | 0, E, h => by
    have : E = [] := List.eq_nil_of_length_eq_zero (Nat.le_zero.mp h)
    subst this
    simp [groupbyN]
  | n + 1, [], _ => by simp [groupbyN]
  | n + 1, e :: rest, h => by
    simp only [groupbyN, List.flatMap_cons, List.map_cons, List.cons_append]
    refine List.Perm.cons _ ?_
    have hlen : (rest.filter (fun x => x.2.1 != e.2.1)).length ≤ n :=
      Nat.le_trans (List.length_filter_le _ _) (by simpa using h)
    have ih := groupbyN_members_perm n (rest.filter (fun x => x.2.1 != e.2.1)) hlen
    refine (List.Perm.append_left _ ih).trans ?_
    rw [← List.map_append]
    refine List.Perm.map _ ?_
    have := List.filter_append_perm (fun x : Nat × Nat × κ => x.2.1 == e.2.1) rest
    simpa [bne] using this

/-- true positions of the entries that were not grouped, in the order `__dask_keys__` meets them -/
def singlesIdx (G : List (Nat × List (Nat × κ))) : List Nat :=
  ((G.flatMap ghostOf).filter (fun e => !e.2.1)).map (·.1)

theorem singlesIdx_cons (g : Nat × List (Nat × κ)) (G : List (Nat × List (Nat × κ))) :
    singlesIdx (g :: G) = ((ghostOf g).filter (fun e => !e.2.1)).map (·.1) ++ singlesIdx G := by
  simp [singlesIdx]

/-- the ungrouped operands are met in increasing order of their original position -/
theorem groupbyN_singles_sorted : ∀ (n : Nat) (E : List (Nat × Nat × κ)), E.length ≤ n →
    E.Pairwise (fun a b => a.1 < b.1) →
    (singlesIdx (groupbyN n E)).Pairwise (· < ·) ∧ ∀ x ∈ singlesIdx (groupbyN n E), ∃ e ∈ E, e.1 = x
  | 0, E, h, _ => by
    have : E = [] := List.eq_nil_of_length_eq_zero (Nat.le_zero.mp h)
    subst this
    simp [groupbyN, singlesIdx]
  | n + 1, [], _, _ => by simp [groupbyN, singlesIdx]
  | n + 1, e :: rest, h, hp => by
    have hlen : (rest.filter (fun x => x.2.1 != e.2.1)).length ≤ n :=
      Nat.le_trans (List.length_filter_le _ _) (by simpa using h)
    have hp' := List.pairwise_cons.mp hp
    have hsub : (rest.filter (fun x => x.2.1 != e.2.1)).Pairwise (fun a b => a.1 < b.1) := hp'.2.filter _
    obtain ⟨ih1, ih2⟩ := groupbyN_singles_sorted n _ hlen hsub
    have hgt : ∀ x ∈ singlesIdx (groupbyN n (rest.filter (fun x => x.2.1 != e.2.1))), e.1 < x := by
      intro x hx
      obtain ⟨e', he', rfl⟩ := ih2 x hx
      exact hp'.1 e' (List.mem_filter.mp he').1
    simp only [groupbyN, singlesIdx_cons]
    -- the head group contributes its position iff nothing else shares the optimizer
    cases hf : (rest.filter (fun x => x.2.1 == e.2.1)).map (fun x => (x.1, x.2.2)) with
    | nil =>
      simp only [ghostOf, List.filter_cons, List.filter_nil, List.map_cons, List.map_nil, List.cons_append,
        List.nil_append, Bool.not_false, if_true]
      refine ⟨List.pairwise_cons.mpr ⟨hgt, ih1⟩, ?_⟩
      intro x hx
      rcases List.mem_cons.mp hx with rfl | hx
      · exact ⟨e, by simp, rfl⟩
      · obtain ⟨e', he', hx'⟩ := ih2 x hx
        exact ⟨e', List.mem_cons_of_mem _ (List.mem_filter.mp he').1, hx'⟩
    | cons m ms =>
      have : ((ghostOf (e.2.1, (e.1, e.2.2) :: m :: ms)).filter (fun e => !e.2.1)).map (·.1) = [] := by
        simp [ghostOf]
      rw [this, List.nil_append]
      refine ⟨ih1, ?_⟩
      intro x hx
      obtain ⟨e', he', hx'⟩ := ih2 x hx
      exact ⟨e', List.mem_cons_of_mem _ (List.mem_filter.mp he').1, hx'⟩

/-- two strictly increasing lists with the same members are equal -/
theorem eq_of_sorted_of_mem_iff : ∀ (l₁ l₂ : List Nat), l₁.Pairwise (· < ·) → l₂.Pairwise (· < ·) →
    (∀ x, x ∈ l₁ ↔ x ∈ l₂) → l₁ = l₂
  | [], [], _, _, _ => rfl
  | [], b :: _, _, _, h => by have := (h b).mpr (by simp); simp at this
  | a :: _, [], _, _, h => by have := (h a).mp (by simp); simp at this
  | a :: l₁, b :: l₂, h₁, h₂, h => by
    have h₁' := List.pairwise_cons.mp h₁
    have h₂' := List.pairwise_cons.mp h₂
    have hab : a = b := by
      have ha : a ∈ b :: l₂ := (h a).mp (by simp)
      have hb : b ∈ a :: l₁ := (h b).mpr (by simp)
      rcases List.mem_cons.mp ha with e | ha
      · exact e
      · rcases List.mem_cons.mp hb with e | hb
        · exact e.symm
        · have := h₂'.1 a ha
          have := h₁'.1 b hb
          omega
    subst hab
    congr 1
    refine eq_of_sorted_of_mem_iff l₁ l₂ h₁'.2 h₂'.2 (fun x => ⟨fun hx => ?_, fun hx => ?_⟩)
    · rcases List.mem_cons.mp ((h x).mp (List.mem_cons_of_mem _ hx)) with e | hx'
      · have := h₁'.1 x hx; omega
      · exact hx'
    · rcases List.mem_cons.mp ((h x).mpr (List.mem_cons_of_mem _ hx)) with e | hx'
      · have := h₂'.1 x hx; omega
      · exact hx'

theorem nodup_map_inj {α β : Type} (f : α → β) : ∀ (l : List α), (l.map f).Nodup →
    ∀ x ∈ l, ∀ y ∈ l, f x = f y → x = y
  | [], _, x, hx, _, _, _ => by simp at hx
  | a :: l, h, x, hx, y, hy, hxy => by
    simp only [List.map_cons, List.nodup_cons, List.mem_map, not_exists, not_and] at h
    rcases List.mem_cons.mp hx with ex | hx'
    · rcases List.mem_cons.mp hy with ey | hy'
      · rw [ex, ey]
      · rw [ex] at hxy; exact absurd hxy.symm (h.1 y hy')
    · rcases List.mem_cons.mp hy with ey | hy'
      · rw [ey] at hxy; exact absurd hxy (h.1 x hx')
      · exact nodup_map_inj f l h.2 x hx' y hy' hxy

/-- the entries `(position, optimizer, keys)` of `enumerate(operands)`: positions are 0, 1, 2, … -/
def Enumerated (E : List (Nat × Nat × κ)) : Prop := E.map (·.1) = List.range E.length

theorem enumFrom_map_fst {α : Type} : ∀ (n : Nat) (l : List α), (enumFrom n l).map (·.1) = List.range' n l.length
  | _, [] => rfl
  | n, x :: xs => by simp [enumFrom, enumFrom_map_fst (n + 1) xs, List.range'_succ]

theorem enumFrom_length {α : Type} : ∀ (n : Nat) (l : List α), (enumFrom n l).length = l.length
  | _, [] => rfl
  | n, x :: xs => by simp [enumFrom, enumFrom_length (n + 1) xs]

theorem enumFrom_map_snd {α : Type} : ∀ (n : Nat) (l : List α), (enumFrom n l).map (·.2) = l
  | _, [] => rfl
  | n, x :: xs => by simp [enumFrom, enumFrom_map_snd (n + 1) xs]

theorem enumerated_enumFrom (ops : List (Nat × κ)) : Enumerated (enumFrom 0 ops) := by
  unfold Enumerated
  rw [enumFrom_map_fst, enumFrom_length, List.range_eq_range']

/-- **`__dask_keys__` after grouping returns the keys in operand order.** -/
theorem daskKeys_groupby (E : List (Nat × Nat × κ)) (hidx : Enumerated E) :
    daskKeys ((groupby E).map toOp) = E.map (fun e => some e.2.2) := by
  have hidx : E.map (·.1) = List.range E.length := hidx
  -- ghost view of the flat list
  have hflat := flat_ghost (groupby E)
  generalize hfg : (groupby E).flatMap ghostOf = fg at hflat
  -- positions and keys of the ghost entries are those of E, permuted
  have hperm : (fg.map (fun e => (e.1, e.2.2))).Perm (E.map (fun e => (e.1, e.2.2))) := by
    have h1 : fg.map (fun e => (e.1, e.2.2)) = (groupby E).flatMap (·.2) := by
      rw [← hfg, List.map_flatMap]
      congr 1
      funext g
      exact ghost_idxkey g
    rw [h1]
    exact groupbyN_members_perm E.length E (Nat.le_refl _)
  have hlen : fg.length = E.length := by simpa using hperm.length_eq
  have hidxperm : (fg.map (·.1)).Perm (List.range E.length) := by
    have := hperm.map Prod.fst
    simp only [List.map_map] at this
    rw [← hidx]
    exact this
  have hnodup : (fg.map (·.1)).Nodup := hidxperm.nodup_iff.mpr List.nodup_range
  have hmem : ∀ x, x ∈ fg.map (·.1) ↔ x < E.length := fun x => by
    rw [hidxperm.mem_iff, List.mem_range]
  -- E is sorted by position
  have hEsorted : E.Pairwise (fun a b => a.1 < b.1) := by
    have : (E.map (·.1)).Pairwise (· < ·) := by rw [hidx]; exact List.pairwise_lt_range
    exact List.pairwise_map.mp this
  obtain ⟨hUsorted, _⟩ := groupbyN_singles_sorted E.length E (Nat.le_refl _) hEsorted
  have hU : singlesIdx (groupby E) = (fg.filter (fun e => !e.2.1)).map (·.1) := by
    simp [singlesIdx, hfg]
  change (singlesIdx (groupby E)).Pairwise (· < ·) at hUsorted
  rw [hU] at hUsorted
  -- the free slots are exactly the positions of the ungrouped entries
  have hfree : (List.range fg.length).filter (fun i => !((fg.filter (fun e => e.2.1)).map (·.1)).contains i)
      = (fg.filter (fun e => !e.2.1)).map (·.1) := by
    refine eq_of_sorted_of_mem_iff _ _ (List.pairwise_lt_range.filter _) hUsorted (fun x => ?_)
    have hfl : x ∈ (List.range fg.length).filter (fun i => !((fg.filter (fun e => e.2.1)).map (·.1)).contains i)
        ↔ x < fg.length ∧ x ∉ (fg.filter (fun e => e.2.1)).map (·.1) := by
      simp [List.mem_filter]
    rw [hfl]
    constructor
    · rintro ⟨hx, hnot⟩
      have : x ∈ fg.map (·.1) := (hmem x).mpr (hlen ▸ hx)
      obtain ⟨e, he, rfl⟩ := List.mem_map.mp this
      refine List.mem_map.mpr ⟨e, List.mem_filter.mpr ⟨he, ?_⟩, rfl⟩
      cases hb : e.2.1 with
      | false => rfl
      | true => exact absurd (List.mem_map.mpr ⟨e, List.mem_filter.mpr ⟨he, hb⟩, rfl⟩) hnot
    · intro hx
      obtain ⟨e, he, rfl⟩ := List.mem_map.mp hx
      obtain ⟨he, hb⟩ := List.mem_filter.mp he
      refine ⟨?_, ?_⟩
      · rw [hlen]; exact (hmem e.1).mp (List.mem_map_of_mem he)
      · intro hcon
        obtain ⟨e', he', heq⟩ := List.mem_map.mp hcon
        obtain ⟨he', hb'⟩ := List.mem_filter.mp he'
        have := nodup_map_inj (·.1) fg hnodup e' he' e he heq
        subst this
        simp [hb'] at hb
  -- run `__dask_keys__`
  unfold daskKeys
  simp only [hflat, List.length_map, taken_ghost]
  rw [hfree]
  have hasg := assign_ghost fg []
  rw [List.append_nil] at hasg
  rw [hasg, hlen]
  -- read the slots back
  apply List.ext_getElem
  · simp
  · intro i h1 h2
    simp only [List.length_map, List.length_range] at h1
    simp only [List.getElem_map, List.getElem_range]
    have hEi : (E[i]'h1).1 = i := by
      have h3 : i < (E.map (·.1)).length := by simpa using h1
      have : (E.map (·.1))[i]'h3 = i := by simp only [hidx, List.getElem_range]
      simpa using this
    have hin : (i, (E[i]'h1).2.2) ∈ (fg.map (fun e => (e.1, e.2.2))).reverse := by
      rw [List.mem_reverse, hperm.mem_iff]
      exact List.mem_map.mpr ⟨E[i]'h1, List.getElem_mem _, by rw [hEi]⟩
    cases hf : (fg.map (fun e => (e.1, e.2.2))).reverse.find? (fun a => a.1 == i) with
    | none =>
      have := List.find?_eq_none.mp hf _ hin
      simp at this
    | some a =>
      have ha1 : a.1 = i := by simpa using List.find?_some hf
      have ha2 : a ∈ E.map (fun e => (e.1, e.2.2)) := by
        rw [← hperm.mem_iff, ← List.mem_reverse]
        exact List.mem_of_find?_eq_some hf
      obtain ⟨e, he, rfl⟩ := List.mem_map.mp ha2
      obtain ⟨j, hj, rfl⟩ := List.getElem_of_mem he
      have hEj : (E[j]'hj).1 = j := by
        have h3 : j < (E.map (·.1)).length := by simpa using hj
        have : (E.map (·.1))[j]'h3 = j := by simp only [hidx, List.getElem_range]
        simpa using this
      simp only at ha1
      have : j = i := by rw [← hEj, ha1]
      subst this
      rfl

end Dask.Repack
