import DaskModel.Model.ArrOverlapNdGather
import DaskModel.Lemmas.ArrOverlapNdValue
/-! C26 extension: the `concatenate_shaped` task of `ArrayOverlapLayer` (pieces from up to 3^k neighbours) computes the
    per-axis product block. -/
namespace Dask.ArrOverlapNd
open Dask.ArrOverlap

theorem locate_flatten {σ : Type} : ∀ (segs : List (List σ)) (e : Nat),
    segs.flatten[e]? = (locate (segs.map List.length) e).bind fun po => (segs[po.1]?).bind (·[po.2]?) := by
  intro segs
  induction segs with
  | nil => intro e; simp [locate]
  | cons s segs ih =>
    intro e
    simp only [List.flatten_cons, List.map_cons, locate]
    by_cases h : e < s.length
    · simp [h, List.getElem?_append_left h]
    · rw [if_neg h, List.getElem?_append_right (by omega), ih]
      cases locate (segs.map List.length) (e - s.length) <;> simp

theorem locateAll_lookups {σ : Type} : ∀ (segs : List (List (List σ))) (e : List Nat),
    lookups (segs.map List.flatten) e
      = (locateAll (segs.map (·.map List.length)) e).bind fun pso =>
          (lookups segs pso.1).bind fun Ls => lookups Ls pso.2 := by
  intro segs
  induction segs with
  | nil => intro e; cases e <;> simp [lookups, locateAll]
  | cons s segs ih =>
    intro e
    cases e with
    | nil => simp [lookups, locateAll]
    | cons e es =>
      simp only [List.map_cons, lookups, locateAll, ih es, locate_flatten]
      cases h1 : locate (s.map List.length) e with
      | none => simp
      | some po =>
        cases h2 : locateAll (segs.map (·.map List.length)) es with
        | none => cases h3 : (s[po.1]?).bind (·[po.2]?) <;> simp
        | some r =>
          simp only [Option.bind_some, lookups]
          cases h3 : s[po.1]? with
          | none => simp
          | some seg =>
            cases h4 : lookups segs r.1 with
            | none => cases seg[po.2]? <;> simp
            | some Ls =>
              simp only [Option.bind_some, lookups]

/-- **`concatenate_shaped` of the grid of pieces is the gather of the per-axis concatenations** -/
theorem ndGather_eq {σ α : Type} (X : List σ → α) (segs : List (List (List σ))) :
    ndGather X segs = sepGather X (segs.map List.flatten) := by
  unfold ndGather assemble sepGather
  simp only [Nd.mk.injEq]
  refine ⟨?_, ?_⟩
  · simp [List.map_map, Function.comp_def, List.length_flatten]
  · funext e
    rw [locateAll_lookups]
    cases locateAll (segs.map (·.map List.length)) e with
    | none => rfl
    | some pso =>
      simp only [Option.bind_some]
      cases lookups segs pso.1 <;> simp

def leftOf {σ : Type} (dl : Nat) (o : Option (List σ)) : List σ :=
  match o with | some p => if dl ≠ 0 then lastN dl p else [] | none => []
def rightOf {σ : Type} (dr : Nat) (o : Option (List σ)) : List σ :=
  match o with | some n => if dr ≠ 0 then n.take dr else [] | none => []

theorem overlapAux_step {σ : Type} (dl dr : Nat) (prev : Option (List σ)) (x : List σ) (rest : List (List σ)) :
    overlapBlocksAux dl dr prev (x :: rest)
      = (leftOf dl prev ++ x ++ rightOf dr rest[0]?) :: overlapBlocksAux dl dr (some x) rest := by
  cases prev <;> cases rest <;> simp [overlapBlocksAux, leftOf, rightOf]

theorem overlapAux_pieces {σ : Type} (dl dr : Nat) : ∀ (blocks : List (List σ)) (prev : Option (List σ)) (b : Nat),
    (overlapBlocksAux dl dr prev blocks)[b]? = blocks[b]?.map fun blk =>
      leftOf dl (if b = 0 then prev else blocks[b - 1]?) ++ blk ++ rightOf dr blocks[b + 1]? := by
  intro blocks
  induction blocks with
  | nil => intro prev b; simp [overlapBlocksAux]
  | cons x rest ih =>
    intro prev b
    rw [overlapAux_step]
    cases b with
    | zero => simp
    | succ b' =>
      simp only [List.getElem?_cons_succ, ih (some x) b', Nat.succ_ne_zero, if_false, Nat.add_sub_cancel]
      cases b' <;> simp

theorem axisPieces_flatten {σ : Type} (dl dr : Nat) (blocks : List (List σ)) (b : Nat) :
    (overlapBlocks dl dr blocks)[b]? = (axisPieces dl dr blocks b).map List.flatten := by
  unfold overlapBlocks axisPieces
  rw [overlapAux_pieces]
  cases hb : blocks[b]? with
  | none => rfl
  | some blk =>
    simp only [Option.map_some, Option.some.injEq, List.flatten_append, List.flatten_cons, List.flatten_nil,
      List.append_nil]
    congr 1
    · congr 1
      by_cases h0 : b = 0
      · subst h0; simp [leftOf]
      · simp only [h0, if_false, leftOf]
        by_cases hd : dl = 0
        · cases blocks[b - 1]? <;> simp [hd]
        · cases blocks[b - 1]? <;> simp [hd, h0]
    · unfold rightOf
      by_cases hd : dr = 0
      · cases blocks[b + 1]? <;> simp [hd]
      · cases blocks[b + 1]? <;> simp [hd]

/-- one axis: the pieces of block `b`, concatenated, are the model's extended block `b` -/
theorem Axis.pieces_flatten (a : Axis) (b : Nat) : a.ext[b]? = (a.pieces b).map List.flatten := by
  unfold Axis.ext Axis.pieces
  cases a.kind with
  | none => exact axisPieces_flatten a.dl a.dr a.blocks b
  | some k =>
    simp only
    unfold overlapWithBoundary
    have hlen : (overlapBlocks a.dl a.dl (padLeft k a.dl a.n :: (a.blocks ++ [padRight k a.dl a.n]))).length
        = a.cs.length + 2 := by
      unfold overlapBlocks; rw [overlapBlocksAux_length]; simp [Axis.blocks_length]
    by_cases hb : b < a.cs.length
    · rw [if_pos hb, List.dropLast_eq_take, List.getElem?_take, if_pos (by simp [hlen]; omega), List.getElem?_drop,
        Nat.add_comm 1 b]
      exact axisPieces_flatten _ _ _ _
    · rw [if_neg hb, List.dropLast_eq_take, List.getElem?_take, if_neg (by simp [hlen]; omega)]
      rfl

/-- **N-d: the `concatenate_shaped` task of block `(b₁,…,b_k)` — pieces from all neighbours, diagonal ones included —
    computes the product block `ndOverlapBlock`** -/
theorem ndPieces_flatten : ∀ (axes : List Axis) (bs : List Nat),
    ndOverlapBlock axes bs = (ndPieces axes bs).map (·.map List.flatten) := by
  intro axes
  induction axes with
  | nil => intro bs; cases bs <;> rfl
  | cons a as ih =>
    intro bs
    cases bs with
    | nil => rfl
    | cons b bs =>
      have h2 := ih bs
      unfold ndOverlapBlock at h2 ⊢
      simp only [List.map_cons, lookups, ndPieces, Axis.pieces_flatten a b, h2]
      cases a.pieces b <;> cases ndPieces as bs <;> rfl

end Dask.ArrOverlapNd
