import DaskModel.Model.Match
/-!
C51, part 1: the iterative `_match` loop (explicit stack + `restore_state_flag`) computes the recursive depth-first
walk of the discrimination net, and `fuelFor` iterations always suffice.
-/
namespace Dask.Match

/-! ### size of a net, children -/

theorem mem_child (N : Net) (e : Edge) (p : List Edge) (i : Nat) : (p, i) ∈ N.child e ↔ (e :: p, i) ∈ N := by
  unfold Net.child
  simp only [List.mem_filterMap]
  constructor
  · rintro ⟨⟨q, j⟩, hq, h⟩
    cases q with
    | nil => simp at h
    | cons e' r =>
      simp only at h
      split at h
      · rename_i he
        simp only [Option.some.injEq, Prod.mk.injEq] at h
        obtain ⟨rfl, rfl⟩ := h
        subst he
        exact hq
      · cases h
  · intro h
    exact ⟨(e :: p, i), h, by simp⟩

theorem mem_patterns (N : Net) (i : Nat) : i ∈ N.patterns ↔ ([], i) ∈ N := by
  unfold Net.patterns
  simp only [List.mem_filterMap]
  constructor
  · rintro ⟨⟨q, j⟩, hq, h⟩
    simp only at h
    split at h
    · rename_i hq'
      simp only [Option.some.injEq] at h
      subst h; subst hq'
      exact hq
    · cases h
  · intro h
    exact ⟨([], i), h, by simp⟩

/-- two different edges select disjoint sets of paths, each shortened by one -/
theorem netSize_children (N : Net) (e1 e2 : Edge) (h : e1 ≠ e2) :
    netSize (Net.child N e1) + (Net.child N e1).length + netSize (Net.child N e2) + (Net.child N e2).length ≤ netSize N := by
  induction N with
  | nil => simp [Net.child, netSize]
  | cons p N ih =>
    obtain ⟨q, i⟩ := p
    have hN : netSize ((q, i) :: N) = q.length + 1 + netSize N := by simp [netSize]
    cases q with
    | nil =>
      have : ∀ e, Net.child (([], i) :: N) e = Net.child N e := by intro e; simp [Net.child]
      rw [this e1, this e2, hN]
      omega
    | cons e' r =>
      have hc : ∀ e, Net.child ((e' :: r, i) :: N) e = if e' = e then (r, i) :: Net.child N e else Net.child N e := by
        intro e
        by_cases he : e' = e <;> simp [Net.child, he]
      have hcons : ∀ M : Net, netSize ((r, i) :: M) = r.length + 1 + netSize M := by intro M; simp [netSize]
      rw [hc e1, hc e2, hN]
      by_cases h1 : e' = e1
      · have h2 : ¬ e' = e2 := fun h2 => h (h1.symm.trans h2)
        rw [if_pos h1, if_neg h2, hcons]
        simp only [List.length_cons]
        omega
      · by_cases h2 : e' = e2
        · rw [if_neg h1, if_pos h2, hcons]
          simp only [List.length_cons]
          omega
        · rw [if_neg h1, if_neg h2]
          simp only [List.length_cons]
          omega

theorem netSize_child_lt (N : Net) (e : Edge) (h : (N.child e).isEmpty = false) : netSize (N.child e) < netSize N := by
  have hne : (N.child e).length ≠ 0 := by
    intro h0
    have : N.child e = [] := List.eq_nil_of_length_eq_zero h0
    simp [this] at h
  have h2 : e ≠ (match e with | .var => Edge.sym (.fn 0) | .sym _ => Edge.var) := by cases e <;> simp
  have := netSize_children N e _ h2
  omega

/-! ### the recursive walk -/

/-- depth-first walk of the net along the pending terms: at each term first the exact edge (descend into the
    term), then the variable edge (skip the term, bind it); a yield at every node reached when nothing is pending -/
def walk (N : Net) (S : Trav) (m : List Term) : List Yield :=
  match S with
  | [] => [(N.patterns, m)]
  | t :: rest =>
    (if h : (N.child (.sym t.head)).isEmpty = false then walk (N.child (.sym t.head)) (t.args ++ rest) m else []) ++
    (if h : (N.child .var).isEmpty = false then walk (N.child .var) rest (m ++ [t]) else [])
termination_by netSize N
decreasing_by
  · exact netSize_child_lt N _ h
  · exact netSize_child_lt N _ h

/-- what the loop still has to produce when it comes back to a frame with `restore_state_flag` set -/
def varBranch (f : Frame) : List Yield :=
  match f.S with
  | [] => []
  | t :: rest => if (f.N.child .var).isEmpty = false then walk (f.N.child .var) rest (f.m ++ [t]) else []

def conts : List Frame → List Yield
  | [] => []
  | f :: fs => varBranch f ++ conts fs

/-! ### iterations needed -/

/-- loop iterations spent below `(N, S)` (flag clear), including the later visit of each pushed frame -/
def cost (N : Net) (S : Trav) : Nat :=
  match S with
  | [] => 1
  | t :: rest =>
    1 + (if h : (N.child (.sym t.head)).isEmpty = false then cost (N.child (.sym t.head)) (t.args ++ rest) + 1 else 0) +
      (if h2 : (N.child .var).isEmpty = false then cost (N.child .var) rest else 0)
termination_by netSize N
decreasing_by
  · exact netSize_child_lt N _ h
  · exact netSize_child_lt N _ h2

/-- iterations spent when the loop comes back to frame `f` -/
def costVar (f : Frame) : Nat :=
  match f.S with
  | [] => 1
  | _ :: rest => 1 + (if (f.N.child .var).isEmpty = false then cost (f.N.child .var) rest else 0)

def costStack : List Frame → Nat
  | [] => 0
  | f :: fs => costVar f + costStack fs

theorem one_le_cost (N : Net) (S : Trav) : 1 ≤ cost N S := by
  cases S with
  | nil => simp [cost]
  | cons t rest => rw [cost]; omega

theorem length_pos_of_nonempty (M : Net) (h : M.isEmpty = false) : 1 ≤ M.length := by
  cases M with
  | nil => simp at h
  | cons a b => simp

theorem cost_le (N : Net) (S : Trav) : cost N S ≤ 2 * netSize N + 1 := by
  induction N, S using cost.induct with
  | case1 N => simp [cost]
  | case2 N t rest ih1 ih2 =>
    rw [cost]
    have hch := netSize_children N (.sym t.head) .var (by simp)
    by_cases h : (N.child (.sym t.head)).isEmpty = false
    · have l1 := length_pos_of_nonempty _ h
      have i1 := ih1 h
      by_cases h2 : (N.child .var).isEmpty = false
      · have l2 := length_pos_of_nonempty _ h2
        have i2 := ih2 h2
        simp only [h, h2, dite_true]
        omega
      · rw [dif_pos h, dif_neg h2]
        omega
    · by_cases h2 : (N.child .var).isEmpty = false
      · have l2 := length_pos_of_nonempty _ h2
        have i2 := ih2 h2
        rw [dif_neg h, dif_pos h2]
        omega
      · rw [dif_neg h, dif_neg h2]
        omega

/-! ### the loop computes the walk -/

def FramesOk (stk : List Frame) : Prop := ∀ f ∈ stk, f.S ≠ []

/-- **Simulation.** With enough fuel, `_match`'s loop returns exactly the recursive walk of the current position
followed by the variable branches of the saved frames, innermost first. -/
theorem matchLoop_eq (fuel : Nat) : ∀ (S : Trav) (N : Net) (m : List Term) (stk : List Frame) (flag : Bool),
    FramesOk stk → (flag = true → S ≠ []) →
    (if flag then costVar ⟨S, N, m⟩ else cost N S) + costStack stk ≤ fuel →
    matchLoop fuel S N m stk flag =
      some ((if flag then varBranch ⟨S, N, m⟩ else walk N S m) ++ conts stk) := by
  induction fuel with
  | zero =>
    intro S N m stk flag _ _ hf
    exfalso
    cases flag
    · simp only [Bool.false_eq_true, if_false] at hf
      have := one_le_cost N S
      omega
    · simp only [if_true] at hf
      have : 1 ≤ costVar ⟨S, N, m⟩ := by unfold costVar; cases S <;> simp only <;> omega
      omega
  | succ fuel ih =>
    intro S N m stk flag hstk hflag hf
    cases S with
    | nil =>
      have hfl : flag = false := by
        cases flag
        · rfl
        · exact absurd rfl (hflag rfl)
      subst hfl
      simp only [Bool.false_eq_true, if_false] at hf ⊢
      have hw : walk N [] m = [(N.patterns, m)] := by unfold walk; rfl
      have hc : cost N [] = 1 := by unfold cost; rfl
      rw [hw]
      rw [hc] at hf
      cases stk with
      | nil => simp [matchLoop, conts]
      | cons f fs =>
        simp only [matchLoop]
        have hfS : f.S ≠ [] := hstk f (List.mem_cons_self)
        have hfs : FramesOk fs := fun g hg => hstk g (List.mem_cons_of_mem _ hg)
        have he : costVar ⟨f.S, f.N, f.m⟩ = costVar f := rfl
        have hv : varBranch ⟨f.S, f.N, f.m⟩ = varBranch f := rfl
        have := ih f.S f.N f.m fs true hfs (fun _ => hfS) (by simp only [if_true, he]; simp only [costStack] at hf; omega)
        rw [this]
        simp [conts, hv]
    | cons t rest =>
      simp only [matchLoop]
      by_cases hex : (!flag && !(N.child (.sym t.head)).isEmpty) = true
      · -- exact edge
        simp only [hex, if_true]
        have hfl : flag = false := by cases flag <;> simp_all
        subst hfl
        have hne : (N.child (.sym t.head)).isEmpty = false := by simpa using hex
        simp only [Bool.false_eq_true, if_false] at hf ⊢
        have hcost : cost N (t :: rest) = 1 + cost (N.child (.sym t.head)) (t.args ++ rest) + costVar ⟨t :: rest, N, m⟩ := by
          rw [cost]
          simp only [hne, dite_true, costVar]
          by_cases h2 : (N.child .var).isEmpty = false <;> simp [h2] <;> omega
        have hstk' : FramesOk (⟨t :: rest, N, m⟩ :: stk) := by
          intro g hg
          simp only [List.mem_cons] at hg
          rcases hg with rfl | hg
          · simp
          · exact hstk g hg
        have := ih (t.args ++ rest) (N.child (.sym t.head)) m (⟨t :: rest, N, m⟩ :: stk) false hstk' (by simp)
          (by simp only [Bool.false_eq_true, if_false, costStack]; omega)
        rw [this]
        simp only [Bool.false_eq_true, if_false, conts]
        have hwalk : walk N (t :: rest) m = walk (N.child (.sym t.head)) (t.args ++ rest) m ++ varBranch ⟨t :: rest, N, m⟩ := by
          rw [walk]
          simp only [hne, dite_true, varBranch]
          by_cases h2 : (N.child .var).isEmpty = false <;> simp [h2]
        rw [hwalk]
        simp
      · simp only [hex, Bool.false_eq_true, if_false]
        -- the exact edge is not taken: either it does not exist or the flag is set; both sides reduce to the var branch
        have hexp : (if flag then varBranch ⟨t :: rest, N, m⟩ else walk N (t :: rest) m) = varBranch ⟨t :: rest, N, m⟩ := by
          cases flag
          · have hne : ¬ (N.child (.sym t.head)).isEmpty = false := by simpa using hex
            simp only [Bool.false_eq_true, if_false]
            rw [walk]
            simp only [hne, dite_false, List.nil_append, varBranch]
            by_cases h2 : (N.child .var).isEmpty = false <;> simp [h2]
          · simp
        have hcst : (if flag then costVar ⟨t :: rest, N, m⟩ else cost N (t :: rest)) = costVar ⟨t :: rest, N, m⟩ := by
          cases flag
          · have hne : ¬ (N.child (.sym t.head)).isEmpty = false := by simpa using hex
            simp only [Bool.false_eq_true, if_false]
            rw [cost]
            simp only [hne, dite_false, costVar]
            by_cases h2 : (N.child .var).isEmpty = false <;> simp [h2]
          · simp
        rw [hexp]
        rw [hcst] at hf
        by_cases hv : (N.child .var).isEmpty = false
        · have hv' : (!(N.child .var).isEmpty) = true := by simp [hv]
          simp only [hv', if_true]
          have := ih rest (N.child .var) (m ++ [t]) stk false hstk (by simp)
            (by simp only [Bool.false_eq_true, if_false]; simp only [costVar, hv, if_true] at hf; omega)
          rw [this]
          simp [varBranch, hv]
        · have hv' : (!(N.child .var).isEmpty) = false := by simpa using hv
          simp only [hv', Bool.false_eq_true, if_false]
          have hvb : varBranch ⟨t :: rest, N, m⟩ = [] := by simp [varBranch, hv]
          rw [hvb]
          cases stk with
          | nil => simp [conts]
          | cons f fs =>
            simp only
            have hfS : f.S ≠ [] := hstk f (List.mem_cons_self)
            have hfs : FramesOk fs := fun g hg => hstk g (List.mem_cons_of_mem _ hg)
            have he : costVar ⟨f.S, f.N, f.m⟩ = costVar f := rfl
            have hvf : varBranch ⟨f.S, f.N, f.m⟩ = varBranch f := rfl
            have h1 : 1 ≤ costVar ⟨t :: rest, N, m⟩ := by simp [costVar]
            have := ih f.S f.N f.m fs true hfs (fun _ => hfS)
              (by simp only [if_true, he]; simp only [costStack] at hf; omega)
            rw [this]
            simp [conts, hvf]

/-- **match_terminates / loop = walk.** `_match` on a fresh traverser needs at most `fuelFor N` iterations and
yields exactly the depth-first walk. -/
theorem matchLoop_walk (N : Net) (term : Term) :
    matchLoop (fuelFor N) [term] N [] [] false = some (walk N [term] []) := by
  have := matchLoop_eq (fuelFor N) [term] N [] [] false (by intro f hf; cases hf) (by simp)
    (by simp only [Bool.false_eq_true, if_false, costStack, fuelFor]; have := cost_le N [term]; omega)
  simpa [conts] using this

end Dask.Match
