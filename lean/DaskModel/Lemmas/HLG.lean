import DaskModel.Model.HLG
/-! Helper lemmas for `Model/HLG.lean` (`HighLevelGraph.cull`). No Mathlib. -/
namespace Dask.HLG

/-- a layer's task list is dependents-first: keys are distinct, no task depends on itself, and no later task
    depends on an earlier one -/
def TopoL : List Task → Prop
  | [] => True
  | t :: r => t.1 ∉ keysOf r ∧ t.1 ∉ t.2 ∧ (∀ t' ∈ r, t.1 ∉ t'.2) ∧ TopoL r

theorem mem_keysOf {l : List Task} {t : Task} (h : t ∈ l) : t.1 ∈ keysOf l :=
  List.mem_map.mpr ⟨t, h, rfl⟩

theorem keysOf_append (a b : List Task) : keysOf (a ++ b) = keysOf a ++ keysOf b := by
  simp [keysOf]

/-! ### one pass over a layer -/

theorem cullTasks_sub (l : List Task) (need : List K) : ∀ t ∈ cullTasks l need, t ∈ l := by
  induction l generalizing need with
  | nil => simp [cullTasks]
  | cons a r ih =>
    obtain ⟨k, d⟩ := a
    intro t ht
    simp only [cullTasks] at ht
    split at ht
    · rcases List.mem_cons.mp ht with ht | ht
      · simp [ht]
      · simp [ih _ t ht]
    · simp [ih _ t ht]

theorem cullTasks_keeps (l : List Task) (need : List K) (k : K) (hn : k ∈ need) (hk : k ∈ keysOf l) :
    k ∈ keysOf (cullTasks l need) := by
  induction l generalizing need with
  | nil => simp [keysOf] at hk
  | cons a r ih =>
    obtain ⟨k0, d⟩ := a
    simp only [cullTasks]
    by_cases h0 : k0 = k
    · subst h0
      have : need.contains k0 = true := by simpa using hn
      rw [if_pos this]
      simp [keysOf]
    · have hr : k ∈ keysOf r := by
        simp only [keysOf, List.map_cons, List.mem_cons] at hk
        rcases hk with hk | hk
        · exact absurd hk.symm h0
        · exact hk
      split
      · simp only [keysOf, List.map_cons, List.mem_cons]
        right
        exact ih (need ++ d) (by simp [hn]) hr
      · exact ih need hn hr

theorem cullTasks_closed (l : List Task) (need : List K) (hl : TopoL l) :
    ∀ t ∈ cullTasks l need, ∀ x ∈ t.2, x ∈ keysOf l → x ∈ keysOf (cullTasks l need) := by
  induction l generalizing need with
  | nil => simp [cullTasks]
  | cons a r ih =>
    obtain ⟨k, d⟩ := a
    obtain ⟨hk1, hk2, hk3, hr⟩ := hl
    intro t ht x hx hxl
    simp only [cullTasks] at ht ⊢
    split at ht
    · rename_i hc
      simp only [hc, if_true]
      rcases List.mem_cons.mp ht with ht | ht
      · subst ht
        have hne : x ≠ k := fun h => hk2 (h ▸ hx)
        have hxr : x ∈ keysOf r := by
          simp only [keysOf, List.map_cons, List.mem_cons] at hxl
          rcases hxl with h | h
          · exact absurd h hne
          · exact h
        simp only [keysOf, List.map_cons, List.mem_cons]
        right
        exact cullTasks_keeps r (need ++ d) x (by simp [hx]) hxr
      · have htr : t ∈ r := cullTasks_sub r _ t ht
        have hne : x ≠ k := fun h => hk3 t htr (h ▸ hx)
        have hxr : x ∈ keysOf r := by
          simp only [keysOf, List.map_cons, List.mem_cons] at hxl
          rcases hxl with h | h
          · exact absurd h hne
          · exact h
        simp only [keysOf, List.map_cons, List.mem_cons]
        right
        exact ih (need ++ d) hr t ht x hx hxr
    · rename_i hc
      simp only [hc]
      have htr : t ∈ r := cullTasks_sub r _ t ht
      have hne : x ≠ k := fun h => hk3 t htr (h ▸ hx)
      have hxr : x ∈ keysOf r := by
        simp only [keysOf, List.map_cons, List.mem_cons] at hxl
        rcases hxl with h | h
        · exact absurd h hne
        · exact h
      exact ih need hr t ht x hx hxr

/-! ### `Layer.cull` with the shortcut -/

theorem cullLayer_sub (sc : Bool) (l : Layer) (keys : List K) : ∀ t ∈ cullLayer sc l keys, t ∈ l := by
  intro t ht
  unfold cullLayer at ht
  split at ht
  · exact ht
  · exact cullTasks_sub l keys t ht

theorem cullLayer_keeps (sc : Bool) (l : Layer) (keys : List K) (k : K) (hn : k ∈ keys) (hk : k ∈ keysOf l) :
    k ∈ keysOf (cullLayer sc l keys) := by
  unfold cullLayer
  split
  · exact hk
  · exact cullTasks_keeps l keys k hn hk

theorem cullLayer_closed (sc : Bool) (l : Layer) (keys : List K) (hl : TopoL l) :
    ∀ t ∈ cullLayer sc l keys, ∀ x ∈ t.2, x ∈ keysOf l → x ∈ keysOf (cullLayer sc l keys) := by
  unfold cullLayer
  split
  · intro t _ x _ hxl; exact hxl
  · exact cullTasks_closed l keys hl

/-! ### the `keys_set` update -/

/-- everything that was in `keys_set` or is a dependency of a listed task, and is not the key of a listed task,
    is in the updated `keys_set` — whatever the iteration order -/
theorem updKeys_keeps (kept : List Task) (keys : List K) (x : K)
    (hx : x ∈ keys ∨ ∃ t ∈ kept, x ∈ t.2) (hnk : x ∉ keysOf kept) : x ∈ updKeys keys kept := by
  unfold updKeys
  induction kept generalizing keys with
  | nil =>
    rcases hx with hx | ⟨t, ht, _⟩
    · simpa using hx
    · simp at ht
  | cons a r ih =>
    simp only [List.foldl_cons]
    simp only [keysOf, List.map_cons, List.mem_cons, not_or] at hnk
    apply ih
    · rcases hx with hx | ⟨t, ht, hxt⟩
      · left
        simp only [List.mem_filter, List.mem_append]
        exact ⟨Or.inl hx, by simpa using hnk.1⟩
      · rcases List.mem_cons.mp ht with ht | ht
        · subst ht
          left
          simp only [List.mem_filter, List.mem_append]
          exact ⟨Or.inr hxt, by simpa using hnk.1⟩
        · right
          exact ⟨t, ht, hxt⟩
    · exact hnk.2

/-- `updKeys` only ever adds dependencies of the listed tasks -/
theorem updKeys_sub (kept : List Task) (keys : List K) (x : K) (hx : x ∈ updKeys keys kept) :
    x ∈ keys ∨ ∃ t ∈ kept, x ∈ t.2 := by
  unfold updKeys at hx
  induction kept generalizing keys with
  | nil => left; simpa using hx
  | cons a r ih =>
    simp only [List.foldl_cons] at hx
    rcases ih _ hx with h | ⟨t, ht, hxt⟩
    · simp only [List.mem_filter, List.mem_append] at h
      rcases h.1 with h | h
      · exact Or.inl h
      · exact Or.inr ⟨a, by simp, h⟩
    · exact Or.inr ⟨t, by simp [ht], hxt⟩

/-! ### reordering `culled_deps` -/

theorem reorder_sub (ord : List K) (kept : List Task) : ∀ t ∈ reorder ord kept, t ∈ kept := by
  intro t ht
  unfold reorder at ht
  rcases List.mem_append.mp ht with h | h
  · obtain ⟨k, _, hk⟩ := List.mem_filterMap.mp h
    exact List.mem_of_find?_eq_some hk
  · exact (List.mem_filter.mp h).1

/-- every kept task is still listed after reordering (keys are distinct) -/
theorem reorder_sup (ord : List K) (kept : List Task) (hnd : (keysOf kept).Nodup) : ∀ t ∈ kept, t ∈ reorder ord kept := by
  intro t ht
  unfold reorder
  by_cases ho : t.1 ∈ ord
  · apply List.mem_append_left
    apply List.mem_filterMap.mpr
    refine ⟨t.1, ho, ?_⟩
    -- the first task with key t.1 is t itself
    induction kept with
    | nil => simp at ht
    | cons a r ih =>
      simp only [keysOf, List.map_cons, List.nodup_cons] at hnd
      by_cases ha : a.1 = t.1
      · have : a = t := by
          rcases List.mem_cons.mp ht with h | h
          · exact h.symm
          · exfalso
            apply hnd.1
            rw [ha]
            exact List.mem_map.mpr ⟨t, h, rfl⟩
        subst this
        simp [List.find?_cons]
      · have htr : t ∈ r := by
          rcases List.mem_cons.mp ht with h | h
          · exact absurd (h ▸ rfl) ha
          · exact h
        have hne : (a.1 == t.1) = false := by simpa using ha
        simp only [List.find?_cons, hne]
        exact ih hnd.2 htr
  · apply List.mem_append_right
    apply List.mem_filter.mpr
    exact ⟨ht, by simpa using ho⟩

theorem topoL_nodup (l : List Task) (h : TopoL l) : (keysOf l).Nodup := by
  induction l with
  | nil => simp [keysOf]
  | cons a r ih =>
    obtain ⟨h1, _, _, hr⟩ := h
    simp only [keysOf, List.map_cons, List.nodup_cons]
    exact ⟨h1, ih hr⟩

theorem nodup_sublist_keys (l kept : List Task) (hs : List.Sublist kept l) (h : (keysOf l).Nodup) : (keysOf kept).Nodup :=
  List.Sublist.nodup (List.Sublist.map _ hs) h

theorem cullTasks_sublist (l : List Task) (need : List K) : List.Sublist (cullTasks l need) l := by
  induction l generalizing need with
  | nil => simp [cullTasks]
  | cons a r ih =>
    obtain ⟨k, d⟩ := a
    simp only [cullTasks]
    split
    · exact List.Sublist.cons_cons _ (ih _)
    · exact List.Sublist.cons _ (ih _)

theorem cullLayer_sublist (sc : Bool) (l : Layer) (keys : List K) : List.Sublist (cullLayer sc l keys) l := by
  unfold cullLayer
  split
  · exact List.Sublist.refl _
  · exact cullTasks_sublist l keys

end Dask.HLG
