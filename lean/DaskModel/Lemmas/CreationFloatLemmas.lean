import DaskModel.Lemmas.SoftFloatLemmas
/-! The binary64 `arange` plan on inputs where every intermediate result is exactly representable (C34). -/
namespace Dask.Creation
open Dask.SoftFloat

theorem natAbs_lin (a s : Int) (i n : Nat) (h : i ≤ n) (hb : a.natAbs + n * s.natAbs < 2 ^ 53) :
    (a + (i : Int) * s).natAbs < 2 ^ 53 := by
  have h1 := Int.natAbs_add_le a ((i : Int) * s)
  have h2 : ((i : Int) * s).natAbs = i * s.natAbs := by rw [Int.natAbs_mul]; rfl
  have h3 : i * s.natAbs ≤ n * s.natAbs := Nat.mul_le_mul_right _ h
  omega

theorem natAbs_mul_lin (a s : Int) (i n : Nat) (h : i ≤ n) (hb : a.natAbs + n * s.natAbs < 2 ^ 53) :
    ((i : Int) * s).natAbs < 2 ^ 53 := by
  have h2 : ((i : Int) * s).natAbs = i * s.natAbs := by rw [Int.natAbs_mul]; rfl
  have h3 : i * s.natAbs ≤ n * s.natAbs := Nat.mul_le_mul_right _ h
  omega

theorem le_self (x : F64) : le x x = true := by simp [le]

theorem isclose_self (x : F64) : isclose x x = true := by
  simp [isclose, eqv, le_self]

/-- the guard of `da.arange` does not fire when `start + step` and the difference are exact -/
theorem arangeShiftF_exact (a s e : Int) (he : -1074 ≤ e) (h1 : (a + s).natAbs < 2 ^ 53) (h2 : s.natAbs < 2 ^ 53) :
    arangeShiftF ⟨a, e⟩ ⟨s, e⟩ = false := by
  unfold arangeShiftF
  rw [add_same_exp, roundDy_of_fits _ _ h1 he, sub_same_exp]
  have : a + s - a = s := by omega
  rw [this, roundDy_of_fits _ _ h2 he, isclose_self]
  simp

theorem arangeNumF_exact (a s e : Int) (n : Nat) (hs : s ≠ 0) (he : -1074 ≤ e)
    (hb : a.natAbs + (n + 1) * s.natAbs < 2 ^ 53) :
    arangeNumF ⟨a, e⟩ ⟨a + (n : Int) * s, e⟩ ⟨s, e⟩ = some n := by
  have hs1 : 1 ≤ s.natAbs := Int.natAbs_pos.2 hs
  have hsb : s.natAbs < 2 ^ 53 := by
    have : s.natAbs ≤ (n + 1) * s.natAbs := Nat.le_mul_of_pos_left _ (Nat.succ_pos n)
    omega
  have hn : ((n : Nat) : Int).natAbs < 2 ^ 53 := by
    have : n * 1 ≤ n * s.natAbs := Nat.mul_le_mul_left n hs1
    have : (n + 1) * s.natAbs = n * s.natAbs + s.natAbs := Nat.succ_mul n _
    simp only [Int.natAbs_natCast]; omega
  have hns : ((n : Int) * s).natAbs < 2 ^ 53 := natAbs_mul_lin a s n (n + 1) (Nat.le_succ n) hb
  unfold arangeNumF
  rw [sub_same_exp]
  have : a + (n : Int) * s - a = (n : Int) * s := by omega
  rw [this, roundDy_of_fits _ _ hns he]
  obtain ⟨j, hj⟩ := div_exact (n : Int) s e hs hn hsb
  dsimp only
  rw [hj]
  simp only [Option.map_some, ceil_scaled, Int.toNat_natCast]
  -- the underflow rule does not fire: the quotient `n * 2^j` is zero only if `n = 0`, and then `stop = start`
  by_cases hn0 : n = 0
  · subst hn0; simp
  · have hp : (0 : Int) < 2 ^ j := Int.pow_pos (by decide)
    have : ((n : Int) * 2 ^ j) ≠ 0 := Int.mul_ne_zero (by omega) (Int.ne_of_gt hp)
    simp [this]

theorem arangeElem_exact (a s e : Int) (n i : Nat) (he : -1074 ≤ e) (hi : i ≤ n + 1) (hi53 : i < 2 ^ 53)
    (hb : a.natAbs + (n + 1) * s.natAbs < 2 ^ 53) :
    arangeElem f64Arith ⟨a, e⟩ ⟨a + s, e⟩ i = ⟨a + (i : Int) * s, e⟩ := by
  unfold arangeElem
  by_cases h0 : i = 0
  · subst h0; simp
  by_cases h1 : i = 1
  · subst h1; simp
  · simp only [h0, h1, if_false, f64Arith]
    have hsb : s.natAbs < 2 ^ 53 := by
      have : s.natAbs ≤ (n + 1) * s.natAbs := Nat.le_mul_of_pos_left _ (Nat.succ_pos n)
      omega
    have hib : ((i : Nat) : Int).natAbs < 2 ^ 53 := by simpa using hi53
    rw [sub_same_exp]
    have : a + s - a = s := by omega
    rw [this, roundDy_of_fits _ _ hsb he, ofInt_of_fits _ hib, mul_int_left,
      roundDy_of_fits _ _ (natAbs_mul_lin a s i (n + 1) hi hb) he, add_same_exp,
      roundDy_of_fits _ _ (natAbs_lin a s i (n + 1) hi hb) he]

theorem roundDy_ne_zero (m e : Int) (hm : m ≠ 0) (he : -1074 ≤ e) : (roundDy m e).m ≠ 0 := by
  unfold roundDy
  by_cases h : excessBits m.natAbs e ≤ 0
  · rw [if_pos h]; exact hm
  · rw [if_neg h]
    obtain ⟨t, ht⟩ : ∃ t : Nat, excessBits m.natAbs e = (t : Int) := ⟨_, (Int.toNat_of_nonneg (by omega)).symm⟩
    have ht0 : 0 < t := by omega
    rw [ht, Int.toNat_natCast]
    have hbl : 53 + t ≤ bitLen m.natAbs := by unfold excessBits at ht; omega
    have hge : 2 ^ (52 + t) ≤ m.natAbs := by
      have := (bitLen_le_iff m.natAbs (52 + t))
      apply Nat.le_of_not_lt
      intro hlt
      have := this.2 hlt
      omega
    obtain ⟨_, h2, _⟩ := shiftRNE_nearest m.natAbs t ht0
    intro hz
    have hq : shiftRNE m.natAbs t = 0 := by
      rcases Int.mul_eq_zero.1 hz with h' | h'
      · exact absurd (Int.sign_eq_zero_iff_zero.1 h') hm
      · exact_mod_cast h'
    rw [hq] at h2
    have : 2 ^ (52 + t) = 2 ^ 52 * 2 ^ t := Nat.pow_add 2 52 t
    have hp : 0 < 2 ^ t := Nat.two_pow_pos t
    have h52 : 2 ≤ 2 ^ 52 := by decide
    have : 2 * 2 ^ t ≤ 2 ^ 52 * 2 ^ t := Nat.mul_le_mul_right _ h52
    omega

/-- the division of the `linspace` formulas never raises: the divisor is `float(div)`, `div ≠ 0` -/
theorem fdivTotal_ofInt (x : F64) (d : Int) (hd : d ≠ 0) :
    SoftFloat.div x (ofInt d) = some (fdivTotal x (ofInt d)) := by
  have hne : (ofInt d).m ≠ 0 := roundDy_ne_zero _ _ hd (by omega)
  unfold fdivTotal SoftFloat.div
  simp [hne]

theorem linspaceDiv_ne_zero (num : Nat) (ep : Bool) : linspaceDiv num ep ≠ 0 := by
  unfold linspaceDiv
  by_cases h : (if ep = true then (num : Int) - 1 else (num : Int)) = 0
  · simp [h]
  · simp only [h, if_false]; exact h

end Dask.Creation
