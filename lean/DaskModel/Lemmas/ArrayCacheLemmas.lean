import DaskModel.Model.ArrayCache
/-! The cache invariant of `Array`: every filled cache holds what a fresh array with the current name and chunks
    would compute. Reads preserve it and return the fresh value; the in-place mutations re-establish it. -/
namespace Dask.ArrayCache

structure Valid (s : St) : Prop where
  numblocks : ∀ v, s.numblocks = some v → v = numblocksOf s.chunks
  npartitions : ∀ v, s.npartitions = some v → v = prod (numblocksOf s.chunks)
  shape : ∀ v, s.shape = some v → v = shapeOf s.chunks
  ndim : ∀ v, s.ndim = some v → v = (shapeOf s.chunks).length
  size : ∀ v, s.size = some v → v = prod (shapeOf s.chunks)
  cachedKeys : ∀ v, s.cachedKeys = some v → v = (s.name, numblocksOf s.chunks)
  keyArray : ∀ v, s.keyArray = some v → v = (s.name, numblocksOf s.chunks)

theorem fresh_valid (n : Nat) (c : Chunks) : Valid (fresh n c) := by
  constructor <;> intro v h <;> simp [fresh] at h

theorem readNumblocks_spec (s : St) (h : Valid s) :
    Valid (readNumblocks s).1 ∧ (readNumblocks s).2 = numblocksOf s.chunks ∧
    (readNumblocks s).1.name = s.name ∧ (readNumblocks s).1.chunks = s.chunks := by
  unfold readNumblocks
  cases hn : s.numblocks with
  | some v => exact ⟨h, h.numblocks v hn, rfl, rfl⟩
  | none =>
    refine ⟨⟨?_, h.npartitions, h.shape, h.ndim, h.size, h.cachedKeys, h.keyArray⟩, rfl, rfl, rfl⟩
    intro v hv; simp at hv; exact hv.symm

theorem readShape_spec (s : St) (h : Valid s) :
    Valid (readShape s).1 ∧ (readShape s).2 = shapeOf s.chunks ∧
    (readShape s).1.name = s.name ∧ (readShape s).1.chunks = s.chunks := by
  unfold readShape
  cases hn : s.shape with
  | some v => exact ⟨h, h.shape v hn, rfl, rfl⟩
  | none =>
    refine ⟨⟨h.numblocks, h.npartitions, ?_, h.ndim, h.size, h.cachedKeys, h.keyArray⟩, rfl, rfl, rfl⟩
    intro v hv; simp at hv; exact hv.symm

theorem readNpartitions_spec (s : St) (h : Valid s) :
    Valid (readNpartitions s).1 ∧ (readNpartitions s).2 = prod (numblocksOf s.chunks) ∧
    (readNpartitions s).1.name = s.name ∧ (readNpartitions s).1.chunks = s.chunks := by
  unfold readNpartitions
  cases hn : s.npartitions with
  | some v => exact ⟨h, h.npartitions v hn, rfl, rfl⟩
  | none =>
    obtain ⟨h1, h2, h3, h4⟩ := readNumblocks_spec s h
    simp only
    refine ⟨⟨h1.numblocks, ?_, h1.shape, h1.ndim, h1.size, h1.cachedKeys, h1.keyArray⟩, by rw [h2], h3, h4⟩
    intro v hv; simp at hv; rw [← hv, h2, h4]

theorem readNdim_spec (s : St) (h : Valid s) :
    Valid (readNdim s).1 ∧ (readNdim s).2 = (shapeOf s.chunks).length ∧
    (readNdim s).1.name = s.name ∧ (readNdim s).1.chunks = s.chunks := by
  unfold readNdim
  cases hn : s.ndim with
  | some v => exact ⟨h, h.ndim v hn, rfl, rfl⟩
  | none =>
    obtain ⟨h1, h2, h3, h4⟩ := readShape_spec s h
    simp only
    refine ⟨⟨h1.numblocks, h1.npartitions, h1.shape, ?_, h1.size, h1.cachedKeys, h1.keyArray⟩, by rw [h2], h3, h4⟩
    intro v hv; simp at hv; rw [← hv, h2, h4]

theorem readSize_spec (s : St) (h : Valid s) :
    Valid (readSize s).1 ∧ (readSize s).2 = prod (shapeOf s.chunks) ∧
    (readSize s).1.name = s.name ∧ (readSize s).1.chunks = s.chunks := by
  unfold readSize
  cases hn : s.size with
  | some v => exact ⟨h, h.size v hn, rfl, rfl⟩
  | none =>
    obtain ⟨h1, h2, h3, h4⟩ := readShape_spec s h
    simp only
    refine ⟨⟨h1.numblocks, h1.npartitions, h1.shape, h1.ndim, ?_, h1.cachedKeys, h1.keyArray⟩, by rw [h2], h3, h4⟩
    intro v hv; simp at hv; rw [← hv, h2, h4]

theorem readKeys_spec (s : St) (h : Valid s) :
    Valid (readKeys s).1 ∧ (readKeys s).2 = (s.name, numblocksOf s.chunks) ∧
    (readKeys s).1.name = s.name ∧ (readKeys s).1.chunks = s.chunks := by
  unfold readKeys
  cases hn : s.cachedKeys with
  | some v => exact ⟨h, h.cachedKeys v hn, rfl, rfl⟩
  | none =>
    obtain ⟨h1, h2, h3, h4⟩ := readNumblocks_spec s h
    simp only
    refine ⟨⟨h1.numblocks, h1.npartitions, h1.shape, h1.ndim, h1.size, ?_, h1.keyArray⟩, by rw [h2, h3], h3, h4⟩
    intro v hv; simp at hv; rw [← hv, h2, h4]

theorem readKeyArray_spec (s : St) (h : Valid s) :
    Valid (readKeyArray s).1 ∧ (readKeyArray s).2 = (s.name, numblocksOf s.chunks) ∧
    (readKeyArray s).1.name = s.name ∧ (readKeyArray s).1.chunks = s.chunks := by
  unfold readKeyArray
  cases hn : s.keyArray with
  | some v => exact ⟨h, h.keyArray v hn, rfl, rfl⟩
  | none =>
    obtain ⟨h1, h2, h3, h4⟩ := readKeys_spec s h
    simp only
    refine ⟨⟨h1.numblocks, h1.npartitions, h1.shape, h1.ndim, h1.size, h1.cachedKeys, ?_⟩, h2, h3, h4⟩
    intro v hv; simp at hv; rw [← hv, h2, h3, h4]

theorem setName_valid (s : St) (h : Valid s) (n : Nat) : Valid (setName s n) := by
  refine ⟨h.numblocks, h.npartitions, h.shape, h.ndim, h.size, ?_, ?_⟩ <;> intro v hv <;> simp [setName] at hv

/-- changing the chunks alone keeps the invariant only if the number of blocks per axis stays the same (the key cache
    `_cached_keys` is not cleared by the `_chunks` setter): `compute_chunk_sizes` -/
theorem setChunks_valid (s : St) (h : Valid s) (c : Chunks) (hnb : numblocksOf c = numblocksOf s.chunks) :
    Valid (setChunks s c) := by
  refine ⟨?_, ?_, ?_, ?_, ?_, ?_, ?_⟩
  all_goals intro v hv
  all_goals simp only [setChunks] at hv
  all_goals first | (cases hv) | skip
  · have := h.cachedKeys v hv
    simp only [setChunks, hnb]; exact this

/-- both in-place mutations clear every cache, whatever was cached before -/
theorem assignInPlace_valid (s : St) (n : Nat) (c : Chunks) : Valid (assignInPlace s n c) := by
  constructor <;> intro v h <;> simp [assignInPlace, setName, setChunks] at h

theorem handleOut_valid (s : St) (n : Nat) (c : Chunks) : Valid (handleOut s n c) := by
  constructor <;> intro v h <;> simp [handleOut, setName, setChunks] at h

/-- a history respects the discipline of the code: a bare `_chunks` assignment keeps the number of blocks -/
def Disciplined : St → List Op → Prop
  | _, [] => True
  | s, op :: rest =>
    (match op with
     | .wChunks c => numblocksOf c = numblocksOf s.chunks
     | _ => True) ∧ Disciplined (step s op).1 rest

theorem step_valid (s : St) (h : Valid s) (op : Op)
    (hd : match op with
          | .wChunks c => numblocksOf c = numblocksOf s.chunks
          | _ => True) :
    Valid (step s op).1 ∧ ((step s op).2 = none ∨ (step s op).2 = freshAnswer s op) := by
  cases op with
  | rNumblocks => obtain ⟨h1, h2, _, _⟩ := readNumblocks_spec s h; exact ⟨h1, Or.inr (by simp [step, freshAnswer, h2])⟩
  | rNpartitions => obtain ⟨h1, h2, _, _⟩ := readNpartitions_spec s h; exact ⟨h1, Or.inr (by simp [step, freshAnswer, h2])⟩
  | rShape => obtain ⟨h1, h2, _, _⟩ := readShape_spec s h; exact ⟨h1, Or.inr (by simp [step, freshAnswer, h2])⟩
  | rNdim => obtain ⟨h1, h2, _, _⟩ := readNdim_spec s h; exact ⟨h1, Or.inr (by simp [step, freshAnswer, h2])⟩
  | rSize => obtain ⟨h1, h2, _, _⟩ := readSize_spec s h; exact ⟨h1, Or.inr (by simp [step, freshAnswer, h2])⟩
  | rKeys => obtain ⟨h1, h2, _, _⟩ := readKeys_spec s h; exact ⟨h1, Or.inr (by simp [step, freshAnswer, h2])⟩
  | rKeyArray => obtain ⟨h1, h2, _, _⟩ := readKeyArray_spec s h; exact ⟨h1, Or.inr (by simp [step, freshAnswer, h2])⟩
  | wName n => exact ⟨setName_valid s h n, Or.inl rfl⟩
  | wChunks c => exact ⟨setChunks_valid s h c hd, Or.inl rfl⟩
  | assign n c => exact ⟨assignInPlace_valid s n c, Or.inl rfl⟩
  | out n c => exact ⟨handleOut_valid s n c, Or.inl rfl⟩

/-- the states a history goes through, with the answer of every step and the answer a fresh array would give -/
def trace (s : St) : List Op → List (Option (Option Nat × List Nat) × Option (Option Nat × List Nat))
  | [] => []
  | op :: rest => ((step s op).2, freshAnswer s op) :: trace (step s op).1 rest

theorem trace_fresh : ∀ (ops : List Op) (s : St), Valid s → Disciplined s ops →
    ∀ p ∈ trace s ops, p.1 = none ∨ p.1 = p.2 := by
  intro ops
  induction ops with
  | nil => intro s _ _ p hp; simp [trace] at hp
  | cons op rest ih =>
    intro s hv hd p hp
    simp only [Disciplined] at hd
    obtain ⟨h1, h2⟩ := step_valid s hv op hd.1
    simp only [trace, List.mem_cons] at hp
    rcases hp with rfl | hp
    · exact h2
    · exact ih (step s op).1 h1 hd.2 p hp

end Dask.ArrayCache
