import DaskModel.Model.Overlap
/-! Helper lemmas for C46 (overlap part): context algebra of `win`, `lastN`. -/
namespace Dask.Overlap

theorem lastN_eq_rev (n : Nat) (l : List α) : lastN n l = (l.reverse.take n).reverse := by
  unfold lastN
  rw [List.take_reverse, List.reverse_reverse]

theorem lastN_zero (l : List α) : lastN 0 l = [] := by
  simp [lastN]

theorem lastN_length (n : Nat) (l : List α) (h : n ≤ l.length) : (lastN n l).length = n := by
  unfold lastN
  rw [List.length_drop]
  omega

theorem lastN_length_lt (n : Nat) (l : List α) (h : l.length < n) : (lastN n l).length ≠ n := by
  unfold lastN
  rw [List.length_drop]
  omega

/-- the last `n` rows of `p ++ l` only depend on the last `n` rows of `p` -/
theorem lastN_lastN_append (n : Nat) (p l : List α) : lastN n (lastN n p ++ l) = lastN n (p ++ l) := by
  simp only [lastN_eq_rev, List.reverse_append, List.reverse_reverse, List.take_append, List.take_take]
  congr 2
  congr 1
  omega

theorem lastN_append_of_le (n : Nat) (p q : List α) (h : n ≤ q.length) : lastN n (p ++ q) = lastN n q := by
  simp only [lastN_eq_rev, List.reverse_append, List.take_append]
  have : n - q.length = 0 := by omega
  simp [this]

theorem win_length (b a : Nat) (g : List α → α → List α → β) (pre xs post : List α) :
    (win b a g pre xs post).length = xs.length := by
  induction xs generalizing pre with
  | nil => simp [win]
  | cons x rest ih => simp [win, ih]

/-- splitting the processed rows: the first block sees the second as following context -/
theorem win_append (b a : Nat) (g : List α → α → List α → β) (pre xs ys post : List α) :
    win b a g pre (xs ++ ys) post = win b a g pre xs (ys ++ post) ++ win b a g (pre ++ xs) ys post := by
  induction xs generalizing pre with
  | nil => simp [win]
  | cons x rest ih =>
    simp only [List.cons_append, win, List.append_assoc]
    rw [ih (pre ++ [x])]
    simp [List.append_assoc]

/-- only the last `b` rows of the preceding context and the first `a` of the following matter -/
theorem win_ctx (b a : Nat) (g : List α → α → List α → β) (xs : List α) :
    ∀ (pre pre' post post' : List α),
      (∀ l, lastN b (pre ++ l) = lastN b (pre' ++ l)) →
      (∀ l, (l ++ post).take a = (l ++ post').take a) →
      win b a g pre xs post = win b a g pre' xs post' := by
  induction xs with
  | nil => intros; simp [win]
  | cons x rest ih =>
    intro pre pre' post post' hpre hpost
    simp only [win]
    have h1 : lastN b pre = lastN b pre' := by simpa using hpre []
    rw [h1, hpost rest]
    congr 1
    apply ih
    · intro l
      simpa [List.append_assoc] using hpre ([x] ++ l)
    · exact hpost

theorem take_append_take (a : Nat) (l n more : List α) (h : a ≤ n.length) :
    (l ++ (n ++ more)).take a = (l ++ n.take a).take a := by
  simp only [List.take_append, List.take_take]
  congr 1
  have h1 : a - l.length - n.length = 0 := by omega
  have h2 : min (a - l.length) a = a - l.length := by omega
  simp [h1, h2]

end Dask.Overlap
