import DaskModel.Model.Sched
/-! Basic facts about the dict / set representations of `Model/Sched.lean`. -/
namespace Dask.Sched

namespace Map
variable {β : Type}

@[simp] theorem get?_nil (k : Key) : Map.get? ([] : Map β) k = none := rfl

theorem get?_cons (k' : Key) (v : β) (m : Map β) (k : Key) :
    Map.get? ((k', v) :: m) k = if k' = k then some v else Map.get? m k := rfl

theorem get?_del (m : Map β) (k j : Key) :
    (m.del k).get? j = if k = j then none else m.get? j := by
  induction m with
  | nil => simp [del]
  | cons p m ih =>
    obtain ⟨k', v⟩ := p
    unfold del at ih ⊢
    by_cases h : k' = k
    · subst h
      simp only [List.filter_cons, bne_self_eq_false, Bool.false_eq_true, if_false]
      rw [ih]
      by_cases hj : k' = j
      · simp [hj]
      · simp [hj, get?_cons]
    · have : (k' != k) = true := by simp [h]
      simp only [List.filter_cons, this, if_true, get?_cons]
      rw [ih]
      by_cases hj : k = j
      · subst hj; simp [h]
      · simp [hj]

theorem get?_set (m : Map β) (k : Key) (v : β) (j : Key) :
    (m.set k v).get? j = if k = j then some v else m.get? j := by
  unfold set
  rw [get?_cons, get?_del]
  by_cases h : k = j <;> simp [h]

theorem isEmpty_iff (m : Map β) : m.isEmpty = true ↔ ∀ k, m.get? k = none := by
  cases m with
  | nil => simp
  | cons p m =>
    obtain ⟨k, v⟩ := p
    simp only [List.isEmpty_cons, Bool.false_eq_true, false_iff]
    intro h
    have := h k
    simp [get?_cons] at this

theorem has_iff (m : Map β) (k : Key) : m.has k = true ↔ ∃ v, m.get? k = some v := by
  unfold has
  cases m.get? k <;> simp

end Map

theorem mem_sadd {x k : Key} {l : List Key} : x ∈ sadd k l ↔ x = k ∨ x ∈ l := by
  unfold sadd
  by_cases h : k ∈ l
  · simp only [h, if_true]
    constructor
    · exact Or.inr
    · rintro (rfl | h') <;> assumption
  · simp only [h, if_false, List.mem_append, List.mem_singleton]
    exact Or.comm

theorem mem_srem {x k : Key} {l : List Key} : x ∈ srem k l ↔ x ∈ l ∧ x ≠ k := by
  unfold srem
  simp [List.mem_filter]

theorem nodup_sadd {k : Key} {l : List Key} (h : l.Nodup) : (sadd k l).Nodup := by
  unfold sadd
  by_cases hk : k ∈ l
  · simpa [hk] using h
  · simp only [hk, if_false]
    rw [List.nodup_append]
    refine ⟨h, by simp, ?_⟩
    intro a ha b hb
    simp only [List.mem_singleton] at hb
    subst hb
    intro hab
    subst hab
    exact hk ha

theorem nodup_srem {k : Key} {l : List Key} (h : l.Nodup) : (srem k l).Nodup := by
  unfold srem
  exact h.filter _

theorem srem_eq_nil_iff {k : Key} {l : List Key} : srem k l = [] ↔ ∀ x ∈ l, x = k := by
  unfold srem
  simp [List.filter_eq_nil_iff]

theorem length_sadd_of_not_mem {k : Key} {l : List Key} (h : k ∉ l) : (sadd k l).length = l.length + 1 := by
  unfold sadd
  simp [h]

theorem length_srem_of_mem {k : Key} {l : List Key} (hn : l.Nodup) (h : k ∈ l) :
    (srem k l).length + 1 = l.length := by
  unfold srem
  induction l with
  | nil => simp at h
  | cons a l ih =>
    have hn' := List.nodup_cons.mp hn
    by_cases hak : a = k
    · subst hak
      have : List.filter (fun x => x != a) l = l := by
        apply List.filter_eq_self.mpr
        intro x hx
        have : x ≠ a := fun e => hn'.1 (e ▸ hx)
        simp [this]
      simp [this]
    · have hkl : k ∈ l := by
        rcases List.mem_cons.mp h with h | h
        · exact absurd h.symm hak
        · exact h
      have := ih hn'.2 hkl
      simp [hak]
      omega

/-! insertion sort keeps the elements -/
theorem mem_insertBy {le : Key → Key → Bool} {x y : Key} {l : List Key} :
    y ∈ insertBy le x l ↔ y = x ∨ y ∈ l := by
  induction l with
  | nil => simp [insertBy]
  | cons a l ih =>
    unfold insertBy
    split
    · simp
    · simp only [List.mem_cons, ih]
      constructor
      · rintro (h | h | h)
        · exact Or.inr (Or.inl h)
        · exact Or.inl h
        · exact Or.inr (Or.inr h)
      · rintro (h | h | h)
        · exact Or.inr (Or.inl h)
        · exact Or.inl h
        · exact Or.inr (Or.inr h)

theorem mem_isort {le : Key → Key → Bool} {y : Key} {l : List Key} : y ∈ isort le l ↔ y ∈ l := by
  induction l with
  | nil => simp [isort]
  | cons a l ih => simp [isort, mem_insertBy, ih]

theorem nodup_insertBy {le : Key → Key → Bool} {x : Key} {l : List Key} (h : l.Nodup) (hx : x ∉ l) :
    (insertBy le x l).Nodup := by
  induction l with
  | nil => simp [insertBy]
  | cons a l ih =>
    have hn := List.nodup_cons.mp h
    unfold insertBy
    split
    · exact List.nodup_cons.mpr ⟨hx, h⟩
    · have hxa : x ≠ a := fun e => hx (by simp [e])
      have hxl : x ∉ l := fun e => hx (List.mem_cons_of_mem _ e)
      refine List.nodup_cons.mpr ⟨?_, ih hn.2 hxl⟩
      rw [mem_insertBy]
      rintro (h' | h')
      · exact hxa h'.symm
      · exact hn.1 h'

theorem nodup_isort {le : Key → Key → Bool} {l : List Key} (h : l.Nodup) : (isort le l).Nodup := by
  induction l with
  | nil => simp [isort]
  | cons a l ih =>
    have hn := List.nodup_cons.mp h
    simp only [isort]
    exact nodup_insertBy (ih hn.2) (by rw [mem_isort]; exact hn.1)

theorem length_insertBy {le : Key → Key → Bool} {x : Key} {l : List Key} :
    (insertBy le x l).length = l.length + 1 := by
  induction l with
  | nil => simp [insertBy]
  | cons a l ih =>
    unfold insertBy
    split <;> simp [ih]

theorem length_isort {le : Key → Key → Bool} {l : List Key} : (isort le l).length = l.length := by
  induction l with
  | nil => simp [isort]
  | cons a l ih => simp [isort, length_insertBy, ih]

end Dask.Sched
