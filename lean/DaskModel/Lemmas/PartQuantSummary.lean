import DaskModel.Lemmas.PartQuantTree
/-! Lemmas about `Model/PartQuant.lean`, part 4: the `_calculate_divisions` fix-up, `percentiles_to_weights`,
    `percentiles_summary` (C45 extension round). -/
namespace Dask.PQ

/-! ### the `_calculate_divisions` fix-up -/

theorem pdUnique_spec (l : List Int) (h : l.Pairwise (· ≤ ·)) :
    (pdUnique l).Pairwise (· < ·) ∧ (∀ x, x ∈ pdUnique l ↔ x ∈ l) ∧ (pdUnique l).head? = l.head? := by
  induction l with
  | nil => simp [pdUnique]
  | cons a l ih =>
    have h' := List.pairwise_cons.mp h
    obtain ⟨i1, i2, _⟩ := ih h'.2
    have hmem : ∀ x, x ∈ (pdUnique l).filter (fun y => y != a) ↔ (x ∈ l ∧ x ≠ a) := by
      intro x; simp [List.mem_filter, i2]
    refine ⟨?_, ?_, by simp [pdUnique]⟩
    · simp only [pdUnique]
      refine List.pairwise_cons.mpr ⟨?_, List.Pairwise.sublist List.filter_sublist i1⟩
      intro x hx
      obtain ⟨hx1, hx2⟩ := (hmem x).mp hx
      have := h'.1 x hx1
      omega
    · intro x
      simp only [pdUnique, List.mem_cons, hmem]
      constructor
      · rintro (h1 | ⟨h1, _⟩)
        · exact Or.inl h1
        · exact Or.inr h1
      · intro h1
        by_cases hxa : x = a
        · exact Or.inl hxa
        · rcases h1 with h1 | h1
          · exact Or.inl h1
          · exact Or.inr ⟨h1, hxa⟩

/-- the divisions `set_index` uses: duplicates among all but the last entry dropped. Still non-decreasing, strictly
    increasing before the last entry, same first and last entry, nothing new. -/
theorem dropDuplicateDivisions_spec (d : List Int) (h : d.Pairwise (· ≤ ·)) (hlen : 2 ≤ d.length) :
    (dropDuplicateDivisions d).Pairwise (· ≤ ·) ∧ ((dropDuplicateDivisions d).dropLast).Pairwise (· < ·) ∧
    (dropDuplicateDivisions d).head? = d.head? ∧ (dropDuplicateDivisions d).getLast? = d.getLast? ∧
    ∀ x, x ∈ dropDuplicateDivisions d ↔ x ∈ d := by
  have hne : d ≠ [] := by intro h0; subst h0; simp at hlen
  obtain ⟨ys, hi, hd⟩ : ∃ ys hi, d = ys ++ [hi] := by
    cases hl : d.getLast? with
    | none => exact absurd (List.getLast?_eq_none_iff.mp hl) hne
    | some a => obtain ⟨ys, hys⟩ := List.getLast?_eq_some_iff.mp hl; exact ⟨ys, a, hys⟩
  subst hd
  have hys : ys ≠ [] := by intro h0; subst h0; simp at hlen
  have e : dropDuplicateDivisions (ys ++ [hi]) = pdUnique ys ++ [hi] := by
    unfold dropDuplicateDivisions
    simp
  obtain ⟨p1, p2, p3⟩ := List.pairwise_append.mp h
  obtain ⟨u1, u2, u3⟩ := pdUnique_spec ys p1
  rw [e]
  have hune : pdUnique ys ≠ [] := by
    intro h0
    cases ys with
    | nil => exact hys rfl
    | cons a l => simp [pdUnique] at h0
  refine ⟨?_, ?_, ?_, by simp, ?_⟩
  · refine List.pairwise_append.mpr ⟨List.Pairwise.imp (fun h => Int.le_of_lt h) u1, List.pairwise_singleton _ _, ?_⟩
    intro a ha b hb
    exact p3 a ((u2 a).mp ha) b hb
  · simpa using u1
  · cases hu : pdUnique ys with
    | nil => exact absurd hu hune
    | cons a t =>
      cases ys with
      | nil => exact absurd rfl hys
      | cons b t' => rw [hu] at u3; simpa using u3
  · intro x
    simp only [List.mem_append, u2]

/-! ### per-partition summaries -/

theorem diffSums_pos : ∀ (l : List Int) (prev : Int), (∀ x ∈ l, prev < x) → l.Pairwise (· < ·) → ∀ w ∈ diffSums prev l, 0 < w := by
  intro l
  induction l with
  | nil => intro prev _ _ w hw; simp [diffSums] at hw
  | cons q l ih =>
    intro prev hprev hs w hw
    have hs' := List.pairwise_cons.mp hs
    cases l with
    | nil =>
      simp only [diffSums, List.mem_singleton] at hw
      have := hprev q (by simp); omega
    | cons q' rest =>
      simp only [diffSums, List.mem_cons] at hw
      rcases hw with rfl | hw
      · have := hprev q' (by simp); omega
      · exact ih q (fun x hx => hs'.1 x hx) hs'.2 w (by simpa using hw)

theorem length_diffSums : ∀ (l : List Int) (prev : Int), (diffSums prev l).length = l.length := by
  intro l
  induction l with
  | nil => intro prev; rfl
  | cons q l ih =>
    intro prev
    cases l with
    | nil => rfl
    | cons q' rest => simp only [diffSums, List.length_cons]; rw [ih q]; rfl

/-- `percentiles_to_weights`: strictly increasing percentiles (at least two) on a non-empty partition give positive
    weights, one per percentile -/
theorem ptw2_pos (qs : List Int) (length : Nat) (hq : qs.Pairwise (· < ·)) (h2 : 2 ≤ qs.length) (hl : 0 < length) :
    (∀ w ∈ ptw2 qs length, 0 < w) ∧ (ptw2 qs length).length = qs.length := by
  unfold ptw2
  have : length ≠ 0 := by omega
  simp only [this, if_false]
  match qs, hq, h2 with
  | q0 :: q1 :: rest, hq, _ =>
    have hq' := List.pairwise_cons.mp hq
    refine ⟨?_, by simp [length_diffSums]⟩
    intro w hw
    obtain ⟨dd, hd, rfl⟩ := List.mem_map.mp hw
    have : 0 < dd := by
      simp only [diffSums, List.mem_cons] at hd
      rcases hd with rfl | hd
      · have := hq'.1 q1 (by simp); omega
      · exact diffSums_pos (q1 :: rest) q0 (fun x hx => hq'.1 x hx) hq'.2 dd hd
    exact Int.mul_pos (by omega) this

theorem mapM_getElem_sorted (d : List Int) (hd : d.Pairwise (· ≤ ·)) : ∀ (pos : List Nat) (vs : List Int),
    pos.Pairwise (· ≤ ·) → pos.mapM (fun p => d[p]?) = some vs → vs.Pairwise (· ≤ ·) := by
  intro pos
  induction pos with
  | nil => intro vs _ h; simp at h; subst h; exact List.Pairwise.nil
  | cons p pos ih =>
    intro vs hp h
    rw [List.mapM_cons] at h
    cases hfa : d[p]? with
    | none => simp [hfa] at h
    | some b =>
      cases hl : pos.mapM (fun p => d[p]?) with
      | none => simp [hfa, hl] at h
      | some bs =>
        simp [hfa, hl] at h
        subst h
        have hp' := List.pairwise_cons.mp hp
        refine List.pairwise_cons.mpr ⟨?_, ih bs hp'.2 hl⟩
        intro y hy
        obtain ⟨_, h2, _⟩ := mapM_some hl
        obtain ⟨p', hp'mem, hy'⟩ := h2 y hy
        have hle := hp'.1 p' hp'mem
        -- d[p] ≤ d[p'] for p ≤ p' in a sorted list
        obtain ⟨hplt, hb⟩ := List.getElem?_eq_some_iff.mp hfa
        obtain ⟨hp'lt, hy''⟩ := List.getElem?_eq_some_iff.mp hy'
        rcases Nat.lt_or_ge p p' with hlt | hge
        · have := List.pairwise_iff_getElem.mp hd p p' hplt hp'lt hlt
          omega
        · have : p = p' := by omega
          subst this; omega

end Dask.PQ

namespace Dask.PQ

/-- **what `percentiles_summary` hands over** (interpolation='nearest'): for sorted partition data `d`, picked positions
    that do not decrease and run from `0` to `len - 1` (percentiles 0 and 100), strictly increasing percentiles:
    values non-decreasing, weights positive, first value = partition minimum, last value = partition maximum, every
    value is a data value -/
theorem percentilesSummary_contract (d : List Int) (pos : List Nat) (qs : List Int) (s : Summary)
    (hd : d.Pairwise (· ≤ ·)) (hne : d ≠ []) (hpos : pos.Pairwise (· ≤ ·)) (h0 : pos.head? = some 0)
    (hl : pos.getLast? = some (d.length - 1)) (hq : qs.Pairwise (· < ·)) (hlen : qs.length = pos.length)
    (h2 : 2 ≤ qs.length) (h : percentilesSummary d pos qs = some s) :
    ValSorted s ∧ PosW s ∧ (vals s).head? = d.head? ∧ (vals s).getLast? = d.getLast? ∧ ∀ v ∈ vals s, v ∈ d := by
  unfold percentilesSummary at h
  have hemp : d.isEmpty = false := by cases d with | nil => exact absurd rfl hne | cons _ _ => rfl
  simp only [hemp, Bool.false_eq_true, if_false] at h
  cases hvs : pos.mapM (fun p => d[p]?) with
  | none => simp [hvs] at h
  | some vs =>
    simp only [hvs, Option.map_some, Option.some.injEq] at h
    obtain ⟨m1, m2, m3⟩ := mapM_some hvs
    have hdl : 0 < d.length := List.length_pos_iff.mpr hne
    obtain ⟨wpos, wlen⟩ := ptw2_pos qs d.length hq h2 hdl
    have hvals : vals s = vs := by
      rw [← h]; unfold vals
      exact List.map_fst_zip (by omega)
    have hsorted := mapM_getElem_sorted d hd pos vs hpos hvs
    refine ⟨?_, ?_, ?_, ?_, ?_⟩
    · unfold ValSorted
      have : (vals s).Pairwise (· ≤ ·) := by rw [hvals]; exact hsorted
      exact List.pairwise_map.mp this
    · intro p hp
      rw [← h] at hp
      obtain ⟨a, b⟩ := p
      exact wpos b (List.of_mem_zip hp).2
    · rw [hvals]
      obtain ⟨rest, rfl⟩ := List.head?_eq_some_iff.mp h0
      rw [List.mapM_cons] at hvs
      cases hfa : d[0]? with
      | none => simp [hfa] at hvs
      | some b =>
        cases hr : rest.mapM (fun p => d[p]?) with
        | none => simp [hfa, hr] at hvs
        | some bs =>
          simp [hfa, hr] at hvs
          subst hvs
          rw [List.head?_eq_getElem? (l := d), hfa]; rfl
    · rw [hvals]
      obtain ⟨ys, rfl⟩ := List.getLast?_eq_some_iff.mp hl
      rw [List.mapM_append] at hvs
      cases hy : ys.mapM (fun p => d[p]?) with
      | none => simp [hy] at hvs
      | some bs =>
        cases hfa : d[d.length - 1]? with
        | none => simp [hy, hfa] at hvs
        | some b =>
          simp [hy, hfa] at hvs
          subst hvs
          rw [List.getLast?_eq_getElem? (l := d), hfa]; simp
    · rw [hvals]
      intro v hv
      obtain ⟨p, _, hp⟩ := m2 v hv
      exact List.mem_of_getElem? hp

end Dask.PQ
