import DaskModel.Lemmas.SlicePlan
import DaskModel.Lemmas.SetItemPlan
/-! `new_blockdim`: the ceil-division it uses is the length of the corresponding range. -/
namespace Dask.Slice1D
open Dask.SetItem

theorem ceilDiv_pos_eq (x m : Int) (hm : 0 < m) : ceilDiv x m = ceilDivPos x m := by
  have hq := Int.emod_add_mul_ediv x m
  have hr0 := Int.emod_nonneg x (by omega : m ≠ 0)
  have hr1 := Int.emod_lt_of_pos x hm
  unfold ceilDiv ceilDivPos
  simp only [hm, if_true]
  generalize x / m = q at hq ⊢
  generalize x % m = r at hq hr0 hr1 ⊢
  by_cases hz : r = 0
  · subst hz
    have h : (-x) / m = -q ∧ (-x) % m = 0 := by
      rw [Int.ediv_emod_unique hm]
      refine ⟨?_, by omega, hm⟩
      rw [Int.mul_neg]; omega
    rw [h.1]; simp
  · have h : (-x) / m = -q - 1 ∧ (-x) % m = m - r := by
      rw [Int.ediv_emod_unique hm]
      refine ⟨?_, by omega, by omega⟩
      rw [Int.mul_sub, Int.mul_neg, Int.mul_one]; omega
    rw [h.1]; simp [hz]; omega

theorem ceilDiv_neg_eq (x st : Int) (hs : st < 0) : ceilDiv x st = ceilDivPos (-x) (-st) := by
  have h1 : ¬ 0 < st := by omega
  have := ceilDiv_pos_eq (-x) (-st) (by omega)
  rw [← this]
  unfold ceilDiv
  have h2 : 0 < -st := by omega
  simp [h1, hs]

/-- `ceil((b - a)/st)` is the length of `range(a, b, st)` also when the range is empty but `b - a > -st` -/
theorem ceilDiv_rangeUp (a b st : Int) (hs : 0 < st) (h : -st < b - a) :
    ceilDiv (b - a) st = ((rangeUp a b st).length : Int) := by
  rw [ceilDiv_pos_eq _ _ hs]
  by_cases hab : a ≤ b
  · rw [rangeUp_length _ _ hs _ hab]
  · rw [rangeUp_nil (by omega)]
    unfold ceilDivPos
    have h1 : (b - a) / st = -1 ∧ (b - a) % st = b - a + st := by
      rw [Int.ediv_emod_unique hs]
      refine ⟨?_, by omega, by omega⟩
      rw [Int.mul_neg, Int.mul_one]; omega
    rw [h1.1, h1.2]
    have : ¬ (b - a + st = 0) := by omega
    simp [this]

theorem ceilDiv_rangeDown (a b st : Int) (hs : st < 0) (h : b ≤ a) :
    ceilDiv (b - a) st = ((rangeDown a b st).length : Int) := by
  rw [ceilDiv_neg_eq _ _ hs, rangeDown_neg, List.length_map, rangeUp_length _ _ (by omega) _ (by omega)]
  congr 1; omega

/-- an item as emitted by `_slice_1d`: it names an existing block and its slice has the shape the loops produce -/
def GoodItem (lengths : List Nat) (item : Nat × PSlice) : Prop :=
  ∃ l, lengths[item.1]? = some l ∧
    (item.2 = colon ∨
     ∃ a b st, item.2 = PSlice.ofInts a b st ∧
       ((0 < st ∧ 0 ≤ a ∧ a ≤ l ∧ 0 ≤ b ∧ b ≤ l ∧ -st < b - a) ∨
        (st < 0 ∧ -(l : Int) ≤ a ∧ a < 0 ∧ -(l : Int) - 1 ≤ b ∧ b ≤ a)))

theorem ofInts_ne_colon (a b st : Int) : PSlice.ofInts a b st ≠ colon := by
  intro h; simp [PSlice.ofInts, colon] at h

/-- for a good item `new_blockdim`'s size is the number of positions the block's slice reads -/
theorem itemSize_good (lengths : List Nat) (item : Nat × PSlice) (h : GoodItem lengths item) :
    itemSize lengths item = some ((blockDen lengths item).length : Int) := by
  obtain ⟨l, hl, hc⟩ := h
  rcases item with ⟨k, sl⟩
  simp only at hl hc
  rcases hc with rfl | ⟨a, b, st, rfl, hcase⟩
  · simp only [itemSize, if_true, hl, blockDen, pySliceIdx_colon, List.length_map]
    rw [ceilDiv_rangeUp 0 l 1 (by omega) (by omega)]
  · have hne : (⟨some a, some b, some st⟩ : PSlice) ≠ colon := ofInts_ne_colon a b st
    rcases hcase with ⟨hs, ha0, ha1, hb0, hb1, hgap⟩ | ⟨hs, ha0, ha1, hb0, hb1⟩
    · have hs0 : ¬ st = 0 := by omega
      simp only [itemSize, PSlice.ofInts, if_neg hne, hs0, if_false, blockDen, hl]
      have := @pySliceIdx_ofInts_pos l a b st hs ha0 ha1 hb0 hb1
      simp only [PSlice.ofInts] at this
      rw [this]
      simp only [List.length_map]
      rw [ceilDiv_rangeUp a b st hs hgap]
    · have hs0 : ¬ st = 0 := by omega
      simp only [itemSize, PSlice.ofInts, if_neg hne, hs0, if_false, blockDen, hl]
      have := @pySliceIdx_ofInts_neg l a b st hs ha0 ha1 hb0 (by omega)
      simp only [PSlice.ofInts] at this
      rw [this]
      simp only [List.length_map]
      have e := ceilDiv_rangeDown (a + l) (b + l) st hs (by omega)
      have e2 : b + (l : Int) - (a + (l : Int)) = b - a := by omega
      rw [e2] at e
      rw [e]

theorem mapM_itemSize (lengths : List Nat) : ∀ (d : List (Nat × PSlice)), (∀ it ∈ d, GoodItem lengths it) →
    d.mapM (itemSize lengths) = some (d.map fun it => ((blockDen lengths it).length : Int)) := by
  intro d
  induction d with
  | nil => intro _; rfl
  | cons it d ih =>
    intro h
    rw [List.mapM_cons, itemSize_good lengths it (h it (by simp)), ih (fun x hx => h x (by simp [hx]))]
    rfl

end Dask.Slice1D
