import DaskModel.Model.MergeAsof
import DaskModel.Lemmas.RepartDivs
/-! Lemmas for C39 (merge_asof): candidates on a padded partition vs the whole right frame, what truthful divisions say
    about earlier / later partitions, tiling of a left partition by its pieces, one piece, all pieces. -/
set_option linter.unusedSimpArgs false
namespace Dask.MergeAsof
open Dask.Divs

/-! ### candidates on `A ++ B ++ C` when `A` lies before the key and `C` after it -/

theorem getLast?_append_of_ne_nil {α : Type} (xs ys : List α) (h : ys ≠ []) : (xs ++ ys).getLast? = ys.getLast? := by
  cases ys with
  | nil => exact absurd rfl h
  | cons y ys =>
    rw [List.getLast?_append]
    cases h' : (y :: ys).getLast? with
    | none => simp at h'
    | some z => rfl


theorem filter_all_true {α : Type} (p : α → Bool) (xs : List α) (h : ∀ x ∈ xs, p x = true) : xs.filter p = xs :=
  List.filter_eq_self.mpr h

theorem filter_all_false {α : Type} (p : α → Bool) (xs : List α) (h : ∀ x ∈ xs, p x = false) : xs.filter p = [] :=
  List.filter_eq_nil_iff.mpr (by intro x hx; simp [h x hx])

/-- backward candidate: everything of `A` qualifies, nothing of `C` does -/
theorem backCand_split (strict : Bool) (k : Nat) (A B C : List Row) (hA : ∀ r ∈ A, r.1 < k) (hC : ∀ r ∈ C, k < r.1)
    (T : List Row) (hT : T = [] ∨ T = A.getLast?.toList) (hT' : T = [] → A = []) (H : List Row) (hH : ∀ r ∈ H, k < r.1) :
    backCand strict k (T ++ B ++ H) = backCand strict k (A ++ B ++ C) := by
  unfold backCand
  have pA : ∀ r ∈ A, (if strict then decide (r.1 < k) else decide (r.1 ≤ k)) = true := by
    intro r hr; have := hA r hr; cases strict <;> simp <;> omega
  have pC : ∀ (X : List Row), (∀ r ∈ X, k < r.1) → ∀ r ∈ X, (if strict then decide (r.1 < k) else decide (r.1 ≤ k)) = false := by
    intro X hX r hr; have := hX r hr; cases strict <;> simp <;> omega
  have pT : ∀ r ∈ T, (if strict then decide (r.1 < k) else decide (r.1 ≤ k)) = true := by
    intro r hr
    rcases hT with rfl | rfl
    · simp at hr
    · apply pA
      simp only [Option.mem_toList] at hr
      exact List.mem_of_getLast? hr
  rw [List.filter_append, List.filter_append, List.filter_append, List.filter_append,
    filter_all_true _ A pA, filter_all_false _ C (pC C hC), filter_all_true _ T pT, filter_all_false _ H (pC H hH),
    List.append_nil, List.append_nil]
  generalize B.filter _ = B'
  cases B' with
  | nil =>
    simp only [List.append_nil]
    rcases hT with rfl | rfl
    · rw [hT' rfl]
    · cases hl : A.getLast? <;> simp
  | cons b B' => rw [getLast?_append_of_ne_nil _ _ (by simp), getLast?_append_of_ne_nil _ _ (by simp)]

/-- forward candidate: nothing of `A` qualifies, everything of `C` does -/
theorem fwdCand_split (strict : Bool) (k : Nat) (A B C : List Row) (hA : ∀ r ∈ A, r.1 < k) (hC : ∀ r ∈ C, k < r.1)
    (T : List Row) (hT : ∀ r ∈ T, r.1 < k) (H : List Row) (hH : H = C.head?.toList) :
    fwdCand strict k (T ++ B ++ H) = fwdCand strict k (A ++ B ++ C) := by
  unfold fwdCand
  have pA : ∀ (X : List Row), (∀ r ∈ X, r.1 < k) → ∀ r ∈ X, (if strict then decide (k < r.1) else decide (k ≤ r.1)) = false := by
    intro X hX r hr; have := hX r hr; cases strict <;> simp <;> omega
  have pC : ∀ r ∈ C, (if strict then decide (k < r.1) else decide (k ≤ r.1)) = true := by
    intro r hr; have := hC r hr; cases strict <;> simp <;> omega
  have pH : ∀ r ∈ H, (if strict then decide (k < r.1) else decide (k ≤ r.1)) = true := by
    intro r hr
    subst hH
    apply pC
    simp only [Option.mem_toList] at hr
    exact List.mem_of_head? hr
  rw [List.filter_append, List.filter_append, List.filter_append, List.filter_append,
    filter_all_false _ A (pA A hA), filter_all_true _ C pC, filter_all_false _ T (pA T hT), filter_all_true _ H pH]
  simp only [List.nil_append]
  generalize B.filter _ = B'
  cases B' with
  | nil => subst hH; cases C <;> simp
  | cons b B' => simp

theorem mem_getLast?_toList {α : Type} (A : List α) (r : α) (h : r ∈ A.getLast?.toList) : r ∈ A := by
  simp only [Option.mem_toList] at h
  exact List.mem_of_getLast? h

theorem mem_head?_toList {α : Type} (A : List α) (r : α) (h : r ∈ A.head?.toList) : r ∈ A := by
  simp only [Option.mem_toList] at h
  exact List.mem_of_head? h

/-- **one row**: the match found in the padded partition `prev ++ right_j ++ next` is the match in the whole right
    frame, for every direction, tolerance and `allow_exact_matches`, whenever all earlier rows lie before the key and
    all later rows after it -/
theorem asof_frame_eq (o : Opts) (k : Nat) (A B C : List Row) (hA : ∀ r ∈ A, r.1 < k) (hC : ∀ r ∈ C, k < r.1) :
    asof o k ((if o.dir = .forward then [] else A.getLast?.toList) ++ B ++
      (if o.dir = .backward then [] else C.head?.toList)) = asof o k (A ++ B ++ C) := by
  have hT' : A.getLast?.toList = [] → A = [] := by
    intro h
    cases A with
    | nil => rfl
    | cons a A => cases hl : (a :: A).getLast? <;> simp_all
  unfold asof
  cases hd : o.dir with
  | backward =>
    simp only [reduceCtorEq, if_false, if_true]
    have := backCand_split (!o.exact) k A B C hA hC A.getLast?.toList (Or.inr rfl) hT' [] (by simp)
    unfold pick
    rw [hd]
    simp only [this]
  | forward =>
    simp only [reduceCtorEq, if_false, if_true]
    have := fwdCand_split (!o.exact) k A B C hA hC [] (by simp) C.head?.toList rfl
    unfold pick
    rw [hd]
    simp only [this]
  | nearest =>
    simp only [reduceCtorEq, if_false]
    have h1 := backCand_split (!o.exact) k A B C hA hC A.getLast?.toList (Or.inr rfl) hT' C.head?.toList
      (fun r hr => hC r (mem_head?_toList C r hr))
    have h2 := fwdCand_split (!o.exact) k A B C hA hC A.getLast?.toList
      (fun r hr => hA r (mem_getLast?_toList A r hr)) C.head?.toList rfl
    rw [h1, h2]

/-! ### what truthful divisions say about the rows before / after a partition -/

theorem sorted_get_le (l : List Nat) (h : l.Pairwise (· ≤ ·)) (i j : Nat) (hij : i ≤ j) (a b : Nat)
    (ha : l[i]? = some a) (hb : l[j]? = some b) : a ≤ b := by
  obtain ⟨hi, rfl⟩ := List.getElem?_eq_some_iff.mp ha
  obtain ⟨hj, rfl⟩ := List.getElem?_eq_some_iff.mp hb
  rcases Nat.lt_or_eq_of_le hij with hlt | rfl
  · exact (List.pairwise_iff_getElem.mp h) i j hi hj hlt
  · exact Nat.le_refl _

theorem mem_take_flatten {α : Type} (Rp : List (List α)) (j : Nat) (r : α) (h : r ∈ (Rp.take j).flatten) :
    ∃ j' P, j' < j ∧ Rp[j']? = some P ∧ r ∈ P := by
  obtain ⟨P, hP, hr⟩ := List.mem_flatten.mp h
  obtain ⟨j', hj', rfl⟩ := List.getElem_of_mem hP
  have hlt : j' < j := by
    have := hj'; simp only [List.length_take] at this; omega
  refine ⟨j', _, hlt, ?_, hr⟩
  rw [List.getElem_take]
  exact List.getElem?_eq_getElem _

theorem mem_drop_flatten {α : Type} (Rp : List (List α)) (j : Nat) (r : α) (h : r ∈ (Rp.drop j).flatten) :
    ∃ j' P, j ≤ j' ∧ Rp[j']? = some P ∧ r ∈ P := by
  obtain ⟨P, hP, hr⟩ := List.mem_flatten.mp h
  obtain ⟨t, ht, rfl⟩ := List.getElem_of_mem hP
  refine ⟨j + t, _, Nat.le_add_right _ _, ?_, hr⟩
  rw [List.getElem_drop]
  exact List.getElem?_eq_getElem _

theorem right_before (R : List Nat) (Rp : List (List Row)) (hR : Truthful (fun r : Row => r.1) R Rp) (j rj : Nat)
    (hj : j < Rp.length) (hrj : R[j]? = some rj) : ∀ r ∈ (Rp.take j).flatten, r.1 < rj := by
  intro r hr
  obtain ⟨hlen, hs, hrows⟩ := hR
  obtain ⟨j', P, hlt, hP, hrP⟩ := mem_take_flatten Rp j r hr
  have h1 : j' + 1 < R.length := by omega
  have h0 : j' < R.length := by omega
  have := hrows j' P R[j'] R[j' + 1] hP (List.getElem?_eq_getElem h0) (List.getElem?_eq_getElem h1) r hrP
  have hle := sorted_get_le R hs (j' + 1) j (by omega) _ _ (List.getElem?_eq_getElem h1) hrj
  rcases this.2 with h | ⟨h, _⟩
  · exact Nat.lt_of_lt_of_le h hle
  · omega

theorem right_after (R : List Nat) (Rp : List (List Row)) (hR : Truthful (fun r : Row => r.1) R Rp) (j rj1 : Nat)
    (hrj : R[j + 1]? = some rj1) : ∀ r ∈ (Rp.drop (j + 1)).flatten, rj1 ≤ r.1 := by
  intro r hr
  obtain ⟨hlen, hs, hrows⟩ := hR
  obtain ⟨j', P, hle, hP, hrP⟩ := mem_drop_flatten Rp (j + 1) r hr
  have hj' : j' < Rp.length := (List.getElem?_eq_some_iff.mp hP).1
  have h1 : j' + 1 < R.length := by omega
  have h0 : j' < R.length := by omega
  have := hrows j' P R[j'] R[j' + 1] hP (List.getElem?_eq_getElem h0) (List.getElem?_eq_getElem h1) r hrP
  exact Nat.le_trans (sorted_get_le R hs (j + 1) j' hle _ _ hrj (List.getElem?_eq_getElem h0)) this.1

theorem flatten_split {α : Type} (Rp : List (List α)) (j : Nat) :
    Rp.flatten = (Rp.take j).flatten ++ ((Rp.drop j).take 1).flatten ++ (Rp.drop (j + 1)).flatten := by
  conv => lhs; rw [← List.take_append_drop j Rp]
  rw [List.flatten_append, List.append_assoc]
  congr 1
  conv => lhs; rw [← List.take_append_drop 1 (Rp.drop j)]
  rw [List.flatten_append, List.drop_drop]

/-! ### the pieces of a left partition tile it -/

def loPred (lo : Option Nat) (r : Row) : Bool := match lo with | some a => decide (a ≤ r.1) | none => true

theorem filter_sorted {α : Type} (key : α → Nat) (p : α → Bool) (P : List α) (h : Repart.KeySorted key P) :
    Repart.KeySorted key (P.filter p) := List.Pairwise.sublist List.filter_sublist h

theorem tiles_flatMap (P : List Row) (hP : Repart.KeySorted (fun r : Row => r.1) P) : ∀ (J : List Piece) (lo : Option Nat),
    tiles lo J = true → J.flatMap (fun p => slice P p.lower p.upper) = P.filter (loPred lo)
  | [], _, h => by simp [tiles] at h
  | [p], lo, h => by
    simp only [tiles, Bool.and_eq_true, beq_iff_eq] at h
    obtain ⟨h1, h2⟩ := h
    simp only [List.flatMap_cons, List.flatMap_nil, List.append_nil, slice, h1, h2, Bool.and_true]
    rfl
  | p :: q :: rest, lo, h => by
    simp only [tiles, Bool.and_eq_true, beq_iff_eq] at h
    obtain ⟨h1, h2⟩ := h
    cases hu : p.upper with
    | none => rw [hu] at h2; simp at h2
    | some b =>
      rw [hu] at h2
      simp only [Bool.and_eq_true] at h2
      obtain ⟨hab, ht⟩ := h2
      rw [List.flatMap_cons, tiles_flatMap P hP (q :: rest) (some b) ht]
      -- split the sorted list `P.filter (lo ≤ ·)` at `b`
      have hsplit := Repart.filter_split_sorted (fun r : Row => r.1) b (P.filter (loPred lo)) (filter_sorted _ _ P hP)
      rw [List.filter_filter, List.filter_filter] at hsplit
      conv => rhs; rw [← hsplit]
      congr 1
      · unfold slice
        rw [h1, hu]
        apply List.filter_congr
        intro r _
        unfold loPred
        cases lo <;> simp [Bool.and_comm]
      · apply List.filter_congr
        intro r _
        unfold loPred
        cases lo with
        | none => simp
        | some a =>
          simp only [decide_eq_true_eq] at hab
          simp only [Bool.and_eq_true, decide_eq_true_eq]
          have : (decide (b ≤ r.1) && decide (a ≤ r.1)) = decide (b ≤ r.1) := by
            by_cases hb : b ≤ r.1
            · simp [hb]; omega
            · simp [hb]
          simpa using this.symm

theorem slice_normLower (li : Nat) (P : List Row) (hP : ∀ l ∈ P, li ≤ l.1) (p : Piece) :
    slice P (normLower li p).lower (normLower li p).upper = slice P p.lower p.upper := by
  unfold slice normLower
  apply List.filter_congr
  intro r hr
  have := hP r hr
  cases hl : p.lower with
  | none => simp; omega
  | some a =>
    simp only [Option.getD_some]
    congr 1
    by_cases h : a ≤ r.1
    · simp [h]; omega
    · simp [h]; omega

/-- pieces that pass `tilesFrom li` cut a sorted partition with keys `≥ li` into consecutive runs -/
theorem tilesFrom_flatMap (li : Nat) (P : List Row) (hs : Repart.KeySorted (fun r : Row => r.1) P) (hP : ∀ l ∈ P, li ≤ l.1)
    (J : List Piece) (h : tilesFrom li J = true) : J.flatMap (fun p => slice P p.lower p.upper) = P := by
  have h1 := tiles_flatMap P hs (J.map (normLower li)) (some li) h
  rw [List.flatMap_map] at h1
  have h2 : (J.flatMap fun p => slice P (normLower li p).lower (normLower li p).upper) =
      J.flatMap fun p => slice P p.lower p.upper := by
    congr 1
    funext p
    exact slice_normLower li P hP p
  rw [← h2, h1]
  exact filter_all_true _ P (fun l hl => by simp [loPred, hP l hl])

/-- the rows of left partition `i` lie inside its divisions -/
def LeftIn (L : List Nat) (n i : Nat) (P : List Row) : Prop :=
  ∃ li li1, L[i]? = some li ∧ L[i + 1]? = some li1 ∧ ∀ l ∈ P, li ≤ l.1 ∧ (l.1 < li1 ∨ (i + 1 = n ∧ l.1 ≤ li1))

theorem mem_slice (P : List Row) (lo up : Option Nat) (l : Row) (h : l ∈ slice P lo up) :
    l ∈ P ∧ (∀ a, lo = some a → a ≤ l.1) ∧ (∀ b, up = some b → l.1 < b) := by
  unfold slice at h
  obtain ⟨hP, hf⟩ := List.mem_filter.mp h
  simp only [Bool.and_eq_true] at hf
  refine ⟨hP, ?_, ?_⟩
  · intro a ha; rw [ha] at hf; simpa using hf.1
  · intro b hb; rw [hb] at hf; simpa using hf.2

/-- **one piece**: every row of the slice gets the match it has in the whole right frame -/
theorem pieceOut_eq (o : Opts) (L R : List Nat) (Rp : List (List Row)) (hR : Truthful (fun r : Row => r.1) R Rp)
    (n i : Nat) (P : List Row) (hP : LeftIn L n i P) (p : Piece) (hok : pieceOK L R n Rp.length i p = true) :
    pieceOut o Rp P p = (slice P p.lower p.upper).map fun l => (l, asof o l.1 Rp.flatten) := by
  unfold pieceOut
  apply List.map_congr_left
  intro l hl
  obtain ⟨hlP, hlo, hup⟩ := mem_slice P p.lower p.upper l hl
  obtain ⟨li, li1, hli, hli1, hin⟩ := hP
  obtain ⟨hge, hlt⟩ := hin l hlP
  simp only [pieceOK, Bool.and_eq_true, decide_eq_true_eq] at hok
  obtain ⟨⟨hj, hlow⟩, hupp⟩ := hok
  have hRlen : Rp.length + 1 = R.length := hR.1
  have hjR : p.part < R.length := by omega
  have hj1R : p.part + 1 < R.length := by omega
  -- rows of earlier partitions lie before the key
  have hA : ∀ r ∈ (Rp.take p.part).flatten, r.1 < l.1 := by
    intro r hr
    have hb := right_before R Rp hR p.part R[p.part] hj (List.getElem?_eq_getElem hjR) r hr
    simp only [Bool.or_eq_true, beq_iff_eq] at hlow
    rcases hlow with h0 | hlow
    · rw [h0] at hr; simp at hr
    · cases hlw : p.lower with
      | some a =>
        rw [hlw, List.getElem?_eq_getElem hjR] at hlow
        simp only [decide_eq_true_eq] at hlow
        have := hlo a hlw
        omega
      | none =>
        rw [hlw, List.getElem?_eq_getElem hjR, hli] at hlow
        simp only [decide_eq_true_eq] at hlow
        omega
  -- rows of later partitions lie after the key
  have hC : ∀ r ∈ (Rp.drop (p.part + 1)).flatten, l.1 < r.1 := by
    intro r hr
    have ha := right_after R Rp hR p.part R[p.part + 1] (List.getElem?_eq_getElem hj1R) r hr
    simp only [Bool.or_eq_true, beq_iff_eq] at hupp
    rcases hupp with hm | hupp
    · rw [hm] at hr; simp at hr
    · cases hu : p.upper with
      | some b =>
        rw [hu, List.getElem?_eq_getElem hj1R] at hupp
        simp only [decide_eq_true_eq] at hupp
        have := hup b hu
        omega
      | none =>
        rw [hu, List.getElem?_eq_getElem hj1R, hli1] at hupp
        simp only at hupp
        split at hupp
        · next hin' =>
          simp only [decide_eq_true_eq] at hupp
          rcases hlt with h | ⟨_, h⟩ <;> omega
        · next hin' =>
          simp only [decide_eq_true_eq] at hupp
          have hne : i + 1 ≠ n := by simpa using hin'
          rcases hlt with h | ⟨h, _⟩
          · omega
          · exact absurd h hne
  have := asof_frame_eq o l.1 (Rp.take p.part).flatten ((Rp.drop p.part).take 1).flatten
    (Rp.drop (p.part + 1)).flatten hA hC
  simp only [frameFor, tailOf, headOf, partAt]
  rw [Prod.mk.injEq]
  exact ⟨rfl, by rw [this, ← flatten_split]⟩

theorem flatMap_congr_mem {α β : Type} (f g : α → List β) : ∀ xs : List α, (∀ x ∈ xs, f x = g x) → xs.flatMap f = xs.flatMap g
  | [], _ => rfl
  | x :: xs, h => by
    rw [List.flatMap_cons, List.flatMap_cons, h x List.mem_cons_self,
      flatMap_congr_mem f g xs fun y hy => h y (List.mem_cons_of_mem _ hy)]

theorem planOut_from (o : Opts) (L R : List Nat) (Rp : List (List Row)) (hR : Truthful (fun r : Row => r.1) R Rp) (n : Nat) :
    ∀ (plan : List (List Piece)) (Lps : List (List Row)) (i : Nat), plan.length = Lps.length →
      (∀ t P, Lps[t]? = some P → LeftIn L n (i + t) P ∧ Repart.KeySorted (fun r : Row => r.1) P) →
      planOKFrom L R n Rp.length i plan = true →
      List.zipWith (fun J P => J.flatMap (pieceOut o Rp P)) plan Lps =
        Lps.map fun P => P.map fun l => (l, asof o l.1 Rp.flatten)
  | [], [], _, _, _, _ => rfl
  | [], _ :: _, _, h, _, _ => by simp at h
  | _ :: _, [], _, h, _, _ => by simp at h
  | J :: plan, P :: Lps, i, hlen, hrows, hok => by
    simp only [planOKFrom, Bool.and_eq_true, List.all_eq_true] at hok
    obtain ⟨⟨htile, hpieces⟩, hrest⟩ := hok
    obtain ⟨hin, hsorted⟩ := hrows 0 P rfl
    rw [Nat.add_zero] at hin
    obtain ⟨li, _, hli, _, hinrows⟩ := id hin
    rw [hli] at htile
    rw [List.zipWith_cons_cons, List.map_cons]
    congr 1
    · have h1 : J.flatMap (pieceOut o Rp P) =
          J.flatMap fun p => (slice P p.lower p.upper).map fun l => (l, asof o l.1 Rp.flatten) := by
        apply flatMap_congr_mem
        intro p hp
        exact pieceOut_eq o L R Rp hR n i P hin p (hpieces p hp)
      rw [h1, ← List.map_flatMap, tilesFrom_flatMap li P hsorted (fun l hl => (hinrows l hl).1) J htile]
    · apply planOut_from o L R Rp hR n plan Lps (i + 1) (by simpa using hlen) _ hrest
      intro t P' hP'
      have := hrows (t + 1) P' (by simpa using hP')
      rw [show i + (t + 1) = i + 1 + t by omega] at this
      exact this

end Dask.MergeAsof
