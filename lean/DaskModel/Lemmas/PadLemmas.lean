import DaskModel.Model.Structural
import DaskModel.Lemmas.StructuralLemmas
import Mathlib.Tactic.Ring
/-! `pad_reuse`: the pieces concatenated on each side are the periodic extension (C24). -/
namespace Dask.Structural
open Dask.Chunks

/-- the copy used for the `i`-th piece away from the array -/
def pieceAt {α} (mode : PadMode) (fwd bwd : List α) (i : Nat) : List α :=
  if mode = .wrap ∨ i % 2 = 1 then fwd else bwd

theorem pieceAt_length {α} (mode : PadMode) (fwd bwd : List α) (period : Nat) (hf : fwd.length = period)
    (hb : bwd.length = period) (i : Nat) : (pieceAt mode fwd bwd i).length = period := by
  unfold pieceAt; split <;> assumption

theorem list_eq_map_getD {α} (d : α) (l : List α) : l = (List.range l.length).map (fun t => l.getD t d) :=
  eq_map_range d l _ (fun _ _ => rfl)

/-- pieces after the array, flattened: position `t` away from the array comes from piece `t / period`, offset `t % period` -/
theorem piecesAway_after {α} (d : α) (mode : PadMode) (period : Nat) (hp : 0 < period) (fwd bwd : List α)
    (hf : fwd.length = period) (hb : bwd.length = period) :
    ∀ (fuel i rem : Nat), rem ≤ fuel →
      (piecesAway mode .after period fwd bwd fuel i rem).flatten
        = (List.range rem).map (fun t => (pieceAt mode fwd bwd (i + t / period)).getD (t % period) d)
  | 0, i, rem, h => by
    have : rem = 0 := by omega
    subst this; simp [piecesAway]
  | fuel + 1, i, rem, h => by
    unfold piecesAway
    by_cases h0 : rem = 0
    · subst h0; simp
    · simp only [h0, if_false]
      have hlen := pieceAt_length mode fwd bwd period hf hb i
      by_cases hlt : rem < period
      · simp only [hlt, if_true]
        have hz : rem - period = 0 := by omega
        have hrest : piecesAway mode .after period fwd bwd fuel (i + 1) (rem - period) = [] := by
          rw [hz]; cases fuel <;> simp [piecesAway]
        rw [hrest]
        simp only [List.flatten_cons, List.flatten_nil, List.append_nil]
        show (pieceAt mode fwd bwd i).take rem = _
        refine piece_eq d _ rem _ (by simp; omega) (fun t ht => ?_)
        rw [Nat.div_eq_of_lt (by omega), Nat.mod_eq_of_lt (by omega), Nat.add_zero]
        simp [List.getD_eq_getElem?_getD, List.getElem?_take, ht]
      · simp only [hlt, if_false]
        have ih := piecesAway_after d mode period hp fwd bwd hf hb fuel (i + 1) (rem - period) (by omega)
        simp only [List.flatten_cons]
        rw [ih]
        show (pieceAt mode fwd bwd i) ++ _ = _
        have hsplit : rem = period + (rem - period) := by omega
        conv => rhs; rw [hsplit, List.range_add, List.map_append, List.map_map]
        congr 1
        · conv => lhs; rw [list_eq_map_getD d (pieceAt mode fwd bwd i), hlen]
          apply List.map_congr_left
          intro t ht
          have ht : t < period := by simpa using ht
          rw [Nat.div_eq_of_lt ht, Nat.mod_eq_of_lt ht, Nat.add_zero]
        · apply List.map_congr_left
          intro t _
          simp only [Function.comp]
          rw [Nat.add_div_left _ hp, Nat.add_mod_left]
          congr 2
          omega


/-- pieces before the array, laid out along the axis: position `p` (from the left) is at distance
    `t = rem - 1 - p` from the array and comes from piece `t / period`, offset `period - 1 - t % period` -/
theorem piecesAway_before {α} (d : α) (mode : PadMode) (period : Nat) (hp : 0 < period) (fwd bwd : List α)
    (hf : fwd.length = period) (hb : bwd.length = period) :
    ∀ (fuel i rem : Nat), rem ≤ fuel →
      (piecesAway mode .before period fwd bwd fuel i rem).reverse.flatten
        = (List.range rem).map (fun p =>
            (pieceAt mode fwd bwd (i + (rem - 1 - p) / period)).getD (period - 1 - (rem - 1 - p) % period) d)
  | 0, i, rem, h => by
    have : rem = 0 := by omega
    subst this; simp [piecesAway]
  | fuel + 1, i, rem, h => by
    unfold piecesAway
    by_cases h0 : rem = 0
    · subst h0; simp
    · simp only [h0, if_false]
      have hlen := pieceAt_length mode fwd bwd period hf hb i
      by_cases hlt : rem < period
      · simp only [hlt, if_true]
        have hz : rem - period = 0 := by omega
        have hrest : piecesAway mode .before period fwd bwd fuel (i + 1) (rem - period) = [] := by
          rw [hz]; cases fuel <;> simp [piecesAway]
        rw [hrest]
        simp only [List.reverse_cons, List.reverse_nil, List.nil_append, List.flatten_cons, List.flatten_nil,
          List.append_nil]
        show (pieceAt mode fwd bwd i).drop (period - rem) = _
        refine piece_eq d _ rem _ (by simp; omega) (fun p hp' => ?_)
        rw [Nat.div_eq_of_lt (by omega), Nat.mod_eq_of_lt (by omega), Nat.add_zero]
        simp only [List.getD_eq_getElem?_getD, List.getElem?_drop]
        congr 2; omega
      · simp only [hlt, if_false]
        have ih := piecesAway_before d mode period hp fwd bwd hf hb fuel (i + 1) (rem - period) (by omega)
        simp only [List.reverse_cons, List.flatten_append, List.flatten_cons, List.flatten_nil, List.append_nil]
        rw [ih]
        show _ ++ (pieceAt mode fwd bwd i) = _
        have hsplit : rem = (rem - period) + period := by omega
        conv => rhs; rw [hsplit, List.range_add, List.map_append, List.map_map]
        congr 1
        · apply List.map_congr_left
          intro p hp'
          have hp' : p < rem - period := by simpa using hp'
          have e : rem - period + period - 1 - p = period + (rem - period - 1 - p) := by omega
          rw [e, Nat.add_div_left _ hp, Nat.add_mod_left]
          congr 2
          omega
        · conv => lhs; rw [list_eq_map_getD d (pieceAt mode fwd bwd i), hlen]
          apply List.map_congr_left
          intro p hp'
          have hp' : p < period := by simpa using hp'
          simp only [Function.comp]
          have e : rem - period + period - 1 - (rem - period + p) = period - 1 - p := by omega
          rw [e, Nat.div_eq_of_lt (by omega), Nat.mod_eq_of_lt (by omega), Nat.add_zero]
          congr 1; omega


theorem emod_decomp (x M r q : Int) (h : x = r + q * M) (h0 : 0 ≤ r) (h1 : r < M) : x % M = r := by
  subst h; rw [Int.add_mul_emod_self_right]; exact Int.emod_eq_of_lt h0 h1

/-- `j` is `2a` or `2a + 1` -/
theorem even_or_odd (j : Nat) : (∃ a, j = 2 * a ∧ j % 2 = 0) ∨ (∃ a, j = 2 * a + 1 ∧ j % 2 = 1) := by
  rcases Nat.mod_two_eq_zero_or_one j with h | h
  · left; exact ⟨j / 2, by omega, h⟩
  · right; exact ⟨j / 2, by omega, h⟩

theorem wrap_index (n : Nat) (hn : 0 < n) (j o : Nat) (ho : o < n) :
    padIndex .wrap n ((n : Int) + ((n * j + o : Nat) : Int)) = o
    ∧ padIndex .wrap n (-(1 + ((n * j + o : Nat) : Int))) = n - 1 - o := by
  unfold padIndex; simp only
  rw [Int.fmod_eq_emod_of_nonneg _ (by omega), Int.fmod_eq_emod_of_nonneg _ (by omega)]
  constructor
  · rw [emod_decomp _ (n : Int) (o : Int) ((j : Int) + 1) (by push_cast; ring) (by omega) (by omega)]
    simp
  · rw [emod_decomp _ (n : Int) ((n : Int) - 1 - o) (-(j : Int) - 1) (by push_cast; ring) (by omega) (by omega)]
    omega

theorem sym_index (n : Nat) (hn : 0 < n) (j o : Nat) (ho : o < n) :
    padIndex .symmetric n ((n : Int) + ((n * j + o : Nat) : Int)) = (if j % 2 = 1 then o else n - 1 - o)
    ∧ padIndex .symmetric n (-(1 + ((n * j + o : Nat) : Int))) = (if j % 2 = 1 then n - 1 - o else o) := by
  unfold padIndex; simp only
  rw [Int.fmod_eq_emod_of_nonneg _ (by omega), Int.fmod_eq_emod_of_nonneg _ (by omega)]
  rcases even_or_odd j with ⟨a, rfl, hj⟩ | ⟨a, rfl, hj⟩
  · simp only [hj, Nat.zero_ne_one, if_false]
    constructor
    · rw [emod_decomp _ (2 * (n : Int)) ((n : Int) + o) (a : Int) (by push_cast; ring) (by omega) (by omega)]
      have : ((n : Int) + o).toNat = n + o := by omega
      rw [this]; split <;> omega
    · rw [emod_decomp _ (2 * (n : Int)) (2 * (n : Int) - 1 - o) (-(a : Int) - 1) (by push_cast; ring) (by omega) (by omega)]
      have : (2 * (n : Int) - 1 - o).toNat = 2 * n - 1 - o := by omega
      rw [this]; split <;> omega
  · simp only [hj, if_true]
    constructor
    · rw [emod_decomp _ (2 * (n : Int)) (o : Int) ((a : Int) + 1) (by push_cast; ring) (by omega) (by omega)]
      simp only [Int.toNat_natCast]; split <;> omega
    · rw [emod_decomp _ (2 * (n : Int)) ((n : Int) - 1 - o) (-(a : Int) - 1) (by push_cast; ring) (by omega) (by omega)]
      have : ((n : Int) - 1 - o).toNat = n - 1 - o := by omega
      rw [this]; split <;> omega

theorem refl_index (n : Nat) (hn : 2 ≤ n) (j o : Nat) (ho : o < n - 1) :
    padIndex .reflect n ((n : Int) + (((n - 1) * j + o : Nat) : Int)) = (if j % 2 = 1 then o + 1 else n - 2 - o)
    ∧ padIndex .reflect n (-(1 + (((n - 1) * j + o : Nat) : Int))) = (if j % 2 = 1 then n - 2 - o else o + 1) := by
  unfold padIndex
  have h1 : ¬ n ≤ 1 := by omega
  simp only [h1, if_false]
  rw [Int.fmod_eq_emod_of_nonneg _ (by omega), Int.fmod_eq_emod_of_nonneg _ (by omega)]
  obtain ⟨P, hP⟩ : ∃ P : Nat, n = P + 1 := ⟨n - 1, by omega⟩
  subst hP
  simp only [Nat.add_sub_cancel] at ho ⊢
  rcases even_or_odd j with ⟨a, rfl, hj⟩ | ⟨a, rfl, hj⟩
  · simp only [hj, Nat.zero_ne_one, if_false]
    constructor
    · by_cases hlast : o + 1 < P
      · rw [emod_decomp _ (2 * ((P + 1 : Nat) : Int) - 2) ((P : Int) + 1 + o) (a : Int) (by push_cast; ring) (by omega) (by push_cast; omega)]
        have : ((P : Int) + 1 + o).toNat = P + 1 + o := by omega
        rw [this]; split <;> omega
      · have ho' : (o : Int) = (P : Int) - 1 := by omega
        rw [emod_decomp _ (2 * ((P + 1 : Nat) : Int) - 2) 0 ((a : Int) + 1) (by push_cast; rw [ho']; ring) (by omega) (by push_cast; omega)]
        simp only [Int.toNat_zero]; split <;> omega
    · rw [emod_decomp _ (2 * ((P + 1 : Nat) : Int) - 2) (2 * (P : Int) - 1 - o) (-(a : Int) - 1) (by push_cast; ring) (by omega) (by push_cast; omega)]
      have : (2 * (P : Int) - 1 - o).toNat = 2 * P - 1 - o := by omega
      rw [this]; split <;> omega
  · simp only [hj, if_true]
    constructor
    · rw [emod_decomp _ (2 * ((P + 1 : Nat) : Int) - 2) ((o : Int) + 1) ((a : Int) + 1) (by push_cast; ring) (by omega) (by push_cast; omega)]
      have : ((o : Int) + 1).toNat = o + 1 := by omega
      rw [this]; split <;> omega
    · rw [emod_decomp _ (2 * ((P + 1 : Nat) : Int) - 2) ((P : Int) - 1 - o) (-(a : Int) - 1) (by push_cast; ring) (by omega) (by push_cast; omega)]
      have : ((P : Int) - 1 - o).toNat = P - 1 - o := by omega
      rw [this]; split <;> omega



theorem getD_reverse {α} (d : α) (l : List α) (i : Nat) (hi : i < l.length) :
    l.reverse.getD i d = l.getD (l.length - 1 - i) d := by
  rw [List.getD_eq_getElem?_getD, List.getD_eq_getElem?_getD, List.getElem?_reverse hi]

theorem getD_drop {α} (d : α) (l : List α) (k i : Nat) : (l.drop k).getD i d = l.getD (k + i) d := by
  simp [List.getD_eq_getElem?_getD, List.getElem?_drop]

theorem getD_take {α} (d : α) (l : List α) (k i : Nat) (hi : i < k) : (l.take k).getD i d = l.getD i d := by
  simp [List.getD_eq_getElem?_getD, List.getElem?_take, hi]

theorem padCopies_lengths {α} (mode : PadMode) (side : Side) (xs : List α) (hn : 0 < xs.length) :
    0 < (padCopies mode side xs).1 ∧ (padCopies mode side xs).2.1.length = (padCopies mode side xs).1
      ∧ (padCopies mode side xs).2.2.length = (padCopies mode side xs).1 := by
  unfold padCopies
  cases mode <;> simp only
  · split
    · rename_i h1; simp [h1]
    · cases side <;> simp <;> omega
  · simp; omega
  · simp; omega

/-- the element `t` positions after the array -/
theorem after_elem {α} (d : α) (mode : PadMode) (xs : List α) (hn : 0 < xs.length) (t : Nat) :
    (pieceAt mode (padCopies mode .after xs).2.1 (padCopies mode .after xs).2.2 (t / (padCopies mode .after xs).1)).getD
        (t % (padCopies mode .after xs).1) d
      = xs.getD (padIndex mode xs.length ((xs.length : Int) + (t : Int))) d := by
  obtain ⟨hP, _, _⟩ := padCopies_lengths mode .after xs hn
  generalize hj : t / (padCopies mode .after xs).1 = j
  generalize ho : t % (padCopies mode .after xs).1 = o
  have ht : t = (padCopies mode .after xs).1 * j + o := by rw [← hj, ← ho]; exact (Nat.div_add_mod _ _).symm
  have holt : o < (padCopies mode .after xs).1 := by rw [← ho]; exact Nat.mod_lt _ hP
  cases mode
  · -- reflect
    by_cases h1 : xs.length = 1
    · simp only [padCopies, h1, if_true] at ht holt ⊢
      have : o = 0 := by omega
      subst this
      have : pieceAt PadMode.reflect xs xs j = xs := by unfold pieceAt; split <;> rfl
      rw [this]
      simp [padIndex]
    · simp only [padCopies, h1, if_false] at ht holt ⊢
      have hidx := (refl_index xs.length (by omega) j o holt).1
      rw [ht]; rw [hidx]
      unfold pieceAt
      by_cases hodd : j % 2 = 1
      · simp only [hodd, or_true, if_true, getD_drop]; congr 1; omega
      · simp only [hodd, or_false, reduceCtorEq, if_false]
        rw [getD_reverse d _ o (by simp; omega), getD_take d _ _ _ (by simp; omega)]
        congr 1; simp; omega
  · -- symmetric
    simp only [padCopies] at ht holt ⊢
    have hidx := (sym_index xs.length hn j o holt).1
    rw [ht, hidx]
    unfold pieceAt
    by_cases hodd : j % 2 = 1
    · simp [hodd]
    · simp only [hodd, or_false, reduceCtorEq, if_false]
      rw [getD_reverse d _ o holt]
  · -- wrap
    simp only [padCopies] at ht holt ⊢
    have hidx := (wrap_index xs.length hn j o holt).1
    rw [ht, hidx]
    simp [pieceAt]

/-- the element at distance `t` before the array -/
theorem before_elem {α} (d : α) (mode : PadMode) (xs : List α) (hn : 0 < xs.length) (t : Nat) :
    (pieceAt mode (padCopies mode .before xs).2.1 (padCopies mode .before xs).2.2 (t / (padCopies mode .before xs).1)).getD
        ((padCopies mode .before xs).1 - 1 - t % (padCopies mode .before xs).1) d
      = xs.getD (padIndex mode xs.length (-(1 + (t : Int)))) d := by
  obtain ⟨hP, _, _⟩ := padCopies_lengths mode .before xs hn
  generalize hj : t / (padCopies mode .before xs).1 = j
  generalize ho : t % (padCopies mode .before xs).1 = o
  have ht : t = (padCopies mode .before xs).1 * j + o := by rw [← hj, ← ho]; exact (Nat.div_add_mod _ _).symm
  have holt : o < (padCopies mode .before xs).1 := by rw [← ho]; exact Nat.mod_lt _ hP
  cases mode
  · by_cases h1 : xs.length = 1
    · simp only [padCopies, h1, if_true] at ht holt ⊢
      have : o = 0 := by omega
      subst this
      have : pieceAt PadMode.reflect xs xs j = xs := by unfold pieceAt; split <;> rfl
      rw [this]
      simp [padIndex]
    · simp only [padCopies, h1, if_false] at ht holt ⊢
      have hidx := (refl_index xs.length (by omega) j o holt).2
      rw [ht, hidx]
      unfold pieceAt
      by_cases hodd : j % 2 = 1
      · simp only [hodd, or_true, if_true]
        rw [getD_take d _ _ _ (by omega)]
        rfl
      · simp only [hodd, or_false, reduceCtorEq, if_false]
        rw [getD_reverse d _ _ (by simp; omega), getD_drop]
        congr 1; simp; omega
  · simp only [padCopies] at ht holt ⊢
    have hidx := (sym_index xs.length hn j o holt).2
    rw [ht, hidx]
    unfold pieceAt
    by_cases hodd : j % 2 = 1
    · simp [hodd]
    · simp only [hodd, or_false, reduceCtorEq, if_false]
      rw [getD_reverse d _ _ (by omega)]
      congr 1; omega
  · simp only [padCopies] at ht holt ⊢
    have hidx := (wrap_index xs.length hn j o holt).2
    rw [ht, hidx]
    simp [pieceAt]


theorem padSide_after {α} [Inhabited α] (mode : PadMode) (xs : List α) (hn : 0 < xs.length) (r : Nat) :
    padSide mode .after xs r
      = (List.range r).map (fun (q : Nat) => xs.getD (padIndex mode xs.length ((xs.length : Int) + (q : Int))) default) := by
  obtain ⟨hP, hf, hb⟩ := padCopies_lengths mode .after xs hn
  unfold padSide
  simp only
  rw [piecesAway_after default mode _ hP _ _ hf hb r 0 r (Nat.le_refl _)]
  apply List.map_congr_left
  intro t _
  rw [Nat.zero_add]
  exact after_elem default mode xs hn t

theorem padSide_before {α} [Inhabited α] (mode : PadMode) (xs : List α) (hn : 0 < xs.length) (l : Nat) :
    padSide mode .before xs l
      = (List.range l).map (fun (p : Nat) => xs.getD (padIndex mode xs.length ((p : Int) - (l : Int))) default) := by
  obtain ⟨hP, hf, hb⟩ := padCopies_lengths mode .before xs hn
  unfold padSide
  simp only
  rw [piecesAway_before default mode _ hP _ _ hf hb l 0 l (Nat.le_refl _)]
  apply List.map_congr_left
  intro p hp
  have hp : p < l := by simpa using hp
  rw [Nat.zero_add, before_elem default mode xs hn (l - 1 - p)]
  congr 2
  omega


end Dask.Structural
