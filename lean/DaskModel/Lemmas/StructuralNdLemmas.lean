import DaskModel.Lemmas.StructuralOpsLemmas
/-! n-d chunked arrays: `locate`, transpose with a permutation of the axes (C24). -/
namespace Dask.Structural
open Dask.Chunks

theorem IsPerm_of_isPermB {axes : List Nat} (h : isPermB axes = true) : IsPerm axes := by
  unfold isPermB at h
  simp only [Bool.and_eq_true, decide_eq_true_eq, List.all_eq_true, List.mem_range, List.contains_iff_mem] at h
  exact ⟨h.1.1, fun a => ⟨fun ha => h.1.2 a ha, fun ha => h.2 a ha⟩⟩


theorem locate_length : ∀ (cs : List (List Nat)) (idx : List Nat) (bs os : List Nat), locate cs idx = some (bs, os) →
    bs.length = cs.length ∧ os.length = cs.length ∧ idx.length = cs.length
  | [], [], bs, os, h => by simp [locate] at h; obtain ⟨rfl, rfl⟩ := h; simp
  | [], _ :: _, _, _, h => by simp [locate] at h
  | _ :: _, [], _, _, h => by simp [locate] at h
  | c :: cs, p :: ps, bs, os, h => by
    simp only [locate] at h
    cases h1 : blockOf c p with
    | none => simp [h1] at h
    | some bo =>
      obtain ⟨b, o⟩ := bo
      cases h2 : locate cs ps with
      | none => simp [h1, h2] at h
      | some r =>
        obtain ⟨bs', os'⟩ := r
        simp [h1, h2] at h
        obtain ⟨rfl, rfl⟩ := h
        obtain ⟨i1, i2, i3⟩ := locate_length cs ps bs' os' h2
        simp [i1, i2, i3]

theorem locate_get : ∀ (cs : List (List Nat)) (idx : List Nat) (bs os : List Nat), locate cs idx = some (bs, os) →
    ∀ a, a < cs.length → blockOf (cs.getD a []) (idx.getD a 0) = some (bs.getD a 0, os.getD a 0)
  | [], [], _, _, _, a, ha => by simp at ha
  | [], _ :: _, _, _, h, _, _ => by simp [locate] at h
  | _ :: _, [], _, _, h, _, _ => by simp [locate] at h
  | c :: cs, p :: ps, bs, os, h, a, ha => by
    simp only [locate] at h
    cases h1 : blockOf c p with
    | none => simp [h1] at h
    | some bo =>
      obtain ⟨b, o⟩ := bo
      cases h2 : locate cs ps with
      | none => simp [h1, h2] at h
      | some r =>
        obtain ⟨bs', os'⟩ := r
        simp [h1, h2] at h
        obtain ⟨rfl, rfl⟩ := h
        cases a with
        | zero => simpa using h1
        | succ a =>
          have := locate_get cs ps bs' os' h2 a (by simpa using ha)
          simpa using this

/-- `locate` of per-axis data assembled from any list of axes -/
theorem locate_permute (cs : List (List Nat)) (idx bs os : List Nat) (h : locate cs idx = some (bs, os)) :
    ∀ (axes : List Nat), (∀ a ∈ axes, a < cs.length) →
    locate (permuteBy [] axes cs) (permuteBy 0 axes idx) = some (permuteBy 0 axes bs, permuteBy 0 axes os)
  | [], _ => rfl
  | a :: axes, ha => by
    have ih := locate_permute cs idx bs os h axes (fun x hx => ha x (by simp [hx]))
    unfold permuteBy at ih ⊢
    simp only [List.map_cons, locate]
    rw [locate_get cs idx bs os h a (ha a (by simp)), ih]

theorem unpermute_permute (axes : List Nat) (hp : IsPerm axes) (X : List Nat) (hX : X.length = axes.length) :
    unpermuteBy axes (permuteBy 0 axes X) = X := by
  apply List.ext_getElem
  · simp [unpermuteBy, hX]
  · intro a h1 h2
    simp only [unpermuteBy, List.length_map, List.length_range] at h1
    simp only [unpermuteBy, List.getElem_map, List.getElem_range]
    have hmem : a ∈ axes := (hp.2 a).2 h1
    have hi := List.idxOf_lt_length_of_mem hmem
    unfold permuteBy
    rw [List.getD_eq_getElem?_getD, List.getElem?_map, List.getElem?_eq_getElem hi]
    simp only [Option.map_some, Option.getD_some, List.getElem_idxOf hi]
    rw [List.getD_eq_getElem?_getD, List.getElem?_eq_getElem h2]; rfl

theorem NArr.transpose_read {α} (a : NArr α) (axes : List Nat) (hp : IsPerm axes) (hn : axes.length = a.chunks.length)
    (idx : List Nat) (hi : idx.length = a.chunks.length) :
    (a.transpose axes).read (permuteBy 0 axes idx) = a.read idx := by
  unfold NArr.read NArr.transpose
  simp only
  cases h : locate a.chunks idx with
  | none =>
    -- some axis position is out of range: the permuted lookup fails as well
    simp only [Option.map_none]
    cases h2 : locate (permuteBy [] axes a.chunks) (permuteBy 0 axes idx) with
    | none => rfl
    | some r =>
      exfalso
      obtain ⟨B, O⟩ := r
      -- every axis is located in the permuted lookup, hence in the original one
      have hall : ∀ k, k < a.chunks.length → ∃ bo, blockOf (a.chunks.getD k []) (idx.getD k 0) = some bo := by
        intro k hk
        have hmem : k ∈ axes := (hp.2 k).2 (by omega)
        have hj := List.idxOf_lt_length_of_mem hmem
        have hlen : (permuteBy [] axes a.chunks).length = axes.length := by simp [permuteBy]
        have := locate_get _ _ B O h2 (axes.idxOf k) (by rw [hlen]; exact hj)
        unfold permuteBy at this
        rw [List.getD_eq_getElem?_getD, List.getElem?_map, List.getElem?_eq_getElem hj,
          List.getD_eq_getElem?_getD (l := List.map _ axes), List.getElem?_map, List.getElem?_eq_getElem hj] at this
        simp only [Option.map_some, Option.getD_some, List.getElem_idxOf hj] at this
        exact ⟨_, this⟩
      -- but then the original lookup succeeds
      have : ∀ (cs : List (List Nat)) (ix : List Nat), ix.length = cs.length →
          (∀ k, k < cs.length → ∃ bo, blockOf (cs.getD k []) (ix.getD k 0) = some bo) → ∃ r, locate cs ix = some r := by
        intro cs
        induction cs with
        | nil => intro ix hl _; cases ix with
          | nil => exact ⟨_, rfl⟩
          | cons _ _ => simp at hl
        | cons c cs ih =>
          intro ix hl hk
          cases ix with
          | nil => simp at hl
          | cons p ps =>
            obtain ⟨bo, hbo⟩ := hk 0 (by simp)
            obtain ⟨r, hr⟩ := ih ps (by simpa using hl) (fun k hk' => by
              have := hk (k + 1) (by simp; omega)
              simpa using this)
            simp only [List.getD_cons_zero] at hbo
            obtain ⟨b, o⟩ := bo
            obtain ⟨rb, ro⟩ := r
            exact ⟨(b :: rb, o :: ro), by simp [locate, hbo, hr]⟩
      obtain ⟨r, hr⟩ := this a.chunks idx hi hall
      rw [h] at hr; cases hr
  | some r =>
    obtain ⟨bs, os⟩ := r
    obtain ⟨l1, l2, _⟩ := locate_length _ _ _ _ h
    rw [locate_permute a.chunks idx bs os h axes (fun x hx => by rw [← hn]; exact (hp.2 x).1 hx)]
    simp only [Option.map_some]
    rw [unpermute_permute axes hp bs (by rw [l1, hn]), unpermute_permute axes hp os (by rw [l2, hn])]


theorem locate_some : ∀ (cs : List (List Nat)) (ix : List Nat), ix.length = cs.length →
    (∀ k, k < cs.length → ∃ bo, blockOf (cs.getD k []) (ix.getD k 0) = some bo) → ∃ r, locate cs ix = some r
  | [], [], _, _ => ⟨_, rfl⟩
  | [], _ :: _, hl, _ => by simp at hl
  | _ :: _, [], hl, _ => by simp at hl
  | c :: cs, p :: ps, hl, hk => by
    obtain ⟨bo, hbo⟩ := hk 0 (by simp)
    obtain ⟨r, hr⟩ := locate_some cs ps (by simpa using hl) (fun k hk' => by
      have := hk (k + 1) (by simp; omega)
      simpa using this)
    simp only [List.getD_cons_zero] at hbo
    obtain ⟨b, o⟩ := bo
    obtain ⟨rb, ro⟩ := r
    exact ⟨(b :: rb, o :: ro), by simp [locate, hbo, hr]⟩

theorem NArr.read_ofFn {α} (chunks : List (List Nat)) (A : List Nat → α) (idx : List Nat) (hl : idx.length = chunks.length)
    (hin : ∀ k, k < chunks.length → idx.getD k 0 < sum (chunks.getD k [])) :
    (NArr.ofFn chunks A).read idx = some (A idx) := by
  obtain ⟨r, hr⟩ := locate_some chunks idx hl (fun k hk => by
    obtain ⟨b, o, h⟩ := blockOf_some (hin k hk); exact ⟨_, h⟩)
  obtain ⟨bs, os⟩ := r
  unfold NArr.read NArr.ofFn
  simp only [hr, Option.map_some]
  congr 2
  apply List.ext_getElem
  · simp [hl]
  · intro k h1 h2
    simp only [List.length_map, List.length_range] at h1
    simp only [List.getElem_map, List.getElem_range]
    obtain ⟨_, _, _, hs⟩ := blockOf_spec (locate_get chunks idx bs os hr k h1)
    rw [hs, List.getD_eq_getElem?_getD, List.getElem?_eq_getElem h2]; rfl


end Dask.Structural
