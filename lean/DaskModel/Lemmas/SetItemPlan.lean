import DaskModel.Lemmas.SliceLoop
import DaskModel.Model.SetItem
/-! Counting and tiling lemmas for the per-block planning of `setitem_array`. -/
namespace Dask.SetItem
open Dask.Slice1D

theorem ceilDivPos_step (x step : Int) (hs : 0 < step) : ceilDivPos (x + step) step = ceilDivPos x step + 1 := by
  unfold ceilDivPos
  have h1 : (x + step) % step = x % step := Int.add_emod_right x step
  have h2 : (x + step) / step = x / step + 1 := by
    have := Int.add_mul_ediv_right x 1 (by omega : step ≠ 0)
    simpa using this
  rw [h1, h2]
  split <;> omega

theorem ceilDivPos_small (x step : Int) (h0 : 0 < x) (h1 : x ≤ step) : ceilDivPos x step = 1 := by
  unfold ceilDivPos
  by_cases hx : x = step
  · subst hx
    have : x % x = 0 := Int.emod_self
    have h2 : x / x = 1 := Int.ediv_self (by omega)
    simp [this, h2]
  · have h2 : x / step = 0 := Int.ediv_eq_zero_of_lt (by omega) (by omega)
    have h3 : x % step = x := Int.emod_eq_of_lt (by omega) (by omega)
    rw [h2, h3]
    have : ¬ x = 0 := by omega
    simp [this]

theorem ceilDivPos_zero (step : Int) : ceilDivPos 0 step = 0 := by
  simp [ceilDivPos]

/-- `len(range(a, b, step))` is the `divmod` expression used throughout `setitem_array` -/
theorem rangeUp_length (b step : Int) (hs : 0 < step) :
    ∀ a, a ≤ b → ((rangeUp a b step).length : Int) = ceilDivPos (b - a) step := by
  apply rangeUp_induction hs b
  · intro a h1 h2
    have : a = b := by omega
    subst this
    rw [rangeUp_nil (by omega)]
    simp [ceilDivPos_zero]
  · intro a h ih _
    rw [rangeUp_unfold a b step hs]
    simp only [h, if_true, List.length_cons]
    by_cases h2 : a + step ≤ b
    · have := ih h2
      have e : b - a = (b - (a + step)) + step := by omega
      rw [e, ceilDivPos_step _ _ hs, ← this]
      simp
    · rw [rangeUp_nil (by omega)]
      rw [ceilDivPos_small _ _ (by omega) (by omega)]
      simp


/-- the first selected position at or after `c` (positions are `start, start+step, …`) -/
def firstGe (start step c : Int) : Int := if start - c < 0 then c + (start - c) % step else start

theorem firstGe_ge (start step c : Int) (hs : 0 < step) : c ≤ firstGe start step c ∧ start ≤ firstGe start step c := by
  unfold firstGe
  split
  · have := Int.emod_nonneg (start - c) (by omega : step ≠ 0)
    omega
  · omega

theorem firstGe_lt (start step c : Int) (hs : 0 < step) (h : start < c) : firstGe start step c < c + step := by
  unfold firstGe
  have : start - c < 0 := by omega
  simp only [this, if_true]
  have := Int.emod_lt_of_pos (start - c) hs
  omega

/-- `firstGe` stays in the residue class of `start` -/
theorem firstGe_congr (start step c d : Int) : (firstGe start step c - d) % step = (start - d) % step := by
  unfold firstGe
  split
  · have h := Int.emod_def (start - c) step
    have e : c + (start - c) % step - d = (start - d) + step * (-((start - c) / step)) := by
      rw [h, Int.mul_neg]; omega
    rw [e, Int.add_mul_emod_self_left]
  · rfl

/-- moving the threshold from `c` to `c' ≥ c`: the first selected position `≥ c'` is found from the first one `≥ c` -/
theorem firstGe_step (start step c c' : Int) (hs : 0 < step) (hc : c ≤ c') :
    firstGe start step c' = if firstGe start step c < c' then c' + (firstGe start step c - c') % step else firstGe start step c := by
  have hge := firstGe_ge start step c hs
  split
  · rename_i hlt
    rw [firstGe_congr]
    unfold firstGe
    have : start - c' < 0 := by omega
    simp [this]
  · rename_i hnl
    by_cases h1 : start < c
    · have hlt := firstGe_lt start step c hs h1
      -- firstGe c ≥ c' > start, within one step above c ≤ c'
      have hcong := firstGe_congr start step c c'
      have : (firstGe start step c - c') % step = firstGe start step c - c' :=
        Int.emod_eq_of_lt (by omega) (by omega)
      rw [this] at hcong
      have hs' : start - c' < 0 := by omega
      conv => lhs; unfold firstGe
      simp only [hs', if_true]
      omega
    · have e : firstGe start step c = start := by unfold firstGe; simp; omega
      rw [e] at hnl ⊢
      unfold firstGe
      have : ¬ start - c' < 0 := by omega
      simp [this]

/-- the positions selected inside the block `[loc0, loc1)` -/
def blockPositions (start stop step loc0 loc1 : Int) : List Int :=
  rangeUp (firstGe start step loc0) (min stop loc1) step

theorem pyIndices_ofInts_pos' {n : Nat} {a b step : Int} (hs : 0 < step) (ha : 0 ≤ a) (hb : 0 ≤ b) :
    pyIndices n (PSlice.ofInts a b step) = some (min a n, min b n, step) := by
  have hs0 : ¬ step = 0 := by omega
  have hs1 : ¬ step < 0 := by omega
  have ha0 : ¬ a < 0 := by omega
  have hb0 : ¬ b < 0 := by omega
  simp [pyIndices, PSlice.ofInts, Option.getD, hs0, hs1, ha0, hb0]

/-- **the slice branch of `setitem_array`, one block**: non-overlap means nothing of the slice falls in the
    block; otherwise the block-local slice reads exactly the selected positions of the block, its size is
    their number and `n_preceding` is the number of selected positions before the block. -/
theorem blockSlice_spec (start stop step loc0 loc1 : Int) (hs : 0 < step) (h0 : 0 ≤ start) (hss : start ≤ stop)
    (hl0 : 0 ≤ loc0) (hl : loc0 ≤ loc1) :
    match blockSlice start stop step loc0 loc1 with
    | none => blockPositions start stop step loc0 loc1 = []
    | some b =>
      pySliceIdx (loc1 - loc0).toNat (PSlice.ofInts b.bstart b.bstop step)
          = some ((blockPositions start stop step loc0 loc1).map (fun p => p - loc0)) ∧
      b.size = ((blockPositions start stop step loc0 loc1).length : Int) ∧ 0 < b.size ∧
      b.npre = ((rangeUp start (min stop loc0) step).length : Int) := by
  have hfg := firstGe_ge start step loc0 hs
  have hbstart : (if start - loc0 < 0 then (start - loc0) % step else start - loc0) = firstGe start step loc0 - loc0 := by
    unfold firstGe; split <;> omega
  have hbstop : (if stop < loc1 then loc1 - loc0 - (loc1 - stop) else loc1 - loc0) = min stop loc1 - loc0 := by
    split <;> omega
  unfold blockSlice
  simp only [hbstart, hbstop]
  by_cases hov : firstGe start step loc0 - loc0 ≥ min stop loc1 - loc0
  · simp only [hov, if_true]
    unfold blockPositions
    exact rangeUp_nil (by omega)
  · simp only [hov, if_false]
    rw [pyIndices_ofInts_pos' hs h0 (by omega)]
    simp only
    have hnat : (((loc1 - loc0).toNat : Nat) : Int) = loc1 - loc0 := by omega
    refine ⟨?_, ?_, ?_, ?_⟩
    · rw [pySliceIdx_ofInts_pos hs (by omega) (by omega) (by omega) (by omega)]
      unfold blockPositions
      have := rangeUp_shift (-loc0) (min stop loc1) step hs (firstGe start step loc0)
      have e : (fun p : Int => p - loc0) = (fun p => p + -loc0) := by funext p; omega
      rw [e, this]
      congr 2 <;> omega
    · unfold blockPositions
      rw [rangeUp_length _ _ hs _ (by omega)]
      congr 1; omega
    · have hlen := rangeUp_length (min stop loc1) step hs (firstGe start step loc0) (by omega)
      have e : min stop loc1 - loc0 - (firstGe start step loc0 - loc0) = min stop loc1 - firstGe start step loc0 := by omega
      rw [e, ← hlen]
      rw [rangeUp_unfold _ _ _ hs]
      have : firstGe start step loc0 < min stop loc1 := by omega
      simp [this]
    · have hl0n : ((loc0.toNat : Nat) : Int) = loc0 := by omega
      rw [hl0n]
      by_cases hsl : start ≤ loc0
      · have e1 : min start loc0 = start := by omega
        rw [e1, rangeUp_length _ _ hs _ (by omega)]
      · have e1 : min start loc0 = loc0 := by omega
        have e2 : min stop loc0 = loc0 := by omega
        rw [e1, e2, rangeUp_nil (by omega)]
        simp [ceilDivPos_zero]

/-- **tiling**: over the blocks of any chunk list, the per-block selections concatenate to the whole
    parsed slice — every selected position is assigned in exactly one block, in order. -/
theorem blockPositions_tile (start stop step : Int) (hs : 0 < step) :
    ∀ (ls : List Nat) (acc : Int),
      ((locationsFrom acc ls).flatMap fun (l0, l1) => blockPositions start stop step l0 l1)
        = rangeUp (firstGe start step acc) (min stop (acc + ((ls.sum : Nat) : Int))) step := by
  intro ls
  induction ls with
  | nil =>
    intro acc
    have := firstGe_ge start step acc hs
    simp only [locationsFrom, List.flatMap_nil, List.sum_nil]
    rw [rangeUp_nil]; simp; omega
  | cons l ls ih =>
    intro acc
    have hsum : (((l :: ls).sum : Nat) : Int) = (l : Int) + ((ls.sum : Nat) : Int) := by simp
    simp only [locationsFrom, List.flatMap_cons]
    rw [ih (acc + l), hsum]
    unfold blockPositions
    have hstep := firstGe_step start step acc (acc + l) hs (by omega)
    have e3 : acc + ↑l + ((ls.sum : Nat) : Int) = acc + (↑l + ((ls.sum : Nat) : Int)) := by omega
    rw [e3]
    by_cases hlt : firstGe start step acc < acc + l
    · simp only [hlt, if_true] at hstep
      have hsplit := rangeUp_split (min stop (acc + (↑l + ((ls.sum : Nat) : Int)))) step (acc + l) hs
        (firstGe start step acc) hlt
      rw [hsplit, hstep]
      congr 2
      omega
    · simp only [hlt, if_false] at hstep
      rw [hstep, rangeUp_nil (by omega), List.nil_append]

/-! ### integer-array index -/

theorem mem_valueIndicesFrom (l0 l1 : Int) : ∀ (index : List Int) (k0 k : Nat),
    k ∈ valueIndicesFrom k0 l0 l1 index ↔ k0 ≤ k ∧ ∃ v, index[k - k0]? = some v ∧ l0 ≤ v ∧ v < l1 := by
  intro index
  induction index with
  | nil => intro k0 k; simp [valueIndicesFrom]
  | cons v vs ih =>
    intro k0 k
    simp only [valueIndicesFrom]
    by_cases hv : l0 ≤ v ∧ v < l1
    · simp only [hv, and_self, if_true, List.mem_cons, ih]
      constructor
      · rintro (rfl | ⟨h1, w, hw, h2⟩)
        · exact ⟨Nat.le_refl _, v, by simp, hv⟩
        · refine ⟨by omega, w, ?_, h2⟩
          have : k - k0 = (k - (k0 + 1)) + 1 := by omega
          rw [this]; simpa using hw
      · rintro ⟨h1, w, hw, h2⟩
        by_cases hk : k = k0
        · left; exact hk
        · right
          refine ⟨by omega, w, ?_, h2⟩
          have : k - k0 = (k - (k0 + 1)) + 1 := by omega
          rw [this] at hw; simpa using hw
    · simp only [hv, if_false, ih]
      constructor
      · rintro ⟨h1, w, hw, h2⟩
        refine ⟨by omega, w, ?_, h2⟩
        have : k - k0 = (k - (k0 + 1)) + 1 := by omega
        rw [this]; simpa using hw
      · rintro ⟨h1, w, hw, h2⟩
        by_cases hk : k = k0
        · subst hk
          simp at hw
          subst hw
          exact absurd h2 hv
        · refine ⟨by omega, w, ?_, h2⟩
          have : k - k0 = (k - (k0 + 1)) + 1 := by omega
          rw [this] at hw; simpa using hw

/-- position `k` of the index array is sent to the block `[l0, l1)` exactly when `index[k]` lies in it -/
theorem mem_valueIndicesInt (index : List Int) (l0 l1 : Int) (k : Nat) :
    k ∈ valueIndicesInt index l0 l1 ↔ ∃ v, index[k]? = some v ∧ l0 ≤ v ∧ v < l1 := by
  unfold valueIndicesInt
  rw [mem_valueIndicesFrom]
  simp

theorem valueIndicesFrom_sorted (l0 l1 : Int) : ∀ (index : List Int) (k0 : Nat),
    List.Pairwise (fun a b => a < b) (valueIndicesFrom k0 l0 l1 index) := by
  intro index
  induction index with
  | nil => intro k0; simp [valueIndicesFrom]
  | cons v vs ih =>
    intro k0
    simp only [valueIndicesFrom]
    split
    · rw [List.pairwise_cons]
      refine ⟨?_, ih (k0 + 1)⟩
      intro k hk
      have := (mem_valueIndicesFrom l0 l1 vs (k0 + 1) k).mp hk
      omega
    · exact ih (k0 + 1)

/-- the block's index array is the index array read at the value positions, made block-local -/
theorem blockIndexInt_eq (l0 l1 : Int) : ∀ (index : List Int) (k0 : Nat) (pre : List Int), pre.length = k0 →
    blockIndexInt index l0 l1
      = (valueIndicesFrom k0 l0 l1 index).filterMap (fun k => ((pre ++ index)[k]?).map (fun v => v - l0)) := by
  intro index
  induction index with
  | nil => intro k0 pre _; simp [blockIndexInt, valueIndicesFrom]
  | cons v vs ih =>
    intro k0 pre hpre
    have happ : pre ++ v :: vs = (pre ++ [v]) ++ vs := by simp
    have ih' := ih (k0 + 1) (pre ++ [v]) (by simp [hpre])
    rw [← happ] at ih'
    simp only [valueIndicesFrom]
    by_cases hv : l0 ≤ v ∧ v < l1
    · simp only [hv, and_self, if_true, List.filterMap_cons]
      have hget : (pre ++ v :: vs)[k0]? = some v := by rw [← hpre]; simp
      simp only [hget, Option.map_some]
      rw [← ih']
      simp [blockIndexInt, hv]
    · simp only [hv, if_false]
      rw [← ih']
      have : (decide (l0 ≤ v) && decide (v < l1)) = false := by
        simp only [Bool.and_eq_false_imp, decide_eq_true_eq, decide_eq_false_iff_not]
        intro h1 h2; exact hv ⟨h1, h2⟩
      simp [blockIndexInt, this]

/-! ### chunk locations tile the axis -/

theorem locationsFrom_cover : ∀ (ls : List Nat) (acc v : Int), acc ≤ v → v < acc + ((ls.sum : Nat) : Int) →
    ∃ p ∈ locationsFrom acc ls, p.1 ≤ v ∧ v < p.2 := by
  intro ls
  induction ls with
  | nil => intro acc v h1 h2; simp at h2; omega
  | cons l ls ih =>
    intro acc v h1 h2
    have hsum : (((l :: ls).sum : Nat) : Int) = (l : Int) + ((ls.sum : Nat) : Int) := by simp
    rw [hsum] at h2
    by_cases hv : v < acc + l
    · exact ⟨(acc, acc + l), by simp [locationsFrom], h1, hv⟩
    · obtain ⟨p, hp, h⟩ := ih (acc + l) v (by omega) (by omega)
      exact ⟨p, by simp [locationsFrom, hp], h⟩

theorem locationsFrom_ge : ∀ (ls : List Nat) (acc : Int), ∀ p ∈ locationsFrom acc ls, acc ≤ p.1 ∧ p.1 ≤ p.2 := by
  intro ls
  induction ls with
  | nil => intro acc p hp; simp [locationsFrom] at hp
  | cons l ls ih =>
    intro acc p hp
    simp only [locationsFrom, List.mem_cons] at hp
    rcases hp with rfl | hp
    · exact ⟨Int.le_refl _, by simp only; omega⟩
    · have := ih (acc + l) p hp; omega

/-- blocks are pairwise disjoint, in increasing order -/
theorem locationsFrom_disjoint : ∀ (ls : List Nat) (acc : Int),
    List.Pairwise (fun p q : Int × Int => p.2 ≤ q.1) (locationsFrom acc ls) := by
  intro ls
  induction ls with
  | nil => intro acc; simp [locationsFrom]
  | cons l ls ih =>
    intro acc
    simp only [locationsFrom, List.pairwise_cons]
    exact ⟨fun q hq => (locationsFrom_ge ls (acc + l) q hq).1, ih (acc + l)⟩

/-! ### boolean index -/

theorem countTrue_append (a b : List Bool) : countTrue (a ++ b) = countTrue a + countTrue b := by
  simp [countTrue, List.filter_append]

/-- `n_preceding` of the next block is `n_preceding + block_index_size` of this one -/
theorem blockBool_chain (mask : List Bool) (l0 l1 : Nat) (h : l0 ≤ l1) :
    countTrue (mask.take l1) = (blockBool mask l0 l1).2.2 + (blockBool mask l0 l1).2.1 := by
  simp only [blockBool]
  have : mask.take l1 = mask.take l0 ++ (mask.drop l0).take (l1 - l0) := by
    have h1 : l1 = l0 + (l1 - l0) := by omega
    conv => lhs; rw [h1]
    rw [List.take_add]
  rw [this, countTrue_append]

/-! ### reversed value slices -/

/-- a non-empty value piece `[a, b)` of a reversed axis is read mirrored: positions `size-1-a, size-1-a-1, …` -/
theorem reverseValueSlice_spec (size : Nat) (a b : Int) (ha : 0 ≤ a) (hab : a < b) (hb : b ≤ size) :
    ∃ s, reverseValueSlice size a b = some s ∧
      pySliceIdx size s = some ((rangeUp a b 1).map (fun p => (size : Int) - 1 - p)) := by
  have hpi : pyIndices size ⟨some a, some b, none⟩ = some (a, b, 1) := by
    have ha0 : ¬ a < 0 := by omega
    have hb0 : ¬ b < 0 := by omega
    simp [pyIndices, Option.getD, ha0, hb0]
    constructor <;> omega
  simp only [reverseValueSlice, hpi]
  refine ⟨_, rfl, ?_⟩
  have hmap : (rangeUp a b 1).map (fun p => (size : Int) - 1 - p) = rangeDown ((size : Int) - 1 - a) ((size : Int) - 1 - b) (-1) := by
    rw [rangeDown_neg]
    have := rangeUp_shift (-((size : Int) - 1)) b 1 (by omega) a
    have e1 : -((size : Int) - 1 - a) = a + -((size : Int) - 1) := by omega
    have e2 : -((size : Int) - 1 - b) = b + -((size : Int) - 1) := by omega
    rw [e1, e2, show (-(-1 : Int)) = 1 by rfl, ← this, List.map_map]
    apply List.map_congr_left
    intro p _; simp only [Function.comp]; omega
  rw [hmap]
  by_cases hstop : (size : Int) - 1 - b < 0
  · simp [pySliceIdx, pyIndices, Option.getD, hstop, pyRange]
    congr 1 <;> (repeat' split) <;> omega
  · simp [pySliceIdx, pyIndices, Option.getD, hstop, pyRange]
    congr 1 <;> (repeat' split) <;> omega

theorem zip_append_left {α β : Type} : ∀ (l1 l2 : List α) (r : List β),
    (l1 ++ l2).zip r = l1.zip (r.take l1.length) ++ l2.zip (r.drop l1.length) := by
  intro l1
  induction l1 with
  | nil => intro l2 r; simp
  | cons a l1 ih =>
    intro l2 r
    cases r with
    | nil => simp
    | cons b r => simp [ih]

/-- what one block assigns: its selected positions paired with its piece of the (possibly mirrored) value -/
def blockAssign {α : Type} (V : List α) (start stop step l0 l1 : Int) : List (Int × α) :=
  match blockSlice start stop step l0 l1 with
  | none => []
  | some b => (blockPositions start stop step l0 l1).zip ((V.drop b.npre.toNat).take b.size.toNat)

theorem blockAssign_aux {α : Type} (V : List α) (start stop step : Int) (hs : 0 < step) (h0 : 0 ≤ start) (hss : start ≤ stop) :
    ∀ (ls : List Nat) (acc : Int), 0 ≤ acc →
      ((locationsFrom acc ls).flatMap fun (l0, l1) => blockAssign V start stop step l0 l1)
        = ((locationsFrom acc ls).flatMap fun (l0, l1) => blockPositions start stop step l0 l1).zip
            (V.drop (rangeUp start (min stop acc) step).length) := by
  intro ls
  induction ls with
  | nil => intro acc _; simp [locationsFrom]
  | cons l ls ih =>
    intro acc hacc
    simp only [locationsFrom, List.flatMap_cons]
    rw [ih (acc + l) (by omega), zip_append_left]
    have hspec := blockSlice_spec start stop step acc (acc + l) hs h0 hss hacc (by omega)
    have hpart : ((rangeUp start (min stop (acc + l)) step).length : Int)
        = ((rangeUp start (min stop acc) step).length : Int) + ((blockPositions start stop step acc (acc + l)).length : Int) := by
      have hfg := firstGe_ge start step acc hs
      unfold blockPositions
      by_cases hlt : start < acc
      · have hsplit := rangeUp_split (min stop (acc + l)) step acc hs start hlt
        have e : acc + (start - acc) % step = firstGe start step acc := by
          unfold firstGe; have : start - acc < 0 := by omega
          simp [this]
        rw [hsplit, e, List.length_append]
        have : min (min stop (acc + l)) acc = min stop acc := by omega
        rw [this]; simp
      · have e : firstGe start step acc = start := by unfold firstGe; simp; omega
        rw [e, rangeUp_nil (by omega : min stop acc ≤ start)]
        simp
    congr 1
    · unfold blockAssign
      cases hb : blockSlice start stop step acc (acc + l) with
      | none =>
        rw [hb] at hspec
        simp only at hspec
        rw [hspec]; simp
      | some b =>
        rw [hb] at hspec
        simp only at hspec
        obtain ⟨_, hsize, _, hnpre⟩ := hspec
        have e1 : b.npre.toNat = (rangeUp start (min stop acc) step).length := by omega
        have e2 : b.size.toNat = (blockPositions start stop step acc (acc + l)).length := by omega
        simp only [e1, e2]
    · rw [List.drop_drop]
      congr 2
      omega

/-- **1-d slice assignment, end to end on the plan**: over all blocks, the pairs (position, value element)
    that the per-block assignments `x_block[block slice] = value[n_preceding : n_preceding + size]` produce are
    exactly `zip(selected positions, value)` — each selected position receives its own value element, once. -/
theorem setitem1d_pairs {α : Type} (V : List α) (lengths : List Nat) (start stop step : Int) (hs : 0 < step)
    (h0 : 0 ≤ start) (hss : start ≤ stop) (hstop : stop ≤ ((lengths.sum : Nat) : Int)) :
    ((locations lengths).flatMap fun (l0, l1) => blockAssign V start stop step l0 l1)
      = (rangeUp start stop step).zip V := by
  unfold locations
  rw [blockAssign_aux V start stop step hs h0 hss lengths 0 (by omega)]
  rw [blockPositions_tile start stop step hs lengths 0]
  have e1 : firstGe start step 0 = start := by unfold firstGe; simp; omega
  have e2 : min stop (0 + ((lengths.sum : Nat) : Int)) = stop := by omega
  have e3 : (rangeUp start (min stop 0) step).length = 0 := by
    rw [rangeUp_nil (by omega)]; rfl
  rw [e1, e2, e3]
  simp

/-- what one block assigns for a 1-d integer-array index: for the value positions `k` it is given (increasing),
    the pair (array position `index[k]`, value element `V[k]`) -/
def blockAssignInt {α : Type} (index : List Int) (V : List α) (l0 l1 : Int) : List (Int × α) :=
  (valueIndicesInt index l0 l1).filterMap fun k =>
    match index[k]?, V[k]? with
    | some i, some v => some (i, v)
    | _, _ => none

theorem blockAssignInt_aux {α : Type} (l0 l1 : Int) : ∀ (index : List Int) (V : List α) (k0 : Nat) (pi : List Int) (pv : List α),
    pi.length = k0 → pv.length = k0 →
    ((valueIndicesFrom k0 l0 l1 index).filterMap fun k =>
      match (pi ++ index)[k]?, (pv ++ V)[k]? with
      | some i, some v => some (i, v)
      | _, _ => none)
    = (index.zip V).filter (fun p => decide (l0 ≤ p.1) && decide (p.1 < l1)) := by
  intro index
  induction index with
  | nil => intro V k0 pi pv _ _; simp [valueIndicesFrom]
  | cons i rest ih =>
    intro V k0 pi pv hpi hpv
    cases V with
    | nil =>
      -- no value elements left: nothing can be paired
      simp only [List.zip_nil_right, List.filter_nil, List.append_nil]
      apply List.filterMap_eq_nil_iff.mpr
      intro k hk
      have hk0 := ((mem_valueIndicesFrom l0 l1 (i :: rest) k0 k).mp hk).1
      have : pv[k]? = none := by rw [List.getElem?_eq_none]; omega
      rw [this]
      cases (pi ++ i :: rest)[k]? <;> rfl
    | cons v vs =>
      have happi : pi ++ i :: rest = (pi ++ [i]) ++ rest := by simp
      have happv : pv ++ v :: vs = (pv ++ [v]) ++ vs := by simp
      have ih' := ih vs (k0 + 1) (pi ++ [i]) (pv ++ [v]) (by simp [hpi]) (by simp [hpv])
      rw [← happi, ← happv] at ih'
      simp only [valueIndicesFrom, List.zip_cons_cons, List.filter_cons]
      by_cases hc : l0 ≤ i ∧ i < l1
      · have hd : (decide (l0 ≤ i) && decide (i < l1)) = true := by simp [hc.1, hc.2]
        simp only [hc, and_self, if_true, List.filterMap_cons, hd]
        have g1 : (pi ++ i :: rest)[k0]? = some i := by rw [← hpi]; simp
        have g2 : (pv ++ v :: vs)[k0]? = some v := by rw [← hpv]; simp
        simp only [g1, g2]
        rw [ih']
        simp
      · have hd : (decide (l0 ≤ i) && decide (i < l1)) = false := by
          simp only [Bool.and_eq_false_imp, decide_eq_true_eq, decide_eq_false_iff_not]
          intro h1 h2; exact hc ⟨h1, h2⟩
        simp only [hc, if_false, hd]
        exact ih'

/-- **integer-array assignment**: block `[l0, l1)` assigns exactly the pairs `(index[k], V[k])` whose target
    lies in the block, in increasing `k` (so a position named several times ends with NumPy's value: the last). -/
theorem blockAssignInt_eq {α : Type} (index : List Int) (V : List α) (l0 l1 : Int) :
    blockAssignInt index V l0 l1 = (index.zip V).filter (fun p => decide (l0 ≤ p.1) && decide (p.1 < l1)) := by
  have := blockAssignInt_aux l0 l1 index V 0 [] [] rfl rfl
  simpa [blockAssignInt, valueIndicesInt] using this

end Dask.SetItem
