import DaskModel.Model.ArrayReduce
/-! The depth `_tree_reduce` computes is large enough on every reduced axis (`n ≤ k ^ depth`), and it is the least
such depth.  Mathlib-free (used by Props/C22 and Props/C30). -/
namespace Dask.ArrayReduce

theorem ceilLogAux_spec (k n : Nat) : ∀ (fuel d p : Nat), p = k ^ d → n ≤ p * k ^ fuel →
    n ≤ k ^ ceilLogAux k n fuel d p := by
  intro fuel
  induction fuel with
  | zero => intro d p hp h; simpa [ceilLogAux, hp] using h
  | succ fuel ih =>
    intro d p hp h
    simp only [ceilLogAux]
    split
    · rename_i hle; rw [← hp]; exact hle
    · apply ih (d + 1) (p * k)
      · rw [hp, Nat.pow_succ]
      · rw [Nat.mul_assoc, ← Nat.pow_succ']; exact h

/-- `ceilLog k n` is a valid depth for `n` blocks with group size `k ≥ 2` -/
theorem le_pow_ceilLog {k : Nat} (hk : 2 ≤ k) (n : Nat) : n ≤ k ^ ceilLog k n := by
  unfold ceilLog
  apply ceilLogAux_spec k n n 0 1 (by simp)
  rw [Nat.one_mul]
  exact Nat.le_trans (Nat.le_of_lt Nat.lt_two_pow_self) (Nat.pow_le_pow_left hk n)

theorem ceilLogAux_min (k n : Nat) : ∀ (fuel d p e : Nat), p = k ^ d → d ≤ e → n ≤ k ^ e →
    (∀ d', d' < d → ¬ n ≤ k ^ d') → ceilLogAux k n fuel d p ≤ e := by
  intro fuel
  induction fuel with
  | zero => intro d p e _ hde _ _; simpa [ceilLogAux] using hde
  | succ fuel ih =>
    intro d p e hp hde he hmin
    simp only [ceilLogAux]
    split
    · exact hde
    · rename_i hnle
      have hne : d ≠ e := by
        intro h; subst h; rw [hp] at hnle; exact hnle he
      apply ih (d + 1) (p * k) e (by rw [hp, Nat.pow_succ]) (by omega) he
      intro d' hd'
      by_cases h : d' = d
      · subst h; rw [← hp]; exact hnle
      · exact hmin d' (by omega)

/-- … and the least one: no smaller depth would do -/
theorem ceilLog_le {k n e : Nat} (h : n ≤ k ^ e) : ceilLog k n ≤ e :=
  ceilLogAux_min k n n 0 1 e (by simp) (Nat.zero_le _) h (by intro d' hd'; omega)

theorem le_depthStep (d : Nat) (s : Option Nat) (n : Nat) : d ≤ depthStep d s n := by
  unfold depthStep
  cases s with
  | none => exact Nat.le_refl _
  | some k =>
    show d ≤ if k = 1 then d else max d (ceilLog k n)
    split
    · exact Nat.le_refl _
    · exact Nat.le_max_left _ _

theorem le_depthLoop : ∀ (ss : List (Option Nat)) (ns : List Nat) (d : Nat), d ≤ depthLoop ss ns d
  | [], _, d => by simp [depthLoop]
  | _ :: _, [], d => by simp [depthLoop]
  | s :: ss, n :: ns, d => by
    simp only [depthLoop]
    exact Nat.le_trans (le_depthStep d s n) (le_depthLoop ss ns _)

theorem one_le_treeDepth (ss : List (Option Nat)) (ns : List Nat) : 1 ≤ treeDepth ss ns := le_depthLoop ss ns 1

/-- every reduced axis (`k ≥ 2`) gets enough levels, whatever the other axes need -/
theorem axis_le_pow_depthLoop : ∀ (ks ns : List Nat) (d : Nat), ks.length = ns.length → (∀ k ∈ ks, 2 ≤ k) →
    ∀ i (hi : i < ks.length) (hj : i < ns.length), ns[i] ≤ ks[i] ^ depthLoop (ks.map some) ns d
  | [], _, _, _, _ => by intro i hi; simp at hi
  | _ :: _, [], _, h, _ => by simp at h
  | k :: ks, n :: ns, d, hlen, hk => by
    intro i hi hj
    have hk2 : 2 ≤ k := hk k (by simp)
    simp only [List.map_cons, depthLoop]
    cases i with
    | zero =>
      simp only [List.getElem_cons_zero]
      have h1 : ceilLog k n ≤ depthStep d (some k) n := by
        have hk1 : k ≠ 1 := by omega
        simp only [depthStep, if_neg hk1]; exact Nat.le_max_right _ _
      have h2 := le_depthLoop (ks.map some) ns (depthStep d (some k) n)
      exact Nat.le_trans (le_pow_ceilLog hk2 n) (Nat.pow_le_pow_right (by omega) (Nat.le_trans h1 h2))
    | succ i =>
      simp only [List.getElem_cons_succ]
      exact axis_le_pow_depthLoop ks ns _ (by simpa using hlen) (fun k' hk' => hk k' (by simp [hk'])) i
        (by simpa using hi) (by simpa using hj)

end Dask.ArrayReduce
