import DaskModel.Model.BagReduce
/-! Helper lemmas for C48/C49: `partition_all`, and the invariant principle for `Bag.reduction`:
whatever relation `R (elements below a task) (result of the task)` is established by `perpartition`
on every partition and preserved by `aggregate`, holds between the whole bag and the final result —
for every `split_every`, every partitioning and every pattern of empty partitions. -/
namespace Dask.BagReduce

/-- pointwise relation of two lists (core Lean has no `Forall₂`) -/
inductive All2 (R : α → β → Prop) : List α → List β → Prop
  | nil : All2 R [] []
  | cons {a b as bs} : R a b → All2 R as bs → All2 R (a :: as) (b :: bs)

theorem All2.length_eq {R : α → β → Prop} {as : List α} {bs : List β} (h : All2 R as bs) : as.length = bs.length := by
  induction h with
  | nil => rfl
  | cons _ _ ih => simp [ih]

theorem All2.take {R : α → β → Prop} {as : List α} {bs : List β} (h : All2 R as bs) (n : Nat) :
    All2 R (as.take n) (bs.take n) := by
  induction h generalizing n with
  | nil => simpa using All2.nil
  | cons hab _ ih =>
    cases n with
    | zero => simpa using All2.nil
    | succ n => simpa using All2.cons hab (ih n)

theorem All2.drop {R : α → β → Prop} {as : List α} {bs : List β} (h : All2 R as bs) (n : Nat) :
    All2 R (as.drop n) (bs.drop n) := by
  induction h generalizing n with
  | nil => simpa using All2.nil
  | cons hab hrest ih =>
    cases n with
    | zero => simpa using All2.cons hab hrest
    | succ n => simpa using ih n

theorem All2.imp {R S : α → β → Prop} (hRS : ∀ a b, R a b → S a b) {as : List α} {bs : List β}
    (h : All2 R as bs) : All2 S as bs := by
  induction h with
  | nil => exact .nil
  | cons hab _ ih => exact .cons (hRS _ _ hab) ih

/-- `l.zipIdx.map (fun gi => F gi.2 gi.1)` relates to `l` pointwise whenever every `F i` does -/
theorem All2.zipIdx_map {R : α → β → Prop} (F : Nat → α → β) (l : List α) (hF : ∀ i a, a ∈ l → R a (F i a)) (n : Nat) :
    All2 R l ((l.zipIdx n).map fun gi => F gi.2 gi.1) := by
  induction l generalizing n with
  | nil => exact .nil
  | cons a as ih =>
    simpa [List.zipIdx_cons] using
      All2.cons (hF n a (by simp)) (ih (fun i b hb => hF i b (List.mem_cons_of_mem _ hb)) (n + 1))

/-! ### `partition_all` -/

theorem partitionAllF_flatten (n : Nat) (hn : 0 < n) (fuel : Nat) (xs : List α) (hf : xs.length ≤ fuel) :
    (partitionAllF n fuel xs).flatten = xs := by
  induction fuel generalizing xs with
  | zero =>
    have : xs = [] := List.length_eq_zero_iff.mp (by omega)
    subst this; rfl
  | succ fuel ih =>
    simp only [partitionAllF]
    cases xs with
    | nil => rfl
    | cons x xs' =>
      simp only [List.isEmpty_cons, Bool.false_eq_true, if_false, List.flatten_cons]
      rw [ih _ (by simp only [List.length_drop, List.length_cons] at hf ⊢; omega), List.take_append_drop]

theorem partitionAll_flatten (n : Nat) (hn : 0 < n) (xs : List α) : (partitionAll n xs).flatten = xs :=
  partitionAllF_flatten n hn _ xs (Nat.le_refl _)

theorem partitionAllF_nil (n fuel : Nat) : partitionAllF n fuel ([] : List α) = [] := by
  cases fuel <;> simp [partitionAllF]

/-- the number of chunks is `⌈len / n⌉` -/
theorem partitionAllF_length (n : Nat) (hn : 0 < n) (fuel : Nat) (xs : List α) (hf : xs.length ≤ fuel) :
    (partitionAllF n fuel xs).length * n < xs.length + n := by
  induction fuel generalizing xs with
  | zero => simp [partitionAllF]; omega
  | succ fuel ih =>
    simp only [partitionAllF]
    cases xs with
    | nil => simp; omega
    | cons x xs' =>
      simp only [List.isEmpty_cons, Bool.false_eq_true, if_false, List.length_cons]
      have hd : ((x :: xs').drop n).length = xs'.length + 1 - n := by simp
      have hf' : xs'.length + 1 ≤ fuel + 1 := by simpa using hf
      by_cases hle : xs'.length + 1 ≤ n
      · have : (x :: xs').drop n = [] := List.drop_eq_nil_of_le (by simpa using hle)
        rw [this, partitionAllF_nil]
        simp
      · have := ih ((x :: xs').drop n) (by rw [hd]; omega)
        rw [hd] at this
        rw [Nat.add_mul]
        omega

theorem All2.partitionAllF {R : α → β → Prop} {as : List α} {bs : List β} (h : All2 R as bs) (n fuel : Nat) :
    All2 (All2 R) (partitionAllF n fuel as) (partitionAllF n fuel bs) := by
  induction fuel generalizing as bs with
  | zero => exact .nil
  | succ fuel ih =>
    simp only [Dask.BagReduce.partitionAllF]
    cases h with
    | nil => exact .nil
    | cons hab hrest =>
      simp only [List.isEmpty_cons, Bool.false_eq_true, if_false]
      exact .cons ((All2.cons hab hrest).take n) (ih ((All2.cons hab hrest).drop n))

/-! ### the invariant principle -/

section Inv
variable {α β : Type} (R : List α → β → Prop)

/-- a skipped (`no_result`) task stands for no elements -/
def RO (q : List α) (o : Option β) : Prop :=
  match o with
  | some r => R q r
  | none => q = []

/-- the results that are not `no_result`, with the elements they stand for -/
theorem filterMap_inv {qs : List (List α)} {g : List (Option β)} (h : All2 (RO R) qs g) :
    ∃ qs', All2 R qs' (g.filterMap id) ∧ qs'.flatten = qs.flatten := by
  induction h with
  | nil => exact ⟨[], .nil, rfl⟩
  | @cons q o qs g hqo _ ih =>
    obtain ⟨qs', h1, h2⟩ := ih
    cases o with
    | none =>
      have : q = [] := hqo
      subst this
      exact ⟨qs', by simpa using h1, by simpa using h2⟩
    | some r =>
      have hqr : R q r := hqo
      exact ⟨q :: qs', by simpa using All2.cons hqr h1, by simp [h2]⟩

theorem aggGroup_inv (agg : List β → β)
    (hagg : ∀ (qs : List (List α)) (rs : List β), rs ≠ [] → All2 R qs rs → R qs.flatten (agg rs))
    {qs : List (List α)} {g : List (Option β)} (h : All2 (RO R) qs g) : RO R qs.flatten (aggGroup agg g) := by
  obtain ⟨qs', h1, h2⟩ := filterMap_inv R h
  simp only [aggGroup]
  split
  · next hemp =>
    have : g.filterMap id = [] := by simpa using hemp
    rw [this] at h1
    cases h1
    simp only [RO]; rw [← h2]; rfl
  · next hne => simp only [RO]; rw [← h2]; exact hagg _ _ (by simpa using hne) h1

theorem levelIx_inv (agg : Nat → List β → β)
    (hagg : ∀ i (qs : List (List α)) (rs : List β), rs ≠ [] → All2 R qs rs → R qs.flatten (agg i rs))
    (se : Nat) {qs : List (List α)} {xs : List (Option β)} (h : All2 (RO R) qs xs) :
    All2 (RO R) ((partitionAll se qs).map List.flatten) (levelIx agg se xs) := by
  have hlen := h.length_eq
  have hp : All2 (All2 (RO R)) (partitionAll se qs) (partitionAll se xs) := by
    simp only [partitionAll, hlen]; exact h.partitionAllF se _
  simp only [levelIx]
  generalize partitionAll se qs = qss at hp
  generalize partitionAll se xs = xss at hp
  generalize (0 : Nat) = n
  induction hp generalizing n with
  | nil => exact .nil
  | cons hg _ ih =>
    simp only [List.map_cons, List.zipIdx_cons]
    exact .cons (aggGroup_inv R (agg n) (hagg n) hg) (ih (n + 1))

theorem loopIx_inv (agg : Nat → Nat → List β → β)
    (hagg : ∀ d i (qs : List (List α)) (rs : List β), rs ≠ [] → All2 R qs rs → R qs.flatten (agg d i rs))
    (se : Nat) (hse : 0 < se) (fuel depth : Nat) {qs : List (List α)} {xs : List (Option β)}
    (h : All2 (RO R) qs xs) {d : Nat} {ys : List (Option β)} (hl : loopIx agg se fuel depth xs = some (d, ys)) :
    ∃ qs', All2 (RO R) qs' ys ∧ qs'.flatten = qs.flatten := by
  induction fuel generalizing depth qs xs with
  | zero => simp [loopIx] at hl
  | succ fuel ih =>
    simp only [loopIx] at hl
    split at hl
    · obtain ⟨qs', h1, h2⟩ := ih (depth + 1) (levelIx_inv R (agg depth) (hagg depth) se h) hl
      refine ⟨qs', h1, ?_⟩
      rw [h2, ← List.flatten_flatten]
      exact congrArg List.flatten (partitionAll_flatten se hse qs)
    · simp only [Option.some.injEq, Prod.mk.injEq] at hl
      obtain ⟨_, rfl⟩ := hl
      exact ⟨qs, h, rfl⟩

theorem perPartitionIx_inv (perpart : Nat → List α → β) (parts : List (List α))
    (hleaf : ∀ i p, p ∈ parts → (parts.length = 1 ∨ p ≠ []) → R p (perpart i p)) :
    All2 (RO R) parts (perPartitionIx perpart parts) := by
  simp only [perPartitionIx]
  apply All2.zipIdx_map (R := RO R) (fun i p => if (!(parts.length == 1) && p.isEmpty) = true then none else some (perpart i p))
  intro i p hmem
  split
  · next hc =>
    simp only [RO]
    simp only [Bool.and_eq_true, List.isEmpty_iff] at hc
    exact hc.2
  · next hc =>
    apply hleaf i p hmem
    simp only [Bool.and_eq_true, Bool.not_eq_true', beq_eq_false_iff_ne, ne_eq, List.isEmpty_iff, not_and,
      Decidable.not_not] at hc
    by_cases h1 : parts.length = 1
    · exact Or.inl h1
    · exact Or.inr (hc h1)

/-- **Invariant principle for `Bag.reduction`, general form.** `perpartition` only has to establish the
    relation on partitions that are not skipped (non-empty, or the only partition), `aggregate` only has to
    preserve it for a non-empty list of inputs; the conclusion distinguishes the bag without any element
    whose every partition was skipped (the final aggregate then sees no input at all). -/
theorem reductionIx_inv_gen (perpart : Nat → List α → β) (agg : Nat → Nat → List β → β) (parts : List (List α))
    (hleaf : ∀ i p, p ∈ parts → (parts.length = 1 ∨ p ≠ []) → R p (perpart i p))
    (hagg : ∀ d i (qs : List (List α)) (rs : List β), rs ≠ [] → All2 R qs rs → R qs.flatten (agg d i rs))
    (se : Nat) (r : β) (h : reductionIx perpart agg se parts = some r) :
    (∃ d, r = agg d 0 [] ∧ parts.flatten = []) ∨ R parts.flatten r := by
  simp only [reductionIx] at h
  split at h
  · cases h
  · next hc =>
    simp only [Option.map_eq_some_iff] at h
    obtain ⟨⟨d, ys⟩, hl, rfl⟩ := h
    by_cases hp : parts = []
    · subst hp
      simp only [List.length_nil, Nat.zero_add, loopIx, perPartitionIx, List.zipIdx_nil, List.map_nil] at hl
      split at hl
      · next hlt => simp at hlt
      · simp only [Option.some.injEq, Prod.mk.injEq] at hl
        obtain ⟨_, rfl⟩ := hl
        exact Or.inl ⟨_, rfl, rfl⟩
    · have hse : 0 < se := by
        have : 0 < parts.length := List.length_pos_iff.mpr hp
        omega
      obtain ⟨qs', h1, h2⟩ := loopIx_inv R agg hagg se hse _ 0 (perPartitionIx_inv R perpart parts hleaf) hl
      obtain ⟨qs'', h3, h4⟩ := filterMap_inv R h1
      by_cases hemp : ys.filterMap id = []
      · left
        rw [hemp] at h3 ⊢
        cases h3
        exact ⟨d, rfl, by rw [← h2, ← h4]; rfl⟩
      · right
        rw [← h2, ← h4]
        exact hagg _ _ _ _ hemp h3

/-- **Invariant principle for `Bag.reduction`.** -/
theorem reductionIx_inv (perpart : Nat → List α → β) (agg : Nat → Nat → List β → β)
    (hleaf : ∀ i p, R p (perpart i p))
    (hagg : ∀ d i (qs : List (List α)) (rs : List β), All2 R qs rs → R qs.flatten (agg d i rs))
    (se : Nat) (parts : List (List α)) (r : β) (h : reductionIx perpart agg se parts = some r) :
    R parts.flatten r := by
  rcases reductionIx_inv_gen R perpart agg parts (fun i p _ _ => hleaf i p) (fun d i qs rs _ h => hagg d i qs rs h)
    se r h with ⟨d, rfl, hnil⟩ | h
  · rw [hnil]; exact hagg d 0 [] [] .nil
  · exact h

end Inv

/-! ### termination: behind the guard on `split_every` the model's fuel suffices (the real loop terminates) -/

theorem levelIx_length (agg : Nat → List β → β) (se : Nat) (xs : List (Option β)) :
    (levelIx agg se xs).length = (partitionAll se xs).length := by
  simp [levelIx]

theorem loopIx_terminates (agg : Nat → Nat → List β → β) (se : Nat) (fuel depth : Nat)
    (xs : List (Option β)) (hse : 2 ≤ se ∨ xs.length ≤ se) (hf : xs.length < fuel) :
    (loopIx agg se fuel depth xs).isSome := by
  induction fuel generalizing depth xs with
  | zero => omega
  | succ fuel ih =>
    simp only [loopIx]
    split
    · next hlt =>
      have hse2 : 2 ≤ se := by omega
      have h1 := partitionAllF_length se (by omega) xs.length xs (Nat.le_refl _)
      have h2 : (partitionAll se xs).length * 2 ≤ (partitionAll se xs).length * se := Nat.mul_le_mul_left _ hse2
      apply ih _ _ (Or.inl hse2)
      rw [levelIx_length]
      simp only [partitionAll] at h2 ⊢
      omega
    · rfl

/-- `Bag.reduction` returns a value exactly when the guard on `split_every` passes -/
theorem reductionIx_isSome_iff (perpart : Nat → List α → β) (agg : Nat → Nat → List β → β) (se : Nat)
    (parts : List (List α)) : (reductionIx perpart agg se parts).isSome ↔ ¬ (se < 2 ∧ se < parts.length) := by
  simp only [reductionIx]
  split
  · next h => simp [h]
  · next h =>
    have := loopIx_terminates agg se (parts.length + 1) 0 (perPartitionIx perpart parts)
      (by simp only [perPartitionIx, List.length_map, List.length_zipIdx]; omega) (by simp [perPartitionIx])
    simp only [Option.isSome_map, this, true_iff]; exact h

theorem reductionIx_isSome (perpart : Nat → List α → β) (agg : Nat → Nat → List β → β) (se : Nat) (hse : 2 ≤ se)
    (parts : List (List α)) : (reductionIx perpart agg se parts).isSome :=
  (reductionIx_isSome_iff perpart agg se parts).mpr (by omega)

end Dask.BagReduce
