import DaskModel.Model.ExecGraph
import DaskModel.Lemmas.SpecFuse
/-! `execute_graph` as it runs (cache filled in a topological order, reference counts, deletion of values nobody needs
    any more) computes the denotation of the graph, and the deletions never remove a value that is still needed. -/
namespace Dask.TaskTerm

theorem mem_dedupKeys : ∀ (xs : List Obj) (x : Obj), x ∈ dedupKeys xs ↔ x ∈ xs
  | [], x => by simp [dedupKeys]
  | y :: ys, x => by
    simp only [dedupKeys, List.mem_cons, List.mem_filter, mem_dedupKeys ys x, Bool.not_eq_true', beq_eq_false_iff_ne]
    constructor
    · rintro (h | ⟨h, _⟩)
      · exact Or.inl h
      · exact Or.inr h
    · rintro (h | h)
      · exact Or.inl h
      · by_cases hxy : x = y
        · exact Or.inl hxy
        · exact Or.inr ⟨h, hxy⟩

theorem nodup_dedupKeys : ∀ xs : List Obj, (dedupKeys xs).Nodup
  | [] => List.nodup_nil
  | y :: ys => by
    simp only [dedupKeys]
    refine List.nodup_cons.mpr ⟨?_, nodup_filter _ (nodup_dedupKeys ys)⟩
    simp

theorem rcGet_setKey (rc : Refcount) (k : Obj) (c : Int) (x : Obj) :
    rcGet (setKey rc k c) x = if x == k then c else rcGet rc x := by
  unfold rcGet
  rw [lookup_setKey]
  split <;> rfl

/-- what `for dep in node.dependencies:` does to the reference counts and to the cache -/
theorem releaseDeps_spec (keys : Option (List Obj)) : ∀ (ds : List Obj) (st st' : ExecSt), ds.Nodup →
    releaseDeps keys ds st = some st' →
    (∀ d, rcGet st'.refcount d = rcGet st.refcount d - (if d ∈ ds then 1 else 0)) ∧
    (∀ d, st'.cache.lookup d =
      if d ∈ ds ∧ rcGet st.refcount d - 1 = 0 ∧ deletable keys d = true then none else st.cache.lookup d)
  | [], st, st', _, h => by
    simp only [releaseDeps, Option.some.injEq] at h
    subst h
    exact ⟨fun d => by simp, fun d => by simp⟩
  | x :: ds, st, st', hn, h => by
    simp only [List.nodup_cons] at hn
    simp only [releaseDeps] at h
    split at h
    · rename_i hc
      simp only [Bool.and_eq_true, beq_iff_eq] at hc
      split at h
      · have ih := releaseDeps_spec keys ds _ st' hn.2 h
        constructor
        · intro d
          rw [ih.1 d, rcGet_setKey]
          by_cases hdx : d = x
          · subst hdx; simp [hn.1]
          · have : (d == x) = false := by simpa using hdx
            simp [this, hdx]
        · intro d
          rw [ih.2 d]
          simp only [rcGet_setKey, lookup_dropKey]
          by_cases hdx : d = x
          · subst hdx
            simp [hn.1, hc.1, hc.2]
          · have : (d == x) = false := by simpa using hdx
            simp [this, hdx]
      · cases h
    · rename_i hc
      have ih := releaseDeps_spec keys ds _ st' hn.2 h
      constructor
      · intro d
        rw [ih.1 d, rcGet_setKey]
        by_cases hdx : d = x
        · subst hdx; simp [hn.1]
        · have : (d == x) = false := by simpa using hdx
          simp [this, hdx]
      · intro d
        rw [ih.2 d]
        simp only [rcGet_setKey]
        by_cases hdx : d = x
        · subst hdx
          have hc' : ¬ (rcGet st.refcount d - 1 = 0 ∧ deletable keys d = true) := by
            intro hh; apply hc; simp [hh.1, hh.2]
          simp only [beq_self_eq_true, if_true, hn.1, false_and, if_false, List.mem_cons, true_or, true_and]
          rw [if_neg hc']
        · have : (d == x) = false := by simpa using hdx
          simp [this, hdx]

/-- the loop over the dependencies succeeds when every dependency is in the cache -/
theorem releaseDeps_succeeds (keys : Option (List Obj)) : ∀ (ds : List Obj) (st : ExecSt), ds.Nodup →
    (∀ d ∈ ds, (st.cache.lookup d).isSome) → ∃ st', releaseDeps keys ds st = some st'
  | [], st, _, _ => ⟨st, rfl⟩
  | x :: ds, st, hn, h => by
    simp only [List.nodup_cons] at hn
    simp only [releaseDeps]
    split
    · rw [if_pos (h x (by simp))]
      apply releaseDeps_succeeds keys ds _ hn.2
      intro d hd
      show ((dropKey st.cache x).lookup d).isSome
      rw [lookup_dropKey]
      have : (d == x) = false := by
        rw [Bool.eq_false_iff]; intro hc; exact hn.1 ((eq_of_beq hc) ▸ hd)
      simp only [this, Bool.false_eq_true, if_false]
      exact h d (List.mem_cons_of_mem _ hd)
    · exact releaseDeps_succeeds keys ds _ hn.2 (fun d hd => h d (List.mem_cons_of_mem _ hd))

end Dask.TaskTerm

namespace Dask.TaskTerm

theorem countRefs_pos_of_mem (g : NGraph) (k : Obj) (n : Node) (d : Obj) (hm : (k, n) ∈ g) (hd : d ∈ n.deps) :
    0 < countRefs g d := by
  unfold countRefs
  apply List.length_pos_of_mem (a := (k, n))
  exact List.mem_filter.mpr ⟨hm, by simpa using hd⟩

theorem countRefs_append (a b : NGraph) (d : Obj) : countRefs (a ++ b) d = countRefs a d + countRefs b d := by
  unfold countRefs; simp [List.filter_append]

theorem foldl_incr_count (d : Obj) : ∀ (L : List Obj) (rc : Refcount),
    rcGet (L.foldl (fun rc x => setKey rc x (rcGet rc x + 1)) rc) d = rcGet rc d + (L.filter (fun x => x == d)).length
  | [], rc => by simp
  | x :: L, rc => by
    simp only [List.foldl_cons]
    rw [foldl_incr_count d L, rcGet_setKey, List.filter_cons]
    by_cases hx : (x == d) = true
    · have : x = d := eq_of_beq hx
      subst this
      simp only [beq_self_eq_true, if_true, List.length_cons]
      push_cast; omega
    · have hx' : (x == d) = false := by simpa using hx
      have hdx : (d == x) = false := by
        rw [Bool.eq_false_iff]; intro hc; have := eq_of_beq hc; subst this; simp at hx'
      simp [hx', hdx]

theorem count_in_nodup (d : Obj) : ∀ (l : List Obj), l.Nodup → (l.filter (fun x => x == d)).length = if d ∈ l then 1 else 0
  | [], _ => by simp
  | x :: l, hn => by
    simp only [List.nodup_cons] at hn
    rw [List.filter_cons]
    by_cases hx : (x == d) = true
    · have : x = d := eq_of_beq hx
      subst this
      simp [count_in_nodup x l hn.2, hn.1]
    · have hx' : (x == d) = false := by simpa using hx
      have hne : d ≠ x := fun e => by subst e; simp at hx'
      simp [hx', count_in_nodup d l hn.2, hne]

/-- the initial reference count of a key is the number of entries that depend on it -/
theorem rcGet_initRefcount (g : NGraph) (d : Obj) : rcGet (initRefcount g) d = countRefs g d := by
  unfold initRefcount
  rw [foldl_incr_count]
  have : rcGet [] d = 0 := rfl
  rw [this]
  induction g with
  | nil => simp [countRefs]
  | cons kn rest ih =>
    simp only [List.flatMap_cons, List.filter_append, List.length_append, countRefs_cons]
    rw [count_in_nodup d _ (nodup_dedupKeys _)]
    simp only [mem_dedupKeys, ind, List.contains_eq_mem, decide_eq_true_eq]
    simp only [Int.zero_add] at ih ⊢
    push_cast at ih ⊢
    split <;> omega

/-- every entry's in-graph dependencies are listed before it (`sorted(dsk.items(), key=priorities)` for a valid `order`) -/
def TopoListed (g : NGraph) : Prop :=
  ∀ P k n R, g = P ++ (k, n) :: R → ∀ d ∈ n.deps, (g.lookup d).isSome → d ∈ P.map Prod.fst

structure ExecInv (g : NGraph) (cache0 : Cache) (keys : Option (List Obj)) (P R : NGraph) (st : ExecSt) : Prop where
  rcI : ∀ d, rcGet st.refcount d = countRefs R d
  sound : ∀ d v, st.cache.lookup d = some v → Computes g (cacheEnv cache0) d v
  present : ∀ d, (d ∈ P.map Prod.fst ∨ (g.lookup d = none ∧ (cache0.lookup d).isSome)) →
    (0 < countRefs R d ∨ deletable keys d = false ∨ countRefs g d = 0) → (st.cache.lookup d).isSome

theorem exec_step (g : NGraph) (cache0 : Cache) (keys : Option (List Obj)) (hnodup : (g.map Prod.fst).Nodup)
    (htopo : TopoListed g) (P : NGraph) (k : Obj) (n : Node) (R : NGraph) (hg : g = P ++ (k, n) :: R) (st : ExecSt)
    (hi : ExecInv g cache0 keys P ((k, n) :: R) st) :
    (∀ st1, execStep g keys st k = some st1 → ExecInv g cache0 keys (P ++ [(k, n)]) R st1) ∧
    ((∃ v, Computes g (cacheEnv cache0) k v) → ∃ st1, execStep g keys st k = some st1) := by
  have hmem : (k, n) ∈ g := by rw [hg]; simp
  have hlk : g.lookup k = some n := lookup_of_mem_nodup hnodup hmem
  have hkP : k ∉ P.map Prod.fst := by
    intro hc
    rw [hg] at hnodup
    simp only [List.map_append, List.map_cons] at hnodup
    have := (List.nodup_append.mp hnodup).2.2 k hc k (by simp)
    exact this rfl
  have hkdeps : k ∉ n.deps := fun hc => hkP (htopo P k n R hg k hc (by simp [hlk]))
  have hcnt : ∀ d, countRefs ((k, n) :: R) d = ind (n.deps.contains d) + countRefs R d := fun d => countRefs_cons (k, n) R d
  constructor
  · intro st1 hs
    unfold execStep at hs
    rw [hlk] at hs
    simp only at hs
    cases hev : evalNode (fun d => st.cache.lookup d) n with
    | none => rw [hev] at hs; cases hs
    | some v =>
      rw [hev] at hs
      simp only at hs
      obtain ⟨hrc, hca⟩ := releaseDeps_spec keys _ _ st1 (nodup_dedupKeys n.deps) hs
      simp only [mem_dedupKeys] at hrc hca
      have hkv : Computes g (cacheEnv cache0) k v := by
        obtain ⟨F, hF⟩ := transfer (monoFam_evalKeyN g (cacheEnv cache0)) hev (fun d _ w hw => hi.sound d w hw)
        exact ⟨F + 1, by simpa [evalKeyN, hlk] using hF F (Nat.le_refl _)⟩
      refine ⟨?_, ?_, ?_⟩
      · intro d
        rw [hrc d, hi.rcI d, hcnt d]
        unfold ind
        by_cases hd : d ∈ n.deps
        · simp [hd]; omega
        · simp [hd]
      · intro d w hw
        rw [hca d] at hw
        split at hw
        · cases hw
        · rw [lookup_setKey] at hw
          split at hw
          · rename_i hdk
            have : d = k := eq_of_beq hdk
            subst this; cases hw; exact hkv
          · exact hi.sound d w hw
      · intro d hd hp
        rw [hca d]
        have hnc : ¬ (d ∈ n.deps ∧ rcGet st.refcount d - 1 = 0 ∧ deletable keys d = true) := by
          rintro ⟨h1, h2, h3⟩
          rw [hi.rcI d, hcnt d] at h2
          have hind : ind (n.deps.contains d) = 1 := by simp [ind, h1]
          rw [hind] at h2
          have hR0 : countRefs R d = 0 := by omega
          have hgpos := countRefs_pos_of_mem g k n d hmem h1
          rcases hp with hp | hp | hp
          · omega
          · rw [h3] at hp; cases hp
          · omega
        rw [if_neg hnc, lookup_setKey]
        by_cases hdk : (d == k) = true
        · simp [hdk]
        · have hdk' : (d == k) = false := by simpa using hdk
          simp only [hdk', Bool.false_eq_true, if_false]
          apply hi.present d
          · rcases hd with hd | hd
            · simp only [List.map_append, List.map_cons, List.map_nil, List.mem_append, List.mem_singleton] at hd
              rcases hd with hd | hd
              · exact Or.inl hd
              · subst hd; simp at hdk'
            · exact Or.inr hd
          · rcases hp with hp | hp | hp
            · left; rw [hcnt d]; omega
            · exact Or.inr (Or.inl hp)
            · exact Or.inr (Or.inr hp)
  · rintro ⟨v, f, hf⟩
    cases f with
    | zero => simp [evalKeyN] at hf
    | succ f0 =>
      simp only [evalKeyN, hlk] at hf
      -- every dependency is in the cache with its value
      have hdep : ∀ d ∈ n.deps, st.cache.lookup d = evalKeyN g (cacheEnv cache0) f0 d := by
        intro d hd
        obtain ⟨w, hw⟩ := evalNode_some_deps hf d hd
        have hpos : 0 < countRefs ((k, n) :: R) d := by
          rw [hcnt d]; simp [ind, hd]; omega
        have hsrc : d ∈ P.map Prod.fst ∨ (g.lookup d = none ∧ (cache0.lookup d).isSome) := by
          cases hgd : g.lookup d with
          | some m => exact Or.inl (htopo P k n R hg d hd (by simp [hgd]))
          | none =>
            right
            refine ⟨rfl, ?_⟩
            cases f0 with
            | zero => simp [evalKeyN] at hw
            | succ f1 =>
              simp only [evalKeyN, hgd, cacheEnv] at hw
              rw [hw]; rfl
        have hpr := hi.present d hsrc (Or.inl hpos)
        cases hc : st.cache.lookup d with
        | none => rw [hc] at hpr; cases hpr
        | some w' =>
          have := (hi.sound d w' hc).unique ⟨f0, hw⟩
          rw [hw, this]
      have hev : evalNode (fun d => st.cache.lookup d) n = some v := by
        rw [← hf]
        exact evalNode_congr _ _ n hdep
      unfold execStep
      rw [hlk]
      simp only [hev]
      apply releaseDeps_succeeds keys _ _ (nodup_dedupKeys n.deps)
      intro d hd
      rw [mem_dedupKeys] at hd
      show ((setKey st.cache k v).lookup d).isSome
      rw [lookup_setKey]
      have hdk : (d == k) = false := by
        rw [Bool.eq_false_iff]; intro hc; exact hkdeps ((eq_of_beq hc) ▸ hd)
      simp only [hdk, Bool.false_eq_true, if_false, hdep d hd]
      obtain ⟨w, hw⟩ := evalNode_some_deps hf d hd
      rw [hw]; rfl

theorem exec_loop (g : NGraph) (cache0 : Cache) (keys : Option (List Obj)) (hnodup : (g.map Prod.fst).Nodup)
    (htopo : TopoListed g) : ∀ (R P : NGraph) (st : ExecSt), g = P ++ R → ExecInv g cache0 keys P R st →
    (∀ st', execLoop g keys (R.map Prod.fst) st = some st' → ExecInv g cache0 keys g [] st') ∧
    ((∀ k ∈ R.map Prod.fst, ∃ v, Computes g (cacheEnv cache0) k v) →
      ∃ st', execLoop g keys (R.map Prod.fst) st = some st')
  | [], P, st, hg, hi => by
    have : g = P := by simpa using hg
    subst this
    exact ⟨fun st' h => by simp only [List.map_nil, execLoop, Option.some.injEq] at h; subst h; exact hi,
      fun _ => ⟨st, rfl⟩⟩
  | (k, n) :: R, P, st, hg, hi => by
    obtain ⟨hA, hB⟩ := exec_step g cache0 keys hnodup htopo P k n R hg st hi
    have hg' : g = (P ++ [(k, n)]) ++ R := by rw [hg]; simp
    constructor
    · intro st' h
      simp only [List.map_cons, execLoop] at h
      cases hs : execStep g keys st k with
      | none => rw [hs] at h; cases h
      | some st1 =>
        rw [hs] at h
        exact (exec_loop g cache0 keys hnodup htopo R _ st1 hg' (hA st1 hs)).1 st' h
    · intro hall
      obtain ⟨st1, hs⟩ := hB (hall k (by simp))
      obtain ⟨st', h'⟩ := (exec_loop g cache0 keys hnodup htopo R _ st1 hg' (hA st1 hs)).2
        (fun x hx => hall x (List.mem_cons_of_mem _ hx))
      exact ⟨st', by simp only [List.map_cons, execLoop, hs]; exact h'⟩

end Dask.TaskTerm

namespace Dask.TaskTerm

/-- **`execute_graph` computes the graph's denotation, and its reference counting is safe.** For a graph with
    duplicate-free keys whose nodes are taken in an order with dependencies first (what `dask.order.order` provides: C06),
    and a caller's cache that holds no key of the graph:
    * whatever is in the returned cache is the denotational value of its key, and every key of the graph that may not be
      deleted (`keys` empty / `None`, or the key is requested) *is* in the returned cache;
    * if every key of the graph has a value, the run does not fail: no node ever finds a dependency already deleted by
      the reference counting (`refcount[dep] == 0 … del cache[dep]`), and no `del` hits a missing key. -/
theorem execute_graph_correct (g : NGraph) (cache0 : Cache) (keys : Option (List Obj))
    (hnodup : (g.map Prod.fst).Nodup) (htopo : TopoListed g)
    (hdisj : ∀ k ∈ g.map Prod.fst, cache0.lookup k = none) :
    (∀ final, execOrdered g (g.map Prod.fst) cache0 keys = some final →
      (∀ d v, final.lookup d = some v → Computes g (cacheEnv cache0) d v) ∧
      (∀ k ∈ g.map Prod.fst, deletable keys k = false →
        ∃ v, final.lookup k = some v ∧ Computes g (cacheEnv cache0) k v)) ∧
    ((∀ k ∈ g.map Prod.fst, ∃ v, Computes g (cacheEnv cache0) k v) →
      ∃ final, execOrdered g (g.map Prod.fst) cache0 keys = some final) := by
  have hi0 : ExecInv g cache0 keys [] g { cache := cache0, refcount := initRefcount g } := by
    refine ⟨fun d => rcGet_initRefcount g d, ?_, ?_⟩
    · intro d v hd
      have hgd : g.lookup d = none := by
        cases hl : g.lookup d with
        | none => rfl
        | some m =>
          have := hdisj d (mem_keys_of_lookup g d m hl)
          simp only at hd
          rw [this] at hd; cases hd
      exact ⟨1, by simpa [evalKeyN, hgd, cacheEnv] using hd⟩
    · intro d hd _
      rcases hd with hd | hd
      · simp at hd
      · exact hd.2
  obtain ⟨hA, hB⟩ := exec_loop g cache0 keys hnodup htopo g [] _ (by simp) hi0
  constructor
  · intro final hf
    unfold execOrdered at hf
    simp only [Option.map_eq_some_iff] at hf
    obtain ⟨st', hst, rfl⟩ := hf
    have hi := hA st' hst
    refine ⟨hi.sound, ?_⟩
    intro k hk hdel
    have hp := hi.present k (Or.inl hk) (Or.inr (Or.inl hdel))
    cases hc : st'.cache.lookup k with
    | none => rw [hc] at hp; cases hp
    | some v => exact ⟨v, rfl, hi.sound k v hc⟩
  · intro hall
    obtain ⟨st', hst⟩ := hB hall
    exact ⟨st'.cache, by unfold execOrdered; rw [hst]; rfl⟩

end Dask.TaskTerm
