import DaskModel.Model.CountingSelect
import DaskModel.Lemmas.CountingLemmas
/-! Helper lemmas for C27: digitize (sorted-prefix counting), boolean selection block by block. -/
namespace Dask.Counting
open Dask.Chunks

/-! ### counting a downward-closed predicate on a sorted list splits it -/

theorem isInc_pairwise : ∀ (l : List Nat), isInc l = true → l.Pairwise (· ≤ ·)
  | [], _ => List.Pairwise.nil
  | [a], _ => by simp
  | a :: b :: t, h => by
    simp only [isInc, Bool.and_eq_true, decide_eq_true_eq] at h
    have ih := isInc_pairwise (b :: t) h.2
    refine List.pairwise_cons.2 ⟨fun y hy => ?_, ih⟩
    rcases List.mem_cons.1 hy with hy | hy
    · omega
    · have := (List.pairwise_cons.1 ih).1 y hy; omega

theorem isDec_pairwise : ∀ (l : List Nat), isDec l = true → l.Pairwise (· ≥ ·)
  | [], _ => List.Pairwise.nil
  | [a], _ => by simp
  | a :: b :: t, h => by
    simp only [isDec, Bool.and_eq_true, decide_eq_true_eq] at h
    have ih := isDec_pairwise (b :: t) h.2
    refine List.pairwise_cons.2 ⟨fun y hy => ?_, ih⟩
    rcases List.mem_cons.1 hy with hy | hy
    · omega
    · have := (List.pairwise_cons.1 ih).1 y hy; omega

/-- on an increasing list the elements satisfying a downward-closed `p` are exactly the first `countP p` ones -/
theorem sorted_count_split (p : Nat → Bool) (hp : DownClosed p) : ∀ (l : List Nat), l.Pairwise (· ≤ ·) →
    (∀ x ∈ l.take (l.countP p), p x = true) ∧ (∀ x ∈ l.drop (l.countP p), p x = false)
  | [], _ => by simp
  | a :: l, h => by
    have ⟨h1, h2⟩ := List.pairwise_cons.1 h
    have ih := sorted_count_split p hp l h2
    cases hpa : p a with
    | true =>
      rw [List.countP_cons_of_pos hpa]
      refine ⟨fun x hx => ?_, fun x hx => ?_⟩
      · simp only [List.take_succ_cons, List.mem_cons] at hx
        rcases hx with hx | hx
        · subst hx; exact hpa
        · exact ih.1 x hx
      · simp only [List.drop_succ_cons] at hx
        exact ih.2 x hx
    | false =>
      have hall : ∀ x ∈ l, p x = false := fun x hx => by
        cases hpx : p x with
        | false => rfl
        | true => have := hp a x (h1 x hx) hpx; simp [hpa] at this
      have hc : l.countP p = 0 := by
        rw [List.countP_eq_zero]
        intro x hx; simp [hall x hx]
      rw [List.countP_cons_of_neg (by simp [hpa]), hc]
      refine ⟨by simp, fun x hx => ?_⟩
      simp only [List.drop_zero, List.mem_cons] at hx
      rcases hx with hx | hx
      · subst hx; exact hpa
      · exact hall x hx

theorem pairwise_reverse_ge {l : List Nat} (h : l.Pairwise (· ≥ ·)) : l.reverse.Pairwise (· ≤ ·) := by
  rw [List.pairwise_reverse]
  exact h.imp (fun hab => hab)

/-! ### optMapM -/

theorem optMapM_some {γ δ} (g : γ → Option δ) (g' : γ → δ) : ∀ (l : List γ), (∀ x ∈ l, g x = some (g' x)) →
    optMapM g l = some (l.map g')
  | [], _ => rfl
  | x :: xs, h => by
    simp [optMapM, h x (by simp), optMapM_some g g' xs (fun z hz => h z (by simp [hz]))]

theorem optMapM_none {γ δ} (g : γ → Option δ) : ∀ (l : List γ), (∃ x ∈ l, g x = none) → optMapM g l = none
  | [], h => by simp at h
  | x :: xs, h => by
    unfold optMapM
    cases hx : g x with
    | none => rfl
    | some y =>
      have : ∃ z ∈ xs, g z = none := by
        obtain ⟨z, hz, hg⟩ := h
        rcases List.mem_cons.1 hz with e | e
        · subst e; rw [hx] at hg; cases hg
        · exact ⟨z, e, hg⟩
      rw [optMapM_none g xs this]

/-! ### boolean selection -/

theorem selectBy_nil_left {α} (xs : List α) : selectBy [] xs = [] := rfl

theorem selectBy_append {α} (c1 c2 : List Bool) (x1 x2 : List α) (h : c1.length = x1.length) :
    selectBy (c1 ++ c2) (x1 ++ x2) = selectBy c1 x1 ++ selectBy c2 x2 := by
  unfold selectBy
  rw [List.zip_append h, List.filter_append, List.map_append]

/-- a condition no longer than the data only sees the first `len(cond)` elements -/
theorem selectBy_take {α} : ∀ (cond : List Bool) (xs : List α), selectBy cond (xs.take cond.length) = selectBy cond xs
  | [], xs => by simp [selectBy]
  | c :: cs, [] => by simp [selectBy]
  | c :: cs, x :: xs => by
    have ih := selectBy_take cs xs
    unfold selectBy at ih ⊢
    simp only [List.length_cons, List.take_succ_cons, List.zip_cons_cons]
    cases c <;> simp [ih]

/-- the part of a condition beyond the data never selects anything -/
theorem selectBy_take_cond {α} : ∀ (cond : List Bool) (xs : List α), selectBy (cond.take xs.length) xs = selectBy cond xs
  | [], xs => by simp [selectBy]
  | c :: cs, [] => by simp [selectBy]
  | c :: cs, x :: xs => by
    have ih := selectBy_take_cond cs xs
    unfold selectBy at ih ⊢
    simp only [List.length_cons, List.take_succ_cons, List.zip_cons_cons]
    cases c <;> simp [ih]

/-- selecting block by block on common chunks is selecting on the whole -/
theorem zipWith_selectBy_flatten {α} : ∀ (cs : List Nat) (cond : List Bool) (xs : List α),
    cond.length = sum cs → xs.length = sum cs →
    (List.zipWith selectBy (splitBy cs cond) (splitBy cs xs)).flatten = selectBy cond xs
  | [], cond, xs, hc, _ => by
    have : cond = [] := List.eq_nil_of_length_eq_zero (by simpa [sum] using hc)
    subst this; simp [splitBy, selectBy]
  | c :: cs, cond, xs, hc, hx => by
    rw [sum_cons] at hc hx
    simp only [splitBy, List.zipWith_cons_cons, List.flatten_cons]
    rw [zipWith_selectBy_flatten cs (cond.drop c) (xs.drop c) (by simp; omega) (by simp; omega)]
    rw [← selectBy_append _ _ _ _ (by simp; omega), List.take_append_drop, List.take_append_drop]

end Dask.Counting
