import DaskModel.Lemmas.SliceLoop
/-! From the loops to `_slice_1d` as a whole: normal forms, the bisect shortcuts, the final clean-ups
    and the output block order. -/
namespace Dask.Slice1D

/-- the shape of `normalize_slice`'s results for an axis of length `n` (what `_slice_1d` may assume) -/
structure Normal (n : Nat) (s : PSlice) : Prop where
  step_ne : s.step ≠ some 0
  start_ok : ∀ v, s.start = some v → 0 ≤ v ∧ (if 0 < stepOf s then v ≤ n else v ≤ (n : Int) - 1)
  stop_ok : ∀ v, s.stop = some v → 0 ≤ v ∧ (if 0 < stepOf s then v ≤ n else v ≤ (n : Int) - 1)

theorem stepOf_ne_zero (s : PSlice) : stepOf s ≠ 0 := by
  unfold stepOf
  split
  · omega
  · split <;> omega

theorem stepOf_eq {s : PSlice} (h : s.step ≠ some 0) : stepOf s = s.step.getD 1 := by
  unfold stepOf
  cases hs : s.step with
  | none => rfl
  | some v =>
    have : v ≠ 0 := by intro h0; apply h; rw [hs, h0]
    simp [this]

theorem pySliceIdx_normal_pos {n : Nat} {s : PSlice} (hn : Normal n s) (hp : 0 < stepOf s) :
    pySliceIdx n s = some (rangeUp (startStop n s).1 (startStop n s).2 (stepOf s)) ∧
    0 ≤ (startStop n s).1 ∧ (startStop n s).2 ≤ n := by
  have hstep := stepOf_eq hn.step_ne
  have h0 : ¬ stepOf s = 0 := stepOf_ne_zero s
  have h1 : ¬ stepOf s < 0 := by omega
  have hnn : ¬ (n : Int) < 0 := by omega
  rcases s with ⟨st, sp, se⟩
  have hst := hn.start_ok
  have hsp := hn.stop_ok
  simp only [hp, if_true] at hst hsp
  simp only at hstep
  cases st with
  | none =>
    cases sp with
    | none =>
      simp [pySliceIdx, pyIndices, startStop, ← hstep, hp, h0, h1, pyRange, hnn]
    | some b =>
      have := hsp b rfl
      have hb : ¬ b < 0 := by omega
      simp [pySliceIdx, pyIndices, startStop, ← hstep, hp, h0, h1, pyRange, hb, hnn]
      rw [show min b (n : Int) = b by omega]; exact ⟨rfl, by omega⟩
  | some a =>
    have := hst a rfl
    have ha : ¬ a < 0 := by omega
    cases sp with
    | none =>
      simp [pySliceIdx, pyIndices, startStop, ← hstep, hp, h0, h1, pyRange, ha, hnn]
      rw [show min a (n : Int) = a by omega]; exact ⟨rfl, by omega⟩
    | some b =>
      have := hsp b rfl
      have hb : ¬ b < 0 := by omega
      simp [pySliceIdx, pyIndices, startStop, ← hstep, hp, h0, h1, pyRange, ha, hb, hnn]
      rw [show min a (n : Int) = a by omega, show min b (n : Int) = b by omega]; exact ⟨rfl, by omega, by omega⟩

theorem pySliceIdx_normal_neg {n : Nat} {s : PSlice} (hn : Normal n s) (hp : stepOf s < 0) :
    pySliceIdx n s = some (rangeDown (startStop n s).1 (startStop n s).2 (stepOf s)) ∧
    (startStop n s).1 < n ∧ -1 ≤ (startStop n s).2 := by
  have hstep := stepOf_eq hn.step_ne
  have h0 : ¬ stepOf s = 0 := stepOf_ne_zero s
  have h1 : ¬ 0 < stepOf s := by omega
  rcases s with ⟨st, sp, se⟩
  have hst := hn.start_ok
  have hsp := hn.stop_ok
  simp only [h1, if_false] at hst hsp
  simp only at hstep
  cases st with
  | none =>
    cases sp with
    | none =>
      simp [pySliceIdx, pyIndices, startStop, ← hstep, hp, h0, h1, pyRange]
      refine ⟨?_, ?_, ?_⟩ <;> (try congr 1) <;> (repeat' split) <;> omega
    | some b =>
      have := hsp b rfl
      have hb : ¬ b < 0 := by omega
      simp [pySliceIdx, pyIndices, startStop, ← hstep, hp, h0, h1, pyRange, hb]
      refine ⟨?_, ?_, ?_⟩ <;> (try congr 1) <;> (repeat' split) <;> omega
  | some a =>
    have := hst a rfl
    have ha : ¬ a < 0 := by omega
    cases sp with
    | none =>
      simp [pySliceIdx, pyIndices, startStop, ← hstep, hp, h0, h1, pyRange, ha]
      refine ⟨?_, ?_, ?_⟩ <;> (try congr 1) <;> (repeat' split) <;> omega
    | some b =>
      have := hsp b rfl
      have hb : ¬ b < 0 := by omega
      simp [pySliceIdx, pyIndices, startStop, ← hstep, hp, h0, h1, pyRange, ha, hb]
      refine ⟨?_, ?_, ?_⟩ <;> (try congr 1) <;> (repeat' split) <;> omega
theorem slice1dRaw_den_pos (n : Nat) (lengths : List Nat) (s : PSlice) (hsum : lengths.sum = n)
    (hp : 0 < stepOf s) (h0 : 0 ≤ (startStop n s).1) (h1 : (startStop n s).2 ≤ n) :
    (slice1dRaw n lengths s).flatMap (blockDen lengths)
      = rangeUp (startStop n s).1 (startStop n s).2 (stepOf s) := by
  unfold slice1dRaw
  generalize hss : startStop n s = p at h0 h1 ⊢
  rcases p with ⟨start, stop⟩
  simp only [hp, if_true] at h0 h1 ⊢
  generalize hist : bisectRight (cumFrom 0 lengths) start = istart
  generalize hbl : bisectLeft (cumFrom 0 lengths) stop = bl
  have histart_le : istart ≤ lengths.length := by
    rw [← hist, ← cumFrom_length 0 lengths]; exact bisectRight_le_length _ _
  have hbl_le : bl ≤ lengths.length := by
    rw [← hbl, ← cumFrom_length 0 lengths]; exact bisectLeft_le_length _ _
  -- the skipped prefix ends at or before start
  have hoff : (((lengths.take istart).sum : Nat) : Int) ≤ start := by
    rcases bisectRight_prefix_le start lengths 0 with h | h
    · rw [hist] at h; omega
    · rw [hist] at h; rw [h]; simpa using h0
  -- the stop lies at or before the end of block istop - 1
  have hstop : stop ≤ (((lengths.take (min (bl + 1) lengths.length)).sum : Nat) : Int) := by
    by_cases hlt : bl < lengths.length
    · have := bisectLeft_next_ge stop lengths 0 (by rw [hbl]; exact hlt)
      rw [hbl] at this
      rw [Nat.min_eq_left (by omega)]
      omega
    · rw [Nat.min_eq_right (by omega), List.take_length, hsum]; exact h1
  have hle := sum_take_le_add lengths istart (min (bl + 1) lengths.length)
  have he : stop - (((lengths.take istart).sum : Nat) : Int)
      ≤ ((((lengths.drop istart).take (min (bl + 1) lengths.length - istart)).sum : Nat) : Int) := by
    have : (((lengths.take (min (bl + 1) lengths.length)).sum : Nat) : Int)
        ≤ (((lengths.take istart).sum : Nat) : Int)
          + ((((lengths.drop istart).take (min (bl + 1) lengths.length - istart)).sum : Nat) : Int) := by
      exact_mod_cast hle
    omega
  have htr := posLoop_trunc (stepOf s) ((lengths.drop istart).take (min (bl + 1) lengths.length - istart))
    ((lengths.drop istart).drop (min (bl + 1) lengths.length - istart)) istart
    (start - (((lengths.take istart).sum : Nat) : Int)) (stop - (((lengths.take istart).sum : Nat) : Int)) he
  rw [List.take_append_drop] at htr
  rw [← htr]
  have hlen : (lengths.take istart).length = istart := by
    rw [List.length_take]; omega
  have hden := posLoop_den (stepOf s) hp (lengths.drop istart) (lengths.take istart)
    (start - (((lengths.take istart).sum : Nat) : Int)) (stop - (((lengths.take istart).sum : Nat) : Int))
    (by omega)
    (by have := sum_take_le_sum lengths istart
        have h2 : (lengths.take istart).sum + (lengths.drop istart).sum = lengths.sum := by
          rw [← List.sum_append, List.take_append_drop]
        have : (((lengths.drop istart).sum : Nat) : Int) = (n : Int) - (((lengths.take istart).sum : Nat) : Int) := by
          omega
        omega)
  rw [hlen, List.take_append_drop] at hden
  rw [hden]
  congr 1 <;> omega

theorem slice1dRaw_den_neg (n : Nat) (lengths : List Nat) (s : PSlice) (hsum : lengths.sum = n)
    (hp : stepOf s < 0) (h0 : (startStop n s).1 < n) (h1 : -1 ≤ (startStop n s).2) :
    (slice1dRaw n lengths s).flatMap (blockDen lengths)
      = rangeDown (startStop n s).1 (startStop n s).2 (stepOf s) := by
  unfold slice1dRaw
  generalize hss : startStop n s = p at h0 h1 ⊢
  rcases p with ⟨start, stop⟩
  have hnp : ¬ 0 < stepOf s := by omega
  simp only [hnp, if_false] at h0 h1 ⊢
  rcases lengths with _ | ⟨l0, ls0⟩
  · simp at hsum
    simp only [List.flatMap_nil]
    rw [rangeDown_nil]; omega
  · simp only []
    generalize hl : l0 :: ls0 = lengths at hsum ⊢
    generalize hbs : bisectRight (cumFrom 0 lengths) start = bs
    generalize hbe : bisectRight (cumFrom 0 lengths) stop = be
    have hlenpos : 0 < lengths.length := by rw [← hl]; simp
    have hbs_le : bs ≤ lengths.length := by
      rw [← hbs, ← cumFrom_length 0 lengths]; exact bisectRight_le_length _ _
    have hbe_le : be ≤ lengths.length := by
      rw [← hbe, ← cumFrom_length 0 lengths]; exact bisectRight_le_length _ _
    have hlo : (max ((be : Int) - 1) (-1) + 1).toNat = be := by omega
    rw [hlo]
    generalize hist : min bs (lengths.length - 1) = istart
    have hist1 : istart + 1 ≤ lengths.length := by omega
    -- nothing below block `be` is selected
    have hbase : (((lengths.take be).sum : Nat) : Int) - 1 ≤ stop := by
      rcases bisectRight_prefix_le stop lengths 0 with h | h
      · rw [hbe] at h; omega
      · rw [hbe] at h; rw [h]; simp; omega
    -- the start lies below the top of block `istart`
    have htop : start < (((lengths.take (istart + 1)).sum : Nat) : Int) := by
      by_cases hlt : bs < lengths.length
      · have := bisectRight_next_gt start lengths 0 (by rw [hbs]; exact hlt)
        rw [hbs] at this
        have : istart = bs := by omega
        rw [this]; omega
      · have : istart + 1 = lengths.length := by omega
        rw [this, List.take_length, hsum]; exact h0
    by_cases hcase : be ≤ istart + 1
    · have hsplit : lengths = lengths.take be ++ ((lengths.take (istart + 1)).drop be) ++ lengths.drop (istart + 1) := by
        have h1 : (lengths.take (istart + 1)).take be = lengths.take be := by
          rw [List.take_take, Nat.min_eq_left hcase]
        rw [← h1, List.take_append_drop, List.take_append_drop]
      have hsums : (((lengths.take be).sum : Nat) : Int) + ((((lengths.take (istart + 1)).drop be).reverse.sum : Nat) : Int)
          = (((lengths.take (istart + 1)).sum : Nat) : Int) := by
        have h1 : (lengths.take (istart + 1)).take be = lengths.take be := by
          rw [List.take_take, Nat.min_eq_left hcase]
        have h2 : ((lengths.take (istart + 1)).take be).sum + ((lengths.take (istart + 1)).drop be).sum
            = (lengths.take (istart + 1)).sum := by
          rw [← List.sum_append, List.take_append_drop]
        rw [h1] at h2
        rw [List.sum_reverse]
        exact_mod_cast h2
      have hlowlen : (lengths.take be).length = be := by rw [List.length_take]; omega
      have hden := negLoop_den (stepOf s) stop hp ((lengths.take (istart + 1)).drop be).reverse
        (lengths.take be) (lengths.drop (istart + 1)) start (by rw [hsums]; exact htop) hbase
      rw [List.reverse_reverse, ← hsplit, hlowlen] at hden
      exact hden
    · have hvis : (lengths.take (istart + 1)).drop be = [] := by
        apply List.drop_eq_nil_of_le
        rw [List.length_take]; omega
      rw [hvis]
      simp only [List.reverse_nil, negLoop, List.flatMap_nil]
      have hm := sum_take_mono lengths (istart + 1) be (by omega)
      rw [rangeDown_nil]
      omega



/-- the raw plan reads Python's selection, for every normal-form slice -/
theorem slice1dRaw_den (n : Nat) (lengths : List Nat) (s : PSlice) (hsum : lengths.sum = n) (hn : Normal n s) :
    some ((slice1dRaw n lengths s).flatMap (blockDen lengths)) = pySliceIdx n s := by
  by_cases hp : 0 < stepOf s
  · obtain ⟨h1, h2, h3⟩ := pySliceIdx_normal_pos hn hp
    rw [h1, slice1dRaw_den_pos n lengths s hsum hp h2 h3]
  · have hneg : stepOf s < 0 := by have := stepOf_ne_zero s; omega
    obtain ⟨h1, h2, h3⟩ := pySliceIdx_normal_neg hn hneg
    rw [h1, slice1dRaw_den_neg n lengths s hsum hneg h2 h3]

/-! ### the two clean-ups -/

theorem blockDen_tidy (lengths : List Nat) (k : Nat) (l : Nat) (h : lengths[k]? = some l) :
    blockDen lengths (k, colon) = blockDen lengths (k, PSlice.ofInts 0 l 1) := by
  simp only [blockDen, h]
  rw [pySliceIdx_colon, pySliceIdx_ofInts_pos (by omega) (by omega) (by omega) (by omega) (by omega)]

theorem tidy_den (lengths : List Nat) (d : List (Nat × PSlice)) :
    (tidy lengths d).flatMap (blockDen lengths) = d.flatMap (blockDen lengths) := by
  induction d with
  | nil => rfl
  | cons p d ih =>
    rcases p with ⟨k, v⟩
    simp only [tidy, List.map_cons, List.flatMap_cons] at ih ⊢
    rw [ih]
    congr 1
    cases h : lengths[k]? with
    | none => rfl
    | some l =>
      simp only
      by_cases hv : v = PSlice.ofInts 0 l 1
      · simp only [hv, if_true]
        exact blockDen_tidy lengths k l h
      · simp only [hv, if_false]

theorem tidy_keys (lengths : List Nat) (d : List (Nat × PSlice)) :
    (tidy lengths d).map Prod.fst = d.map Prod.fst := by
  induction d with
  | nil => rfl
  | cons p d ih =>
    rcases p with ⟨k, v⟩
    simp only [tidy, List.map_cons] at ih ⊢
    rw [ih]
    congr 1
    cases h : lengths[k]? with
    | none => rfl
    | some l =>
      simp only
      split <;> rfl

theorem blockDen_fallback (lengths : List Nat) : blockDen lengths (0, PSlice.ofInts 0 0 1) = [] := by
  simp only [blockDen]
  cases h : lengths[0]? with
  | none => rfl
  | some l =>
    simp only
    rw [pySliceIdx_ofInts_pos (by omega) (by omega) (by omega) (by omega) (by omega)]
    simp [rangeUp_nil]

/-- colon on every block reads the whole axis -/
theorem colonPlan_den : ∀ (ls pre : List Nat),
    ((List.range' pre.length ls.length).map (fun i => (i, colon))).flatMap (blockDen (pre ++ ls))
      = rangeUp ((pre.sum : Nat) : Int) (((pre.sum : Nat) : Int) + ((ls.sum : Nat) : Int)) 1 := by
  intro ls
  induction ls with
  | nil => intro pre; simp [rangeUp_nil]
  | cons l ls ih =>
    intro pre
    have happ : pre ++ l :: ls = (pre ++ [l]) ++ ls := by simp
    have hpre : (((pre ++ [l]).sum : Nat) : Int) = ((pre.sum : Nat) : Int) + (l : Int) := by simp
    have hlen : (pre ++ [l]).length = pre.length + 1 := by simp
    simp only [List.length_cons, List.range'_succ, List.map_cons, List.flatMap_cons]
    have hhead : blockDen (pre ++ l :: ls) (pre.length, colon)
        = rangeUp ((pre.sum : Nat) : Int) (((pre.sum : Nat) : Int) + l) 1 := by
      simp only [blockDen, getElem?_append_length, take_length_append]
      rw [pySliceIdx_colon]
      simp only
      rw [rangeUp_shift _ _ _ (by omega)]
      congr 1 <;> omega
    rw [hhead]
    have htail := ih (pre ++ [l])
    rw [hlen, ← happ, hpre] at htail
    rw [htail]
    have hsum : (((l :: ls).sum : Nat) : Int) = (l : Int) + ((ls.sum : Nat) : Int) := by simp
    rw [hsum]
    by_cases hl : l = 0
    · subst hl
      rw [rangeUp_nil (by omega)]
      simp
    · have hsplit := rangeUp_split (((pre.sum : Nat) : Int) + ((l : Int) + ((ls.sum : Nat) : Int))) 1
        (((pre.sum : Nat) : Int) + l) (by omega) ((pre.sum : Nat) : Int) (by omega)
      rw [hsplit]
      congr 2
      · omega
      · omega
      · omega



/-! ### keys of the plan are emitted in order, so `sorted(items)` (reversed for a negative step) is the insertion order -/

def KeysInc {α : Type} (d : List (Nat × α)) : Prop := List.Pairwise (fun a b => a.1 < b.1) d
def KeysDec {α : Type} (d : List (Nat × α)) : Prop := List.Pairwise (fun a b => b.1 < a.1) d

theorem insertByKey_lt_all {α : Type} (p : Nat × α) (d : List (Nat × α)) (h : ∀ q ∈ d, p.1 < q.1) :
    insertByKey p d = p :: d := by
  cases d with
  | nil => rfl
  | cons q qs =>
    have : p.1 < q.1 := h q (by simp)
    simp [insertByKey, this]

theorem sortByKey_inc {α : Type} (d : List (Nat × α)) (h : KeysInc d) : sortByKey d = d := by
  induction d with
  | nil => rfl
  | cons p d ih =>
    unfold KeysInc at h
    rw [List.pairwise_cons] at h
    simp only [sortByKey]
    rw [ih h.2]
    exact insertByKey_lt_all p d h.1

theorem insertByKey_gt_all {α : Type} (p : Nat × α) (d : List (Nat × α)) (h : ∀ q ∈ d, q.1 < p.1) :
    insertByKey p d = d ++ [p] := by
  induction d with
  | nil => rfl
  | cons q qs ih =>
    have hq : ¬ p.1 < q.1 := by have := h q (by simp); omega
    simp only [insertByKey, hq, if_false, List.cons_append]
    rw [ih (fun r hr => h r (by simp [hr]))]

theorem sortByKey_dec {α : Type} (d : List (Nat × α)) (h : KeysDec d) : sortByKey d = d.reverse := by
  induction d with
  | nil => rfl
  | cons p d ih =>
    unfold KeysDec at h
    rw [List.pairwise_cons] at h
    simp only [sortByKey, List.reverse_cons]
    rw [ih h.2]
    apply insertByKey_gt_all
    intro q hq
    exact h.1 q (by simpa using hq)

theorem posLoop_keys (step : Int) : ∀ (ls : List Nat) (i : Nat) (s e : Int),
    (∀ p ∈ posLoop step ls i s e, i ≤ p.1) ∧ KeysInc (posLoop step ls i s e) := by
  intro ls
  induction ls with
  | nil => intro i s e; simp [posLoop, KeysInc]
  | cons l ls ih =>
    intro i s e
    simp only [posLoop]
    split
    · obtain ⟨h1, h2⟩ := ih (i + 1) ((s - l) % step) (e - l)
      constructor
      · intro p hp
        rcases List.mem_cons.mp hp with rfl | hp
        · exact Nat.le_refl _
        · have := h1 p hp; omega
      · unfold KeysInc
        rw [List.pairwise_cons]
        exact ⟨fun q hq => by have := h1 q hq; simp only; omega, h2⟩
    · obtain ⟨h1, h2⟩ := ih (i + 1) (s - l) (e - l)
      exact ⟨fun p hp => by have := h1 p hp; omega, h2⟩

theorem negLoop_keys (step stop base : Int) (i0 : Nat) : ∀ (rev : List Nat) (r : Int),
    (∀ p ∈ negLoop step stop base i0 rev r, p.1 < i0 + rev.length) ∧ KeysDec (negLoop step stop base i0 rev r) := by
  intro rev
  induction rev with
  | nil => intro r; simp [negLoop, KeysDec]
  | cons l rev ih =>
    intro r
    simp only [negLoop]
    split
    · obtain ⟨h1, h2⟩ := ih (base + ((rev.sum : Nat) : Int) + pyMod (r - (base + ((rev.sum : Nat) : Int) - 1)) step - 1)
      constructor
      · intro p hp
        rcases List.mem_cons.mp hp with rfl | hp
        · simp
        · have := h1 p hp; simp only [List.length_cons]; omega
      · unfold KeysDec
        rw [List.pairwise_cons]
        exact ⟨fun q hq => by have := h1 q hq; simp only; omega, h2⟩
    · obtain ⟨h1, h2⟩ := ih r
      exact ⟨fun p hp => by have := h1 p hp; simp only [List.length_cons]; omega, h2⟩

theorem tidy_keysInc (lengths : List Nat) (d : List (Nat × PSlice)) (h : KeysInc d) : KeysInc (tidy lengths d) := by
  unfold KeysInc at *
  have hk := tidy_keys lengths d
  have h1 : List.Pairwise (fun a b : Nat => a < b) (d.map Prod.fst) := by
    rw [List.pairwise_map]; exact h
  rw [← hk, List.pairwise_map] at h1
  exact h1

theorem tidy_keysDec (lengths : List Nat) (d : List (Nat × PSlice)) (h : KeysDec d) : KeysDec (tidy lengths d) := by
  unfold KeysDec at *
  have hk := tidy_keys lengths d
  have h1 : List.Pairwise (fun a b : Nat => b < a) (d.map Prod.fst) := by
    rw [List.pairwise_map]; exact h
  rw [← hk, List.pairwise_map] at h1
  exact h1

theorem negStep_iff (s : PSlice) : negStep s = true ↔ stepOf s < 0 := by
  unfold negStep stepOf
  cases s.step with
  | none => simp
  | some v =>
    by_cases h : v = 0
    · subst h; simp
    · simp [h]

theorem slice1dRaw_keys (n : Nat) (lengths : List Nat) (s : PSlice) :
    (0 < stepOf s → KeysInc (slice1dRaw n lengths s)) ∧ (¬ 0 < stepOf s → KeysDec (slice1dRaw n lengths s)) := by
  unfold slice1dRaw
  constructor
  · intro hp
    simp only [hp, if_true]
    exact (posLoop_keys _ _ _ _ _).2
  · intro hp
    simp only [hp, if_false]
    cases lengths with
    | nil => simp [KeysDec]
    | cons l ls => exact (negLoop_keys _ _ _ _ _ _).2

/-- `sorted(d.items())`, reversed for a negative step, is just `d` in insertion order -/
theorem outputOrder_slice1d (n : Nat) (lengths : List Nat) (s : PSlice) :
    outputOrder s (slice1d n lengths s) = slice1d n lengths s := by
  unfold slice1d
  by_cases hc : s = colon
  · subst hc
    simp only [if_true]
    have : negStep colon = false := rfl
    simp only [outputOrder, this]
    apply sortByKey_inc
    unfold KeysInc
    rw [List.pairwise_map]
    simp only
    rw [List.range_eq_range']
    exact List.pairwise_lt_range'
  · simp only [hc, if_false]
    by_cases hp : 0 < stepOf s
    · have hneg : negStep s = false := by
        cases h : negStep s with
        | false => rfl
        | true => have := (negStep_iff s).mp h; omega
      have hk := tidy_keysInc lengths _ ((slice1dRaw_keys n lengths s).1 hp)
      split
      · simp [outputOrder, hneg, sortByKey, insertByKey]
      · simp only [outputOrder, hneg]
        exact sortByKey_inc _ hk
    · have hneg : negStep s = true := (negStep_iff s).mpr (by have := stepOf_ne_zero s; omega)
      have hk := tidy_keysDec lengths _ ((slice1dRaw_keys n lengths s).2 hp)
      split
      · simp [outputOrder, hneg, sortByKey, insertByKey]
      · simp only [outputOrder, hneg, if_true]
        rw [sortByKey_dec _ hk, List.reverse_reverse]

end Dask.Slice1D
