import DaskModel.Lemmas.SpecEval
/-! `_task_spec.cull`: the worklist loop computes a dependency-closed sub-graph containing the requested keys, and a
    dependency-closed sub-graph evaluates every kept key exactly as the full graph does. -/
namespace Dask.TaskTerm

theorem lookup_restrictTo {α : Type} (g : List (Obj × α)) : ∀ (V : List Obj) (k : Obj),
    (restrictTo g V).lookup k = if k ∈ V then g.lookup k else none
  | [], k => by simp [restrictTo]
  | x :: V, k => by
    have ih := lookup_restrictTo g V k
    unfold restrictTo at ih ⊢
    simp only [List.filterMap_cons]
    cases hx : g.lookup x with
    | none =>
      simp only [Option.map_none, ih, List.mem_cons]
      by_cases hkx : k = x
      · subst hkx; simp [hx]
      · simp [hkx]
    | some v =>
      simp only [Option.map_some, List.lookup]
      by_cases hkx : (k == x) = true
      · have : k = x := eq_of_beq hkx
        subst this
        simp [hx]
      · have hkx' : (k == x) = false := by simpa using hkx
        have hne : k ≠ x := fun h => by subst h; simp at hkx'
        simp only [hkx', ih, List.mem_cons, hne, false_or]

theorem lookup_isSome_of_mem {α : Type} : ∀ (g : List (Obj × α)) (k : Obj), k ∈ g.map Prod.fst → (g.lookup k).isSome
  | [], _, h => by simp at h
  | (k', v) :: rest, k, h => by
    simp only [List.lookup]
    by_cases hk : (k == k') = true
    · simp [hk]
    · have hk' : (k == k') = false := by simpa using hk
      simp only [hk']
      apply lookup_isSome_of_mem rest k
      simp only [List.map_cons, List.mem_cons] at h
      rcases h with h | h
      · subst h; simp at hk'
      · exact h

theorem mem_keys_of_lookup {α : Type} : ∀ (g : List (Obj × α)) (k : Obj) (v : α), g.lookup k = some v → k ∈ g.map Prod.fst
  | [], _, _, h => by simp at h
  | (k', v') :: rest, k, v, h => by
    simp only [List.lookup] at h
    split at h
    · rename_i heq
      have : k = k' := eq_of_beq heq
      subst this; simp
    · simp only [List.map_cons, List.mem_cons]
      exact Or.inr (mem_keys_of_lookup rest k v h)

/-- a sub-graph that is closed under the dependencies that exist in the full graph evaluates like the full graph -/
theorem evalKeyN_subgraph (g h : NGraph) (cache : Obj → Option Obj)
    (hsub : ∀ k n, h.lookup k = some n → g.lookup k = some n)
    (hcl : ∀ k n, h.lookup k = some n → ∀ d ∈ n.deps, (g.lookup d).isSome → (h.lookup d).isSome) :
    ∀ (fuel : Nat) (k : Obj), (h.lookup k).isSome → evalKeyN h cache fuel k = evalKeyN g cache fuel k
  | 0, _, _ => rfl
  | fuel + 1, k, hk => by
    cases hl : h.lookup k with
    | none => rw [hl] at hk; cases hk
    | some n =>
      simp only [evalKeyN, hl, hsub k n hl]
      apply evalNode_congr
      intro d hd
      cases hdh : h.lookup d with
      | some m => exact evalKeyN_subgraph g h cache hsub hcl fuel d (by simp [hdh])
      | none =>
        have hdg : g.lookup d = none := by
          cases hg : g.lookup d with
          | none => rfl
          | some m =>
            have := hcl k n hl d hd (by simp [hg])
            rw [hdh] at this; cases this
        cases fuel with
        | zero => rfl
        | succ f => simp [evalKeyN, hdh, hdg]

structure CullSpecInv (g : NGraph) (req work seen : List Obj) : Prop where
  seenIn : ∀ k ∈ seen, ∃ n, g.lookup k = some n ∧ ∀ d ∈ n.deps, (g.lookup d).isSome → d ∈ seen ∨ d ∈ work
  reqIn : ∀ k ∈ req, (g.lookup k).isSome → k ∈ seen ∨ k ∈ work

theorem cullSpecLoop_inv (g : NGraph) (req : List Obj) : ∀ (fuel : Nat) (work seen V : List Obj),
    CullSpecInv g req work seen → cullSpecLoop g fuel work seen = some V → CullSpecInv g req [] V
  | fuel, [], seen, V, hi, h => by
    cases fuel <;> (simp only [cullSpecLoop, Option.some.injEq] at h; subst h; exact hi)
  | 0, _ :: _, _, _, _, h => by simp [cullSpecLoop] at h
  | fuel + 1, k :: work, seen, V, hi, h => by
    simp only [cullSpecLoop] at h
    by_cases hs : seen.contains k = true
    · rw [if_pos hs] at h
      have hks : k ∈ seen := by simpa using hs
      refine cullSpecLoop_inv g req fuel work seen V ⟨?_, ?_⟩ h
      · intro x hx
        obtain ⟨n, hn, hd⟩ := hi.seenIn x hx
        refine ⟨n, hn, fun d hdm hdg => ?_⟩
        rcases hd d hdm hdg with h1 | h1
        · exact Or.inl h1
        · rcases List.mem_cons.mp h1 with rfl | h2
          · exact Or.inl hks
          · exact Or.inr h2
      · intro x hx hxg
        rcases hi.reqIn x hx hxg with h1 | h1
        · exact Or.inl h1
        · rcases List.mem_cons.mp h1 with rfl | h2
          · exact Or.inl hks
          · exact Or.inr h2
    · rw [if_neg hs] at h
      cases hl : g.lookup k with
      | none =>
        rw [hl] at h
        refine cullSpecLoop_inv g req fuel work seen V ⟨?_, ?_⟩ h
        · intro x hx
          obtain ⟨n, hn, hd⟩ := hi.seenIn x hx
          refine ⟨n, hn, fun d hdm hdg => ?_⟩
          rcases hd d hdm hdg with h1 | h1
          · exact Or.inl h1
          · rcases List.mem_cons.mp h1 with rfl | h2
            · rw [hl] at hdg; cases hdg
            · exact Or.inr h2
        · intro x hx hxg
          rcases hi.reqIn x hx hxg with h1 | h1
          · exact Or.inl h1
          · rcases List.mem_cons.mp h1 with rfl | h2
            · rw [hl] at hxg; cases hxg
            · exact Or.inr h2
      | some n =>
        rw [hl] at h
        refine cullSpecLoop_inv g req fuel (n.deps ++ work) (seen ++ [k]) V ⟨?_, ?_⟩ h
        · intro x hx
          rcases List.mem_append.mp hx with hx | hx
          · obtain ⟨m, hm, hd⟩ := hi.seenIn x hx
            refine ⟨m, hm, fun d hdm hdg => ?_⟩
            rcases hd d hdm hdg with h1 | h1
            · exact Or.inl (List.mem_append_left _ h1)
            · rcases List.mem_cons.mp h1 with rfl | h2
              · exact Or.inl (by simp)
              · exact Or.inr (List.mem_append_right _ h2)
          · have : x = k := by simpa using hx
            subst this
            exact ⟨n, hl, fun d hdm _ => Or.inr (List.mem_append_left _ hdm)⟩
        · intro x hx hxg
          rcases hi.reqIn x hx hxg with h1 | h1
          · exact Or.inl (List.mem_append_left _ h1)
          · rcases List.mem_cons.mp h1 with rfl | h2
            · exact Or.inl (by simp)
            · exact Or.inr (List.mem_append_right _ h2)

/-- what the loop returns: a set of graph keys that contains the requested graph keys and is closed under dependencies -/
theorem cullSpecLoop_closed (g : NGraph) (keys : List Obj) {fuel : Nat} {V : List Obj}
    (h : cullSpecLoop g fuel keys [] = some V) :
    (∀ k ∈ keys, (g.lookup k).isSome → k ∈ V) ∧
    ∀ k ∈ V, ∃ n, g.lookup k = some n ∧ ∀ d ∈ n.deps, (g.lookup d).isSome → d ∈ V := by
  have hi := cullSpecLoop_inv g keys fuel keys [] V
    ⟨fun k hk => by simp at hk, fun k hk _ => Or.inr hk⟩ h
  constructor
  · intro k hk hg
    rcases hi.reqIn k hk hg with h1 | h1
    · exact h1
    · simp at h1
  · intro k hk
    obtain ⟨n, hn, hd⟩ := hi.seenIn k hk
    refine ⟨n, hn, fun d hdm hdg => ?_⟩
    rcases hd d hdm hdg with h1 | h1
    · exact h1
    · simp at h1

end Dask.TaskTerm
