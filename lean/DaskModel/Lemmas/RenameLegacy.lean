import DaskModel.Lemmas.RenameLayer
/-! C16, the legacy branch of `Layer.clone` keeps values (review round): `clone_value` under the statement's legacy
    semantics `evalObj`, and the layer-level theorem `cloneLegacyLayer_values`. -/
namespace Dask.TaskTerm

/-! ### the legacy branch keeps values (statement semantics `evalObj`) -/

/-- an object that neither `evalObj` nor `clone_value` descends into: everything except task tuples, lists and dicts -/
def isAtom : Obj → Bool
  | .tuple (h :: _) => !h.callable
  | .list _ => false
  | .dict _ => false
  | _ => true

mutual
/-- the atoms `clone_value` tests for membership in `keys` -/
def atomsOf : Obj → List Obj
  | .tuple (h :: args) => if h.callable then atomsOfList args else [.tuple (h :: args)]
  | .list xs => atomsOfList xs
  | .dict kvs => atomsOfVals kvs
  | o => [o]
def atomsOfList : List Obj → List Obj
  | [] => []
  | x :: xs => atomsOf x ++ atomsOfList xs
def atomsOfVals : List (Obj × Obj) → List Obj
  | [] => []
  | (_, v) :: rest => atomsOf v ++ atomsOfVals rest
end

theorem evalObj_atom (keys : List Obj) (env : Obj → Option Obj) : ∀ o : Obj, isAtom o = true →
    evalObj keys env o = if inKeys keys o then env o else some o
  | .tuple (h :: args), ha => by
    have hc : h.callable = false := by simpa [isAtom] using ha
    simp [evalObj, hc]
  | .tuple [], _ => by simp [evalObj]
  | .list _, ha => by simp [isAtom] at ha
  | .dict _, ha => by simp [isAtom] at ha
  | .int n, _ => by simp [evalObj]
  | .str s, _ => by simp [evalObj]
  | .none, _ => by simp [evalObj, inKeys, Obj.keyTyped]
  | .fn f, _ => by simp [evalObj, inKeys, Obj.keyTyped]
  | .quoted v, _ => by simp [evalObj, inKeys, Obj.keyTyped]
  | .app f a k, _ => by simp [evalObj, inKeys, Obj.keyTyped]

theorem cloneValue_atom (keys : List Obj) (ρ : Obj → Obj) : ∀ o : Obj, isAtom o = true →
    cloneValue keys ρ o = if o.hashable && keys.contains o then (ρ o, true) else (o, false)
  | .tuple (h :: args), ha => by
    have hc : h.callable = false := by simpa [isAtom] using ha
    simp [cloneValue, hc]
  | .tuple [], _ => by simp [cloneValue, Obj.hashable, hashableList]
  | .list _, ha => by simp [isAtom] at ha
  | .dict _, ha => by simp [isAtom] at ha
  | .int n, _ => by simp [cloneValue]
  | .str s, _ => by simp [cloneValue]
  | .none, _ => by simp [cloneValue]
  | .fn f, _ => by simp [cloneValue]
  | .quoted v, _ => by simp [cloneValue]
  | .app f a k, _ => by simp [cloneValue]

theorem atomsOf_atom : ∀ o : Obj, isAtom o = true → atomsOf o = [o]
  | .tuple (h :: args), ha => by
    have hc : h.callable = false := by simpa [isAtom] using ha
    simp [atomsOf, hc]
  | .tuple [], _ => by simp [atomsOf]
  | .list _, ha => by simp [isAtom] at ha
  | .dict _, ha => by simp [isAtom] at ha
  | .int n, _ => by simp [atomsOf]
  | .str s, _ => by simp [atomsOf]
  | .none, _ => by simp [atomsOf]
  | .fn f, _ => by simp [atomsOf]
  | .quoted v, _ => by simp [atomsOf]
  | .app f a k, _ => by simp [atomsOf]

section Eval
variable (keys allk allk' : List Obj) (ρ : Obj → Obj) (env env' : Obj → Option Obj)

/-- what `cloneValue_eval` needs about a replaced atom / an atom that stays -/
def AtomIn : Prop := ∀ o, o.hashable = true → o ∈ keys →
  isAtom (ρ o) = true ∧ inKeys allk o = true ∧ inKeys allk' (ρ o) = true ∧ env' (ρ o) = env o
def AtomOut (o : Obj) : Prop := (o.hashable = false ∨ o ∉ keys) →
  inKeys allk' o = inKeys allk o ∧ (inKeys allk o = true → env' o = env o)

theorem cloneValue_eval_atom (hin : AtomIn keys allk allk' ρ env env') (o : Obj) (ha : isAtom o = true)
    (hout : AtomOut keys allk allk' env env' o) :
    evalObj allk' env' (cloneValue keys ρ o).1 = evalObj allk env o := by
  rw [cloneValue_atom keys ρ o ha, evalObj_atom allk env o ha]
  by_cases hc : (o.hashable && keys.contains o) = true
  · simp only [hc, if_true]
    have hh : o.hashable = true ∧ o ∈ keys := by simpa using hc
    obtain ⟨h1, h2, h3, h4⟩ := hin o hh.1 hh.2
    rw [evalObj_atom allk' env' (ρ o) h1, h2, h3]
    simp [h4]
  · have hc' : (o.hashable && keys.contains o) = false := by simpa using hc
    simp only [hc', Bool.false_eq_true, if_false]
    have hh : o.hashable = false ∨ o ∉ keys := by
      cases h : o.hashable with
      | false => exact Or.inl rfl
      | true => right; intro hm; simp [h, hm] at hc'
    obtain ⟨h1, h2⟩ := hout hh
    rw [evalObj_atom allk' env' o ha, h1]
    by_cases hk : inKeys allk o = true
    · simp [hk, h2 hk]
    · have : inKeys allk o = false := by simpa using hk
      simp [this]

mutual
/-- **`clone_value` keeps the value** of a legacy object under the statement's semantics -/
theorem cloneValue_eval (hin : AtomIn keys allk allk' ρ env env') : ∀ v : Obj,
    (∀ o ∈ atomsOf v, AtomOut keys allk allk' env env' o) →
    evalObj allk' env' (cloneValue keys ρ v).1 = evalObj allk env v
  | .tuple (h :: args), hout => by
    by_cases hc : h.callable = true
    · have hl := cloneValues_eval hin args (by simpa [atomsOf, hc] using hout)
      simp only [cloneValue, hc, if_true, evalObj, hl]
    · have hc' : h.callable = false := by simpa using hc
      have ha : isAtom (.tuple (h :: args)) = true := by simp [isAtom, hc']
      exact cloneValue_eval_atom keys allk allk' ρ env env' hin _ ha (hout _ (by simp [atomsOf_atom _ ha]))
  | .tuple [], hout => cloneValue_eval_atom keys allk allk' ρ env env' hin _ rfl (hout _ (by simp [atomsOf]))
  | .list xs, hout => by
    have hl := cloneValues_eval hin xs (by simpa [atomsOf] using hout)
    simp only [cloneValue, evalObj, hl]
  | .dict kvs, hout => by
    have hl := cloneDictVals_eval hin kvs (by simpa [atomsOf] using hout)
    simp only [cloneValue, evalObj, hl]
  | .int n, hout => cloneValue_eval_atom keys allk allk' ρ env env' hin _ rfl (hout _ (by simp [atomsOf]))
  | .str s, hout => cloneValue_eval_atom keys allk allk' ρ env env' hin _ rfl (hout _ (by simp [atomsOf]))
  | .none, hout => cloneValue_eval_atom keys allk allk' ρ env env' hin _ rfl (hout _ (by simp [atomsOf]))
  | .fn f, hout => cloneValue_eval_atom keys allk allk' ρ env env' hin _ rfl (hout _ (by simp [atomsOf]))
  | .quoted q, hout => cloneValue_eval_atom keys allk allk' ρ env env' hin _ rfl (hout _ (by simp [atomsOf]))
  | .app f a k, hout => cloneValue_eval_atom keys allk allk' ρ env env' hin _ rfl (hout _ (by simp [atomsOf]))
theorem cloneValues_eval (hin : AtomIn keys allk allk' ρ env env') : ∀ vs : List Obj,
    (∀ o ∈ atomsOfList vs, AtomOut keys allk allk' env env' o) →
    evalObjs allk' env' (cloneValues keys ρ vs).1 = evalObjs allk env vs
  | [], _ => by simp [cloneValues, evalObjs]
  | x :: xs, hout => by
    have h1 := cloneValue_eval hin x (fun o ho => hout o (by simp [atomsOfList, ho]))
    have h2 := cloneValues_eval hin xs (fun o ho => hout o (by simp [atomsOfList, ho]))
    simp only [cloneValues, evalObjs, h1, h2]
theorem cloneDictVals_eval (hin : AtomIn keys allk allk' ρ env env') : ∀ kvs : List (Obj × Obj),
    (∀ o ∈ atomsOfVals kvs, AtomOut keys allk allk' env env' o) →
    evalVals allk' env' (cloneDictVals keys ρ kvs).1 = evalVals allk env kvs
  | [], _ => by simp [cloneDictVals, evalVals]
  | (k, v) :: rest, hout => by
    have h1 := cloneValue_eval hin v (fun o ho => hout o (by simp [atomsOfVals, ho]))
    have h2 := cloneDictVals_eval hin rest (fun o ho => hout o (by simp [atomsOfVals, ho]))
    simp only [cloneDictVals, evalVals, h1, h2]
end
end Eval

theorem cloneValue_id_atom (keys : List Obj) (ρ : Obj → Obj) (o : Obj) (ha : isAtom o = true)
    (hf : (cloneValue keys ρ o).2 = false) : (cloneValue keys ρ o).1 = o := by
  rw [cloneValue_atom keys ρ o ha] at hf ⊢
  by_cases c : (o.hashable && keys.contains o) = true
  · rw [if_pos c] at hf; cases hf
  · rw [if_neg c]

mutual
/-- a value without reference to a replaced key is returned unchanged -/
theorem cloneValue_id (keys : List Obj) (ρ : Obj → Obj) : ∀ o : Obj, (cloneValue keys ρ o).2 = false → (cloneValue keys ρ o).1 = o
  | .tuple (h :: args), hf => by
    by_cases hc : h.callable = true
    · simp only [cloneValue, hc, if_true] at hf ⊢
      rw [cloneValues_id keys ρ args hf]
    · have hc' : h.callable = false := by simpa using hc
      exact cloneValue_id_atom keys ρ _ (by simp [isAtom, hc']) hf
  | .tuple [], hf => cloneValue_id_atom keys ρ _ rfl hf
  | .list xs, hf => by
    simp only [cloneValue] at hf ⊢
    rw [cloneValues_id keys ρ xs hf]
  | .dict kvs, hf => by
    simp only [cloneValue] at hf ⊢
    rw [cloneDictVals_id keys ρ kvs hf]
  | .int n, hf => cloneValue_id_atom keys ρ _ rfl hf
  | .str s, hf => cloneValue_id_atom keys ρ _ rfl hf
  | .none, hf => cloneValue_id_atom keys ρ _ rfl hf
  | .fn f, hf => cloneValue_id_atom keys ρ _ rfl hf
  | .quoted v, hf => cloneValue_id_atom keys ρ _ rfl hf
  | .app f a k, hf => cloneValue_id_atom keys ρ _ rfl hf
theorem cloneValues_id (keys : List Obj) (ρ : Obj → Obj) : ∀ os : List Obj, (cloneValues keys ρ os).2 = false → (cloneValues keys ρ os).1 = os
  | [], _ => by simp [cloneValues]
  | x :: xs, hf => by
    simp only [cloneValues, Bool.or_eq_false_iff] at hf ⊢
    rw [cloneValue_id keys ρ x hf.1, cloneValues_id keys ρ xs hf.2]
theorem cloneDictVals_id (keys : List Obj) (ρ : Obj → Obj) : ∀ kvs : List (Obj × Obj),
    (cloneDictVals keys ρ kvs).2 = false → (cloneDictVals keys ρ kvs).1 = kvs
  | [], _ => by simp [cloneDictVals]
  | (k, v) :: rest, hf => by
    simp only [cloneDictVals, Bool.or_eq_false_iff] at hf ⊢
    rw [cloneValue_id keys ρ v hf.1, cloneDictVals_id keys ρ rest hf.2]
end

theorem cloneLegacyEntryB_key (keys : List Obj) (ρ : Obj → Obj) (bindTo : Option Obj) (bindFn k v : Obj) :
    (cloneLegacyEntryB keys ρ bindTo bindFn k v).1.1 = keyedRho keys ρ k := by
  unfold cloneLegacyEntryB keyedRho
  split
  · cases bindTo with
    | none => rfl
    | some b => simp only []; split <;> rfl
  · rfl

/-- what the legacy layer theorem assumes: the universe `D` contains the keys and every key-like atom of the values, the
    applied renaming is injective on it, replaced keys are keys of the graph, keys (old and new) are key-typed hashable
    non-task objects (`clone_key` maps strings to strings and `(str, …)` tuples to such tuples), and entries that are
    not regenerated do not refer to regenerated keys -/
structure LegacyCtx (keys D : List Obj) (ρ : Obj → Obj) (g : LGraph) : Prop where
  keysD : ∀ kv ∈ g, kv.1 ∈ D
  atomsD : ∀ kv ∈ g, ∀ o ∈ atomsOf kv.2, o.keyTyped = true → o.hashable = true → o ∈ D
  inj : ∀ a ∈ D, ∀ b ∈ D, keyedRho keys ρ a = keyedRho keys ρ b → a = b
  keysIn : ∀ k ∈ keys, k ∈ g.map Prod.fst
  keyLike : ∀ k ∈ g.map Prod.fst, k.keyTyped = true ∧ k.hashable = true
  rhoLike : ∀ k ∈ keys, isAtom (ρ k) = true ∧ (ρ k).keyTyped = true ∧ (ρ k).hashable = true
  closed : ∀ kv ∈ g, kv.1 ∉ keys → legacyRefs keys kv.2 = []

theorem cloneLegacyEntry_value_nobind {keys D : List Obj} {ρ : Obj → Obj} {g : LGraph} (H : LegacyCtx keys D ρ g)
    (bindFn : Obj) {k v : Obj} (hkv : (k, v) ∈ g) :
    (cloneLegacyEntryB keys ρ none bindFn k v).1.2 = (cloneValue keys ρ v).1 := by
  unfold cloneLegacyEntryB
  by_cases hk : k ∈ keys
  · simp [hk]
  · simp only [List.contains_eq_mem, hk, decide_false, Bool.false_eq_true, if_false]
    have hf : (cloneValue keys ρ v).2 = false := by rw [cloneValue_flag, H.closed _ hkv hk]; rfl
    exact (cloneValue_id keys ρ v hf).symm

/-- **`Layer.clone` keeps the values of a legacy layer** (no blocker; statement semantics `evalKeyL`): fuel for fuel, the
    cloned layer computes under the regenerated key what the original computes under `k` -/
theorem cloneLegacyLayer_values {keys D : List Obj} {ρ : Obj → Obj} {g : LGraph} (H : LegacyCtx keys D ρ g) (bindFn : Obj)
    (cache cache' : Obj → Option Obj) (hc : ∀ k ∈ D, cache' (keyedRho keys ρ k) = cache k) :
    ∀ (fuel : Nat), ∀ k ∈ D,
      evalKeyL (cloneLegacyLayer keys ρ none bindFn g).1 ((cloneLegacyLayer keys ρ none bindFn g).1.map Prod.fst) cache' fuel
        (keyedRho keys ρ k) = evalKeyL g (g.map Prod.fst) cache fuel k
  | 0, _, _ => rfl
  | fuel + 1, k, hk => by
    have ih := cloneLegacyLayer_values H bindFn cache cache' hc fuel
    have hkeys : (cloneLegacyLayer keys ρ none bindFn g).1.map Prod.fst = (g.map Prod.fst).map (keyedRho keys ρ) :=
      keys_map_entry (fun kv => (cloneLegacyEntryB keys ρ none bindFn kv.1 kv.2).1) (keyedRho keys ρ)
        (fun kv => cloneLegacyEntryB_key keys ρ none bindFn kv.1 kv.2) g
    have hlook : (cloneLegacyLayer keys ρ none bindFn g).1.lookup (keyedRho keys ρ k) =
        (g.lookup k).map fun v => (cloneLegacyEntryB keys ρ none bindFn k v).1.2 :=
      lookup_map_entry (fun kv => (cloneLegacyEntryB keys ρ none bindFn kv.1 kv.2).1) (keyedRho keys ρ) D
        (fun kv => cloneLegacyEntryB_key keys ρ none bindFn kv.1 kv.2) H.inj g H.keysD k hk
    rw [evalKeyL, evalKeyL, hlook]
    cases hl : g.lookup k with
    | none => simp [hc k hk]
    | some v =>
      have hkv := mem_of_lookup g k v hl
      simp only [Option.map_some]
      rw [cloneLegacyEntry_value_nobind H bindFn hkv, hkeys]
      rw [hkeys] at ih
      have hallD : ∀ a ∈ g.map Prod.fst, a ∈ D := by
        intro a ha
        obtain ⟨kv, hkv', rfl⟩ := List.mem_map.mp ha
        exact H.keysD kv hkv'
      apply cloneValue_eval
      · -- replaced atoms
        intro o ho hok
        have hoa := H.keysIn o hok
        obtain ⟨h1, h2, h3⟩ := H.rhoLike o hok
        obtain ⟨h4, h5⟩ := H.keyLike o hoa
        refine ⟨h1, by simp [inKeys, h4, h5, hoa], ?_, ?_⟩
        · simp only [inKeys, h2, h3, Bool.true_and, List.contains_eq_mem, decide_eq_true_eq]
          exact List.mem_map.mpr ⟨o, hoa, keyedRho_of_mem hok⟩
        · rw [← keyedRho_of_mem (ρ := ρ) hok]; exact ih o (hallD o hoa)
      · -- atoms that stay
        intro o ho hout
        by_cases hkt : o.keyTyped = true ∧ o.hashable = true
        · have hoD := H.atomsD _ hkv o ho hkt.1 hkt.2
          have hnk : o ∉ keys := by
            rcases hout with h | h
            · rw [hkt.2] at h; cases h
            · exact h
          have hro : keyedRho keys ρ o = o := keyedRho_of_not_mem hnk
          have hmem : o ∈ (g.map Prod.fst).map (keyedRho keys ρ) ↔ o ∈ g.map Prod.fst := by
            constructor
            · intro hm
              obtain ⟨a, ha, e⟩ := List.mem_map.mp hm
              have : a = o := H.inj a (hallD a ha) o hoD (e.trans hro.symm)
              exact this ▸ ha
            · intro hm
              exact List.mem_map.mpr ⟨o, hm, hro⟩
          constructor
          · simp only [inKeys, hkt.1, hkt.2, Bool.true_and, List.contains_eq_mem]
            exact decide_eq_decide.mpr hmem
          · intro hik
            have : o ∈ g.map Prod.fst := by simpa [inKeys, hkt.1, hkt.2] using hik
            rw [← hro]; rw [hro]
            have := ih o (hallD o this)
            rw [hro] at this; exact this
        · have hf : ∀ ks : List Obj, inKeys ks o = false := by
            intro ks
            simp only [inKeys]
            by_cases h1 : o.keyTyped = true
            · have : o.hashable = false := by
                cases h2 : o.hashable with
                | true => exact absurd ⟨h1, h2⟩ hkt
                | false => rfl
              simp [this]
            · have : o.keyTyped = false := by simpa using h1
              simp [this]
          exact ⟨by rw [hf, hf], fun h => by rw [hf] at h; cases h⟩

end Dask.TaskTerm
