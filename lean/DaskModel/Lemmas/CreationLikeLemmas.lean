import DaskModel.Model.CreationLike

/-! Helper lemmas for `Props/C34xLike.lean`: `normalize_chunks(a.chunks, a.shape) = a.chunks` for a template with known
sizes (every stage of `Chunks.normalize` is the identity on a tuple of valid tuples). -/

namespace Dask.CreationLike
open Dask.Chunks

theorem template_length : ∀ {shape : List Nat} {cs : List (List Nat)}, Template shape cs → cs.length = shape.length
  | [], [], _ => rfl
  | _ :: _, _ :: _, h => by simp [template_length h.2.2]
  | [], _ :: _, h => by cases h
  | _ :: _, [], h => by cases h

theorem any_fill_tups (cs : List (List Nat)) :
    (cs.map tupOf).any (fun c => c == Spec.int (-1) || c == Spec.none) = false := by
  induction cs with
  | nil => rfl
  | cons c cs ih => simp [tupOf, ih]

theorem fillFull'_tups (cs : List (List Nat)) (shape : List Nat) : fillFull' (cs.map tupOf) shape = cs.map tupOf := by
  simp only [fillFull', any_fill_tups]; rfl

theorem any_neg_tups (cs : List (List Nat)) : (cs.map tupOf).any Spec.isNeg = false := by
  induction cs with
  | nil => rfl
  | cons c cs ih =>
    simp only [List.map_cons, List.any_cons, ih, Bool.or_false]
    simp only [tupOf, Spec.isNeg, List.any_map, List.any_eq_false]
    intro x _; simp

theorem resolveLimit_tups (cs : List (List Nat)) (lim : Option Nat) : resolveLimit (cs.map tupOf) lim = .ok lim := by
  induction cs with
  | nil => rfl
  | cons c cs ih => simp only [List.map_cons, tupOf, resolveLimit]; exact ih

theorem bytesToAuto_tups (cs : List (List Nat)) : (cs.map tupOf).map bytesToAuto = cs.map tupOf := by
  induction cs with
  | nil => rfl
  | cons c cs ih => simp only [List.map_cons, ih]; rfl

theorem any_auto_tups (cs : List (List Nat)) : (cs.map tupOf).any Spec.isAuto = false := by
  induction cs with
  | nil => rfl
  | cons c cs ih => simp only [List.map_cons, List.any_cons, ih, Bool.or_false]; rfl

theorem convertInts_tups : ∀ (shape : List Nat) (cs : List (List Nat)), cs.length = shape.length →
    convertInts shape (cs.map tupOf) = .ok (asInts cs)
  | [], [], _ => rfl
  | s :: ss, c :: cs, h => by
    have ih := convertInts_tups ss cs (by simpa using h)
    simp only [List.map_cons, convertInts, tupOf, convertOne]
    rw [ih]; rfl
  | [], _ :: _, h => by simp at h
  | _ :: _, [], h => by simp at h

theorem isum_ofNat (c : List Nat) : isum (c.map Int.ofNat) = (sum c : Int) := by
  induction c with
  | nil => rfl
  | cons x c ih => simp only [List.map_cons, isum, sum, List.foldr_cons] at *; rw [ih]; simp

theorem template_post : ∀ {shape : List Nat} {cs : List (List Nat)}, Template shape cs →
    (asInts cs).any List.isEmpty = false ∧ sumsMatch (asInts cs) shape = true
  | [], [], _ => ⟨rfl, rfl⟩
  | s :: ss, c :: cs, h => by
    obtain ⟨h1, h2⟩ := template_post h.2.2
    have hc : c ≠ [] := h.1
    constructor
    · simp only [asInts, List.map_cons, List.any_cons] at *
      rw [h1]; cases c with
      | nil => exact absurd rfl hc
      | cons => rfl
    · simp only [asInts, List.map_cons, sumsMatch] at *
      rw [h2, isum_ofNat, h.2.1]; simp
  | [], _ :: _, h => by cases h
  | _ :: _, [], h => by cases h

/-- `normalize_chunks(a.chunks, a.shape)` is `a.chunks`: never raises, never consults `auto_chunks`/the limit -/
theorem normalize_template {shape : List Nat} {cs : List (List Nat)} (h : Template shape cs)
    (limit : Option Nat) (autoRes : Option (List Spec)) :
    normalize (chunksTop cs) shape limit autoRes = .ok (asInts cs) := by
  have hl := template_length h
  obtain ⟨p1, p2⟩ := template_post h
  have hz : zeroFill (cs.map tupOf) shape = cs.map tupOf := by
    cases cs with
    | nil => cases shape with
      | nil => rfl
      | cons => simp at hl
    | cons c cs => simp [zeroFill]
  have hr : regroup1d shape.length (cs.map tupOf) = .ok (cs.map tupOf) := by
    unfold regroup1d
    have : ¬ (shape.length == 1 && decide ((cs.map tupOf).length > 1) && (cs.map tupOf).all Spec.isNumOrStr) = true := by
      simp only [List.length_map, hl]
      intro hh
      simp only [Bool.and_eq_true, beq_iff_eq, decide_eq_true_eq] at hh
      omega
    rw [if_neg this]
  have hpre : preNormalize (chunksTop cs) shape limit = .ok (cs.map tupOf) := by
    simp only [preNormalize, chunksTop, expandTop, hz, hr, fillFull'_tups, any_neg_tups, resolveLimit_tups,
      bytesToAuto_tups, List.length_map, hl]
    simp
  have hfin : finalize shape (cs.map tupOf) = .ok (asInts cs) := by
    unfold finalize
    rw [convertInts_tups shape cs hl]
    have : (if (cs.map tupOf).isEmpty = true then (Except.ok [] : Except Err (List (List Int))) else .ok (asInts cs))
        = .ok (asInts cs) := by
      cases cs <;> rfl
    simp only [this, p1, p2]
    simp
  simp only [normalize, hpre, any_auto_tups, hfin]
  simp

theorem template_sum : ∀ {shape : List Nat} {cs : List (List Nat)}, Template shape cs →
    ∀ i (h1 : i < cs.length) (h2 : i < shape.length), sum cs[i] = shape[i]
  | s :: ss, c :: cs, h, 0, _, _ => h.2.1
  | s :: ss, c :: cs, h, i + 1, h1, h2 => by
    simpa using template_sum h.2.2 i (by simpa using h1) (by simpa using h2)
  | [], [], _, i, h1, _ => by simp at h1
  | [], _ :: _, h, _, _, _ => by cases h
  | _ :: _, [], h, _, _, _ => by cases h

end Dask.CreationLike
