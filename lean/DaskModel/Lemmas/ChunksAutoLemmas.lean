import DaskModel.Model.ChunksAuto
import DaskModel.Lemmas.ChunksNormalize
import DaskModel.Lemmas.ChunksPlanner
/-! C23: post-condition of the modelled `auto_chunks` (for every observed float) and the byte limit of the branch
without `previous_chunks`. -/
namespace Dask.Chunks

/-- an entry `normalize_chunks` can finish: no negative size, a tuple is positive or `(0,)` -/
def SpecOK (c : Spec) : Prop := c.isNeg = false ∧ ∀ t, c = .tup t → (∀ x ∈ t, 0 < x) ∨ t = [0]

def AllOK (l : List Spec) : Prop := ∀ c ∈ l, SpecOK c

theorem AllOK.nonneg {l : List Spec} (h : AllOK l) : ∀ c ∈ l, c.isNeg = false := fun c hc => (h c hc).1
theorem AllOK.tupGood {l : List Spec} (h : AllOK l) : TupGood l := fun t ht => (h _ ht).2 t rfl
theorem allOK_of {l : List Spec} (h1 : ∀ c ∈ l, c.isNeg = false) (h2 : TupGood l) : AllOK l :=
  fun c hc => ⟨h1 c hc, fun t ht => h2 t (ht ▸ hc)⟩

theorem AllOK.cons {c : Spec} {l : List Spec} (hc : SpecOK c) (hl : AllOK l) : AllOK (c :: l) := by
  intro x hx
  rcases List.mem_cons.1 hx with h | h
  · subst h; exact hc
  · exact hl x h

theorem AllOK.tail {c : Spec} {l : List Spec} (h : AllOK (c :: l)) : AllOK l := fun x hx => h x (List.mem_cons_of_mem _ hx)
theorem AllOK.head {c : Spec} {l : List Spec} (h : AllOK (c :: l)) : SpecOK c := h c (by simp)

theorem AllOK.set {l : List Spec} {i : Nat} {c : Spec} (hl : AllOK l) (hc : SpecOK c) : AllOK (l.set i c) := by
  intro x hx
  rcases List.mem_or_eq_of_mem_set hx with h | h
  · exact hl x h
  · subst h; exact hc

theorem specOK_int_nat (n : Nat) : SpecOK (.int (n : Int)) := by
  refine ⟨?_, by intro t ht; cases ht⟩
  simp [Spec.isNeg]

theorem specOK_int_nonneg (z : Int) (hz : 0 ≤ z) : SpecOK (.int z) := by
  refine ⟨?_, by intro t ht; cases ht⟩
  simp [Spec.isNeg]; omega

theorem specOK_flt_nat (n : Nat) : SpecOK (.flt (n : Int)) := by
  refine ⟨?_, by intro t ht; cases ht⟩
  simp [Spec.isNeg]

/-- `(shape[a],)` -/
theorem specOK_single (s : Nat) : SpecOK (.tup [(s : Int)]) := by
  refine ⟨by simp [Spec.isNeg], ?_⟩
  intro t ht
  injection ht with ht; subst ht
  rcases Nat.eq_zero_or_pos s with h | h
  · subst h; right; rfl
  · left; intro x hx; simp at hx; subst hx; exact_mod_cast h

theorem roundTo_ok {num den s : Nat} {c : Spec} (h : roundTo num den s = .ok c) : SpecOK c := by
  unfold roundTo at h
  split at h
  · injection h with h; subst h; exact specOK_int_nat _
  · split at h
    · cases h
    · injection h with h; subst h; exact specOK_flt_nat _

/-! ### without `previous_chunks` -/

theorem fixSmall_length (num den : Nat) : ∀ (cs : List Spec) (ss : List Nat), (fixSmall num den cs ss).length = cs.length
  | [], [] => rfl
  | [], _ :: _ => rfl
  | _ :: _, [] => rfl
  | c :: cs, s :: ss => by simp [fixSmall, fixSmall_length num den cs ss]

theorem fixSmall_ok (num den : Nat) : ∀ (cs : List Spec) (ss : List Nat), AllOK cs → AllOK (fixSmall num den cs ss)
  | [], [], h => h
  | [], _ :: _, _ => by simp [fixSmall, AllOK]
  | _ :: _, [], h => h
  | c :: cs, s :: ss, h => by
    rw [fixSmall]
    refine AllOK.cons ?_ (fixSmall_ok num den cs ss h.tail)
    split
    · exact specOK_single s
    · exact h.head

theorem roundAll_ok (num den : Nat) : ∀ (cs : List Spec) (ss : List Nat) (r : List Spec), AllOK cs →
    roundAll num den cs ss = .ok r → r.length = cs.length ∧ AllOK r
  | [], ss, r, _, h => by
    cases ss <;> (simp [roundAll] at h; subst h; exact ⟨rfl, by simp [AllOK]⟩)
  | _ :: _, [], r, _, h => by simp [roundAll] at h
  | c :: cs, s :: ss, r, hok, h => by
    rw [roundAll] at h
    cases h1 : (if c.isAuto then roundTo num den s else Except.ok c) with
    | error e => simp [h1] at h
    | ok c' =>
      cases h2 : roundAll num den cs ss with
      | error e => simp [h1, h2] at h
      | ok r' =>
        simp [h1, h2] at h; subst h
        obtain ⟨l, g⟩ := roundAll_ok num den cs ss r' hok.tail h2
        refine ⟨by simp [l], AllOK.cons ?_ g⟩
        split at h1
        · exact roundTo_ok h1
        · injection h1 with h1; subst h1; exact hok.head

theorem autoNoPrev_post (shape : List Nat) (isz : Nat) : ∀ (sizes : List Frac) (chunks r : List Spec), AllOK chunks →
    autoNoPrev shape isz chunks sizes = .ok r → r.length = chunks.length ∧ AllOK r
  | [], chunks, r, hok, h => by
    rw [autoNoPrev] at h
    split at h
    · injection h with h; subst h; exact ⟨rfl, hok⟩
    · split at h <;> cases h
  | sz :: rest, chunks, r, hok, h => by
    rw [autoNoPrev] at h
    split at h
    · cases h
    · split at h
      · cases h
      · split at h
        · obtain ⟨l, g⟩ := autoNoPrev_post shape isz rest _ r (fixSmall_ok sz.num sz.den chunks shape hok) h
          exact ⟨by rw [l, fixSmall_length], g⟩
        · split at h
          · exact roundAll_ok sz.num sz.den chunks shape r hok h
          · cases h

/-! ### with `previous_chunks` -/

theorem aggGo_pos (pn pd : Nat) : ∀ (cs : List Nat) (nc : Nat), ∀ x ∈ aggGo pn pd cs nc, 0 < x
  | [], nc, x, hx => by
    rw [aggGo] at hx
    split at hx
    · simp at hx; omega
    · simp at hx
  | c :: cs, nc, x, hx => by
    rw [aggGo] at hx
    split at hx
    · exact aggGo_pos pn pd cs (nc + c) x hx
    · rcases List.mem_append.1 hx with h | h
      · split at h
        · simp at h; omega
        · simp at h
      · exact aggGo_pos pn pd cs c x h

/-- the aggregation keeps the total (so the tuple adds up to the dimension when `previous_chunks` did) -/
theorem aggGo_sum (pn pd : Nat) : ∀ (cs : List Nat) (nc : Nat), sum (aggGo pn pd cs nc) = nc + sum cs
  | [], nc => by
    rw [aggGo]
    split
    · simp [sum]
    · simp [sum]; omega
  | c :: cs, nc => by
    rw [aggGo]
    split
    · rw [aggGo_sum pn pd cs (nc + c), sum_cons]; omega
    · rw [sum_append, aggGo_sum pn pd cs c, sum_cons]
      split
      · simp [sum]
      · simp [sum]; omega

theorem specOK_agg (l : List Nat) (hl : ∀ x ∈ l, 0 < x) : SpecOK (.tup (l.map Int.ofNat)) := by
  refine ⟨?_, ?_⟩
  · simp only [Spec.isNeg, List.any_eq_false]
    intro x hx
    obtain ⟨y, _, rfl⟩ := List.mem_map.1 hx
    simp
  · intro t ht
    injection ht with ht; subst ht
    left
    intro x hx
    obtain ⟨y, hy, rfl⟩ := List.mem_map.1 hx
    have := hl y hy
    simp only [Int.ofNat_eq_natCast]; omega

theorem visitAxis_ok {s : Nat} {prevA : List Nat} {ideal : Nat} {reduce : Bool} {v : AVisit} {c : Spec} {d r : Bool}
    (h : visitAxis s prevA ideal reduce v = .ok (c, d, r)) : SpecOK c := by
  unfold visitAxis at h
  split at h
  · injection h with h; injection h with h1 _; subst h1; exact specOK_single s
  · split at h
    · cases hr : roundTo v.p.num v.p.den ideal with
      | error e => simp [hr] at h
      | ok c' =>
        simp [hr] at h
        obtain ⟨rfl, _⟩ := h
        exact roundTo_ok hr
    · injection h with h; injection h with h1 _; subst h1
      exact specOK_agg _ (aggGo_pos _ _ _ _)

theorem roundGo_ok (shape : List Nat) (prev : List (List Nat)) (reduce : Bool) :
    ∀ (autos : List Nat) (vis : List AVisit) (out : List Spec) (keep : List Nat) (rem : Bool)
      (autos' : List Nat) (vis' : List AVisit) (out' : List Spec) (rem' : Bool), AllOK out →
      roundGo shape prev reduce autos vis out keep rem = .ok (autos', vis', out', rem') →
      out'.length = out.length ∧ AllOK out'
  | [], vis, out, keep, rem, autos', vis', out', rem', hok, h => by
    simp [roundGo] at h
    obtain ⟨_, _, rfl, _⟩ := h
    exact ⟨rfl, hok⟩
  | _ :: _, [], _, _, _, _, _, _, _, _, h => by simp [roundGo] at h
  | a :: as, v :: vis, out, keep, rem, autos', vis', out', rem', hok, h => by
    rw [roundGo] at h
    split at h
    · cases h
    · rename_i c d r hv
      obtain ⟨l, g⟩ := roundGo_ok shape prev reduce as vis (out.set a c) _ _ autos' vis' out' rem'
        (hok.set (visitAxis_ok hv)) h
      exact ⟨by simpa using l, g⟩

theorem prevLoop_ok (shape : List Nat) (prev : List (List Nat)) (reduce : Bool) :
    ∀ (flags : List Bool) (autos : List Nat) (vis : List AVisit) (out r : List Spec), AllOK out →
      prevLoop shape prev reduce flags autos vis out = .ok r → r.length = out.length ∧ AllOK r
  | [], autos, vis, out, r, hok, h => by
    rw [prevLoop] at h
    cases hr : roundGo shape prev reduce autos vis out [] false with
    | error e => simp [hr] at h
    | ok t =>
      obtain ⟨a', v', o', rem⟩ := t
      simp only [hr] at h
      obtain ⟨l, g⟩ := roundGo_ok shape prev reduce autos vis out [] false a' v' o' rem hok hr
      split at h
      · cases h
      · split at h
        · injection h with h; subst h; exact ⟨l, g⟩
        · cases h
  | ch :: flags, autos, vis, out, r, hok, h => by
    rw [prevLoop] at h
    cases hr : roundGo shape prev reduce autos vis out [] false with
    | error e => simp [hr] at h
    | ok t =>
      obtain ⟨a', v', o', rem⟩ := t
      simp only [hr] at h
      obtain ⟨l, g⟩ := roundGo_ok shape prev reduce autos vis out [] false a' v' o' rem hok hr
      split at h
      · split at h
        · obtain ⟨l2, g2⟩ := prevLoop_ok shape prev reduce flags a' v' o' r g h
          exact ⟨by rw [l2, l], g2⟩
        · split at h
          · injection h with h; subst h; exact ⟨l, g⟩
          · cases h
      · cases h

theorem orZero_ok {c : Spec} (h : SpecOK c) : SpecOK (orZero c) := by
  unfold orZero
  split
  · exact specOK_int_nat 0
  · exact h

theorem finishPrev_ok : ∀ (cs os : List Spec), AllOK os → (finishPrev cs os).length = os.length ∧ AllOK (finishPrev cs os)
  | [], os, h => by simp [finishPrev]; exact h
  | _ :: _, [], h => by simp [finishPrev]; exact h
  | c :: cs, o :: os, h => by
    obtain ⟨l, g⟩ := finishPrev_ok cs os h.tail
    rw [finishPrev]
    refine ⟨by simp [l], AllOK.cons ?_ g⟩
    split
    · exact orZero_ok h.head
    · exact h.head

/-- post-condition of the modelled `auto_chunks`, for every value of the observed floats: one entry per dimension,
    no negative size, tuples positive or `(0,)` -/
theorem autoChunks_post {chunks r : List Spec} {shape : List Nat} {isz : Nat} {prev : Option (List (List Nat))}
    {o : AOracle} (hok : AllOK chunks) (h : autoChunks chunks shape isz prev o = .ok r) :
    r.length = chunks.length ∧ AllOK r := by
  unfold autoChunks at h
  split at h
  · injection h with h; subst h; exact ⟨rfl, hok⟩
  · split at h
    · cases h
    split at h
    · rename_i p ps
      cases hp : prevLoop shape (p :: ps) o.reduce o.flags (autosOf 0 chunks) o.visits chunks with
      | error e => simp [hp] at h
      | ok out =>
        simp only [hp] at h
        injection h with h; subst h
        obtain ⟨l, g⟩ := prevLoop_ok shape (p :: ps) o.reduce o.flags _ _ chunks out hok hp
        obtain ⟨l2, g2⟩ := finishPrev_ok chunks out g
        exact ⟨by rw [l2, l], g2⟩
    · exact autoNoPrev_post shape isz o.sizes chunks r hok h

/-! ### the byte limit of the branch without `previous_chunks` -/

/-- the integer part of the observed `size` of every level does not exceed the exact root:
    `int(size) ^ k <= limit / itemsize / largest_block` (what the floating-point `** (1 / k)` is trusted for; a float
    root rounded *up* by an ulp is still sound in this sense unless it crosses an integer; checked on every observed
    value by the harness) -/
def SizesSound (limit isz : Nat) (shape : List Nat) : List Spec → List Frac → Prop
  | _, [] => True
  | chunks, sz :: rest =>
    (0 < sz.den ∧ (sz.num / sz.den) ^ nAutos chunks * (isz * largestBlockSpec chunks) ≤ limit) ∧
    SizesSound limit isz shape (fixSmall sz.num sz.den chunks shape) rest

theorem sizesSoundB_sound (limit isz : Nat) (shape : List Nat) : ∀ (sizes : List Frac) (chunks : List Spec),
    sizesSoundB limit isz shape chunks sizes = true → SizesSound limit isz shape chunks sizes
  | [], _, _ => trivial
  | sz :: rest, chunks, h => by
    simp only [sizesSoundB, Bool.and_eq_true, decide_eq_true_eq] at h
    exact ⟨⟨h.1.1, h.1.2⟩, sizesSoundB_sound limit isz shape rest _ h.2⟩

/-- an observed root that does not exceed the exact one (`size ^ k * X <= limit`) is sound in the sense of `SizesSound` -/
theorem floor_pow_le {num den k X limit : Nat} (hd : 0 < den) (h : num ^ k * X ≤ limit * den ^ k) :
    (num / den) ^ k * X ≤ limit := by
  have h1 : (num / den * den) ^ k ≤ num ^ k := Nat.pow_le_pow_left (Nat.div_mul_le_self num den) k
  rw [Nat.mul_pow] at h1
  have h2 : (num / den) ^ k * X * den ^ k ≤ limit * den ^ k := by
    calc (num / den) ^ k * X * den ^ k = (num / den) ^ k * den ^ k * X := by
          rw [Nat.mul_assoc, Nat.mul_comm X, ← Nat.mul_assoc]
      _ ≤ num ^ k * X := Nat.mul_le_mul_right X h1
      _ ≤ limit * den ^ k := h
  exact Nat.le_of_mul_le_mul_right h2 (Nat.pow_pos hd)

theorem one_le_max_pow (f k : Nat) : 1 ≤ (max 1 f) ^ k := Nat.pow_pos (by omega)

theorem maxW_single (s : Nat) : (Spec.tup [(s : Int)]).maxW = orOne s := by
  have : imax [(s : Int)] = (s : Int) := by simp [imax]
  simp only [Spec.maxW, this, Int.toNat_natCast]

theorem maxW_single_le {s num den : Nat} (hs : s * den < num) (hd : 0 < den) : (Spec.tup [(s : Int)]).maxW ≤ max 1 (num / den) := by
  have : s ≤ num / den := (Nat.le_div_iff_mul_le hd).2 (by omega)
  rw [maxW_single]
  unfold orOne
  split <;> omega

/-- fixing the small dimensions multiplies the largest block by at most `max 1 ⌊size⌋` per auto dimension -/
theorem largestBlock_fixSmall (num den : Nat) (hd : 0 < den) : ∀ (cs : List Spec) (ss : List Nat),
    largestBlockSpec (fixSmall num den cs ss) ≤ largestBlockSpec cs * (max 1 (num / den)) ^ nAutos cs
  | [], [] => by simp [fixSmall, largestBlockSpec, nAutos]
  | [], _ :: _ => by simp [fixSmall, largestBlockSpec, nAutos]
  | c :: cs, [] => by
    rw [fixSmall]
    have := one_le_max_pow (num / den) (nAutos (c :: cs))
    exact Nat.le_mul_of_pos_right _ this
    all_goals simp
  | c :: cs, s :: ss => by
    have ih := largestBlock_fixSmall num den hd cs ss
    rw [fixSmall]
    simp only [largestBlockSpec, nAutos]
    by_cases ha : c.isAuto = true
    · simp only [ha, Bool.true_and, if_true, Nat.one_mul]
      rw [Nat.pow_add, Nat.pow_one]
      by_cases hsm : s * den < num
      · simp only [hsm, decide_true, if_true]
        have hw := maxW_single_le hsm hd
        have hnot : (Spec.tup [(s : Int)]).isAuto = false := rfl
        simp only [hnot, Bool.false_eq_true, if_false]
        calc (Spec.tup [(s : Int)]).maxW * largestBlockSpec (fixSmall num den cs ss)
            ≤ max 1 (num / den) * (largestBlockSpec cs * max 1 (num / den) ^ nAutos cs) := Nat.mul_le_mul hw ih
          _ = largestBlockSpec cs * (max 1 (num / den) * max 1 (num / den) ^ nAutos cs) := by
            rw [← Nat.mul_assoc, Nat.mul_comm _ (largestBlockSpec cs), Nat.mul_assoc]
      · simp only [hsm, decide_false, if_false, ha, if_true, Nat.one_mul, Bool.false_eq_true]
        calc largestBlockSpec (fixSmall num den cs ss)
            ≤ largestBlockSpec cs * max 1 (num / den) ^ nAutos cs := ih
          _ ≤ largestBlockSpec cs * (max 1 (num / den) * max 1 (num / den) ^ nAutos cs) :=
            Nat.mul_le_mul_left _ (Nat.le_mul_of_pos_left _ (by omega))
    · have ha' : c.isAuto = false := by simpa using ha
      simp only [ha', Bool.false_and, Bool.false_eq_true, if_false, Nat.zero_add]
      rw [Nat.mul_assoc]
      exact Nat.mul_le_mul_left _ ih

theorem roundTo_maxW {num den s : Nat} {c : Spec} (hle : num ≤ s * den) (h : roundTo num den s = .ok c) :
    c.isAuto = false ∧ c.maxW = max 1 (num / den) := by
  unfold roundTo at h
  rw [if_pos hle] at h
  injection h with h; subst h
  refine ⟨rfl, ?_⟩
  simp only [Spec.maxW, orOne, Int.toNat_natCast]
  split <;> omega

theorem nAutos_of_hasAuto_false : ∀ (cs : List Spec), hasAuto cs = false → nAutos cs = 0
  | [], _ => rfl
  | c :: cs, h => by
    simp only [hasAuto, List.any_cons, Bool.or_eq_false_iff] at h
    simp [nAutos, h.1, nAutos_of_hasAuto_false cs (by simpa [hasAuto] using h.2)]

/-- final level: no dimension is small, every auto dimension gets `max(1, int(size))` -/
theorem largestBlock_roundAll (num den : Nat) : ∀ (cs : List Spec) (ss : List Nat) (r : List Spec),
    anySmall num den cs ss = false → roundAll num den cs ss = .ok r →
    hasAuto r = false ∧ largestBlockSpec r = largestBlockSpec cs * (max 1 (num / den)) ^ nAutos cs
  | [], ss, r, _, h => by
    cases ss <;> (simp [roundAll] at h; subst h; simp [hasAuto, largestBlockSpec, nAutos])
  | _ :: _, [], r, _, h => by simp [roundAll] at h
  | c :: cs, s :: ss, r, hs, h => by
    rw [roundAll] at h
    simp only [anySmall, Bool.or_eq_false_iff] at hs
    cases h1 : (if c.isAuto then roundTo num den s else Except.ok c) with
    | error e => simp [h1] at h
    | ok c' =>
      cases h2 : roundAll num den cs ss with
      | error e => simp [h1, h2] at h
      | ok r' =>
        simp [h1, h2] at h; subst h
        obtain ⟨g1, g2⟩ := largestBlock_roundAll num den cs ss r' hs.2 h2
        by_cases ha : c.isAuto = true
        · simp only [ha, if_true] at h1
          have hle : num ≤ s * den := by
            have := hs.1; simp [ha] at this; omega
          obtain ⟨a1, a2⟩ := roundTo_maxW hle h1
          refine ⟨by simp [hasAuto, a1] at g1 ⊢; exact g1, ?_⟩
          simp only [largestBlockSpec, nAutos, a1, ha, if_true, Bool.false_eq_true, if_false, a2, g2, Nat.one_mul]
          rw [Nat.pow_add, Nat.pow_one, ← Nat.mul_assoc, Nat.mul_comm _ (largestBlockSpec cs), Nat.mul_assoc,
            Nat.mul_comm (max 1 (num / den))]
        · have ha' : c.isAuto = false := by simpa using ha
          simp only [ha', Bool.false_eq_true, if_false] at h1
          injection h1 with h1; subst h1
          refine ⟨by simp [hasAuto, ha'] at g1 ⊢; exact g1, ?_⟩
          simp only [largestBlockSpec, nAutos, ha', Bool.false_eq_true, if_false, g2, Nat.zero_add, Nat.mul_assoc]

/-- one level: if one element fits and the observed root is sound, `largest_block * max(1, ⌊size⌋) ^ k` still fits -/
theorem level_fits {num den limit isz L k : Nat} (h : (num / den) ^ k * (isz * L) ≤ limit)
    (hfit : isz * L ≤ limit) : isz * (L * (max 1 (num / den)) ^ k) ≤ limit := by
  rcases Nat.eq_zero_or_pos (num / den) with h0 | h0
  · rw [h0]; simp only [Nat.zero_le, Nat.max_eq_left, Nat.one_pow, Nat.mul_one]; exact hfit
  · have : max 1 (num / den) = num / den := by omega
    rw [this, ← Nat.mul_assoc, Nat.mul_comm]; exact h

/-- **byte limit, no `previous_chunks`**: if a single element fits next to the explicitly chunked dimensions
    (`itemsize * largest_block <= limit`) and every observed root is sound, the largest block of the result fits -/
theorem autoNoPrev_limit (limit isz : Nat) (shape : List Nat) : ∀ (sizes : List Frac) (chunks r : List Spec),
    autoNoPrev shape isz chunks sizes = .ok r → SizesSound limit isz shape chunks sizes →
    isz * largestBlockSpec chunks ≤ limit → hasAuto r = false ∧ isz * largestBlockSpec r ≤ limit
  | [], chunks, r, h, _, hfit => by
    rw [autoNoPrev] at h
    split at h
    · injection h with h; subst h
      rename_i hna
      exact ⟨by simpa using hna, hfit⟩
    · split at h <;> cases h
  | sz :: rest, chunks, r, h, hs, hfit => by
    rw [autoNoPrev] at h
    obtain ⟨⟨hd, hsound⟩, hrest⟩ := hs
    split at h
    · cases h
    · split at h
      · cases h
      · split at h
        · refine autoNoPrev_limit limit isz shape rest _ r h hrest ?_
          calc isz * largestBlockSpec (fixSmall sz.num sz.den chunks shape)
              ≤ isz * (largestBlockSpec chunks * (max 1 (sz.num / sz.den)) ^ nAutos chunks) :=
                Nat.mul_le_mul_left _ (largestBlock_fixSmall sz.num sz.den hd chunks shape)
            _ ≤ limit := level_fits hsound hfit
        · split at h
          · rename_i hsm _
            obtain ⟨g1, g2⟩ := largestBlock_roundAll sz.num sz.den chunks shape r (by simpa using hsm) h
            exact ⟨g1, by rw [g2]; exact level_fits hsound hfit⟩
          · cases h

end Dask.Chunks
