import DaskModel.Model.NormalForm
/-!
Python `repr` of `str` and `bytes` as modelled in `Model/NormalForm.lean` is self-delimiting and injective:
from `repr(s) ++ rest` both `s` and `rest` can be read back.  (This is where `['a', 'b']` vs `["a', 'b"]` is
settled: a quote inside a string is either escaped or not the delimiter.)
-/
namespace Dask.NF

/-- value of a lower-case hexadecimal digit -/
def hexVal (c : Char) : Nat := if c.toNat < 58 then c.toNat - 48 else c.toNat - 87

theorem hexVal_hexDigit : ∀ k, k < 16 → hexVal (hexDigit k) = k := by decide

/-- read one (possibly escaped) character of a string body; `none` at the closing quote -/
def unescOne (q : Char) : List Char → Option (Char × List Char)
  | [] => none
  | c :: rest =>
    if c = '\\' then
      match rest with
      | [] => none
      | d :: rest' =>
        if d = 'x' then
          match rest' with
          | h1 :: h2 :: r => some (Char.ofNat (hexVal h1 * 16 + hexVal h2), r)
          | _ => none
        else if d = 't' then some ('\t', rest')
        else if d = 'n' then some ('\n', rest')
        else if d = 'r' then some ('\r', rest')
        else some (d, rest')
    else if c = q then none
    else some (c, rest)

def IsQuote (q : Char) : Prop := q = '\'' ∨ q = '"'

theorem pickQuote_isQuote (cs : List Char) : IsQuote (pickQuote cs) := by
  unfold pickQuote IsQuote
  split <;> simp

theorem hex_roundtrip (n : Nat) (h : n < 256) :
    hexVal (hexDigit (n / 16 % 16)) * 16 + hexVal (hexDigit (n % 16)) = n := by
  rw [hexVal_hexDigit _ (Nat.mod_lt _ (by omega)), hexVal_hexDigit _ (Nat.mod_lt _ (by omega))]
  omega

/-- reading back one escaped character -/
theorem unesc_escChar (q : Char) (hq : IsQuote q) (c : Char) (rest : List Char) :
    unescOne q (escChar q c ++ rest) = some (c, rest) := by
  unfold escChar
  by_cases h1 : (c == q || c == '\\') = true
  · rw [if_pos h1]
    have hc : c = q ∨ c = '\\' := by simpa using h1
    have hx : c ≠ 'x' ∧ c ≠ 't' ∧ c ≠ 'n' ∧ c ≠ 'r' := by
      rcases hc with rfl | rfl
      · rcases hq with rfl | rfl <;> decide
      · decide
    simp [unescOne, hx.1, hx.2.1, hx.2.2.1, hx.2.2.2]
  · rw [if_neg h1]
    have hc : c ≠ q ∧ c ≠ '\\' := by simpa using h1
    by_cases h2 : (c == '\t') = true
    · rw [if_pos h2]
      have : c = '\t' := by simpa using h2
      subst this
      simp [unescOne]
    · rw [if_neg h2]
      by_cases h3 : (c == '\n') = true
      · rw [if_pos h3]
        have : c = '\n' := by simpa using h3
        subst this
        simp [unescOne]
      · rw [if_neg h3]
        by_cases h4 : (c == '\r') = true
        · rw [if_pos h4]
          have : c = '\r' := by simpa using h4
          subst this
          simp [unescOne]
        · rw [if_neg h4]
          by_cases h5 : (decide (c.toNat < 32) || c.toNat == 127) = true
          · rw [if_pos h5]
            have hlt : c.toNat < 256 := by
              have : c.toNat < 32 ∨ c.toNat = 127 := by simpa using h5
              omega
            simp only [hexEsc, List.cons_append, List.nil_append, unescOne, if_true]
            rw [hex_roundtrip _ hlt, Char.ofNat_toNat]
          · rw [if_neg h5]
            simp [unescOne, hc.1, hc.2]

/-- an escaped character never starts with the delimiter -/
theorem escChar_head (q : Char) (hq : IsQuote q) (c : Char) (rest : List Char) :
    ∃ d t, escChar q c ++ rest = d :: t ∧ d ≠ q := by
  have h := unesc_escChar q hq c rest
  cases hs : escChar q c ++ rest with
  | nil => rw [hs] at h; simp [unescOne] at h
  | cons d t =>
    refine ⟨d, t, rfl, ?_⟩
    intro hd
    rw [hs, hd] at h
    have hq' : q ≠ '\\' := by rcases hq with rfl | rfl <;> decide
    simp [unescOne, hq'] at h

/-- the body of a string literal up to the closing quote determines the string and what follows -/
theorem strBody_inj (q : Char) (hq : IsQuote q) : ∀ (cs ds : List Char) (r1 r2 : List Char),
    cs.flatMap (escChar q) ++ q :: r1 = ds.flatMap (escChar q) ++ q :: r2 → cs = ds ∧ r1 = r2
  | [], [], r1, r2, h => by simpa using h
  | [], d :: ds, r1, r2, h => by
    exfalso
    simp only [List.flatMap_nil, List.nil_append, List.flatMap_cons, List.append_assoc] at h
    obtain ⟨x, t, ht, hx⟩ := escChar_head q hq d (ds.flatMap (escChar q) ++ q :: r2)
    rw [ht] at h
    exact hx (List.cons.inj h).1.symm
  | c :: cs, [], r1, r2, h => by
    exfalso
    simp only [List.flatMap_nil, List.nil_append, List.flatMap_cons, List.append_assoc] at h
    obtain ⟨x, t, ht, hx⟩ := escChar_head q hq c (cs.flatMap (escChar q) ++ q :: r1)
    rw [ht] at h
    exact hx (List.cons.inj h).1
  | c :: cs, d :: ds, r1, r2, h => by
    simp only [List.flatMap_cons, List.append_assoc] at h
    have h1 := unesc_escChar q hq c (cs.flatMap (escChar q) ++ q :: r1)
    have h2 := unesc_escChar q hq d (ds.flatMap (escChar q) ++ q :: r2)
    rw [h, h2] at h1
    simp only [Option.some.injEq, Prod.mk.injEq] at h1
    obtain ⟨ih1, ih2⟩ := strBody_inj q hq cs ds r1 r2 h1.2.symm
    exact ⟨by rw [h1.1, ih1], ih2⟩

/-- **`repr` of a str is self-delimiting and injective.** -/
theorem reprStr_inj (cs ds r1 r2 : List Char) (h : reprStrChars cs ++ r1 = reprStrChars ds ++ r2) :
    cs = ds ∧ r1 = r2 := by
  unfold reprStrChars at h
  simp only [List.cons_append, List.append_assoc, List.cons.injEq] at h
  obtain ⟨hq, hb⟩ := h
  rw [← hq] at hb
  exact strBody_inj _ (pickQuote_isQuote cs) cs ds r1 r2 (by simpa using hb)

end Dask.NF

namespace Dask.NF

/-! ## bytes -/

theorem toNat_ofNat_lt (a : Nat) (h : a < 256) : (Char.ofNat a).toNat = a := by
  have : a.isValidChar := Or.inl (by omega)
  simp [Char.ofNat, this, Char.toNat, Char.ofNatAux]

theorem unesc_escByte (q : Char) (hq : IsQuote q) (b : Nat) (hb : b < 256) (rest : List Char) :
    unescOne q (escByte q b ++ rest) = some (Char.ofNat b, rest) := by
  unfold escByte
  simp only
  by_cases h1 : (Char.ofNat b == q || Char.ofNat b == '\\') = true
  · rw [if_pos h1]
    have hc : Char.ofNat b = q ∨ Char.ofNat b = '\\' := by simpa using h1
    have hx : Char.ofNat b ≠ 'x' ∧ Char.ofNat b ≠ 't' ∧ Char.ofNat b ≠ 'n' ∧ Char.ofNat b ≠ 'r' := by
      rcases hc with e | e <;> rw [e]
      · rcases hq with rfl | rfl <;> decide
      · decide
    simp [unescOne, hx.1, hx.2.1, hx.2.2.1, hx.2.2.2]
  · rw [if_neg h1]
    have hc : Char.ofNat b ≠ q ∧ Char.ofNat b ≠ '\\' := by simpa using h1
    by_cases h2 : (Char.ofNat b == '\t') = true
    · rw [if_pos h2]
      have : Char.ofNat b = '\t' := by simpa using h2
      rw [this]
      simp [unescOne]
    · rw [if_neg h2]
      by_cases h3 : (Char.ofNat b == '\n') = true
      · rw [if_pos h3]
        have : Char.ofNat b = '\n' := by simpa using h3
        rw [this]
        simp [unescOne]
      · rw [if_neg h3]
        by_cases h4 : (Char.ofNat b == '\r') = true
        · rw [if_pos h4]
          have : Char.ofNat b = '\r' := by simpa using h4
          rw [this]
          simp [unescOne]
        · rw [if_neg h4]
          by_cases h5 : (decide (b < 32) || decide (b ≥ 127)) = true
          · rw [if_pos h5]
            simp only [hexEsc, List.cons_append, List.nil_append, unescOne, if_true]
            rw [hex_roundtrip _ hb]
          · rw [if_neg h5]
            simp [unescOne, hc.1, hc.2]

theorem escByte_head (q : Char) (hq : IsQuote q) (b : Nat) (hb : b < 256) (rest : List Char) :
    ∃ d t, escByte q b ++ rest = d :: t ∧ d ≠ q := by
  have h := unesc_escByte q hq b hb rest
  cases hs : escByte q b ++ rest with
  | nil => rw [hs] at h; simp [unescOne] at h
  | cons d t =>
    refine ⟨d, t, rfl, ?_⟩
    intro hd
    rw [hs, hd] at h
    have hq' : q ≠ '\\' := by rcases hq with rfl | rfl <;> decide
    simp [unescOne, hq'] at h

theorem bytesBody_inj (q : Char) (hq : IsQuote q) : ∀ (bs ds : List Nat) (r1 r2 : List Char),
    (∀ b ∈ bs, b < 256) → (∀ b ∈ ds, b < 256) →
    bs.flatMap (escByte q) ++ q :: r1 = ds.flatMap (escByte q) ++ q :: r2 → bs = ds ∧ r1 = r2
  | [], [], r1, r2, _, _, h => by simpa using h
  | [], d :: ds, r1, r2, _, hd, h => by
    exfalso
    simp only [List.flatMap_nil, List.nil_append, List.flatMap_cons, List.append_assoc] at h
    obtain ⟨x, t, ht, hx⟩ := escByte_head q hq d (hd d (by simp)) (ds.flatMap (escByte q) ++ q :: r2)
    rw [ht] at h
    exact hx (List.cons.inj h).1.symm
  | c :: cs, [], r1, r2, hc, _, h => by
    exfalso
    simp only [List.flatMap_nil, List.nil_append, List.flatMap_cons, List.append_assoc] at h
    obtain ⟨x, t, ht, hx⟩ := escByte_head q hq c (hc c (by simp)) (cs.flatMap (escByte q) ++ q :: r1)
    rw [ht] at h
    exact hx (List.cons.inj h).1
  | c :: cs, d :: ds, r1, r2, hc, hd, h => by
    simp only [List.flatMap_cons, List.append_assoc] at h
    have h1 := unesc_escByte q hq c (hc c (by simp)) (cs.flatMap (escByte q) ++ q :: r1)
    have h2 := unesc_escByte q hq d (hd d (by simp)) (ds.flatMap (escByte q) ++ q :: r2)
    rw [h, h2] at h1
    simp only [Option.some.injEq, Prod.mk.injEq] at h1
    obtain ⟨ih1, ih2⟩ := bytesBody_inj q hq cs ds r1 r2 (fun b hb => hc b (List.mem_cons_of_mem _ hb))
      (fun b hb => hd b (List.mem_cons_of_mem _ hb)) h1.2.symm
    have e : c = d := by
      have := congrArg Char.toNat h1.1
      rw [toNat_ofNat_lt _ (hc c (by simp)), toNat_ofNat_lt _ (hd d (by simp))] at this
      exact this.symm
    exact ⟨by rw [e, ih1], ih2⟩

/-- **`repr` of a bytes object is self-delimiting and injective.** -/
theorem reprBytes_inj (bs ds : List Nat) (r1 r2 : List Char) (hb : ∀ b ∈ bs, b < 256) (hd : ∀ b ∈ ds, b < 256)
    (h : reprBytesChars bs ++ r1 = reprBytesChars ds ++ r2) : bs = ds ∧ r1 = r2 := by
  unfold reprBytesChars at h
  simp only [List.cons_append, List.append_assoc, List.cons.injEq, true_and] at h
  obtain ⟨hq, hbody⟩ := h
  rw [← hq] at hbody
  exact bytesBody_inj _ (pickQuote_isQuote _) bs ds r1 r2 hb hd (by simpa using hbody)

/-! ## integers -/

/-- a run of digits followed by a non-digit is read back unambiguously -/
theorem digits_prefix_unique : ∀ (d1 d2 r1 r2 : List Char),
    (∀ c ∈ d1, c.isDigit = true) → (∀ c ∈ d2, c.isDigit = true) →
    (∀ c t, r1 = c :: t → c.isDigit = false) → (∀ c t, r2 = c :: t → c.isDigit = false) →
    d1 ++ r1 = d2 ++ r2 → d1 = d2 ∧ r1 = r2
  | [], [], _, _, _, _, _, _, h => ⟨rfl, by simpa using h⟩
  | [], c :: d2, r1, r2, _, h2, hr1, _, h => by
    exfalso
    simp only [List.nil_append, List.cons_append] at h
    have := hr1 c _ h
    rw [h2 c (by simp)] at this
    exact Bool.noConfusion this
  | c :: d1, [], r1, r2, h1, _, _, hr2, h => by
    exfalso
    simp only [List.nil_append, List.cons_append] at h
    have := hr2 c _ h.symm
    rw [h1 c (by simp)] at this
    exact Bool.noConfusion this
  | c :: d1, e :: d2, r1, r2, h1, h2, hr1, hr2, h => by
    simp only [List.cons_append, List.cons.injEq] at h
    obtain ⟨ih1, ih2⟩ := digits_prefix_unique d1 d2 r1 r2 (fun x hx => h1 x (List.mem_cons_of_mem _ hx))
      (fun x hx => h2 x (List.mem_cons_of_mem _ hx)) hr1 hr2 h.2
    exact ⟨by rw [h.1, ih1], ih2⟩

theorem toDigits_inj (n m : Nat) (h : Nat.toDigits 10 n = Nat.toDigits 10 m) : n = m := by
  have h1 := @Nat.ofDigitChars_ten_toDigits n
  have h2 := @Nat.ofDigitChars_ten_toDigits m
  rw [h] at h1
  rw [h1] at h2
  exact h2

/-- decimal `repr` of an int as a character list -/
def intChars (i : Int) : List Char :=
  if 0 ≤ i then Nat.toDigits 10 i.toNat else '-' :: Nat.toDigits 10 (-i).toNat

theorem toString_int_toList (i : Int) : (toString i).toList = intChars i := by
  rw [Int.toString_eq_repr, Int.repr_eq_if]
  unfold intChars
  split <;> simp [String.toList_append]

/-- **`repr` of an int followed by a non-digit is read back unambiguously.** -/
theorem intChars_inj (i j : Int) (r1 r2 : List Char)
    (hr1 : ∀ c t, r1 = c :: t → c.isDigit = false) (hr2 : ∀ c t, r2 = c :: t → c.isDigit = false)
    (h : intChars i ++ r1 = intChars j ++ r2) : i = j ∧ r1 = r2 := by
  have hdig : ∀ n, ∀ c ∈ Nat.toDigits 10 n, c.isDigit = true :=
    fun n c hc => Nat.isDigit_of_mem_toDigits (by decide) (by decide) hc
  have hne : ∀ n, ∃ c t, Nat.toDigits 10 n = c :: t ∧ c.isDigit = true := by
    intro n
    cases hd : Nat.toDigits 10 n with
    | nil => exact absurd hd Nat.toDigits_ne_nil
    | cons c t => exact ⟨c, t, rfl, hdig n c (by rw [hd]; simp)⟩
  unfold intChars at h
  by_cases hi : 0 ≤ i <;> by_cases hj : 0 ≤ j
  · rw [if_pos hi, if_pos hj] at h
    obtain ⟨e1, e2⟩ := digits_prefix_unique _ _ r1 r2 (hdig _) (hdig _) hr1 hr2 h
    have := toDigits_inj _ _ e1
    exact ⟨by omega, e2⟩
  · rw [if_pos hi, if_neg hj] at h
    obtain ⟨c, t, hc, hcd⟩ := hne i.toNat
    rw [hc] at h
    simp only [List.cons_append, List.cons.injEq] at h
    rw [h.1] at hcd
    exact absurd hcd (by decide)
  · rw [if_neg hi, if_pos hj] at h
    obtain ⟨c, t, hc, hcd⟩ := hne j.toNat
    rw [hc] at h
    simp only [List.cons_append, List.cons.injEq] at h
    rw [← h.1] at hcd
    exact absurd hcd (by decide)
  · rw [if_neg hi, if_neg hj] at h
    simp only [List.cons_append, List.cons.injEq, true_and] at h
    obtain ⟨e1, e2⟩ := digits_prefix_unique _ _ r1 r2 (hdig _) (hdig _) hr1 hr2 h
    have := toDigits_inj _ _ e1
    exact ⟨by omega, e2⟩

end Dask.NF
