import DaskModel.Model.NormalForm
import DaskModel.Lemmas.NormalForm
import DaskModel.Lemmas.Restore
/-!
The stable sort by `(str(key), type name)` is canonical when the sort keys are pairwise different: two
permutations of the same items are sorted into the same list (what makes the token of a dict / set independent
of insertion and iteration order).
-/
namespace Dask.NF

theorem keyLe_iff (a b : SortKey) : keyLe a b = true ↔ a.1 < b.1 ∨ (a.1 = b.1 ∧ a.2 ≤ b.2) := by
  simp [keyLe]

theorem keyLe_total (a b : SortKey) (h : keyLe a b = false) : keyLe b a = true := by
  rw [keyLe_iff]
  have h' : ¬ (a.1 < b.1 ∨ (a.1 = b.1 ∧ a.2 ≤ b.2)) := by
    intro hc; rw [← keyLe_iff] at hc; rw [hc] at h; exact Bool.noConfusion h
  have h1 : ¬ a.1 < b.1 := fun hc => h' (Or.inl hc)
  have h1' : b.1 ≤ a.1 := String.not_lt.mp h1
  by_cases he : a.1 = b.1
  · right
    refine ⟨he.symm, ?_⟩
    have h2 : ¬ a.2 ≤ b.2 := fun hc => h' (Or.inr ⟨he, hc⟩)
    have : b.2 < a.2 := String.not_le.mp h2
    rcases String.le_total b.2 a.2 with h3 | h3
    · exact h3
    · exact absurd h3 h2
  · left
    rcases String.le_total a.1 b.1 with h3 | h3
    · exact absurd (String.le_antisymm h3 h1') he
    · exact String.not_le.mp (fun hc => he (String.le_antisymm hc h3))

theorem lt_of_lt_of_le' {a b c : String} (h1 : a < b) (h2 : b ≤ c) : a < c := by
  apply String.not_le.mp
  intro hca
  exact absurd (String.le_trans h2 hca) (String.not_le.mpr h1)

theorem lt_of_le_of_lt' {a b c : String} (h1 : a ≤ b) (h2 : b < c) : a < c := by
  apply String.not_le.mp
  intro hca
  exact absurd (String.le_trans hca h1) (String.not_le.mpr h2)

theorem keyLe_trans (a b c : SortKey) (h1 : keyLe a b = true) (h2 : keyLe b c = true) : keyLe a c = true := by
  rw [keyLe_iff] at *
  rcases h1 with h1 | ⟨e1, l1⟩ <;> rcases h2 with h2 | ⟨e2, l2⟩
  · exact Or.inl (String.lt_trans h1 h2)
  · exact Or.inl (e2 ▸ h1)
  · exact Or.inl (e1 ▸ h2)
  · exact Or.inr ⟨e1.trans e2, String.le_trans l1 l2⟩

theorem keyLe_antisymm (a b : SortKey) (h1 : keyLe a b = true) (h2 : keyLe b a = true) : a = b := by
  rw [keyLe_iff] at *
  rcases h1 with h1 | ⟨e1, l1⟩ <;> rcases h2 with h2 | ⟨e2, l2⟩
  · exact absurd h2 (String.lt_asymm h1)
  · rw [e2] at h1; exact absurd h1 (String.lt_irrefl _)
  · rw [e1] at h2; exact absurd h2 (String.lt_irrefl _)
  · exact Prod.ext e1 (String.le_antisymm l1 l2)

/-- sorted by key -/
def Sorted {α : Type} (l : List (SortKey × α)) : Prop := l.Pairwise (fun x y => keyLe x.1 y.1 = true)

theorem insertFront_sorted {α : Type} (x : SortKey × α) : ∀ l : List (SortKey × α), Sorted l → Sorted (insertFront x l)
  | [], _ => by simp [insertFront, Sorted]
  | y :: ys, h => by
    unfold Sorted at h ⊢
    have h' := List.pairwise_cons.mp h
    unfold insertFront
    split
    · rename_i hxy
      refine List.pairwise_cons.mpr ⟨?_, h⟩
      intro z hz
      rcases List.mem_cons.mp hz with rfl | hz
      · exact hxy
      · exact keyLe_trans _ _ _ hxy (h'.1 z hz)
    · rename_i hxy
      have hyx : keyLe y.1 x.1 = true := keyLe_total _ _ (by simpa using hxy)
      refine List.pairwise_cons.mpr ⟨?_, insertFront_sorted x ys h'.2⟩
      intro z hz
      have : z ∈ x :: ys := (insertFront_perm x ys).subset hz
      rcases List.mem_cons.mp this with rfl | hz'
      · exact hyx
      · exact h'.1 z hz'

theorem ssort_sorted {α : Type} : ∀ l : List (SortKey × α), Sorted (ssort l)
  | [] => by simp [ssort, Sorted]
  | x :: xs => insertFront_sorted x (ssort xs) (ssort_sorted xs)

/-- **with pairwise different sort keys the result of the sort does not depend on the order of the input** -/
theorem ssort_canonical {α : Type} (l₁ l₂ : List (SortKey × α)) (hp : l₁.Perm l₂) (hn : (l₁.map Prod.fst).Nodup) :
    ssort l₁ = ssort l₂ := by
  have s1 : (ssort l₁).Pairwise (fun x y : SortKey × α => keyLe x.1 y.1 = true) := ssort_sorted l₁
  have s2 : (ssort l₂).Pairwise (fun x y : SortKey × α => keyLe x.1 y.1 = true) := ssort_sorted l₂
  refine List.Perm.eq_of_pairwise (le := fun x y : SortKey × α => keyLe x.1 y.1 = true) ?_ s1 s2
    ((ssort_perm l₁).trans (hp.trans (ssort_perm l₂).symm))
  intro a b ha hb hab hba
  have hk : a.1 = b.1 := keyLe_antisymm _ _ hab hba
  have ha' : a ∈ l₁ := (ssort_perm l₁).subset ha
  have hb' : b ∈ l₁ := hp.symm.subset ((ssort_perm l₂).subset hb)
  exact Repack.nodup_map_inj Prod.fst l₁ hn a ha' b hb' hk

end Dask.NF
