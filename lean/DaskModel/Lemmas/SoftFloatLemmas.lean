import DaskModel.Model.CreationFloat
/-! Exactness lemmas of the binary64 model (C34): results that fit are not rounded; exact quotients are exact. -/
namespace Dask.SoftFloat

theorem bitLen_le_iff (a b : Nat) : bitLen a ≤ b ↔ a < 2 ^ b := by
  unfold bitLen
  by_cases h : a = 0
  · subst h; simp; exact Nat.two_pow_pos b
  · simp only [h, if_false]
    rw [← Nat.log2_lt h]; omega

/-- a value with at most 53 significant bits and an exponent in range is not rounded -/
theorem roundDy_of_fits (m e : Int) (hm : m.natAbs < 2 ^ 53) (he : -1074 ≤ e) : roundDy m e = ⟨m, e⟩ := by
  unfold roundDy excessBits
  have := (bitLen_le_iff m.natAbs 53).2 hm
  rw [if_pos (by omega)]

theorem add_same_exp (a b e : Int) : add ⟨a, e⟩ ⟨b, e⟩ = roundDy (a + b) e := by
  simp [add, alignAdd]

theorem sub_same_exp (a b e : Int) : sub ⟨a, e⟩ ⟨b, e⟩ = roundDy (a - b) e := by
  simp [sub, neg, add, alignAdd, Int.sub_eq_add_neg]

theorem ofInt_of_fits (i : Int) (h : i.natAbs < 2 ^ 53) : ofInt i = ⟨i, 0⟩ :=
  roundDy_of_fits i 0 h (by omega)

theorem mul_int_left (i s e : Int) : mul ⟨i, 0⟩ ⟨s, e⟩ = roundDy (i * s) e := by
  simp [mul]

theorem shiftRNE_of_dvd (q s : Nat) : shiftRNE (q * 2 ^ s) s = q := by
  unfold shiftRNE
  by_cases hs : s = 0
  · subst hs; simp
  · have hp : 0 < 2 ^ s := Nat.two_pow_pos s
    have hh : 0 < 2 ^ (s - 1) := Nat.two_pow_pos _
    simp only [hs, if_false, Nat.mul_div_cancel _ hp, Nat.mul_mod_left]
    rw [if_neg (by omega)]

theorem natAbs_scaled (n : Int) (k : Nat) : (n * 2 ^ k).natAbs = n.natAbs * 2 ^ k := by
  rw [Int.natAbs_mul, Int.natAbs_pow]; rfl

theorem sign_scaled (n : Int) (k : Nat) : (n * 2 ^ k).sign = n.sign := by
  rw [Int.sign_mul]
  have : (0 : Int) < 2 ^ k := Int.pow_pos (by decide)
  rw [Int.sign_eq_one_of_pos this, Int.mul_one]

/-- an integer `n` held as `n * 2^k * 2^(-k)` stays the same integer after rounding -/
theorem roundDy_scaled (n : Int) (k : Nat) (hn : n.natAbs < 2 ^ 53) :
    ∃ j : Nat, j ≤ k ∧ roundDy (n * 2 ^ k) (-(k : Int)) = ⟨n * 2 ^ j, -(j : Int)⟩ := by
  unfold roundDy
  by_cases h : excessBits (n * 2 ^ k).natAbs (-(k : Int)) ≤ 0
  · exact ⟨k, Nat.le_refl k, by rw [if_pos h]⟩
  · rw [if_neg h]
    have hle : excessBits (n * 2 ^ k).natAbs (-(k : Int)) ≤ k := by
      unfold excessBits
      have : bitLen (n * 2 ^ k).natAbs ≤ 53 + k := by
        rw [bitLen_le_iff, natAbs_scaled, Nat.pow_add]
        exact Nat.mul_lt_mul_of_lt_of_le hn (Nat.le_refl _) (Nat.two_pow_pos k)
      omega
    obtain ⟨t, ht⟩ : ∃ t : Nat, excessBits (n * 2 ^ k).natAbs (-(k : Int)) = (t : Int) :=
      ⟨_, (Int.toNat_of_nonneg (by omega)).symm⟩
    rw [ht] at hle ⊢
    have htk : t ≤ k := by omega
    refine ⟨k - t, Nat.sub_le k t, ?_⟩
    have e1 : (n * 2 ^ k).natAbs = (n.natAbs * 2 ^ (k - t)) * 2 ^ t := by
      rw [natAbs_scaled, Nat.mul_assoc, ← Nat.pow_add, Nat.sub_add_cancel htk]
    rw [Int.toNat_natCast, e1, shiftRNE_of_dvd, sign_scaled]
    congr 1
    · rw [Int.natCast_mul, ← Int.mul_assoc, Int.sign_mul_natAbs, Int.natCast_pow]; rfl
    · omega

theorem ceil_scaled (n : Int) (j : Nat) : ceil ⟨n * 2 ^ j, -(j : Int)⟩ = n := by
  unfold ceil
  by_cases hj : j = 0
  · subst hj; simp
  · have h1 : ¬ (0 : Int) ≤ -(j : Int) := by omega
    have hp : (0 : Int) < 2 ^ j := Int.pow_pos (by decide)
    simp only [h1, if_false, ceilDivPos, Int.neg_neg, Int.toNat_natCast, Int.natCast_pow]
    rw [show ((2 : Nat) : Int) = 2 from rfl]
    rw [Int.fdiv_eq_ediv_of_nonneg _ (Int.le_of_lt hp), ← Int.neg_mul, Int.mul_ediv_cancel _ (Int.ne_of_gt hp)]
    omega

theorem sign_sq_of_ne (s : Int) (hs : s ≠ 0) : s.sign * s.sign = 1 := by
  rcases Int.lt_or_gt_of_ne hs with h | h
  · rw [Int.sign_eq_neg_one_of_neg h]; rfl
  · rw [Int.sign_eq_one_of_pos h]; rfl

/-- an exact integer quotient is computed exactly -/
theorem div_exact (n s e : Int) (hs : s ≠ 0) (hn : n.natAbs < 2 ^ 53) (hsb : s.natAbs < 2 ^ 53) :
    ∃ j : Nat, div ⟨n * s, e⟩ ⟨s, e⟩ = some ⟨n * 2 ^ j, -(j : Int)⟩ := by
  unfold div
  simp only [hs, if_false]
  have hb : 0 < s.natAbs := Int.natAbs_pos.2 hs
  generalize hsh : (bitLen s.natAbs + 55) - bitLen (n * s).natAbs = sh
  have hshle : sh ≤ 108 := by
    have := (bitLen_le_iff s.natAbs 53).2 hsb
    omega
  have hq : (n * s).natAbs * 2 ^ sh = (n.natAbs * 2 ^ sh) * s.natAbs := by
    rw [Int.natAbs_mul, Nat.mul_assoc, Nat.mul_comm s.natAbs, ← Nat.mul_assoc]
  have hodd : divOdd ⟨n * s, e⟩ ⟨s, e⟩ = (n * 2 ^ (sh + 1), -((sh + 1 : Nat) : Int)) := by
    unfold divOdd
    simp only [hsh, hq, Nat.mul_div_cancel _ hb, Nat.mul_mod_left, if_true, Nat.add_zero]
    congr 1
    · rw [Int.sign_mul, Int.mul_assoc n.sign, sign_sq_of_ne s hs, Int.mul_one]
      rw [Int.natCast_mul, Int.natCast_mul, Int.natCast_pow, Int.pow_succ]
      rw [show ((2 : Nat) : Int) = 2 from rfl]
      rw [← Int.mul_assoc, Int.mul_comm n.sign, Int.mul_assoc 2, Int.mul_comm 2]
      rw [← Int.mul_assoc n.sign, Int.sign_mul_natAbs, Int.mul_assoc]
    · omega
  rw [hodd]
  obtain ⟨j, _, hj⟩ := roundDy_scaled n (sh + 1) hn
  exact ⟨j, by rw [hj]⟩

end Dask.SoftFloat
