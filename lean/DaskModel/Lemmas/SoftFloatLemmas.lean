import DaskModel.Model.CreationFloat
/-! Exactness lemmas of the binary64 model (C34): results that fit are not rounded; exact quotients are exact. -/
namespace Dask.SoftFloat

theorem bitLen_le_iff (a b : Nat) : bitLen a ≤ b ↔ a < 2 ^ b := by
  unfold bitLen
  by_cases h : a = 0
  · subst h; simp; exact Nat.two_pow_pos b
  · simp only [h, if_false]
    rw [← Nat.log2_lt h]; omega

/-- a value with at most 53 significant bits and an exponent in range is not rounded -/
theorem roundDy_of_fits (m e : Int) (hm : m.natAbs < 2 ^ 53) (he : -1074 ≤ e) : roundDy m e = ⟨m, e⟩ := by
  unfold roundDy excessBits
  have := (bitLen_le_iff m.natAbs 53).2 hm
  rw [if_pos (by omega)]

theorem add_same_exp (a b e : Int) : add ⟨a, e⟩ ⟨b, e⟩ = roundDy (a + b) e := by
  simp [add, alignAdd]

theorem sub_same_exp (a b e : Int) : sub ⟨a, e⟩ ⟨b, e⟩ = roundDy (a - b) e := by
  simp [sub, neg, add, alignAdd, Int.sub_eq_add_neg]

theorem ofInt_of_fits (i : Int) (h : i.natAbs < 2 ^ 53) : ofInt i = ⟨i, 0⟩ :=
  roundDy_of_fits i 0 h (by omega)

theorem mul_int_left (i s e : Int) : mul ⟨i, 0⟩ ⟨s, e⟩ = roundDy (i * s) e := by
  simp [mul]

theorem shiftRNE_of_dvd (q s : Nat) : shiftRNE (q * 2 ^ s) s = q := by
  unfold shiftRNE
  by_cases hs : s = 0
  · subst hs; simp
  · have hp : 0 < 2 ^ s := Nat.two_pow_pos s
    have hh : 0 < 2 ^ (s - 1) := Nat.two_pow_pos _
    simp only [hs, if_false, Nat.mul_div_cancel _ hp, Nat.mul_mod_left]
    rw [if_neg (by omega)]

theorem natAbs_scaled (n : Int) (k : Nat) : (n * 2 ^ k).natAbs = n.natAbs * 2 ^ k := by
  rw [Int.natAbs_mul, Int.natAbs_pow]; rfl

theorem sign_scaled (n : Int) (k : Nat) : (n * 2 ^ k).sign = n.sign := by
  rw [Int.sign_mul]
  have : (0 : Int) < 2 ^ k := Int.pow_pos (by decide)
  rw [Int.sign_eq_one_of_pos this, Int.mul_one]

/-- an integer `n` held as `n * 2^k * 2^(-k)` stays the same integer after rounding -/
theorem roundDy_scaled (n : Int) (k : Nat) (hn : n.natAbs < 2 ^ 53) :
    ∃ j : Nat, j ≤ k ∧ roundDy (n * 2 ^ k) (-(k : Int)) = ⟨n * 2 ^ j, -(j : Int)⟩ := by
  unfold roundDy
  by_cases h : excessBits (n * 2 ^ k).natAbs (-(k : Int)) ≤ 0
  · exact ⟨k, Nat.le_refl k, by rw [if_pos h]⟩
  · rw [if_neg h]
    have hle : excessBits (n * 2 ^ k).natAbs (-(k : Int)) ≤ k := by
      unfold excessBits
      have : bitLen (n * 2 ^ k).natAbs ≤ 53 + k := by
        rw [bitLen_le_iff, natAbs_scaled, Nat.pow_add]
        exact Nat.mul_lt_mul_of_lt_of_le hn (Nat.le_refl _) (Nat.two_pow_pos k)
      omega
    obtain ⟨t, ht⟩ : ∃ t : Nat, excessBits (n * 2 ^ k).natAbs (-(k : Int)) = (t : Int) :=
      ⟨_, (Int.toNat_of_nonneg (by omega)).symm⟩
    rw [ht] at hle ⊢
    have htk : t ≤ k := by omega
    refine ⟨k - t, Nat.sub_le k t, ?_⟩
    have e1 : (n * 2 ^ k).natAbs = (n.natAbs * 2 ^ (k - t)) * 2 ^ t := by
      rw [natAbs_scaled, Nat.mul_assoc, ← Nat.pow_add, Nat.sub_add_cancel htk]
    rw [Int.toNat_natCast, e1, shiftRNE_of_dvd, sign_scaled]
    congr 1
    · rw [Int.natCast_mul, ← Int.mul_assoc, Int.sign_mul_natAbs, Int.natCast_pow]; rfl
    · omega

theorem ceil_scaled (n : Int) (j : Nat) : ceil ⟨n * 2 ^ j, -(j : Int)⟩ = n := by
  unfold ceil
  by_cases hj : j = 0
  · subst hj; simp
  · have h1 : ¬ (0 : Int) ≤ -(j : Int) := by omega
    have hp : (0 : Int) < 2 ^ j := Int.pow_pos (by decide)
    simp only [h1, if_false, ceilDivPos, Int.neg_neg, Int.toNat_natCast, Int.natCast_pow]
    rw [show ((2 : Nat) : Int) = 2 from rfl]
    rw [Int.fdiv_eq_ediv_of_nonneg _ (Int.le_of_lt hp), ← Int.neg_mul, Int.mul_ediv_cancel _ (Int.ne_of_gt hp)]
    omega

theorem sign_sq_of_ne (s : Int) (hs : s ≠ 0) : s.sign * s.sign = 1 := by
  rcases Int.lt_or_gt_of_ne hs with h | h
  · rw [Int.sign_eq_neg_one_of_neg h]; rfl
  · rw [Int.sign_eq_one_of_pos h]; rfl

/-- an exact integer quotient is computed exactly -/
theorem div_exact (n s e : Int) (hs : s ≠ 0) (hn : n.natAbs < 2 ^ 53) (hsb : s.natAbs < 2 ^ 53) :
    ∃ j : Nat, div ⟨n * s, e⟩ ⟨s, e⟩ = some ⟨n * 2 ^ j, -(j : Int)⟩ := by
  unfold div
  simp only [hs, if_false]
  have hb : 0 < s.natAbs := Int.natAbs_pos.2 hs
  generalize hsh : (bitLen s.natAbs + 55) - bitLen (n * s).natAbs = sh
  have hshle : sh ≤ 108 := by
    have := (bitLen_le_iff s.natAbs 53).2 hsb
    omega
  have hq : (n * s).natAbs * 2 ^ sh = (n.natAbs * 2 ^ sh) * s.natAbs := by
    rw [Int.natAbs_mul, Nat.mul_assoc, Nat.mul_comm s.natAbs, ← Nat.mul_assoc]
  have hodd : divOdd ⟨n * s, e⟩ ⟨s, e⟩ = (n * 2 ^ (sh + 1), -((sh + 1 : Nat) : Int)) := by
    unfold divOdd
    simp only [hsh, hq, Nat.mul_div_cancel _ hb, Nat.mul_mod_left, if_true, Nat.add_zero]
    congr 1
    · rw [Int.sign_mul, Int.mul_assoc n.sign, sign_sq_of_ne s hs, Int.mul_one]
      rw [Int.natCast_mul, Int.natCast_mul, Int.natCast_pow, Int.pow_succ]
      rw [show ((2 : Nat) : Int) = 2 from rfl]
      rw [← Int.mul_assoc, Int.mul_comm n.sign, Int.mul_assoc 2, Int.mul_comm 2]
      rw [← Int.mul_assoc n.sign, Int.sign_mul_natAbs, Int.mul_assoc]
    · omega
  rw [hodd]
  obtain ⟨j, _, hj⟩ := roundDy_scaled n (sh + 1) hn
  exact ⟨j, by rw [hj]⟩

/-- `shiftRNE a s` is a nearest multiple of `2^s` (as a quotient), ties broken to even -/
theorem shiftRNE_nearest (a s : Nat) (hs : 0 < s) :
    2 * (shiftRNE a s * 2 ^ s) ≤ 2 * a + 2 ^ s ∧ 2 * a ≤ 2 * (shiftRNE a s * 2 ^ s) + 2 ^ s
    ∧ ((2 * (shiftRNE a s * 2 ^ s) = 2 * a + 2 ^ s ∨ 2 * a = 2 * (shiftRNE a s * 2 ^ s) + 2 ^ s) → shiftRNE a s % 2 = 0) := by
  unfold shiftRNE
  have hs0 : s ≠ 0 := by omega
  simp only [hs0, if_false]
  have hP : 2 ^ s = 2 * 2 ^ (s - 1) := by
    rw [← Nat.pow_succ']; congr 1; omega
  have hdm := Nat.div_add_mod a (2 ^ s)
  have hr := Nat.mod_lt a (Nat.two_pow_pos s)
  generalize a / 2 ^ s = q at *
  generalize a % 2 ^ s = r at *
  generalize 2 ^ (s - 1) = H at *
  generalize hPP : 2 ^ s = P at *
  have hqP : P * q = q * P := Nat.mul_comm _ _
  split
  · rename_i hc
    rw [Nat.add_mul, Nat.one_mul]
    refine ⟨by omega, by omega, ?_⟩
    intro h
    rcases hc with hc | ⟨hc1, hc2⟩ <;> omega
  · rename_i hc
    refine ⟨by omega, by omega, ?_⟩
    intro h
    have : ¬ (r > H) := fun h' => hc (Or.inl h')
    have h2 : ¬ (r = H ∧ q % 2 = 1) := fun h' => hc (Or.inr h')
    omega

/-- the result of a rounding is a double: at most 53 significant bits (or exactly `2^53`), last place not below `2^-1074` -/
theorem roundDy_is_double (m e : Int) :
    (roundDy m e).m.natAbs ≤ 2 ^ 53 ∧ -1074 ≤ (roundDy m e).e := by
  unfold roundDy
  by_cases h : excessBits m.natAbs e ≤ 0
  · rw [if_pos h]
    unfold excessBits at h
    have := (bitLen_le_iff m.natAbs 53).1 (by omega)
    exact ⟨by simp only; omega, by simp only; omega⟩
  · rw [if_neg h]
    obtain ⟨t, ht⟩ : ∃ t : Nat, excessBits m.natAbs e = (t : Int) := ⟨_, (Int.toNat_of_nonneg (by omega)).symm⟩
    have ht0 : 0 < t := by omega
    rw [ht, Int.toNat_natCast]
    have hbl : bitLen m.natAbs ≤ 53 + t := by unfold excessBits at ht; omega
    have hlt : m.natAbs < 2 ^ (53 + t) := (bitLen_le_iff _ _).1 hbl
    obtain ⟨h1, _, _⟩ := shiftRNE_nearest m.natAbs t ht0
    constructor
    · simp only [Int.natAbs_mul, Int.natAbs_natCast]
      have hs : m.sign.natAbs ≤ 1 := by
        rcases Int.lt_trichotomy m 0 with h | h | h
        · rw [Int.sign_eq_neg_one_of_neg h]; decide
        · subst h; decide
        · rw [Int.sign_eq_one_of_pos h]; decide
      have hq : shiftRNE m.natAbs t ≤ 2 ^ 53 := by
        rw [Nat.pow_add] at hlt
        have hp : 0 < 2 ^ t := Nat.two_pow_pos t
        -- 2*(q'*P) ≤ 2a + P < 2*2^53*P + P  ⇒ q' ≤ 2^53
        have : shiftRNE m.natAbs t * 2 ^ t < (2 ^ 53 + 1) * 2 ^ t := by
          rw [Nat.add_mul, Nat.one_mul]; omega
        exact Nat.le_of_lt_succ (Nat.lt_of_mul_lt_mul_right this)
      calc m.sign.natAbs * shiftRNE m.natAbs t ≤ 1 * shiftRNE m.natAbs t := Nat.mul_le_mul_right _ hs
        _ ≤ 2 ^ 53 := by omega
    · unfold excessBits at ht; simp only; omega


/-- rounding returns a value nearest to the exact one (distance at most half a unit of the last place kept), and on a tie
    the even significand; `t` = number of bits dropped -/
theorem roundDy_nearest (m e : Int) :
    ∃ t : Nat, (roundDy m e).e = e + t
      ∧ (2 * ((roundDy m e).m * 2 ^ t - m)).natAbs ≤ 2 ^ t
      ∧ ((2 * ((roundDy m e).m * 2 ^ t - m)).natAbs = 2 ^ t → (roundDy m e).m % 2 = 0) := by
  unfold roundDy
  by_cases h : excessBits m.natAbs e ≤ 0
  · rw [if_pos h]
    refine ⟨0, by simp, by simp, ?_⟩
    intro h'; simp at h'
  · rw [if_neg h]
    obtain ⟨t, ht⟩ : ∃ t : Nat, excessBits m.natAbs e = (t : Int) := ⟨_, (Int.toNat_of_nonneg (by omega)).symm⟩
    have ht0 : 0 < t := by omega
    rw [ht, Int.toNat_natCast]
    obtain ⟨h1, h2, h3⟩ := shiftRNE_nearest m.natAbs t ht0
    generalize shiftRNE m.natAbs t = q at *
    refine ⟨t, rfl, ?_⟩
    have hcast : ((2 ^ t : Nat) : Int) = (2 : Int) ^ t := by rw [Int.natCast_pow]; rfl
    generalize hP : (2 : Nat) ^ t = P at *
    have hPI : (2 : Int) ^ t = (P : Int) := hcast.symm
    rw [hPI]
    rcases Int.lt_trichotomy m 0 with hm | hm | hm
    · rw [Int.sign_eq_neg_one_of_neg hm]
      have hma : (m.natAbs : Int) = -m := by omega
      have e1 : (-1 : Int) * (q : Int) * (P : Int) - m = -(((q * P : Nat) : Int) - (m.natAbs : Int)) := by
        rw [hma, Int.natCast_mul]; simp only [Int.neg_mul, Int.one_mul]; omega
      rw [e1]
      constructor
      · omega
      · intro hh
        have hq : q % 2 = 0 := h3 (by omega)
        show (-1 * (q : Int)) % 2 = 0
        have : (-1 * (q : Int)) = -(q : Int) := by omega
        rw [this]; omega
    · subst hm
      simp only [Int.sign_zero, Int.zero_mul, Int.sub_zero, Int.mul_zero, Int.natAbs_zero]
      exact ⟨Nat.zero_le _, fun _ => by simp⟩
    · rw [Int.sign_eq_one_of_pos hm]
      have hma : (m.natAbs : Int) = m := by omega
      have e1 : (1 : Int) * (q : Int) * (P : Int) - m = ((q * P : Nat) : Int) - (m.natAbs : Int) := by
        rw [hma, Int.natCast_mul]; simp only [Int.one_mul]
      rw [e1]
      constructor
      · omega
      · intro hh
        have hq : q % 2 = 0 := h3 (by omega)
        show (1 * (q : Int)) % 2 = 0
        have : (1 * (q : Int)) = (q : Int) := by omega
        rw [this]; omega

end Dask.SoftFloat
