import DaskModel.Lemmas.ChunksHeapSafe
import DaskModel.Lemmas.ChunksMergeSafe
/-! C23: the modelled `plan_rechunk` never raises on valid chunkings (no AssertionError, ZeroDivisionError,
IndexError anywhere in `find_split_rechunk` / `merge_to_number` / `find_merge_rechunk`). -/
namespace Dask.Chunks

theorem estimateGraphSize_pos : ∀ {shape : List Nat} {a b : List (List Nat)}, AllStage shape a → AllStage shape b →
    0 < estimateGraphSize a b
  | [], [], [], _, _ => by simp [estimateGraphSize]
  | [], _ :: _, _, h, _ => by simp [AllStage] at h
  | [], [], _ :: _, _, h => by simp [AllStage] at h
  | _ :: _, [], _, h, _ => by simp [AllStage] at h
  | _ :: _, _ :: _, [], _, h => by simp [AllStage] at h
  | _ :: _, oc :: os, nc :: ns, ha, hb => by
    rw [estimateGraphSize]
    have h1 : 0 < oc.length := List.length_pos_iff.2 ha.1.1
    have h2 : 0 < nc.length := List.length_pos_iff.2 hb.1.1
    refine Nat.mul_pos ?_ (estimateGraphSize_pos ha.2 hb.2)
    split <;> omega

theorem splitDim_safe {n : Nat} {oldc newc : List Nat} {gs limit : Nat} (ho : StageOK n oldc) (hgs : 0 < gs)
    (hle : gs ≤ limit) :
    (∃ c, splitDim oldc newc gs limit = .ok c) ∧
      ∀ c, splitDim oldc newc gs limit = .ok c → maxL c ≤ maxL oldc := by
  have hlen : 0 < oldc.length := List.length_pos_iff.2 ho.1
  have hM : oldc.length ≤ oldc.length * limit / gs :=
    (Nat.le_div_iff_mul_le hgs).2 (Nat.mul_le_mul_left _ hle)
  unfold splitDim
  split
  · exact ⟨⟨_, rfl⟩, fun c hc => by injection hc with hc; subst hc; exact Nat.le_refl _⟩
  · rw [if_neg (by omega)]
    simp only
    cases hm : mergeToNumberFull newc (oldc.length * limit / gs) with
    | error e =>
      obtain ⟨r, hr⟩ := mergeToNumberFull_total newc (M := oldc.length * limit / gs) (by omega)
      rw [hr] at hm; cases hm
    | ok c' =>
      obtain ⟨_, _, a3, a4⟩ := mergeToNumberFull_spec hm
      have hlen' : ¬ c'.length > oldc.length * limit / gs := by
        rcases Nat.lt_or_ge (oldc.length * limit / gs) newc.length with h | h
        · rw [a3 h]; omega
        · rw [a4 h]; omega
      simp only
      rw [if_neg hlen']
      split
      · rename_i hc
        exact ⟨⟨_, rfl⟩, fun c h => by injection h with h; subst h; exact hc.2⟩
      · exact ⟨⟨_, rfl⟩, fun c h => by injection h with h; subst h; exact Nat.le_refl _⟩

theorem largestBlockSize_append : ∀ (a b : List (List Nat)), largestBlockSize (a ++ b) = largestBlockSize a * largestBlockSize b
  | [], b => by simp [largestBlockSize_nil]
  | x :: xs, b => by
    rw [List.cons_append, largestBlockSize_cons, largestBlockSize_cons, largestBlockSize_append xs b, Nat.mul_assoc]

theorem findSplitGo_safe (limit : Nat) (new : List (List Nat)) (shape : List Nat) (hnew : AllStage shape new) :
    ∀ (os dn ns : List (List Nat)) (s1 s2 : List Nat), s1 ++ s2 = shape → AllStage s1 dn → AllStage s2 os → AllStage s2 ns →
      (∃ r, findSplitGo limit new dn os ns = .ok r) ∧
        ∀ r, findSplitGo limit new dn os ns = .ok r → largestBlockSize r ≤ largestBlockSize (dn ++ os)
  | [], dn, ns, s1, s2, _, _, _, _ => by
    simp [findSplitGo]
  | o :: os, dn, [], s1, s2, _, _, _, _ => by
    simp [findSplitGo]
  | o :: os, dn, n :: ns, s1, s2, hs, h1, h2, h3 => by
    cases s2 with
    | nil => simp [AllStage] at h2
    | cons m ms =>
      have hcur : AllStage shape (dn ++ o :: os) := hs ▸ AllStage.append h1 h2
      have hgs := estimateGraphSize_pos hcur hnew
      rw [findSplitGo]
      split
      · simp
      · rename_i hgt
        obtain ⟨⟨c0, a1⟩, a2⟩ := splitDim_safe (newc := n) (limit := limit) h2.1 hgs (by omega)
        cases hsd : splitDim o n (estimateGraphSize (dn ++ o :: os) new) limit with
        | error e => rw [a1] at hsd; cases hsd
        | ok c =>
          simp only
          have hc := splitDim_valid h2.1 h3.1 hsd
          have h1' : AllStage (s1 ++ [m]) (dn ++ [c]) := AllStage.append h1 ⟨hc, trivial⟩
          obtain ⟨b1, b2⟩ := findSplitGo_safe limit new shape hnew os (dn ++ [c]) ns (s1 ++ [m]) ms (by simpa using hs)
            h1' h2.2 h3.2
          refine ⟨b1, fun r hr => ?_⟩
          have := b2 r hr
          have hmc := a2 c hsd
          calc largestBlockSize r ≤ largestBlockSize ((dn ++ [c]) ++ os) := this
            _ = largestBlockSize dn * (maxL c * largestBlockSize os) := by
              rw [List.append_assoc, largestBlockSize_append]; rfl
            _ ≤ largestBlockSize dn * (maxL o * largestBlockSize os) :=
              Nat.mul_le_mul_left _ (Nat.mul_le_mul_right _ hmc)
            _ = largestBlockSize (dn ++ o :: os) := by rw [largestBlockSize_append]; rfl

theorem findSplit_safe {shape : List Nat} {old new : List (List Nat)} {limit : Nat} (ho : AllStage shape old)
    (hn : AllStage shape new) :
    (∃ r, findSplit old new limit = .ok r) ∧
      ∀ r, findSplit old new limit = .ok r → largestBlockSize r ≤ largestBlockSize old := by
  have := findSplitGo_safe limit new shape hn old [] new [] shape rfl trivial ho hn
  simpa [findSplit] using this

theorem planPass_safe {shape : List Nat} {thr Lnum den gs : Nat} {new cur : List (List Nat)} {first : Bool} {ord : List Nat}
    (hc : AllStage shape cur) (hn : AllStage shape new) (hden : 0 < den) (hfit : largestBlockSize cur * den ≤ Lnum) :
    (∀ e, planPass thr Lnum den new cur first gs ord = .error e → e = .oracle) ∧
      ∀ c hit, planPass thr Lnum den new cur first gs ord = .ok (c, hit) → largestBlockSize c * den ≤ Lnum := by
  -- find_merge_rechunk on valid chunks that fit
  have key : ∀ (c0 : List (List Nat)), AllStage shape c0 → largestBlockSize c0 * den ≤ Lnum →
      (∀ e, findMerge Lnum den c0 new ord = .error e → e = .oracle) ∧
        ∀ c hit, findMerge Lnum den c0 new ord = .ok (c, hit) → largestBlockSize c * den ≤ Lnum := by
    intro c0 h0 hf0
    cases hp : isPermOf ord (mergeCandidates c0 new) with
    | false =>
      have : findMerge Lnum den c0 new ord = .error .oracle := by simp [findMerge, hp]
      rw [this]
      exact ⟨fun e h => (by injection h with h; exact h.symm), fun c hit h => (by cases h)⟩
    | true =>
      obtain ⟨c, hit, h1, _, h3⟩ := findMerge_safe h0 hn hden hf0 hp
      rw [h1]
      exact ⟨fun e h => (by cases h), fun c' hit' h => (by injection h with h; injection h with h _; subst h; exact h3)⟩
  unfold planPass
  cases first with
  | true => simpa using key cur hc hfit
  | false =>
    simp only [Bool.false_eq_true, if_false]
    obtain ⟨⟨r0, s1⟩, s2⟩ := findSplit_safe (limit := gs * thr) hc hn
    cases hs : findSplit cur new (gs * thr) with
    | error e => rw [s1] at hs; cases hs
    | ok c0 =>
      simp only
      have hle := s2 c0 hs
      exact key c0 (findSplit_valid hc hn hs)
        (Nat.le_trans (Nat.mul_le_mul_right _ hle) hfit)

theorem planLoop_safe {shape : List Nat} {thr Lnum den gst : Nat} {new : List (List Nat)} (hn : AllStage shape new)
    (hden : 0 < den) :
    ∀ (orders : List (List Nat)) (cur : List (List Nat)) (first : Bool) (steps : List (List (List Nat))),
      AllStage shape cur → largestBlockSize cur * den ≤ Lnum →
      ∀ e, planLoop thr Lnum den gst new cur first orders steps = .error e → e = .oracle
  | [], cur, first, steps, _, _ => by
    rw [planLoop]; split
    · intro e h; cases h
    · intro e h; injection h with h; exact h.symm
  | ord :: ords, cur, first, steps, hc, hfit => by
    rw [planLoop]
    split
    · intro e h; cases h
    · obtain ⟨p1, p2⟩ := planPass_safe (thr := thr) (gs := estimateGraphSize cur new) (first := first) (ord := ord) hc hn hden hfit
      cases hp : planPass thr Lnum den new cur first (estimateGraphSize cur new) ord with
      | error e =>
        simp only
        intro e' h; injection h with h; subst h; exact p1 e hp
      | ok p =>
        obtain ⟨chunks, hit⟩ := p
        simp only
        split
        · intro e h; cases h
        · split
          · intro e h; cases h
          · exact planLoop_safe hn hden ords chunks false _ (planPass_valid hc hn hp) (p2 chunks hit hp)

/-- **the modelled `plan_rechunk` returns** on valid chunkings of one shape (positive item size): the only error left
    is an observed candidate order that does not fit (`.oracle`) - it never raises, no fuel runs out -/
theorem planRechunk_safe {shape : List Nat} {old new : List (List Nat)} {itemsize thr limitBytes : Nat}
    {orders : List (List Nat)} (ho : AllStage shape old) (hn : AllStage shape new) (hi : 0 < itemsize) :
    ∀ e, planRechunk old new itemsize thr limitBytes orders = .error e → e = .oracle := by
  unfold planRechunk
  split
  · intro e h; cases h
  · exact planLoop_safe hn hi orders old true [] ho
      (Nat.le_trans (Nat.le_max_left _ _) (Nat.le_max_right _ _))

end Dask.Chunks
