import DaskModel.Model.ChunksPlanner
import DaskModel.Lemmas.ChunksPlanner
/-! Helper development for C23 (stage choice of `plan_rechunk`): every chunking produced by
`merge_to_number` (heap path), `find_split_rechunk`, `find_merge_rechunk` and the `plan_rechunk` loop is a
valid chunking of the same shape, whatever the float-dependent candidate order is. -/
namespace Dask.Chunks

/-- a chunking the planner may use as a stage: non-empty, positive, of the axis' length -/
def StageOK (n : Nat) (cs : List Nat) : Prop := cs ≠ [] ∧ (∀ c ∈ cs, 0 < c) ∧ sum cs = n

/-! ### `merge_to_number`, heap path (deleted entries are `none`) -/

/-- number of live chunks (not merged away) -/
def live : List (Option Nat) → Nat
  | [] => 0
  | c :: cs => (if c.isSome then 1 else 0) + live cs

/-- total of the live chunks -/
def osum : List (Option Nat) → Nat
  | [] => 0
  | c :: cs => c.getD 0 + osum cs

theorem osum_set : ∀ (l : List (Option Nat)) (i : Nat) (c v : Option Nat), l[i]? = some c →
    osum (l.set i v) + c.getD 0 = osum l + v.getD 0
  | [], i, c, v, h => by simp at h
  | x :: xs, 0, c, v, h => by
    simp at h; subst h
    simp only [List.set_cons_zero, osum]; omega
  | x :: xs, i + 1, c, v, h => by
    simp at h
    have := osum_set xs i c v h
    simp only [List.set_cons_succ, osum]; omega

theorem live_set : ∀ (l : List (Option Nat)) (i : Nat) (c v : Option Nat), l[i]? = some c →
    live (l.set i v) + (if c.isSome then 1 else 0) = live l + (if v.isSome then 1 else 0)
  | [], i, c, v, h => by simp at h
  | x :: xs, 0, c, v, h => by
    simp at h; subst h
    simp only [List.set_cons_zero, live]; omega
  | x :: xs, i + 1, c, v, h => by
    simp at h
    have := live_set xs i c v h
    simp only [List.set_cons_succ, live]; omega

theorem sum_filterMap_id : ∀ (l : List (Option Nat)), sum (l.filterMap id) = osum l
  | [] => rfl
  | none :: xs => by simp [osum, sum_filterMap_id xs]
  | some x :: xs => by simp [osum, sum_cons, sum_filterMap_id xs]

theorem length_filterMap_id : ∀ (l : List (Option Nat)), (l.filterMap id).length = live l
  | [] => rfl
  | none :: xs => by simp [live, length_filterMap_id xs]
  | some x :: xs => by simp [live, length_filterMap_id xs]; omega

theorem osum_map_some : ∀ (l : List Nat), osum (l.map some) = sum l
  | [] => rfl
  | x :: xs => by simp [osum, sum_cons, osum_map_some xs]

theorem live_map_some : ∀ (l : List Nat), live (l.map some) = l.length
  | [] => rfl
  | x :: xs => by simp [live, live_map_some xs]; omega

/-- every live chunk is positive -/
def LivePos (l : List (Option Nat)) : Prop := ∀ c, some c ∈ l → 0 < c

theorem popMin_mem : ∀ {h : List HEnt} {e : HEnt} {rest : List HEnt}, popMin h = some (e, rest) →
    e ∈ h ∧ ∀ x ∈ rest, x ∈ h
  | [], e, rest, hp => by simp [popMin] at hp
  | a :: es, e, rest, hp => by
    unfold popMin at hp
    cases hq : popMin es with
    | none =>
      simp [hq] at hp
      obtain ⟨rfl, rfl⟩ := hp
      simp
    | some p =>
      obtain ⟨m, r⟩ := p
      have ih := popMin_mem hq
      simp only [hq] at hp
      split at hp
      · simp at hp
        obtain ⟨rfl, rfl⟩ := hp
        refine ⟨by simp, ?_⟩
        intro x hx
        rcases List.mem_cons.1 hx with hx | hx
        · subst hx; exact List.mem_cons_of_mem _ ih.1
        · exact List.mem_cons_of_mem _ (ih.2 x hx)
      · simp at hp
        obtain ⟨rfl, rfl⟩ := hp
        refine ⟨List.mem_cons_of_mem _ ih.1, ?_⟩
        intro x hx
        rcases List.mem_cons.1 hx with hx | hx
        · subst hx; simp
        · exact List.mem_cons_of_mem _ (ih.2 x hx)

/-- every heap entry pairs a chunk with one further right -/
def HeapInv (h : List HEnt) : Prop := ∀ e ∈ h, e.i < e.j

theorem heapInit_inv : ∀ (i : Nat) (cs : List Nat), HeapInv (heapInit i cs)
  | _, [] => by simp [heapInit, HeapInv]
  | _, [_] => by simp [heapInit, HeapInv]
  | i, a :: b :: rest => by
    intro e he
    simp only [heapInit, List.mem_cons] at he
    rcases he with he | he
    · subst he; simp
    · exact heapInit_inv (i + 1) (b :: rest) e he

theorem nextLive_ge {chunks : List (Option Nat)} {j j' : Nat} (h : nextLive chunks j = some j') : j ≤ j' := by
  unfold nextLive at h
  cases hf : firstLive (chunks.drop j) with
  | none => simp [hf] at h
  | some k => simp [hf] at h; omega

/-- what one iteration of the merge loop preserves -/
theorem mergeStep_spec {heap : List HEnt} {chunks : List (Option Nat)} {b : Bool} {heap' : List HEnt}
    {chunks' : List (Option Nat)} (hs : mergeStep heap chunks = some (b, heap', chunks')) (hinv : HeapInv heap) :
    HeapInv heap' ∧ osum chunks' = osum chunks ∧ live chunks' + (if b then 1 else 0) = live chunks ∧
      (LivePos chunks → LivePos chunks') := by
  unfold mergeStep at hs
  cases hp : popMin heap with
  | none => simp [hp] at hs
  | some p =>
    obtain ⟨e, rest⟩ := p
    obtain ⟨hmem, hrest⟩ := popMin_mem hp
    have hij := hinv e hmem
    have hrinv : HeapInv rest := fun x hx => hinv x (hrest x hx)
    simp only [hp] at hs
    cases hcj : chunks[e.j]? with
    | none => simp [hcj] at hs
    | some oj =>
      cases oj with
      | none =>
        simp only [hcj] at hs
        cases hn : nextLive chunks (e.j + 1) with
        | none => simp [hn] at hs
        | some j' =>
          simp only [hn] at hs
          have hge := nextLive_ge hn
          split at hs
          · simp at hs
            obtain ⟨rfl, rfl, rfl⟩ := hs
            refine ⟨?_, rfl, by simp, fun h => h⟩
            intro x hx
            rcases List.mem_cons.1 hx with hx | hx
            · subst hx; simp; omega
            · exact hrinv x hx
          · simp at hs
      | some cj =>
        simp only [hcj] at hs
        split at hs
        · rename_i ci hci
          split at hs
          · simp at hs
            obtain ⟨rfl, rfl, rfl⟩ := hs
            refine ⟨?_, rfl, by simp, fun h => h⟩
            intro x hx
            rcases List.mem_cons.1 hx with hx | hx
            · subst hx; simpa using hij
            · exact hrinv x hx
          · rename_i hw
            simp at hs
            obtain ⟨rfl, rfl, rfl⟩ := hs
            have hw : ci + cj = e.w := by omega
            have h1 := osum_set chunks e.i (some ci) none hci
            have hj' : (chunks.set e.i none)[e.j]? = some (some cj) := by
              rw [List.getElem?_set_ne (by omega)]; exact hcj
            have h2 := osum_set (chunks.set e.i none) e.j (some cj) (some e.w) hj'
            have n1 := live_set chunks e.i (some ci) none hci
            have n2 := live_set (chunks.set e.i none) e.j (some cj) (some e.w) hj'
            simp at h1 h2 n1 n2
            refine ⟨hrinv, by omega, by simp; omega, ?_⟩
            intro hpos c hc
            rcases List.mem_or_eq_of_mem_set hc with hc | hc
            · rcases List.mem_or_eq_of_mem_set hc with hc | hc
              · exact hpos c hc
              · cases hc
            · injection hc with hc; subst hc
              have := hpos ci (List.mem_of_getElem? hci)
              omega
        · simp at hs

theorem mergeLoop_spec : ∀ (fuel nm : Nat) (heap : List HEnt) (chunks r : List (Option Nat)),
    mergeLoop fuel nm heap chunks = .ok r → HeapInv heap →
    osum r = osum chunks ∧ live r + nm = live chunks ∧ (LivePos chunks → LivePos r)
  | _, 0, _, chunks, r, h, _ => by
    have : r = chunks := by
      cases ‹Nat› <;> simp [mergeLoop] at h <;> exact h.symm
    subst this; simp
  | 0, _ + 1, _, _, _, h, _ => by simp [mergeLoop] at h
  | fuel + 1, nm + 1, heap, chunks, r, h, hinv => by
    rw [mergeLoop] at h
    cases hs : mergeStep heap chunks with
    | none => simp [hs] at h
    | some t =>
      obtain ⟨b, heap', chunks'⟩ := t
      obtain ⟨i1, i2, i3, i4⟩ := mergeStep_spec hs hinv
      cases b with
      | true =>
        simp only [hs] at h
        obtain ⟨a1, a2, a3⟩ := mergeLoop_spec fuel nm heap' chunks' r h i1
        simp at i3
        exact ⟨by omega, by omega, fun hp => a3 (i4 hp)⟩
      | false =>
        simp only [hs] at h
        obtain ⟨a1, a2, a3⟩ := mergeLoop_spec fuel (nm + 1) heap' chunks' r h i1
        simp at i3
        exact ⟨by omega, by omega, fun hp => a3 (i4 hp)⟩

/-- heap path of `merge_to_number`: same total, exactly `max_number` chunks, positive chunks stay positive
    (zero-length chunks are allowed in the input) -/
theorem mergeHeap_spec {cs r : List Nat} {M : Nat} (h : mergeHeap cs M = .ok r) (hM : M ≤ cs.length) :
    sum r = sum cs ∧ r.length = M ∧ ((∀ c ∈ cs, 0 < c) → ∀ x ∈ r, 0 < x) := by
  unfold mergeHeap at h
  cases hl : mergeLoop (mergeFuel cs.length) (cs.length - M) (heapInit 0 cs) (cs.map some) with
  | error e => simp [hl] at h
  | ok chunks =>
    simp [hl] at h
    subst h
    obtain ⟨h1, h2, h3⟩ := mergeLoop_spec _ _ _ _ _ hl (heapInit_inv 0 cs)
    refine ⟨?_, ?_, ?_⟩
    · rw [sum_filterMap_id, h1, osum_map_some]
    · rw [length_filterMap_id]
      rw [live_map_some] at h2
      omega
    · intro hpos x hx
      have hx' : some x ∈ chunks := by
        obtain ⟨a, ha, hax⟩ := List.mem_filterMap.1 hx
        simp at hax; subst hax; exact ha
      refine h3 ?_ x hx'
      intro c hc
      obtain ⟨y, hy, hyc⟩ := List.mem_map.1 hc
      injection hyc with hyc; subst hyc; exact hpos y hy

theorem sum_all_eq : ∀ (w : Nat) (rest : List Nat), rest.all (· == w) = true → sum rest = rest.length * w
  | _, [], _ => by simp [sum]
  | w, x :: xs, h => by
    simp at h
    rw [sum_cons, sum_all_eq w xs (by simpa using h.2), h.1, List.length_cons, Nat.succ_mul]; omega

/-- `merge_to_number` (all paths): same total; exactly `max_number` chunks when there were more, the input itself
    otherwise; positive chunks stay positive (zero-length chunks are accepted) -/
theorem mergeToNumberFull_spec {cs r : List Nat} {M : Nat} (h : mergeToNumberFull cs M = .ok r) :
    sum r = sum cs ∧ ((∀ c ∈ cs, 0 < c) → ∀ x ∈ r, 0 < x) ∧ (M < cs.length → r.length = M) ∧ (cs.length ≤ M → r = cs) := by
  unfold mergeToNumberFull at h
  split at h
  · rename_i hle
    simp at h; subst h
    exact ⟨rfl, fun hp => hp, fun hc => by omega, fun _ => rfl⟩
  · rename_i hlt
    cases cs with
    | nil => simp at hlt
    | cons w rest =>
      simp only at h
      split at h
      · rename_i hall
        simp only [Bool.and_eq_true] at hall
        simp only [List.length_cons] at h hlt ⊢
        cases hm : mergeHomogeneous w (rest.length + 1) M with
        | none => simp [hm] at h
        | some r' =>
          simp [hm] at h; subst h
          obtain ⟨a1, a2, a3⟩ := mergeHomogeneous_spec hm
          refine ⟨?_, fun _ => a3 (by omega), fun _ => a1, fun hc => by omega⟩
          rw [a2, sum_cons, sum_all_eq w rest hall.1, Nat.succ_mul]; omega
      · obtain ⟨a1, a2, a3⟩ := mergeHeap_spec h (by omega)
        exact ⟨a1, a3, fun _ => a2, fun hc => by omega⟩

end Dask.Chunks
