import DaskModel.Model.ChunksPlanner
import DaskModel.Lemmas.ChunksPlanner
/-! Helper development for C23 (stage choice of `plan_rechunk`): every chunking produced by
`merge_to_number` (heap path), `find_split_rechunk`, `find_merge_rechunk` and the `plan_rechunk` loop is a
valid chunking of the same shape, whatever the float-dependent candidate order is. -/
namespace Dask.Chunks

/-- a chunking the planner may use as a stage: non-empty, positive, of the axis' length -/
def StageOK (n : Nat) (cs : List Nat) : Prop := cs ≠ [] ∧ (∀ c ∈ cs, 0 < c) ∧ sum cs = n

/-! ### `merge_to_number`, heap path -/

/-- number of live (non-zero) chunks -/
def nz (l : List Nat) : Nat := (l.filter (· ≠ 0)).length

theorem nz_nil : nz [] = 0 := rfl
theorem nz_cons (c : Nat) (l : List Nat) : nz (c :: l) = (if c ≠ 0 then 1 else 0) + nz l := by
  unfold nz
  by_cases h : c = 0
  · simp [h]
  · simp [h]; omega

theorem sum_set : ∀ (l : List Nat) (i c v : Nat), l[i]? = some c → sum (l.set i v) + c = sum l + v
  | [], i, c, v, h => by simp at h
  | x :: xs, 0, c, v, h => by
    simp at h; subst h
    simp only [List.set_cons_zero, sum_cons]; omega
  | x :: xs, i + 1, c, v, h => by
    simp at h
    have := sum_set xs i c v h
    simp only [List.set_cons_succ, sum_cons]; omega

theorem nz_set : ∀ (l : List Nat) (i c v : Nat), l[i]? = some c →
    nz (l.set i v) + (if c ≠ 0 then 1 else 0) = nz l + (if v ≠ 0 then 1 else 0)
  | [], i, c, v, h => by simp at h
  | x :: xs, 0, c, v, h => by
    simp at h; subst h
    simp only [List.set_cons_zero, nz_cons]; omega
  | x :: xs, i + 1, c, v, h => by
    simp at h
    have := nz_set xs i c v h
    simp only [List.set_cons_succ, nz_cons]; omega

theorem sum_filter_ne_zero : ∀ (l : List Nat), sum (l.filter (· ≠ 0)) = sum l
  | [] => rfl
  | x :: xs => by
    have ih := sum_filter_ne_zero xs
    by_cases h : x = 0
    · rw [List.filter_cons_of_neg (by simp [h]), ih, h, sum_cons]; omega
    · rw [List.filter_cons_of_pos (by simp [h]), sum_cons, ih, sum_cons]

theorem nz_of_pos : ∀ (l : List Nat), (∀ c ∈ l, 0 < c) → nz l = l.length
  | [], _ => rfl
  | x :: xs, h => by
    have hx : x ≠ 0 := by have := h x (by simp); omega
    rw [nz_cons, nz_of_pos xs (fun c hc => h c (List.mem_cons_of_mem _ hc))]
    simp [hx]; omega

theorem popMin_mem : ∀ {h : List HEnt} {e : HEnt} {rest : List HEnt}, popMin h = some (e, rest) →
    e ∈ h ∧ ∀ x ∈ rest, x ∈ h
  | [], e, rest, hp => by simp [popMin] at hp
  | a :: es, e, rest, hp => by
    unfold popMin at hp
    cases hq : popMin es with
    | none =>
      simp [hq] at hp
      obtain ⟨rfl, rfl⟩ := hp
      simp
    | some p =>
      obtain ⟨m, r⟩ := p
      have ih := popMin_mem hq
      simp only [hq] at hp
      split at hp
      · simp at hp
        obtain ⟨rfl, rfl⟩ := hp
        refine ⟨by simp, ?_⟩
        intro x hx
        rcases List.mem_cons.1 hx with hx | hx
        · subst hx; exact List.mem_cons_of_mem _ ih.1
        · exact List.mem_cons_of_mem _ (ih.2 x hx)
      · simp at hp
        obtain ⟨rfl, rfl⟩ := hp
        refine ⟨List.mem_cons_of_mem _ ih.1, ?_⟩
        intro x hx
        rcases List.mem_cons.1 hx with hx | hx
        · subst hx; simp
        · exact List.mem_cons_of_mem _ (ih.2 x hx)

/-- every heap entry pairs a chunk with one further right -/
def HeapInv (h : List HEnt) : Prop := ∀ e ∈ h, e.i < e.j

theorem heapInit_inv : ∀ (i : Nat) (cs : List Nat), HeapInv (heapInit i cs)
  | _, [] => by simp [heapInit, HeapInv]
  | _, [_] => by simp [heapInit, HeapInv]
  | i, a :: b :: rest => by
    intro e he
    simp only [heapInit, List.mem_cons] at he
    rcases he with he | he
    · subst he; simp
    · exact heapInit_inv (i + 1) (b :: rest) e he

theorem nextNonzero_ge {chunks : List Nat} {j j' : Nat} (h : nextNonzero chunks j = some j') : j ≤ j' := by
  unfold nextNonzero at h
  cases hf : firstNonzero (chunks.drop j) with
  | none => simp [hf] at h
  | some k => simp [hf] at h; omega

/-- what one iteration of the merge loop preserves -/
theorem mergeStep_spec {heap : List HEnt} {chunks : List Nat} {b : Bool} {heap' : List HEnt} {chunks' : List Nat}
    (hs : mergeStep heap chunks = some (b, heap', chunks')) (hinv : HeapInv heap) :
    HeapInv heap' ∧ sum chunks' = sum chunks ∧ nz chunks' + (if b then 1 else 0) = nz chunks := by
  unfold mergeStep at hs
  cases hp : popMin heap with
  | none => simp [hp] at hs
  | some p =>
    obtain ⟨e, rest⟩ := p
    obtain ⟨hmem, hrest⟩ := popMin_mem hp
    have hij := hinv e hmem
    have hrinv : HeapInv rest := fun x hx => hinv x (hrest x hx)
    simp only [hp] at hs
    cases hci : chunks[e.i]? with
    | none => simp [hci] at hs
    | some ci =>
      cases hcj : chunks[e.j]? with
      | none => simp [hci, hcj] at hs
      | some cj =>
        simp only [hci, hcj] at hs
        split at hs
        · -- stale right end: re-push
          cases hn : nextNonzero chunks (e.j + 1) with
          | none => simp [hn] at hs
          | some j' =>
            simp [hn] at hs
            obtain ⟨rfl, rfl, rfl⟩ := hs
            have := nextNonzero_ge hn
            refine ⟨?_, rfl, by simp⟩
            intro x hx
            rcases List.mem_cons.1 hx with hx | hx
            · subst hx; simp; omega
            · exact hrinv x hx
        · split at hs
          · simp at hs
            obtain ⟨rfl, rfl, rfl⟩ := hs
            refine ⟨?_, rfl, by simp⟩
            intro x hx
            rcases List.mem_cons.1 hx with hx | hx
            · subst hx; simpa using hij
            · exact hrinv x hx
          · split at hs
            · simp at hs
            · rename_i hcj0 hw hci0
              simp at hs
              obtain ⟨rfl, rfl, rfl⟩ := hs
              have hw : ci + cj = e.w := by omega
              have h1 := sum_set chunks e.i ci 0 hci
              have hj' : (chunks.set e.i 0)[e.j]? = some cj := by
                rw [List.getElem?_set_ne (by omega)]; exact hcj
              have h2 := sum_set (chunks.set e.i 0) e.j cj e.w hj'
              have n1 := nz_set chunks e.i ci 0 hci
              have n2 := nz_set (chunks.set e.i 0) e.j cj e.w hj'
              have hw0 : e.w ≠ 0 := by omega
              simp only [hci0, hcj0, hw0, ne_eq, not_false_eq_true, if_true, not_true_eq_false, if_false] at n1 n2
              refine ⟨hrinv, by omega, ?_⟩
              simp only [if_true]; omega

theorem mergeLoop_spec : ∀ (fuel nm : Nat) (heap : List HEnt) (chunks r : List Nat),
    mergeLoop fuel nm heap chunks = .ok r → HeapInv heap → sum r = sum chunks ∧ nz r + nm = nz chunks
  | _, 0, _, chunks, r, h, _ => by
    have : r = chunks := by
      cases ‹Nat› <;> simp [mergeLoop] at h <;> exact h.symm
    subst this; simp
  | 0, _ + 1, _, _, _, h, _ => by simp [mergeLoop] at h
  | fuel + 1, nm + 1, heap, chunks, r, h, hinv => by
    rw [mergeLoop] at h
    cases hs : mergeStep heap chunks with
    | none => simp [hs] at h
    | some t =>
      obtain ⟨b, heap', chunks'⟩ := t
      obtain ⟨i1, i2, i3⟩ := mergeStep_spec hs hinv
      cases b with
      | true =>
        simp only [hs] at h
        have := mergeLoop_spec fuel nm heap' chunks' r h i1
        simp at i3
        omega
      | false =>
        simp only [hs] at h
        have := mergeLoop_spec fuel (nm + 1) heap' chunks' r h i1
        simp at i3
        omega

/-- heap path of `merge_to_number`: same total, positive chunks, exactly `max_number` of them -/
theorem mergeHeap_spec {cs r : List Nat} {M : Nat} (h : mergeHeap cs M = .ok r) (hpos : ∀ c ∈ cs, 0 < c)
    (hM : M ≤ cs.length) : sum r = sum cs ∧ (∀ x ∈ r, 0 < x) ∧ r.length = M := by
  unfold mergeHeap at h
  cases hl : mergeLoop (mergeFuel cs.length) (cs.length - M) (heapInit 0 cs) cs with
  | error e => simp [hl] at h
  | ok chunks =>
    simp [hl] at h
    subst h
    obtain ⟨h1, h2⟩ := mergeLoop_spec _ _ _ _ _ hl (heapInit_inv 0 cs)
    refine ⟨?_, ?_, ?_⟩
    · have := sum_filter_ne_zero chunks
      simp only [ne_eq, decide_not] at this ⊢
      omega
    · intro x hx
      have := (List.mem_filter.1 hx).2
      simp at this; omega
    · have := nz_of_pos cs hpos
      unfold nz at h2 this
      simp only [ne_eq, decide_not] at h2 this ⊢
      omega

theorem sum_all_eq : ∀ (w : Nat) (rest : List Nat), rest.all (· == w) = true → sum rest = rest.length * w
  | _, [], _ => by simp [sum]
  | w, x :: xs, h => by
    simp at h
    rw [sum_cons, sum_all_eq w xs (by simpa using h.2), h.1, List.length_cons, Nat.succ_mul]; omega

/-- `merge_to_number` (all paths) on positive chunks: same total, positive chunks; exactly `max_number`
    chunks when there were more -/
theorem mergeToNumberFull_spec {cs r : List Nat} {M : Nat} (h : mergeToNumberFull cs M = .ok r)
    (hpos : ∀ c ∈ cs, 0 < c) :
    sum r = sum cs ∧ (∀ x ∈ r, 0 < x) ∧ (M < cs.length → r.length = M) ∧ (cs.length ≤ M → r = cs) := by
  unfold mergeToNumberFull at h
  split at h
  · rename_i hle
    simp at h; subst h
    exact ⟨rfl, hpos, fun hc => by omega, fun _ => rfl⟩
  · rename_i hlt
    cases cs with
    | nil => simp at hlt
    | cons w rest =>
      simp only at h
      split at h
      · rename_i hall
        simp only [List.length_cons] at h hlt ⊢
        cases hm : mergeHomogeneous w (rest.length + 1) M with
        | none => simp [hm] at h
        | some r' =>
          simp [hm] at h; subst h
          obtain ⟨a1, a2, a3⟩ := mergeHomogeneous_spec hm
          refine ⟨?_, a3 (by omega), fun _ => a1, fun hc => by omega⟩
          rw [a2, sum_cons, sum_all_eq w rest hall, Nat.succ_mul]; omega
      · obtain ⟨a1, a2, a3⟩ := mergeHeap_spec h hpos (by omega)
        exact ⟨a1, a2, fun _ => a3, fun hc => by omega⟩

end Dask.Chunks
