import DaskModel.Lemmas.ArrayReduce
import Mathlib.Data.List.Perm.Basic
import Mathlib.Data.List.Nodup
/-! Multi-axis tree reduction (`gridReduce`, the n-d `_tree_reduce`/`partial_reduce`): for a **commutative**
monoid the tree returns one block holding the fold of all block partials, for every per-axis group size and
every depth with `n_i ≤ k_i ^ depth`.  Ingredients: the product of per-axis partitions is a rearrangement of a
partition of the product (`cartesian_groups_perm`), keys are unique (`cartesian_nodup`), dict lookups
(`get?_of_mem`), one round (`round_keepdims`, `round_final`), induction on the depth (`gridReduce_eq_fold`). -/
namespace Dask.ArrayReduce
open List

variable {α β : Type}

theorem flatMap_swap {γ : Type} (l₁ : List α) (l₂ : List β) (f : α → β → List γ) :
    l₁.flatMap (fun a => l₂.flatMap (f a)) ~ l₂.flatMap (fun b => l₁.flatMap (fun a => f a b)) := by
  induction l₁ with
  | nil => simp
  | cons a l₁ ih =>
    simp only [flatMap_cons]
    exact (Perm.append_left _ ih).trans (flatMap_append_perm l₂ (f a) (fun b => l₁.flatMap fun a => f a b))

theorem cartesian_cons (xs : List α) (rest : List (List α)) :
    cartesian (xs :: rest) = xs.flatMap fun x => (cartesian rest).map (x :: ·) := rfl

theorem cartesian_groups_perm : ∀ (ps : List (List (List α))),
    (cartesian ps).flatMap cartesian ~ cartesian (ps.map List.flatten)
  | [] => by simp [cartesian]
  | P :: ps => by
    have ih := cartesian_groups_perm ps
    -- LHS: P.flatMap fun x => (cartesian ps).flatMap fun q => x.flatMap fun a => (cartesian q).map (a :: ·)
    have hL : (cartesian (P :: ps)).flatMap cartesian
        = P.flatMap fun x => (cartesian ps).flatMap fun q => x.flatMap fun a => (cartesian q).map (a :: ·) := by
      simp only [cartesian_cons, flatMap_assoc, flatMap_map]
    -- RHS: P.flatMap fun x => x.flatMap fun a => (cartesian (ps.map flatten)).map (a :: ·)
    have hR : cartesian ((P :: ps).map List.flatten)
        = P.flatMap fun x => x.flatMap fun a => (cartesian (ps.map List.flatten)).map (a :: ·) := by
      simp only [List.map_cons, cartesian_cons]
      generalize (fun a => (cartesian (ps.map List.flatten)).map (a :: ·)) = g
      clear hL ih
      induction P with
      | nil => rfl
      | cons x P ihP => simp only [List.flatten_cons, List.flatMap_append, List.flatMap_cons, ihP]
    rw [hL, hR]
    apply Perm.flatMap_left
    intro x _
    refine (flatMap_swap (cartesian ps) x (fun q a => (cartesian q).map (a :: ·))).trans ?_
    apply Perm.flatMap_left
    intro a _
    have : ((cartesian ps).flatMap fun q => (cartesian q).map (a :: ·))
        = ((cartesian ps).flatMap cartesian).map (a :: ·) := by
      simp only [map_flatMap]
    rw [this]
    exact Perm.map _ ih

/-! ### keys: lengths, no duplicates -/

theorem length_cartesian : ∀ (ls : List (List α)), (cartesian ls).length = (ls.map List.length).prod
  | [] => rfl
  | xs :: rest => by
    have ih := length_cartesian rest
    simp only [cartesian_cons, List.map_cons, List.prod_cons, List.length_flatMap, List.length_map, ih]
    induction xs with
    | nil => simp
    | cons x xs ihx => simp [ihx, Nat.add_mul]; omega

theorem cartesian_nodup : ∀ (ls : List (List α)), (∀ l ∈ ls, l.Nodup) → (cartesian ls).Nodup
  | [], _ => by simp [cartesian]
  | xs :: rest, h => by
    have ih := cartesian_nodup rest (fun l hl => h l (by simp [hl]))
    have hx : xs.Nodup := h xs (by simp)
    rw [cartesian_cons, List.nodup_flatMap]
    refine ⟨?_, ?_⟩
    · intro x _
      exact Nodup.map (fun a b hab => by injection hab) ih
    · refine Pairwise.imp_of_mem ?_ hx
      intro a b _ _ hab
      simp only [Function.onFun, List.Disjoint, List.mem_map]
      rintro l ⟨q, _, rfl⟩ ⟨q', _, h2⟩
      injection h2 with h3 _
      exact hab h3.symm

/-! ### grid lookups -/

theorem get?_of_mem (g : Grid β) (hn : (g.map (·.1)).Nodup) (k : List Nat) (v : β) (h : (k, v) ∈ g) :
    g.get? k = some v := by
  unfold Grid.get?
  have hex : ∃ x ∈ g.reverse, (x.1 == k) = true := ⟨(k, v), by simpa using h, by simp⟩
  cases hf : g.reverse.find? (fun x => x.1 == k) with
  | none =>
    rw [List.find?_eq_none] at hf
    obtain ⟨x, hx, hp⟩ := hex
    exact absurd hp (hf x hx)
  | some x =>
    have hxm : x ∈ g := by simpa using List.mem_of_find?_eq_some hf
    have hxk : x.1 = k := by simpa using List.find?_some hf
    -- keys are unique
    have : x = (k, v) := by
      obtain ⟨xk, xv⟩ := x
      simp only at hxk; subst hxk
      congr 1
      clear hf hex
      revert h hxm
      induction g with
      | nil => intro h; simp at h
      | cons y g ih =>
        intro h hxm
        simp only [List.map_cons, List.nodup_cons] at hn
        rcases List.mem_cons.mp h with h1 | h1 <;> rcases List.mem_cons.mp hxm with h2 | h2
        · rw [← h1] at h2; injection h2 with _ h3; exact h3.symm
        · exact absurd (List.mem_map.mpr ⟨(xk, v), h2, rfl⟩) (by rw [← h1] at hn; exact hn.1)
        · exact absurd (List.mem_map.mpr ⟨(xk, xv), h1, rfl⟩) (by rw [← h2] at hn; exact hn.1)
        · exact ih hn.2 h1 h2
    rw [this]; rfl

/-- value stored under a key (`d` if absent) -/
def valOf (d : β) (g : Grid β) (k : List Nat) : β := (g.get? k).getD d

theorem map_valOf_zip (d : β) (keys : List (List Nat)) (vs : List β) (hn : keys.Nodup)
    (hl : keys.length = vs.length) : keys.map (valOf d (keys.zip vs)) = vs := by
  apply List.ext_getElem
  · simp [hl]
  · intro i h1 h2
    simp only [List.getElem_map, valOf]
    have hi : i < keys.length := by simpa using h1
    have hmem : (keys[i], vs[i]'(by omega)) ∈ keys.zip vs := by
      rw [List.mem_iff_getElem]
      exact ⟨i, by simp; omega, by simp⟩
    rw [get?_of_mem _ (by rw [List.map_fst_zip (by omega)]; exact hn) _ _ hmem]
    rfl

theorem mapM_get? (d : β) (g : Grid β) (hn : (g.map (·.1)).Nodup) (ins : List (List Nat))
    (h : ∀ k ∈ ins, k ∈ g.map (·.1)) : ins.mapM g.get? = some (ins.map (valOf d g)) := by
  induction ins with
  | nil => rfl
  | cons k ks ih =>
    obtain ⟨⟨k', v⟩, hm, rfl⟩ := List.mem_map.mp (h k (by simp))
    have hg := get?_of_mem g hn k' v hm
    simp only [List.mapM_cons, hg, ih (fun x hx => h x (by simp [hx])), List.map_cons, valOf]
    rfl

/-! ### commutative monoid folds -/

structure IsCommMonoid (op : β → β → β) (e : β) : Prop extends IsMonoid op e where
  comm : ∀ a b, op a b = op b a

theorem cfold_perm {op : β → β → β} {e : β} (h : IsCommMonoid op e) {xs ys : List β} (p : xs ~ ys) :
    xs.foldr op e = ys.foldr op e := by
  apply List.Perm.foldr_eq' p
  intro a _ b _ z
  rw [← h.assoc, ← h.assoc, h.comm a b]

theorem cfold_flatten {op : β → β → β} {e : β} (h : IsMonoid op e) (gs : List (List β)) :
    (gs.map (fun g => g.foldr op e)).foldr op e = gs.flatten.foldr op e := by
  induction gs with
  | nil => rfl
  | cons g gs ih =>
    simp only [List.map_cons, List.foldr_cons, List.flatten_cons, List.foldr_append, ih]
    generalize gs.flatten.foldr op e = t
    induction g with
    | nil => simp [h.id_left]
    | cons x xs ihx => simp only [List.foldr_cons, h.assoc, ihx]

/-! ### one round -/

/-- per-axis partitions when every axis is reduced with group size `k_i` -/
def parts (ks nb : List Nat) : List (List (List Nat)) :=
  List.zipWith (fun k n => partitionAll k (List.range n)) ks nb

theorem zipWith_axisParts (ks nb : List Nat) :
    List.zipWith axisParts (ks.map some) nb = parts ks nb := by
  induction ks generalizing nb with
  | nil => rfl
  | cons k ks ih => cases nb with
    | nil => rfl
    | cons n nb =>
      simp only [List.map_cons, List.zipWith_cons_cons, parts, axisParts, Option.getD_some]
      exact congrArg _ (ih nb)

theorem parts_flatten (ks nb : List Nat) (hlen : ks.length = nb.length) (hk : ∀ k ∈ ks, k ≠ 0) :
    (parts ks nb).map List.flatten = nb.map List.range := by
  induction ks generalizing nb with
  | nil => cases nb <;> simp_all [parts]
  | cons k ks ih =>
    cases nb with
    | nil => simp at hlen
    | cons n nb =>
      simp only [parts, List.zipWith_cons_cons, List.map_cons]
      rw [flatten_partitionAll (hk k (by simp))]
      congr 1
      exact ih nb (by simpa using hlen) (fun x hx => hk x (by simp [hx]))

theorem range_nodup_all (nb : List Nat) : ∀ l ∈ nb.map List.range, l.Nodup := by
  intro l hl
  obtain ⟨n, _, rfl⟩ := List.mem_map.mp hl
  exact List.nodup_range

theorem mapM_some_list {γ δ : Type} (f : γ → Option δ) (g : γ → δ) (xs : List γ)
    (h : ∀ x ∈ xs, f x = some (g x)) : xs.mapM f = some (xs.map g) := by
  induction xs with
  | nil => rfl
  | cons x xs ih =>
    simp only [List.mapM_cons, h x (by simp), ih (fun y hy => h y (by simp [hy])), List.map_cons]
    rfl

/-- the groups of one round only mention existing keys, each exactly once (up to order) -/
theorem groups_perm (ks nb : List Nat) (hlen : ks.length = nb.length) (hk : ∀ k ∈ ks, k ≠ 0) :
    (cartesian (parts ks nb)).flatMap cartesian ~ cartesian (nb.map List.range) := by
  have := cartesian_groups_perm (parts ks nb)
  rwa [parts_flatten ks nb hlen hk] at this

/-- one `partial_reduce(keepdims=True)` over all axes: the new grid holds the group folds, and the fold
    of everything is unchanged -/
theorem round_keepdims {op : β → β → β} {e : β} (hM : IsCommMonoid op e) (ks nb : List Nat)
    (hlen : ks.length = nb.length) (hk : ∀ k ∈ ks, k ≠ 0) (vs : List β)
    (hvs : vs.length = (cartesian (nb.map List.range)).length) :
    ∃ vs', roundEval (fun xs => xs.foldr op e) (roundPlan nb (ks.map some) true) (mkGrid nb vs)
        = some (mkGrid (roundNumblocks nb (ks.map some)) vs') ∧
      vs'.length = (cartesian ((roundNumblocks nb (ks.map some)).map List.range)).length ∧
      vs'.foldr op e = vs.foldr op e := by
  set keys := cartesian (nb.map List.range) with hkeys
  have hnd : keys.Nodup := cartesian_nodup _ (range_nodup_all nb)
  set g := mkGrid nb vs with hg
  have hgk : g.map (·.1) = keys := by
    simp only [hg, mkGrid]; rw [List.map_fst_zip (Nat.le_of_eq hvs.symm)]
  set val := valOf e g with hval
  set groups := cartesian (parts ks nb) with hgroups
  refine ⟨groups.map (fun p => ((cartesian p).map val).foldr op e), ?_, ?_, ?_⟩
  · -- evaluation succeeds and yields exactly the grid of group folds
    unfold roundEval roundPlan roundNumblocks
    simp only [zipWith_axisParts, if_true]
    rw [mapM_some_list _ (fun kp : List Nat × List (List Nat) => (kp.1, (kp.2.map val).foldr op e))]
    · simp only [List.map_map, mkGrid]
      have hK : (List.map (fun p => List.range p.length) (parts ks nb))
          = List.map (List.range ∘ List.length) (parts ks nb) := rfl
      rw [hK, List.zip_map_right]
      apply congrArg some
      apply List.map_congr_left
      intro kp _
      rfl
    · intro kp hkp
      simp only [List.mem_map] at hkp
      obtain ⟨⟨k, p⟩, hzp, rfl⟩ := hkp
      have hp : p ∈ groups := (List.of_mem_zip hzp).2
      have hsub : ∀ key ∈ cartesian p, key ∈ g.map (·.1) := by
        intro key hkey
        rw [hgk]
        exact (groups_perm ks nb hlen hk).subset (List.mem_flatMap.mpr ⟨p, hp, hkey⟩)
      simp only [mapM_get? e g (by rw [hgk]; exact hnd) _ hsub]
      rfl
  · simp only [List.length_map, hgroups, roundNumblocks, zipWith_axisParts, length_cartesian, List.map_map,
      Function.comp_def, List.length_range]
  · have h1 := cfold_flatten hM.toIsMonoid (groups.map fun p => (cartesian p).map val)
    simp only [List.map_map, Function.comp_def] at h1
    rw [h1]
    have h2 : (groups.map fun p => (cartesian p).map val).flatten = (groups.flatMap cartesian).map val := by
      simp [List.flatMap_def, List.map_flatten, List.map_map, Function.comp_def]
    rw [h2, cfold_perm hM (Perm.map val (groups_perm ks nb hlen hk))]
    rw [hval, hg, mkGrid, map_valOf_zip e _ vs hnd hvs.symm]

/-! ### the last round and the whole tree -/

theorem dropAxes_all_some (ks : List Nat) (zs : List Nat) : dropAxes (ks.map some) zs = [] := by
  induction ks generalizing zs with
  | nil => cases zs <;> rfl
  | cons k ks ih => cases zs with
    | nil => rfl
    | cons z zs => simpa [dropAxes] using ih zs

theorem cartesian_singletons (ls : List α) : cartesian (ls.map fun x => [x]) = [ls] := by
  induction ls with
  | nil => rfl
  | cons x xs ih => simp [cartesian_cons, ih]

/-- per-axis side conditions: at least one block, at most `k ^ depth` blocks, `k ≠ 0` -/
def AxesOk (depth : Nat) (ks nb : List Nat) : Prop :=
  List.Forall₂ (fun k n => k ≠ 0 ∧ 1 ≤ n ∧ n ≤ k ^ depth) ks nb

theorem parts_single (ks nb : List Nat) (h : AxesOk 1 ks nb) :
    parts ks nb = nb.map fun n => [List.range n] := by
  induction h with
  | nil => rfl
  | @cons k n ks nb hkn _ ih =>
    simp only [parts, List.zipWith_cons_cons, List.map_cons]
    rw [partitionAll_of_length_le (List.range n) (by
        intro hr; have := congrArg List.length hr; simp at this; omega) (by simpa using hkn.2.2)]
    exact congrArg _ ih

theorem axesOk_step (d : Nat) (ks nb : List Nat) (h : AxesOk (d + 2) ks nb) :
    AxesOk (d + 1) ks (roundNumblocks nb (ks.map some)) := by
  unfold roundNumblocks
  rw [zipWith_axisParts]
  induction h with
  | nil => exact List.Forall₂.nil
  | @cons k n ks nb hkn _ ih =>
    simp only [parts, List.zipWith_cons_cons, List.map_cons]
    refine List.Forall₂.cons ⟨hkn.1, ?_, ?_⟩ ih
    · -- at least one group
      have hf := flatten_partitionAll hkn.1 (List.range n)
      cases hp : partitionAll k (List.range n) with
      | nil => rw [hp] at hf; have := congrArg List.length hf; simp at this; omega
      | cons g gs => simp
    · apply length_partitionAll_le hkn.1
      rw [List.length_range, ← Nat.pow_succ]
      exact hkn.2.2

theorem axesOk_length {d : Nat} {ks nb : List Nat} (h : AxesOk d ks nb) : ks.length = nb.length :=
  List.Forall₂.length_eq h

theorem axesOk_ne {d : Nat} {ks nb : List Nat} (h : AxesOk d ks nb) : ∀ k ∈ ks, k ≠ 0 := by
  induction h with
  | nil => simp
  | cons hkn _ ih => intro k hk; rcases List.mem_cons.mp hk with rfl | hk'; exact hkn.1; exact ih k hk'

/-- the final `partial_reduce(keepdims=False)` when every axis fits in one group -/
theorem round_final {op : β → β → β} {e : β} (ks nb : List Nat) (h : AxesOk 1 ks nb) (vs : List β)
    (hvs : vs.length = (cartesian (nb.map List.range)).length) :
    roundEval (fun xs => xs.foldr op e) (roundPlan nb (ks.map some) false) (mkGrid nb vs)
      = some [([], vs.foldr op e)] := by
  have hnd : (cartesian (nb.map List.range)).Nodup := cartesian_nodup _ (range_nodup_all nb)
  have hgk : (mkGrid nb vs).map (·.1) = cartesian (nb.map List.range) := by
    simp only [mkGrid]; rw [List.map_fst_zip (Nat.le_of_eq hvs.symm)]
  unfold roundEval roundPlan
  simp only [zipWith_axisParts, parts_single ks nb h, List.map_map, Function.comp_def, List.length_cons,
    List.length_nil, Bool.false_eq_true, if_false]
  have hgroups : cartesian (nb.map fun n => [List.range n]) = [nb.map List.range] := by
    have := cartesian_singletons (nb.map List.range)
    simpa [List.map_map, Function.comp_def] using this
  have hkeys : cartesian (nb.map fun _ => List.range (0 + 1)) = [nb.map fun _ => 0] := by
    have := cartesian_singletons (nb.map fun _ => 0)
    simpa [List.map_map, Function.comp_def, List.range_succ] using this
  rw [hgroups, hkeys]
  simp only [List.zip_cons_cons, List.zip_nil_right, List.map_cons, List.map_nil, List.mapM_cons, List.mapM_nil,
    dropAxes_all_some]
  rw [mapM_get? e (mkGrid nb vs) (by rw [hgk]; exact hnd) _ (by intro k hk; rw [hgk]; exact hk)]
  simp only [mkGrid, map_valOf_zip e _ vs hnd hvs.symm]
  rfl

/-- **gridReduce_eq_fold** (K1, n-d): for a commutative monoid, every per-axis group size `k_i ≥ 1` and every
    depth with `n_i ≤ k_i ^ depth` on every axis, the multi-axis tree over the grid of block partials returns a
    single block holding the fold of *all* partials. -/
theorem gridReduce_eq_fold {op : β → β → β} {e : β} (hM : IsCommMonoid op e) :
    ∀ (d : Nat) (ks nb : List Nat) (vs : List β), AxesOk (d + 1) ks nb →
      vs.length = (cartesian (nb.map List.range)).length →
      gridReduce (fun xs => xs.foldr op e) (fun xs => xs.foldr op e) nb (ks.map some) false (d + 1) (mkGrid nb vs)
        = some [([], vs.foldr op e)] := by
  intro d
  induction d with
  | zero =>
    intro ks nb vs h hvs
    show gridReduce _ _ _ _ _ 1 _ = _
    rw [gridReduce]
    exact round_final ks nb h vs hvs
  | succ d ih =>
    intro ks nb vs h hvs
    obtain ⟨vs', hr, hl, hf⟩ := round_keepdims hM ks nb (axesOk_length h) (axesOk_ne h) vs hvs
    show gridReduce _ _ _ _ _ (d + 1 + 1) _ = _
    rw [gridReduce]
    · rw [hr]
      show gridReduce _ _ _ _ _ (d + 1) _ = _
      rw [ih ks _ vs' (axesOk_step d ks nb h) hl, hf]
    · omega

end Dask.ArrayReduce
