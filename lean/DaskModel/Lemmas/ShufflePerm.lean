import DaskModel.Lemmas.ShuffleExact
/-! Multiset (`List.Perm`) facts about splitting a list into classes, and the frame-level exact theorems of the
    task shuffle. Core Lean only. -/
namespace Dask.Shuffle
variable {α : Type}

theorem filter_disjoint_or_perm {β : Type} (p q : β → Bool) (hd : ∀ a, p a = true → q a = true → False) :
    ∀ l : List β, (l.filter fun a => p a || q a).Perm (l.filter p ++ l.filter q)
  | [] => by simp
  | x :: xs => by
    have ih := filter_disjoint_or_perm p q hd xs
    cases hp : p x <;> cases hq : q x
    · simp only [List.filter_cons, hp, hq, Bool.or_self, Bool.false_eq_true, if_false]; exact ih
    · simp only [List.filter_cons, hp, hq, Bool.or_true, Bool.false_eq_true, if_false, if_true]
      exact (List.Perm.cons x ih).trans List.perm_middle.symm
    · simp only [List.filter_cons, hp, hq, Bool.or_false, Bool.false_eq_true, if_false, if_true, List.cons_append]
      exact List.Perm.cons x ih
    · exact (hd x hp hq).elim

/-- the classes `f = 0, …, f = n-1` of a list, concatenated, are a permutation of the elements with `f < n` -/
theorem classes_flatten_perm {β : Type} (f : β → Nat) (l : List β) : ∀ n : Nat,
    (((List.range n).map fun p => l.filter fun a => f a == p).flatten).Perm (l.filter fun a => decide (f a < n))
  | 0 => by simp
  | n + 1 => by
    rw [List.range_succ, List.map_append, List.flatten_append]
    simp only [List.map_cons, List.map_nil, List.flatten_cons, List.flatten_nil, List.append_nil]
    have h1 := classes_flatten_perm f l n
    have h2 := filter_disjoint_or_perm (fun a => decide (f a < n)) (fun a => f a == n)
      (by intro a h1 h2; simp at h1 h2; omega) l
    have h3 : (l.filter fun a => decide (f a < n + 1)) = l.filter fun a => decide (f a < n) || f a == n := by
      apply List.filter_congr
      intro a _
      rw [Bool.eq_iff_iff]
      simp only [decide_eq_true_eq, Bool.or_eq_true, beq_iff_eq]
      omega
    rw [h3]
    exact (List.Perm.append_right _ h1).trans h2.symm

/-- a list of `n` lists given position by position is the `map` over `range n` -/
theorem eq_map_range_of_getElem? {β : Type} (l : List β) (n : Nat) (f : Nat → β) (hl : l.length = n)
    (h : ∀ p, p < n → l[p]? = some (f p)) : l = (List.range n).map f := by
  apply List.ext_getElem?
  intro p
  by_cases hp : p < n
  · rw [h p hp, List.getElem?_map, List.getElem?_range hp]; rfl
  · rw [List.getElem?_eq_none (by omega), List.getElem?_eq_none (by simp; omega)]

/-- the classes modulo `n` cover everything -/
theorem classes_mod_flatten_perm {β : Type} (f : β → Nat) (l : List β) (n : Nat) (hn : 0 < n) :
    (((List.range n).map fun p => l.filter fun a => f a % n == p).flatten).Perm l := by
  have := classes_flatten_perm (fun a => f a % n) l n
  have h : (l.filter fun a => decide (f a % n < n)) = l := by
    apply List.filter_eq_self.mpr
    intro a _
    simp [Nat.mod_lt _ hn]
  rw [h] at this
  exact this

/-! ### the task shuffle, output by output -/

theorem taskShuffle_unfold (parts : List (List (Nat × α))) (nOut k S : Nat) :
    taskShuffle parts nOut k S =
      if nOut = parts.length then (stagedAt k S parts.length S parts).take nOut
      else (List.range nOut).map fun p =>
        ((stagedAt k S parts.length S parts).getD (p % parts.length) []).filter fun r => r.1 == p := rfl

theorem taskShuffle_length (parts : List (List (Nat × α))) (nOut k S : Nat) (hkS : parts.length ≤ k ^ S) :
    (taskShuffle parts nOut k S).length = nOut := by
  rw [taskShuffle_unfold]
  split
  · rename_i h
    rw [List.length_take, stagedAt_length]
    split <;> omega
  · simp

/-- **exact content of output `p`** of the staged task shuffle (all stages, padding, optional resize):
    unchanged partition count — the rows with `target % n = p`; changed count — the rows with `target = p`;
    in both cases in the order of the input (partition by partition, row by row) and with multiplicity. -/
theorem taskShuffle_getElem? (parts : List (List (Nat × α))) (nOut k S : Nat) (hk : 0 < k)
    (hkS : parts.length ≤ k ^ S) (hpos : 0 < parts.length) (p : Nat) (hp : p < nOut) :
    (taskShuffle parts nOut k S)[p]? = some (parts.flatten.filter fun r =>
      if nOut = parts.length then r.1 % parts.length == p else r.1 == p) := by
  rw [taskShuffle_unfold]
  split
  · rename_i h
    have hlen : p < (stagedAt k S parts.length S parts).length := by
      rw [stagedAt_length]; split <;> omega
    rw [List.getElem?_take, if_pos hp]
    rw [← staged_final k S hk parts hkS p (by omega), List.getD_eq_getElem?_getD,
      List.getElem?_eq_getElem hlen]
    rfl
  · rw [List.getElem?_map, List.getElem?_range hp]
    simp only [Option.map_some, Option.some.injEq]
    have hq : p % parts.length < k ^ S := Nat.lt_of_lt_of_le (Nat.mod_lt _ hpos) hkS
    rw [staged_final k S hk parts hkS _ hq, List.filter_filter]
    apply List.filter_congr
    intro r _
    rw [Bool.eq_iff_iff]
    simp only [Bool.and_eq_true, beq_iff_eq]
    constructor
    · intro h; exact h.1
    · intro h; exact ⟨h, by rw [h]⟩

/-- with valid targets (what `AssignPartitioningIndex` / `set_partitions_pre` produce) both cases read the same -/
theorem taskShuffle_getElem?_valid (parts : List (List (Nat × α))) (nOut k S : Nat) (hk : 0 < k)
    (hkS : parts.length ≤ k ^ S) (hpos : 0 < parts.length)
    (htarget : ∀ rows ∈ parts, ∀ r ∈ rows, r.1 < nOut) (p : Nat) (hp : p < nOut) :
    (taskShuffle parts nOut k S)[p]? = some (parts.flatten.filter fun r => r.1 == p) := by
  rw [taskShuffle_getElem? parts nOut k S hk hkS hpos p hp]
  congr 1
  apply List.filter_congr
  intro r hr
  obtain ⟨rows, hrows, hrr⟩ := List.mem_flatten.mp hr
  have := htarget rows hrows r hrr
  split
  · rename_i h
    rw [Nat.mod_eq_of_lt (by omega)]
  · rfl

/-! ### the disk shuffle: right rows, arrival order -/

theorem orderedShuffle_length (ps : List (List (Nat × α))) (n : Nat) : (orderedShuffle ps n).length = n := by
  simp [orderedShuffle]

theorem orderedShuffle_getElem? (ps : List (List (Nat × α))) (n p : Nat) (hp : p < n) :
    (orderedShuffle ps n)[p]? = some (ps.flatten.filter fun r => r.1 == p) := by
  unfold orderedShuffle
  rw [List.getElem?_map, List.getElem?_range hp]; rfl

/-- collecting the partitions in any arrival order gives the same multiset of rows -/
theorem arrival_flatten_perm (arrival : List Nat) (parts : List (List (Nat × α)))
    (h : arrival.Perm (List.range parts.length)) :
    (arrival.map fun i => parts.getD i []).flatten.Perm parts.flatten := by
  have h1 := (h.map fun i => parts.getD i []).flatten
  have h2 := flatMap_getD_range parts parts.length (Nat.le_refl _)
  rw [List.flatMap_def] at h2
  rw [h2] at h1
  exact h1

/-- **disk shuffle**: for ANY arrival order of the input partitions there are `nOut` outputs and output `p` holds, in
    some order, exactly the rows with target `p` (multiplicity included) -/
theorem diskShuffle_spec (arrival : List Nat) (parts : List (List (Nat × α))) (nOut : Nat)
    (h : arrival.Perm (List.range parts.length)) :
    (diskShuffle arrival parts nOut).length = nOut ∧
    ∀ p, p < nOut → ((diskShuffle arrival parts nOut).getD p []).Perm (parts.flatten.filter fun r => r.1 == p) := by
  refine ⟨orderedShuffle_length _ _, ?_⟩
  intro p hp
  unfold diskShuffle
  rw [List.getD_eq_getElem?_getD, orderedShuffle_getElem? _ _ _ hp]
  exact (arrival_flatten_perm arrival parts h).filter _

theorem diskShuffle_mem (arrival : List Nat) (parts : List (List (Nat × α))) (nOut : Nat)
    (h : arrival.Perm (List.range parts.length)) (p : Nat) (out : List (Nat × α))
    (hout : (diskShuffle arrival parts nOut)[p]? = some out) (r : Nat × α) (hr : r ∈ out) :
    r ∈ parts.flatten ∧ r.1 = p := by
  have hp : p < nOut := by
    have := (List.getElem?_eq_some_iff.mp hout).1
    rwa [(diskShuffle_spec arrival parts nOut h).1] at this
  have := (diskShuffle_spec arrival parts nOut h).2 p hp
  rw [List.getD_eq_getElem?_getD, hout] at this
  have hm := List.mem_filter.mp (this.mem_iff.mp hr)
  exact ⟨hm.1, by simpa using hm.2⟩

theorem diskShuffle_flatten_perm (arrival : List Nat) (parts : List (List (Nat × α))) (nOut : Nat)
    (h : arrival.Perm (List.range parts.length)) (htarget : ∀ rows ∈ parts, ∀ r ∈ rows, r.1 < nOut) :
    (diskShuffle arrival parts nOut).flatten.Perm parts.flatten := by
  unfold diskShuffle orderedShuffle
  refine (classes_flatten_perm (fun (r : Nat × α) => r.1) _ nOut).trans ?_
  have hall : ((arrival.map fun i => parts.getD i []).flatten.filter fun r => decide (r.1 < nOut)) =
      (arrival.map fun i => parts.getD i []).flatten := by
    apply List.filter_eq_self.mpr
    intro r hr
    have hr' := (arrival_flatten_perm arrival parts h).mem_iff.mp hr
    obtain ⟨rows, hrows, hrr⟩ := List.mem_flatten.mp hr'
    simpa using htarget rows hrows r hrr
  rw [hall]
  exact arrival_flatten_perm arrival parts h

end Dask.Shuffle
