import DaskModel.Lemmas.RenameBindLoop1
/-! C16, `_bind_one` (review round), part 3: the invariant of the second worklist loop (`while layers_to_copy_verbatim:`)
    and the fuel / KeyError analysis of both loops (`cloneLoop_ok`, `verbLoop_ok`). -/
namespace Dask.TaskTerm

/-! ### the second loop -/

section Loop2
variable (G : LayerMap) (om child : List Obj)

/-- invariant of `while layers_to_copy_verbatim:` relative to the state `acc1` the first loop left -/
structure Inv2 (acc1 : BindAcc) (work : List Obj) (acc : BindAcc) : Prop where
  keys : acc.layers.map Prod.fst = acc.deps.map Prod.fst
  ext : ∀ n, (acc1.layers.lookup n).isSome →
    acc.layers.lookup n = acc1.layers.lookup n ∧ acc.deps.lookup n = acc1.deps.lookup n
  orig : ∀ n o, acc.layers.lookup n = some o → acc1.layers.lookup n = some o ∨
    (o = .verbatim ∧ Verb G om child n ∧ acc1.layers.lookup n = none ∧
      ∃ ds leaf, G.lookup n = some (ds, leaf) ∧ acc.deps.lookup n = some ds)
  workV : ∀ d ∈ work, Verb G om child d
  base : ∀ d, VerbBase G om child d → d ∈ work ∨ (acc.layers.lookup d).isSome
  closed : ∀ n ds leaf, (acc.layers.lookup n).isSome → acc1.layers.lookup n = none → G.lookup n = some (ds, leaf) →
    ∀ d ∈ ds, d ∈ work ∨ (acc.layers.lookup d).isSome

theorem Inv2.init (acc1 : BindAcc) (verb : List Obj) (h0 : acc1.layers.map Prod.fst = acc1.deps.map Prod.fst)
    (hv : ∀ d ∈ verb, VerbBase G om child d) (hb : ∀ d, VerbBase G om child d → d ∈ verb) :
    Inv2 G om child acc1 verb acc1 where
  keys := h0
  ext := fun _ _ => ⟨rfl, rfl⟩
  orig := fun _ _ h => Or.inl h
  workV := fun d h => Verb.base (hv d h)
  base := fun d h => Or.inl (hb d h)
  closed := fun n _ _ h1 h2 => by rw [h2] at h1; cases h1

theorem Inv2.skip {acc1 : BindAcc} {work : List Obj} {acc : BindAcc} (I : Inv2 G om child acc1 work acc)
    {sel : List Obj → Nat} {name : Obj} {rest : List Obj} (hp : popAt sel work = some (name, rest))
    (hin : (acc.layers.lookup name).isSome) : Inv2 G om child acc1 rest acc := by
  obtain ⟨hpw, hrw, hwr, _⟩ := popAt_some hp
  refine { I with workV := fun l hl => I.workV l (hrw l hl), base := ?_, closed := ?_ }
  · intro d hd
    rcases I.base d hd with h | h
    · rcases hwr d h with rfl | h'
      · exact Or.inr hin
      · exact Or.inl h'
    · exact Or.inr h
  · intro n ds leaf h1 h2 h3 d hd
    rcases I.closed n ds leaf h1 h2 h3 d hd with h | h
    · rcases hwr d h with rfl | h'
      · exact Or.inr hin
      · exact Or.inl h'
    · exact Or.inr h

theorem Inv2.process {acc1 : BindAcc} {work : List Obj} {acc : BindAcc} (I : Inv2 G om child acc1 work acc)
    {sel : List Obj → Nat} {name : Obj} {rest : List Obj} (hp : popAt sel work = some (name, rest))
    (hnin : (acc.layers.lookup name).isSome = false) {ldeps : List Obj} {leaf : Bool}
    (hG : G.lookup name = some (ldeps, leaf)) :
    Inv2 G om child acc1 (unionL rest ldeps)
      ⟨setKey acc.layers name .verbatim, setKey acc.deps name ldeps⟩ := by
  obtain ⟨hpw, hrw, hwr, _⟩ := popAt_some hp
  have hne1 : ∀ n, (acc1.layers.lookup n).isSome → (n == name) = false := by
    intro n hn
    rw [Bool.eq_false_iff]; intro hc
    have : n = name := eq_of_beq hc
    subst this
    rw [(I.ext _ hn).1, hn] at hnin; cases hnin
  have h1none : acc1.layers.lookup name = none := by
    cases h : acc1.layers.lookup name with
    | none => rfl
    | some o =>
      have := hne1 name (by simp [h])
      simp at this
  have hdone : ∀ x, (acc.layers.lookup x).isSome →
      ((setKey acc.layers name LayerOrigin.verbatim).lookup x).isSome :=
    fun x hx => isSome_setKey _ _ _ _ hx
  constructor
  · simp only [keys_setKey]
    rw [← I.keys]
  · intro n hn
    simp only [lookup_setKey, hne1 n hn, Bool.false_eq_true, if_false]
    exact I.ext n hn
  · intro n o ho
    simp only [lookup_setKey] at ho ⊢
    by_cases hn : (n == name) = true
    · simp only [hn, if_true] at ho ⊢
      have e : n = name := eq_of_beq hn
      subst e
      right
      cases ho
      exact ⟨rfl, I.workV _ hpw, h1none, ldeps, leaf, hG, rfl⟩
    · have hn' : (n == name) = false := by simpa using hn
      simp only [hn', Bool.false_eq_true, if_false] at ho ⊢
      exact I.orig n o ho
  · intro d hd
    rcases mem_unionL.mp hd with h | h
    · exact I.workV d (hrw d h)
    · exact Verb.step (I.workV _ hpw) hG h
  · intro d hd
    rcases I.base d hd with h | h
    · rcases hwr d h with rfl | h'
      · right; simp [lookup_setKey]
      · exact Or.inl (mem_unionL.mpr (Or.inl h'))
    · exact Or.inr (hdone _ h)
  · intro n ds lf h1 h2 h3 d hd
    simp only [lookup_setKey] at h1
    by_cases hn : (n == name) = true
    · have e : n = name := eq_of_beq hn
      subst e
      rw [hG] at h3
      cases h3
      exact Or.inl (mem_unionL.mpr (Or.inr hd))
    · have hn' : (n == name) = false := by simpa using hn
      simp only [hn', Bool.false_eq_true, if_false] at h1
      rcases I.closed n ds lf h1 h2 h3 d hd with h | h
      · rcases hwr d h with rfl | h'
        · right; simp [lookup_setKey]
        · exact Or.inl (mem_unionL.mpr (Or.inl h'))
      · exact Or.inr (hdone _ h)

theorem verbLoop_inv (sel : List Obj → Nat) (acc1 : BindAcc) : ∀ (fuel : Nat) (work : List Obj) (acc : BindAcc),
    Inv2 G om child acc1 work acc → ∀ acc', verbLoop G sel fuel work acc = .ok acc' → Inv2 G om child acc1 [] acc'
  | 0, work, acc, I, acc', h => by
    simp only [verbLoop] at h
    cases hp : popAt sel work with
    | none =>
      simp only [hp] at h
      cases h
      rw [popAt_none.mp hp] at I; exact I
    | some x => simp [hp] at h
  | fuel + 1, work, acc, I, acc', h => by
    simp only [verbLoop] at h
    cases hp : popAt sel work with
    | none =>
      simp only [hp] at h
      cases h
      rw [popAt_none.mp hp] at I; exact I
    | some x =>
      obtain ⟨name, rest⟩ := x
      simp only [hp] at h
      by_cases hin : (acc.layers.lookup name).isSome = true
      · simp only [hin, if_true] at h
        exact verbLoop_inv sel acc1 fuel rest acc (I.skip G om child hp hin) acc' h
      · have hnin : (acc.layers.lookup name).isSome = false := by
          cases hh : (acc.layers.lookup name).isSome with
          | true => exact absurd hh hin
          | false => rfl
        simp only [hnin, Bool.false_eq_true, if_false] at h
        cases hG : G.lookup name with
        | none => simp [hG] at h
        | some e =>
          obtain ⟨ldeps, leaf⟩ := e
          simp only [hG] at h
          exact verbLoop_inv sel acc1 fuel _ _ (I.process G om child hp hnin hG) acc' h
end Loop2

/-! ### fuel and KeyError -/

/-- total length of the dependency lists of the layers satisfying `p` -/
def depMass (G : LayerMap) (p : Obj → Bool) : Nat := ((G.filter fun e => p e.1).map fun e => e.2.1.length).sum

theorem depMass_le (G : LayerMap) (p : Obj → Bool) : depMass G p ≤ (G.map fun e => e.2.1.length).sum := by
  unfold depMass
  induction G with
  | nil => simp
  | cons e rest ih =>
    by_cases h : p e.1 = true
    · simp only [List.filter_cons, h, if_true, List.map_cons, List.sum_cons]; omega
    · have h' : p e.1 = false := by simpa using h
      simp only [List.filter_cons, h', Bool.false_eq_true, if_false, List.map_cons, List.sum_cons]; omega

theorem depMass_drop (G : LayerMap) (p p' : Obj → Bool) {l : Obj} {ds : List Obj} {leaf : Bool}
    (hG : G.lookup l = some (ds, leaf)) (hpp : ∀ x, p' x = true → p x = true) (h0 : p l = true) (h0' : p' l = false) :
    depMass G p' + ds.length ≤ depMass G p :=
  sum_filter_drop (fun e : Obj × (List Obj × Bool) => e.2.1.length) (fun e => p e.1) (fun e => p' e.1) (l, (ds, leaf)) G
    (mem_of_lookup G l _ hG) (fun e => hpp e.1) h0 h0'

theorem cloneLoop_ok (G : LayerMap) (om : List Obj) (ρ : Obj → Obj) (blk : Option Obj) (sel : List Obj → Nat)
    (hdeps : ∀ l ds leaf, G.lookup l = some (ds, leaf) → ∀ d ∈ ds, (G.lookup d).isSome) :
    ∀ (fuel : Nat) (work verb : List Obj) (acc : BindAcc), (∀ l ∈ work, (G.lookup l).isSome) →
      work.length + verb.length + depMass G (fun l => (acc.layers.lookup (ρ l)).isNone) ≤ fuel →
      ∃ verb' acc', cloneLoop G om ρ blk sel fuel work verb acc = .ok (verb', acc') ∧
        verb'.length ≤ work.length + verb.length + depMass G (fun l => (acc.layers.lookup (ρ l)).isNone)
  | 0, work, verb, acc, _, hm => by
    have hw : work = [] := by
      cases work with
      | nil => rfl
      | cons a as => simp at hm
    subst hw
    exact ⟨verb, acc, by simp [cloneLoop, popAt], by simp⟩
  | fuel + 1, work, verb, acc, hw, hm => by
    simp only [cloneLoop]
    cases hp : popAt sel work with
    | none => exact ⟨verb, acc, rfl, by omega⟩
    | some x =>
      obtain ⟨prev, rest⟩ := x
      obtain ⟨hpw, hrw, _, hlen⟩ := popAt_some hp
      simp only []
      by_cases hin : (acc.layers.lookup (ρ prev)).isSome = true
      · simp only [hin, if_true]
        obtain ⟨v', a', e, hle⟩ := cloneLoop_ok G om ρ blk sel hdeps fuel rest verb acc (fun l hl => hw l (hrw l hl)) (by omega)
        exact ⟨v', a', e, by omega⟩
      · have hnin : (acc.layers.lookup (ρ prev)).isSome = false := by
          cases hh : (acc.layers.lookup (ρ prev)).isSome with
          | true => exact absurd hh hin
          | false => rfl
        simp only [hnin, Bool.false_eq_true, if_false]
        cases hG : G.lookup prev with
        | none => have := hw prev hpw; rw [hG] at this; cases this
        | some e =>
          obtain ⟨ldeps, leaf⟩ := e
          simp only []
          have hdrop := depMass_drop G (fun l => (acc.layers.lookup (ρ l)).isNone)
            (fun l => ((setKey acc.layers (ρ prev) (LayerOrigin.cloned prev (blk.isSome && leaf))).lookup (ρ l)).isNone) hG
            (by
              intro x hx
              cases h : acc.layers.lookup (ρ x) with
              | none => rfl
              | some o =>
                have := isSome_setKey acc.layers (ρ prev) (LayerOrigin.cloned prev (blk.isSome && leaf)) (ρ x) (by simp [h])
                cases h2 : (setKey acc.layers (ρ prev) (LayerOrigin.cloned prev (blk.isSome && leaf))).lookup (ρ x) with
                | none => rw [h2] at this; cases this
                | some _ => rw [h2] at hx; cases hx)
            (by cases h : acc.layers.lookup (ρ prev) with
                | none => rfl
                | some _ => rw [h] at hnin; cases hnin)
            (by simp [lookup_setKey])
          have h1 := length_unionL_le rest (ldeps.filter fun d => !om.contains d)
          have h2 := length_unionL_le verb (ldeps.filter fun d => om.contains d)
          have h3 := length_filter_partition (fun d => om.contains d) ldeps
          obtain ⟨v', a', e, hle⟩ := cloneLoop_ok G om ρ blk sel hdeps fuel
            (unionL rest (ldeps.filter fun d => !om.contains d)) (unionL verb (ldeps.filter fun d => om.contains d))
            ⟨setKey acc.layers (ρ prev) (.cloned prev (blk.isSome && leaf)), setKey acc.deps (ρ prev) (newDepOf ρ om blk ldeps leaf)⟩
            (by
              intro l hl
              rcases mem_unionL.mp hl with h | h
              · exact hw l (hrw l h)
              · exact hdeps _ _ _ hG l (List.mem_filter.mp h).1)
            (by simp only []; omega)
          exact ⟨v', a', e, by simp only [] at hle; omega⟩

theorem verbLoop_ok (G : LayerMap) (sel : List Obj → Nat)
    (hdeps : ∀ l ds leaf, G.lookup l = some (ds, leaf) → ∀ d ∈ ds, (G.lookup d).isSome) :
    ∀ (fuel : Nat) (work : List Obj) (acc : BindAcc), (∀ l ∈ work, (G.lookup l).isSome) →
      work.length + depMass G (fun l => (acc.layers.lookup l).isNone) ≤ fuel →
      ∃ acc', verbLoop G sel fuel work acc = .ok acc'
  | 0, work, acc, _, hm => by
    have hw : work = [] := by
      cases work with
      | nil => rfl
      | cons a as => simp at hm
    subst hw
    exact ⟨acc, by simp [verbLoop, popAt]⟩
  | fuel + 1, work, acc, hw, hm => by
    simp only [verbLoop]
    cases hp : popAt sel work with
    | none => exact ⟨acc, rfl⟩
    | some x =>
      obtain ⟨name, rest⟩ := x
      obtain ⟨hpw, hrw, _, hlen⟩ := popAt_some hp
      simp only []
      by_cases hin : (acc.layers.lookup name).isSome = true
      · simp only [hin, if_true]
        exact verbLoop_ok G sel hdeps fuel rest acc (fun l hl => hw l (hrw l hl)) (by omega)
      · have hnin : (acc.layers.lookup name).isSome = false := by
          cases hh : (acc.layers.lookup name).isSome with
          | true => exact absurd hh hin
          | false => rfl
        simp only [hnin, Bool.false_eq_true, if_false]
        cases hG : G.lookup name with
        | none => have := hw name hpw; rw [hG] at this; cases this
        | some e =>
          obtain ⟨ldeps, leaf⟩ := e
          simp only []
          have hdrop := depMass_drop G (fun l => (acc.layers.lookup l).isNone)
            (fun l => ((setKey acc.layers name LayerOrigin.verbatim).lookup l).isNone) hG
            (by
              intro x hx
              cases h : acc.layers.lookup x with
              | none => rfl
              | some o =>
                have := isSome_setKey acc.layers name LayerOrigin.verbatim x (by simp [h])
                cases h2 : (setKey acc.layers name LayerOrigin.verbatim).lookup x with
                | none => rw [h2] at this; cases this
                | some _ => rw [h2] at hx; cases hx)
            (by cases h : acc.layers.lookup name with
                | none => rfl
                | some _ => rw [h] at hnin; cases hnin)
            (by simp [lookup_setKey])
          have h1 := length_unionL_le rest ldeps
          exact verbLoop_ok G sel hdeps fuel (unionL rest ldeps)
            ⟨setKey acc.layers name .verbatim, setKey acc.deps name ldeps⟩
            (by
              intro l hl
              rcases mem_unionL.mp hl with h | h
              · exact hw l (hrw l h)
              · exact hdeps _ _ _ hG l h)
            (by simp only []; omega)

end Dask.TaskTerm
