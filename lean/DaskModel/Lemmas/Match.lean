import DaskModel.Model.Match
/-! Helper definitions and lemmas for C51 (term-rewrite matching). -/
namespace Dask.Match

mutual
/-- `σ(pattern)`: the pattern with its variables replaced; `none` if a variable is unbound. (Specification side.) -/
def instPattern (vars : List Sym) (σ : Subst) : Term → Option Term
  | .app f ps => (instPatternList vars σ ps).map (Term.app f)
  | .lst ps => (instPatternList vars σ ps).map Term.lst
  | .atom s => if s ∈ vars then σ.get s else some (.atom s)
def instPatternList (vars : List Sym) (σ : Subst) : List Term → Option (List Term)
  | [] => some []
  | p :: ps => (instPattern vars σ p).bind fun t => (instPatternList vars σ ps).map (t :: ·)
end

mutual
/-- the check added by the fix decides exactly `σ(pattern) = term` -/
theorem instantiates_iff (vars : List Sym) (σ : Subst) :
    ∀ (p t : Term), instantiates vars σ p t = true ↔ instPattern vars σ p = some t
  | .app f ps, .app g ts => by
    simp only [instantiates, instPattern, Bool.and_eq_true, beq_iff_eq, instantiatesList_iff vars σ ps ts,
      Option.map_eq_some_iff, Term.app.injEq]
    constructor
    · rintro ⟨rfl, h⟩; exact ⟨ts, h, rfl, rfl⟩
    · rintro ⟨ts', h, rfl, rfl⟩; exact ⟨rfl, h⟩
  | .app f ps, .atom s => by simp [instantiates, instPattern]
  | .app f ps, .lst ts => by simp [instantiates, instPattern]
  | .lst ps, .lst ts => by
    simp only [instantiates, instPattern, instantiatesList_iff vars σ ps ts, Option.map_eq_some_iff, Term.lst.injEq]
    constructor
    · intro h; exact ⟨ts, h, rfl⟩
    · rintro ⟨ts', h, rfl⟩; exact h
  | .lst ps, .atom s => by simp [instantiates, instPattern]
  | .lst ps, .app g ts => by simp [instantiates, instPattern]
  | .atom s, t => by
    simp only [instantiates, instPattern]
    by_cases hs : s ∈ vars
    · simp only [hs, if_true]
      cases σ.get s with
      | none => simp
      | some v => simp
    · simp only [hs, if_false, beq_iff_eq, Option.some.injEq]
      exact eq_comm
theorem instantiatesList_iff (vars : List Sym) (σ : Subst) :
    ∀ (ps ts : List Term), instantiatesList vars σ ps ts = true ↔ instPatternList vars σ ps = some ts
  | [], [] => by simp [instantiatesList, instPatternList]
  | [], _ :: _ => by simp [instantiatesList, instPatternList]
  | _ :: _, [] => by
    simp only [instantiatesList, instPatternList, Bool.false_eq_true, false_iff]
    intro h
    simp only [Option.bind_eq_some_iff, Option.map_eq_some_iff] at h
    obtain ⟨_, _, _, _, h⟩ := h
    cases h
  | p :: ps, t :: ts => by
    simp only [instantiatesList, instPatternList, Bool.and_eq_true, instantiates_iff vars σ p t,
      instantiatesList_iff vars σ ps ts, Option.bind_eq_some_iff, Option.map_eq_some_iff, List.cons.injEq]
    constructor
    · rintro ⟨h1, h2⟩; exact ⟨t, h1, ts, h2, rfl, rfl⟩
    · rintro ⟨t', h1, ts', h2, rfl, rfl⟩; exact ⟨h1, h2⟩
end

theorem candidates_sound (rules : List Rule) (term : Term) (ys : List Yield) (i : Nat) (σ : Subst)
    (hm : (i, σ) ∈ candidates rules term ys) :
    ∃ r, rules[i]? = some r ∧ instPattern r.vars σ r.lhs = some term := by
  unfold candidates at hm
  simp only [List.mem_flatMap, List.mem_filterMap] at hm
  obtain ⟨y, _, j, _, hj⟩ := hm
  cases hr : rules[j]? with
  | none => simp [hr] at hj
  | some r =>
    simp only [hr] at hj
    cases hp : processMatch r.varlist y.2 with
    | none => simp [hp] at hj
    | some o =>
      cases o with
      | none => simp [hp] at hj
      | some σ' =>
        simp only [hp] at hj
        by_cases hi : instantiates r.vars σ' r.lhs term = true
        · simp only [hi, if_true, Option.some.injEq, Prod.mk.injEq] at hj
          obtain ⟨rfl, rfl⟩ := hj
          exact ⟨r, hr, (instantiates_iff _ _ _ _).mp hi⟩
        · simp [hi] at hj

theorem candidates_process (rules : List Rule) (term : Term) (ys : List Yield) (i : Nat) (σ : Subst)
    (hm : (i, σ) ∈ candidates rules term ys) :
    ∃ r syms, rules[i]? = some r ∧ processGo r.varlist syms [] = some σ ∧ r.varlist.length = syms.length := by
  unfold candidates at hm
  simp only [List.mem_flatMap, List.mem_filterMap] at hm
  obtain ⟨y, _, j, _, hj⟩ := hm
  cases hr : rules[j]? with
  | none => simp [hr] at hj
  | some r =>
    simp only [hr] at hj
    cases hp : processMatch r.varlist y.2 with
    | none => simp [hp] at hj
    | some o =>
      cases o with
      | none => simp [hp] at hj
      | some σ' =>
        simp only [hp] at hj
        by_cases hi : instantiates r.vars σ' r.lhs term = true
        · simp only [hi, if_true, Option.some.injEq, Prod.mk.injEq] at hj
          obtain ⟨rfl, rfl⟩ := hj
          unfold processMatch at hp
          by_cases hl : r.varlist.length ≠ y.2.length
          · simp [hl] at hp
          · simp only [hl, if_false, Option.some.injEq] at hp
            exact ⟨r, y.2, hr, hp, by simpa using hl⟩
        · simp [hi] at hj

end Dask.Match
