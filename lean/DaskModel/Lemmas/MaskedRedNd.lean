import DaskModel.Lemmas.MaskedRed
import DaskModel.Lemmas.GridReduce
/-! Helper lemmas for the n-d masked reduction theorem `C33x.ma_red_nd_eq`: numpy.ma's kernel `maRed` is the fold of the PLAIN
product monoid `pop` on pairs after every partial has been normalised (`filled(e)` written back under the mask) — and every
partial of the graph already is normalised. -/
namespace Dask.MaskedRed
open Dask.ArrayReduce

variable {α : Type} {op : α → α → α} {e : α}

/-- `filled(e)` written back under the mask: what every partial of the graph looks like -/
def norm (e : α) (x : Masked α) : Masked α := ⟨fill e x, x.mask⟩

/-- the plain product monoid on pairs (no `filled`): unit `(e, masked)` -/
def pop (op : α → α → α) (a b : Masked α) : Masked α := ⟨op a.data b.data, a.mask && b.mask⟩

theorem pop_comm_monoid (h : IsCommMonoid op e) : IsCommMonoid (pop op) ⟨e, true⟩ := by
  refine ⟨⟨?_, ?_, ?_⟩, ?_⟩
  · intro a b c; simp only [pop, h.assoc, Bool.and_assoc]
  · intro a; simp only [pop, h.id_left, Bool.true_and]
  · intro a; simp only [pop, h.id_right, Bool.and_true]
  · intro a b; simp only [pop, h.comm a.data b.data, Bool.and_comm]

theorem maRed_eq_foldr_norm (xs : List (Masked α)) :
    maRed op e xs = (xs.map (norm e)).foldr (pop op) ⟨e, true⟩ := by
  unfold maRed maChunk foldFilled allMasked
  induction xs with
  | nil => rfl
  | cons x xs ih =>
    simp only [List.map_cons, List.foldr_cons, List.all_cons, Bool.not_false, Bool.true_and] at ih ⊢
    rw [← ih]
    rfl

/-- every partial is normalised: under the mask of a masked partial lies the unit -/
theorem norm_maChunk (h : IsMonoid op e) (nm : Bool) (xs : List (Masked α)) :
    norm e (maChunk nm op e xs) = maChunk nm op e xs := by
  unfold norm
  rw [fill_maChunk h]
  rfl

end Dask.MaskedRed
