import DaskModel.Lemmas.SetItemNDLemmas
import DaskModel.Lemmas.ArrPadsLemmas
/-! C21 extension, (b): the value-index bookkeeping of `setitem_array` — which positions of every value axis a block
    reads (`vixEval` of the value indices the code builds: `slice(n_preceding, n_preceding + size)`, `slice(None)` on a
    broadcast axis, the mirrored slice on a reversed axis, `value_indices_from_1d_int_index`), and that over all blocks
    they are NumPy's value positions for the elements assigned. -/
namespace Dask.SetItemND
open Dask.Slice1D Dask.SetItem Dask.Store

/-- positions of a value axis of length `size` that a value index reads, in order (`value[..., vix, ...]`) -/
def vixEval (size : Nat) : VIx → Option (List Int)
  | .sl s => pySliceIdx size s
  | .arr ps => some (ps.map Int.ofNat)
  | .ellipsis => none

/-- NumPy's assignment inside one block, along one axis: a piece of length one is broadcast over the selection,
    otherwise the `t`-th selected element receives the `t`-th element of the piece -/
def pairUp {α β : Type} (sel : List α) (vp : List β) : List (α × β) :=
  match vp with
  | [v] => sel.map (·, v)
  | _ => sel.zip vp

/-- NumPy's `x[idx] = v` along one axis: the value position that the element of rank `r` (in the order of the parsed,
    increasing selection of `L` elements) receives — 0 on a broadcast value axis, mirrored on a reversed axis -/
def npPos (vlen L : Nat) (rev : Bool) (r : Nat) : Int :=
  if vlen = 1 then 0 else if rev then (L : Int) - 1 - r else r

theorem pairUp_of_length {α β : Type} (sel : List α) (vp : List β) (h : sel.length = vp.length) :
    pairUp sel vp = sel.zip vp := by
  match vp, h with
  | [], _ => rfl
  | [v], h =>
    match sel, h with
    | [a], _ => rfl
  | _ :: _ :: _, _ => rfl

theorem pairUp_single {α β : Type} (sel : List α) (v : β) : pairUp sel [v] = sel.zip (List.replicate sel.length v) := by
  simp only [pairUp]
  induction sel with
  | nil => rfl
  | cons a t ih => simp [List.replicate_succ, ih]

/-- the value index `setitem_array` builds for the value axis (length `vlen`) matched with a slice-indexed array axis:
    `slice(None)` for a broadcast axis, else `slice(n_preceding, n_preceding + block_index_size)`; then the
    "reverse the indices to assignment value" loop when the axis is flagged -/
def sliceAxisVIx (vlen : Nat) (rev : Bool) (npre size : Int) : Option VIx :=
  let v0 := if vlen = 1 then VIx.sl colon else VIx.sl ⟨some npre, some (npre + size), none⟩
  if rev then reverseVIx vlen v0 else some v0

theorem eval_piece (L n k : Nat) (h : n + k ≤ L) :
    vixEval L (.sl ⟨some (n : Int), some ((n : Int) + (k : Int)), none⟩) = some ((List.range' n k).map fun (r : Nat) => (r : Int)) := by
  have hpi : pyIndices L ⟨some (n : Int), some ((n : Int) + (k : Int)), none⟩ = some ((n : Int), (n : Int) + (k : Int), 1) := by
    have ha0 : ¬ (n : Int) < 0 := by omega
    have hb0 : ¬ (n : Int) + (k : Int) < 0 := by omega
    simp [pyIndices, Option.getD, ha0, hb0]
    constructor <;> omega
  simp only [vixEval, pySliceIdx, hpi, pyRange]
  rw [if_pos (by decide), Dask.ArrOverlap.rangeUp_one k n, List.range'_eq_map_range]
  simp [Function.comp_def]

theorem eval_piece_rev (L n k : Nat) (hk : 0 < k) (h : n + k ≤ L) :
    ∃ v, reverseVIx L (.sl ⟨some (n : Int), some ((n : Int) + (k : Int)), none⟩) = some v ∧
      vixEval L v = some ((List.range' n k).map fun (r : Nat) => (L : Int) - 1 - (r : Int)) := by
  obtain ⟨s, hs, he⟩ := reverseValueSlice_spec L n ((n : Int) + k) (by omega) (by omega) (by omega)
  refine ⟨.sl s, ?_, ?_⟩
  · simp only [reverseValueSlice] at hs
    simp only [reverseVIx]
    cases hp : pyIndices L ⟨some (n : Int), some ((n : Int) + (k : Int)), none⟩ with
    | none => simp [hp] at hs
    | some t =>
      obtain ⟨a, b, c⟩ := t
      simp only [hp, Option.some.injEq] at hs
      simp [hs]
  · simp only [vixEval, he]
    rw [Dask.ArrOverlap.rangeUp_one k n, List.range'_eq_map_range]
    simp [Function.comp_def]


/-- **one block, one slice axis: the positions of the value axis that the block's value index reads** are NumPy's
    positions for the selected elements of rank `n … n+k-1` — position 0 on a broadcast axis, the ranks themselves,
    or the mirrored ranks on a reversed axis -/
theorem sliceAxis_positions (vlen L : Nat) (rev : Bool) (n k : Nat) (hk : 0 < k) (h : n + k ≤ L) (hv : vlen = 1 ∨ vlen = L) :
    ∃ v vp, sliceAxisVIx vlen rev (n : Int) (k : Int) = some v ∧ vixEval vlen v = some vp ∧
      ∀ {α : Type} (sel : List α), sel.length = k → pairUp sel vp = sel.zip ((List.range' n k).map (npPos vlen L rev)) := by
  by_cases h1 : vlen = 1
  · subst h1
    have hz : (List.range' n k).map (npPos 1 L rev) = List.replicate k (0 : Int) := by
      have : npPos 1 L rev = fun _ => (0 : Int) := by funext r; simp [npPos]
      rw [this]
      clear h hk hv
      induction k generalizing n with
      | zero => rfl
      | succ k ih => simp [List.range'_succ, List.replicate_succ, ih]
    cases rev with
    | false =>
      refine ⟨.sl colon, [0], by simp [sliceAxisVIx], by decide, ?_⟩
      intro α sel hsel
      rw [pairUp_single, hz, hsel]
    | true =>
      have e : sliceAxisVIx 1 true (n : Int) (k : Int) = some (.sl ⟨some 0, none, some (-1)⟩) := by
        simp only [sliceAxisVIx, if_true]; decide
      refine ⟨.sl ⟨some 0, none, some (-1)⟩, [0], e, by decide, ?_⟩
      intro α sel hsel
      rw [pairUp_single, hz, hsel]
  · have hL : vlen = L := by rcases hv with h | h; exact absurd h h1; exact h
    subst hL
    cases rev with
    | false =>
      refine ⟨_, _, by simp [sliceAxisVIx, h1], eval_piece vlen n k h, ?_⟩
      intro α sel hsel
      rw [pairUp_of_length _ _ (by simp [hsel])]
      congr 1
      apply List.map_congr_left
      intro r _; simp [npPos, h1]
    | true =>
      obtain ⟨v, hv1, hv2⟩ := eval_piece_rev vlen n k hk h
      refine ⟨v, _, by simp [sliceAxisVIx, h1, hv1], hv2, ?_⟩
      intro α sel hsel
      rw [pairUp_of_length _ _ (by simp [hsel])]
      congr 1
      apply List.map_congr_left
      intro r _; simp [npPos, h1]


/-- the number of selected positions before the end of a block = those before its start + those inside; and all of them
    are among the `L` selected positions -/
theorem prefix_count (start stop step loc0 loc1 : Int) (hs : 0 < step) (hl : loc0 ≤ loc1) :
    (rangeUp start (min stop loc0) step).length + (blockPositions start stop step loc0 loc1).length
      ≤ (rangeUp start stop step).length := by
  have hfg := firstGe_ge start step loc0 hs
  have hsum : (rangeUp start (min stop loc1) step).length =
      (rangeUp start (min stop loc0) step).length + (blockPositions start stop step loc0 loc1).length := by
    unfold blockPositions
    by_cases hlt : start < loc0
    · have hsplit := rangeUp_split (min stop loc1) step loc0 hs start hlt
      have e : loc0 + (start - loc0) % step = firstGe start step loc0 := by
        unfold firstGe; have : start - loc0 < 0 := by omega
        simp [this]
      rw [hsplit, e, List.length_append]
      have : min (min stop loc1) loc0 = min stop loc0 := by omega
      rw [this]
    · have e : firstGe start step loc0 = start := by unfold firstGe; simp; omega
      rw [e, rangeUp_nil (by omega : min stop loc0 ≤ start)]
      simp
  rw [← hsum]
  by_cases hlt : start < loc1
  · have hsplit := rangeUp_split stop step loc1 hs start hlt
    rw [hsplit, List.length_append]
    omega
  · rw [rangeUp_nil (by omega : min stop loc1 ≤ start)]
    simp

/-- what one block assigns along a slice-indexed axis, as (array position, value position) pairs, read off the value
    index the code builds (`sliceAxisVIx`, evaluated with Python's slice semantics) -/
def sliceBlockPairs (start stop step : Int) (vlen : Nat) (rev : Bool) (loc : Int × Int) : List (Int × Int) :=
  match blockSlice start stop step loc.1 loc.2 with
  | none => []
  | some b =>
    match (sliceAxisVIx vlen rev b.npre b.size).bind (vixEval vlen) with
    | none => []
    | some vp => pairUp (blockPositions start stop step loc.1 loc.2) vp

theorem drop_take_map_range {β : Type} (f : Nat → β) (L n k : Nat) (h : n + k ≤ L) :
    (((List.range L).map f).drop n).take k = (List.range' n k).map f := by
  rw [← List.map_drop, ← List.map_take, List.range_eq_range', List.drop_range',
    List.take_range'_of_length_ge (by omega)]
  simp

theorem sliceBlockPairs_eq (start stop step : Int) (hs : 0 < step) (h0 : 0 ≤ start) (hss : start ≤ stop)
    (vlen : Nat) (rev : Bool) (hv : vlen = 1 ∨ vlen = (rangeUp start stop step).length)
    (loc : Int × Int) (hl0 : 0 ≤ loc.1) (hl : loc.1 ≤ loc.2) :
    sliceBlockPairs start stop step vlen rev loc
      = blockAssign ((List.range (rangeUp start stop step).length).map (npPos vlen (rangeUp start stop step).length rev))
          start stop step loc.1 loc.2 := by
  have hspec := blockSlice_spec start stop step loc.1 loc.2 hs h0 hss hl0 hl
  unfold sliceBlockPairs blockAssign
  cases hb : blockSlice start stop step loc.1 loc.2 with
  | none => rfl
  | some b =>
    rw [hb] at hspec
    obtain ⟨_, hsize, hpos, hnpre⟩ := hspec
    have hle := prefix_count start stop step loc.1 loc.2 hs hl
    have hk : 0 < (blockPositions start stop step loc.1 loc.2).length := by omega
    obtain ⟨v, vp, h1, h2, h3⟩ := sliceAxis_positions vlen _ rev _ _ hk hle hv
    simp only [hsize, hnpre, h1, Option.bind_some, h2, Int.toNat_natCast]
    rw [h3 _ rfl, drop_take_map_range _ _ _ _ hle]


/-- **one slice-indexed axis, all blocks** (`value_indices_partition`, with broadcasting and reversal): the pairs
    (array position, value position) that the blocks assign — block by block in block order, read off the value indices
    the code builds — are, as a list, NumPy's: the selected position of rank `r` receives value position `npPos r`.
    Hence the value pieces are disjoint, consecutive, cover the (broadcast) value axis exactly once in selection order,
    and a length-one value axis is read at index 0 by every block. -/
theorem slice_axis_value_den (c : List Nat) (start stop step : Int) (hs : 0 < step) (h0 : 0 ≤ start) (hss : start ≤ stop)
    (hstop : stop ≤ ((c.sum : Nat) : Int)) (vlen : Nat) (rev : Bool)
    (hv : vlen = 1 ∨ vlen = (rangeUp start stop step).length) :
    (locations c).flatMap (sliceBlockPairs start stop step vlen rev)
      = (rangeUp start stop step).zip
          ((List.range (rangeUp start stop step).length).map (npPos vlen (rangeUp start stop step).length rev)) := by
  rw [← setitem1d_pairs _ c start stop step hs h0 hss hstop]
  have hge := locationsFrom_ge c 0
  unfold locations
  generalize locationsFrom 0 c = ls at hge
  induction ls with
  | nil => rfl
  | cons loc rest ih =>
    have h1 := hge loc (by simp)
    simp only [List.flatMap_cons]
    rw [ih (fun p hp => hge p (by simp [hp])), sliceBlockPairs_eq start stop step hs h0 hss vlen rev hv loc h1.1 h1.2]

/-! ### an axis indexed by a 1-d integer array -/

def inBlock (loc : Int × Int) (v : Int) : Bool := decide (loc.1 ≤ v) && decide (v < loc.2)

/-- the value index for the value axis matched with an integer-array axis: `slice(None)` when broadcast, else
    `value_indices_from_1d_int_index` -/
def arrAxisVIx (vlen : Nat) (index : List Int) (loc : Int × Int) : VIx :=
  if vlen = 1 then VIx.sl colon else VIx.arr (valueIndicesInt index loc.1 loc.2)

/-- what one block assigns along an integer-array axis: the array positions `index[k]` inside the block (in the order of
    `k`, as `block_index_from_1d_index` lists them) paired with the value positions the value index reads -/
def arrBlockPairs (index : List Int) (vlen : Nat) (loc : Int × Int) : List (Int × Int) :=
  match vixEval vlen (arrAxisVIx vlen index loc) with
  | none => []
  | some vp => pairUp (index.filter (inBlock loc)) vp

theorem arr_pairs_aux {β : Type} (f : Nat → β) (loc : Int × Int) : ∀ (index : List Int) (k0 : Nat),
    (index.filter (inBlock loc)).zip ((valueIndicesFrom k0 loc.1 loc.2 index).map f)
      = ((index.zip ((List.range' k0 index.length).map f)).filter fun p => inBlock loc p.1) ∧
    (valueIndicesFrom k0 loc.1 loc.2 index).length = (index.filter (inBlock loc)).length
  | [], _ => by simp [valueIndicesFrom]
  | v :: vs, k0 => by
    obtain ⟨ih1, ih2⟩ := arr_pairs_aux f loc vs (k0 + 1)
    by_cases hv : loc.1 ≤ v ∧ v < loc.2
    · have hb : inBlock loc v = true := by simp [inBlock, hv]
      simp [valueIndicesFrom, hv, hb, List.range'_succ, ih1, ih2]
    · have hb : inBlock loc v = false := by
        simp only [inBlock, Bool.and_eq_false_iff, decide_eq_false_iff_not]
        by_cases h1 : loc.1 ≤ v
        · exact Or.inr (fun h2 => hv ⟨h1, h2⟩)
        · exact Or.inl h1
      simp [valueIndicesFrom, hv, hb, List.range'_succ, ih1, ih2]

theorem arrBlockPairs_eq (index : List Int) (vlen : Nat) (hv : vlen = 1 ∨ vlen = index.length) (loc : Int × Int) :
    arrBlockPairs index vlen loc
      = ((index.zip ((List.range index.length).map (npPos vlen index.length false))).filter fun p => inBlock loc p.1) := by
  obtain ⟨h1, h2⟩ := arr_pairs_aux (npPos vlen index.length false) loc index 0
  rw [List.range_eq_range', ← h1]
  unfold arrBlockPairs arrAxisVIx
  by_cases hone : vlen = 1
  · subst hone
    have e : vixEval 1 (VIx.sl colon) = some [0] := by decide
    simp only [if_true, e, pairUp_single]
    congr 1
    have : npPos 1 index.length false = fun _ => (0 : Int) := by funext r; simp [npPos]
    rw [this, ← h2]
    clear h1 h2
    generalize valueIndicesFrom 0 loc.1 loc.2 index = ks
    induction ks with
    | nil => rfl
    | cons k ks ih => simp [List.replicate_succ, ih]
  · have hL : vlen = index.length := by rcases hv with h | h; exact absurd h hone; exact h
    simp only [hone, if_false, vixEval]
    rw [pairUp_of_length _ _ (by simp [valueIndicesInt, h2])]
    congr 1
    simp only [valueIndicesInt]
    apply List.map_congr_left
    intro r _
    simp [npPos, hone]


/-! ### N-d: what all blocks together assign, with the value positions -/

/-- the value axis matched with an array axis: `none` = the array axis has no value axis (integer index, or a leading
    axis beyond the value's rank: pure broadcasting); `some (vlen, rev)` = a value axis of length `vlen`, read mirrored when
    the array axis was recorded in `reverse` -/
abbrev VAx := Option (Nat × Bool)

/-- pairs (array position, value position) that the block `loc` of one axis assigns -/
def axisBlockPairsV (idx : AIdx) (va : VAx) (loc : Int × Int) : List (Int × Option Int) :=
  match idx, va with
  | .sl a b c, some (vlen, rev) => (sliceBlockPairs a b c vlen rev loc).map fun p => (p.1, some p.2)
  | .sl a b c, none => (blockPositions a b c loc.1 loc.2).map fun p => (p, none)
  | .int i, _ => if loc.1 ≤ i ∧ i < loc.2 then [(i, none)] else []
  | .arr index, some (vlen, _) => (arrBlockPairs index vlen loc).map fun p => (p.1, some p.2)
  | .arr index, none => (index.filter (inBlock loc)).map fun p => (p, none)

/-- NumPy's assignment along one axis -/
def axisSelectedV (idx : AIdx) (va : VAx) : List (Int × Option Int) :=
  match idx, va with
  | .sl a b c, some (vlen, rev) =>
    ((rangeUp a b c).zip ((List.range (rangeUp a b c).length).map (npPos vlen (rangeUp a b c).length rev))).map
      fun p => (p.1, some p.2)
  | .sl a b c, none => (rangeUp a b c).map fun p => (p, none)
  | .int i, _ => [(i, none)]
  | .arr index, some (vlen, _) =>
    (index.zip ((List.range index.length).map (npPos vlen index.length false))).map fun p => (p.1, some p.2)
  | .arr index, none => index.map fun p => (p, none)

/-- the value axis is broadcast (length one) or has the length of the selection -/
def VAxOK : AIdx → VAx → Prop
  | _, none => True
  | .sl a b c, some (vlen, _) => vlen = 1 ∨ vlen = (rangeUp a b c).length
  | .int _, some _ => False
  | .arr index, some (vlen, rev) => (vlen = 1 ∨ vlen = index.length) ∧ rev = false

theorem slice_blocks_tile' (lengths : List Nat) (start stop step : Int) (hs : 0 < step) (h0 : 0 ≤ start)
    (hstop : stop ≤ ((lengths.sum : Nat) : Int)) :
    ((locations lengths).flatMap fun loc => blockPositions start stop step loc.1 loc.2) = rangeUp start stop step := by
  have := blockPositions_tile start stop step hs lengths 0
  unfold locations
  rw [this]
  have : firstGe start step 0 = start := by unfold firstGe; simp; omega
  rw [this]
  congr 1
  omega

theorem int_axis_blocksV (c : List Nat) (i : Int) (h0 : 0 ≤ i) (h1 : i < ((c.sum : Nat) : Int))
    (x : Int × Option Int) :
    x ∈ (locations c).flatMap (fun loc => if loc.1 ≤ i ∧ i < loc.2 then [(i, (none : Option Int))] else []) ↔ x = (i, none) := by
  constructor
  · intro h
    simp only [List.mem_flatMap] at h
    obtain ⟨loc, _, hx⟩ := h
    by_cases hc : loc.1 ≤ i ∧ i < loc.2
    · rw [if_pos hc] at hx; simpa using hx
    · rw [if_neg hc] at hx; cases hx
  · rintro rfl
    obtain ⟨p, hp, hp1, hp2⟩ := locationsFrom_cover c 0 i h0 (by omega)
    simp only [List.mem_flatMap]
    exact ⟨p, hp, by rw [if_pos ⟨hp1, hp2⟩]; simp⟩

theorem filter_inBlock_cover (c : List Nat) (index : List Int) (hok : ∀ v ∈ index, 0 ≤ v ∧ v < ((c.sum : Nat) : Int))
    {β : Type} (l : List (Int × β)) (hl : ∀ p ∈ l, p.1 ∈ index) (x : Int × β) :
    x ∈ (locations c).flatMap (fun loc => l.filter fun p => inBlock loc p.1) ↔ x ∈ l := by
  simp only [List.mem_flatMap, List.mem_filter]
  constructor
  · rintro ⟨_, _, hx, _⟩; exact hx
  · intro hx
    obtain ⟨h0, h1⟩ := hok x.1 (hl x hx)
    obtain ⟨loc, hloc, h2, h3⟩ := locationsFrom_cover c 0 x.1 h0 (by omega)
    exact ⟨loc, hloc, hx, by simp [inBlock, h2, h3]⟩

/-- one axis: over all blocks, exactly NumPy's (position, value position) pairs -/
theorem axis_blocks_selectedV (c : List Nat) (idx : AIdx) (va : VAx) (hok : AxisOK c idx) (hv : VAxOK idx va)
    (x : Int × Option Int) :
    x ∈ (locations c).flatMap (axisBlockPairsV idx va) ↔ x ∈ axisSelectedV idx va := by
  cases idx with
  | sl start stop step =>
    obtain ⟨hs, h0, hss, hstop⟩ := hok
    cases va with
    | none =>
      have h := slice_blocks_tile' c start stop step hs h0 hstop
      simp only [axisSelectedV, axisBlockPairsV, ← h, List.mem_map, List.mem_flatMap]
      constructor
      · rintro ⟨loc, hloc, p, hp, rfl⟩; exact ⟨p, ⟨loc, hloc, hp⟩, rfl⟩
      · rintro ⟨p, ⟨loc, hloc, hp⟩, rfl⟩; exact ⟨loc, hloc, p, hp, rfl⟩
    | some vr =>
      obtain ⟨vlen, rev⟩ := vr
      have h := slice_axis_value_den c start stop step hs h0 hss hstop vlen rev hv
      simp only [axisSelectedV, axisBlockPairsV, ← h, List.mem_map, List.mem_flatMap]
      constructor
      · rintro ⟨loc, hloc, p, hp, rfl⟩; exact ⟨p, ⟨loc, hloc, hp⟩, rfl⟩
      · rintro ⟨p, ⟨loc, hloc, hp⟩, rfl⟩; exact ⟨loc, hloc, p, hp, rfl⟩
  | int i =>
    obtain ⟨h0, h1⟩ := hok
    have e : axisBlockPairsV (.int i) va
        = fun loc => if loc.1 ≤ i ∧ i < loc.2 then [(i, (none : Option Int))] else [] := by
      funext loc; cases va <;> rfl
    have e2 : axisSelectedV (.int i) va = [(i, none)] := by cases va <;> rfl
    rw [e, e2, int_axis_blocksV c i h0 h1 x]
    simp
  | arr index =>
    simp only [AxisOK] at hok
    cases va with
    | none =>
      have e : axisBlockPairsV (.arr index) none
          = fun loc => (index.map fun p => (p, (none : Option Int))).filter fun p => inBlock loc p.1 := by
        funext loc
        simp [axisBlockPairsV, List.filter_map, Function.comp_def]
      have e2 : axisSelectedV (.arr index) none = index.map fun p => (p, (none : Option Int)) := rfl
      rw [e, e2]
      exact filter_inBlock_cover c index hok _
        (by intro p hp; simp only [List.mem_map] at hp; obtain ⟨q, hq, rfl⟩ := hp; exact hq) x
    | some vr =>
      obtain ⟨vlen, rev⟩ := vr
      obtain ⟨hv1, _⟩ := hv
      have e : axisBlockPairsV (.arr index) (some (vlen, rev))
          = fun loc => ((index.zip ((List.range index.length).map (npPos vlen index.length false))).map
              fun p => (p.1, some p.2)).filter fun p => inBlock loc p.1 := by
        funext loc
        simp [axisBlockPairsV, arrBlockPairs_eq index vlen hv1, List.filter_map, Function.comp_def]
      have e2 : axisSelectedV (.arr index) (some (vlen, rev))
          = (index.zip ((List.range index.length).map (npPos vlen index.length false))).map fun p => (p.1, some p.2) := rfl
      rw [e, e2]
      exact filter_inBlock_cover c index hok _
        (by intro p hp; simp only [List.mem_map] at hp; obtain ⟨q, hq, rfl⟩ := hp; exact (List.of_mem_zip hq).1) x

/-! ### N-d statement -/

/-- per-axis block contents for a list of (parsed index, matched value axis) -/
def fsOfV : List (AIdx × VAx) → List ((Int × Int) → List (Int × Option Int))
  | [] => []
  | a :: as => axisBlockPairsV a.1 a.2 :: fsOfV as

/-- NumPy's N-d assignment `x[i_1, …, i_n] = v` with broadcasting, as a relation on vectors of (array position, value
    position) pairs -/
def NDSelectedV : List (AIdx × VAx) → List (List Nat) → List (Int × Option Int) → Prop
  | a :: as, _ :: cs, x :: xs => x ∈ axisSelectedV a.1 a.2 ∧ NDSelectedV as cs xs
  | [], [], [] => True
  | _, _, _ => False

def AxesOKV : List (AIdx × VAx) → List (List Nat) → Prop
  | a :: as, c :: cs => (AxisOK c a.1 ∧ VAxOK a.1 a.2) ∧ AxesOKV as cs
  | [], [] => True
  | _, _ => False

theorem ndAny_selectedV : ∀ (axes : List (AIdx × VAx)) (cs : List (List Nat)) (t : List (Int × Option Int)),
    AxesOKV axes cs → (NDAny (fsOfV axes) cs t ↔ NDSelectedV axes cs t) := by
  intro axes
  induction axes with
  | nil =>
    intro cs t _
    cases cs <;> cases t <;> simp [fsOfV, NDAny, NDSelectedV]
  | cons a as ih =>
    intro cs t hok
    cases cs with
    | nil => simp [AxesOKV] at hok
    | cons c cs =>
      cases t with
      | nil => simp [fsOfV, NDAny, NDSelectedV]
      | cons x xs =>
        simp only [AxesOKV] at hok
        simp only [fsOfV, NDAny, NDSelectedV]
        rw [axis_blocks_selectedV c a.1 a.2 hok.1.1 hok.1.2 x, ih cs xs hok.2]

/-! ### the bookkeeping of `planND`: which entry of `value_indices` is which -/

theorem baseValueIndices_get : ∀ (a : List Int) (b : List Nat) (bs : List (Option VIx)), baseValueIndices a b = some bs →
    bs.length = min a.length b.length ∧
    ∀ i bb, i < a.length → b[i]? = some bb → bs[i]? = some (if bb = 1 then some (VIx.sl colon) else none)
  | [], b, bs, h => by
    cases b <;> (simp [baseValueIndices] at h; subst h; simp)
  | _ :: _, [], bs, h => by
    simp [baseValueIndices] at h; subst h; simp
  | a :: as, b :: bt, bs, h => by
    simp only [baseValueIndices] at h
    cases hr : baseValueIndices as bt with
    | none => simp [hr] at h
    | some rest =>
      obtain ⟨ih1, ih2⟩ := baseValueIndices_get as bt rest hr
      simp only [hr] at h
      have hbs : bs = (if b = 1 then some (VIx.sl colon) else none) :: rest := by
        by_cases h1 : b = 1
        · simp [h1] at h; simp [h1, h]
        · by_cases h2 : a = (b : Int)
          · simp [h1, h2] at h; simp [h1, h]
          · simp [h1, h2] at h
      subst hbs
      refine ⟨by simp [ih1], ?_⟩
      intro i bb hi hb
      cases i with
      | zero => simp at hb; subst hb; simp
      | succ i => simp at hb hi ⊢; exact ih2 i bb hi hb

theorem fillValueIndices_get (st : LoopState) (vs : List Nat) (off voff : Nat) :
    ∀ (bs : List (Option VIx)) (i0 : Nat) (vis : List VIx), fillValueIndices st vs off voff i0 bs = some vis →
    vis.length = bs.length ∧
    ∀ k e, bs[k]? = some e → vis[k]?
      = (match e with | some v => some v | none => valueIndexAt st vs off voff (i0 + k))
  | [], i0, vis, h => by simp [fillValueIndices] at h; subst h; simp
  | some v :: rest, i0, vis, h => by
    simp only [fillValueIndices] at h
    cases hr : fillValueIndices st vs off voff (i0 + 1) rest with
    | none => simp [hr] at h
    | some r =>
      obtain ⟨ih1, ih2⟩ := fillValueIndices_get st vs off voff rest (i0 + 1) r hr
      simp [hr] at h; subst h
      refine ⟨by simp [ih1], ?_⟩
      intro k e hk
      cases k with
      | zero => simp at hk; subst hk; simp
      | succ k =>
        simp at hk ⊢
        rw [ih2 k e hk, show i0 + 1 + k = i0 + (k + 1) by omega]
  | none :: rest, i0, vis, h => by
    simp only [fillValueIndices] at h
    cases hv : valueIndexAt st vs off voff i0 with
    | none => simp [hv] at h
    | some v =>
      cases hr : fillValueIndices st vs off voff (i0 + 1) rest with
      | none => simp [hv, hr] at h
      | some r =>
        obtain ⟨ih1, ih2⟩ := fillValueIndices_get st vs off voff rest (i0 + 1) r hr
        simp [hv, hr] at h; subst h
        refine ⟨by simp [ih1], ?_⟩
        intro k e hk
        cases k with
        | zero => simp at hk; subst hk; simp [hv]
        | succ k =>
        simp at hk ⊢
        rw [ih2 k e hk, show i0 + 1 + k = i0 + (k + 1) by omega]

theorem applyReverse_get (vc : List Nat) : ∀ (rev : List Nat) (vis vis' : List VIx), applyReverse vc rev vis = some vis' →
    rev.Nodup → vis'.length = vis.length ∧
    ∀ i v, vis[i]? = some v → vis'[i]? = if i ∈ rev then (vc[i]?).bind (fun size => reverseVIx size v) else some v
  | [], vis, vis', h, _ => by simp [applyReverse] at h; subst h; simp
  | j :: rest, vis, vis', h, hnd => by
    simp only [applyReverse] at h
    cases hv : vis[j]? with
    | none => simp [hv] at h
    | some vj =>
      cases hs : vc[j]? with
      | none => simp [hv, hs] at h
      | some size =>
        cases hr : reverseVIx size vj with
        | none => simp [hv, hs, hr] at h
        | some v' =>
          simp only [hv, hs, hr] at h
          have hnd' := List.nodup_cons.mp hnd
          obtain ⟨ih1, ih2⟩ := applyReverse_get vc rest (vis.set j v') vis' h hnd'.2
          refine ⟨by simp [ih1], ?_⟩
          intro i v hi
          by_cases hij : i = j
          · subst hij
            have hlt : i < vis.length := (List.getElem?_eq_some_iff.mp hi).1
            have h1 : (vis.set i v')[i]? = some v' := by simp [hlt]
            rw [ih2 i v' h1]
            have : v = vj := by rw [hv] at hi; exact (Option.some.inj hi).symm
            subst this
            simp [hnd'.1, hs, hr]
          · have h1 : (vis.set j v')[i]? = some v := by
              rw [List.getElem?_set_ne (Ne.symm hij)]; exact hi
            rw [ih2 i v h1]
            simp [hij]


/-- the value index `setitem_array` is expected to request along value axis `i` for a block whose loop over the
    dimensions ended in `st`: `slice(None)` on a broadcast axis, else the per-block slice / positions; then mirrored
    when the axis is in (the renumbered) `reverse` -/
def expectVI (st : LoopState) (su : Setup) (vshape : List Nat) (i : Nat) : Option VIx :=
  match su.valueCommon[i]? with
  | none => none
  | some b =>
    let v0 := if b = 1 then some (VIx.sl colon) else valueIndexAt st vshape su.offset su.valueOffset i
    if i ∈ su.reverse then v0.bind (reverseVIx b) else v0

/-- **the value-index bookkeeping of `planND`, entry by entry.** For a plan that does not raise and a block that is
    touched: the loop over the dimensions succeeded, the block indices are its `block_indices`, and the value indices
    are — after the leading `Ellipsis` that is inserted exactly when the value has extra leading axes — one entry per
    common value axis, equal to `expectVI`. -/
theorem planND_value_indices (chunks : List (List Nat)) (indices : List AIdx) (implied : List Int) (reverse vshape : List Nat)
    (blocks : List (Option (List BIx × List VIx))) (su : Setup)
    (h : planND chunks indices implied reverse vshape = Res.ok blocks) (hne : implied.any (· == 0) = false)
    (hsu : setup indices implied reverse vshape = some su) (hnd : su.reverse.Nodup)
    (k : Nat) (locs : List (Int × Int)) (hk : (product (chunks.map locations))[k]? = some locs)
    (bis : List BIx) (vis : List VIx) (hb : blocks[k]? = some (some (bis, vis))) :
    ∃ st vis', loopDims (indices.zip locs) ⟨[], [], [], none⟩ = some st ∧ bis = st.blockIndices ∧
      vis = (if su.valueOffset ≠ 0 then VIx.ellipsis :: vis' else vis') ∧
      vis'.length = min su.arrayCommon.length su.valueCommon.length ∧
      ∀ i, i < vis'.length → vis'[i]? = expectVI st su vshape i := by
  simp only [planND, hne, hsu, Bool.false_eq_true, if_false] at h
  cases hbase : baseValueIndices su.arrayCommon su.valueCommon with
  | none => simp [hbase] at h
  | some base =>
    simp only [hbase, Res.ok.injEq] at h
    subst h
    simp only [List.getElem?_map, hk, Option.map_some, Option.some.injEq] at hb
    cases hst : loopDims (indices.zip locs) ⟨[], [], [], none⟩ with
    | none => simp [hst] at hb
    | some st =>
      cases hfill : fillValueIndices st vshape su.offset su.valueOffset 0 base with
      | none => simp [hst, hfill] at hb
      | some vis0 =>
        cases hrev : applyReverse su.valueCommon su.reverse vis0 with
        | none => simp [hst, hfill, hrev] at hb
        | some vis1 =>
          simp only [hst, hfill, hrev, Option.some.injEq, Prod.mk.injEq] at hb
          obtain ⟨hb1, hb2⟩ := hb
          obtain ⟨b1, b2⟩ := baseValueIndices_get _ _ _ hbase
          obtain ⟨f1, f2⟩ := fillValueIndices_get st vshape su.offset su.valueOffset base 0 vis0 hfill
          obtain ⟨r1, r2⟩ := applyReverse_get su.valueCommon su.reverse vis0 vis1 hrev hnd
          refine ⟨st, vis1, rfl, hb1.symm, hb2.symm, by rw [r1, f1, b1], ?_⟩
          intro i hi
          have hi' : i < min su.arrayCommon.length su.valueCommon.length := by rw [r1, f1, b1] at hi; exact hi
          have hia : i < su.arrayCommon.length := by omega
          have hiv : i < su.valueCommon.length := by omega
          obtain ⟨b, hbv⟩ : ∃ b, su.valueCommon[i]? = some b := ⟨_, List.getElem?_eq_getElem hiv⟩
          have hbase_i := b2 i b hia hbv
          have hfill_i := f2 i _ hbase_i
          simp only [Nat.zero_add] at hfill_i
          unfold expectVI
          simp only [hbv]
          have hi0 : i < vis0.length := by rw [f1, b1]; exact hi'
          obtain ⟨v, hv⟩ : ∃ v, vis0[i]? = some v := ⟨_, List.getElem?_eq_getElem hi0⟩
          rw [r2 i v hv, hbv]
          by_cases hb1' : b = 1
          · simp only [hb1', if_true] at hfill_i ⊢
            rw [hv] at hfill_i
            cases hfill_i
            by_cases hir : i ∈ su.reverse <;> simp [hir]
          · simp only [hb1', if_false] at hfill_i ⊢
            rw [hv] at hfill_i
            rw [← hfill_i]
            by_cases hir : i ∈ su.reverse <;> simp [hir]


/-- a value axis matched with a slice-indexed array axis (position `i + offset` among the non-integer axes, sizes
    `n_preceding = p`, `block_index_size = s` collected by the loop — `nd_block_sizes`): the expected entry is the
    per-axis value index `sliceAxisVIx` whose positions `sliceAxis_positions` / `slice_axis_value_den` describe -/
theorem expectVI_slice (st : LoopState) (su : Setup) (vshape : List Nat) (i b : Nat) (p s : Int)
    (hb : su.valueCommon[i]? = some b) (hp : st.preceding[i + su.offset]? = some (some p))
    (hs : st.shape[i + su.offset]? = some (some s))
    (harr : ∀ pos index l0 l1, st.arrInfo = some (pos, index, l0, l1) → i + su.offset ≠ pos) :
    expectVI st su vshape i = sliceAxisVIx b (decide (i ∈ su.reverse)) p s := by
  have hv : valueIndexAt st vshape su.offset su.valueOffset i = some (VIx.sl ⟨some p, some (p + s), none⟩) := by
    unfold valueIndexAt
    cases ha : st.arrInfo with
    | none => simp [hp, hs]
    | some t =>
      obtain ⟨pos, index, l0, l1⟩ := t
      have := harr pos index l0 l1 ha
      simp [this, hp, hs]
  unfold expectVI sliceAxisVIx
  simp only [hb, hv]
  by_cases h1 : b = 1 <;> by_cases hr : i ∈ su.reverse <;> simp [h1, hr]

/-- a value axis matched with the integer-array axis: `value_indices_from_1d_int_index`, or `slice(None)` when broadcast -/
theorem expectVI_arr (st : LoopState) (su : Setup) (vshape : List Nat) (i b : Nat) (index : List Int) (l0 l1 : Int)
    (hb : su.valueCommon[i]? = some b) (ha : st.arrInfo = some (i + su.offset, index, l0, l1)) (hr : i ∉ su.reverse) :
    expectVI st su vshape i = some (arrAxisVIx b index (l0, l1)) := by
  have hv : valueIndexAt st vshape su.offset su.valueOffset i = some (VIx.arr (valueIndicesInt index l0 l1)) := by
    unfold valueIndexAt
    simp [ha]
  unfold expectVI arrAxisVIx
  simp only [hb, hv, hr, if_false]
  by_cases h1 : b = 1 <;> simp [h1]

end Dask.SetItemND
