import DaskModel.Model.LocList
import DaskModel.Lemmas.Truthful
/-! Lemmas behind the C41 extension (`LocList` / `LocElement`): `bisect_right` on sorted divisions, the routing
    table, the reported divisions, `df.loc[[labels]]` on one partition.  Core Lean only. -/
namespace Dask.LocList
open Dask.Divs

/-! ### `bisect_right` and `_partition_of_index_value` -/

theorem bisectRight_cons (b : Nat) (rest : List Nat) (v : Nat) :
    bisectRight (b :: rest) v = if b ≤ v then bisectRight rest v + 1 else 0 := by
  unfold bisectRight
  rw [List.takeWhile_cons]
  by_cases h : b ≤ v <;> simp [h]

theorem bisectRight_le_length (xs : List Nat) (v : Nat) : bisectRight xs v ≤ xs.length := by
  unfold bisectRight; exact (List.takeWhile_sublist _).length_le

/-- monotone in the value, for ANY list -/
theorem bisectRight_mono (xs : List Nat) {v w : Nat} (h : v ≤ w) : bisectRight xs v ≤ bisectRight xs w := by
  induction xs with
  | nil => simp [bisectRight]
  | cons b rest ih =>
    rw [bisectRight_cons, bisectRight_cons]
    by_cases hb : b ≤ v
    · have : b ≤ w := Nat.le_trans hb h
      simp [hb, this, ih]
    · simp [hb]

theorem partitionOf_mono (divs : List Nat) {v w : Nat} (h : v ≤ w) : partitionOf divs v ≤ partitionOf divs w := by
  have := bisectRight_mono divs h
  unfold partitionOf
  omega

theorem partitionOf_lt (divs : List Nat) (v : Nat) (h2 : 2 ≤ divs.length) : partitionOf divs v < divs.length - 1 := by
  unfold partitionOf; omega

/-- on sorted divisions `bisect_right` counts exactly the entries `≤ v` -/
theorem lt_bisectRight_iff {xs : List Nat} (hs : xs.Pairwise (· ≤ ·)) (v : Nat) :
    ∀ (j a : Nat), xs[j]? = some a → (j < bisectRight xs v ↔ a ≤ v) := by
  induction xs with
  | nil => intro j a h; simp at h
  | cons b rest ih =>
    intro j a hj
    rw [bisectRight_cons]
    rw [List.pairwise_cons] at hs
    cases j with
    | zero =>
      simp only [List.getElem?_cons_zero, Option.some.injEq] at hj
      subst hj
      by_cases hb : b ≤ v <;> simp [hb]
    | succ j =>
      simp only [List.getElem?_cons_succ] at hj
      have hba : b ≤ a := hs.1 a (List.mem_of_getElem? hj)
      by_cases hb : b ≤ v
      · simp only [hb, if_true]
        rw [← ih hs.2 j a hj]
        omega
      · simp only [hb, if_false]
        constructor
        · intro h; omega
        · intro h; omega

/-- **the routing finds every row**: in a truthful frame a row of partition `j` is routed to `j` -/
theorem route_of_truthful {α : Type} {key : α → Nat} {divs : List Nat} {parts : List (List α)}
    (h : Truthful key divs parts) {j : Nat} {p : List α} (hp : parts[j]? = some p) {r : α} (hr : r ∈ p) :
    partitionOf divs (key r) = j := by
  obtain ⟨hlen, hs, hrows⟩ := h
  have hj : j < parts.length := (List.getElem?_eq_some_iff.mp hp).1
  have hlo : divs[j]? = some divs[j] := List.getElem?_eq_getElem (by omega)
  have hhi : divs[j + 1]? = some divs[j + 1] := List.getElem?_eq_getElem (by omega)
  obtain ⟨h1, h2⟩ := hrows j p _ _ hp hlo hhi r hr
  have hb1 : j < bisectRight divs (key r) := (lt_bisectRight_iff hs (key r) j _ hlo).mpr h1
  have hble := bisectRight_le_length divs (key r)
  unfold partitionOf
  rcases h2 with h2 | ⟨hlast, _⟩
  · have hb2 : ¬ (j + 1 < bisectRight divs (key r)) := by
      rw [lt_bisectRight_iff hs (key r) (j + 1) _ hhi]; omega
    omega
  · omega

/-! ### the routing table -/

theorem mem_routeItems {divs labels : List Nat} {e : Nat × List Nat} :
    e ∈ routeItems divs labels ↔
      e.1 < divs.length - 1 ∧ e.2 = labels.filter (fun v => partitionOf divs v == e.1) ∧ e.2 ≠ [] := by
  unfold routeItems
  simp only [List.mem_filter, List.mem_map, List.mem_range, Bool.not_eq_true', List.isEmpty_eq_false_iff]
  constructor
  · rintro ⟨⟨p, hp, rfl⟩, hne⟩
    exact ⟨hp, rfl, hne⟩
  · rintro ⟨hp, he, hne⟩
    refine ⟨⟨e.1, hp, ?_⟩, hne⟩
    cases e with
    | mk a b => simp only at he; subst he; rfl

/-- partition numbers strictly increasing (the items are `sorted`, every partition occurs once) -/
theorem routeItems_keys_sorted (divs labels : List Nat) :
    (routeItems divs labels).Pairwise fun a b => a.1 < b.1 := by
  unfold routeItems
  apply List.Pairwise.filter
  rw [List.pairwise_map]
  exact List.pairwise_lt_range

/-- a label listed under partition `p` is one of the requested labels and is routed to `p` -/
theorem routeItems_label {divs labels : List Nat} {e : Nat × List Nat} (he : e ∈ routeItems divs labels)
    {v : Nat} (hv : v ∈ e.2) : v ∈ labels ∧ partitionOf divs v = e.1 := by
  obtain ⟨_, h2, _⟩ := mem_routeItems.mp he
  rw [h2, List.mem_filter] at hv
  exact ⟨hv.1, by simpa using hv.2⟩

/-- no label is dropped: every requested label is listed under the partition it is routed to -/
theorem routeItems_covers {divs labels : List Nat} (h2 : 2 ≤ divs.length) {v : Nat} (hv : v ∈ labels) :
    ∃ e ∈ routeItems divs labels, e.1 = partitionOf divs v ∧ v ∈ e.2 := by
  refine ⟨(partitionOf divs v, labels.filter fun w => partitionOf divs w == partitionOf divs v), ?_, rfl, ?_⟩
  · rw [mem_routeItems]
    refine ⟨partitionOf_lt divs v h2, rfl, ?_⟩
    intro hnil
    have : v ∈ labels.filter fun w => partitionOf divs w == partitionOf divs v := by
      rw [List.mem_filter]; exact ⟨hv, by simp⟩
    simp only at hnil
    rw [hnil] at this
    cases this
  · rw [List.mem_filter]; exact ⟨hv, by simp⟩

theorem routeItems_ne_nil {divs labels : List Nat} (h2 : 2 ≤ divs.length) (hl : labels ≠ []) :
    routeItems divs labels ≠ [] := by
  cases labels with
  | nil => exact absurd rfl hl
  | cons v rest =>
    obtain ⟨e, he, _⟩ := routeItems_covers (labels := v :: rest) h2 (v := v) (by simp)
    intro h; rw [h] at he; cases he

/-- labels of an earlier item are strictly smaller than labels of a later item (whatever the divisions are) -/
theorem routeItems_cross_lt {divs labels : List Nat} {i j : Nat} {e e' : Nat × List Nat} (hij : i < j)
    (hi : (routeItems divs labels)[i]? = some e) (hj : (routeItems divs labels)[j]? = some e')
    {a b : Nat} (ha : a ∈ e.2) (hb : b ∈ e'.2) : a < b := by
  obtain ⟨hi', rfl⟩ := List.getElem?_eq_some_iff.mp hi
  obtain ⟨hj', rfl⟩ := List.getElem?_eq_some_iff.mp hj
  have hlt := (List.pairwise_iff_getElem.mp (routeItems_keys_sorted divs labels)) i j hi' hj' hij
  have h1 := (routeItems_label (List.getElem_mem hi') ha).2
  have h2 := (routeItems_label (List.getElem_mem hj') hb).2
  apply Nat.lt_of_not_le
  intro hba
  have := partitionOf_mono divs hba
  omega

/-! ### `allSome` -/

theorem allSome_eq_some {β : Type} {l : List (Option β)} {out : List β} (h : allSome l = some out) :
    l = out.map some := by
  induction l generalizing out with
  | nil => simp [allSome] at h; subst h; rfl
  | cons a rest ih =>
    cases a with
    | none => simp [allSome] at h
    | some a =>
      simp only [allSome, Option.map_eq_some_iff] at h
      obtain ⟨t, ht, rfl⟩ := h
      rw [ih ht]; rfl

theorem allSome_map_some {β : Type} (out : List β) : allSome (out.map some) = some out := by
  induction out with
  | nil => rfl
  | cons a rest ih => simp [allSome, ih]

theorem allSome_eq_none {β : Type} {l : List (Option β)} (h : none ∈ l) : allSome l = none := by
  induction l with
  | nil => cases h
  | cons a rest ih =>
    cases a with
    | none => rfl
    | some a =>
      simp only [List.mem_cons] at h
      rcases h with h | h
      · cases h
      · simp [allSome, ih h]

theorem allSome_get {β γ : Type} {items : List γ} {f : γ → Option β} {out : List β}
    (h : allSome (items.map f) = some out) :
    out.length = items.length ∧ ∀ (i : Nat) (e : γ), items[i]? = some e → ∃ o, out[i]? = some o ∧ f e = some o := by
  have h' := allSome_eq_some h
  have hlen : out.length = items.length := by
    have := congrArg List.length h'
    simpa using this.symm
  refine ⟨hlen, ?_⟩
  intro i e hi
  have hi' : i < out.length := by rw [hlen]; exact (List.getElem?_eq_some_iff.mp hi).1
  refine ⟨out[i], List.getElem?_eq_getElem hi', ?_⟩
  have h1 : (items.map f)[i]? = (out.map some)[i]? := by rw [h']
  rw [List.getElem?_map, List.getElem?_map, hi, List.getElem?_eq_getElem hi'] at h1
  simpa using h1

/-! ### `df.loc[[labels]]` on one partition -/

theorem pandasLocList_eq_some {α : Type} {key : α → Nat} {rows : List α} {labels : List Nat} {out : List α}
    (h : pandasLocList key rows labels = some out) :
    (∀ l ∈ labels, ∃ r ∈ rows, key r = l) ∧ out = labels.flatMap fun l => rows.filter fun r => key r == l := by
  unfold pandasLocList at h
  split at h
  · rename_i hall
    simp only [Option.some.injEq] at h
    refine ⟨?_, h.symm⟩
    intro l hl
    rw [List.all_eq_true] at hall
    have := hall l hl
    rw [List.any_eq_true] at this
    obtain ⟨r, hr, hk⟩ := this
    exact ⟨r, hr, by simpa using hk⟩
  · cases h

theorem pandasLocList_of_present {α : Type} (key : α → Nat) (rows : List α) (labels : List Nat)
    (h : ∀ l ∈ labels, ∃ r ∈ rows, key r = l) :
    pandasLocList key rows labels = some (labels.flatMap fun l => rows.filter fun r => key r == l) := by
  unfold pandasLocList
  rw [if_pos]
  rw [List.all_eq_true]
  intro l hl
  rw [List.any_eq_true]
  obtain ⟨r, hr, hk⟩ := h l hl
  exact ⟨r, hr, by simp [hk]⟩

theorem pandasLocList_missing {α : Type} (key : α → Nat) (rows : List α) (labels : List Nat) {l : Nat}
    (hl : l ∈ labels) (h : ∀ r ∈ rows, key r ≠ l) : pandasLocList key rows labels = none := by
  unfold pandasLocList
  rw [if_neg]
  intro hall
  rw [List.all_eq_true] at hall
  have := hall l hl
  rw [List.any_eq_true] at this
  obtain ⟨r, hr, hk⟩ := this
  exact h r hr (by simpa using hk)

theorem mem_pandasLocList {α : Type} {key : α → Nat} {rows : List α} {labels : List Nat} {out : List α}
    (h : pandasLocList key rows labels = some out) {r : α} (hr : r ∈ out) : r ∈ rows ∧ key r ∈ labels := by
  obtain ⟨_, rfl⟩ := pandasLocList_eq_some h
  rw [List.mem_flatMap] at hr
  obtain ⟨l, hl, hr⟩ := hr
  rw [List.mem_filter] at hr
  have : key r = l := by simpa using hr.2
  exact ⟨hr.1, this ▸ hl⟩

/-! ### rows with one label sit in one partition -/

theorem filter_flatten_single {α : Type} (f : α → Bool) :
    ∀ (parts : List (List α)) (p : Nat) (rows : List α), parts[p]? = some rows →
      (∀ q rows', parts[q]? = some rows' → q ≠ p → rows'.filter f = []) →
      parts.flatten.filter f = rows.filter f := by
  intro parts
  induction parts with
  | nil => intro p rows h; simp at h
  | cons hd tl ih =>
    intro p rows hp hother
    rw [List.flatten_cons, List.filter_append]
    cases p with
    | zero =>
      simp only [List.getElem?_cons_zero, Option.some.injEq] at hp
      subst hp
      have : tl.flatten.filter f = [] := by
        rw [List.filter_eq_nil_iff]
        intro r hr
        rw [List.mem_flatten] at hr
        obtain ⟨l, hl, hrl⟩ := hr
        obtain ⟨q, hq, hql⟩ := List.mem_iff_getElem.mp hl
        have h1 : (hd :: tl)[q + 1]? = some l := by
          rw [List.getElem?_cons_succ, List.getElem?_eq_getElem hq, hql]
        have := hother (q + 1) l h1 (by omega)
        rw [List.filter_eq_nil_iff] at this
        exact this r hrl
      rw [this, List.append_nil]
    | succ p =>
      simp only [List.getElem?_cons_succ] at hp
      have h0 : hd.filter f = [] := hother 0 hd (by simp) (by omega)
      rw [h0, List.nil_append]
      apply ih p rows hp
      intro q rows' hq hne
      exact hother (q + 1) rows' (by simpa using hq) (by omega)

/-- in a truthful frame, all rows carrying label `l` are in the partition `l` is routed to -/
theorem rows_of_label {α : Type} {key : α → Nat} {divs : List Nat} {parts : List (List α)}
    (h : Truthful key divs parts) (l : Nat) {rows : List α} (hp : parts[partitionOf divs l]? = some rows) :
    parts.flatten.filter (fun r => key r == l) = rows.filter fun r => key r == l := by
  apply filter_flatten_single _ parts _ rows hp
  intro q rows' hq hne
  rw [List.filter_eq_nil_iff]
  intro r hr hk
  have hk' : key r = l := by simpa using hk
  have := route_of_truthful h hq hr
  rw [hk'] at this
  exact hne this.symm

/-- a row with label `l` of a truthful frame is found in the partition `l` is routed to -/
theorem label_found {α : Type} {key : α → Nat} {divs : List Nat} {parts : List (List α)}
    (h : Truthful key divs parts) {r : α} (hr : r ∈ parts.flatten) :
    ∃ rows, parts[partitionOf divs (key r)]? = some rows ∧ r ∈ rows := by
  rw [List.mem_flatten] at hr
  obtain ⟨p, hp, hrp⟩ := hr
  obtain ⟨q, hq, hqp⟩ := List.mem_iff_getElem.mp hp
  have hq' : parts[q]? = some p := by rw [List.getElem?_eq_getElem hq, hqp]
  rw [route_of_truthful h hq' hrp]
  exact ⟨p, hq', hrp⟩

/-! ### the reported divisions -/

theorem locListDivs_spec {items : List (Nat × List Nat)} {D : List Nat} (h : locListDivs items = some D) :
    D.length = items.length + 1 ∧ 0 < items.length ∧
    (∀ (i : Nat) (e : Nat × List Nat), items[i]? = some e → ∃ m, D[i]? = some m ∧ e.2.min? = some m) ∧
    (∃ last mx, items[items.length - 1]? = some last ∧ last.2.max? = some mx ∧ D[items.length]? = some mx) := by
  unfold locListDivs at h
  cases hlast : items.getLast? with
  | none => rw [hlast] at h; cases h
  | some last =>
    rw [hlast] at h
    simp only at h
    cases hmins : allSome (items.map fun e => e.2.min?) with
    | none => rw [hmins] at h; cases h
    | some mins =>
      cases hmx : last.2.max? with
      | none => rw [hmins, hmx] at h; cases h
      | some mx =>
        rw [hmins, hmx] at h
        simp only [Option.some.injEq] at h
        subst h
        obtain ⟨hlen, hget⟩ := allSome_get hmins
        have hpos : 0 < items.length := by
          cases items with
          | nil => simp at hlast
          | cons a b => simp
        refine ⟨by simp [hlen], hpos, ?_, last, mx, ?_, hmx, ?_⟩
        · intro i e hi
          obtain ⟨m, hm, hmin⟩ := hget i e hi
          refine ⟨m, ?_, hmin⟩
          have hi' : i < mins.length := (List.getElem?_eq_some_iff.mp hm).1
          rw [List.getElem?_append_left hi']; exact hm
        · rw [← List.getLast?_eq_getElem?]; exact hlast
        · rw [List.getElem?_append_right (by omega)]
          simp [hlen]

theorem pairwise_of_getElem? {β : Type} {R : β → β → Prop} {l : List β}
    (h : ∀ (i j : Nat) (a b : β), i < j → l[i]? = some a → l[j]? = some b → R a b) : l.Pairwise R := by
  rw [List.pairwise_iff_getElem]
  intro i j hi hj hij
  exact h i j _ _ hij (List.getElem?_eq_getElem hi) (List.getElem?_eq_getElem hj)

theorem min?_spec {l : List Nat} {m : Nat} (h : l.min? = some m) : m ∈ l ∧ ∀ b ∈ l, m ≤ b :=
  List.min?_eq_some_iff.mp h

theorem max?_spec {l : List Nat} {m : Nat} (h : l.max? = some m) : m ∈ l ∧ ∀ b ∈ l, b ≤ m :=
  List.max?_eq_some_iff.mp h

theorem flatMap_congr' {β γ : Type} {l : List β} {f g : β → List γ} (h : ∀ a ∈ l, f a = g a) :
    l.flatMap f = l.flatMap g := by
  induction l with
  | nil => rfl
  | cons a rest ih =>
    rw [List.flatMap_cons, List.flatMap_cons, h a (by simp), ih fun b hb => h b (by simp [hb])]

/-! ### the loop of `_partitions_of_index_values` is the closed form -/

/-- `routeItems` over an arbitrary increasing list of candidate partition numbers -/
def routeOn (divs : List Nat) (ps : List Nat) (labels : List Nat) : List (Nat × List Nat) :=
  (ps.map fun p => (p, labels.filter fun v => partitionOf divs v == p)).filter fun e => !e.2.isEmpty

theorem routeItems_eq_routeOn (divs labels : List Nat) :
    routeItems divs labels = routeOn divs (List.range (divs.length - 1)) labels := rfl

theorem routeOn_cons (divs : List Nat) (q : Nat) (rest labels : List Nat) :
    routeOn divs (q :: rest) labels =
      if (labels.filter fun v => partitionOf divs v == q).isEmpty then routeOn divs rest labels
      else (q, labels.filter fun v => partitionOf divs v == q) :: routeOn divs rest labels := by
  unfold routeOn
  rw [List.map_cons, List.filter_cons]
  by_cases h : (labels.filter fun v => partitionOf divs v == q).isEmpty <;> simp [h]

theorem routeOn_keys (divs : List Nat) (ps labels : List Nat) :
    ∀ e ∈ routeOn divs ps labels, e.1 ∈ ps := by
  intro e he
  unfold routeOn at he
  rw [List.mem_filter, List.mem_map] at he
  obtain ⟨⟨p, hp, rfl⟩, _⟩ := he
  exact hp

/-- appending a label routed elsewhere changes nothing -/
theorem routeOn_append_other (divs : List Nat) (ps seen : List Nat) (v : Nat) (h : partitionOf divs v ∉ ps) :
    routeOn divs ps (seen ++ [v]) = routeOn divs ps seen := by
  unfold routeOn
  congr 1
  apply List.map_congr_left
  intro p hp
  have : (partitionOf divs v == p) = false := by
    rw [beq_eq_false_iff_ne]; intro heq; exact h (heq ▸ hp)
  simp [List.filter_append, this]

theorem addLabel_lt_all (p v : Nat) (l : List (Nat × List Nat)) (h : ∀ e ∈ l, p < e.1) :
    addLabel p v l = (p, [v]) :: l := by
  cases l with
  | nil => rfl
  | cons a rest =>
    obtain ⟨q, ls⟩ := a
    have : p < q := h (q, ls) (by simp)
    simp [addLabel, this]

/-- one step of the loop: `results[partition_of(v)].append(v)` -/
theorem addLabel_routeOn (divs : List Nat) (v : Nat) :
    ∀ (ps : List Nat), ps.Pairwise (· < ·) → partitionOf divs v ∈ ps → ∀ seen,
      addLabel (partitionOf divs v) v (routeOn divs ps seen) = routeOn divs ps (seen ++ [v]) := by
  intro ps
  induction ps with
  | nil => intro _ h; cases h
  | cons q rest ih =>
    intro hs hmem seen
    rw [List.pairwise_cons] at hs
    rw [routeOn_cons, routeOn_cons]
    by_cases hq : partitionOf divs v = q
    · -- the label belongs to the head candidate
      have hnot : partitionOf divs v ∉ rest := by
        intro hin; have := hs.1 _ hin; omega
      rw [routeOn_append_other divs rest seen v hnot]
      have hfil : (seen ++ [v]).filter (fun w => partitionOf divs w == q) =
          seen.filter (fun w => partitionOf divs w == q) ++ [v] := by
        simp [List.filter_append, hq]
      rw [hfil]
      have hne : (seen.filter (fun w => partitionOf divs w == q) ++ [v]).isEmpty = false := by simp
      rw [hne]
      simp only [Bool.false_eq_true, if_false]
      by_cases hemp : (seen.filter fun w => partitionOf divs w == q).isEmpty
      · rw [if_pos hemp]
        have hnil : seen.filter (fun w => partitionOf divs w == q) = [] := by simpa using hemp
        rw [hnil, List.nil_append, hq]
        apply addLabel_lt_all
        intro e he
        exact hs.1 _ (routeOn_keys divs rest seen e he)
      · rw [if_neg hemp, hq]
        simp [addLabel]
    · have hin : partitionOf divs v ∈ rest := by
        rcases List.mem_cons.mp hmem with h | h
        · exact absurd h hq
        · exact h
      have hlt : q < partitionOf divs v := hs.1 _ hin
      have hfil : (seen ++ [v]).filter (fun w => partitionOf divs w == q) =
          seen.filter (fun w => partitionOf divs w == q) := by
        have : (partitionOf divs v == q) = false := by rw [beq_eq_false_iff_ne]; exact hq
        simp [List.filter_append, this]
      rw [hfil]
      by_cases hemp : (seen.filter fun w => partitionOf divs w == q).isEmpty
      · rw [if_pos hemp, if_pos hemp]
        exact ih hs.2 hin seen
      · rw [if_neg hemp, if_neg hemp]
        have h1 : ¬ (partitionOf divs v < q) := by omega
        simp only [addLabel, h1, hq, if_false]
        rw [ih hs.2 hin seen]

theorem routeOn_nil_labels (divs ps : List Nat) : routeOn divs ps [] = [] := by
  unfold routeOn
  rw [List.filter_eq_nil_iff]
  intro e he
  rw [List.mem_map] at he
  obtain ⟨p, _, rfl⟩ := he
  simp

/-- **the loop of `_partitions_of_index_values` builds exactly the closed form** -/
theorem routeLoop_eq_routeItems (divs labels : List Nat) (h2 : 2 ≤ divs.length) :
    routeLoop divs labels = routeItems divs labels := by
  have key : ∀ (labels seen : List Nat),
      labels.foldl (fun acc v => addLabel (partitionOf divs v) v acc) (routeItems divs seen) =
        routeItems divs (seen ++ labels) := by
    intro labels
    induction labels with
    | nil => intro seen; simp
    | cons v rest ih =>
      intro seen
      rw [List.foldl_cons, routeItems_eq_routeOn,
        addLabel_routeOn divs v _ List.pairwise_lt_range
          (List.mem_range.mpr (partitionOf_lt divs v h2)) seen,
        ← routeItems_eq_routeOn, ih (seen ++ [v])]
      simp
  have := key labels []
  rw [routeItems_eq_routeOn divs [], routeOn_nil_labels] at this
  simpa [routeLoop] using this

end Dask.LocList
