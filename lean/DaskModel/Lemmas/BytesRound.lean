import DaskModel.Lemmas.Bytes
/-! C18: accuracy of the correctly rounded quotient `ratToDy` (used for `float("ddd.dd")`). -/
namespace Dask.Bytes

/-- round-half-even is within half a unit: `|rheDiv a d · d − a| ≤ d / 2` -/
theorem rheDiv_near (a d : Nat) (hd : 0 < d) :
    2 * (rheDiv a d * d) ≤ 2 * a + d ∧ 2 * a ≤ 2 * (rheDiv a d * d) + d := by
  have h1 := Nat.div_add_mod a d
  have h2 := Nat.mod_lt a hd
  unfold rheDiv
  simp only
  generalize hq : a / d = q at *
  generalize hr : a % d = r at *
  have hmul : (q + 1) * d = q * d + d := by rw [Nat.add_mul, Nat.one_mul]
  have hcomm : d * q = q * d := Nat.mul_comm d q
  split
  · rw [hmul]; omega
  · omega

theorem bitLen_le_of_lt_pow (n k : Nat) (h : n < 2 ^ k) : bitLen n ≤ k := by
  by_cases hn : n = 0
  · simp [bitLen, hn]
  · have h1 := (bitLen_pos_bounds n hn).1
    have hlt : 2 ^ (bitLen n - 1) < 2 ^ k := Nat.lt_of_le_of_lt h1 h
    have := (Nat.pow_lt_pow_iff_right (by omega : 1 < 2)).mp hlt
    have hpos : 0 < bitLen n := by simp [bitLen, hn]
    omega

/-- `ratToDy p q` for `q = 100` and `0 < p < 102400·…`: we only need the following packaged statement.
For `0 < p`, `0 < q` the result `⟨m, e⟩` has a *negative* exponent whenever `p < q · 2^52`, and then
`|m − p·2^(-e)/q| ≤ 1/2` and `2^52 ≤ m`. -/
theorem ratToDy_spec (p q : Nat) (hp : 0 < p) (hq : 0 < q) (hsmall : p < q * 2 ^ 52) :
    ∃ (m s : Nat), ratToDy p q = ⟨m, -(s : Int)⟩ ∧ 0 < s ∧
      2 * (m * q) ≤ 2 * (p * 2 ^ s) + q ∧ 2 * (p * 2 ^ s) ≤ 2 * (m * q) + q ∧ 2 ^ 52 ≤ m ∧ m ≤ 2 ^ 53 := by
  have hp0 : p ≠ 0 := by omega
  have hq0 : q ≠ 0 := by omega
  obtain ⟨hplo, hphi⟩ := bitLen_pos_bounds p hp0
  obtain ⟨hqlo, hqhi⟩ := bitLen_pos_bounds q hq0
  have hbp : 0 < bitLen p := by simp [bitLen, hp0]
  have hbq : 0 < bitLen q := by simp [bitLen, hq0]
  -- bitLen p ≤ bitLen q + 52
  have hble : bitLen p ≤ bitLen q + 52 := by
    apply bitLen_le_of_lt_pow
    calc p < q * 2 ^ 52 := hsmall
      _ < 2 ^ bitLen q * 2 ^ 52 := Nat.mul_lt_mul_of_pos_right hqhi (Nat.pos_of_ne_zero (by simp))
      _ = 2 ^ (bitLen q + 52) := (Nat.pow_add 2 _ _).symm
  -- so e0 < 0; write e0 = -(t) with t = bitLen q + 53 - bitLen p ≥ 1
  generalize ht : bitLen q + 53 - bitLen p = t
  have ht1 : 1 ≤ t := by omega
  have he0 : (bitLen p : Int) - (bitLen q : Int) - 53 = -(t : Int) := by omega
  -- scaled quotient with exponent -t lies in [2^52, 2^54)
  have hlow : 2 ^ 52 ≤ p * 2 ^ t / q := by
    rw [Nat.le_div_iff_mul_le hq]
    -- 2^52 * q < 2^52 * 2^bq = 2^(52+bq) ≤ 2^(bp-1) * 2^t ≤ p * 2^t
    have e1 : 2 ^ 52 * q ≤ 2 ^ 52 * 2 ^ bitLen q := Nat.mul_le_mul_left _ (Nat.le_of_lt hqhi)
    have e2 : 2 ^ 52 * 2 ^ bitLen q = 2 ^ (bitLen p - 1) * 2 ^ t := by
      rw [← Nat.pow_add, ← Nat.pow_add]; congr 1; omega
    have e3 : 2 ^ (bitLen p - 1) * 2 ^ t ≤ p * 2 ^ t := Nat.mul_le_mul_right _ hplo
    omega
  have hhigh : p * 2 ^ t / q < 2 ^ 54 := by
    rw [Nat.div_lt_iff_lt_mul hq]
    -- p * 2^t < 2^bp * 2^t = 2^(bq+53) = 2^54 * 2^(bq-1) ≤ 2^54 * q
    have e1 : p * 2 ^ t < 2 ^ bitLen p * 2 ^ t := Nat.mul_lt_mul_of_pos_right hphi (Nat.pos_of_ne_zero (by simp))
    have e2 : 2 ^ bitLen p * 2 ^ t = 2 ^ 54 * 2 ^ (bitLen q - 1) := by
      rw [← Nat.pow_add, ← Nat.pow_add]; congr 1; omega
    have e3 : 2 ^ 54 * 2 ^ (bitLen q - 1) ≤ 2 ^ 54 * q := Nat.mul_le_mul_left _ hqlo
    omega
  unfold ratToDy
  simp only [hp0, if_false, he0]
  have hneg : ¬ (-(t : Int) ≥ 0) := by omega
  have hnn : (- -(t : Int)).toNat = t := by omega
  simp only [hneg, if_false, hnn]
  by_cases hbig : p * 2 ^ t / q ≥ 2 ^ 53
  · -- exponent -t + 1
    simp only [hbig, if_true]
    by_cases ht' : t = 1
    · -- exponent 0: would need p/q ≥ 2^52: excluded by hsmall
      exfalso
      subst ht'
      have : p * 2 ^ 1 / q < 2 ^ 53 := by
        rw [Nat.div_lt_iff_lt_mul hq]
        have : q * 2 ^ 52 * 2 = 2 ^ 53 * q := by
          rw [show (2 : Nat) ^ 53 = 2 ^ 52 * 2 by rfl]; rw [Nat.mul_comm q, Nat.mul_assoc, Nat.mul_comm q 2, ← Nat.mul_assoc]
        omega
      omega
    · have ht2 : 2 ≤ t := by omega
      have hneg2 : ¬ (-(t : Int) + 1 ≥ 0) := by omega
      have hnn2 : (-(-(t : Int) + 1)).toNat = t - 1 := by omega
      simp only [hneg2, if_false, hnn2]
      have hsplit0 : p * 2 ^ t = p * 2 ^ (t - 1) * 2 := by
        rw [Nat.mul_assoc, ← Nat.pow_succ]; congr 2; omega
      refine ⟨rheDiv (p * 2 ^ (t - 1)) q, t - 1, ?_, by omega, ?_, ?_, ?_, ?_⟩
      · congr 1; omega
      · have := (rheDiv_near (p * 2 ^ (t - 1)) q hq).1; omega
      · have := (rheDiv_near (p * 2 ^ (t - 1)) q hq).2; omega
      rotate_left
      · -- upper bound: the halved quotient is below 2^53
        refine Nat.le_trans (rheDiv_le _ _) ?_
        have : p * 2 ^ (t - 1) / q < 2 ^ 53 := by
          rw [Nat.div_lt_iff_lt_mul hq]
          have h54 := (Nat.div_lt_iff_lt_mul hq).mp hhigh
          have : (2 : Nat) ^ 54 = 2 ^ 53 * 2 := by rfl
          rw [this, hsplit0] at h54
          omega
        omega
      · refine Nat.le_trans ?_ (rheDiv_ge _ _)
        rw [Nat.le_div_iff_mul_le hq]
        have h53 : 2 ^ 53 * q ≤ p * 2 ^ t := by
          have := (Nat.le_div_iff_mul_le hq).mp hbig
          exact this
        have hsplit : p * 2 ^ t = p * 2 ^ (t - 1) * 2 := by
          rw [Nat.mul_assoc, ← Nat.pow_succ]; congr 2; omega
        have : (2 : Nat) ^ 53 = 2 ^ 52 * 2 := by rfl
        rw [this, hsplit] at h53
        omega
  · simp only [hbig, if_false, hneg, hnn]
    refine ⟨rheDiv (p * 2 ^ t) q, t, rfl, by omega, ?_, ?_, ?_, ?_⟩
    · have := (rheDiv_near (p * 2 ^ t) q hq).1; omega
    · have := (rheDiv_near (p * 2 ^ t) q hq).2; omega
    · exact Nat.le_trans hlow (rheDiv_ge _ _)
    · have := rheDiv_le (p * 2 ^ t) q; omega

end Dask.Bytes
