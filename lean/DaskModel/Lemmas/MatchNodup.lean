import DaskModel.Lemmas.MatchWalk
/-!
C51, part 3: no rule is yielded twice. Each yield of the walk belongs to a different node of the net, and the rule
indices stored below different edges are disjoint, so every index occurs at most as often in the yields as in the net.
-/
namespace Dask.Match

def idxOf (N : Net) : List Nat := N.map (·.2)

theorem count_patterns_le (N : Net) (i : Nat) : N.patterns.count i ≤ (idxOf N).count i := by
  induction N with
  | nil => simp [Net.patterns, idxOf]
  | cons p N ih =>
    obtain ⟨q, j⟩ := p
    have hcons : idxOf ((q, j) :: N) = j :: idxOf N := rfl
    rw [hcons, List.count_cons]
    cases q with
    | nil =>
      have : Net.patterns (([], j) :: N) = j :: Net.patterns N := by simp [Net.patterns]
      rw [this, List.count_cons]
      have ih' : (Net.patterns N).count i ≤ (idxOf N).count i := ih
      omega
    | cons e r =>
      have : Net.patterns ((e :: r, j) :: N) = Net.patterns N := by simp [Net.patterns]
      rw [this]
      have ih' : (Net.patterns N).count i ≤ (idxOf N).count i := ih
      omega

/-- the indices below two different edges are disjoint sub-multisets of the node's indices -/
theorem count_children_le (N : Net) (e1 e2 : Edge) (h : e1 ≠ e2) (i : Nat) :
    (idxOf (Net.child N e1)).count i + (idxOf (Net.child N e2)).count i ≤ (idxOf N).count i := by
  induction N with
  | nil => simp [Net.child, idxOf]
  | cons p N ih =>
    obtain ⟨q, j⟩ := p
    have hcons : idxOf ((q, j) :: N) = j :: idxOf N := rfl
    rw [hcons, List.count_cons]
    cases q with
    | nil =>
      have : ∀ e, Net.child (([], j) :: N) e = Net.child N e := by intro e; simp [Net.child]
      rw [this e1, this e2]
      omega
    | cons e' r =>
      have hc : ∀ e, Net.child ((e' :: r, j) :: N) e = if e' = e then (r, j) :: Net.child N e else Net.child N e := by
        intro e
        by_cases he : e' = e <;> simp [Net.child, he]
      have hcons2 : ∀ M : Net, idxOf ((r, j) :: M) = j :: idxOf M := fun _ => rfl
      rw [hc e1, hc e2]
      by_cases h1 : e' = e1
      · have h2 : ¬ e' = e2 := fun h2 => h (h1.symm.trans h2)
        rw [if_pos h1, if_neg h2, hcons2, List.count_cons]
        omega
      · by_cases h2 : e' = e2
        · rw [if_neg h1, if_pos h2, hcons2, List.count_cons]
          omega
        · rw [if_neg h1, if_neg h2]
          omega

theorem count_child_le (N : Net) (e : Edge) (i : Nat) : (idxOf (Net.child N e)).count i ≤ (idxOf N).count i := by
  have h2 : e ≠ (match e with | .var => Edge.sym (.fn 0) | .sym _ => Edge.var) := by cases e <;> simp
  have := count_children_le N e _ h2 i
  omega

/-- every rule index occurs in the yields of the walk at most as often as in the net -/
theorem count_walk_le (N : Net) (S : Trav) (m : List Term) (i : Nat) :
    ((walk N S m).flatMap (·.1)).count i ≤ (idxOf N).count i := by
  induction N, S, m using walk.induct with
  | case1 N m =>
    rw [walk]
    simpa using count_patterns_le N i
  | case2 N m t rest ih1 ih2 =>
    rw [walk]
    simp only [List.flatMap_append, List.count_append]
    have hch := count_children_le N (.sym t.head) .var (by simp) i
    by_cases h : (N.child (.sym t.head)).isEmpty = false
    · have i1 := ih1 h
      by_cases h2 : (N.child .var).isEmpty = false
      · have i2 := ih2 h2
        rw [dif_pos h, dif_pos h2]
        omega
      · rw [dif_pos h, dif_neg h2]
        simp only [List.flatMap_nil, List.count_nil]
        omega
    · by_cases h2 : (N.child .var).isEmpty = false
      · have i2 := ih2 h2
        rw [dif_neg h, dif_pos h2]
        simp only [List.flatMap_nil, List.count_nil]
        omega
      · rw [dif_neg h, dif_neg h2]
        simp

theorem idxOf_ofRulesFrom (rules : List Rule) (k : Nat) : idxOf (Net.ofRulesFrom k rules) = List.range' k rules.length := by
  induction rules generalizing k with
  | nil => simp [Net.ofRulesFrom, idxOf]
  | cons r rs ih =>
    have : idxOf (Net.ofRulesFrom k (r :: rs)) = k :: idxOf (Net.ofRulesFrom (k + 1) rs) := rfl
    rw [this, ih]
    simp [List.range'_succ]

theorem idxOf_ofRules_nodup (rules : List Rule) : (idxOf (Net.ofRules rules)).Nodup := by
  unfold Net.ofRules
  rw [idxOf_ofRulesFrom]
  exact List.nodup_range'

/-- the first components of what `candidates` keeps are a sub-multiset of the indices in the yields -/
theorem count_candidates_le (rules : List Rule) (term : Term) (ys : List Yield) (i : Nat) :
    ((candidates rules term ys).map (·.1)).count i ≤ (ys.flatMap (·.1)).count i := by
  induction ys with
  | nil => simp [candidates]
  | cons y ys ih =>
    have hc : candidates rules term (y :: ys) =
        (y.1.filterMap fun j =>
          match rules[j]? with
          | some r =>
            match processMatch r.varlist y.2 with
            | some (some σ) => if instantiates r.vars σ r.lhs term then some (j, σ) else none
            | _ => none
          | none => none) ++ candidates rules term ys := by
      unfold candidates
      rw [List.flatMap_cons]
      rfl
    rw [hc]
    simp only [List.map_append, List.count_append, List.flatMap_cons]
    have hy : ∀ (l : List Nat),
        ((l.filterMap fun j =>
          match rules[j]? with
          | some r =>
            match processMatch r.varlist y.2 with
            | some (some σ) => if instantiates r.vars σ r.lhs term then some (j, σ) else none
            | _ => none
          | none => none).map (·.1)).count i ≤ l.count i := by
      intro l
      induction l with
      | nil => simp
      | cons j l ihl =>
        simp only [List.filterMap_cons]
        rw [List.count_cons]
        split
        · omega
        · rename_i x hx
          have hj : x.1 = j := by
            revert hx
            cases rules[j]? with
            | none => simp
            | some r =>
              simp only
              cases processMatch r.varlist y.2 with
              | none => simp
              | some o =>
                cases o with
                | none => simp
                | some σ =>
                  simp only
                  split
                  · intro h; simp only [Option.some.injEq] at h; rw [← h]
                  · simp
          simp only [List.map_cons, List.count_cons, hj]
          omega
    have := hy y.1
    omega

end Dask.Match
