import DaskModel.Model.Rename
import DaskModel.Lemmas.SpecResolve
/-! C16, `Layer.clone` at layer level (review round): renaming of task-spec nodes only looks at the node's own
    dependencies, entry-wise maps of association lists whose key component is injective on the universe, and the
    value / waiting / bookkeeping theorems about `cloneSpecLayer` and `cloneLegacyLayer` that `Props/C16.lean` exposes. -/
namespace Dask.TaskTerm

/-! ### renaming of nodes -/

mutual
theorem renameNode_deps (ρ : Obj → Obj) : ∀ n : Node, (renameNode ρ n).deps = n.deps.map ρ
  | .alias t => by simp [renameNode, Node.deps]
  | .data v => by simp [renameNode, Node.deps]
  | .ref k => by simp [renameNode, Node.deps]
  | .raw v => by simp [renameNode, Node.deps]
  | .task f args kw => by
    simp only [renameNode, Node.deps, renameNodes_deps ρ args, renameKw_deps ρ kw, List.map_append]
theorem renameNodes_deps (ρ : Obj → Obj) : ∀ ns : List Node, depsList (renameNodes ρ ns) = (depsList ns).map ρ
  | [] => by simp [renameNodes, depsList]
  | n :: ns => by simp only [renameNodes, depsList, renameNode_deps ρ n, renameNodes_deps ρ ns, List.map_append]
theorem renameKw_deps (ρ : Obj → Obj) : ∀ ns : List (Obj × Node), depsKw (renameKw ρ ns) = (depsKw ns).map ρ
  | [] => by simp [renameKw, depsKw]
  | (a, n) :: ns => by simp only [renameKw, depsKw, renameNode_deps ρ n, renameKw_deps ρ ns, List.map_append]
end

mutual
/-- only the renaming of the node's own dependencies matters -/
theorem evalNode_rename_on (ρ : Obj → Obj) (env env' : Obj → Option Obj) :
    ∀ n : Node, (∀ k ∈ n.deps, env' (ρ k) = env k) → evalNode env' (renameNode ρ n) = evalNode env n
  | .alias t, h => by simpa [renameNode, evalNode] using h t (by simp [Node.deps])
  | .data v, _ => by simp [renameNode, evalNode]
  | .ref k, h => by simpa [renameNode, evalNode] using h k (by simp [Node.deps])
  | .raw v, _ => by simp [renameNode, evalNode]
  | .task f args kw, h => by
    have h1 := evalNodes_rename_on ρ env env' args (fun k hk => h k (by simp [Node.deps, hk]))
    have h2 := evalKw_rename_on ρ env env' kw (fun k hk => h k (by simp [Node.deps, hk]))
    simp only [renameNode, evalNode, h1, h2]
theorem evalNodes_rename_on (ρ : Obj → Obj) (env env' : Obj → Option Obj) :
    ∀ ns : List Node, (∀ k ∈ depsList ns, env' (ρ k) = env k) → evalNodes env' (renameNodes ρ ns) = evalNodes env ns
  | [], _ => by simp [renameNodes, evalNodes]
  | n :: ns, h => by
    have h1 := evalNode_rename_on ρ env env' n (fun k hk => h k (by simp [depsList, hk]))
    have h2 := evalNodes_rename_on ρ env env' ns (fun k hk => h k (by simp [depsList, hk]))
    simp only [renameNodes, evalNodes, h1, h2]
theorem evalKw_rename_on (ρ : Obj → Obj) (env env' : Obj → Option Obj) :
    ∀ ns : List (Obj × Node), (∀ k ∈ depsKw ns, env' (ρ k) = env k) → evalKw env' (renameKw ρ ns) = evalKw env ns
  | [], _ => by simp [renameKw, evalKw]
  | (a, n) :: ns, h => by
    have h1 := evalNode_rename_on ρ env env' n (fun k hk => h k (by simp [depsKw, hk]))
    have h2 := evalKw_rename_on ρ env env' ns (fun k hk => h k (by simp [depsKw, hk]))
    simp only [renameKw, evalKw, h1, h2]
end

mutual
/-- a renaming that fixes the node's dependencies leaves the node unchanged -/
theorem renameNode_id (ρ : Obj → Obj) : ∀ n : Node, (∀ d ∈ n.deps, ρ d = d) → renameNode ρ n = n
  | .alias t, h => by simp [renameNode, h t (by simp [Node.deps])]
  | .data v, _ => by simp [renameNode]
  | .ref k, h => by simp [renameNode, h k (by simp [Node.deps])]
  | .raw v, _ => by simp [renameNode]
  | .task f args kw, h => by
    simp only [renameNode, renameNodes_id ρ args (fun k hk => h k (by simp [Node.deps, hk])),
      renameKw_id ρ kw (fun k hk => h k (by simp [Node.deps, hk]))]
theorem renameNodes_id (ρ : Obj → Obj) : ∀ ns : List Node, (∀ d ∈ depsList ns, ρ d = d) → renameNodes ρ ns = ns
  | [], _ => by simp [renameNodes]
  | n :: ns, h => by
    simp only [renameNodes, renameNode_id ρ n (fun k hk => h k (by simp [depsList, hk])),
      renameNodes_id ρ ns (fun k hk => h k (by simp [depsList, hk]))]
theorem renameKw_id (ρ : Obj → Obj) : ∀ ns : List (Obj × Node), (∀ d ∈ depsKw ns, ρ d = d) → renameKw ρ ns = ns
  | [], _ => by simp [renameKw]
  | (a, n) :: ns, h => by
    simp only [renameKw, renameNode_id ρ n (fun k hk => h k (by simp [depsKw, hk])),
      renameKw_id ρ ns (fun k hk => h k (by simp [depsKw, hk]))]
end

/-! ### association lists under an entry-wise map whose key component is injective on the keys -/

theorem lookup_map_entry {α β : Type} (f : Obj × α → Obj × β) (r : Obj → Obj) (D : List Obj)
    (hkey : ∀ kv, (f kv).1 = r kv.1) (hinj : ∀ a ∈ D, ∀ b ∈ D, r a = r b → a = b) :
    ∀ (g : List (Obj × α)), (∀ kv ∈ g, kv.1 ∈ D) → ∀ k ∈ D,
      (g.map f).lookup (r k) = (g.lookup k).map fun v => (f (k, v)).2
  | [], _, _, _ => by simp
  | (k', v') :: rest, hg, k, hk => by
    have ih := lookup_map_entry f r D hkey hinj rest (fun kv h => hg kv (List.mem_cons_of_mem _ h)) k hk
    have hk' : k' ∈ D := hg (k', v') (by simp)
    have e : f (k', v') = ((f (k', v')).1, (f (k', v')).2) := rfl
    simp only [List.map_cons]
    rw [e, hkey]
    simp only [List.lookup]
    by_cases h : (k == k') = true
    · have : k = k' := eq_of_beq h
      subst this
      simp
    · have h' : (k == k') = false := by simpa using h
      have hne : (r k == r k') = false := by
        rw [Bool.eq_false_iff]; intro hc
        have := hinj k hk k' hk' (eq_of_beq hc)
        subst this; simp at h'
      simp only [hne, h', ih]

theorem keys_map_entry {α β : Type} (f : Obj × α → Obj × β) (r : Obj → Obj) (hkey : ∀ kv, (f kv).1 = r kv.1)
    (g : List (Obj × α)) : (g.map f).map Prod.fst = (g.map Prod.fst).map r := by
  induction g with
  | nil => rfl
  | cons kv rest ih => simp [hkey, ih]

/-! ### `Layer.clone` on task-spec layers -/

theorem keyedRho_of_mem {keys : List Obj} {ρ : Obj → Obj} {k : Obj} (h : k ∈ keys) : keyedRho keys ρ k = ρ k := by
  simp [keyedRho, h]
theorem keyedRho_of_not_mem {keys : List Obj} {ρ : Obj → Obj} {k : Obj} (h : k ∉ keys) : keyedRho keys ρ k = k := by
  simp [keyedRho, h]

theorem cloneSpecEntry_key (keys : List Obj) (ρ : Obj → Obj) (bindTo : Option Obj) (k : Obj) (n : Node) :
    (cloneSpecEntry keys ρ bindTo k n).1.1 = keyedRho keys ρ k := by
  unfold cloneSpecEntry keyedRho
  split
  · cases bindTo with
    | none => rfl
    | some b => simp only []; split <;> rfl
  · rfl

/-- the injective-on-the-universe hypothesis follows from what `clone_key` is assumed to be: injective on the replaced
    keys and fresh (no regenerated key is a key of the universe) -/
theorem keyedRho_inj_on (keys D : List Obj) (ρ : Obj → Obj)
    (hinj : ∀ a ∈ keys, ∀ b ∈ keys, ρ a = ρ b → a = b) (hfresh : ∀ a ∈ keys, ρ a ∉ D) :
    ∀ a ∈ D, ∀ b ∈ D, keyedRho keys ρ a = keyedRho keys ρ b → a = b := by
  intro a ha b hb h
  by_cases hka : a ∈ keys <;> by_cases hkb : b ∈ keys
  · rw [keyedRho_of_mem hka, keyedRho_of_mem hkb] at h; exact hinj a hka b hkb h
  · rw [keyedRho_of_mem hka, keyedRho_of_not_mem hkb] at h; exact absurd hb (h ▸ hfresh a hka)
  · rw [keyedRho_of_not_mem hka, keyedRho_of_mem hkb] at h; exact absurd ha (h ▸ hfresh b hkb)
  · rw [keyedRho_of_not_mem hka, keyedRho_of_not_mem hkb] at h; exact h


/-! ### entry level -/

theorem cloneSpecEntry_outside {keys : List Obj} (ρ : Obj → Obj) (bindTo : Option Obj) {k : Obj} (n : Node)
    (h : k ∉ keys) : cloneSpecEntry keys ρ bindTo k n = ((k, n), false) := by
  simp [cloneSpecEntry, h]

theorem cloneSpecEntry_nobind {keys : List Obj} (ρ : Obj → Obj) {k : Obj} (n : Node) (h : k ∈ keys) :
    cloneSpecEntry keys ρ none k n = ((ρ k, renameNode (keyedRho keys ρ) n), false) := by
  simp [cloneSpecEntry, h]

theorem cloneSpecEntry_leaf {keys : List Obj} (ρ : Obj → Obj) (b : Obj) {k : Obj} {n : Node} (h : k ∈ keys)
    (hl : specLeaf keys n = true) :
    cloneSpecEntry keys ρ (some b) k n = ((ρ k, bindNode b (renameNode (keyedRho keys ρ) n)), true) := by
  simp [cloneSpecEntry, h, hl]

theorem cloneSpecEntry_inner {keys : List Obj} (ρ : Obj → Obj) (bindTo : Option Obj) {k : Obj} {n : Node} (h : k ∈ keys)
    (hl : specLeaf keys n = false) :
    cloneSpecEntry keys ρ bindTo k n = ((ρ k, renameNode (keyedRho keys ρ) n), false) := by
  cases bindTo <;> simp [cloneSpecEntry, h, hl]

/-- the new value is the renamed node, wrapped in `chunks.bind(·, blocker)` exactly when the flag is set -/
theorem cloneSpecEntry_value (keys : List Obj) (ρ : Obj → Obj) (bindTo : Option Obj) (k : Obj) (n : Node) :
    (cloneSpecEntry keys ρ bindTo k n).1.2 =
      if k ∈ keys then
        (match bindTo with
         | some b => if specLeaf keys n then bindNode b (renameNode (keyedRho keys ρ) n) else renameNode (keyedRho keys ρ) n
         | none => renameNode (keyedRho keys ρ) n)
      else n := by
  unfold cloneSpecEntry
  by_cases h : k ∈ keys
  · cases bindTo with
    | none => simp [h]
    | some b => by_cases hl : specLeaf keys n = true <;> simp [h, hl]
  · simp [h]

theorem specLeaf_false_iff (keys : List Obj) (n : Node) : specLeaf keys n = false ↔ ∃ d ∈ n.deps, d ∈ keys := by
  simp [specLeaf]

theorem specLeaf_true_iff (keys : List Obj) (n : Node) : specLeaf keys n = true ↔ ∀ d ∈ n.deps, d ∉ keys := by
  simp [specLeaf]

/-! ### layer level -/

/-- what the layer theorems assume about the universe `D` of keys: it contains the layer's keys and every referenced
    key, and the applied renaming is injective on it (`keyedRho_inj_on`: injective + fresh `clone_key`) -/
structure CloneCtx (keys D : List Obj) (ρ : Obj → Obj) (g : NGraph) : Prop where
  keysD : ∀ kn ∈ g, kn.1 ∈ D
  depsD : ∀ kn ∈ g, ∀ d ∈ kn.2.deps, d ∈ D
  inj : ∀ a ∈ D, ∀ b ∈ D, keyedRho keys ρ a = keyedRho keys ρ b → a = b

theorem lookup_cloneSpecLayer {keys D : List Obj} {ρ : Obj → Obj} {g : NGraph} (H : CloneCtx keys D ρ g)
    (bindTo : Option Obj) {k : Obj} (hk : k ∈ D) :
    (cloneSpecLayer keys ρ bindTo g).1.lookup (keyedRho keys ρ k) =
      (g.lookup k).map fun n => (cloneSpecEntry keys ρ bindTo k n).1.2 :=
  lookup_map_entry (fun kn => (cloneSpecEntry keys ρ bindTo kn.1 kn.2).1) (keyedRho keys ρ) D
    (fun kn => cloneSpecEntry_key keys ρ bindTo kn.1 kn.2) H.inj g H.keysD k hk

theorem keys_cloneSpecLayer (keys : List Obj) (ρ : Obj → Obj) (bindTo : Option Obj) (g : NGraph) :
    (cloneSpecLayer keys ρ bindTo g).1.map Prod.fst = (g.map Prod.fst).map (keyedRho keys ρ) :=
  keys_map_entry (fun kn => (cloneSpecEntry keys ρ bindTo kn.1 kn.2).1) (keyedRho keys ρ)
    (fun kn => cloneSpecEntry_key keys ρ bindTo kn.1 kn.2) g

/-- a key that no (renamed) key of the layer equals is not a key of the cloned layer -/
theorem lookup_cloneSpecLayer_fresh {keys D : List Obj} {ρ : Obj → Obj} {g : NGraph} (H : CloneCtx keys D ρ g)
    (bindTo : Option Obj) {b : Obj} (hb : ∀ k ∈ D, keyedRho keys ρ k ≠ b) :
    (cloneSpecLayer keys ρ bindTo g).1.lookup b = none := by
  apply lookup_none_of_not_mem
  rw [keys_cloneSpecLayer]
  intro hm
  obtain ⟨k, hk, e⟩ := List.mem_map.mp hm
  obtain ⟨kn, hkn, rfl⟩ := List.mem_map.mp hk
  exact hb _ (H.keysD kn hkn) e

/-- entries that are not regenerated and refer to no regenerated key are literally untouched -/
theorem entry_unrenamed {keys : List Obj} (ρ : Obj → Obj) {n : Node} (h : ∀ d ∈ n.deps, d ∉ keys) :
    renameNode (keyedRho keys ρ) n = n :=
  renameNode_id _ n fun d hd => keyedRho_of_not_mem (h d hd)

theorem bindNode_some {env : Obj → Option Obj} {b : Obj} {n : Node} {v : Obj}
    (h : evalNode env (bindNode b n) = some v) : evalNode env n = some v := by
  simp only [bindNode, evalNode, evalNodes, evalKw] at h
  cases hn : evalNode env n with
  | none => simp [hn] at h
  | some w =>
    cases hb : env b with
    | none => simp [hn, hb] at h
    | some x => simpa [hn, hb, applyFunc] using h

theorem bindNode_eval {env : Obj → Option Obj} {b x : Obj} (n : Node) (hb : env b = some x) :
    evalNode env (bindNode b n) = evalNode env n := by
  simp only [bindNode, evalNode, evalNodes, evalKw, hb]
  cases evalNode env n <;> simp [applyFunc]

theorem bindNode_blocked {env : Obj → Option Obj} {b : Obj} (n : Node) (hb : env b = none) :
    evalNode env (bindNode b n) = none := by
  simp only [bindNode, evalNode, evalNodes, evalKw, hb]
  cases evalNode env n <;> rfl

/-- the value stored under a key of the universe, in terms of the renamed node -/
theorem cloneSpecEntry_value' {keys : List Obj} {ρ : Obj → Obj} {g : NGraph}
    (hclosed : ∀ kn ∈ g, kn.1 ∉ keys → ∀ d ∈ kn.2.deps, d ∉ keys) (bindTo : Option Obj) {k : Obj} {n : Node}
    (hkn : (k, n) ∈ g) :
    (cloneSpecEntry keys ρ bindTo k n).1.2 = renameNode (keyedRho keys ρ) n ∨
    ∃ b, bindTo = some b ∧ (cloneSpecEntry keys ρ bindTo k n).1.2 = bindNode b (renameNode (keyedRho keys ρ) n) := by
  rw [cloneSpecEntry_value]
  by_cases h : k ∈ keys
  · simp only [h, if_true]
    cases bindTo with
    | none => exact Or.inl rfl
    | some b =>
      by_cases hl : specLeaf keys n = true
      · exact Or.inr ⟨b, rfl, by simp [hl]⟩
      · exact Or.inl (by simp [hl])
  · simp only [h, if_false]
    exact Or.inl (entry_unrenamed ρ (hclosed (k, n) hkn h)).symm

/-- **`Layer.clone` keeps values (no blocker)**: fuel for fuel, the cloned layer computes under `keyedRho k` what the
    original computes under `k` -/
theorem cloneSpecLayer_values {keys D : List Obj} {ρ : Obj → Obj} {g : NGraph} (H : CloneCtx keys D ρ g)
    (hclosed : ∀ kn ∈ g, kn.1 ∉ keys → ∀ d ∈ kn.2.deps, d ∉ keys)
    (cache cache' : Obj → Option Obj) (hc : ∀ k ∈ D, cache' (keyedRho keys ρ k) = cache k) :
    ∀ (fuel : Nat), ∀ k ∈ D,
      evalKeyN (cloneSpecLayer keys ρ none g).1 cache' fuel (keyedRho keys ρ k) = evalKeyN g cache fuel k
  | 0, _, _ => rfl
  | fuel + 1, k, hk => by
    have ih := cloneSpecLayer_values H hclosed cache cache' hc fuel
    simp only [evalKeyN, lookup_cloneSpecLayer H none hk]
    cases hl : g.lookup k with
    | none => simp [hc k hk]
    | some n =>
      have hkn := mem_of_lookup g k n hl
      simp only [Option.map_some]
      rcases cloneSpecEntry_value' (ρ := ρ) hclosed none hkn with e | ⟨b, hb, _⟩
      · rw [e]
        exact evalNode_rename_on _ _ _ n fun d hd => ih d (H.depsD _ hkn d hd)
      · cases hb

/-- **`Layer.clone` with a blocker keeps values**: once the blocker has a value, `k` computes `v` in the original iff
    `keyedRho k` computes `v` in the cloned layer (bound leaves need one more level: they also read the blocker) -/
theorem cloneSpecLayer_bound_values {keys D : List Obj} {ρ : Obj → Obj} {g : NGraph} (H : CloneCtx keys D ρ g)
    (hclosed : ∀ kn ∈ g, kn.1 ∉ keys → ∀ d ∈ kn.2.deps, d ∉ keys) (b x : Obj)
    (hbf : ∀ k ∈ D, keyedRho keys ρ k ≠ b)
    (cache cache' : Obj → Option Obj) (hbv : cache' b = some x) (hc : ∀ k ∈ D, cache' (keyedRho keys ρ k) = cache k) :
    (∀ (fuel : Nat), ∀ k ∈ D, ∀ v, evalKeyN g cache fuel k = some v →
        evalKeyN (cloneSpecLayer keys ρ (some b) g).1 cache' (fuel + 1) (keyedRho keys ρ k) = some v) ∧
    (∀ (fuel : Nat), ∀ k ∈ D, ∀ v, evalKeyN (cloneSpecLayer keys ρ (some b) g).1 cache' fuel (keyedRho keys ρ k) = some v →
        evalKeyN g cache fuel k = some v) := by
  have hbl : ∀ fuel, evalKeyN (cloneSpecLayer keys ρ (some b) g).1 cache' (fuel + 1) b = some x := by
    intro fuel
    simp only [evalKeyN, lookup_cloneSpecLayer_fresh H (some b) hbf, hbv]
  constructor
  · intro fuel
    induction fuel with
    | zero => intro k _ v h; simp [evalKeyN] at h
    | succ fuel ih =>
      intro k hk v h
      rw [evalKeyN] at h ⊢
      rw [lookup_cloneSpecLayer H (some b) hk]
      cases hl : g.lookup k with
      | none => simp only [hl] at h; simpa [hc k hk] using h
      | some n =>
        simp only [hl] at h
        have hkn := mem_of_lookup g k n hl
        simp only [Option.map_some]
        have hren : evalNode (evalKeyN (cloneSpecLayer keys ρ (some b) g).1 cache' (fuel + 1))
            (renameNode (keyedRho keys ρ) n) = some v := by
          rw [← h]
          apply evalNode_rename_on
          intro d hd
          obtain ⟨w, hw⟩ := evalNode_some_deps h d hd
          rw [hw]; exact ih d (H.depsD _ hkn d hd) w hw
        rcases cloneSpecEntry_value' (ρ := ρ) hclosed (some b) hkn with e | ⟨b', hb', e⟩
        · rw [e]; exact hren
        · cases hb'; rw [e, bindNode_eval _ (hbl fuel)]; exact hren
  · intro fuel
    induction fuel with
    | zero => intro k _ v h; simp [evalKeyN] at h
    | succ fuel ih =>
      intro k hk v h
      rw [evalKeyN] at h ⊢
      rw [lookup_cloneSpecLayer H (some b) hk] at h
      cases hl : g.lookup k with
      | none => simp only [hl, Option.map_none] at h; simpa [hc k hk] using h
      | some n =>
        simp only [hl, Option.map_some] at h
        have hkn := mem_of_lookup g k n hl
        have hren : evalNode (evalKeyN (cloneSpecLayer keys ρ (some b) g).1 cache' fuel)
            (renameNode (keyedRho keys ρ) n) = some v := by
          rcases cloneSpecEntry_value' (ρ := ρ) hclosed (some b) hkn with e | ⟨b', _, e⟩
          · rw [e] at h; exact h
          · rw [e] at h; exact bindNode_some h
        simp only []
        rw [← hren]
        symm
        apply evalNode_rename_on
        intro d hd
        have hd' : keyedRho keys ρ d ∈ (renameNode (keyedRho keys ρ) n).deps := by
          rw [renameNode_deps]; exact List.mem_map.mpr ⟨d, hd, rfl⟩
        obtain ⟨w, hw⟩ := evalNode_some_deps hren _ hd'
        rw [hw]; exact (ih d (H.depsD _ hkn d hd) w hw).symm

/-- **a bound layer waits for the blocker**: while the blocker (and no regenerated key) has a value, *no* regenerated
    key of the layer can be evaluated, at any depth — the leaves read the blocker (`chunks.bind`), every other
    regenerated entry reads a regenerated key -/
theorem cloneSpecLayer_waits {keys D : List Obj} {ρ : Obj → Obj} {g : NGraph} (H : CloneCtx keys D ρ g) (b : Obj)
    (hbf : ∀ k ∈ D, keyedRho keys ρ k ≠ b)
    (cache' : Obj → Option Obj) (hbv : cache' b = none) (hc : ∀ k ∈ keys, cache' (ρ k) = none) :
    ∀ (fuel : Nat), ∀ k ∈ D, k ∈ keys → evalKeyN (cloneSpecLayer keys ρ (some b) g).1 cache' fuel (ρ k) = none
  | 0, _, _, _ => rfl
  | fuel + 1, k, hk, hkk => by
    have ih := cloneSpecLayer_waits H b hbf cache' hbv hc fuel
    have e : ρ k = keyedRho keys ρ k := (keyedRho_of_mem hkk).symm
    rw [e, evalKeyN, lookup_cloneSpecLayer H (some b) hk]
    cases hl : g.lookup k with
    | none => simp only [Option.map_none]; rw [← e]; exact hc k hkk
    | some n =>
      have hkn := mem_of_lookup g k n hl
      simp only [Option.map_some]
      by_cases hleaf : specLeaf keys n = true
      · rw [cloneSpecEntry_leaf ρ b hkk hleaf]
        apply bindNode_blocked
        cases fuel with
        | zero => rfl
        | succ f => simp only [evalKeyN, lookup_cloneSpecLayer_fresh H (some b) hbf, hbv]
      · have hleaf' : specLeaf keys n = false := by simpa using hleaf
        rw [cloneSpecEntry_inner ρ (some b) hkk hleaf']
        obtain ⟨d, hd, hdk⟩ := (specLeaf_false_iff keys n).mp hleaf'
        apply evalNode_missing _ (ρ d) (ih d (H.depsD _ hkn d hd) hdk)
        rw [renameNode_deps]
        exact List.mem_map.mpr ⟨d, hd, keyedRho_of_mem hdk⟩

/-- **`bound` is true iff some leaf was wrapped** -/
theorem cloneSpecLayer_bound_iff (keys : List Obj) (ρ : Obj → Obj) (bindTo : Option Obj) (g : NGraph) :
    (cloneSpecLayer keys ρ bindTo g).2 = true ↔
      ∃ b, bindTo = some b ∧ ∃ kn ∈ g, kn.1 ∈ keys ∧ specLeaf keys kn.2 = true := by
  simp only [cloneSpecLayer, List.any_eq_true]
  constructor
  · rintro ⟨kn, hkn, h⟩
    unfold cloneSpecEntry at h
    by_cases hk : kn.1 ∈ keys
    · cases bindTo with
      | none => simp [hk] at h
      | some b =>
        by_cases hl : specLeaf keys kn.2 = true
        · exact ⟨b, rfl, kn, hkn, hk, hl⟩
        · simp [hk, hl] at h
    · simp [hk] at h
  · rintro ⟨b, rfl, kn, hkn, hk, hl⟩
    exact ⟨kn, hkn, by rw [cloneSpecEntry_leaf ρ b hk hl]⟩


/-! ### the legacy branch -/

mutual
/-- `is_leaf` of `clone_value` is exactly "the value references none of the replaced keys" in the sense of
    `keys_in_tasks` (`legacyRefs`): both traversals visit task arguments, list elements and dict values -/
theorem cloneValue_flag (keys : List Obj) (ρ : Obj → Obj) : ∀ o : Obj,
    (cloneValue keys ρ o).2 = !(legacyRefs keys o).isEmpty
  | .tuple (h :: args) => by
    unfold cloneValue legacyRefs
    by_cases hc : h.callable = true
    · simp only [hc, if_true, cloneValues_flag keys ρ args]
    · simp only [hc, Bool.false_eq_true, if_false]
      split <;> simp
  | .tuple [] => by unfold cloneValue legacyRefs; split <;> simp
  | .list xs => by simp only [cloneValue, legacyRefs, cloneValues_flag keys ρ xs]
  | .dict kvs => by simp only [cloneValue, legacyRefs, cloneDictVals_flag keys ρ kvs]
  | .int n => by unfold cloneValue legacyRefs; split <;> simp
  | .str s => by unfold cloneValue legacyRefs; split <;> simp
  | .none => by unfold cloneValue legacyRefs; split <;> simp
  | .fn f => by unfold cloneValue legacyRefs; split <;> simp
  | .quoted v => by unfold cloneValue legacyRefs; split <;> simp
  | .app f a k => by unfold cloneValue legacyRefs; split <;> simp
theorem cloneValues_flag (keys : List Obj) (ρ : Obj → Obj) : ∀ os : List Obj,
    (cloneValues keys ρ os).2 = !(legacyRefsList keys os).isEmpty
  | [] => by simp [cloneValues, legacyRefsList]
  | x :: xs => by
    simp only [cloneValues, legacyRefsList, cloneValue_flag keys ρ x, cloneValues_flag keys ρ xs]
    cases legacyRefs keys x <;> simp
theorem cloneDictVals_flag (keys : List Obj) (ρ : Obj → Obj) : ∀ kvs : List (Obj × Obj),
    (cloneDictVals keys ρ kvs).2 = !(legacyRefsVals keys kvs).isEmpty
  | [] => by simp [cloneDictVals, legacyRefsVals]
  | (k, v) :: rest => by
    simp only [cloneDictVals, legacyRefsVals, cloneValue_flag keys ρ v, cloneDictVals_flag keys ρ rest]
    cases legacyRefs keys v <;> simp
end

theorem cloneLegacyEntryB_fst (keys : List Obj) (ρ : Obj → Obj) (bindTo : Option Obj) (bindFn k v : Obj) :
    (cloneLegacyEntryB keys ρ bindTo bindFn k v).1 = cloneLegacyEntry keys ρ bindTo bindFn k v := by
  unfold cloneLegacyEntryB cloneLegacyEntry
  split
  · cases bindTo with
    | none => rfl
    | some b => simp only []; split <;> rfl
  · rfl

theorem cloneLegacyLayer_fst (keys : List Obj) (ρ : Obj → Obj) (bindTo : Option Obj) (bindFn : Obj) (g : LGraph) :
    (cloneLegacyLayer keys ρ bindTo bindFn g).1 = g.map fun kv => cloneLegacyEntry keys ρ bindTo bindFn kv.1 kv.2 := by
  simp only [cloneLegacyLayer, cloneLegacyEntryB_fst]

theorem cloneLegacyEntryB_outside {keys : List Obj} (ρ : Obj → Obj) (bindTo : Option Obj) (bindFn : Obj) {k : Obj}
    (v : Obj) (h : k ∉ keys) : cloneLegacyEntryB keys ρ bindTo bindFn k v = ((k, v), false) := by
  simp [cloneLegacyEntryB, h]

theorem cloneLegacyEntryB_leaf {keys : List Obj} (ρ : Obj → Obj) (b bindFn : Obj) {k v : Obj} (h : k ∈ keys)
    (hl : legacyRefs keys v = []) :
    cloneLegacyEntryB keys ρ (some b) bindFn k v = ((ρ k, .tuple [bindFn, (cloneValue keys ρ v).1, b]), true) := by
  have : (cloneValue keys ρ v).2 = false := by rw [cloneValue_flag, hl]; rfl
  simp [cloneLegacyEntryB, h, this]

theorem cloneLegacyEntryB_inner {keys : List Obj} (ρ : Obj → Obj) (bindTo : Option Obj) (bindFn : Obj) {k v : Obj}
    (h : k ∈ keys) (hl : legacyRefs keys v ≠ []) :
    cloneLegacyEntryB keys ρ bindTo bindFn k v = ((ρ k, (cloneValue keys ρ v).1), false) := by
  have : (cloneValue keys ρ v).2 = true := by
    rw [cloneValue_flag]; cases hr : legacyRefs keys v with
    | nil => exact absurd hr hl
    | cons _ _ => rfl
  cases bindTo <;> simp [cloneLegacyEntryB, h, this]

/-- **legacy `bound` is true iff some leaf was wrapped** -/
theorem cloneLegacyLayer_bound_iff (keys : List Obj) (ρ : Obj → Obj) (bindTo : Option Obj) (bindFn : Obj) (g : LGraph) :
    (cloneLegacyLayer keys ρ bindTo bindFn g).2 = true ↔
      ∃ b, bindTo = some b ∧ ∃ kv ∈ g, kv.1 ∈ keys ∧ legacyRefs keys kv.2 = [] := by
  simp only [cloneLegacyLayer, List.any_eq_true]
  constructor
  · rintro ⟨kv, hkv, h⟩
    by_cases hk : kv.1 ∈ keys
    · by_cases hl : legacyRefs keys kv.2 = []
      · cases bindTo with
        | none => simp [cloneLegacyEntryB, hk] at h
        | some b => exact ⟨b, rfl, kv, hkv, hk, hl⟩
      · rw [cloneLegacyEntryB_inner ρ bindTo bindFn hk hl] at h; cases h
    · rw [cloneLegacyEntryB_outside ρ bindTo bindFn kv.2 hk] at h; cases h
  · rintro ⟨b, rfl, kv, hkv, hk, hl⟩
    exact ⟨kv, hkv, by rw [cloneLegacyEntryB_leaf ρ b bindFn hk hl]⟩

/-- a wrapped legacy leaf `(chunks.bind, value, bind_to)` lists the blocker among its dependencies
    (`keys_in_tasks` over any key set that contains the blocker): the scheduler cannot start it before -/
theorem legacy_bound_refs_blocker (allKeys : List Obj) (bindFn v b : Obj) (hf : bindFn.callable = true)
    (hb : b.hashable = true) (hbk : b ∈ allKeys) (hnt : b.isTask = false) (hnl : ∀ xs, b ≠ .list xs) (hnd : ∀ kvs, b ≠ .dict kvs) :
    b ∈ legacyRefs allKeys (.tuple [bindFn, v, b]) := by
  simp only [legacyRefs, hf, if_true, legacyRefsList, List.append_nil, List.mem_append]
  right
  cases b with
  | tuple xs =>
    cases xs with
    | nil => simp [legacyRefs, hbk]
    | cons h t =>
      have : h.callable = false := by simpa [Obj.isTask, isTaskList] using hnt
      simp [legacyRefs, this, hb, hbk]
  | list xs => exact absurd rfl (hnl xs)
  | dict kvs => exact absurd rfl (hnd kvs)
  | int n => simp [legacyRefs, hb, hbk]
  | str s => simp [legacyRefs, hb, hbk]
  | none => simp [legacyRefs, hb, hbk]
  | fn f => simp [legacyRefs, hb, hbk]
  | quoted q => simp [legacyRefs, hb, hbk]
  | app f a k => simp [legacyRefs, hb, hbk]

end Dask.TaskTerm
