import DaskModel.Model.BlockScan
import DaskModel.Lemmas.ArrayReduce
/-! K2 lemmas: sequential block scan = global scan; soundness of the interval checker for Blelloch schedules. -/
namespace Dask.BlockScan
open Dask.ArrayReduce (sfold sfold_append foldl_assoc IsMonoid foldr_eq_sfold)

variable {α : Type}

theorem scanFrom_append (op : α → α → α) (acc : α) (xs ys : List α) :
    scanFrom op acc (xs ++ ys) = scanFrom op acc xs ++ scanFrom op (xs.foldl op acc) ys := by
  induction xs generalizing acc with
  | nil => rfl
  | cons x xs ih => simp [scanFrom, ih]

theorem map_scanFrom (op : α → α → α) (assoc : ∀ a b c, op (op a b) c = op a (op b c))
    (a b : α) (xs : List α) : (scanFrom op b xs).map (op a) = scanFrom op (op a b) xs := by
  induction xs generalizing b with
  | nil => rfl
  | cons x xs ih => simp [scanFrom, ih, assoc]

/-- `binop(extra, cumsum(block))` is the scan of the block started at `extra` -/
theorem map_scanIncl (op : α → α → α) (assoc : ∀ a b c, op (op a b) c = op a (op b c))
    (extra : α) (b : List α) : (scanIncl op b).map (op extra) = scanFrom op extra b := by
  cases b with
  | nil => rfl
  | cons x xs => simp [scanIncl, scanFrom, map_scanFrom op assoc]

theorem getLast?_scanFrom (op : α → α → α) (acc : α) (xs : List α) :
    (acc :: scanFrom op acc xs).getLast? = some (xs.foldl op acc) := by
  induction xs generalizing acc with
  | nil => rfl
  | cons x xs ih =>
    simp only [scanFrom, List.foldl_cons]
    rw [List.getLast?_cons_cons]
    exact ih (op acc x)

/-- the last element of a block's cumulative result is the block total -/
theorem getLast?_scanIncl (op : α → α → α) (x : α) (xs : List α) :
    (scanIncl op (x :: xs)).getLast? = some (xs.foldl op x) := by
  simp only [scanIncl]; exact getLast?_scanFrom op x xs

/-- the running total after a block (`_cumreduction_carry`) is the left fold of the block -/
theorem carry_eq (op : α → α → α) (assoc : ∀ a b c, op (op a b) c = op a (op b c))
    (extra : α) (b : List α) :
    carry op extra (scanIncl op b) = b.foldl op extra := by
  cases b with
  | nil => rfl
  | cons x xs =>
    unfold carry
    rw [getLast?_scanIncl]
    simp only [List.foldl_cons]
    exact (foldl_assoc op assoc xs extra x).symm

theorem flatten_seqScanAux (op : α → α → α) (assoc : ∀ a b c, op (op a b) c = op a (op b c))
    (extra : α) (bs : List (List α)) :
    (seqScanAux op extra bs).flatten = scanFrom op extra bs.flatten := by
  induction bs generalizing extra with
  | nil => rfl
  | cons b bs ih =>
    simp only [seqScanAux, List.flatten_cons]
    rw [carry_eq op assoc, ih, map_scanIncl op assoc, scanFrom_append]

theorem scanFrom_ident (op : α → α → α) (e : α) (idl : ∀ a, op e a = a) (ys : List α) :
    scanFrom op e ys = scanIncl op ys := by
  cases ys with
  | nil => rfl
  | cons y ys => simp [scanFrom, scanIncl, idl]

/-- **K2** `seqScan_eq_scan`: the sequential `cumreduction` (with the carry rule for zero-length blocks)
    equals the global inclusive scan, for every chunking — empty blocks anywhere included. -/
theorem seqScan_eq_scan (op : α → α → α) (e : α) (assoc : ∀ a b c, op (op a b) c = op a (op b c))
    (idl : ∀ a, op e a = a) (blocks : List (List α)) :
    (seqScan op e blocks).flatten = scanIncl op blocks.flatten := by
  cases blocks with
  | nil => rfl
  | cons b bs =>
    simp only [seqScan, List.flatten_cons]
    rw [carry_eq op assoc, flatten_seqScanAux op assoc]
    cases b with
    | nil => simp [scanIncl, scanFrom_ident op e idl]
    | cons x xs =>
      simp only [List.foldl_cons, idl, scanIncl, List.cons_append]
      rw [scanFrom_append]

/-- blocks keep their lengths (the result has the chunks of the input) -/
theorem seqScan_lengths (op : α → α → α) (e : α) (blocks : List (List α)) :
    (seqScan op e blocks).map List.length = blocks.map List.length := by
  have hs : ∀ (acc : α) (xs : List α), (scanFrom op acc xs).length = xs.length := by
    intro acc xs; induction xs generalizing acc with
    | nil => rfl
    | cons x xs ih => simp [scanFrom, ih]
  have hi : ∀ xs : List α, (scanIncl op xs).length = xs.length := by
    intro xs; cases xs <;> simp [scanIncl, hs]
  have haux : ∀ (extra : α) (bs : List (List α)),
      (seqScanAux op extra bs).map List.length = bs.map List.length := by
    intro extra bs
    induction bs generalizing extra with
    | nil => rfl
    | cons b bs ih => simp [seqScanAux, hi, ih]
  cases blocks with
  | nil => rfl
  | cons b bs => simp [seqScan, hi, haux]

/-! ## Blelloch: the interval checker is sound -/

/-- fold of `bs[lo .. hi]` (inclusive) -/
def seg (op : α → α → α) (d : α) (bs : List α) (lo hi : Nat) : α :=
  sfold op d ((bs.drop lo).take (hi + 1 - lo))

theorem seg_append (op : α → α → α) (d : α) (assoc : ∀ a b c, op (op a b) c = op a (op b c))
    (bs : List α) (a m hi : Nat) (ham : a ≤ m) (hmh : m < hi) (hh : hi < bs.length) :
    op (seg op d bs a m) (seg op d bs (m + 1) hi) = seg op d bs a hi := by
  unfold seg
  have e : hi + 1 - a = (m + 1 - a) + (hi + 1 - (m + 1)) := by omega
  rw [e, List.take_add, List.drop_drop]
  have e2 : a + (m + 1 - a) = m + 1 := by omega
  rw [e2]
  symm
  apply sfold_append op d assoc
  · intro h
    have := congrArg List.length h
    simp [List.length_take, List.length_drop] at this
    omega
  · intro h
    have := congrArg List.length h
    simp [List.length_take, List.length_drop] at this
    omega

/-- slot `i` of `pv` holds the fold of `batches[lo[i] .. i]` -/
def Inv (op : α → α → α) (d : α) (batches pv : List α) (lo : List Nat) : Prop :=
  pv.length = batches.length ∧ lo.length = batches.length ∧
  ∀ i, i < batches.length → ∃ l, lo[i]? = some l ∧ l ≤ i ∧ pv[i]? = some (seg op d batches l i)

theorem step_sound (op : α → α → α) (d : α) (assoc : ∀ a b c, op (op a b) c = op a (op b c))
    (batches pv : List α) (lo lo' : List Nat) (s : Step)
    (hinv : Inv op d batches pv lo) (hs : segStep lo s = some lo') :
    ∃ pv', runStep op pv s = some pv' ∧ Inv op d batches pv' lo' := by
  obtain ⟨hpl, hll, hall⟩ := hinv
  unfold segStep at hs
  split at hs
  · rename_i hcond
    obtain ⟨hsi, hs0⟩ := hcond
    split at hs
    · rename_i a b ha hb
      split at hs
      · rename_i hbeq
        injection hs with hs
        subst hs
        have hi : s.i < batches.length := by
          have := (List.getElem?_eq_some_iff.mp hb).1
          omega
        have him : s.i - s.stride < batches.length := by omega
        obtain ⟨l1, hl1, hle1, hp1⟩ := hall (s.i - s.stride) him
        obtain ⟨l2, hl2, hle2, hp2⟩ := hall s.i hi
        rw [ha] at hl1; injection hl1 with hl1; subst hl1
        rw [hb] at hl2; injection hl2 with hl2; subst hl2
        refine ⟨pv.set s.i (op (seg op d batches a (s.i - s.stride)) (seg op d batches b s.i)), ?_, ?_⟩
        · unfold runStep
          simp [hsi, hp1, hp2]
        · refine ⟨by simp [hpl], by simp [hll], ?_⟩
          intro j hj
          by_cases hji : j = s.i
          · subst hji
            refine ⟨a, ?_, by omega, ?_⟩
            · rw [List.getElem?_set_self (by omega)]
            · rw [List.getElem?_set_self (by omega)]
              rw [hbeq]
              congr 1
              exact seg_append op d assoc batches a (s.i - s.stride) s.i hle1 (by omega) hi
          · obtain ⟨l, hl, hle, hp⟩ := hall j hj
            refine ⟨l, ?_, hle, ?_⟩
            · rw [List.getElem?_set_ne (by omega)]; exact hl
            · rw [List.getElem?_set_ne (by omega)]; exact hp
      · simp at hs
    · simp at hs
  · simp at hs

theorem sched_sound (op : α → α → α) (d : α) (assoc : ∀ a b c, op (op a b) c = op a (op b c))
    (batches : List α) (sched : List Step) :
    ∀ (pv : List α) (lo lo' : List Nat), Inv op d batches pv lo → segRun sched lo = some lo' →
    ∃ pv', runSched op sched pv = some pv' ∧ Inv op d batches pv' lo' := by
  induction sched with
  | nil =>
    intro pv lo lo' hinv h
    simp only [segRun] at h; injection h with h; subst h
    exact ⟨pv, rfl, hinv⟩
  | cons s ss ih =>
    intro pv lo lo' hinv h
    simp only [segRun] at h
    cases hstep : segStep lo s with
    | none => simp [hstep] at h
    | some lo1 =>
      rw [hstep] at h
      simp only [Option.bind_some] at h
      obtain ⟨pv1, hr1, hinv1⟩ := step_sound op d assoc batches pv lo lo1 s hinv hstep
      obtain ⟨pv2, hr2, hinv2⟩ := ih pv1 lo1 lo' hinv1 h
      exact ⟨pv2, by simp [runSched, hr1, hr2], hinv2⟩

theorem inv_init (op : α → α → α) (d : α) (batches : List α) :
    Inv op d batches batches (List.range batches.length) := by
  refine ⟨rfl, by simp, ?_⟩
  intro i hi
  refine ⟨i, by simp [hi], Nat.le_refl i, ?_⟩
  unfold seg
  have : i + 1 - i = 1 := by omega
  rw [this, List.getElem?_eq_getElem hi]
  congr 1
  have hd : batches.drop i = batches[i] :: batches.drop (i + 1) := List.drop_eq_getElem_cons hi
  rw [hd]
  rfl

/-- **K2** `blelloch_sound`: any schedule accepted by the interval checker turns `batches` into its
    prefix folds, over every semigroup. -/
theorem blelloch_sound (op : α → α → α) (d : α) (assoc : ∀ a b c, op (op a b) c = op a (op b c))
    (batches : List α) (sched : List Step)
    (hok : segRun sched (List.range batches.length) = some (List.replicate batches.length 0)) :
    ∃ pv, runSched op sched batches = some pv ∧ pv.length = batches.length ∧
      ∀ i, i < batches.length → pv[i]? = some (sfold op d (batches.take (i + 1))) := by
  obtain ⟨pv, hr, hpl, _, hall⟩ := sched_sound op d assoc batches sched batches _ _ (inv_init op d batches) hok
  refine ⟨pv, hr, hpl, ?_⟩
  intro i hi
  obtain ⟨l, hl, _, hp⟩ := hall i hi
  have : l = 0 := by
    rw [List.getElem?_replicate] at hl
    simp [hi] at hl
    exact hl.symm
  subst this
  simpa [seg] using hp

/-! ## Blelloch: block level -/

theorem foldl_eq_op_foldr {op : α → α → α} {e : α} (h : IsMonoid op e) (a : α) (ys : List α) :
    ys.foldl op a = op a (ys.foldr op e) := by
  induction ys generalizing a with
  | nil => simp [h.id_right]
  | cons y ys ih => simp only [List.foldl_cons, List.foldr_cons]; rw [ih, h.assoc]

theorem foldr_append_monoid {op : α → α → α} {e : α} (h : IsMonoid op e) (xs ys : List α) :
    (xs ++ ys).foldr op e = op (xs.foldr op e) (ys.foldr op e) := by
  induction xs with
  | nil => simp [h.id_left]
  | cons x xs ih => simp only [List.cons_append, List.foldr_cons, ih, h.assoc]

theorem foldr_map_fold {op : α → α → α} {e : α} (h : IsMonoid op e) (gs : List (List α)) :
    (gs.map (fold op e)).foldr op e = gs.flatten.foldr op e := by
  induction gs with
  | nil => rfl
  | cons g gs ih =>
    simp only [List.map_cons, List.foldr_cons, List.flatten_cons, ih, fold]
    rw [foldr_append_monoid h]

/-- combining each block's own scan with the fold of everything before it gives the global scan -/
theorem flatten_zipWith_scanFrom (op : α → α → α) :
    ∀ (bs : List (List α)) (pv : List α) (acc : α), pv.length = bs.length →
      (∀ i, i < bs.length → pv[i]? = some ((bs.take i).flatten.foldl op acc)) →
      (List.zipWith (fun pre blk => scanFrom op pre blk) pv bs).flatten = scanFrom op acc bs.flatten := by
  intro bs
  induction bs with
  | nil => intro pv acc _ _; cases pv <;> rfl
  | cons blk rest ih =>
    intro pv acc hlen hall
    cases pv with
    | nil => simp at hlen
    | cons p ps =>
      have hp : p = acc := by
        have := hall 0 (by simp)
        simpa using this
      subst hp
      simp only [List.zipWith_cons_cons, List.flatten_cons, scanFrom_append]
      congr 1
      apply ih ps (blk.foldl op p) (by simpa using hlen)
      intro i hi
      have := hall (i + 1) (by simpa using hi)
      simpa [List.foldl_append] using this

/-- **K2** `blelloch_eq_scan`: whenever the interval checker accepts dask's schedule for
    `n_vals = #blocks - 1`, `prefixscan_blelloch` returns the global inclusive scan, block by block,
    over every monoid and for every chunking (empty blocks included). -/
theorem blelloch_eq_scan (op : α → α → α) (e : α) (h : IsMonoid op e) (blocks : List (List α))
    (hok : schedOk (blocks.length - 1) = true) :
    ∃ out, blelloch op e blocks = some out ∧ out.flatten = scanIncl op blocks.flatten ∧
      out.map List.length = blocks.map List.length := by
  cases blocks with
  | nil => exact ⟨[], rfl, rfl, rfl⟩
  | cons b bs =>
    have hlen0 : (((b :: bs).map (fold op e)).dropLast).length = bs.length := by simp
    simp only [List.length_cons, Nat.add_sub_cancel] at hok
    unfold schedOk at hok
    have hok' : segRun (schedule ((b :: bs).map (fold op e)).dropLast.length)
        (List.range ((b :: bs).map (fold op e)).dropLast.length)
        = some (List.replicate ((b :: bs).map (fold op e)).dropLast.length 0) := by
      rw [hlen0]; simpa using hok
    obtain ⟨pv, hrun, hpl, hpv⟩ := blelloch_sound op e h.assoc _ _ hok'
    rw [hlen0] at hpl hpv
    have hlens : ∀ xs : List α, (scanIncl op xs).length = xs.length := by
      intro xs
      have hs : ∀ (acc : α) (ys : List α), (scanFrom op acc ys).length = ys.length := by
        intro acc ys; induction ys generalizing acc with
        | nil => rfl
        | cons y ys ih => simp [scanFrom, ih]
      cases xs <;> simp [scanIncl, hs]
    refine ⟨scanIncl op b :: List.zipWith (fun pre blk => (scanIncl op blk).map (op pre)) pv bs, ?_, ?_, ?_⟩
    · simp only [blelloch]
      rw [hrun]; rfl
    · have hz : List.zipWith (fun pre blk => (scanIncl op blk).map (op pre)) pv bs
          = List.zipWith (fun pre blk => scanFrom op pre blk) pv bs := by
        congr 1; funext pre blk; exact map_scanIncl op h.assoc pre blk
      rw [hz, List.flatten_cons, flatten_zipWith_scanFrom op bs pv (fold op e b) hpl]
      · cases b with
        | nil => simp [fold, scanIncl, scanFrom_ident op e h.id_left]
        | cons x xs =>
          have : fold op e (x :: xs) = xs.foldl op x := by
            unfold fold; rw [foldr_eq_sfold h]; rfl
          rw [this]
          simp only [scanIncl, List.flatten_cons, List.cons_append, scanFrom_append]
      · intro i hi
        rw [hpv i hi, ← foldr_eq_sfold h]
        congr 1
        have ht : (((b :: bs).map (fold op e)).dropLast).take (i + 1) = ((b :: bs).take (i + 1)).map (fold op e) := by
          rw [List.dropLast_eq_take, List.take_take, ← List.map_take]
          congr 2
          simp; omega
        rw [ht, foldr_map_fold h, List.take_succ_cons, List.flatten_cons, foldr_append_monoid h,
          foldl_eq_op_foldr h]
        rfl
    · simp only [List.map_cons, hlens]
      congr 1
      apply List.ext_getElem
      · simp [hpl]
      · intro i h1 h2
        simp [hlens]

end Dask.BlockScan
