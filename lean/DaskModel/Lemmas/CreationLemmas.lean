import DaskModel.Model.Creation
import DaskModel.Lemmas.ChunksPlanner
import DaskModel.Lemmas.ChunksBlocks
/-! Helper lemmas for C34 (creation routines). -/
namespace Dask.Creation
open Dask.Chunks

theorem ceilDivInt_mul (n : Nat) (s : Int) (hs : s ≠ 0) : ceilDivInt ((n : Int) * s) s = n := by
  unfold ceilDivInt
  rw [← Int.neg_mul, Int.mul_fdiv_cancel _ hs]; omega

theorem npArange_exact (a s : Int) (n : Nat) (hs : s ≠ 0) :
    npArange a (a + (n : Int) * s) s = (List.range n).map (fun (j : Nat) => a + (j : Int) * s) := by
  unfold npArange
  have : a + (n : Int) * s - a = (n : Int) * s := by omega
  rw [this, ceilDivInt_mul n s hs]; simp

theorem chunkArange_exact (a s : Int) (n : Nat) (hs : s ≠ 0) :
    chunkArange s ⟨a, a + (n : Int) * s, n⟩ = (List.range n).map (fun (j : Nat) => a + (j : Int) * s) := by
  unfold chunkArange
  simp only [npArange_exact a s n hs, List.length_map, List.length_range, Nat.lt_irrefl, if_false]

theorem range_add_map (f : Nat → Int) (a b : Nat) :
    (List.range (a + b)).map f = (List.range a).map f ++ (List.range b).map (fun j => f (a + j)) := by
  rw [List.range_add, List.map_append, List.map_map]; rfl

theorem arangeValues_aux (start step : Int) (hs : step ≠ 0) : ∀ (cs : List Nat) (ec : Nat),
    ((arangeBlocks start step ec cs).map (chunkArange step)).flatten
      = (List.range (sum cs)).map (fun (i : Nat) => start + ((ec + i : Nat) : Int) * step)
  | [], ec => by simp [arangeBlocks, sum]
  | bs :: rest, ec => by
    simp only [arangeBlocks, List.map_cons, List.flatten_cons, sum_cons]
    rw [arangeValues_aux start step hs rest (ec + bs), range_add_map]
    congr 1
    · have : start + ((ec + bs : Nat) : Int) * step = (start + (ec : Int) * step) + (bs : Int) * step := by
        rw [Int.natCast_add, Int.add_mul]; omega
      rw [this, chunkArange_exact _ _ _ hs]
      apply List.map_congr_left; intro j _
      rw [Int.natCast_add, Int.add_mul]; omega
    · apply List.map_congr_left; intro j _
      rw [Nat.add_assoc]

theorem arangeBlocks_lens (start step : Int) (hs : step ≠ 0) : ∀ (cs : List Nat) (ec : Nat),
    ((arangeBlocks start step ec cs).map (chunkArange step)).map List.length = cs
  | [], ec => by simp [arangeBlocks]
  | bs :: rest, ec => by
    simp only [arangeBlocks, List.map_cons]
    rw [arangeBlocks_lens start step hs rest (ec + bs)]
    have : start + ((ec + bs : Nat) : Int) * step = (start + (ec : Int) * step) + (bs : Int) * step := by
      rw [Int.natCast_add, Int.add_mul]; omega
    rw [this, chunkArange_exact _ _ _ hs]; simp


/-- blocks that compute every element from its *global* index concatenate to the whole, for every chunking
    (the shape of `arange_block`, `linspace_block`, and of the index grids behind `indices`/`fromfunction`) -/
theorem blocks_by_index {α} (f : Nat → α) : ∀ (cs : List Nat) (off : Nat),
    ((blockOffsets off cs).map (fun p => (List.range p.2).map (fun (j : Nat) => f (p.1 + j)))).flatten
      = (List.range (sum cs)).map (fun (j : Nat) => f (off + j))
  | [], _ => by simp [blockOffsets, sum]
  | bs :: rest, off => by
    simp only [blockOffsets, List.map_cons, List.flatten_cons, sum_cons]
    rw [blocks_by_index f rest (off + bs), List.range_add, List.map_append, List.map_map]
    congr 1
    apply List.map_congr_left
    intro j _
    simp only [Function.comp, Nat.add_assoc]

theorem blocks_by_index_lens {α} (f : Nat → Nat → List α) (hf : ∀ o n, (f o n).length = n) : ∀ (cs : List Nat) (off : Nat),
    ((blockOffsets off cs).map (fun p => f p.1 p.2)).map List.length = cs
  | [], _ => rfl
  | bs :: rest, off => by
    simp only [blockOffsets, List.map_cons, blocks_by_index_lens f hf rest (off + bs), hf]

theorem arangeElem_int (start step : Int) (i : Nat) :
    arangeElem intArith start (start + step) i = start + (i : Int) * step := by
  unfold arangeElem intArith
  by_cases h0 : i = 0
  · subst h0; simp
  by_cases h : i = 1
  · subst h; simp
  · simp only [h0, h, if_false]
    have : start + step - start = step := by omega
    rw [this]

theorem ceilDivInt_lt_iff_pos (d s : Int) (hs : 0 < s) (i : Int) : i < ceilDivInt d s ↔ i * s < d := by
  unfold ceilDivInt
  rw [Int.fdiv_eq_ediv_of_nonneg _ (Int.le_of_lt hs)]
  constructor
  · intro h
    have h' : (-d) / s < -i := by omega
    have := (Int.ediv_lt_iff_lt_mul hs).1 h'
    rw [Int.neg_mul] at this; omega
  · intro h
    have h' : -d < (-i) * s := by rw [Int.neg_mul]; omega
    have := (Int.ediv_lt_iff_lt_mul hs).2 h'
    omega

theorem ceilDivInt_neg_neg (d s : Int) : ceilDivInt (-d) (-s) = ceilDivInt d s := by
  unfold ceilDivInt; rw [Int.neg_fdiv_neg]

theorem ceilDivInt_lt_iff_neg (d s : Int) (hs : s < 0) (i : Int) : i < ceilDivInt d s ↔ d < i * s := by
  rw [← ceilDivInt_neg_neg, ceilDivInt_lt_iff_pos (-d) (-s) (by omega)]
  rw [Int.mul_neg]; omega

theorem eyeBlockVal_eq (v h rs cst : Nat) (k : Int) (ro co : Nat) (hro : ro < v) (hco : co < h) :
    eyeBlockVal v h rs cst k ro co = if ((cst + co : Nat) : Int) - ((rs + ro : Nat) : Int) = k then 1 else 0 := by
  show (if decide (-(v : Int) < k - ((cst : Int) - (rs : Int)) ∧ k - ((cst : Int) - (rs : Int)) < (h : Int)) = true
        then (if (co : Int) - (ro : Int) = k - ((cst : Int) - (rs : Int)) then 1 else 0) else 0) = _
  simp only [decide_eq_true_eq, Int.natCast_add]
  by_cases hd : (-(v : Int) < k - ((cst : Int) - (rs : Int)) ∧ k - ((cst : Int) - (rs : Int)) < (h : Int))
  · rw [if_pos hd]
    by_cases he : (cst : Int) + (co : Int) - ((rs : Int) + (ro : Int)) = k
    · rw [if_pos he, if_pos (by omega)]
    · rw [if_neg he, if_neg (by omega)]
  · rw [if_neg hd]
    by_cases he : (cst : Int) + (co : Int) - ((rs : Int) + (ro : Int)) = k
    · exfalso; apply hd; omega
    · rw [if_neg he]


theorem linspace_aux (a b range : Int) (num : Nat) (ep : Bool) : ∀ (cs : List Nat) (off : Nat),
    ((linspaceOffsets off cs).map (fun p => linspaceBlock a b range num ep p.1 p.2)).flatten
      = (List.range (sum cs)).map (fun (j : Nat) =>
          if ep ∧ 1 < num ∧ off + j + 1 = num then b else a + ((off + j : Nat) : Int) * range)
  | [], _ => by simp [linspaceOffsets, sum]
  | bs :: rest, off => by
    simp only [linspaceOffsets, List.map_cons, List.flatten_cons, sum_cons]
    rw [linspace_aux a b range num ep rest (off + bs), List.range_add, List.map_append, List.map_map]
    congr 1
    apply List.map_congr_left
    intro j _
    simp only [Function.comp, Nat.add_assoc]

theorem linspace_lens (a b range : Int) (num : Nat) (ep : Bool) : ∀ (cs : List Nat) (off : Nat),
    ((linspaceOffsets off cs).map (fun p => linspaceBlock a b range num ep p.1 p.2)).map List.length = cs
  | [], _ => rfl
  | bs :: rest, off => by
    simp only [linspaceOffsets, List.map_cons, linspace_lens a b range num ep rest (off + bs)]
    simp [linspaceBlock]


end Dask.Creation
