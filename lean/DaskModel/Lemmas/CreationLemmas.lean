import DaskModel.Model.Creation
import DaskModel.Lemmas.ChunksPlanner
/-! Helper lemmas for C34 (creation routines). -/
namespace Dask.Creation
open Dask.Chunks

theorem ceilDivInt_mul (n : Nat) (s : Int) (hs : s ≠ 0) : ceilDivInt ((n : Int) * s) s = n := by
  unfold ceilDivInt
  rw [← Int.neg_mul, Int.mul_fdiv_cancel _ hs]; omega

theorem npArange_exact (a s : Int) (n : Nat) (hs : s ≠ 0) :
    npArange a (a + (n : Int) * s) s = (List.range n).map (fun (j : Nat) => a + (j : Int) * s) := by
  unfold npArange
  have : a + (n : Int) * s - a = (n : Int) * s := by omega
  rw [this, ceilDivInt_mul n s hs]; simp

theorem chunkArange_exact (a s : Int) (n : Nat) (hs : s ≠ 0) :
    chunkArange s ⟨a, a + (n : Int) * s, n⟩ = (List.range n).map (fun (j : Nat) => a + (j : Int) * s) := by
  unfold chunkArange
  simp only [npArange_exact a s n hs, List.length_map, List.length_range, Nat.lt_irrefl, if_false]

theorem range_add_map (f : Nat → Int) (a b : Nat) :
    (List.range (a + b)).map f = (List.range a).map f ++ (List.range b).map (fun j => f (a + j)) := by
  rw [List.range_add, List.map_append, List.map_map]; rfl

theorem arangeValues_aux (start step : Int) (hs : step ≠ 0) : ∀ (cs : List Nat) (ec : Nat),
    ((arangeBlocks start step ec cs).map (chunkArange step)).flatten
      = (List.range (sum cs)).map (fun (i : Nat) => start + ((ec + i : Nat) : Int) * step)
  | [], ec => by simp [arangeBlocks, sum]
  | bs :: rest, ec => by
    simp only [arangeBlocks, List.map_cons, List.flatten_cons, sum_cons]
    rw [arangeValues_aux start step hs rest (ec + bs), range_add_map]
    congr 1
    · have : start + ((ec + bs : Nat) : Int) * step = (start + (ec : Int) * step) + (bs : Int) * step := by
        rw [Int.natCast_add, Int.add_mul]; omega
      rw [this, chunkArange_exact _ _ _ hs]
      apply List.map_congr_left; intro j _
      rw [Int.natCast_add, Int.add_mul]; omega
    · apply List.map_congr_left; intro j _
      rw [Nat.add_assoc]

theorem arangeBlocks_lens (start step : Int) (hs : step ≠ 0) : ∀ (cs : List Nat) (ec : Nat),
    ((arangeBlocks start step ec cs).map (chunkArange step)).map List.length = cs
  | [], ec => by simp [arangeBlocks]
  | bs :: rest, ec => by
    simp only [arangeBlocks, List.map_cons]
    rw [arangeBlocks_lens start step hs rest (ec + bs)]
    have : start + ((ec + bs : Nat) : Int) * step = (start + (ec : Int) * step) + (bs : Int) * step := by
      rw [Int.natCast_add, Int.add_mul]; omega
    rw [this, chunkArange_exact _ _ _ hs]; simp


theorem ceilDivInt_lt_iff_pos (d s : Int) (hs : 0 < s) (i : Int) : i < ceilDivInt d s ↔ i * s < d := by
  unfold ceilDivInt
  rw [Int.fdiv_eq_ediv_of_nonneg _ (Int.le_of_lt hs)]
  constructor
  · intro h
    have h' : (-d) / s < -i := by omega
    have := (Int.ediv_lt_iff_lt_mul hs).1 h'
    rw [Int.neg_mul] at this; omega
  · intro h
    have h' : -d < (-i) * s := by rw [Int.neg_mul]; omega
    have := (Int.ediv_lt_iff_lt_mul hs).2 h'
    omega

theorem ceilDivInt_neg_neg (d s : Int) : ceilDivInt (-d) (-s) = ceilDivInt d s := by
  unfold ceilDivInt; rw [Int.neg_fdiv_neg]

theorem ceilDivInt_lt_iff_neg (d s : Int) (hs : s < 0) (i : Int) : i < ceilDivInt d s ↔ d < i * s := by
  rw [← ceilDivInt_neg_neg, ceilDivInt_lt_iff_pos (-d) (-s) (by omega)]
  rw [Int.mul_neg]; omega

theorem blockStart_zero (cs : List Nat) : blockStart cs 0 = 0 := by simp [blockStart, sum]
theorem blockStart_succ (c : Nat) (cs : List Nat) (b : Nat) : blockStart (c :: cs) (b + 1) = c + blockStart cs b := by
  simp [blockStart, sum_cons]

theorem blockOf_spec : ∀ {cs : List Nat} {p b o : Nat}, blockOf cs p = some (b, o) →
    ∃ c, cs[b]? = some c ∧ o < c ∧ blockStart cs b + o = p
  | [], _, _, _, h => by simp [blockOf] at h
  | c :: cs, p, b, o, h => by
    unfold blockOf at h
    split at h
    · rename_i hp
      injection h with h; injection h with hb ho
      subst hb; subst ho
      exact ⟨c, by simp, hp, by simp [blockStart_zero]⟩
    · rename_i hp
      cases hrec : blockOf cs (p - c) with
      | none => simp [hrec] at h
      | some bo =>
        obtain ⟨b', o'⟩ := bo
        simp only [hrec, Option.map_some] at h
        injection h with h; injection h with hb ho
        subst hb; subst ho
        obtain ⟨c', h1, h2, h3⟩ := blockOf_spec hrec
        exact ⟨c', by simpa using h1, h2, by rw [blockStart_succ]; omega⟩

theorem blockOf_some : ∀ {cs : List Nat} {p : Nat}, p < sum cs → ∃ b o, blockOf cs p = some (b, o)
  | [], p, h => by simp [sum] at h
  | c :: cs, p, h => by
    unfold blockOf
    split
    · exact ⟨0, p, rfl⟩
    · rename_i hp
      rw [sum_cons] at h
      obtain ⟨b, o, hbo⟩ := blockOf_some (cs := cs) (p := p - c) (by omega)
      exact ⟨b + 1, o, by simp [hbo]⟩

theorem eyeBlockVal_eq (v h rs cst : Nat) (k : Int) (ro co : Nat) (hro : ro < v) (hco : co < h) :
    eyeBlockVal v h rs cst k ro co = if ((cst + co : Nat) : Int) - ((rs + ro : Nat) : Int) = k then 1 else 0 := by
  show (if decide (-(v : Int) < k - ((cst : Int) - (rs : Int)) ∧ k - ((cst : Int) - (rs : Int)) < (h : Int)) = true
        then (if (co : Int) - (ro : Int) = k - ((cst : Int) - (rs : Int)) then 1 else 0) else 0) = _
  simp only [decide_eq_true_eq, Int.natCast_add]
  by_cases hd : (-(v : Int) < k - ((cst : Int) - (rs : Int)) ∧ k - ((cst : Int) - (rs : Int)) < (h : Int))
  · rw [if_pos hd]
    by_cases he : (cst : Int) + (co : Int) - ((rs : Int) + (ro : Int)) = k
    · rw [if_pos he, if_pos (by omega)]
    · rw [if_neg he, if_neg (by omega)]
  · rw [if_neg hd]
    by_cases he : (cst : Int) + (co : Int) - ((rs : Int) + (ro : Int)) = k
    · exfalso; apply hd; omega
    · rw [if_neg he]


/-- the global `linspace` values the blocks must reproduce: element `off + j` is
    `(a + (off+j)*range) / div`; listed per block, scaled by that block's own `ldiv` -/
def linspaceExpected (range a : Int) (ep : Bool) : Nat → List Nat → List Int
  | _, [] => []
  | off, bs :: rest =>
    (List.range bs).map (fun (j : Nat) => (a + ((off + j : Nat) : Int) * range) * (linspaceDiv bs ep : Int))
      ++ linspaceExpected range a ep (off + bs) rest

theorem linspace_aux (range a : Int) (ep : Bool) : ∀ (cs : List Nat) (off : Nat),
    (linspaceBlocks range ep (a + (off : Int) * range) cs).flatMap
        (fun b => (List.range b.len).map (fun j => npLinspaceNum ep b j))
      = linspaceExpected range a ep off cs
  | [], _ => by simp [linspaceBlocks, linspaceExpected]
  | bs :: rest, off => by
    simp only [linspaceBlocks, List.flatMap_cons, linspaceExpected]
    have hnext : a + (off : Int) * range + range * (bs : Int) = a + ((off + bs : Nat) : Int) * range := by
      rw [Int.natCast_add, Int.add_mul, Int.mul_comm range]; omega
    rw [hnext, linspace_aux range a ep rest (off + bs)]
    congr 1
    apply List.map_congr_left
    intro j hj
    have hj : j < bs := by simpa using hj
    simp only [npLinspaceNum]
    -- (bstart)*ldiv + j*(bsSpace*range) = (a + (off+j)*range)*ldiv
    have key : (j : Int) * ((if ep then bs - 1 else bs : Nat) : Int) = (j : Int) * (linspaceDiv bs ep : Int) := by
      unfold linspaceDiv
      cases ep
      · simp only [Bool.false_eq_true, if_false]
        have : bs ≠ 0 := by omega
        simp [this]
      · simp only [if_true]
        by_cases h1 : bs - 1 = 0
        · have : j = 0 := by omega
          subst this; simp
        · simp [h1]
    have e1 : a + (off : Int) * range + ((if ep then bs - 1 else bs : Nat) : Int) * range - (a + (off : Int) * range)
        = ((if ep then bs - 1 else bs : Nat) : Int) * range := by omega
    rw [e1, ← Int.mul_assoc, key, Int.natCast_add, Int.add_mul, Int.add_mul, Int.add_mul, Int.add_mul]
    rw [Int.mul_assoc (j : Int), Int.mul_comm (linspaceDiv bs ep : Int) range, ← Int.mul_assoc (j : Int)]
    omega

theorem linspace_lens (range : Int) (ep : Bool) : ∀ (cs : List Nat) (a : Int),
    (linspaceBlocks range ep a cs).map (·.len) = cs
  | [], _ => rfl
  | bs :: rest, a => by simp [linspaceBlocks, linspace_lens range ep rest]

theorem splitBy_getD {α} : ∀ (cs : List Nat) (xs : List α) (b c : Nat), cs[b]? = some c →
    (splitBy cs xs).getD b [] = (xs.drop (blockStart cs b)).take c
  | [], _, _, _, h => by simp at h
  | c0 :: cs, xs, 0, c, h => by
    simp at h; subst h
    simp [splitBy, blockStart_zero]
  | c0 :: cs, xs, b + 1, c, h => by
    simp only [List.getElem?_cons_succ] at h
    simp only [splitBy, List.getD_cons_succ, blockStart_succ]
    rw [splitBy_getD cs (xs.drop c0) b c h, List.drop_drop]


end Dask.Creation
