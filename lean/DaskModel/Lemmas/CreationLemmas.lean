import DaskModel.Model.Creation
import DaskModel.Lemmas.ChunksPlanner
import DaskModel.Lemmas.ChunksBlocks
/-! Helper lemmas for C34 (creation routines). -/
namespace Dask.Creation
open Dask.Chunks

theorem ceilDivInt_mul (n : Nat) (s : Int) (hs : s ≠ 0) : ceilDivInt ((n : Int) * s) s = n := by
  unfold ceilDivInt
  rw [← Int.neg_mul, Int.mul_fdiv_cancel _ hs]; omega

theorem npArange_exact (a s : Int) (n : Nat) (hs : s ≠ 0) :
    npArange a (a + (n : Int) * s) s = (List.range n).map (fun (j : Nat) => a + (j : Int) * s) := by
  unfold npArange
  have : a + (n : Int) * s - a = (n : Int) * s := by omega
  rw [this, ceilDivInt_mul n s hs]; simp

theorem chunkArange_exact (a s : Int) (n : Nat) (hs : s ≠ 0) :
    chunkArange s ⟨a, a + (n : Int) * s, n⟩ = (List.range n).map (fun (j : Nat) => a + (j : Int) * s) := by
  unfold chunkArange
  simp only [npArange_exact a s n hs, List.length_map, List.length_range, Nat.lt_irrefl, if_false]

theorem range_add_map (f : Nat → Int) (a b : Nat) :
    (List.range (a + b)).map f = (List.range a).map f ++ (List.range b).map (fun j => f (a + j)) := by
  rw [List.range_add, List.map_append, List.map_map]; rfl

theorem arangeValues_aux (start step : Int) (hs : step ≠ 0) : ∀ (cs : List Nat) (ec : Nat),
    ((arangeBlocks start step ec cs).map (chunkArange step)).flatten
      = (List.range (sum cs)).map (fun (i : Nat) => start + ((ec + i : Nat) : Int) * step)
  | [], ec => by simp [arangeBlocks, sum]
  | bs :: rest, ec => by
    simp only [arangeBlocks, List.map_cons, List.flatten_cons, sum_cons]
    rw [arangeValues_aux start step hs rest (ec + bs), range_add_map]
    congr 1
    · have : start + ((ec + bs : Nat) : Int) * step = (start + (ec : Int) * step) + (bs : Int) * step := by
        rw [Int.natCast_add, Int.add_mul]; omega
      rw [this, chunkArange_exact _ _ _ hs]
      apply List.map_congr_left; intro j _
      rw [Int.natCast_add, Int.add_mul]; omega
    · apply List.map_congr_left; intro j _
      rw [Nat.add_assoc]

theorem arangeBlocks_lens (start step : Int) (hs : step ≠ 0) : ∀ (cs : List Nat) (ec : Nat),
    ((arangeBlocks start step ec cs).map (chunkArange step)).map List.length = cs
  | [], ec => by simp [arangeBlocks]
  | bs :: rest, ec => by
    simp only [arangeBlocks, List.map_cons]
    rw [arangeBlocks_lens start step hs rest (ec + bs)]
    have : start + ((ec + bs : Nat) : Int) * step = (start + (ec : Int) * step) + (bs : Int) * step := by
      rw [Int.natCast_add, Int.add_mul]; omega
    rw [this, chunkArange_exact _ _ _ hs]; simp


theorem ceilDivInt_lt_iff_pos (d s : Int) (hs : 0 < s) (i : Int) : i < ceilDivInt d s ↔ i * s < d := by
  unfold ceilDivInt
  rw [Int.fdiv_eq_ediv_of_nonneg _ (Int.le_of_lt hs)]
  constructor
  · intro h
    have h' : (-d) / s < -i := by omega
    have := (Int.ediv_lt_iff_lt_mul hs).1 h'
    rw [Int.neg_mul] at this; omega
  · intro h
    have h' : -d < (-i) * s := by rw [Int.neg_mul]; omega
    have := (Int.ediv_lt_iff_lt_mul hs).2 h'
    omega

theorem ceilDivInt_neg_neg (d s : Int) : ceilDivInt (-d) (-s) = ceilDivInt d s := by
  unfold ceilDivInt; rw [Int.neg_fdiv_neg]

theorem ceilDivInt_lt_iff_neg (d s : Int) (hs : s < 0) (i : Int) : i < ceilDivInt d s ↔ d < i * s := by
  rw [← ceilDivInt_neg_neg, ceilDivInt_lt_iff_pos (-d) (-s) (by omega)]
  rw [Int.mul_neg]; omega

theorem eyeBlockVal_eq (v h rs cst : Nat) (k : Int) (ro co : Nat) (hro : ro < v) (hco : co < h) :
    eyeBlockVal v h rs cst k ro co = if ((cst + co : Nat) : Int) - ((rs + ro : Nat) : Int) = k then 1 else 0 := by
  show (if decide (-(v : Int) < k - ((cst : Int) - (rs : Int)) ∧ k - ((cst : Int) - (rs : Int)) < (h : Int)) = true
        then (if (co : Int) - (ro : Int) = k - ((cst : Int) - (rs : Int)) then 1 else 0) else 0) = _
  simp only [decide_eq_true_eq, Int.natCast_add]
  by_cases hd : (-(v : Int) < k - ((cst : Int) - (rs : Int)) ∧ k - ((cst : Int) - (rs : Int)) < (h : Int))
  · rw [if_pos hd]
    by_cases he : (cst : Int) + (co : Int) - ((rs : Int) + (ro : Int)) = k
    · rw [if_pos he, if_pos (by omega)]
    · rw [if_neg he, if_neg (by omega)]
  · rw [if_neg hd]
    by_cases he : (cst : Int) + (co : Int) - ((rs : Int) + (ro : Int)) = k
    · exfalso; apply hd; omega
    · rw [if_neg he]


/-- the global `linspace` values the blocks must reproduce: element `off + j` is
    `(a + (off+j)*range) / div`; listed per block, scaled by that block's own `ldiv` -/
def linspaceExpected (range a : Int) (ep : Bool) : Nat → List Nat → List Int
  | _, [] => []
  | off, bs :: rest =>
    (List.range bs).map (fun (j : Nat) => (a + ((off + j : Nat) : Int) * range) * (linspaceDiv bs ep : Int))
      ++ linspaceExpected range a ep (off + bs) rest

theorem linspace_aux (range a : Int) (ep : Bool) : ∀ (cs : List Nat) (off : Nat),
    (linspaceBlocks range ep (a + (off : Int) * range) cs).flatMap
        (fun b => (List.range b.len).map (fun j => npLinspaceNum ep b j))
      = linspaceExpected range a ep off cs
  | [], _ => by simp [linspaceBlocks, linspaceExpected]
  | bs :: rest, off => by
    simp only [linspaceBlocks, List.flatMap_cons, linspaceExpected]
    have hnext : a + (off : Int) * range + range * (bs : Int) = a + ((off + bs : Nat) : Int) * range := by
      rw [Int.natCast_add, Int.add_mul, Int.mul_comm range]; omega
    rw [hnext, linspace_aux range a ep rest (off + bs)]
    congr 1
    apply List.map_congr_left
    intro j hj
    have hj : j < bs := by simpa using hj
    simp only [npLinspaceNum]
    -- (bstart)*ldiv + j*(bsSpace*range) = (a + (off+j)*range)*ldiv
    have key : (j : Int) * ((if ep then bs - 1 else bs : Nat) : Int) = (j : Int) * (linspaceDiv bs ep : Int) := by
      unfold linspaceDiv
      cases ep
      · simp only [Bool.false_eq_true, if_false]
        have : bs ≠ 0 := by omega
        simp [this]
      · simp only [if_true]
        by_cases h1 : bs - 1 = 0
        · have : j = 0 := by omega
          subst this; simp
        · simp [h1]
    have e1 : a + (off : Int) * range + ((if ep then bs - 1 else bs : Nat) : Int) * range - (a + (off : Int) * range)
        = ((if ep then bs - 1 else bs : Nat) : Int) * range := by omega
    rw [e1, ← Int.mul_assoc, key, Int.natCast_add, Int.add_mul, Int.add_mul, Int.add_mul, Int.add_mul]
    rw [Int.mul_assoc (j : Int), Int.mul_comm (linspaceDiv bs ep : Int) range, ← Int.mul_assoc (j : Int)]
    omega

theorem linspace_lens (range : Int) (ep : Bool) : ∀ (cs : List Nat) (a : Int),
    (linspaceBlocks range ep a cs).map (·.len) = cs
  | [], _ => rfl
  | bs :: rest, a => by simp [linspaceBlocks, linspace_lens range ep rest]

end Dask.Creation
