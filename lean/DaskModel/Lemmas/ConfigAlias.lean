import DaskModel.Model.ConfigAlias
import DaskModel.Lemmas.Config
/-! Lemmas for the identity-carrying config model (`Model/ConfigAlias.lean`): forgetting identities gives the value
model (`hupdate_erase`), every dict object of a result is an object of the target or new (`hupdate_ids`). -/
namespace Dask.ConfigAlias
open Dask.Config

theorem dget_eraseL (d : HDict) (k : String) : dget (eraseL d) k = (dget d k).map HCfg.erase := by
  induction d with
  | nil => simp [eraseL, dget]
  | cons kv r ih =>
    by_cases h : kv.1 = k
    · simp [eraseL, dget, h]
    · simp [eraseL, dget, h, ih]

theorem dhas_eraseL (d : HDict) (k : String) : dhas (eraseL d) k = dhas d k := by
  simp [dhas, dget_eraseL]

theorem canonicalName_eraseL (d : HDict) (k : String) : canonicalName k (eraseL d) = canonicalName k d := by
  simp [canonicalName, dhas_eraseL]

theorem eraseL_dset (d : HDict) (k : String) (v : HCfg) : eraseL (dset d k v) = dset (eraseL d) k v.erase := by
  induction d with
  | nil => simp [eraseL, dset]
  | cons kv r ih =>
    by_cases h : kv.1 = k
    · simp [eraseL, dset, h]
    · simp [eraseL, dset, h, ih]

theorem curOf_eraseL (old : HDict) (k : String) (nx : Nat) : curOf (eraseL old) k = eraseL (childOf old k nx).2.1 := by
  unfold curOf childOf
  rw [dget_eraseL]
  cases dget old k with
  | none => simp [eraseL]
  | some c => cases c <;> simp [HCfg.erase, eraseL]

theorem leafWins_eraseL (p : Priority) (old : HDict) (k : String) (d : Option Cfg) :
    leafWins id p (eraseL old) k d = leafWins HCfg.erase p old k d := by
  unfold leafWins
  simp only [dhas_eraseL, dget_eraseL]
  cases dget old k with
  | none => simp
  | some ov =>
    cases d with
    | none => simp [truthy]
    | some c =>
      cases c with
      | leaf x => simp
      | node dd => cases hg : dget dd k <;> simp [hg, id]

mutual
theorem hupdateNode_erase (p : Priority) : ∀ (v : HCfg) (cur : HDict) (sd : Option Cfg) (nx : Nat),
    (hupdateNode p v cur sd nx).map (fun r => eraseL r.1) = updateNode p v.erase (eraseL cur) sd
  | .node _ sub, cur, sd, nx => by
    simp only [hupdateNode, HCfg.erase, updateNode]
    exact hupdate_erase p sub cur sd nx
  | .leaf _, cur, sd, nx => by simp [hupdateNode, HCfg.erase, updateNode]
theorem hupdate_erase (p : Priority) : ∀ (new old : HDict) (d : Option Cfg) (nx : Nat),
    (hupdate p new old d nx).map (fun r => eraseL r.1) = updateGo p (eraseL new) (eraseL old) d
  | [], old, d, nx => by simp [hupdate, eraseL, updateGo]
  | kv :: rest, old, d, nx => by
    have hn := hupdateNode_erase p kv.2
    have hr := hupdate_erase p rest
    obtain ⟨k0, v⟩ := kv
    simp only at hn
    cases v with
    | leaf x =>
      simp only [hupdate, eraseL, HCfg.erase, updateGo, canonicalName_eraseL, leafWins_eraseL]
      cases leafWins HCfg.erase p old (canonicalName k0 old) d with
      | none => simp
      | some b =>
        cases b
        · simp only []; exact hr old d nx
        · simp only []; rw [hr]; simp [eraseL_dset, HCfg.erase]
    | node i sub =>
      simp only [hupdate, eraseL, HCfg.erase, updateGo, canonicalName_eraseL]
      cases hsd : subDefaults d (canonicalName k0 old) with
      | none => simp
      | some sd =>
        simp only []
        have h1 := hn (childOf old (canonicalName k0 old) nx).2.1 sd (childOf old (canonicalName k0 old) nx).2.2
        simp only [HCfg.erase] at h1
        rw [curOf_eraseL old _ nx, ← h1]
        cases hupdateNode p (.node i sub) (childOf old (canonicalName k0 old) nx).2.1 sd (childOf old (canonicalName k0 old) nx).2.2 with
        | none => simp
        | some r =>
          obtain ⟨cur', nx'⟩ := r
          simp only [Option.map_some]
          rw [hr]
          simp [eraseL_dset, HCfg.erase]
end


theorem mem_idsL_dset (d : HDict) (k : String) (v : HCfg) (i : Nat) (h : i ∈ idsL (dset d k v)) :
    i ∈ idsL d ∨ i ∈ v.ids := by
  induction d with
  | nil => simpa [dset, idsL] using h
  | cons kv r ih =>
    by_cases hk : kv.1 = k
    · simp only [dset, hk, if_true, idsL, List.mem_append] at h ⊢
      rcases h with h | h
      · exact Or.inr h
      · exact Or.inl (Or.inr h)
    · simp only [dset, hk, if_false, idsL, List.mem_append] at h ⊢
      rcases h with h | h
      · exact Or.inl (Or.inl h)
      · rcases ih h with h | h
        · exact Or.inl (Or.inr h)
        · exact Or.inr h

theorem mem_idsL_of_dget (d : HDict) (k : String) (v : HCfg) (h : dget d k = some v) (i : Nat) (hi : i ∈ v.ids) :
    i ∈ idsL d := by
  induction d with
  | nil => simp [dget] at h
  | cons kv r ih =>
    by_cases hk : kv.1 = k
    · simp only [dget, hk, if_true, Option.some.injEq] at h
      simp only [idsL, List.mem_append]
      exact Or.inl (h ▸ hi)
    · simp only [dget, hk, if_false] at h
      simp only [idsL, List.mem_append]
      exact Or.inr (ih h)

/-- `childOf`: either the existing dict object of `old` (nothing allocated) or the fresh object `nx` -/
theorem childOf_spec (old : HDict) (k : String) (nx : Nat) :
    ((childOf old k nx).1 ∈ idsL old ∧ (∀ i ∈ idsL (childOf old k nx).2.1, i ∈ idsL old) ∧ (childOf old k nx).2.2 = nx) ∨
    ((childOf old k nx).1 = nx ∧ (childOf old k nx).2.1 = [] ∧ (childOf old k nx).2.2 = nx + 1) := by
  unfold childOf
  cases hg : dget old k with
  | none => right; simp
  | some c =>
    cases c with
    | leaf x => right; simp
    | node j s =>
      left
      refine ⟨?_, ?_, rfl⟩
      · exact mem_idsL_of_dget old k _ hg j (by simp [HCfg.ids])
      · intro i hi
        exact mem_idsL_of_dget old k _ hg i (by simp [HCfg.ids, hi])

mutual
theorem hupdateNode_ids (p : Priority) : ∀ (v : HCfg) (cur : HDict) (sd : Option Cfg) (nx : Nat) (r : HDict) (nx' : Nat),
    hupdateNode p v cur sd nx = some (r, nx') → nx ≤ nx' ∧ ∀ i ∈ idsL r, i ∈ idsL cur ∨ (nx ≤ i ∧ i < nx')
  | .node _ sub, cur, sd, nx, r, nx' => by
    intro h
    simp only [hupdateNode] at h
    exact hupdate_ids p sub cur sd nx r nx' h
  | .leaf _, cur, sd, nx, r, nx' => by
    intro h
    simp only [hupdateNode, Option.some.injEq, Prod.mk.injEq] at h
    obtain ⟨rfl, rfl⟩ := h
    exact ⟨Nat.le_refl _, fun i hi => Or.inl hi⟩
/-- **every dict object of the result of `update` is an object of `old` or was created by the call** -/
theorem hupdate_ids (p : Priority) : ∀ (new old : HDict) (d : Option Cfg) (nx : Nat) (r : HDict) (nx' : Nat),
    hupdate p new old d nx = some (r, nx') → nx ≤ nx' ∧ ∀ i ∈ idsL r, i ∈ idsL old ∨ (nx ≤ i ∧ i < nx')
  | [], old, d, nx, r, nx' => by
    intro h
    simp only [hupdate, Option.some.injEq, Prod.mk.injEq] at h
    obtain ⟨rfl, rfl⟩ := h
    exact ⟨Nat.le_refl _, fun i hi => Or.inl hi⟩
  | kv :: rest, old, d, nx, r, nx' => by
    intro h
    have hn := hupdateNode_ids p kv.2
    have hr := hupdate_ids p rest
    obtain ⟨k0, v⟩ := kv
    simp only at hn
    cases v with
    | leaf x =>
      simp only [hupdate] at h
      cases hw : leafWins HCfg.erase p old (canonicalName k0 old) d with
      | none => rw [hw] at h; simp at h
      | some b =>
        rw [hw] at h
        cases b
        · exact hr old d nx r nx' h
        · obtain ⟨h1, h2⟩ := hr _ d nx r nx' h
          refine ⟨h1, fun i hi => ?_⟩
          rcases h2 i hi with h3 | h3
          · rcases mem_idsL_dset old _ _ i h3 with h4 | h4
            · exact Or.inl h4
            · simp [HCfg.ids] at h4
          · exact Or.inr h3
    | node j sub =>
      simp only [hupdate] at h
      cases hsd : subDefaults d (canonicalName k0 old) with
      | none => rw [hsd] at h; simp at h
      | some sd =>
        rw [hsd] at h
        simp only [] at h
        cases hu : hupdateNode p (.node j sub) (childOf old (canonicalName k0 old) nx).2.1 sd
            (childOf old (canonicalName k0 old) nx).2.2 with
        | none => rw [hu] at h; simp at h
        | some res =>
          obtain ⟨cur', nx1⟩ := res
          rw [hu] at h
          simp only [] at h
          obtain ⟨a1, a2⟩ := hn _ sd _ cur' nx1 hu
          obtain ⟨b1, b2⟩ := hr _ d nx1 r nx' h
          have hc := childOf_spec old (canonicalName k0 old) nx
          refine ⟨by rcases hc with ⟨_, _, e⟩ | ⟨_, _, e⟩ <;> omega, fun i hi => ?_⟩
          rcases b2 i hi with h3 | h3
          · rcases mem_idsL_dset old _ _ i h3 with h4 | h4
            · exact Or.inl h4
            · simp only [HCfg.ids, List.mem_cons] at h4
              rcases hc with ⟨c1, c2, c3⟩ | ⟨c1, c2, c3⟩
              · rcases h4 with h4 | h4
                · exact Or.inl (h4 ▸ c1)
                · rcases a2 i h4 with h5 | h5
                  · exact Or.inl (c2 i h5)
                  · right; omega
              · rcases h4 with h4 | h4
                · right; omega
                · rcases a2 i h4 with h5 | h5
                  · rw [c2] at h5; simp [idsL] at h5
                  · right; omega
          · right
            rcases hc with ⟨_, _, e⟩ | ⟨_, _, e⟩ <;> omega
end

end Dask.ConfigAlias
