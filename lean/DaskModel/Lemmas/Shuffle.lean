import DaskModel.Model.Shuffle
/-! Helper lemmas for C40: digit tuples, staged routing, SimpleShuffle, bisect_right. Core Lean only. -/
namespace Dask.Shuffle
variable {α : Type}


theorem digits_length (n S k : Nat) : (digits n S k).length = S := by simp [digits]

theorem digits_getElem? (n S k j : Nat) : (digits n S k)[j]? = if j < S then some (digit n j k) else none := by
  unfold digits
  by_cases h : j < S
  · simp [h]
  · simp [h]

/-- the position a row is moved to by stages `0 … S-1` (tuple form): each stage overwrites one digit -/
def routeTuple (k S t : Nat) (src : List Nat) : List Nat :=
  (List.range S).foldl (fun tup s => insert tup s (digit t s k)) src

theorem route_prefix (k t : Nat) (src : List Nat) :
    ∀ m, m ≤ src.length →
      ((List.range m).foldl (fun tup s => insert tup s (digit t s k)) src).length = src.length ∧
      (∀ j, j < m → ((List.range m).foldl (fun tup s => insert tup s (digit t s k)) src)[j]? = some (digit t j k))
  | 0, _ => by simp
  | m + 1, hm => by
    obtain ⟨hl, hj⟩ := route_prefix k t src m (by omega)
    rw [List.range_succ, List.foldl_append]
    simp only [List.foldl_cons, List.foldl_nil]
    generalize (List.range m).foldl (fun tup s => insert tup s (digit t s k)) src = r at hl hj ⊢
    refine ⟨by simp [insert, hl], ?_⟩
    intro j hjm
    by_cases h : j = m
    · subst h
      simp only [insert]
      rw [List.getElem?_set_self (by omega)]
    · simp only [insert]
      rw [List.getElem?_set_ne (by omega)]
      exact hj j (by omega)

/-- **staged_route**: whatever position a row starts from, after all `S` stages it sits at the position
    whose digit tuple is the digit expansion of its (reduced) target `t` -/
theorem staged_route_tuple (k S t : Nat) (src : List Nat) (hsrc : src.length = S) :
    routeTuple k S t src = digits t S k := by
  obtain ⟨hl, hj⟩ := route_prefix k t src S (by omega)
  apply List.ext_getElem?
  intro j
  rw [digits_getElem?]
  by_cases h : j < S
  · simp only [h, if_true]
    exact hj j h
  · simp only [h, if_false]
    apply List.getElem?_eq_none
    unfold routeTuple
    omega

theorem digits_succ (n S k : Nat) : digits n (S + 1) k = (n % k) :: digits (n / k) S k := by
  unfold digits
  rw [List.range_succ_eq_map]
  simp only [List.map_cons, List.map_map]
  congr 1
  · simp [digit]
  · apply List.map_congr_left
    intro j _
    simp only [Function.comp, digit, Nat.pow_succ, Nat.div_div_eq_div_mul]
    rw [Nat.mul_comm]

theorem fromDigits_digits (k : Nat) : ∀ (S n : Nat), n < k ^ S → fromDigits k (digits n S k) = n
  | 0, n, h => by simp at h; subst h; simp [digits, fromDigits]
  | S + 1, n, h => by
    rw [digits_succ, fromDigits]
    have hk : 0 < k := by
      rcases Nat.eq_zero_or_pos k with h0 | h0
      · subst h0; simp at h
      · exact h0
    have : n / k < k ^ S := by
      rw [Nat.div_lt_iff_lt_mul hk]
      simpa [Nat.pow_succ] using h
    rw [fromDigits_digits k S (n / k) this]
    exact Nat.mod_add_div n k



theorem stageIndex_simple (x n : Nat) : stageIndex x 0 n n 0 false = x % n := by
  simp [stageIndex, digit, Nat.mod_mod]

/-- **SimpleShuffle, exactly**: output partition `p` is the subsequence (partition order, then row order)
    of all rows whose target is `p` modulo the number of outputs -/
theorem simpleShuffle_getElem? (parts : List (List (Nat × α))) (n p : Nat) (hp : p < n) :
    (simpleShuffle parts n)[p]? = some (parts.flatten.filter fun r => r.1 % n == p) := by
  unfold simpleShuffle
  rw [List.getElem?_map, List.getElem?_range hp]
  simp only [Option.map_some, Option.some.injEq]
  rw [List.filter_flatten, List.flatMap_def]
  congr 1
  apply List.map_congr_left
  intro rows _
  unfold shuffleGroup
  apply List.filter_congr
  intro r _
  rw [stageIndex_simple]

theorem simpleShuffle_length (parts : List (List (Nat × α))) (n : Nat) : (simpleShuffle parts n).length = n := by
  simp [simpleShuffle]

/-! ### bisect_right -/

theorem bisectRight_le (xs : List Nat) (x j : Nat) (h : j < bisectRight xs x) :
    ∃ v, xs[j]? = some v ∧ v ≤ x := by
  unfold bisectRight at h
  induction xs generalizing j with
  | nil => simp at h
  | cons a as ih =>
    simp only [List.takeWhile_cons] at h
    split at h
    · rename_i ha
      cases j with
      | zero => exact ⟨a, by simp, by simpa using ha⟩
      | succ j =>
        simp only [List.length_cons, Nat.add_lt_add_iff_right] at h
        obtain ⟨v, hv, hle⟩ := ih j h
        exact ⟨v, by simpa using hv, hle⟩
    · simp at h

theorem bisectRight_gt (xs : List Nat) (x v : Nat) (h : xs[bisectRight xs x]? = some v) : x < v := by
  unfold bisectRight at h
  induction xs with
  | nil => simp at h
  | cons a as ih =>
    simp only [List.takeWhile_cons] at h
    split at h
    · simp only [List.length_cons, List.getElem?_cons_succ] at h
      exact ih h
    · rename_i ha
      simp at h
      subst h
      simpa using ha

theorem bisectRight_le_length (xs : List Nat) (x : Nat) : bisectRight xs x ≤ xs.length := by
  unfold bisectRight
  exact (List.takeWhile_sublist _).length_le

/-- if every element is `≤ x` the insertion point is the end -/
theorem bisectRight_eq_length (xs : List Nat) (x : Nat) (h : ∀ a ∈ xs, a ≤ x) : bisectRight xs x = xs.length := by
  unfold bisectRight
  induction xs with
  | nil => rfl
  | cons a as ih =>
    have ha : a ≤ x := h a List.mem_cons_self
    simp only [List.takeWhile_cons, ha, decide_true, if_true, List.length_cons]
    rw [ih (fun b hb => h b (List.mem_cons_of_mem _ hb))]



theorem digits_fromDigits (k : Nat) (hk : 0 < k) : ∀ (tup : List Nat), (∀ x ∈ tup, x < k) →
    digits (fromDigits k tup) tup.length k = tup
  | [], _ => by simp [digits]
  | d :: ds, h => by
    have hd : d < k := h d List.mem_cons_self
    have ih := digits_fromDigits k hk ds (fun x hx => h x (List.mem_cons_of_mem _ hx))
    rw [List.length_cons, digits_succ, fromDigits]
    have h1 : (d + k * fromDigits k ds) % k = d := by
      rw [Nat.add_mul_mod_self_left]; exact Nat.mod_eq_of_lt hd
    have h2 : (d + k * fromDigits k ds) / k = fromDigits k ds := by
      rw [Nat.add_mul_div_left _ _ hk, Nat.div_eq_of_lt hd, Nat.zero_add]
    rw [h1, h2, ih]

theorem digit_lt (n j k : Nat) (hk : 0 < k) : digit n j k < k := Nat.mod_lt _ hk

theorem digits_lt (n S k : Nat) (hk : 0 < k) : ∀ x ∈ digits n S k, x < k := by
  intro x hx
  unfold digits at hx
  obtain ⟨j, _, rfl⟩ := List.mem_map.mp hx
  exact digit_lt n j k hk

/-- the digit `j` of the position obtained by overwriting digit `s` of `part` with `i` -/
theorem digit_insert (k S part s i j : Nat) (hk : 0 < k) (hs : s < S) (hi : i < k) (hj : j < S) :
    digit (fromDigits k (insert (digits part S k) s i)) j k = if j = s then i else digit part j k := by
  have hlen : (insert (digits part S k) s i).length = S := by simp [insert, digits_length]
  have hall : ∀ x ∈ insert (digits part S k) s i, x < k := by
    intro x hx
    unfold insert at hx
    rcases List.mem_or_eq_of_mem_set hx with h | h
    · exact digits_lt part S k hk x h
    · omega
  have hd := digits_fromDigits k hk _ hall
  rw [hlen] at hd
  have : (digits (fromDigits k (insert (digits part S k) s i)) S k)[j]? = (insert (digits part S k) s i)[j]? := by rw [hd]
  rw [digits_getElem?, if_pos hj] at this
  unfold insert at this
  by_cases hjs : j = s
  · subst hjs
    rw [List.getElem?_set_self (by rw [digits_length]; exact hj)] at this
    simp only [if_true]
    exact Option.some.inj this
  · rw [List.getElem?_set_ne (by omega), digits_getElem?, if_pos hj] at this
    simp only [hjs, if_false]
    exact Option.some.inj this

/-- rows of the staged shuffle after stages `< s`: every row sits at a position that agrees with its
    reduced target on the digits `< s` -/
def StageInv (P : Nat × α → Prop) (k nIn s : Nat) (parts : List (List (Nat × α))) : Prop :=
  ∀ (q : Nat) (rows : List (Nat × α)), parts[q]? = some rows → ∀ r ∈ rows,
    P r ∧ ∀ j, j < s → digit q j k = digit (r.1 % nIn) j k

theorem stageStep_inv (P : Nat × α → Prop) (k S s nIn : Nat) (hk : 0 < k) (hs : s < S) (parts : List (List (Nat × α)))
    (h : StageInv P k nIn s parts) : StageInv P k nIn (s + 1) (stageStep k S s nIn parts) := by
  intro part rows hrows r hr
  unfold stageStep at hrows
  rw [List.getElem?_map] at hrows
  have hpart : part < k ^ S := by
    apply Nat.lt_of_not_le
    intro hcon
    rw [List.getElem?_eq_none (by simpa using hcon)] at hrows
    cases hrows
  rw [List.getElem?_range hpart] at hrows
  simp only [Option.map_some, Option.some.injEq] at hrows
  subst hrows
  obtain ⟨i, hi, hri⟩ := List.mem_flatMap.mp hr
  have hik : i < k := List.mem_range.mp hi
  unfold shuffleGroup at hri
  obtain ⟨hrq, hidx⟩ := List.mem_filter.mp hri
  have hout : (digits part S k).getD s 0 = digit part s k := by
    rw [List.getD_eq_getElem?_getD, digits_getElem?, if_pos hs]; rfl
  rw [hout] at hidx
  simp only [stageIndex, Bool.false_and, Bool.false_eq_true, if_false, beq_iff_eq] at hidx
  -- the source position
  have hsrc : ∃ rows', parts[fromDigits k (insert (digits part S k) s i)]? = some rows' ∧ r ∈ rows' := by
    rw [List.getD_eq_getElem?_getD] at hrq
    cases hq : parts[fromDigits k (insert (digits part S k) s i)]? with
    | none => rw [hq] at hrq; simp at hrq
    | some rows' => rw [hq] at hrq; exact ⟨rows', rfl, by simpa using hrq⟩
  obtain ⟨rows', hq, hr'⟩ := hsrc
  refine ⟨(h _ rows' hq r hr').1, ?_⟩
  intro j hj
  by_cases hjs : j = s
  · subst hjs; exact hidx.symm
  · have hjlt : j < s := by omega
    have := (h _ rows' hq r hr').2 j hjlt
    rw [digit_insert k S part s i j hk hs hik (by omega), if_neg hjs] at this
    exact this

theorem staged_inv_all (P : Nat × α → Prop) (k S nIn : Nat) (hk : 0 < k) (parts : List (List (Nat × α)))
    (hP : ∀ rows ∈ parts, ∀ r ∈ rows, P r) :
    ∀ s, s ≤ S → StageInv P k nIn s ((List.range s).foldl (fun ps s => stageStep k S s nIn ps) parts)
  | 0, _ => by
    intro q rows hq r hr
    exact ⟨hP rows (List.mem_of_getElem? hq) r hr, fun j hj => by omega⟩
  | s + 1, hs => by
    rw [List.range_succ, List.foldl_append]
    exact stageStep_inv P k S s nIn hk (by omega) _ (staged_inv_all P k S nIn hk parts hP s (by omega))

theorem digits_ext (k S a b : Nat) (h : ∀ j, j < S → digit a j k = digit b j k) : digits a S k = digits b S k := by
  apply List.ext_getElem?
  intro j
  rw [digits_getElem?, digits_getElem?]
  by_cases hj : j < S
  · simp [hj, h j hj]
  · simp [hj]

theorem fromDigits_lt (k : Nat) : ∀ (tup : List Nat), (∀ x ∈ tup, x < k) → fromDigits k tup < k ^ tup.length
  | [], _ => by simp [fromDigits]
  | d :: ds, h => by
    have hd : d < k := h d List.mem_cons_self
    have ih := fromDigits_lt k ds (fun x hx => h x (List.mem_cons_of_mem _ hx))
    rw [fromDigits, List.length_cons, Nat.pow_succ]
    have : k * fromDigits k ds + k ≤ k * k ^ ds.length := by
      have := Nat.mul_le_mul_left k (Nat.succ_le_of_lt ih)
      rw [Nat.mul_succ] at this
      exact this
    rw [Nat.mul_comm (k ^ ds.length) k]
    omega

/-- one stage loses no row: a row at position `q` re-appears at the position obtained from `q` by overwriting
    digit `s` with the stage digit of the row's target -/
theorem stageStep_complete (k S s nIn : Nat) (hk : 0 < k) (hs : s < S) (parts : List (List (Nat × α)))
    (q : Nat) (hq : q < k ^ S) (rows : List (Nat × α)) (hrows : parts[q]? = some rows) (r : Nat × α) (hr : r ∈ rows) :
    ∃ part rows', part < k ^ S ∧ (stageStep k S s nIn parts)[part]? = some rows' ∧ r ∈ rows' := by
  let d := digit (r.1 % nIn) s k
  have hd : d < k := digit_lt _ _ _ hk
  let tup := insert (digits q S k) s d
  have htlen : tup.length = S := by simp [tup, insert, digits_length]
  have htall : ∀ x ∈ tup, x < k := by
    intro x hx
    rcases List.mem_or_eq_of_mem_set hx with h | h
    · exact digits_lt q S k hk x h
    · omega
  let part := fromDigits k tup
  have hpart : part < k ^ S := by
    have := fromDigits_lt k tup htall
    rwa [htlen] at this
  have hdp : digits part S k = tup := by
    have := digits_fromDigits k hk tup htall
    rwa [htlen] at this
  refine ⟨part, (List.range k).flatMap fun i =>
      shuffleGroup k s nIn (parts.getD (fromDigits k (insert (digits part S k) s i)) []) ((digits part S k).getD s 0),
    hpart, ?_, ?_⟩
  · unfold stageStep
    rw [List.getElem?_map, List.getElem?_range hpart]
    rfl
  · rw [List.mem_flatMap]
    refine ⟨digit q s k, List.mem_range.mpr (digit_lt _ _ _ hk), ?_⟩
    -- the source position is `q`
    have hsrc : fromDigits k (insert (digits part S k) s (digit q s k)) = q := by
      rw [hdp]
      have : insert tup s (digit q s k) = digits q S k := by
        simp only [tup, insert, List.set_set]
        apply List.ext_getElem?
        intro j
        by_cases hj : j = s
        · subst hj
          rw [List.getElem?_set_self (by rw [digits_length]; exact hs), digits_getElem?, if_pos hs]
        · rw [List.getElem?_set_ne (by omega)]
      rw [this]
      exact fromDigits_digits k S q hq
    have hout : (digits part S k).getD s 0 = d := by
      rw [hdp, List.getD_eq_getElem?_getD]
      simp only [tup, insert]
      rw [List.getElem?_set_self (by rw [digits_length]; exact hs)]
      rfl
    rw [hsrc, hout]
    unfold shuffleGroup
    rw [List.mem_filter]
    refine ⟨?_, ?_⟩
    · rw [List.getD_eq_getElem?_getD, hrows]; exact hr
    · simp [stageIndex, d]

theorem staged_complete (k S nIn : Nat) (hk : 0 < k) (parts : List (List (Nat × α))) (r : Nat × α) :
    ∀ s, s ≤ S → (∃ q rows, q < k ^ S ∧ parts[q]? = some rows ∧ r ∈ rows) →
      ∃ q rows, q < k ^ S ∧ ((List.range s).foldl (fun ps s => stageStep k S s nIn ps) parts)[q]? = some rows ∧ r ∈ rows
  | 0, _, h => h
  | s + 1, hs, h => by
    obtain ⟨q, rows, hq, hrows, hr⟩ := staged_complete k S nIn hk parts r s (by omega) h
    rw [List.range_succ, List.foldl_append]
    obtain ⟨part, rows', hp, hrows', hr'⟩ := stageStep_complete k S s nIn hk (by omega) _ q hq rows hrows r hr
    exact ⟨part, rows', hp, hrows', hr'⟩

end Dask.Shuffle
