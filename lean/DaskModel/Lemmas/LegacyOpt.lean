import DaskModel.Model.LegacyOpt
import DaskModel.Lemmas.TaskTerm
/-! Lemmas for C09: restriction of the key set, invariants of `cull`. -/
namespace Dask.TaskTerm

/-! ### restricting the key set to a closed subset changes neither references nor values -/

theorem contains_iff_mem (l : List Obj) (o : Obj) : l.contains o = true ↔ o ∈ l := by
  simp [List.contains_eq_mem]

/-- on a non-task object looked up as a whole: the membership tests agree once its reference is kept -/
theorem inKeys_restrict (K V : List Obj) (hVK : ∀ k ∈ V, k ∈ K) (hKt : ∀ k ∈ K, k.keyTyped = true) (o : Obj)
    (h : o.hashable = true → o ∈ K → o ∈ V) :
    inKeys V o = inKeys K o ∧ (inKeys K o = true → o ∈ V) := by
  simp only [inKeys, List.contains_eq_mem, Bool.and_eq_true, decide_eq_true_eq]
  by_cases hh : o.hashable = true
  · by_cases hk : o ∈ K
    · have hv : o ∈ V := h hh hk
      simp [hh, hk, hv, hKt o hk]
    · have hv : o ∉ V := fun hc => hk (hVK o hc)
      simp [hk, hv]
  · have hh' : o.hashable = false := by simpa using hh
    simp [hh']

mutual
theorem evalObj_restrict (K V : List Obj) (env env' : Obj → Option Obj)
    (hVK : ∀ k ∈ V, k ∈ K) (hKt : ∀ k ∈ K, k.keyTyped = true) (henv : ∀ d ∈ V, env d = env' d) :
    ∀ o, (∀ d ∈ legacyRefs K o, d ∈ V) → evalObj V env o = evalObj K env' o
  | .tuple (h :: args), hr => by
    by_cases hc : h.callable = true
    · simp only [legacyRefs, hc, if_true] at hr
      simp only [evalObj, hc, if_true, evalObjs_restrict K V env env' hVK hKt henv args hr]
    · simp only [legacyRefs, hc, Bool.false_eq_true, if_false] at hr
      have := inKeys_restrict K V hVK hKt (.tuple (h :: args)) (by
        intro hh hk; apply hr; simp [hh, hk])
      simp only [evalObj, hc, Bool.false_eq_true, if_false, this.1]
      by_cases hi : inKeys K (.tuple (h :: args)) = true
      · simp [hi, henv _ (this.2 hi)]
      · simp [hi]
  | .tuple [], hr => by
    have := inKeys_restrict K V hVK hKt (.tuple []) (by
      intro _ hk; apply hr
      simp [legacyRefs, hk])
    simp only [evalObj, this.1]
    by_cases hi : inKeys K (.tuple []) = true
    · simp [hi, henv _ (this.2 hi)]
    · simp [hi]
  | .list xs, hr => by
    simp only [legacyRefs] at hr
    simp only [evalObj, evalObjs_restrict K V env env' hVK hKt henv xs hr]
  | .dict kvs, hr => by
    simp only [legacyRefs] at hr
    simp only [evalObj, evalVals_restrict K V env env' hVK hKt henv kvs hr]
  | .int n, hr => by
    have := inKeys_restrict K V hVK hKt (.int n) (by intro hh hk; apply hr; simp [legacyRefs, hh, hk])
    simp only [evalObj, this.1]
    by_cases hi : inKeys K (.int n) = true
    · simp [hi, henv _ (this.2 hi)]
    · simp [hi]
  | .str s, hr => by
    have := inKeys_restrict K V hVK hKt (.str s) (by intro hh hk; apply hr; simp [legacyRefs, hh, hk])
    simp only [evalObj, this.1]
    by_cases hi : inKeys K (.str s) = true
    · simp [hi, henv _ (this.2 hi)]
    · simp [hi]
  | .none, _ => by simp [evalObj]
  | .fn _, _ => by simp [evalObj]
  | .quoted _, _ => by simp [evalObj]
  | .app _ _ _, _ => by simp [evalObj]
theorem evalObjs_restrict (K V : List Obj) (env env' : Obj → Option Obj)
    (hVK : ∀ k ∈ V, k ∈ K) (hKt : ∀ k ∈ K, k.keyTyped = true) (henv : ∀ d ∈ V, env d = env' d) :
    ∀ xs, (∀ d ∈ legacyRefsList K xs, d ∈ V) → evalObjs V env xs = evalObjs K env' xs
  | [], _ => by simp [evalObjs]
  | x :: xs, hr => by
    simp only [legacyRefsList, List.mem_append] at hr
    simp only [evalObjs, evalObj_restrict K V env env' hVK hKt henv x (fun d hd => hr d (Or.inl hd)),
      evalObjs_restrict K V env env' hVK hKt henv xs (fun d hd => hr d (Or.inr hd))]
theorem evalVals_restrict (K V : List Obj) (env env' : Obj → Option Obj)
    (hVK : ∀ k ∈ V, k ∈ K) (hKt : ∀ k ∈ K, k.keyTyped = true) (henv : ∀ d ∈ V, env d = env' d) :
    ∀ kvs, (∀ d ∈ legacyRefsVals K kvs, d ∈ V) → evalVals V env kvs = evalVals K env' kvs
  | [], _ => by simp [evalVals]
  | (k, x) :: xs, hr => by
    simp only [legacyRefsVals, List.mem_append] at hr
    simp only [evalVals, evalObj_restrict K V env env' hVK hKt henv x (fun d hd => hr d (Or.inl hd)),
      evalVals_restrict K V env env' hVK hKt henv xs (fun d hd => hr d (Or.inr hd))]
end

/-- every reported legacy reference is one of the keys -/
theorem legacyRefs_leaf_mem (K : List Obj) (o d : Obj)
    (h : d ∈ (if (o.hashable && K.contains o) = true then [o] else [])) : d ∈ K := by
  split at h
  · rename_i hc
    simp only [List.mem_singleton] at h; subst h
    simp only [Bool.and_eq_true] at hc
    exact (contains_iff_mem K d).1 hc.2
  · simp at h

mutual
theorem legacyRefs_mem (K : List Obj) : ∀ o d, d ∈ legacyRefs K o → d ∈ K
  | .tuple (h :: args), d, hd => by
    by_cases hc : h.callable = true
    · simp only [legacyRefs, hc, if_true] at hd
      exact legacyRefsList_mem K args d hd
    · simp only [legacyRefs, hc, Bool.false_eq_true, if_false] at hd
      exact legacyRefs_leaf_mem K _ d hd
  | .tuple [], d, hd => by
    simp only [legacyRefs] at hd
    split at hd
    · rename_i hc
      simp only [List.mem_singleton] at hd; subst hd
      exact (contains_iff_mem K _).1 hc
    · simp at hd
  | .list xs, d, hd => by
    simp only [legacyRefs] at hd
    exact legacyRefsList_mem K xs d hd
  | .dict kvs, d, hd => by
    simp only [legacyRefs] at hd
    exact legacyRefsVals_mem K kvs d hd
  | .int n, d, hd => by simp only [legacyRefs] at hd; exact legacyRefs_leaf_mem K _ d hd
  | .str s, d, hd => by simp only [legacyRefs] at hd; exact legacyRefs_leaf_mem K _ d hd
  | .none, d, hd => by simp only [legacyRefs] at hd; exact legacyRefs_leaf_mem K _ d hd
  | .fn _, d, hd => by simp only [legacyRefs] at hd; exact legacyRefs_leaf_mem K _ d hd
  | .quoted _, d, hd => by simp only [legacyRefs] at hd; exact legacyRefs_leaf_mem K _ d hd
  | .app _ _ _, d, hd => by simp only [legacyRefs] at hd; exact legacyRefs_leaf_mem K _ d hd
theorem legacyRefsList_mem (K : List Obj) : ∀ xs d, d ∈ legacyRefsList K xs → d ∈ K
  | [], d, hd => by simp [legacyRefsList] at hd
  | x :: xs, d, hd => by
    simp only [legacyRefsList, List.mem_append] at hd
    rcases hd with hd | hd
    · exact legacyRefs_mem K x d hd
    · exact legacyRefsList_mem K xs d hd
theorem legacyRefsVals_mem (K : List Obj) : ∀ kvs d, d ∈ legacyRefsVals K kvs → d ∈ K
  | [], d, hd => by simp [legacyRefsVals] at hd
  | (_, x) :: xs, d, hd => by
    simp only [legacyRefsVals, List.mem_append] at hd
    rcases hd with hd | hd
    · exact legacyRefs_mem K x d hd
    · exact legacyRefsVals_mem K xs d hd
end

end Dask.TaskTerm

namespace Dask.TaskTerm

/-! ### invariants of `cull` -/

theorem addNew_spec : ∀ (seen nw ds : List Obj),
    (∀ d ∈ seen, d ∈ (addNew seen nw ds).1) ∧ (∀ d ∈ nw, d ∈ (addNew seen nw ds).2) ∧
    (∀ d ∈ ds, d ∈ (addNew seen nw ds).1) ∧
    (∀ d ∈ (addNew seen nw ds).1, d ∈ seen ∨ d ∈ (addNew seen nw ds).2)
  | seen, nw, [] => by
    simp only [addNew]
    exact ⟨fun _ h => h, fun _ h => h, by simp, fun _ h => Or.inl h⟩
  | seen, nw, d :: ds => by
    unfold addNew
    split
    · rename_i hc
      have hm : d ∈ seen := (contains_iff_mem seen d).1 hc
      obtain ⟨h1, h2, h3, h4⟩ := addNew_spec seen nw ds
      refine ⟨h1, h2, ?_, h4⟩
      intro x hx
      rcases List.mem_cons.mp hx with rfl | hx
      · exact h1 _ hm
      · exact h3 x hx
    · obtain ⟨h1, h2, h3, h4⟩ := addNew_spec (d :: seen) (nw ++ [d]) ds
      refine ⟨fun x hx => h1 x (List.mem_cons_of_mem _ hx), fun x hx => h2 x (by simp [hx]), ?_, ?_⟩
      · intro x hx
        rcases List.mem_cons.mp hx with rfl | hx
        · exact h1 _ (by simp)
        · exact h3 x hx
      · intro x hx
        rcases h4 x hx with h | h
        · rcases List.mem_cons.mp h with rfl | h
          · exact Or.inr (h2 _ (by simp))
          · exact Or.inl h
        · exact Or.inr h

structure CullInv (g : LGraph) (K req pending seen visited : List Obj) : Prop where
  vis : ∀ k ∈ visited, ∃ t, g.lookup k = some t ∧ ∀ d ∈ legacyRefs K t, d ∈ seen
  seenP : ∀ d ∈ seen, d ∈ visited ∨ d ∈ pending
  reqP : ∀ k ∈ req, k ∈ visited ∨ k ∈ pending

theorem cullRound_inv (g : LGraph) (K req : List Obj) : ∀ (ws seen visited nw : List Obj) {s' v' nw' : List Obj},
    cullRound g K ws seen visited nw = some (s', v', nw') → CullInv g K req (ws ++ nw) seen visited →
    CullInv g K req nw' s' v'
  | [], seen, visited, nw, s', v', nw', h, hi => by
    simp only [cullRound, Option.some.injEq, Prod.mk.injEq] at h
    obtain ⟨rfl, rfl, rfl⟩ := h
    simpa using hi
  | k :: ws, seen, visited, nw, s', v', nw', h, hi => by
    unfold cullRound at h
    split at h
    · cases h
    · rename_i t ht
      simp only at h
      refine cullRound_inv g K req ws _ _ _ h ?_
      obtain ⟨h1, h2, h3, h4⟩ := addNew_spec seen nw (legacyRefs K t)
      have hvis1 : ∀ x, x ∈ (if visited.contains k = true then visited else visited ++ [k]) ↔ (x ∈ visited ∨ x = k) := by
        intro x
        split
        · rename_i hc
          have := (contains_iff_mem visited k).1 hc
          constructor
          · exact fun hx => Or.inl hx
          · rintro (hx | rfl)
            · exact hx
            · exact this
        · simp
      refine ⟨?_, ?_, ?_⟩
      · intro x hx
        rcases (hvis1 x).1 hx with hx | rfl
        · obtain ⟨t', ht', hd⟩ := hi.vis x hx
          exact ⟨t', ht', fun d hd' => h1 d (hd d hd')⟩
        · exact ⟨t, ht, fun d hd' => h3 d hd'⟩
      · intro d hd
        rcases h4 d hd with hd | hd
        · rcases hi.seenP d hd with hv | hp
          · exact Or.inl ((hvis1 d).2 (Or.inl hv))
          · simp only [List.cons_append, List.mem_cons, List.mem_append] at hp
            rcases hp with rfl | hp | hp
            · exact Or.inl ((hvis1 _).2 (Or.inr rfl))
            · exact Or.inr (by simp [hp])
            · exact Or.inr (by simp [h2 d hp])
        · exact Or.inr (by simp [hd])
      · intro x hx
        rcases hi.reqP x hx with hv | hp
        · exact Or.inl ((hvis1 x).2 (Or.inl hv))
        · simp only [List.cons_append, List.mem_cons, List.mem_append] at hp
          rcases hp with rfl | hp | hp
          · exact Or.inl ((hvis1 _).2 (Or.inr rfl))
          · exact Or.inr (by simp [hp])
          · exact Or.inr (by simp [h2 x hp])

theorem cullLoop_inv (g : LGraph) (K req : List Obj) : ∀ (fuel : Nat) (work seen visited : List Obj) {V : List Obj},
    cullLoop g K fuel work seen visited = some V → CullInv g K req work seen visited →
    ∃ seen', CullInv g K req [] seen' V
  | 0, _, _, _, _, h, _ => by simp [cullLoop] at h
  | fuel + 1, work, seen, visited, V, h, hi => by
    unfold cullLoop at h
    split at h
    · rename_i he
      cases h
      have : work = [] := by simpa [List.isEmpty_iff] using he
      subst this
      exact ⟨seen, hi⟩
    · split at h
      · cases h
      · rename_i s' v' nw hr
        exact cullLoop_inv g K req fuel nw s' v' h (cullRound_inv g K req work seen visited [] hr (by simpa using hi))

theorem mem_dedup : ∀ (xs : List Obj) (x : Obj), x ∈ xs → x ∈ dedup xs
  | [], _, h => by simp at h
  | y :: ys, x, h => by
    unfold dedup
    split
    · rename_i hc
      rcases List.mem_cons.mp h with rfl | h
      · exact mem_dedup ys _ ((contains_iff_mem ys _).1 hc)
      · exact mem_dedup ys x h
    · rcases List.mem_cons.mp h with rfl | h
      · simp
      · exact List.mem_cons_of_mem _ (mem_dedup ys x h)

/-- what the visited list of a finished `cull` satisfies: it holds the requested keys, every member is a graph key,
    and it is closed under legacy references -/
theorem cullLoop_closed (g : LGraph) (keys : List Obj) {V : List Obj}
    (h : cullLoop g (g.map Prod.fst) (g.length + 2) (dedup keys) [] [] = some V) :
    (∀ k ∈ keys, k ∈ V) ∧
    (∀ k ∈ V, ∃ t, g.lookup k = some t ∧ ∀ d ∈ legacyRefs (g.map Prod.fst) t, d ∈ V) := by
  obtain ⟨seen', hi⟩ := cullLoop_inv g (g.map Prod.fst) keys _ _ _ _ h
    ⟨by simp, by simp, fun k hk => Or.inr (mem_dedup keys k hk)⟩
  refine ⟨fun k hk => ?_, fun k hk => ?_⟩
  · rcases hi.reqP k hk with h | h
    · exact h
    · simp at h
  · obtain ⟨t, ht, hd⟩ := hi.vis k hk
    refine ⟨t, ht, fun d hd' => ?_⟩
    rcases hi.seenP d (hd d hd') with h | h
    · exact h
    · simp at h

/-! ### the restricted graph -/

theorem lookup_restrict (g : LGraph) : ∀ (V : List Obj) (k : Obj), (∀ x ∈ V, (g.lookup x).isSome) →
    (restrict g V).lookup k = if k ∈ V then g.lookup k else none
  | [], k, _ => by simp [restrict]
  | x :: V, k, h => by
    have hx := h x (by simp)
    have ih := lookup_restrict g V k (fun y hy => h y (List.mem_cons_of_mem _ hy))
    obtain ⟨t, ht⟩ := Option.isSome_iff_exists.1 hx
    unfold restrict at ih ⊢
    simp only [List.filterMap_cons, ht, Option.map_some, List.lookup]
    by_cases hk : (k == x) = true
    · have : k = x := eq_of_beq hk
      subst this
      simp [ht]
    · have hk' : (k == x) = false := by simpa using hk
      have hne : k ≠ x := by intro hc; subst hc; simp at hk'
      simp only [hk', ih, List.mem_cons, hne, false_or]

theorem keys_restrict (g : LGraph) : ∀ (V : List Obj), (∀ x ∈ V, (g.lookup x).isSome) →
    (restrict g V).map Prod.fst = V
  | [], _ => by simp [restrict]
  | x :: V, h => by
    have hx := h x (by simp)
    obtain ⟨t, ht⟩ := Option.isSome_iff_exists.1 hx
    have ih := keys_restrict g V (fun y hy => h y (List.mem_cons_of_mem _ hy))
    unfold restrict at ih ⊢
    simp [ht, ih]

theorem lookup_isSome_mem_keys {α : Type} (g : List (Obj × α)) (k : Obj) (h : (g.lookup k).isSome) :
    k ∈ g.map Prod.fst := by
  induction g with
  | nil => simp at h
  | cons kv rest ih =>
    obtain ⟨k', v'⟩ := kv
    simp only [List.lookup] at h
    split at h
    · rename_i heq
      have : k = k' := eq_of_beq heq
      subst this; simp
    · exact List.mem_cons_of_mem _ (ih h)

end Dask.TaskTerm

namespace Dask.TaskTerm

theorem refLeaf_restrict (K V : List Obj) (hVK : ∀ k ∈ V, k ∈ K) (o : Obj)
    (h : o.hashable = true → o ∈ K → o ∈ V) :
    (if (o.hashable && V.contains o) = true then [o] else []) =
    (if (o.hashable && K.contains o) = true then [o] else []) := by
  simp only [List.contains_eq_mem, Bool.and_eq_true, decide_eq_true_eq]
  by_cases hh : o.hashable = true
  · by_cases hk : o ∈ K
    · simp [hh, hk, h hh hk]
    · have hv : o ∉ V := fun hc => hk (hVK o hc)
      simp [hk, hv]
  · simp [hh]

mutual
/-- `get_dependencies` w.r.t. a closed subset of the keys reports the same references -/
theorem legacyRefs_restrict (K V : List Obj) (hVK : ∀ k ∈ V, k ∈ K) :
    ∀ o, (∀ d ∈ legacyRefs K o, d ∈ V) → legacyRefs V o = legacyRefs K o
  | .tuple (h :: args), hr => by
    by_cases hc : h.callable = true
    · simp only [legacyRefs, hc, if_true] at hr ⊢
      exact legacyRefsList_restrict K V hVK args hr
    · simp only [legacyRefs, hc, Bool.false_eq_true, if_false] at hr ⊢
      exact refLeaf_restrict K V hVK _ (by intro hh hk; apply hr; simp [hh, hk])
  | .tuple [], hr => by
    simp only [legacyRefs] at hr ⊢
    simp only [List.contains_eq_mem, decide_eq_true_eq] at hr ⊢
    by_cases hk : Obj.tuple [] ∈ K
    · have : Obj.tuple [] ∈ V := hr _ (by simp [hk])
      simp [hk, this]
    · have hv : Obj.tuple [] ∉ V := fun hc => hk (hVK _ hc)
      simp [hk, hv]
  | .list xs, hr => by
    simp only [legacyRefs] at hr ⊢
    exact legacyRefsList_restrict K V hVK xs hr
  | .dict kvs, hr => by
    simp only [legacyRefs] at hr ⊢
    exact legacyRefsVals_restrict K V hVK kvs hr
  | .int n, hr => by
    simp only [legacyRefs] at hr ⊢
    exact refLeaf_restrict K V hVK _ (by intro hh hk; apply hr; simp [hh, hk])
  | .str s, hr => by
    simp only [legacyRefs] at hr ⊢
    exact refLeaf_restrict K V hVK _ (by intro hh hk; apply hr; simp [hh, hk])
  | .none, hr => by
    simp only [legacyRefs] at hr ⊢
    exact refLeaf_restrict K V hVK _ (by intro hh hk; apply hr; simp [hh, hk])
  | .fn _, hr => by
    simp only [legacyRefs] at hr ⊢
    exact refLeaf_restrict K V hVK _ (by intro hh hk; apply hr; simp [hh, hk])
  | .quoted _, hr => by
    simp only [legacyRefs] at hr ⊢
    exact refLeaf_restrict K V hVK _ (by intro hh hk; apply hr; simp [hh, hk])
  | .app _ _ _, hr => by
    simp only [legacyRefs] at hr ⊢
    exact refLeaf_restrict K V hVK _ (by intro hh hk; apply hr; simp [hh, hk])
theorem legacyRefsList_restrict (K V : List Obj) (hVK : ∀ k ∈ V, k ∈ K) :
    ∀ xs, (∀ d ∈ legacyRefsList K xs, d ∈ V) → legacyRefsList V xs = legacyRefsList K xs
  | [], _ => by simp [legacyRefsList]
  | x :: xs, hr => by
    simp only [legacyRefsList, List.mem_append] at hr ⊢
    rw [legacyRefs_restrict K V hVK x (fun d hd => hr d (Or.inl hd)),
      legacyRefsList_restrict K V hVK xs (fun d hd => hr d (Or.inr hd))]
theorem legacyRefsVals_restrict (K V : List Obj) (hVK : ∀ k ∈ V, k ∈ K) :
    ∀ kvs, (∀ d ∈ legacyRefsVals K kvs, d ∈ V) → legacyRefsVals V kvs = legacyRefsVals K kvs
  | [], _ => by simp [legacyRefsVals]
  | (_, x) :: xs, hr => by
    simp only [legacyRefsVals, List.mem_append] at hr ⊢
    rw [legacyRefs_restrict K V hVK x (fun d hd => hr d (Or.inl hd)),
      legacyRefsVals_restrict K V hVK xs (fun d hd => hr d (Or.inr hd))]
end

end Dask.TaskTerm
