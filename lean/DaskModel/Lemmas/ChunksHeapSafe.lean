import DaskModel.Lemmas.ChunksPlanLemmas
/-! C23: the heap loop of `merge_to_number` never raises (no `heappop` from an empty heap, no index past the end,
no `None + int`) as long as at least one chunk is to remain.  Invariant `HInv`: every heap entry `(w, i, j)` has a
live `i` that is not the last live chunk, everything strictly between `i` and `j` is merged away, left indices are
pairwise distinct, and every live chunk that has a live chunk to its right owns an entry. -/
namespace Dask.Chunks

def Live (ch : List (Option Nat)) (i : Nat) : Prop := ∃ c, ch[i]? = some (some c)
def Dead (ch : List (Option Nat)) (i : Nat) : Prop := ch[i]? = some none

structure EInv (ch : List (Option Nat)) (e : HEnt) : Prop where
  lt : e.i < e.j
  li : Live ch e.i
  inr : e.j < ch.length
  dead : ∀ k, e.i < k → k < e.j → Dead ch k
  more : ∃ k, e.i < k ∧ Live ch k

structure HInv (heap : List HEnt) (ch : List (Option Nat)) : Prop where
  ent : ∀ e ∈ heap, EInv ch e
  nodup : (heap.map (·.i)).Nodup
  cover : ∀ i k, Live ch i → i < k → Live ch k → ∃ e ∈ heap, e.i = i

theorem popMin_none : ∀ {h : List HEnt}, popMin h = none → h = []
  | [], _ => rfl
  | a :: es, hp => by
    unfold popMin at hp
    cases hq : popMin es with
    | none => simp [hq] at hp
    | some p =>
      obtain ⟨m, r⟩ := p
      simp only [hq] at hp
      split at hp <;> cases hp

theorem popMin_perm : ∀ {h : List HEnt} {e : HEnt} {rest : List HEnt}, popMin h = some (e, rest) → (e :: rest).Perm h
  | [], _, _, hp => by simp [popMin] at hp
  | a :: es, e, rest, hp => by
    unfold popMin at hp
    cases hq : popMin es with
    | none =>
      simp [hq] at hp
      obtain ⟨rfl, rfl⟩ := hp
      rw [popMin_none hq]
    | some p =>
      obtain ⟨m, r⟩ := p
      have ih := popMin_perm hq
      simp only [hq] at hp
      split at hp
      · simp at hp
        obtain ⟨rfl, rfl⟩ := hp
        exact List.Perm.cons _ ih
      · simp at hp
        obtain ⟨rfl, rfl⟩ := hp
        exact (List.Perm.swap a m r).trans (List.Perm.cons _ ih)

/-! ### `while chunks[j] is None: j += 1` -/

theorem firstLive_spec : ∀ {l : List (Option Nat)} {k : Nat}, firstLive l = some k →
    (∃ c, l[k]? = some (some c)) ∧ ∀ t, t < k → l[t]? = some none
  | [], _, h => by simp [firstLive] at h
  | x :: xs, k, h => by
    rw [firstLive] at h
    split at h
    · rename_i hx
      injection h with h; subst h
      obtain ⟨c, rfl⟩ := Option.isSome_iff_exists.1 hx
      exact ⟨⟨c, rfl⟩, fun t ht => by omega⟩
    · rename_i hx
      cases hf : firstLive xs with
      | none => simp [hf] at h
      | some k' =>
        simp [hf] at h; subst h
        obtain ⟨a1, a2⟩ := firstLive_spec hf
        refine ⟨by simpa using a1, ?_⟩
        intro t ht
        cases t with
        | zero =>
          cases x with
          | none => rfl
          | some v => simp at hx
        | succ t => simpa using a2 t (by omega)

theorem firstLive_some : ∀ {l : List (Option Nat)} {t : Nat} {c : Nat}, l[t]? = some (some c) → ∃ k, firstLive l = some k
  | [], _, _, h => by simp at h
  | x :: xs, t, c, h => by
    rw [firstLive]
    split
    · exact ⟨0, rfl⟩
    · rename_i hx
      cases t with
      | zero => simp at h; subst h; simp at hx
      | succ t =>
        obtain ⟨k, hk⟩ := firstLive_some (l := xs) (t := t) (c := c) (by simpa using h)
        exact ⟨k + 1, by simp [hk]⟩

theorem nextLive_spec {ch : List (Option Nat)} {s j' : Nat} (h : nextLive ch s = some j') :
    s ≤ j' ∧ Live ch j' ∧ ∀ t, s ≤ t → t < j' → Dead ch t := by
  unfold nextLive at h
  cases hf : firstLive (ch.drop s) with
  | none => simp [hf] at h
  | some k =>
    simp [hf] at h; subst h
    obtain ⟨⟨c, a1⟩, a2⟩ := firstLive_spec hf
    refine ⟨by omega, ⟨c, ?_⟩, ?_⟩
    · rw [List.getElem?_drop] at a1; rw [Nat.add_comm]; exact a1
    · intro t h1 h2
      have := a2 (t - s) (by omega)
      rw [List.getElem?_drop] at this
      unfold Dead
      rw [show t = s + (t - s) by omega]; exact this

theorem nextLive_some {ch : List (Option Nat)} {s k : Nat} (hk : s ≤ k) (hl : Live ch k) : ∃ j', nextLive ch s = some j' := by
  obtain ⟨c, hc⟩ := hl
  have : (ch.drop s)[k - s]? = some (some c) := by
    rw [List.getElem?_drop, show s + (k - s) = k by omega]; exact hc
  obtain ⟨k', hk'⟩ := firstLive_some this
  exact ⟨k' + s, by simp [nextLive, hk']⟩

/-! ### liveness under the two `set`s of a merge -/

theorem live_set_ne {ch : List (Option Nat)} {i t : Nat} {v : Option Nat} (h : i ≠ t) : Live (ch.set i v) t ↔ Live ch t := by
  unfold Live; rw [List.getElem?_set_ne h]

theorem dead_set_ne {ch : List (Option Nat)} {i t : Nat} {v : Option Nat} (h : i ≠ t) : Dead (ch.set i v) t ↔ Dead ch t := by
  unfold Dead; rw [List.getElem?_set_ne h]

theorem Live.lt {ch : List (Option Nat)} {i : Nat} (h : Live ch i) : i < ch.length := by
  obtain ⟨c, hc⟩ := h
  rcases Nat.lt_or_ge i ch.length with h | h
  · exact h
  · rw [List.getElem?_eq_none h] at hc; cases hc

/-- the chunks after merging `i` into `j` -/
def merged (ch : List (Option Nat)) (i j w : Nat) : List (Option Nat) := (ch.set i none).set j (some w)

theorem live_merged {ch : List (Option Nat)} {i j w t : Nat} (hij : i ≠ j) (hj : j < ch.length) :
    Live (merged ch i j w) t ↔ (t = j ∨ (t ≠ i ∧ Live ch t)) := by
  unfold merged
  by_cases htj : t = j
  · subst htj
    constructor
    · intro _; left; rfl
    · intro _
      exact ⟨w, by rw [List.getElem?_set_self (by simpa using hj)]⟩
  · rw [live_set_ne (Ne.symm htj)]
    by_cases hti : t = i
    · subst hti
      constructor
      · intro ⟨c, hc⟩
        rw [List.getElem?_set_self (by
          rcases Nat.lt_or_ge t ch.length with h | h
          · exact h
          · rw [List.getElem?_eq_none (by simpa using h)] at hc; cases hc)] at hc
        cases hc
      · rintro (h | ⟨h, _⟩)
        · exact absurd h htj
        · exact absurd rfl h
    · rw [live_set_ne (Ne.symm hti)]
      constructor
      · intro h; right; exact ⟨hti, h⟩
      · rintro (h | ⟨_, h⟩)
        · exact absurd h htj
        · exact h

theorem dead_merged_of_dead {ch : List (Option Nat)} {i j w t : Nat} (htj : t ≠ j) (h : Dead ch t) : Dead (merged ch i j w) t := by
  unfold merged
  rw [dead_set_ne (Ne.symm htj)]
  by_cases hti : t = i
  · subst hti
    unfold Dead at *
    rw [List.getElem?_set_self]
    rcases Nat.lt_or_ge t ch.length with h' | h'
    · exact h'
    · rw [List.getElem?_eq_none h'] at h; cases h
  · rw [dead_set_ne (Ne.symm hti)]; exact h

theorem not_live_of_dead {ch : List (Option Nat)} {t : Nat} (h : Dead ch t) : ¬ Live ch t := by
  rintro ⟨c, hc⟩; unfold Dead at h; rw [h] at hc; cases hc

/-! ### one iteration never raises, keeps the invariant and makes progress -/

/-- the entry describes the current chunks: both ends live, recorded width = their sum -/
def accurate (ch : List (Option Nat)) (e : HEnt) : Bool :=
  match ch[e.i]?, ch[e.j]? with
  | some (some ci), some (some cj) => ci + cj == e.w
  | _, _ => false

/-- number of entries that a pop would only re-insert -/
def stale (heap : List HEnt) (ch : List (Option Nat)) : Nat := heap.countP (fun e => !accurate ch e)

/-- a merge shrinks the heap; a re-insertion leaves the chunks alone and turns a stale entry into an accurate one -/
def Prog (heap : List HEnt) (ch : List (Option Nat)) (b : Bool) (heap' : List HEnt) (ch' : List (Option Nat)) : Prop :=
  (b = true → heap'.length + 1 = heap.length) ∧
  (b = false → ch' = ch ∧ heap'.length = heap.length ∧ stale heap' ch + 1 ≤ stale heap ch)

theorem mergeStep_safe {heap : List HEnt} {ch : List (Option Nat)} (inv : HInv heap ch) (hne : heap ≠ []) :
    ∃ b heap' ch', mergeStep heap ch = some (b, heap', ch') ∧ HInv heap' ch' ∧ Prog heap ch b heap' ch' := by
  unfold mergeStep
  cases hp : popMin heap with
  | none => exact absurd (popMin_none hp) hne
  | some p =>
    obtain ⟨e, rest⟩ := p
    have perm := popMin_perm hp
    have hmem : e ∈ heap := (perm.mem_iff).1 (by simp)
    have hrest : ∀ x ∈ rest, x ∈ heap := fun x hx => (perm.mem_iff).1 (List.mem_cons_of_mem _ hx)
    have hnd : ((e :: rest).map (·.i)).Nodup := ((perm.map (·.i)).nodup_iff).2 inv.nodup
    rw [List.map_cons, List.nodup_cons] at hnd
    have hei : ∀ x ∈ rest, x.i ≠ e.i := by
      intro x hx hxe
      exact hnd.1 (List.mem_map.2 ⟨x, hx, hxe⟩)
    have E := inv.ent e hmem
    obtain ⟨ci, hci⟩ := E.li
    -- an entry of the old heap is `e` or in `rest`
    have hsplit : ∀ x ∈ heap, x = e ∨ x ∈ rest := by
      intro x hx
      have := (perm.mem_iff).2 hx
      simpa using this
    have hlen : rest.length + 1 = heap.length := by simpa using perm.length_eq
    -- re-inserting an accurate entry for a stale one
    have hprog : ∀ nw : HEnt, accurate ch e = false → accurate ch nw = true → Prog heap ch false (nw :: rest) ch := by
      intro nw h1 h2
      refine ⟨by simp, fun _ => ⟨rfl, by simpa using hlen, ?_⟩⟩
      have hs : stale heap ch = stale (e :: rest) ch := (perm.countP_eq _).symm
      rw [hs]
      simp [stale, h1, h2]
    simp only
    cases hcj : ch[e.j]? with
    | none =>
      rw [List.getElem?_eq_none_iff] at hcj
      have := E.inr; omega
    | some oj =>
      cases oj with
      | none =>
        -- stale right end: the next live chunk exists because `e.i` is not the last live chunk
        obtain ⟨k, hk1, hk2⟩ := E.more
        have hkj : e.j + 1 ≤ k := by
          rcases Nat.lt_or_ge k e.j with h | h
          · exact absurd hk2 (not_live_of_dead (E.dead k hk1 h))
          · rcases Nat.eq_or_lt_of_le h with h | h
            · subst h; exact absurd hk2 (not_live_of_dead hcj)
            · omega
        obtain ⟨j', hj'⟩ := nextLive_some hkj hk2
        obtain ⟨n1, ⟨cj', n2⟩, n3⟩ := nextLive_spec hj'
        simp only [hj', hci, n2]
        have hlt := E.lt
        refine ⟨false, _, ch, rfl, ⟨?_, ?_, ?_⟩, hprog _ (by simp [accurate, hci, hcj]) (by simp [accurate, hci, n2])⟩
        · intro x hx
          rcases List.mem_cons.1 hx with hx | hx
          · subst hx
            refine ⟨by simp; omega, ⟨ci, hci⟩, (Live.lt ⟨cj', n2⟩), ?_, ⟨j', by simp; omega, ⟨cj', n2⟩⟩⟩
            intro t h1 h2
            simp at h1 h2
            rcases Nat.lt_or_ge t e.j with h | h
            · exact E.dead t h1 h
            · rcases Nat.eq_or_lt_of_le h with h | h
              · subst h; exact hcj
              · exact n3 t (by omega) h2
          · exact inv.ent x (hrest x hx)
        · simp only [List.map_cons]
          rw [List.nodup_cons]
          exact hnd
        · intro i k' hi hik hk'
          obtain ⟨x, hx, hxi⟩ := inv.cover i k' hi hik hk'
          rcases hsplit x hx with h | h
          · subst h; exact ⟨_, List.mem_cons_self, hxi⟩
          · exact ⟨x, List.mem_cons_of_mem _ h, hxi⟩
      | some cj =>
        simp only [hci]
        split
        · -- stale width: re-push with the same indices
          rename_i hwne
          refine ⟨false, _, ch, rfl, ⟨?_, ?_, ?_⟩, hprog _ (by simp [accurate, hci, hcj]; exact hwne) (by simp [accurate, hci, hcj])⟩
          · intro x hx
            rcases List.mem_cons.1 hx with hx | hx
            · subst hx; exact ⟨E.lt, E.li, E.inr, E.dead, E.more⟩
            · exact inv.ent x (hrest x hx)
          · simp only [List.map_cons]
            rw [List.nodup_cons]
            exact hnd
          · intro i k' hi hik hk'
            obtain ⟨x, hx, hxi⟩ := inv.cover i k' hi hik hk'
            rcases hsplit x hx with h | h
            · subst h; exact ⟨_, List.mem_cons_self, hxi⟩
            · exact ⟨x, List.mem_cons_of_mem _ h, hxi⟩
        · -- merge `e.i` into `e.j`
          have hij : e.i ≠ e.j := by have := E.lt; omega
          have hjl : Live ch e.j := ⟨cj, hcj⟩
          refine ⟨true, rest, merged ch e.i e.j e.w, rfl, ⟨?_, hnd.2, ?_⟩, ⟨fun _ => hlen, by simp⟩⟩
          · intro x hx
            have X := inv.ent x (hrest x hx)
            have hxi := hei x hx
            refine ⟨X.lt, ?_, by simpa [merged] using X.inr, ?_, ?_⟩
            · rw [live_merged hij E.inr]
              right; exact ⟨hxi, X.li⟩
            · intro t h1 h2
              have hd := X.dead t h1 h2
              refine dead_merged_of_dead ?_ hd
              intro htj; subst htj
              exact not_live_of_dead hd hjl
            · obtain ⟨k, hk1, hk2⟩ := X.more
              by_cases hke : k = e.i
              · subst hke
                exact ⟨e.j, by have := E.lt; omega, (live_merged hij E.inr).2 (Or.inl rfl)⟩
              · exact ⟨k, hk1, (live_merged hij E.inr).2 (Or.inr ⟨hke, hk2⟩)⟩
          · intro i k' hi hik hk'
            rw [live_merged hij E.inr] at hi hk'
            have hi' : i ≠ e.i ∧ Live ch i := by
              rcases hi with h | h
              · subst h; exact ⟨Ne.symm hij, hjl⟩
              · exact h
            have hk'' : Live ch k' := by
              rcases hk' with h | h
              · subst h; exact hjl
              · exact h.2
            obtain ⟨x, hx, hxi⟩ := inv.cover i k' hi'.2 hik hk''
            rcases hsplit x hx with h | h
            · subst h; exact absurd hxi (Ne.symm hi'.1)
            · exact ⟨x, h, hxi⟩

/-! ### the loop -/

theorem two_live : ∀ (ch : List (Option Nat)), 2 ≤ live ch → ∃ i k, i < k ∧ Live ch i ∧ Live ch k
  | [], h => by simp [live] at h
  | none :: xs, h => by
    obtain ⟨i, k, h1, h2, h3⟩ := two_live xs (by simpa [live] using h)
    exact ⟨i + 1, k + 1, by omega, by simpa [Live] using h2, by simpa [Live] using h3⟩
  | some c :: xs, h => by
    have h1 : 1 ≤ live xs := by simp [live] at h; omega
    -- some live chunk further right
    have : ∀ (l : List (Option Nat)), 1 ≤ live l → ∃ k, Live l k := by
      intro l
      induction l with
      | nil => intro h; simp [live] at h
      | cons y ys ih =>
        intro h
        cases y with
        | none =>
          obtain ⟨k, hk⟩ := ih (by simpa [live] using h)
          exact ⟨k + 1, by simpa [Live] using hk⟩
        | some v => exact ⟨0, v, rfl⟩
    obtain ⟨k, hk⟩ := this xs h1
    exact ⟨0, k + 1, by omega, ⟨c, rfl⟩, by simpa [Live] using hk⟩

/-- **the merge loop never raises** while at least one chunk is to remain -/
theorem mergeLoop_safe : ∀ (fuel nm : Nat) (heap : List HEnt) (ch : List (Option Nat)), HInv heap ch → nm + 1 ≤ live ch →
    mergeLoop fuel nm heap ch ≠ .error .raised
  | _, 0, _, _, _, _ => by
    intro h; cases ‹Nat› <;> simp [mergeLoop] at h
  | 0, _ + 1, _, _, _, _ => by simp [mergeLoop]
  | fuel + 1, nm + 1, heap, ch, inv, hl => by
    obtain ⟨i, k, hik, hi, hk⟩ := two_live ch (by omega)
    obtain ⟨e, he, _⟩ := inv.cover i k hi hik hk
    have hne : heap ≠ [] := by intro h; subst h; simp at he
    obtain ⟨b, heap', ch', hs, inv', _⟩ := mergeStep_safe inv hne
    obtain ⟨_, _, i3, _⟩ := mergeStep_spec hs (fun x hx => (inv.ent x hx).lt)
    rw [mergeLoop, hs]
    cases b with
    | true =>
      simp only
      simp at i3
      exact mergeLoop_safe fuel nm heap' ch' inv' (by omega)
    | false =>
      simp only
      simp at i3
      exact mergeLoop_safe fuel (nm + 1) heap' ch' inv' (by omega)

/-- **the fuel suffices**: with `H` bounding the heap size, `nm * (H + 1) + stale` steps are enough - a re-insertion
    lowers the number of stale entries, a merge lowers `nm` and leaves at most `H` stale entries -/
theorem mergeLoop_total (H : Nat) : ∀ (fuel nm : Nat) (heap : List HEnt) (ch : List (Option Nat)), HInv heap ch →
    nm + 1 ≤ live ch → heap.length ≤ H → nm * (H + 1) + stale heap ch ≤ fuel → ∃ r, mergeLoop fuel nm heap ch = .ok r
  | fuel, 0, heap, ch, _, _, _, _ => ⟨ch, by cases fuel <;> simp [mergeLoop]⟩
  | 0, nm + 1, _, _, _, _, _, hf => by
    rw [Nat.succ_mul] at hf; omega
  | fuel + 1, nm + 1, heap, ch, inv, hl, hH, hf => by
    obtain ⟨i, k, hik, hi, hk⟩ := two_live ch (by omega)
    obtain ⟨e, he, _⟩ := inv.cover i k hi hik hk
    have hne : heap ≠ [] := by intro h; subst h; simp at he
    obtain ⟨b, heap', ch', hs, inv', pg⟩ := mergeStep_safe inv hne
    obtain ⟨_, _, i3, _⟩ := mergeStep_spec hs (fun x hx => (inv.ent x hx).lt)
    rw [mergeLoop, hs]
    cases b with
    | true =>
      simp only
      simp at i3
      have hl' := pg.1 rfl
      have hst : stale heap' ch' ≤ H := Nat.le_trans List.countP_le_length (by omega)
      refine mergeLoop_total H fuel nm heap' ch' inv' (by omega) (by omega) ?_
      rw [Nat.succ_mul] at hf
      omega
    | false =>
      simp only
      simp at i3
      obtain ⟨rfl, hl', hst⟩ := pg.2 rfl
      exact mergeLoop_total H fuel (nm + 1) heap' ch' inv' (by omega) (by omega) (by omega)

/-! ### the initial heap -/

theorem live_map_some_iff (cs : List Nat) (i : Nat) : Live (cs.map some) i ↔ i < cs.length := by
  unfold Live
  constructor
  · rintro ⟨c, hc⟩
    rcases Nat.lt_or_ge i cs.length with h | h
    · exact h
    · rw [List.getElem?_eq_none (by simpa using h)] at hc; cases hc
  · intro h
    exact ⟨cs[i], by simp [h]⟩

theorem heapInit_mem : ∀ (s : Nat) (cs : List Nat) (e : HEnt), e ∈ heapInit s cs → s ≤ e.i ∧ e.j = e.i + 1 ∧ e.i + 1 < s + cs.length
  | _, [], e, h => by simp [heapInit] at h
  | _, [_], e, h => by simp [heapInit] at h
  | s, a :: b :: rest, e, h => by
    simp only [heapInit, List.mem_cons] at h
    rcases h with h | h
    · subst h; simp
    · obtain ⟨a1, a2, a3⟩ := heapInit_mem (s + 1) (b :: rest) e h
      simp at a3 ⊢
      exact ⟨by omega, a2, by omega⟩

theorem heapInit_cover : ∀ (s : Nat) (cs : List Nat) (i : Nat), s ≤ i → i + 1 < s + cs.length → ∃ e ∈ heapInit s cs, e.i = i
  | _, [], i, h1, h2 => by simp at h2; omega
  | _, [_], i, h1, h2 => by simp at h2; omega
  | s, a :: b :: rest, i, h1, h2 => by
    rcases Nat.eq_or_lt_of_le h1 with h | h
    · subst h; exact ⟨⟨a + b, s, s + 1⟩, by simp [heapInit], rfl⟩
    · obtain ⟨e, he, hei⟩ := heapInit_cover (s + 1) (b :: rest) i (by omega) (by simp at h2 ⊢; omega)
      exact ⟨e, by simp [heapInit, he], hei⟩

theorem heapInit_nodup : ∀ (s : Nat) (cs : List Nat), ((heapInit s cs).map (·.i)).Nodup
  | _, [] => by simp [heapInit]
  | _, [_] => by simp [heapInit]
  | s, a :: b :: rest => by
    simp only [heapInit, List.map_cons, List.nodup_cons]
    refine ⟨?_, heapInit_nodup (s + 1) (b :: rest)⟩
    intro h
    obtain ⟨e, he, hei⟩ := List.mem_map.1 h
    have := (heapInit_mem (s + 1) (b :: rest) e he).1
    have hei' : e.i = s := hei
    omega

theorem heapInit_hinv (cs : List Nat) : HInv (heapInit 0 cs) (cs.map some) := by
  refine ⟨?_, heapInit_nodup 0 cs, ?_⟩
  · intro e he
    obtain ⟨_, a2, a3⟩ := heapInit_mem 0 cs e he
    refine ⟨by omega, (live_map_some_iff cs _).2 (by omega), by simp; omega, ?_, ⟨e.i + 1, by omega, (live_map_some_iff cs _).2 (by omega)⟩⟩
    intro k h1 h2; omega
  · intro i k hi hik hk
    rw [live_map_some_iff] at hk
    exact heapInit_cover 0 cs i (by omega) (by omega)

theorem heapInit_length : ∀ (s : Nat) (cs : List Nat), (heapInit s cs).length = cs.length - 1
  | _, [] => rfl
  | _, [_] => rfl
  | s, a :: b :: rest => by simp [heapInit, heapInit_length (s + 1) (b :: rest)]

/-- **`merge_to_number` returns** for `max_number >= 1` (any chunks): it neither raises nor does the modelled loop
    run out of its fuel `(n + 2)^2` -/
theorem mergeToNumberFull_total (cs : List Nat) {M : Nat} (hM : 1 ≤ M) : ∃ r, mergeToNumberFull cs M = .ok r := by
  unfold mergeToNumberFull
  split
  · exact ⟨cs, rfl⟩
  · rename_i hlt
    cases cs with
    | nil => exact ⟨[], rfl⟩
    | cons w rest =>
      simp only
      split
      · rename_i hall
        simp only [Bool.and_eq_true, bne_iff_ne, ne_eq] at hall
        unfold mergeHomogeneous
        rw [if_neg (by omega)]
        exact ⟨_, rfl⟩
      · unfold mergeHeap
        have hlen : (w :: rest).length = rest.length + 1 := rfl
        obtain ⟨r, hr⟩ := mergeLoop_total ((w :: rest).length - 1) (mergeFuel (w :: rest).length) ((w :: rest).length - M)
          (heapInit 0 (w :: rest)) ((w :: rest).map some) (heapInit_hinv _) (by rw [live_map_some]; simp at hlt ⊢; omega)
          (by rw [heapInit_length]; omega) (by
            have h0 : stale (heapInit 0 (w :: rest)) ((w :: rest).map some) ≤ (w :: rest).length - 1 := by
              have := @List.countP_le_length _ (fun e => !accurate ((w :: rest).map some) e) (heapInit 0 (w :: rest))
              rw [heapInit_length] at this; exact this
            unfold mergeFuel
            rw [hlen] at h0 ⊢
            have h1 : (rest.length + 1 - M) * (rest.length + 1 - 1 + 1) ≤ (rest.length + 1) * (rest.length + 1) :=
              Nat.mul_le_mul (by omega) (by omega)
            have h2 : (rest.length + 1 + 2) * (rest.length + 1 + 2) =
                (rest.length + 1) * (rest.length + 1) + 4 * (rest.length + 1) + 4 := by
              simp only [Nat.add_mul, Nat.mul_add]; omega
            omega)
        rw [hr]
        exact ⟨_, rfl⟩

/-- **`merge_to_number` never raises** for `max_number >= 1` (any chunks, zero-length ones included): the result
    is a value or - never observed - the model ran out of fuel -/
theorem mergeToNumberFull_safe (cs : List Nat) {M : Nat} (hM : 1 ≤ M) : mergeToNumberFull cs M ≠ .error .raised := by
  unfold mergeToNumberFull
  split
  · simp
  · rename_i hlt
    cases cs with
    | nil => simp
    | cons w rest =>
      simp only
      split
      · rename_i hall
        simp only [Bool.and_eq_true, bne_iff_ne, ne_eq] at hall
        unfold mergeHomogeneous
        rw [if_neg (by omega)]
        simp
      · unfold mergeHeap
        have := mergeLoop_safe (mergeFuel (w :: rest).length) ((w :: rest).length - M) (heapInit 0 (w :: rest))
          ((w :: rest).map some) (heapInit_hinv _) (by rw [live_map_some]; simp at hlt ⊢; omega)
        cases hl : mergeLoop (mergeFuel (w :: rest).length) ((w :: rest).length - M) (heapInit 0 (w :: rest)) ((w :: rest).map some) with
        | error e =>
          simp only
          intro h; injection h with h; subst h; exact this hl
        | ok c => simp

end Dask.Chunks
